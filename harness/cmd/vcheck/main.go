// Command vcheck is the orchestrator and worker of the gojq runtime monitors.
package main

import (
	"encoding/json"
	"flag"
	"fmt"
	"os"
	"path/filepath"
	"runtime/debug"
	"time"

	_ "verif/harness/internal/mon"
	"verif/harness/internal/run"
)

func root() string {
	if r := os.Getenv("VERIF_ROOT"); r != "" {
		return r
	}
	exe, _ := os.Executable()
	return filepath.Dir(filepath.Dir(exe))
}

func main() {
	if len(os.Args) < 2 {
		fmt.Println("usage: vcheck run <Cnn> quick|thorough | replay <file> | list")
		os.Exit(2)
	}
	switch os.Args[1] {
	case "list":
		for _, id := range run.Props() {
			fmt.Println(id)
		}
	case "run":
		tier := "quick"
		if len(os.Args) > 3 {
			tier = os.Args[3]
		} else if t := os.Getenv("VERIF_TIER"); t != "" {
			tier = t
		}
		os.Exit(run.Orchestrate(root(), os.Args[2], tier))
	case "worker":
		worker(os.Args[2:])
	case "replay":
		os.Exit(replay(os.Args[2]))
	case "modelcal":
		modelcal(len(os.Args) > 2)
	default:
		fmt.Println("unknown command", os.Args[1])
		os.Exit(2)
	}
}

func worker(args []string) {
	id, tier := args[0], args[1]
	fs := flag.NewFlagSet("worker", flag.ExitOnError)
	seed := fs.Int64("seed", 1, "")
	shard := fs.Int("shard", 0, "")
	nshards := fs.Int("nshards", 1, "")
	skip := fs.Int64("skip-to", 0, "")
	dump := fs.Int64("dump-seq", -1, "")
	out := fs.String("out", "", "")
	journal := fs.String("journal", "", "")
	fs.Parse(args[2:])
	p := run.GetProp(id)
	if p == nil {
		fmt.Fprintln(os.Stderr, "unknown property", id)
		os.Exit(2)
	}
	debug.SetMaxStack(256 << 20)
	c := run.NewCtx(id, tier, *seed, *shard, *nshards)
	c.SkipTo, c.DumpSeq = *skip, *dump
	c.OutPath = *out
	if *dump < 0 {
		if *journal != "" {
			if err := c.OpenJournal(*journal); err != nil {
				fmt.Fprintln(os.Stderr, err)
				os.Exit(2)
			}
		}
		c.Watchdog(90*time.Second, 3<<30)
	}
	p.Body(c)
	if *dump >= 0 {
		os.Exit(3) // not found
	}
	if *out != "" {
		if err := c.Finish(*out, true); err != nil {
			fmt.Fprintln(os.Stderr, err)
			os.Exit(2)
		}
	}
}

func replay(path string) int {
	b, err := os.ReadFile(path)
	if err != nil {
		fmt.Println(err)
		return 2
	}
	var v run.Violation
	if err := json.Unmarshal(b, &v); err != nil {
		fmt.Println(err)
		return 2
	}
	debug.SetMaxStack(256 << 20)
	tier := v.Tier
	if tier == "" {
		tier = "quick"
	}
	c := run.NewCtx(v.Property, tier, v.Seed, 0, 1)
	c.Replay = true
	c.Watchdog(90*time.Second, 3<<30)
	f, err := run.ReplayCase(c, v.Kind, v.Case)
	if err != nil {
		fmt.Println(err)
		return 2
	}
	quiet := os.Getenv("VERIF_QUIET_REPLAY") != ""
	if !quiet {
		fmt.Printf("property=%s kind=%s\ncase=%s\n", v.Property, v.Kind, string(v.Case))
		for _, l := range c.ReplayLog {
			fmt.Println(l)
		}
	}
	if f != nil {
		fmt.Printf("REPLAY: still violated: %s\n", f.Detail)
		if f.Sig != "" {
			fmt.Printf("sig=%s\n", f.Sig)
		}
		return 1
	}
	fmt.Println("REPLAY: the case passes on the current tree")
	return 0
}
