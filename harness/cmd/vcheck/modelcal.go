package main

import (
	"fmt"
	"sort"

	"verif/harness/internal/gen"
	"verif/harness/internal/model"
	"verif/harness/internal/mon"
	"verif/harness/internal/run"

	"github.com/itchyny/gojq"
)

// modelcal: development aid — compares the reference interpreter with the
// pinned corpus outputs and with the library on every library-level corpus case.
func modelcal(verbose bool) {
	cases := gen.SimpleCorpus()
	stats := map[string]int{}
	unsup := map[string]int{}
	for _, c := range cases {
		q, err := gojq.Parse(c.Query)
		if err != nil {
			stats["parse-error"]++
			continue
		}
		code, err := gojq.Compile(q)
		if err != nil {
			stats["compile-error"]++
			continue
		}
		var pinned []any
		bad := false
		for _, in := range c.Inputs {
			tr := run.RunCode(code, in, nil, 300000, 0)
			res := model.Run(q, in, nil, 300000, 0)
			diff, inc := mon.CmpModel(tr, res)
			pinned = append(pinned, res.Vals...)
			switch {
			case inc != "":
				stats["inconclusive"]++
				unsup[inc]++
				bad = true
			case diff != "":
				stats["DIFF-vs-gojq"]++
				fmt.Printf("DIFF %q on %s (%s): %s\n", c.Query, run.Clip(run.Canon(in)), c.Name, diff)
				bad = true
			default:
				stats["agree-with-gojq"]++
			}
			if res.Err != nil {
				bad = bad || !c.HasError
			}
		}
		if !bad && !c.HasError {
			if len(pinned) == len(c.Expected) {
				ok := true
				for i := range pinned {
					ok = ok && mon.MatchVal(pinned[i], c.Expected[i])
				}
				if ok {
					stats["model-reproduces-pinned-output"]++
				} else {
					stats["MODEL-VS-PINNED-DIFF"]++
					fmt.Printf("PINNED-DIFF %q (%s)\n", run.Clip(c.Query), c.Name)
					if verbose {
						for i := range pinned {
							if !mon.MatchVal(pinned[i], c.Expected[i]) {
								fmt.Printf("   #%d model %s\n      pinned %s\n", i, run.Canon(pinned[i]), run.Canon(c.Expected[i]))
							}
						}
					}
				}
			} else {
				stats["MODEL-VS-PINNED-DIFF"]++
				fmt.Printf("PINNED-DIFF(len) %q (%s): model %d pinned %d\n", c.Query, c.Name, len(pinned), len(c.Expected))
			}
		}
	}
	fmt.Println("cases:", len(cases), stats)
	type kv struct {
		k string
		v int
	}
	var ks []kv
	for k, v := range unsup {
		ks = append(ks, kv{k, v})
	}
	sort.Slice(ks, func(i, j int) bool { return ks[i].v > ks[j].v })
	for _, x := range ks {
		fmt.Printf("  %4d %s\n", x.v, x.k)
	}
}
