package run

import (
	"bytes"
	"context"
	"os"
	"os/exec"
	"path/filepath"
	"time"
)

// Root returns the /verif directory.
func Root() string {
	if r := os.Getenv("VERIF_ROOT"); r != "" {
		return r
	}
	exe, _ := os.Executable()
	return filepath.Dir(filepath.Dir(exe))
}

// GojqBin is the command built from /repo's working tree.
func GojqBin() string { return filepath.Join(Root(), "bin", "gojq") }

// CLIResult is the outcome of one process run.
type CLIResult struct {
	Stdout, Stderr []byte
	Code           int
	TimedOut       bool
	StartErr       error
}

// CLIOpt configures a process run.
type CLIOpt struct {
	Args      []string
	Stdin     []byte
	StdinFile string   // if set, stdin is this regular file
	StdinSkip int64    // ... positioned at this offset (as after another process has consumed a prefix)
	NoStdin   bool     // stdin is /dev/null
	Env       []string // full environment (nil => minimal default)
	Dir       string
	Timeout   time.Duration
	Wrap      []string // command prefix (e.g. /usr/bin/time -f %M): the gojq binary and Args are appended
}

var defaultEnv = []string{"PATH=/usr/bin:/bin", "HOME=/nonexistent", "LANG=C", "NO_COLOR="}

// DefaultEnv is the environment a command gets when CLIOpt.Env is nil.
func DefaultEnv() []string { return defaultEnv[:3] }

// CLI runs bin/gojq.
func CLI(o CLIOpt) CLIResult {
	to := o.Timeout
	if to == 0 {
		to = 60 * time.Second
	}
	ctx, cancel := context.WithTimeout(context.Background(), to)
	defer cancel()
	cmd := exec.CommandContext(ctx, GojqBin(), o.Args...)
	if len(o.Wrap) > 0 {
		cmd = exec.CommandContext(ctx, o.Wrap[0], append(append(append([]string{}, o.Wrap[1:]...), GojqBin()), o.Args...)...)
	}
	cmd.Env = o.Env
	if cmd.Env == nil {
		cmd.Env = defaultEnv[:3]
	}
	cmd.Dir = o.Dir
	var so, se bytes.Buffer
	cmd.Stdout, cmd.Stderr = &so, &se
	switch {
	case o.StdinFile != "":
		f, err := os.Open(o.StdinFile)
		if err != nil {
			return CLIResult{StartErr: err}
		}
		defer f.Close()
		if o.StdinSkip > 0 {
			if _, err := f.Seek(o.StdinSkip, 0); err != nil {
				return CLIResult{StartErr: err}
			}
		}
		cmd.Stdin = f
	case o.NoStdin:
		cmd.Stdin = nil
	default:
		cmd.Stdin = bytes.NewReader(o.Stdin)
	}
	err := cmd.Run()
	res := CLIResult{Stdout: so.Bytes(), Stderr: se.Bytes()}
	if ctx.Err() != nil {
		res.TimedOut = true
		return res
	}
	if err != nil {
		if ee, ok := err.(*exec.ExitError); ok {
			res.Code = ee.ExitCode()
		} else {
			res.StartErr = err
		}
	}
	return res
}
