package run

import (
	"bytes"
	"crypto/sha256"
	"encoding/binary"
	"encoding/hex"
	"encoding/json"
	"fmt"
	"os"
	"os/exec"
	"path/filepath"
	"sort"
	"strconv"
	"strings"
	"sync"
	"time"
)

// Prop is one property's check.
type Prop struct {
	ID            string
	Level         string // evidence level
	Rule          string // how cases are generated and what is non-trivial
	MinNontrivial int    // fewer conclusive non-trivial cases than this => INCONCLUSIVE
	Shards        int    // worker processes (0 => 16)
	Race          bool   // run workers from the race-detector build
	HangFails     bool   // a worker hang fails the check (C07)
	Assumptions   []string
	Body          func(c *Ctx)
	// Post runs in the orchestrator after all workers; it may add violations.
	Post func(o *Orch)
}

var props = map[string]*Prop{}

// Register adds a property check.
func Register(p *Prop) { props[p.ID] = p }

// Props lists registered ids.
func Props() []string {
	var ids []string
	for id := range props {
		ids = append(ids, id)
	}
	sort.Strings(ids)
	return ids
}

// GetProp returns a registered property.
func GetProp(id string) *Prop { return props[id] }

// KnownFinding is an entry of /verif/known_findings.json.
type KnownFinding struct {
	Property string          `json:"property"`
	Status   string          `json:"status"` // "known" | "fixed"
	ID       string          `json:"id"`
	What     string          `json:"what"`
	Commit   string          `json:"commit,omitempty"`
	Kind     string          `json:"kind,omitempty"`
	Case     json.RawMessage `json:"case,omitempty"`
	Sig      string          `json:"sig,omitempty"`
}

// Orch is the orchestrator state.
type Orch struct {
	P        *Prop
	Tier     string
	Seed     int64
	Root     string // /verif
	Work     string
	Exe      string
	Merged   Stats
	Distinct map[string]int
	Known    []KnownFinding
	KnownHit map[string]int
	Extra    map[string]any
	slow     []string
	lastSeqs map[int64]int // final sequence number -> number of workers that ended on it
	mu       sync.Mutex
}

// AddViolation lets Post add a violation.
func (o *Orch) AddViolation(v Violation) {
	o.mu.Lock()
	v.Property, v.Seed, v.Tier = o.P.ID, o.Seed, o.Tier
	o.Merged.Violations = append(o.Merged.Violations, v)
	o.mu.Unlock()
}

func caseSHA(kind string, raw json.RawMessage) string {
	var x any
	d := json.NewDecoder(bytes.NewReader(raw))
	d.UseNumber()
	if d.Decode(&x) == nil {
		if b, err := json.Marshal(x); err == nil { // map keys sorted => canonical
			raw = b
		}
	}
	h := sha256.Sum256(append([]byte(kind+"\x00"), raw...))
	return hex.EncodeToString(h[:8])
}

// Orchestrate runs a property check and returns the process exit code.
func Orchestrate(root, id, tier string) int {
	start := time.Now()
	p := props[id]
	if p == nil {
		fmt.Printf("INCONCLUSIVE property=%s unknown property\n", id)
		return 1
	}
	seed := int64(1)
	if s := os.Getenv("VERIF_SEED"); s != "" {
		if n, err := strconv.ParseInt(s, 10, 64); err == nil {
			seed = n
		}
	}
	exe, _ := os.Executable()
	if p.Race {
		exe = filepath.Join(root, "bin", "vcheck.race")
	}
	o := &Orch{P: p, Tier: tier, Seed: seed, Root: root, Exe: exe, Distinct: map[string]int{},
		KnownHit: map[string]int{}, Extra: map[string]any{}}
	o.Work = filepath.Join(root, "work", fmt.Sprintf("%s-%s-%d", id, tier, os.Getpid()))
	os.RemoveAll(o.Work)
	if err := os.MkdirAll(o.Work, 0o755); err != nil {
		fmt.Printf("INCONCLUSIVE property=%s cannot create work dir: %v\n", id, err)
		return 1
	}
	defer os.RemoveAll(o.Work)
	o.Merged = Stats{Counters: map[string]int64{}, Inconclusive: map[string]int64{}, Gauges: map[string]int64{}}
	if b, err := os.ReadFile(filepath.Join(root, "known_findings.json")); err == nil {
		var all []KnownFinding
		if err := json.Unmarshal(b, &all); err != nil {
			fmt.Printf("INCONCLUSIVE property=%s known_findings.json unreadable: %v\n", id, err)
			return 1
		}
		for _, k := range all {
			if k.Property == id {
				o.Known = append(o.Known, k)
			}
		}
	}

	// 1. regression cases from the known-findings file (exact cases), each in
	// its own child process because some of them kill the process.
	knownStillFailing := map[string]bool{}
	for i, k := range o.Known {
		if k.Kind == "" || len(k.Case) == 0 {
			continue
		}
		f := filepath.Join(o.Work, fmt.Sprintf("known-%d.json", i))
		b, _ := json.Marshal(Violation{Property: id, Kind: k.Kind, Case: k.Case, Seed: seed, Tier: tier})
		os.WriteFile(f, b, 0o644)
		cmd := exec.Command(exe, "replay", f)
		cmd.Env = append(o.workerEnv(), "VERIF_QUIET_REPLAY=1")
		out, err := cmd.CombinedOutput()
		failed := err != nil
		o.Merged.Counters["known_cases_rerun"]++
		if failed {
			if k.Status == "known" {
				knownStillFailing[k.ID] = true
				o.KnownHit[k.ID]++
			} else {
				detail := "regression of a fixed finding (" + k.ID + "): " + lastLines(string(out), 6)
				o.AddViolation(Violation{Kind: k.Kind, Case: k.Case, Detail: detail})
			}
		}
	}

	// 2. workers
	n := p.Shards
	if n <= 0 {
		n = 16
	}
	var wg sync.WaitGroup
	for i := 0; i < n; i++ {
		wg.Add(1)
		go func(i int) {
			defer wg.Done()
			o.runShard(i, n)
		}(i)
	}
	wg.Wait()

	// 3. merge distinct sets
	o.mergeSets(n)
	if p.Post != nil {
		p.Post(o)
	}

	// 4. classify violations against known findings
	var fresh []Violation
	for _, v := range o.Merged.Violations {
		matched := false
		for _, k := range o.Known {
			if k.Status != "known" {
				continue
			}
			if k.Sig != "" && v.Sig == k.Sig || k.Kind != "" && len(k.Case) > 0 && k.Kind == v.Kind && caseSHA(k.Kind, k.Case) == caseSHA(v.Kind, v.Case) {
				o.KnownHit[k.ID]++
				matched = true
				break
			}
		}
		if !matched {
			fresh = append(fresh, v)
		}
	}
	for _, k := range o.Known {
		if k.Status == "known" && o.KnownHit[k.ID] > 0 {
			fmt.Printf("KNOWN-FINDING: property=%s %s: %s\n", id, k.ID, k.What)
		}
	}
	// 5. replay files for fresh violations
	seen := map[string]bool{}
	var paths []string
	for _, v := range fresh {
		sha := caseSHA(v.Kind, v.Case)
		if seen[sha] {
			continue
		}
		seen[sha] = true
		dir := filepath.Join(root, "replays", id)
		os.MkdirAll(dir, 0o755)
		path := filepath.Join(dir, sha+".json")
		b, _ := json.MarshalIndent(v, "", " ")
		os.WriteFile(path, b, 0o644)
		paths = append(paths, path)
		if len(paths) <= 25 {
			fmt.Printf("VIOLATION property=%s replay=%s\n", id, path)
			fmt.Printf("  kind=%s %s\n", v.Kind, strings.ReplaceAll(clipN(v.Detail, 600), "\n", "\n  "))
		}
	}
	if len(paths) > 25 {
		fmt.Printf("  … and %d more distinct violating cases\n", len(paths)-25)
	}
	nontrivial := o.Distinct["nontrivial"]
	inconclusive := ""
	if len(fresh) == 0 {
		if o.Merged.Counters["worker_hang"] > 0 && p.HangFails {
			inconclusive = "a worker hung (a loop that never polls the context cannot be told from slowness)"
		} else if len(o.lastSeqs) > 1 {
			// every worker enumerates the same case list and runs its residue class; different list lengths mean the
			// enumeration depended on worker-local state, so some cases ran twice and others never
			inconclusive = fmt.Sprintf("harness: the workers enumerated case lists of different lengths %v; the partition of cases is not exact", o.lastSeqs)
		} else if nontrivial < p.MinNontrivial {
			inconclusive = fmt.Sprintf("only %d distinct non-trivial cases observed (minimum %d)", nontrivial, p.MinNontrivial)
		}
	}
	o.writeEvidence(len(fresh), time.Since(start).Seconds(), inconclusive)
	fmt.Printf("%s %s seed=%d: evaluations=%d distinct_nontrivial=%d violations=%d known=%d inconclusive=%v wall=%.1fs\n",
		id, tier, seed, o.Merged.Evaluations, nontrivial, len(paths), len(o.KnownHit), o.Merged.Inconclusive, time.Since(start).Seconds())
	if len(fresh) > 0 {
		return 1
	}
	if inconclusive != "" {
		fmt.Printf("INCONCLUSIVE property=%s %s\n", id, inconclusive)
		return 1
	}
	return 0
}

func clipN(s string, n int) string {
	if len(s) > n {
		return s[:n] + "…"
	}
	return s
}

func lastLines(s string, n int) string {
	ls := strings.Split(strings.TrimRight(s, "\n"), "\n")
	if len(ls) > n {
		ls = ls[len(ls)-n:]
	}
	return strings.Join(ls, "\n")
}

func (o *Orch) workerEnv() []string {
	env := os.Environ()
	// scratch files of the monitors live under the run's work directory, which is removed when the run ends
	// (a worker that is killed cannot clean up after itself)
	tmp := filepath.Join(o.Work, "tmp")
	os.MkdirAll(tmp, 0o755)
	env = append(env, "TMPDIR="+tmp)
	if o.P.Race {
		env = append(env, "GORACE=halt_on_error=0 exitcode=0 log_path="+filepath.Join(o.Work, "race.log")+" history_size=2")
	}
	return env
}

func (o *Orch) runShard(i, n int) {
	skip := int64(0)
	hangs := 0
	for attempt := 0; attempt < 40; attempt++ {
		out := filepath.Join(o.Work, fmt.Sprintf("w%d-%d.json", i, attempt))
		jf := filepath.Join(o.Work, fmt.Sprintf("w%d.journal", i))
		os.Remove(jf)
		errf := filepath.Join(o.Work, fmt.Sprintf("w%d-%d.stderr", i, attempt))
		ef, _ := os.Create(errf)
		cmd := exec.Command(o.Exe, "worker", o.P.ID, o.Tier,
			"--seed", strconv.FormatInt(o.Seed, 10), "--shard", strconv.Itoa(i), "--nshards", strconv.Itoa(n),
			"--skip-to", strconv.FormatInt(skip, 10), "--out", out, "--journal", jf)
		cmd.Stdout, cmd.Stderr = ef, ef
		cmd.Env = o.workerEnv()
		cmd.Dir = o.Work
		err := cmd.Run()
		ef.Close()
		var st Stats
		if b, rerr := os.ReadFile(out); rerr == nil {
			json.Unmarshal(b, &st)
		}
		o.mergeStats(&st)
		if b, rerr := os.ReadFile(errf); rerr == nil {
			for _, l := range strings.Split(string(b), "\n") {
				if strings.HasPrefix(l, "VERIF-SLOW ") {
					o.mu.Lock()
					if len(o.slow) < 10 {
						o.slow = append(o.slow, l)
					}
					o.mu.Unlock()
				}
			}
		}
		if err == nil && st.Finished {
			o.mu.Lock()
			if o.lastSeqs == nil {
				o.lastSeqs = map[int64]int{}
			}
			o.lastSeqs[st.LastSeq]++
			o.mu.Unlock()
			return
		}
		// the worker died: identify the case from the journal
		seq := ReadJournal(jf)
		code := -1
		if ee, ok := err.(*exec.ExitError); ok {
			code = ee.ExitCode()
		}
		tail := tailFile(errf, 6000)
		o.mu.Lock()
		o.Merged.Counters["worker_deaths"]++
		o.mu.Unlock()
		if seq < 0 {
			o.AddViolation(Violation{Kind: "worker", Case: json.RawMessage(`"worker died before its first case"`),
				Detail: fmt.Sprintf("exit=%d\n%s", code, tail), Crash: true})
			return
		}
		kind, cs := o.dumpCase(i, n, seq)
		switch {
		case code == ExitResource || strings.Contains(tail, "out of memory") || strings.Contains(tail, "cannot allocate memory"):
			o.mu.Lock()
			o.Merged.Inconclusive["resource"]++
			o.mu.Unlock()
			fmt.Printf("RESOURCE property=%s kind=%s case=%s\n", o.P.ID, kind, clipN(string(cs), 400))
		case code == ExitHang:
			o.mu.Lock()
			o.Merged.Inconclusive["hang"]++
			o.Merged.Counters["worker_hang"]++
			o.mu.Unlock()
			fmt.Printf("HANG property=%s kind=%s case=%s\n", o.P.ID, kind, clipN(string(cs), 400))
			// every hang costs the watchdog's patience; a tree on which case after case blocks for ever (a deadlock) would keep
			// the check busy for hours. After five hangs the shard is given up: what it has not run is inconclusive
			if hangs++; hangs >= 5 {
				o.mu.Lock()
				o.Merged.Inconclusive["shard-given-up-after-5-hangs"]++
				o.mu.Unlock()
				fmt.Printf("INCONCLUSIVE property=%s shard %d/%d given up after %d hangs; its cases from #%d on were not run\n", o.P.ID, i, n, hangs, seq+1)
				return
			}
		default:
			o.AddViolation(Violation{Kind: kind, Case: cs, Crash: true,
				Detail: fmt.Sprintf("worker process died (exit=%d) while running this case:\n%s", code, firstFatal(tail))})
		}
		skip = seq + 1
	}
}

func firstFatal(tail string) string {
	for _, m := range []string{"fatal error:", "panic:", "WARNING: DATA RACE"} {
		if i := strings.Index(tail, m); i >= 0 {
			return clipN(tail[i:], 1500)
		}
	}
	return clipN(tail, 1500)
}

func tailFile(path string, n int) string {
	b, err := os.ReadFile(path)
	if err != nil {
		return ""
	}
	// keep the head (first fatal line) and the tail
	if len(b) > 2*n {
		return string(b[:n]) + "\n…\n" + string(b[len(b)-n:])
	}
	return string(b)
}

func (o *Orch) dumpCase(i, n int, seq int64) (string, json.RawMessage) {
	cmd := exec.Command(o.Exe, "worker", o.P.ID, o.Tier,
		"--seed", strconv.FormatInt(o.Seed, 10), "--shard", strconv.Itoa(i), "--nshards", strconv.Itoa(n),
		"--dump-seq", strconv.FormatInt(seq, 10))
	cmd.Dir = o.Work
	cmd.Env = os.Environ()
	out, err := cmd.Output()
	var x struct {
		Kind string          `json:"kind"`
		Case json.RawMessage `json:"case"`
	}
	if err != nil || json.Unmarshal(out, &x) != nil {
		return "unknown", json.RawMessage(fmt.Sprintf(`"case #%d of shard %d/%d could not be regenerated"`, seq, i, n))
	}
	return x.Kind, x.Case
}

func (o *Orch) mergeStats(st *Stats) {
	o.mu.Lock()
	defer o.mu.Unlock()
	o.Merged.Evaluations += st.Evaluations
	for k, v := range st.Counters {
		o.Merged.Counters[k] += v
	}
	for k, v := range st.Inconclusive {
		o.Merged.Inconclusive[k] += v
	}
	for k, v := range st.Gauges {
		if v > o.Merged.Gauges[k] {
			o.Merged.Gauges[k] = v
		}
	}
	o.Merged.Violations = append(o.Merged.Violations, st.Violations...)
	for _, s := range st.Samples {
		if s != nil && len(o.Merged.Samples) < 10 {
			o.Merged.Samples = append(o.Merged.Samples, s)
		}
	}
	for _, s := range st.Sets {
		found := false
		for _, t := range o.Merged.Sets {
			found = found || s == t
		}
		if !found {
			o.Merged.Sets = append(o.Merged.Sets, s)
		}
	}
}

func (o *Orch) mergeSets(n int) {
	for _, set := range o.Merged.Sets {
		var all []uint64
		files, _ := filepath.Glob(filepath.Join(o.Work, "w*.json."+set+".u64"))
		for _, f := range files {
			b, err := os.ReadFile(f)
			if err != nil {
				continue
			}
			for i := 0; i+8 <= len(b); i += 8 {
				all = append(all, binary.LittleEndian.Uint64(b[i:]))
			}
		}
		sort.Slice(all, func(i, j int) bool { return all[i] < all[j] })
		cnt := 0
		for i, h := range all {
			if i == 0 || h != all[i-1] {
				cnt++
			}
		}
		o.Distinct[set] = cnt
	}
}

func (o *Orch) writeEvidence(violations int, wall float64, inconclusive string) {
	samples := o.Merged.Samples
	if len(samples) == 0 {
		samples = []any{"(no case was sampled)"}
	}
	distinct := map[string]int{}
	for k, v := range o.Distinct {
		if k != "nontrivial" {
			distinct[k] = v
		}
	}
	known := []string{}
	for id := range o.KnownHit {
		known = append(known, id)
	}
	sort.Strings(known)
	cov := map[string]any{
		"evaluations":         o.Merged.Evaluations,
		"distinct_nontrivial": o.Distinct["nontrivial"],
		"rule":                o.P.Rule,
		"samples":             samples,
		"observed":            o.Merged.Counters,
		"observed_gauges":     o.Merged.Gauges,
		"observed_distinct":   distinct,
		"inconclusive":        o.Merged.Inconclusive,
		"known_findings_seen": known,
		"exhaustive":          false,
	}
	for k, v := range o.Extra {
		cov[k] = v
	}
	if len(o.slow) > 0 {
		cov["slow_cases"] = o.slow
	}
	ev := map[string]any{
		"property_id": o.P.ID,
		"tier":        o.Tier,
		"seed":        o.Seed,
		"level":       o.P.Level,
		"coverage":    cov,
		"assumptions": o.P.Assumptions,
		"wall_s":      wall,
		"violations":  violations,
	}
	if inconclusive != "" {
		ev["verdict"] = "inconclusive: " + inconclusive
	} else if violations > 0 {
		ev["verdict"] = "violated"
	} else {
		ev["verdict"] = "held on what was observed"
	}
	b, _ := json.MarshalIndent(ev, "", " ")
	os.MkdirAll(filepath.Join(o.Root, "evidence"), 0o755)
	os.WriteFile(filepath.Join(o.Root, "evidence", o.P.ID+".json"), append(b, '\n'), 0o644)
}
