package run

import (
	"encoding/hex"
	"encoding/json"
	"fmt"
	"math"
	"math/big"
	"sort"
	"strconv"
	"unicode/utf8"
)

// TV is a JSON-serialisable wrapper around a Go value of the types gojq
// supports; it preserves the Go representation (int / *big.Int / json.Number /
// float64 incl. NaN and infinities, invalid UTF-8 strings, nil vs empty).
type TV struct{ V any }

func (t TV) MarshalJSON() ([]byte, error) { return json.Marshal(encTV(t.V)) }

func (t *TV) UnmarshalJSON(b []byte) error {
	var x any
	d := json.NewDecoder(bytesReader(b))
	d.UseNumber()
	if err := d.Decode(&x); err != nil {
		return err
	}
	v, err := decTV(x)
	if err != nil {
		return err
	}
	t.V = v
	return nil
}

func encStr(s string) any {
	if utf8.ValidString(s) {
		return s
	}
	return map[string]any{"$b": hex.EncodeToString([]byte(s))}
}

func encTV(v any) any {
	switch v := v.(type) {
	case nil:
		return nil
	case bool:
		return v
	case string:
		return encStr(v)
	case int:
		return map[string]any{"$i": strconv.Itoa(v)}
	case float64:
		switch {
		case math.IsNaN(v):
			return map[string]any{"$f": "NaN"}
		case math.IsInf(v, 1):
			return map[string]any{"$f": "+Inf"}
		case math.IsInf(v, -1):
			return map[string]any{"$f": "-Inf"}
		}
		return map[string]any{"$f": strconv.FormatFloat(v, 'g', -1, 64)}
	case *big.Int:
		if v == nil {
			return map[string]any{"$B": "nil"}
		}
		return map[string]any{"$B": v.String()}
	case json.Number:
		return map[string]any{"$n": string(v)}
	case []any:
		if v == nil {
			return map[string]any{"$a": "nil"}
		}
		xs := make([]any, len(v))
		for i, x := range v {
			xs[i] = encTV(x)
		}
		return xs
	case map[string]any:
		if v == nil {
			return map[string]any{"$o": "nil"}
		}
		keys := make([]string, 0, len(v))
		for k := range v {
			keys = append(keys, k)
		}
		sort.Strings(keys)
		ps := make([]any, 0, len(v))
		for _, k := range keys {
			ps = append(ps, []any{encStr(k), encTV(v[k])})
		}
		return map[string]any{"$o": ps}
	default:
		return map[string]any{"$x": fmt.Sprintf("%T:%v", v, v)}
	}
}

func decStr(x any) (string, error) {
	switch x := x.(type) {
	case string:
		return x, nil
	case map[string]any:
		if h, ok := x["$b"].(string); ok {
			b, err := hex.DecodeString(h)
			return string(b), err
		}
	}
	return "", fmt.Errorf("bad string encoding %v", x)
}

func decTV(x any) (any, error) {
	switch x := x.(type) {
	case nil:
		return nil, nil
	case bool:
		return x, nil
	case string:
		return x, nil
	case json.Number:
		return nil, fmt.Errorf("bare number %s in tagged value", x)
	case []any:
		xs := make([]any, len(x))
		for i, e := range x {
			v, err := decTV(e)
			if err != nil {
				return nil, err
			}
			xs[i] = v
		}
		return xs, nil
	case map[string]any:
		for k, e := range x {
			switch k {
			case "$b":
				return decStr(x)
			case "$i":
				n, err := strconv.Atoi(e.(string))
				return n, err
			case "$f":
				switch e.(string) {
				case "NaN":
					return math.NaN(), nil
				case "+Inf":
					return math.Inf(1), nil
				case "-Inf":
					return math.Inf(-1), nil
				}
				f, err := strconv.ParseFloat(e.(string), 64)
				return f, err
			case "$B":
				if e.(string) == "nil" {
					return (*big.Int)(nil), nil
				}
				b, ok := new(big.Int).SetString(e.(string), 10)
				if !ok {
					return nil, fmt.Errorf("bad big %v", e)
				}
				return b, nil
			case "$n":
				return json.Number(e.(string)), nil
			case "$a":
				return []any(nil), nil
			case "$o":
				if s, ok := e.(string); ok && s == "nil" {
					return map[string]any(nil), nil
				}
				m := map[string]any{}
				for _, p := range e.([]any) {
					kv := p.([]any)
					ks, err := decStr(kv[0])
					if err != nil {
						return nil, err
					}
					v, err := decTV(kv[1])
					if err != nil {
						return nil, err
					}
					m[ks] = v
				}
				return m, nil
			}
		}
	}
	return nil, fmt.Errorf("bad tagged value %v", x)
}

// TVs wraps a slice of values.
func TVs(vs []any) []TV {
	out := make([]TV, len(vs))
	for i, v := range vs {
		out[i] = TV{v}
	}
	return out
}

// UnTVs unwraps.
func UnTVs(ts []TV) []any {
	out := make([]any, len(ts))
	for i, t := range ts {
		out[i] = t.V
	}
	return out
}
