package run

import (
	"bytes"
	"encoding/json"
	"fmt"
	"hash/fnv"
	"io"
	"math"
	"math/big"
	"sort"
	"strconv"
	"strings"
	"unicode/utf8"
)

func bytesReader(b []byte) io.Reader { return bytes.NewReader(b) }

// Canon returns the harness-owned canonical text of a value. Numbers are
// normalised across Go representations by exact numeric value (an integral
// float prints like the integer), NaN and infinities are kept distinct from
// every JSON value, object keys are sorted, invalid UTF-8 bytes are kept
// (escaped as \xNN) so they differ from U+FFFD. It shares no code with gojq.
func Canon(v any) string {
	var sb strings.Builder
	canonTo(&sb, v)
	return sb.String()
}

// CanonList returns the canonical text of a list of values.
func CanonList(vs []any) string {
	var sb strings.Builder
	for i, v := range vs {
		if i > 0 {
			sb.WriteByte('\n')
		}
		canonTo(&sb, v)
	}
	return sb.String()
}

// NumCanon returns the canonical text of a number in any representation, or
// ok=false if v is not a number.
func NumCanon(v any) (string, bool) {
	switch v := v.(type) {
	case int:
		return strconv.Itoa(v), true
	case *big.Int:
		if v == nil {
			return "<nil *big.Int>", true
		}
		return v.String(), true
	case float64:
		return floatCanon(v), true
	case json.Number:
		s := string(v)
		if isIntLiteral(s) {
			b, ok := new(big.Int).SetString(s, 10)
			if ok {
				return b.String(), true
			}
		}
		f, err := strconv.ParseFloat(s, 64)
		if err != nil && !math.IsInf(f, 0) {
			return "<bad json.Number " + strconv.Quote(s) + ">", true
		}
		return floatCanon(f), true
	}
	return "", false
}

func isIntLiteral(s string) bool {
	if s == "" {
		return false
	}
	i := 0
	if s[0] == '-' || s[0] == '+' {
		i = 1
	}
	if i == len(s) {
		return false
	}
	for ; i < len(s); i++ {
		if s[i] < '0' || s[i] > '9' {
			return false
		}
	}
	return true
}

func floatCanon(f float64) string {
	switch {
	case math.IsNaN(f):
		return "NaN"
	case math.IsInf(f, 1):
		return "+Inf"
	case math.IsInf(f, -1):
		return "-Inf"
	case f == 0:
		return "0" // -0 == 0 in jq's order and arithmetic results
	case f == math.Trunc(f):
		b, _ := new(big.Float).SetFloat64(f).Int(nil)
		return b.String()
	}
	return strconv.FormatFloat(f, 'g', -1, 64)
}

func canonStr(sb *strings.Builder, s string) {
	sb.WriteByte('"')
	for i := 0; i < len(s); {
		r, n := utf8.DecodeRuneInString(s[i:])
		switch {
		case r == utf8.RuneError && n == 1:
			fmt.Fprintf(sb, "\\x%02x", s[i])
		case r == '"' || r == '\\':
			sb.WriteByte('\\')
			sb.WriteRune(r)
		case r < 0x20 || r == 0x7f:
			fmt.Fprintf(sb, "\\u%04x", r)
		default:
			sb.WriteString(s[i : i+n])
		}
		i += n
	}
	sb.WriteByte('"')
}

func canonTo(sb *strings.Builder, v any) {
	switch v := v.(type) {
	case nil:
		sb.WriteString("null")
	case bool:
		if v {
			sb.WriteString("true")
		} else {
			sb.WriteString("false")
		}
	case string:
		canonStr(sb, v)
	case []any:
		sb.WriteByte('[')
		for i, x := range v {
			if i > 0 {
				sb.WriteByte(',')
			}
			canonTo(sb, x)
		}
		sb.WriteByte(']')
	case map[string]any:
		keys := make([]string, 0, len(v))
		for k := range v {
			keys = append(keys, k)
		}
		sort.Strings(keys)
		sb.WriteByte('{')
		for i, k := range keys {
			if i > 0 {
				sb.WriteByte(',')
			}
			canonStr(sb, k)
			sb.WriteByte(':')
			canonTo(sb, v[k])
		}
		sb.WriteByte('}')
	default:
		if s, ok := NumCanon(v); ok {
			sb.WriteString(s)
			return
		}
		if e, ok := v.(error); ok {
			fmt.Fprintf(sb, "<error %T %q>", v, e.Error())
			return
		}
		fmt.Fprintf(sb, "<unsupported %T>", v)
	}
}

// Hash64 hashes a string.
func Hash64(s string) uint64 {
	h := fnv.New64a()
	io.WriteString(h, s)
	return h.Sum64()
}

// DeepCopy copies containers of a gojq value (numbers and strings are
// immutable or treated as such; *big.Int is copied).
func DeepCopy(v any) any {
	switch v := v.(type) {
	case []any:
		if v == nil {
			return v
		}
		w := make([]any, len(v))
		for i, x := range v {
			w[i] = DeepCopy(x)
		}
		return w
	case map[string]any:
		if v == nil {
			return v
		}
		w := make(map[string]any, len(v))
		for k, x := range v {
			w[k] = DeepCopy(x)
		}
		return w
	case *big.Int:
		if v == nil {
			return v
		}
		return new(big.Int).Set(v)
	default:
		return v
	}
}

// ValidOutput reports whether v consists only of the Go types gojq may emit.
func ValidOutput(v any) bool {
	switch v := v.(type) {
	case nil, bool, int, float64, json.Number, string:
		return true
	case *big.Int:
		return v != nil
	case []any:
		for _, x := range v {
			if !ValidOutput(x) {
				return false
			}
		}
		return true
	case map[string]any:
		for _, x := range v {
			if !ValidOutput(x) {
				return false
			}
		}
		return true
	}
	return false
}
