package run

import (
	"encoding/binary"
	"encoding/json"
	"fmt"
	"math/rand/v2"
	"os"
	"runtime"
	"runtime/debug"
	"runtime/pprof"
	"sort"
	"sync"
	"sync/atomic"
	"time"
)

// Fail describes a violation found by a monitor on one case.
type Fail struct {
	Detail string `json:"detail"`
	Sig    string `json:"sig,omitempty"` // narrow signature for known-finding matching
}

// Failf builds a Fail.
func Failf(format string, a ...any) *Fail { return &Fail{Detail: fmt.Sprintf(format, a...)} }

// Violation is a failed case with everything needed to replay it.
type Violation struct {
	Property string          `json:"property"`
	Kind     string          `json:"kind"`
	Case     json.RawMessage `json:"case"`
	Detail   string          `json:"detail"`
	Sig      string          `json:"sig,omitempty"`
	Seed     int64           `json:"seed"`
	Tier     string          `json:"tier"`
	Crash    bool            `json:"crash,omitempty"`
}

// Stats is what a worker observed.
type Stats struct {
	Evaluations  int64            `json:"evaluations"`
	Counters     map[string]int64 `json:"counters"`
	Inconclusive map[string]int64 `json:"inconclusive"`
	Gauges       map[string]int64 `json:"gauges"` // merged by max
	Samples      []any            `json:"samples"`
	Violations   []Violation      `json:"violations"`
	Sets         []string         `json:"sets"` // names of distinct sets (sidecar files)
	Finished     bool             `json:"finished"`
	LastSeq      int64            `json:"last_seq"`
}

// Ctx is the per-worker context handed to a property's body.
type Ctx struct {
	Prop    string
	Tier    string
	Seed    int64
	Shard   int
	NShards int
	SkipTo  int64
	DumpSeq int64
	Replay  bool // running a single replay case
	OutPath string

	seq      int64
	progress atomic.Int64
	jf       *os.File
	mu       sync.Mutex
	st       Stats
	sets     map[string]map[uint64]struct{}
	nsample  int
	srng     *rand.Rand
	// ReplayOut collects human-readable output in replay mode
	ReplayLog []string
}

// NewCtx creates a worker context.
func NewCtx(prop, tier string, seed int64, shard, nshards int) *Ctx {
	return &Ctx{Prop: prop, Tier: tier, Seed: seed, Shard: shard, NShards: nshards, DumpSeq: -1,
		st:   Stats{Counters: map[string]int64{}, Inconclusive: map[string]int64{}, Gauges: map[string]int64{}},
		sets: map[string]map[uint64]struct{}{},
		srng: rand.New(rand.NewPCG(uint64(seed), 0x5a17)),
	}
}

// Quick reports whether this is the quick tier.
func (c *Ctx) Quick() bool { return c.Tier != "thorough" }

// N picks a count by tier.
func (c *Ctx) N(quick, thorough int) int {
	if c.Quick() {
		return quick
	}
	return thorough
}

// Rand returns a PRNG determined by (seed, stream name).
func (c *Ctx) Rand(stream string) *rand.Rand {
	return rand.New(rand.NewPCG(uint64(c.Seed)*0x9e3779b97f4a7c15+1, Hash64(stream)))
}

// Logf records a line shown in replay mode.
func (c *Ctx) Logf(format string, a ...any) {
	if c.Replay {
		c.ReplayLog = append(c.ReplayLog, fmt.Sprintf(format, a...))
	}
}

// Count adds to a named counter.
func (c *Ctx) Count(name string, n int64) {
	c.mu.Lock()
	c.st.Counters[name] += n
	c.mu.Unlock()
}

// Gauge records a value merged across workers by maximum.
func (c *Ctx) Gauge(name string, v int64) {
	c.mu.Lock()
	if v > c.st.Gauges[name] {
		c.st.Gauges[name] = v
	}
	c.mu.Unlock()
}

// AddEvals counts additional evaluations made inside one (batched) case.
func (c *Ctx) AddEvals(n int64) {
	c.mu.Lock()
	c.st.Evaluations += n
	c.mu.Unlock()
}

// Inconclusive counts an inconclusive case by reason.
func (c *Ctx) Inconclusive(reason string) {
	c.mu.Lock()
	c.st.Inconclusive[reason]++
	c.mu.Unlock()
}

// Distinct adds key to a named distinct set.
func (c *Ctx) Distinct(set, key string) {
	h := Hash64(key)
	c.mu.Lock()
	m := c.sets[set]
	if m == nil {
		m = map[uint64]struct{}{}
		c.sets[set] = m
	}
	m[h] = struct{}{}
	c.mu.Unlock()
}

// Nontrivial records a distinct non-trivial case key.
func (c *Ctx) Nontrivial(key string) { c.Distinct("nontrivial", key) }

// Sample offers a case for the evidence samples (a few are kept).
func (c *Ctx) Sample(v any) {
	c.mu.Lock()
	defer c.mu.Unlock()
	if len(c.st.Samples) < sampleKeep+2 {
		c.st.Samples = append(c.st.Samples, v)
	}
}

// Violate records a violation directly (used by monitors that do not go
// through a Kind, e.g. log scanners).
func (c *Ctx) Violate(kind string, cs any, f *Fail) {
	raw, err := json.Marshal(cs)
	if err != nil {
		raw, _ = json.Marshal(fmt.Sprintf("unmarshalable case: %v", err))
	}
	c.mu.Lock()
	defer c.mu.Unlock()
	if len(c.st.Violations) < 200 {
		c.st.Violations = append(c.st.Violations, Violation{Property: c.Prop, Kind: kind, Case: raw,
			Detail: f.Detail, Sig: f.Sig, Seed: c.Seed, Tier: c.Tier})
	}
	c.st.Counters["violations_total"]++
}

// replayable is implemented by every Kind.
type replayable interface {
	replay(c *Ctx, raw json.RawMessage) *Fail
}

var (
	kindsMu sync.Mutex
	kinds   = map[string]replayable{}
)

// Kind is a family of cases with one deciding function. Cases must be
// JSON-serialisable (use TV for gojq values); the same Run decides generated
// and replayed cases.
type Kind[T any] struct {
	Name string
	Run  func(c *Ctx, t T) *Fail
}

// NewKind registers a kind (call from package init / var declarations).
func NewKind[T any](name string, run func(c *Ctx, t T) *Fail) *Kind[T] {
	k := &Kind[T]{Name: name, Run: run}
	kindsMu.Lock()
	if _, dup := kinds[name]; dup {
		panic("duplicate kind " + name)
	}
	kinds[name] = k
	kindsMu.Unlock()
	return k
}

func (k *Kind[T]) replay(c *Ctx, raw json.RawMessage) *Fail {
	var t T
	if err := json.Unmarshal(raw, &t); err != nil {
		return Failf("replay: cannot decode case: %v", err)
	}
	return k.safeRun(c, t)
}

func (k *Kind[T]) safeRun(c *Ctx, t T) (f *Fail) {
	defer func() {
		if r := recover(); r != nil {
			f = Failf("panic in monitor %s: %v\n%s", k.Name, r, trimStack(debug.Stack()))
		}
	}()
	return k.Run(c, t)
}

// Do runs the case if it belongs to this shard.
func (k *Kind[T]) Do(c *Ctx, t T) {
	seq := c.seq
	c.seq++
	c.progress.Add(1)
	if c.NShards > 1 && int(seq%int64(c.NShards)) != c.Shard {
		return
	}
	if seq < c.SkipTo {
		return
	}
	if c.DumpSeq >= 0 {
		if seq == c.DumpSeq {
			raw, _ := json.Marshal(t)
			out, _ := json.Marshal(map[string]any{"kind": k.Name, "case": json.RawMessage(raw)})
			os.Stdout.Write(out)
			os.Exit(0)
		}
		return
	}
	c.journal(seq)
	c.mu.Lock()
	c.st.Evaluations++
	c.nsample++
	take := -1
	if len(c.st.Samples) < sampleKeep {
		take = len(c.st.Samples)
		c.st.Samples = append(c.st.Samples, nil)
	} else if j := c.srng.IntN(c.nsample); j < sampleKeep && j >= 1 {
		take = j
	}
	c.mu.Unlock()
	if take >= 0 {
		if raw, err := json.Marshal(t); err == nil && len(raw) < 4000 {
			c.mu.Lock()
			c.st.Samples[take] = map[string]any{"kind": k.Name, "case": json.RawMessage(raw)}
			c.mu.Unlock()
		}
	}
	t0 := time.Now()
	f := k.safeRun(c, t)
	if d := time.Since(t0); d > 2*time.Second {
		c.Count("slow_cases_over_2s", 1)
		if raw, err := json.Marshal(t); err == nil {
			fmt.Fprintf(os.Stderr, "VERIF-SLOW %s %.1fs %s\n", k.Name, d.Seconds(), clipBytes(raw, 600))
		}
	}
	if f != nil {
		c.Violate(k.Name, t, f)
	}
}

func clipBytes(b []byte, n int) string {
	if len(b) > n {
		return string(b[:n]) + "…"
	}
	return string(b)
}

const sampleKeep = 4

// Mine reports whether the next case (without consuming a sequence number)
// would belong to this shard; generators may use it to skip expensive setup.
func (c *Ctx) Mine() bool {
	return c.NShards <= 1 || int(c.seq%int64(c.NShards)) == c.Shard
}

// Skip consumes one sequence number without running anything.
func (c *Ctx) Skip() { c.seq++; c.progress.Add(1) }

func (c *Ctx) journal(seq int64) {
	if c.jf == nil {
		return
	}
	var b [8]byte
	binary.LittleEndian.PutUint64(b[:], uint64(seq)+1)
	c.jf.WriteAt(b[:], 0)
}

// OpenJournal opens the journal file.
func (c *Ctx) OpenJournal(path string) error {
	f, err := os.OpenFile(path, os.O_CREATE|os.O_RDWR|os.O_TRUNC, 0o644)
	if err != nil {
		return err
	}
	c.jf = f
	return nil
}

// ReadJournal returns the last journalled sequence number, or -1.
func ReadJournal(path string) int64 {
	b, err := os.ReadFile(path)
	if err != nil || len(b) < 8 {
		return -1
	}
	return int64(binary.LittleEndian.Uint64(b)) - 1
}

// Finish writes the worker's stats and distinct-set sidecars.
func (c *Ctx) Finish(out string, finished bool) error {
	c.mu.Lock()
	defer c.mu.Unlock()
	c.st.Finished = finished
	c.st.LastSeq = c.seq
	for name, m := range c.sets {
		c.st.Sets = append(c.st.Sets, name)
		buf := make([]byte, 0, 8*len(m))
		for h := range m {
			buf = binary.LittleEndian.AppendUint64(buf, h)
		}
		if err := os.WriteFile(out+"."+name+".u64", buf, 0o644); err != nil {
			return err
		}
	}
	sort.Strings(c.st.Sets)
	b, err := json.Marshal(&c.st)
	if err != nil {
		// samples may be unmarshalable; drop them
		c.st.Samples = nil
		b, err = json.Marshal(&c.st)
		if err != nil {
			return err
		}
	}
	return os.WriteFile(out, b, 0o644)
}

// Stats returns a copy of the counters (replay mode).
func (c *Ctx) StatsCopy() Stats { return c.st }

// Exit codes of a worker.
const (
	ExitHang     = 97
	ExitResource = 98
)

// Watchdog exits the process when no case has been started for hang, or the
// heap exceeds maxHeap. Both are "inconclusive" outcomes for the orchestrator.
func (c *Ctx) Watchdog(hang time.Duration, maxHeap uint64) {
	go func() {
		last, lastChange := int64(-1), time.Now()
		var ms runtime.MemStats
		for {
			time.Sleep(200 * time.Millisecond)
			if p := c.progress.Load(); p != last {
				last, lastChange = p, time.Now()
			} else if time.Since(lastChange) > hang {
				fmt.Fprintf(os.Stderr, "VERIF-WATCHDOG: no progress for %v\n", hang)
				pprof.Lookup("goroutine").WriteTo(os.Stderr, 1)
				c.saveOnExit()
				os.Exit(ExitHang)
			}
			runtime.ReadMemStats(&ms)
			if ms.HeapAlloc > maxHeap {
				fmt.Fprintf(os.Stderr, "VERIF-WATCHDOG: heap %d MiB exceeds limit\n", ms.HeapAlloc>>20)
				c.saveOnExit()
				os.Exit(ExitResource)
			}
		}
	}()
}

// saveOnExit writes what was observed so far when the watchdog ends the worker.
func (c *Ctx) saveOnExit() {
	if c.OutPath == "" {
		return
	}
	done := make(chan struct{})
	go func() { c.Finish(c.OutPath, false); close(done) }()
	select {
	case <-done:
	case <-time.After(10 * time.Second):
	}
}

// ReplayCase re-runs one case of a registered kind.
func ReplayCase(c *Ctx, kind string, raw json.RawMessage) (*Fail, error) {
	kindsMu.Lock()
	k, ok := kinds[kind]
	kindsMu.Unlock()
	if !ok {
		return nil, fmt.Errorf("unknown kind %q", kind)
	}
	return k.replay(c, raw), nil
}
