package run

import (
	"context"
	"errors"
	"fmt"
	"reflect"
	"runtime/debug"
	"strings"
	"time"

	"github.com/itchyny/gojq"
)

// PollCtx is a context whose Done method counts its calls. The gojq VM polls
// Done once per instruction, so CloseAt is an instruction index: the
// CloseAt-th call (1-based) and every later call return a closed channel.
// CloseAt <= 0 never closes. It is not safe for concurrent use (one per run).
type PollCtx struct {
	N       int64
	CloseAt int64
	E       error
}

var closedCh = func() chan struct{} { c := make(chan struct{}); close(c); return c }()

// ErrBudget is returned by a budget context.
var ErrBudget = errors.New("verif: instruction budget exhausted")

func (c *PollCtx) Deadline() (time.Time, bool) { return time.Time{}, false }
func (c *PollCtx) Value(any) any               { return nil }
func (c *PollCtx) Err() error {
	if c.CloseAt > 0 && c.N >= c.CloseAt {
		return c.E
	}
	return nil
}
func (c *PollCtx) Done() <-chan struct{} {
	c.N++
	if c.CloseAt > 0 && c.N >= c.CloseAt {
		return closedCh
	}
	return nil
}

var _ context.Context = (*PollCtx)(nil)

// Budget returns a budget context of n instructions.
func Budget(n int64) *PollCtx { return &PollCtx{CloseAt: n, E: ErrBudget} }

// EndKind says how a trace ended.
type EndKind int

const (
	EndOK     EndKind = iota // iterator exhausted
	EndError                 // first uncaught error
	EndBudget                // instruction budget exhausted (inconclusive tail)
	EndPanic                 // Go panic recovered
	EndLimit                 // output limit reached (inconclusive tail)
)

func (k EndKind) String() string {
	return [...]string{"end", "error", "budget", "panic", "limit"}[k]
}

// Trace is the observable behaviour of one run.
type Trace struct {
	Vals   []any
	End    EndKind
	Err    error  // for EndError
	Panic  string // for EndPanic
	Polls  int64
	PollAt []int64 // poll count at each emission (if recorded)
}

// ErrClass classifies an error: "user" (carries a value), "halt", "internal".
func ErrClass(err error) string {
	var h *gojq.HaltError
	if errors.As(err, &h) {
		return "halt"
	}
	if _, ok := err.(gojq.ValueError); ok {
		return "user"
	}
	return "internal"
}

// ErrValue returns the value carried by a user/halt error.
func ErrValue(err error) any {
	if ve, ok := err.(gojq.ValueError); ok {
		return ve.Value()
	}
	return nil
}

// Drain runs an iterator to its first error, exhaustion, or limit.
func Drain(iter gojq.Iter, ctx *PollCtx, maxOut int, recordPolls bool) (tr Trace) {
	defer func() {
		if r := recover(); r != nil {
			tr.End = EndPanic
			tr.Panic = fmt.Sprintf("%v\n%s", r, trimStack(debug.Stack()))
		}
		if ctx != nil {
			tr.Polls = ctx.N
		}
	}()
	for {
		v, ok := iter.Next()
		if !ok {
			tr.End = EndOK
			return
		}
		if err, ok := v.(error); ok {
			if err == ErrBudget {
				tr.End = EndBudget
				return
			}
			tr.End, tr.Err = EndError, err
			return
		}
		if Huge(v, 200000) {
			if Cyclic(v) {
				tr.End, tr.Panic = EndPanic, ErrCyclic
				return
			}
			// a value whose unfolding is huge (shared structure duplicated by the program): comparing it
			// would take longer than computing it; treat the rest as an inconclusive tail
			tr.End = EndBudget
			return
		}
		tr.Vals = append(tr.Vals, v)
		if recordPolls && ctx != nil {
			tr.PollAt = append(tr.PollAt, ctx.N)
		}
		if maxOut > 0 && len(tr.Vals) >= maxOut {
			tr.End = EndLimit
			return
		}
	}
}

func trimStack(b []byte) string {
	s := string(b)
	if len(s) > 3000 {
		s = s[:3000] + "…"
	}
	return s
}

// RunCode runs compiled code under an instruction budget.
func RunCode(code *gojq.Code, input any, vars []any, budget int64, maxOut int) (tr Trace) {
	ctx := Budget(budget)
	var iter gojq.Iter
	func() {
		defer func() {
			if r := recover(); r != nil {
				tr.End = EndPanic
				tr.Panic = fmt.Sprintf("%v\n%s", r, trimStack(debug.Stack()))
			}
		}()
		iter = code.RunWithContext(ctx, input, vars...)
	}()
	if iter == nil {
		return
	}
	return Drain(iter, ctx, maxOut, false)
}

// CompileRes is the result of Parse+Compile with panics recovered.
type CompileRes struct {
	Query *gojq.Query
	Code  *gojq.Code
	Err   error
	Panic string
	Stage string // "parse" or "compile" when Err/Panic is set
}

// Compile parses and compiles with recover.
func Compile(src string, opts ...gojq.CompilerOption) (res CompileRes) {
	res.Stage = "parse"
	defer func() {
		if r := recover(); r != nil {
			res.Panic = fmt.Sprintf("%v\n%s", r, trimStack(debug.Stack()))
		}
	}()
	q, err := gojq.Parse(src)
	if err != nil {
		res.Err = err
		return
	}
	res.Query = q
	res.Stage = "compile"
	code, err := gojq.Compile(q, opts...)
	if err != nil {
		res.Err = err
		return
	}
	res.Code, res.Stage = code, ""
	return
}

// CompileQuery compiles an AST with recover.
func CompileQuery(q *gojq.Query, opts ...gojq.CompilerOption) (code *gojq.Code, err error, pan string) {
	defer func() {
		if r := recover(); r != nil {
			pan = fmt.Sprintf("%v\n%s", r, trimStack(debug.Stack()))
		}
	}()
	code, err = gojq.Compile(q, opts...)
	return
}

// internal error message templates (error.go); a caught internal error turns
// into one of these strings, whose wording is implementation-defined.
var internalMsgParts = []string{
	"cannot be applied to", "expected an object but got", "expected an array but got",
	"cannot iterate over", "array index should not be negative", "array index too large",
	"repeat string result too large", "expected a string for object key but got",
	"expected a number for indexing", "expected \"start\" and \"end\" for slicing",
	"length mismatch", "is not allowed", "function not defined", "cannot add:", "cannot subtract:",
	"cannot multiply:", "cannot divide", "cannot modulo", "cannot negate", "cannot plus",
	"format not defined", "cannot format an array including", "too many variable values",
	"variable defined but not bound", "variable not defined", "invalid variable name",
	"label not defined", "invalid path", "flatten depth should not be negative",
	"expected an array of 8 numbers",
}

// IsInternalMsg reports whether a string looks like the text of an internal
// gojq error (used to compare caught internal errors by class, not wording).
func IsInternalMsg(s string) bool {
	for _, p := range internalMsgParts {
		if strings.Contains(s, p) {
			return true
		}
	}
	return false
}

// internalKind separates the internal errors whose wording is implementation-defined into the two kinds a program can
// tell apart by what it did wrong: it navigated from a value that is not at the current location ("invalid path"), or
// it applied an operation to a value of the wrong type (everything else).
func internalKind(msg string) string {
	if strings.Contains(msg, "invalid path") {
		return "invalid-path"
	}
	return "type"
}

// DiffOpt tunes SameTrace.
type DiffOpt struct {
	// InternalKinds makes two internal errors (uncaught, or caught and emitted as their message) differ when one is an
	// invalid-path error and the other is not (used where both sides are gojq itself).
	InternalKinds bool
	// InternalMsgEq lets two different output values match when each contains
	// (at any depth) internal-error-message strings at the same positions.
	InternalMsgEq bool
}

// SameTrace compares two traces per DESIGN 3.3a. It returns "" when they
// agree on everything conclusive, otherwise a description. The second result
// is true when the comparison covered only a common prefix (inconclusive tail).
func SameTrace(a, b Trace, opt DiffOpt) (string, bool) {
	partial := a.End == EndBudget || b.End == EndBudget || a.End == EndLimit || b.End == EndLimit
	if a.End == EndPanic || b.End == EndPanic {
		if a.End != b.End {
			return fmt.Sprintf("one side panicked: %s | %s", a.Panic, b.Panic), false
		}
		return "", false
	}
	n := min(len(a.Vals), len(b.Vals))
	for i := 0; i < n; i++ {
		if !sameVal(a.Vals[i], b.Vals[i], opt) {
			return fmt.Sprintf("output #%d differs: %s vs %s", i, clip(Canon(a.Vals[i])), clip(Canon(b.Vals[i]))), false
		}
	}
	if partial {
		// the side that did not run out may legitimately be longer
		if a.End != EndBudget && a.End != EndLimit && len(a.Vals) < len(b.Vals) {
			return fmt.Sprintf("complete side emitted %d values, truncated side already %d", len(a.Vals), len(b.Vals)), false
		}
		if b.End != EndBudget && b.End != EndLimit && len(b.Vals) < len(a.Vals) {
			return fmt.Sprintf("complete side emitted %d values, truncated side already %d", len(b.Vals), len(a.Vals)), false
		}
		return "", true
	}
	if len(a.Vals) != len(b.Vals) {
		return fmt.Sprintf("%d outputs vs %d outputs (then %s vs %s)", len(a.Vals), len(b.Vals), endDesc(a), endDesc(b)), false
	}
	if a.End != b.End {
		return fmt.Sprintf("after %d outputs: %s vs %s", n, endDesc(a), endDesc(b)), false
	}
	if a.End == EndError {
		ca, cb := ErrClass(a.Err), ErrClass(b.Err)
		if ca != cb {
			return fmt.Sprintf("error class %s (%v) vs %s (%v)", ca, a.Err, cb, b.Err), false
		}
		if ca == "internal" && opt.InternalKinds && internalKind(a.Err.Error()) != internalKind(b.Err.Error()) {
			return fmt.Sprintf("internal error %v vs %v", a.Err, b.Err), false
		}
		if ca != "internal" && !sameVal(ErrValue(a.Err), ErrValue(b.Err), opt) {
			return fmt.Sprintf("%s error value %s vs %s", ca, clip(Canon(ErrValue(a.Err))), clip(Canon(ErrValue(b.Err)))), false
		}
		if ca == "halt" {
			var ha, hb *gojq.HaltError
			errors.As(a.Err, &ha)
			errors.As(b.Err, &hb)
			if ha.ExitCode() != hb.ExitCode() {
				return fmt.Sprintf("halt code %d vs %d", ha.ExitCode(), hb.ExitCode()), false
			}
		}
	}
	return "", false
}

func endDesc(t Trace) string {
	switch t.End {
	case EndError:
		return fmt.Sprintf("error[%s] %v", ErrClass(t.Err), clip(t.Err.Error()))
	case EndPanic:
		return "panic " + clip(t.Panic)
	}
	return t.End.String()
}

func clip(s string) string {
	if len(s) > 300 {
		return s[:300] + "…"
	}
	return s
}

// Clip shortens a string for messages.
func Clip(s string) string { return clip(s) }

func sameVal(a, b any, opt DiffOpt) bool {
	if !opt.InternalMsgEq {
		return Canon(a) == Canon(b)
	}
	switch a := a.(type) {
	case string:
		bs, ok := b.(string)
		if !ok {
			return false
		}
		return a == bs || IsInternalMsg(a) && IsInternalMsg(bs) && (!opt.InternalKinds || internalKind(a) == internalKind(bs))
	case []any:
		bs, ok := b.([]any)
		if !ok || len(a) != len(bs) {
			return false
		}
		for i := range a {
			if !sameVal(a[i], bs[i], opt) {
				return false
			}
		}
		return true
	case map[string]any:
		bs, ok := b.(map[string]any)
		if !ok || len(a) != len(bs) {
			return false
		}
		for k, x := range a {
			y, ok := bs[k]
			if !ok || !sameVal(x, y, opt) {
				return false
			}
		}
		return true
	}
	return Canon(a) == Canon(b)
}

// TraceDesc renders a trace for reports.
func TraceDesc(t Trace) string {
	var sb strings.Builder
	for i, v := range t.Vals {
		if i >= 12 {
			fmt.Fprintf(&sb, "… (%d values)", len(t.Vals))
			break
		}
		sb.WriteString(clip(Canon(v)))
		sb.WriteString(" ; ")
	}
	sb.WriteString(endDesc(t))
	return sb.String()
}

// Cyclic reports whether v contains itself: some container is reachable from one of its own elements. gojq values are
// trees (possibly sharing subtrees); a cycle can only come from a write through an alias, makes the value infinite for
// every consumer (encoders, comparison, the program's next step), and is reported as a defect, never as a large value.
// A container on the current descent path is identified by its backing store: data pointer and length for a slice
// (a cell that is reached again holds the same header), the map pointer for an object.
func Cyclic(v any) bool {
	type id struct {
		p uintptr
		n int
	}
	onPath := map[id]bool{}
	var walk func(v any) bool
	walk = func(v any) bool {
		switch x := v.(type) {
		case []any:
			if len(x) == 0 {
				return false
			}
			k := id{reflect.ValueOf(x).Pointer(), len(x)}
			if onPath[k] {
				return true
			}
			onPath[k] = true
			for _, e := range x {
				if walk(e) {
					return true
				}
			}
			delete(onPath, k)
		case map[string]any:
			if len(x) == 0 {
				return false
			}
			k := id{reflect.ValueOf(x).Pointer(), -1}
			if onPath[k] {
				return true
			}
			onPath[k] = true
			for _, e := range x {
				if walk(e) {
					return true
				}
			}
			delete(onPath, k)
		}
		return false
	}
	return walk(v)
}

// ErrCyclic is the Panic text prefix of a trace that ended because the program emitted a cyclic value.
const ErrCyclic = "the program emitted a cyclic value (a container that contains itself)"

// Huge reports whether the tree unfolding of v has more than limit nodes.
func Huge(v any, limit int) bool {
	n := 0
	var walk func(v any) bool
	walk = func(v any) bool {
		n++
		if n > limit {
			return true
		}
		switch x := v.(type) {
		case []any:
			for _, e := range x {
				if walk(e) {
					return true
				}
			}
		case map[string]any:
			for _, e := range x {
				if walk(e) {
					return true
				}
			}
		case string:
			n += len(x) / 64
		}
		return false
	}
	return walk(v)
}
