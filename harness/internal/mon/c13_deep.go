package mon

import (
	"fmt"
	"strings"

	"verif/harness/internal/run"
)

// c13.deep: the inverse pairs on values nested thousands of levels deep (built here from a specification, so that a
// replay file stays small): the domain of the pairs has no depth.

type c13Deep struct {
	Law   string // tojson|fromjson, fromstream(tostream), setpath(getpath), to_entries|from_entries
	Depth int
	Shape string // array, object, mixed
}

func c13DeepValue(depth int, shape string) any {
	var v any = "leaf"
	for i := 0; i < depth; i++ {
		switch {
		case shape == "array" || shape == "mixed" && i%2 == 0:
			v = []any{v}
		default:
			v = map[string]any{"a": v}
		}
	}
	return v
}

var kC13Deep = run.NewKind("c13.deep", func(c *run.Ctx, t c13Deep) *run.Fail {
	srcs := map[string]string{"tojson|fromjson": "tojson | fromjson", "fromstream(tostream)": "fromstream(tostream)", "setpath(getpath)": "[paths] | last as $p | $__loc__ | ."[:0] + ". as $in | [paths] | last as $p | $in | setpath($p; getpath($p))", "tostring|fromjson": "tostring | fromjson"}
	src, ok := srcs[t.Law]
	if !ok {
		return run.Failf("unknown law %q", t.Law)
	}
	in := c13DeepValue(t.Depth, t.Shape)
	tr := eval(src, c13DeepValue(t.Depth, t.Shape))
	if tr.End == run.EndBudget {
		c.Inconclusive("budget")
		return nil
	}
	if tr.End != run.EndOK || len(tr.Vals) != 1 || run.Canon(tr.Vals[0]) != run.Canon(in) {
		f := run.Failf("%s on a value nested %d levels deep (%s) does not return its input: %s", t.Law, t.Depth, t.Shape, run.Clip(run.TraceDesc(tr)))
		if t.Depth > 10000 && strings.HasSuffix(t.Law, "|fromjson") && tr.End == run.EndError && strings.Contains(tr.Err.Error(), "exceeded max depth") {
			f.Sig = "c13.deep fromjson beyond 10000 levels"
		}
		return f
	}
	c.Nontrivial(fmt.Sprintf("%s/%d/%s", t.Law, t.Depth, t.Shape))
	return nil
})

func c13DeepCases(c *run.Ctx) []c13Deep {
	var out []c13Deep
	for _, law := range []string{"tojson|fromjson", "fromstream(tostream)", "setpath(getpath)", "tostring|fromjson"} {
		for di, depth := range []int{100, 999, 5000, 9999, 10000, 10001, 20000} {
			for si, shape := range []string{"array", "object", "mixed"} {
				if c.Quick() && (di+si)%2 != 0 && depth < 9999 {
					continue
				}
				out = append(out, c13Deep{Law: law, Depth: depth, Shape: shape})
			}
		}
	}
	return out
}
