package mon

import (
	"encoding/json"
	"fmt"
	"math"
	"math/big"
	"math/rand/v2"
	"strconv"
	"strings"
	"unicode/utf8"

	"verif/harness/internal/gen"
	"verif/harness/internal/model"
	"verif/harness/internal/run"
)

// ---- C13 generators (deterministic in (seed, tier)) ----

// every byte class: NUL, controls, quotes, backslash, URI/base64/regex
// metacharacters, DEL, C1, 2-, 3- and 4-byte code points, the neighbours of
// the surrogate gap, BOM, U+FFFD, non-characters, the last code point.
var c13Runes = []rune{
	0, 1, 7, 8, 9, 10, 11, 12, 13, 0x1b, 0x1f, ' ', '!', '"', '#', '$', '%', '&', '\'', '(', ')', '*', '+', ',', '-', '.', '/',
	'0', '1', '9', ':', ';', '<', '=', '>', '?', '@', 'A', 'Z', '[', '\\', ']', '^', '_', '`', 'a', 'b', 'z', '{', '|', '}', '~', 0x7f,
	0x80, 0x85, 0xa0, 0xe9, 0xff, 0x100, 0x0301, 0x7ff, 0x800, 0x2028, 0x2029, 0x3042, 0x65e5, 0xd7ff, 0xe000, 0xfeff, 0xfffd, 0xfffe, 0xffff,
	0x10000, 0x1f600, 0x2000b, 0xe0001, 0x10fffd, 0x10ffff,
}

func c13Rune(r *rand.Rand) rune {
	switch r.IntN(8) {
	case 0: // printable ASCII
		return rune(0x20 + r.IntN(0x5f))
	case 1: // any valid code point
		for {
			x := rune(r.IntN(0x110000))
			if x < 0xd800 || x > 0xdfff {
				return x
			}
		}
	}
	return c13Runes[r.IntN(len(c13Runes))]
}

func c13String(r *rand.Rand) string {
	var n int
	switch r.IntN(10) {
	case 0:
		n = 0
	case 1, 2, 3, 4, 5, 6:
		n = 1 + r.IntN(6)
	case 7, 8:
		n = r.IntN(24)
	default:
		n = r.IntN(200)
	}
	var sb strings.Builder
	for i := 0; i < n; i++ {
		sb.WriteRune(c13Rune(r))
	}
	return sb.String()
}

var c13SepPool = []string{
	",", ", ", ".", "*", "+", "?", "|", "(", ")", "[", "]", "\\", "^", "$", ".*", "a*", "\\d", "[a]", "(?", "a|b", "{1}", " ", "  ", "\n", "\t", "\x00",
	"a", "aa", "ab", "aba", "é", "日", "日本", "😀", "\u0301", "é,", "\ufffd", "\U0010ffff", "/", "=", "%", "\"", "0", "--",
}

func c13Sep(r *rand.Rand) string {
	if r.IntN(2) == 0 {
		return c13SepPool[r.IntN(len(c13SepPool))]
	}
	var sb strings.Builder
	for i, n := 0, 1+r.IntN(3); i < n; i++ {
		sb.WriteRune(c13Rune(r))
	}
	return sb.String()
}

// c13SplitSubject builds a string in which the separator (and proper
// prefixes/suffixes of it) occurs at the start, at the end, doubled and
// overlapping.
func c13SplitSubject(r *rand.Rand, sep string) string {
	if r.IntN(6) == 0 {
		return c13String(r)
	}
	rs := []rune(sep)
	var sb strings.Builder
	for i, n := 0, r.IntN(7); i < n; i++ {
		switch r.IntN(7) {
		case 0, 1, 2:
			sb.WriteString(sep)
		case 3:
			sb.WriteString(string(rs[:r.IntN(len(rs)+1)]))
		case 4:
			sb.WriteString(string(rs[r.IntN(len(rs)+1):]))
		case 5:
			sb.WriteRune(c13Rune(r))
		default:
			for j, m := 0, r.IntN(4); j < m; j++ {
				sb.WriteRune(c13Rune(r))
			}
		}
	}
	return sb.String()
}

var c13KeyPool = []string{
	"", "a", "b", "c", "key", "value", "name", "Key", "Value", "Name", "k", "v", "e", "start", "end", "0", "1", "-1", "1.5", "1e3", "01", "10",
	"é", "日本", "😀", "\"", "\\", "\n", "\t", "\x00", "\u001f", "a b", "a.b", "a\"b\\c", " ", "\ufffd", "[0]", ".", "..", "$__loc__", "__proto__",
	"null", "true", "\u0301", "\U0010ffff", "/", "a/b", "~", " ", "\u007f",
}

func c13Key(r *rand.Rand) string {
	switch r.IntN(8) {
	case 0:
		return c13String(r)
	case 1:
		return []string{"a", "b", "c"}[r.IntN(3)]
	}
	return c13KeyPool[r.IntN(len(c13KeyPool))]
}

var c13FloatPool = []float64{
	0.5, -0.5, 1.5, 0.1, 0.2, 0.30000000000000004, 1e-7, 1e-6, 1.5e-7, 123456.789, 1e15, 1e16, 1e17, 1e20, 1e21, 1e22, 1e23, 1e100, 1e300,
	9007199254740992, 9007199254740994, -9007199254740992, 4503599627370495.5, 9223372036854775808, -9223372036854775808, 18446744073709551616,
	math.MaxFloat64, -math.MaxFloat64, math.SmallestNonzeroFloat64, -math.SmallestNonzeroFloat64, 2.2250738585072014e-308, 2.225073858507201e-308,
	3.0, -3.0, 0, 1e-320, 0.1 + 0.7, 1.0 / 3, 2.0 / 3, 100.0, 1e5, 299792458, 6.02214076e23, 1.7976931348623155e308,
}

// c13JSONLit builds a number literal of the JSON grammar.
func c13JSONLit(r *rand.Rand) string {
	fixed := []string{
		"0", "-0", "1", "-1", "1.0", "-1.0", "1.00", "0.10", "100", "1e2", "1E2", "1E+2", "1e+2", "1e-2", "1e-7", "0.0000001", "123456789012345678901234567890",
		"-123456789012345678901234567890", "0.1234567890123456789012345678901234567890", "1e-400", "-1e-400", "9007199254740993", "9223372036854775807",
		"9223372036854775808", "-9223372036854775808", "-9223372036854775809", "18446744073709551616", "1.7976931348623157e308", "5e-324", "4.9e-324",
		"0e0", "-0.0", "-0e10", "0.0", "1000000000000000000000", "1e21", "1e20", "0.1e1", "10e-1", "12345678.90", "1e00", "1e01", "1E-01",
		"99999999999999999999.99999999999999999999", "0.1000000000000000055511151231257827", "1e1000", "-1e1000", "1.0e400",
	}
	if r.IntN(3) == 0 {
		return fixed[r.IntN(len(fixed))]
	}
	var sb strings.Builder
	if r.IntN(3) == 0 {
		sb.WriteByte('-')
	}
	if r.IntN(4) == 0 {
		sb.WriteByte('0')
	} else {
		sb.WriteByte(byte('1' + r.IntN(9)))
		for j, nd := 1, 1+r.IntN(28); j < nd; j++ {
			sb.WriteByte(byte('0' + r.IntN(10)))
		}
	}
	if r.IntN(2) == 0 {
		sb.WriteByte('.')
		for j, nf := 0, 1+r.IntN(22); j < nf; j++ {
			sb.WriteByte(byte('0' + r.IntN(10)))
		}
	}
	if r.IntN(3) == 0 {
		sb.WriteByte("eE"[r.IntN(2)])
		if k := r.IntN(3); k > 0 {
			sb.WriteByte("+-"[k-1])
		}
		for j, ne := 0, 1+r.IntN(3); j < ne; j++ {
			sb.WriteByte(byte('0' + r.IntN(10)))
		}
	}
	return sb.String()
}

// c13Number returns a number in a PRNG-chosen Go representation (it may be a
// json.Number beyond the double range; callers filter by the law's domain).
func c13Number(r *rand.Rand) any {
	switch r.IntN(11) {
	case 0:
		return r.IntN(201) - 100
	case 1:
		ks := []uint{7, 8, 15, 16, 24, 31, 32, 52, 53, 62}
		v := int64(1)<<ks[r.IntN(len(ks))] + int64(r.IntN(3)-1)
		if r.IntN(2) == 0 {
			v = -v
		}
		return int(v)
	case 2:
		return []int{math.MaxInt64, math.MinInt64, math.MaxInt64 - 1, math.MinInt64 + 1, math.MaxInt32, math.MinInt32}[r.IntN(6)]
	case 3:
		return int(r.Int64()) >> uint(r.IntN(64))
	case 4:
		for {
			f := math.Float64frombits(r.Uint64())
			if !math.IsNaN(f) && !math.IsInf(f, 0) {
				return f
			}
		}
	case 5:
		f := c13FloatPool[r.IntN(len(c13FloatPool))]
		if r.IntN(2) == 0 {
			f = -f
		}
		return f
	case 6:
		return float64(r.IntN(2000000)-1000000) / math.Pow(10, float64(r.IntN(8)))
	case 7:
		var b *big.Int
		switch r.IntN(5) {
		case 0:
			b = new(big.Int).Add(new(big.Int).Lsh(big.NewInt(1), 63), big.NewInt(int64(r.IntN(5)-2)))
		case 1:
			b = new(big.Int).Exp(big.NewInt(10), big.NewInt(int64(19+r.IntN(40))), nil)
		case 2:
			b = big.NewInt(int64(r.IntN(2001) - 1000)) // a non-normalised small *big.Int
		default:
			b = new(big.Int)
			for i, n := 0, 2+r.IntN(4); i < n; i++ {
				b.Lsh(b, 64).Or(b, new(big.Int).SetUint64(r.Uint64()))
			}
		}
		if r.IntN(2) == 0 {
			b.Neg(b)
		}
		return b
	case 8, 9:
		return json.Number(c13JSONLit(r))
	default:
		return math.Ldexp(float64(1+r.IntN(1<<20)), r.IntN(120)-20)
	}
}

func c13FiniteNumber(r *rand.Rand) any {
	for {
		if v := c13Number(r); c13Finite(v) {
			return v
		}
	}
}

var c13StringPool = []string{"", "a", "0", "1", "-1", "1.5", "null", "true", "[]", "{}", "[1,2]", "{\"a\":1}", "\"", "\\", "\\u0000", "2015-03-05T23:51:47Z", "%41", "%", "+", "a+b", "YWJj", "YQ==", "=", "key", "value"}

// c13Value builds a nested value of the JSON universe.
func c13Value(r *rand.Rand, depth int) any {
	n := 16
	if depth <= 0 {
		n = 10
	}
	switch r.IntN(n) {
	case 0:
		return nil
	case 1:
		return r.IntN(2) == 0
	case 2:
		return r.IntN(104) - 3
	case 3:
		for {
			if v := c13Number(r); c13JSONValue(v) {
				return v
			}
		}
	case 4, 5:
		return c13String(r)
	case 6:
		return c13StringPool[r.IntN(len(c13StringPool))]
	case 7:
		return []any{}
	case 8:
		return map[string]any{}
	case 9:
		return []any{nil, false, 0, "", []any{}, map[string]any{}}[r.IntN(6)]
	case 10, 11, 12:
		a := make([]any, r.IntN(6))
		for i := range a {
			a[i] = c13Value(r, depth-1)
		}
		return a
	default:
		return c13Object(r, depth)
	}
}

func c13Object(r *rand.Rand, depth int) map[string]any {
	k := r.IntN(7)
	m := make(map[string]any, k)
	for i := 0; i < k; i++ {
		m[c13Key(r)] = c13Value(r, depth-1)
	}
	return m
}

func c13Structured(r *rand.Rand) any {
	switch r.IntN(8) {
	case 0:
		return gen.RandValue(r, 3)
	case 1:
		return c13Value(r, 0)
	case 2:
		return c13Object(r, 1+r.IntN(3))
	}
	d := 1 + r.IntN(4)
	for i := 0; i < 4; i++ { // prefer containers at the root
		v := c13Value(r, d)
		switch v.(type) {
		case []any, map[string]any:
			return v
		}
	}
	return c13Value(r, d)
}

// c13IndexRep renders an index in a PRNG-chosen number representation.
func c13IndexRep(r *rand.Rand, i int) any {
	switch r.IntN(10) {
	case 0:
		return float64(i)
	case 1:
		return big.NewInt(int64(i))
	case 2:
		return json.Number(strconv.Itoa(i))
	case 3:
		if i >= 0 {
			return float64(i) + 0.5
		}
	}
	return i
}

// c13RandPath walks down v (existing members, appended/padded indices,
// negative indices, fresh keys through null) and sometimes steps through a
// scalar, where setpath is undefined.
func c13RandPath(r *rand.Rand, v any) []any {
	p := []any{}
	cur := v
	for depth := 0; depth < 7; depth++ {
		if r.IntN(6) == 0 {
			break
		}
		switch w := cur.(type) {
		case []any:
			i := 0
			switch k := r.IntN(8); {
			case k == 0:
				i = len(w)
			case k == 1:
				i = len(w) + r.IntN(4)
			case k == 2 && len(w) > 0:
				i = -1 - r.IntN(len(w))
			case k == 3:
				i = -1 - len(w) - r.IntN(2) // out of range: undefined
			case len(w) > 0:
				i = r.IntN(len(w))
			}
			p = append(p, c13IndexRep(r, i))
			j := i
			if j < 0 {
				j += len(w)
			}
			if 0 <= j && j < len(w) {
				cur = w[j]
			} else {
				cur = nil
			}
		case map[string]any:
			ks := model.SortedKeys(w)
			var k string
			if len(ks) > 0 && r.IntN(4) > 0 {
				k = ks[r.IntN(len(ks))]
			} else {
				k = c13Key(r)
			}
			p = append(p, k)
			cur = w[k]
		case nil:
			if r.IntN(2) == 0 {
				p = append(p, c13Key(r))
			} else {
				p = append(p, c13IndexRep(r, r.IntN(4)))
			}
		default:
			if r.IntN(6) != 0 {
				return p
			}
			if r.IntN(2) == 0 {
				p = append(p, c13Key(r))
			} else {
				p = append(p, r.IntN(3))
			}
			return p
		}
	}
	return p
}

// c13AllPaths enumerates the key/index paths of v (pre-order); used only to
// pick inputs, never as an oracle.
func c13AllPaths(v any, prefix []any, out *[][]any, limit int) {
	if len(*out) >= limit {
		return
	}
	switch w := v.(type) {
	case []any:
		for i, x := range w {
			p := append(append([]any{}, prefix...), i)
			*out = append(*out, p)
			c13AllPaths(x, p, out, limit)
		}
	case map[string]any:
		for _, k := range model.SortedKeys(w) {
			p := append(append([]any{}, prefix...), k)
			*out = append(*out, p)
			c13AllPaths(w[k], p, out, limit)
		}
	}
}

func tvp(v any) *run.TV { return &run.TV{V: v} }

// ---- universe ----

func c13Universe() []any {
	var out []any
	seen := map[string]bool{}
	add := func(v any) {
		k := strictKey(v)
		if !seen[k] {
			seen[k] = true
			out = append(out, v)
		}
	}
	for _, v := range gen.UTypes() {
		for mode := 0; mode < 4; mode++ {
			add(gen.Reps(v, mode))
		}
		add(A{v})
		add(O{"k": v})
	}
	for _, v := range gen.USmall() {
		add(v)
	}
	for _, v := range []any{
		A{A{}}, A{O{}}, O{"a": A{}}, O{"a": O{}}, A{A{}, A{}}, A{O{}, O{}}, O{"": O{"": A{}}}, A{nil}, A{A{nil}}, O{"a": nil}, A{nil, nil, nil}, A{false}, O{"a": false},
		A{A{A{A{A{A{A{A{}}}}}}}}, O{"a": O{"a": O{"a": O{"a": O{"a": O{}}}}}}, A{A{A{A{1}}}, 2}, A{1, A{}}, A{A{}, 1}, O{"a": A{}, "b": 1}, O{"a": 1, "b": A{}},
		O{"key": "a", "value": 1}, O{"k": 1, "v": 2}, O{"name": "x", "value": false}, O{"value": nil}, O{"Key": "K", "Value": "V"}, O{"key": nil, "value": nil}, O{"key": false},
		O{"a": false, "b": nil}, O{"a": O{"key": 1, "value": 2}}, O{"": ""}, O{"": nil}, O{"\x00": 0, "\n": 1, "\"": 2, "\\": 3, "\u001f": 4}, O{"0": 0, "1": 1, "-1": 2, "1.5": 3, "1e3": 4, "01": 5},
		O{"é": 1, "日本": 2, "😀": 3, "\u0301": 4, "\U0010ffff": 5, "\ufffd": 6}, O{"e": true, "v": 1}, O{"e": nil, "v": O{"e": 1}}, A{O{"e": true}, O{"v": 2}}, O{"start": 0, "end": 1},
		A{O{"start": 0, "end": 1}}, O{"a": A{O{"b": A{O{"c": A{}}}}}}, A{0, A{1, A{2, A{3, A{4}}}}}, A{"", "a", "\x00", "\"\\"}, A{1, 1.5, bigS("123456789012345678901234567890"), json.Number("1.10"), json.Number("1e-400")},
		"+", " ", "a b+c%2B", "%", "%zz", "a=b&c=d", "/?#[]@!$&'()*,;=:", ">>>", "???", "~~~", "\xff\xfe" + "", "ÿ", "ÿÿ", "ÿÿÿ", "ÿÿÿÿ", "\x00", "\x00\x00", "\x00\x00\x00", "a\x00b", "\u007f", "\ufeffa",
		"\U0010ffff", "퟿", "\ufffd", "\ufffd\ufffd", "a,b,,c,", ",", ",,", "aaa", "aaaa", "abab", strings.Repeat("é", 57), strings.Repeat("ab", 100), strings.Repeat("\U0001f600", 19),
	} {
		add(v)
	}
	return out
}

var c13UniSeps = []string{",", ",,", "a", "aa", "ab", ".", "*", "|", "\\", " ", "\x00", "é", "日本", "😀", "a,", "\"", "%", "+", "[", "("}

// ---- date inputs ----

func c13DaysFromCivil(y, m, d int64) int64 {
	if m <= 2 {
		y--
	}
	era := y / 400 // y >= 0 for years 1..9999
	yoe := y - era*400
	mp := (m + 9) % 12
	doy := (153*mp+2)/5 + d - 1
	doe := yoe*365 + yoe/4 - yoe/100 + doy
	return era*146097 + doe - 719468
}

func c13Leap(y int64) bool { return y%4 == 0 && (y%100 != 0 || y%400 == 0) }

func c13SecondReps(s int64, all bool) []any {
	if !all {
		return []any{int(s)}
	}
	return []any{int(s), float64(s), big.NewInt(s), json.Number(strconv.FormatInt(s, 10)), json.Number(strconv.FormatInt(s, 10) + ".0")}
}

// c13DateInputs returns the integer seconds of the date laws (in range,
// deduplicated, in a deterministic order).
func c13DateInputs(c *run.Ctx) []any {
	r := c.Rand("c13.dates")
	var out []any
	type repKey struct {
		s   int64
		rep int
	}
	seen := map[repKey]bool{}
	add := func(s int64, allReps bool) {
		if s < c13Lo || s > c13Hi {
			return
		}
		for i, v := range c13SecondReps(s, allReps) {
			if k := (repKey{s, i}); !seen[k] {
				seen[k] = true
				out = append(out, v)
			}
		}
	}
	// 1. both ends of the range, every second
	K := int64(c.N(4000, 100000))
	for k := int64(0); k <= K; k++ {
		add(c13Lo+k, k < 3)
		add(c13Hi-k, k < 3)
	}
	// 2. special instants and their neighbourhoods
	W := int64(c.N(100, 2500))
	special := []int64{
		0, 1 << 31, -(1 << 31), 1 << 32, -(1 << 32), 1 << 33, 1 << 35, 1 << 37, -(1 << 35), 1e9, 1e10, 1e11, -1e10, -5e10, 2e11,
		c13DaysFromCivil(1000, 1, 1) * 86400, c13DaysFromCivil(100, 1, 1) * 86400, c13DaysFromCivil(10, 1, 1) * 86400, c13DaysFromCivil(2, 1, 1) * 86400,
		c13DaysFromCivil(2000, 2, 29) * 86400, c13DaysFromCivil(2000, 3, 1) * 86400, c13DaysFromCivil(1900, 3, 1) * 86400, c13DaysFromCivil(1582, 10, 15) * 86400,
		c13DaysFromCivil(1582, 10, 5) * 86400, c13DaysFromCivil(1752, 9, 14) * 86400, c13DaysFromCivil(2017, 1, 1) * 86400, c13DaysFromCivil(1972, 7, 1) * 86400,
		c13DaysFromCivil(4, 2, 29) * 86400, c13DaysFromCivil(9999, 1, 1) * 86400, c13DaysFromCivil(1601, 1, 1) * 86400, c13DaysFromCivil(1904, 1, 1) * 86400,
		c13DaysFromCivil(2038, 1, 19)*86400 + 11647, c13DaysFromCivil(1901, 12, 13)*86400 + 74752, c13DaysFromCivil(2262, 4, 11)*86400 + 85636, // int32 / ns-int64 limits
		c13DaysFromCivil(1677, 9, 21)*86400 + 763,
	}
	for _, s := range special {
		for k := -W; k <= W; k++ {
			add(s+k, k == 0)
		}
	}
	// 3. every day boundary of sampled years
	years := []int64{1, 1970, 2000, 9999, 1000}
	if !c.Quick() {
		years = append(years, 2, 4, 99, 100, 400, 999, 1582, 1600, 1900, 1969, 1972, 2038, 2100, 2400, 8000, 9998)
	}
	ny := c.N(12, 50)
	for len(years) < ny {
		y := int64(1 + r.IntN(9999))
		dup := false
		for _, z := range years {
			dup = dup || z == y
		}
		if !dup {
			years = append(years, y)
		}
	}
	for _, y := range years {
		start := c13DaysFromCivil(y, 1, 1)
		n := int64(365)
		if c13Leap(y) {
			n = 366
		}
		for d := int64(0); d <= n; d++ {
			t := (start + d) * 86400
			add(t-1, false)
			add(t, false)
			if !c.Quick() {
				add(t+1, false)
				add(t+43200, false)
			}
		}
	}
	// 4. uniformly random: the +-10^11 window clamped to the range, and the whole range
	n := c.N(25000, 500000)
	for i := 0; i < n; i++ {
		s := r.Int64N(2e11+1) - 1e11
		if s < c13Lo {
			s = c13Lo + r.Int64N(1e11-c13Lo)
		}
		add(s, i%20 == 0)
		add(c13Lo+r.Int64N(c13Hi-c13Lo+1), i%20 == 0)
	}
	return out
}

// ---- random non-date cases ----

var c13Weights = []struct {
	law string
	w   int
}{
	{"fromstream(tostream)", 3}, {"to_entries|from_entries", 2}, {"with_entries(.)", 2}, {"explode|implode", 2}, {"split(s)|join(s)", 3},
	{"@base64|@base64d", 3}, {"@uri|@urid", 2}, {"tojson|fromjson", 3}, {"tostring|tonumber", 4}, {"setpath(p;x)|getpath(p)", 4},
	{"setpath(p;getpath(p))", 1}, {"[paths]==[path(..)]-root", 1}, {"tostream-leaf|getpath", 1}, {"tostream-setpath-replay", 2},
}

var c13WeightSum = func() int {
	s := 0
	for _, w := range c13Weights {
		s += w.w
	}
	return s
}()

func c13RandCase(r *rand.Rand) c13Case {
	k := r.IntN(c13WeightSum)
	law := ""
	for _, w := range c13Weights {
		if k < w.w {
			law = w.law
			break
		}
		k -= w.w
	}
	switch law {
	case "to_entries|from_entries", "with_entries(.)":
		return c13Case{Law: law, In: run.TV{V: c13Object(r, r.IntN(4))}}
	case "explode|implode", "@base64|@base64d", "@uri|@urid":
		return c13Case{Law: law, In: run.TV{V: c13String(r)}}
	case "split(s)|join(s)":
		sep := c13Sep(r)
		return c13Case{Law: law, In: run.TV{V: c13SplitSubject(r, sep)}, Arg: tvp(sep)}
	case "tojson|fromjson":
		if r.IntN(5) == 0 {
			return c13Case{Law: law, In: run.TV{V: c13Value(r, 0)}}
		}
		return c13Case{Law: law, In: run.TV{V: c13Value(r, 1+r.IntN(4))}}
	case "tostring|tonumber":
		return c13Case{Law: law, In: run.TV{V: c13FiniteNumber(r)}}
	case "setpath(p;x)|getpath(p)":
		v := c13Structured(r)
		if r.IntN(8) == 0 {
			v = nil
		}
		p := c13RandPath(r, v)
		x := c13Value(r, r.IntN(3))
		return c13Case{Law: law, In: run.TV{V: v}, Arg: tvp([]any{p, x})}
	}
	return c13Case{Law: law, In: run.TV{V: c13Structured(r)}}
}

func c13Body(c *run.Ctx) {
	// A. the universe under every law whose domain contains the value
	uni := c13Universe()
	c.Gauge("universe_size", int64(len(uni)))
	xs := []any{nil, 7, "x", A{}, O{"a": A{1}}}
	for _, v := range uni {
		for _, l := range c13Laws {
			if l.numeric && l.name != "tostring|tonumber" || !l.dom(v) {
				continue
			}
			switch l.name {
			case "split(s)|join(s)":
				for _, s := range c13UniSeps {
					kC13.Do(c, c13Case{Law: l.name, In: run.TV{V: v}, Arg: tvp(s)})
				}
			case "setpath(p;x)|getpath(p)":
				var ps [][]any
				c13AllPaths(v, nil, &ps, 8)
				ps = append(ps, []any{}, []any{"a"}, []any{0}, []any{-1}, []any{"a", 1, "b"}, []any{2, "k"})
				for i, p := range ps {
					kC13.Do(c, c13Case{Law: l.name, In: run.TV{V: v}, Arg: tvp([]any{p, xs[i%len(xs)]})})
				}
			default:
				kC13.Do(c, c13Case{Law: l.name, In: run.TV{V: v}})
			}
		}
	}
	// A2. strings whose byte length lies around the sizes of fixed buffers and blocks (and is 0, 1, 2 modulo 3 and 4),
	// made of one- to four-byte characters
	for _, n := range []int{62, 63, 64, 65, 127, 128, 129, 255, 256, 257, 511, 512, 513, 1022, 1023, 1024, 1025, 1026, 1027, 2047, 2048, 2049, 3071, 3072, 3073, 4095, 4096, 4097, 8191, 8192, 8193, 16385, 32769, 65537, 100001} {
		for vi, unit := range []string{"a", "ab~", "é", "aé", "日", "a😀", "\"\\", "%2f+ &"} {
			if c.Quick() && n > 5000 && vi%3 != 0 {
				continue
			}
			str := strings.Repeat(unit, n/len(unit)+1)
			str = str[:n]
			for !utf8.ValidString(str) {
				str = str[:len(str)-1]
			}
			for _, l := range []string{"explode|implode", "@base64|@base64d", "@uri|@urid", "tojson|fromjson", "fromstream(tostream)"} {
				kC13.Do(c, c13Case{Law: l, In: run.TV{V: str}})
			}
			kC13.Do(c, c13Case{Law: "split(s)|join(s)", In: run.TV{V: str}, Arg: tvp(string([]rune(unit)[:1]))})
			kC13.Do(c, c13Case{Law: "tojson|fromjson", In: run.TV{V: []any{str, map[string]any{str[:min(len(str), 300)]: str}}}})
		}
	}
	// B. the date laws, one input per case
	for _, s := range c13DateInputs(c) {
		kC13.Do(c, c13Case{Law: "todate|fromdate", In: run.TV{V: s}})
		kC13.Do(c, c13Case{Law: "gmtime|mktime", In: run.TV{V: s}})
	}
	// B2. values nested thousands of levels deep
	for _, t := range c13DeepCases(c) {
		kC13Deep.Do(c, t)
	}
	// C. PRNG-built cases; the PRNG of case i depends on (seed, i) only, so a
	// worker builds just its own cases
	n := c.N(500000, 14000000)
	for i := 0; i < n; i++ {
		if !c.Mine() {
			c.Skip()
			continue
		}
		kC13.Do(c, c13RandCase(c.Rand(fmt.Sprintf("c13.case.%d", i))))
	}
}
