package mon

import (
	"encoding/hex"
	"errors"
	"fmt"
	"sort"
	"strings"

	"verif/harness/internal/run"

	"github.com/itchyny/gojq"
)

// c08.loader: the module loader is any value; it may implement any subset of the loading methods, fail, or hand
// out modules that import each other in a circle. Whatever it does, Compile and Run report failures as values.

type c08LoaderCase struct {
	Loader int               // which methods the loader has (see c08MkLoader)
	Mods   map[string]string // module name -> source
	Src    string
}

type c08ModMap map[string]string

func (m c08ModMap) module(name string) (*gojq.Query, error) {
	src, ok := m[name]
	if !ok {
		return nil, fmt.Errorf("module not found: %q", name)
	}
	return gojq.Parse(src)
}

func (m c08ModMap) json(name string) (any, error) {
	if _, ok := m[name]; !ok {
		return nil, fmt.Errorf("module not found: %q", name)
	}
	return []any{map[string]any{"name": name}}, nil
}

type c08LoaderNone struct{}
type c08LoaderJSON struct{ m c08ModMap }
type c08LoaderJSONMeta struct{ m c08ModMap }
type c08LoaderMod struct{ m c08ModMap }
type c08LoaderModMeta struct{ m c08ModMap }
type c08LoaderAll struct{ m c08ModMap }
type c08LoaderFail struct{}
type c08LoaderInit struct{ m c08ModMap }

func (l c08LoaderJSON) LoadJSON(n string) (any, error) { return l.m.json(n) }
func (l c08LoaderJSONMeta) LoadJSONWithMeta(n string, _ map[string]any) (any, error) {
	return l.m.json(n)
}
func (l c08LoaderMod) LoadModule(n string) (*gojq.Query, error) { return l.m.module(n) }
func (l c08LoaderModMeta) LoadModuleWithMeta(n string, _ map[string]any) (*gojq.Query, error) {
	return l.m.module(n)
}
func (l c08LoaderAll) LoadModule(n string) (*gojq.Query, error) { return l.m.module(n) }
func (l c08LoaderAll) LoadJSON(n string) (any, error)           { return l.m.json(n) }
func (l c08LoaderAll) LoadModuleWithMeta(n string, _ map[string]any) (*gojq.Query, error) {
	return l.m.module(n)
}
func (l c08LoaderAll) LoadJSONWithMeta(n string, _ map[string]any) (any, error) { return l.m.json(n) }
func (c08LoaderFail) LoadModule(n string) (*gojq.Query, error) {
	return nil, errors.New("loader failed")
}
func (c08LoaderFail) LoadJSON(n string) (any, error) { return nil, errors.New("loader failed") }
func (l c08LoaderInit) LoadInitModules() ([]*gojq.Query, error) {
	var qs []*gojq.Query
	names := make([]string, 0, len(l.m))
	for n := range l.m {
		names = append(names, n)
	}
	sort.Strings(names)
	for _, n := range names {
		if strings.HasPrefix(n, "init") {
			q, err := gojq.Parse(l.m[n])
			if err != nil {
				return nil, err
			}
			qs = append(qs, q)
		}
	}
	return qs, nil
}
func (l c08LoaderInit) LoadModule(n string) (*gojq.Query, error) { return l.m.module(n) }

var c08LoaderNames = []string{"no methods", "LoadJSON only", "LoadJSONWithMeta only", "LoadModule only", "LoadModuleWithMeta only", "all four", "every load fails", "LoadInitModules+LoadModule"}

func c08MkLoader(k int, m c08ModMap) any {
	switch k {
	case 0:
		return c08LoaderNone{}
	case 1:
		return c08LoaderJSON{m}
	case 2:
		return c08LoaderJSONMeta{m}
	case 3:
		return c08LoaderMod{m}
	case 4:
		return c08LoaderModMeta{m}
	case 5:
		return c08LoaderAll{m}
	case 6:
		return c08LoaderFail{}
	}
	return c08LoaderInit{m}
}

var kC08Loader = run.NewKind("c08.loader", func(c *run.Ctx, t c08LoaderCase) *run.Fail {
	desc := fmt.Sprintf("%q with a loader having %s over modules %v", t.Src, c08LoaderNames[t.Loader], t.Mods)
	q, err := gojq.Parse(t.Src)
	if err != nil {
		return run.Failf("bad case: %v", err)
	}
	var code *gojq.Code
	var cerr error
	if p := guard("Compile", func() { code, cerr = gojq.Compile(q, gojq.WithModuleLoader(c08MkLoader(t.Loader, t.Mods))) }); p != "" {
		return run.Failf("%s: %s", desc, p)
	}
	if cerr != nil {
		if p := guard("compile error text", func() { _ = cerr.Error() }); p != "" {
			return run.Failf("%s: %s", desc, p)
		}
		c.Count("loader_compile_errors", 1)
		c.Distinct("loader_compile_error_texts", cerr.Error())
		c.Nontrivial(desc)
		return nil
	}
	if p := guard("Run/Next", func() {
		iter := code.RunWithContext(run.Budget(100000), nil)
		for n := 0; n < 50; n++ {
			v, ok := iter.Next()
			if !ok {
				return
			}
			if e, isErr := v.(error); isErr {
				_ = e.Error()
				c.Count("loader_run_errors", 1)
			}
		}
	}); p != "" {
		return run.Failf("%s: %s", desc, p)
	}
	c.Nontrivial(desc)
	return nil
})

var c08LoaderMods = []map[string]string{
	{"a": `def f: 1;`, "d": `unused`},
	{"a": `include "a"; def f: 1;`},
	{"a": `import "a" as a; def f: a::f;`},
	{"a": `import "b" as b; def f: b::g;`, "b": `import "a" as a; def g: a::f;`},
	{"a": `include "b"; def f: g;`, "b": `include "c"; def g: h;`, "c": `include "a"; def h: 1;`},
	{"a": `import "b" as b; import "c" as c; def f: b::g + c::g;`, "b": `import "c" as c; def g: c::g;`, "c": `def g: 1;`},
	{"a": `def f: ;`},
	{"a": `import "d" as $d; def f: $d;`, "d": `x`},
	{"a": `module {name: "a", deps: [1]}; import "missing" as m; def f: 1;`},
	{"init1": `def f: 1;`, "init2": `include "init2"; def g: 2;`, "a": `def f: 3;`},
	{"a": `include "a"; include "a"; def f: 1;`},
}

var c08LoaderQueries = []string{`import "a" as a; a::f`, `include "a"; f`, `import "a" as $a; $a`, `import "d" as $d; $d::d`, `"a" | modulemeta`, `"missing" | modulemeta`, `null | modulemeta`, `import "a" as a; import "a" as b; [a::f, b::f]`,
	`include "missing"; .`, `import "a" as a; include "a"; [f, a::f]`, `try ("a" | modulemeta) catch .`, `import "a" as a {search: "./"}; a::f`, `f`, `import "a" as a; "a" | modulemeta | .deps`, `get_search_list`, `[("a", "b", "c") | try modulemeta catch "E"]`}

func c08LoaderCases() []c08LoaderCase {
	var out []c08LoaderCase
	for k := range c08LoaderNames {
		for _, m := range c08LoaderMods {
			for _, q := range c08LoaderQueries {
				out = append(out, c08LoaderCase{Loader: k, Mods: m, Src: q})
			}
		}
	}
	return out
}

// c08CycleCLI: the same on the command line, modules that include or import each other in a circle as files.
func c08CycleCLI() []c08CLI {
	files := map[string]string{
		"cyc.jq": hex.EncodeToString([]byte(`include "cyc"; def f: 1;`)),
		"p.jq":   hex.EncodeToString([]byte(`import "q" as q; def g: 1;`)),
		"q.jq":   hex.EncodeToString([]byte(`import "p" as p; def h: 2;`)),
		"s.jq":   hex.EncodeToString([]byte(`import "s" as s {search: "./"}; def f: s::f;`)),
		".jq":    hex.EncodeToString([]byte(`def z: 0;`)),
	}
	var out []c08CLI
	for _, q := range []string{`("missing", "p", "missing", "cyc") | try (modulemeta | .defs) catch "E"`, `[("nowhere", "p") | try modulemeta catch "E"] | length`, `include "cyc"; f`, `import "cyc" as c; c::f`, `import "p" as p; p::g`, `include "q"; h`, `import "s" as s; s::f`, `"cyc" | modulemeta`, `"p" | modulemeta | .deps`, `include "cyc"; include "p"; 1`} {
		for _, pre := range [][]string{{"-n", "-L", "."}, {"-L", ".", "-n"}, {"-n", "-L.", "-c"}} {
			out = append(out, c08CLI{Args: append(append([]string{}, pre...), q), Files: files})
		}
	}
	return out
}
