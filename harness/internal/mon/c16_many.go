package mon

import (
	"encoding/json"
	"fmt"
	"os"
	"path/filepath"
	"strings"
	"syscall"
	"time"

	"verif/harness/internal/run"
)

// c16.manyfiles: more input files on one command line than the process may hold open at once. Every file has to be
// consumed, in order, exactly once (the statement's "across stdin and files"), which it only can when the command
// lets go of a file it has read to the end. The run is repeated without the descriptor limit: same bytes expected.

type c16ManyCase struct {
	N     int      // number of files
	Limit int      // RLIMIT_NOFILE for the command
	Args  []string // input mode flags and the query
	Raw   bool     // files hold text lines instead of JSON numbers
	Stdin int      // position of a "-" argument among the files (-1: none)
	Agg   string   // the output is an aggregate: this text is expected instead of every file's content
}

var kC16Many = run.NewKind("c16.manyfiles", func(c *run.Ctx, t c16ManyCase) *run.Fail {
	e, err := c16NewEnv(c)
	if err != nil {
		c.Inconclusive("no-temp-dir")
		return nil
	}
	defer e.close()
	var names []string
	for i := 1; i <= t.N; i++ {
		if i-1 == t.Stdin {
			names = append(names, "-")
			continue
		}
		name := fmt.Sprintf("f%03d.json", i)
		data := fmt.Sprintf("%d\n", i)
		if t.Raw {
			data = fmt.Sprintf("line %d\n", i)
		}
		if i%7 == 0 && !t.Raw {
			data = fmt.Sprintf("%d %d", i, -i) // two documents in one file
		}
		if e.write(name, data) != nil {
			c.Inconclusive("no-temp-dir")
			return nil
		}
		names = append(names, name)
	}
	stdin := "\"from stdin\"\n"
	argv := append(append([]string{}, t.Args...), names...)
	exec := func(limit int) run.CLIResult {
		o := run.CLIOpt{Args: argv, Dir: e.dir, Stdin: []byte(stdin), Timeout: 60 * time.Second}
		if limit > 0 {
			o.Wrap = []string{"/bin/sh", "-c", fmt.Sprintf("ulimit -n %d && exec \"$@\"", limit), "sh"}
		}
		e.n++
		c.Count("process_runs", 1)
		return run.CLI(o)
	}
	free, tight := exec(0), exec(t.Limit)
	if c16Broken(c, free, tight) {
		return nil
	}
	desc := fmt.Sprintf("gojq %q f001.json ... (%d files) under ulimit -n %d", t.Args, t.N, t.Limit)
	if free.Code != 0 {
		return run.Failf("%s: without the limit the command exits %d: %s", desc, free.Code, run.Clip(string(free.Stderr)))
	}
	if tight.Code != 0 || string(tight.Stdout) != string(free.Stdout) {
		return run.Failf("%s: exit %d, stderr %s; stdout %s, but without the limit (exit 0) %s", desc, tight.Code, run.Clip(string(tight.Stderr)), run.Clip(string(tight.Stdout)), run.Clip(string(free.Stdout)))
	}
	// every file's content is there, in argument order
	out := string(free.Stdout)
	pos := 0
	if t.Agg != "" {
		if strings.TrimSpace(out) != t.Agg {
			return run.Failf("%s: printed %s, expected %s", desc, run.Clip(out), t.Agg)
		}
		pos = len(out)
	}
	for i := 1; i <= t.N && t.Agg == ""; i++ {
		want := fmt.Sprint(i)
		if i-1 == t.Stdin {
			want = "from stdin"
		} else if t.Raw {
			want = fmt.Sprintf("line %d", i)
		}
		k := strings.Index(out[pos:], want)
		if k < 0 {
			return run.Failf("%s: the content of argument %d (%s) is missing from the output, or out of order: %s", desc, i, want, run.Clip(out))
		}
		pos += k + len(want)
	}
	c.Nontrivial(fmt.Sprint(t.N, t.Limit, t.Args, t.Stdin))
	c.Gauge("most_files_on_one_command_line", int64(t.N))
	_ = filepath.Join
	return nil
})

func c16ManyCases(quick bool) []c16ManyCase {
	var out []c16ManyCase
	modes := []struct {
		args []string
		raw  bool
	}{{[]string{"-c", "."}, false}, {[]string{"-nc", "[inputs]"}, false}, {[]string{"-sc", "."}, false}, {[]string{"-R", "."}, true}, {[]string{"-Rs", "."}, true}, {[]string{"--stream", "-c", "."}, false},
		{[]string{"-nc", "input, [limit(3; inputs)], [inputs] | tojson"}, false}, {[]string{"-c", "--yaml-input", "."}, false}, {[]string{"-c", "[., input]"}, false}, {[]string{"-nc", "reduce inputs as $x (0; . + 1)"}, false},
		{[]string{"-c", "--stream", "-s", "."}, false}, {[]string{"-nr", "[inputs | input_filename] | unique | length"}, false}}
	for mi, m := range modes {
		for ni, n := range []int{90, 300} {
			if quick && ni == 1 && mi%3 != 0 {
				continue
			}
			stdin := -1
			if (mi+ni)%3 == 0 {
				stdin = n / 2
			}
			nn := n
			if len(m.args) == 2 && m.args[1] == "[., input]" && (nn+nn/7)%2 == 1 {
				nn++ // an even number of values, so that no `input` runs dry
			}
			agg := ""
			switch m.args[len(m.args)-1] {
			case "reduce inputs as $x (0; . + 1)":
				agg = fmt.Sprint(nn + nn/7) // every seventh file holds two documents
				if stdin >= 0 && (stdin+1)%7 == 0 {
					agg = fmt.Sprint(nn + nn/7 - 1)
				}
			case "[inputs | input_filename] | unique | length":
				agg = fmt.Sprint(nn)
				if stdin >= 0 {
					agg = fmt.Sprint(nn) // stdin has no name: null is one more distinct value
				}
			}
			out = append(out, c16ManyCase{N: nn, Limit: 24 + 8*ni, Args: m.args, Raw: m.raw, Stdin: stdin, Agg: agg})
		}
	}
	return out
}

// c16.argtext: the text given to --argjson / --jsonargs is "parsed values": exactly one JSON value, surrounded by
// any white space. Such a text binds that value; any other text (no value, more than one, malformed) binds nothing:
// the command fails with a diagnostic and prints nothing.

type c16ArgTextCase struct {
	Text  string
	Valid bool
	Flag  string // argjson, jsonargs, jsonargs-second
}

var kC16ArgText = run.NewKind("c16.argtext", func(c *run.Ctx, t c16ArgTextCase) *run.Fail {
	var argv []string
	switch t.Flag {
	case "argjson":
		argv = []string{"-nc", "--argjson", "a", t.Text, "[$a, $ARGS.named.a]"}
	case "jsonargs":
		argv = []string{"-nc", "$ARGS.positional", "--jsonargs", t.Text}
	default:
		argv = []string{"-nc", "$ARGS.positional", "--jsonargs", "0", t.Text, "2"}
	}
	c.Count("process_runs", 1)
	r := run.CLI(run.CLIOpt{Args: argv, NoStdin: true, Timeout: 20 * time.Second})
	if c16Broken(c, r) {
		return nil
	}
	desc := fmt.Sprintf("gojq %q", argv)
	if !t.Valid {
		if r.Code == 0 || len(strings.TrimSpace(string(r.Stdout))) > 0 || len(r.Stderr) == 0 {
			return run.Failf("%s: the text %q is not one JSON value, but the command exits %d, prints %q, stderr %q", desc, t.Text, r.Code, run.Clip(string(r.Stdout)), run.Clip(string(r.Stderr)))
		}
		c.Nontrivial(t.Flag + t.Text)
		return nil
	}
	want, err := c16Decode1(t.Text)
	if err != nil {
		return run.Failf("bad case: %v", err)
	}
	var exp any
	switch t.Flag {
	case "argjson":
		exp = []any{want, want}
	case "jsonargs":
		exp = []any{want}
	default:
		exp = []any{json.Number("0"), want, json.Number("2")}
	}
	got, gerr := c16Decode1(string(r.Stdout))
	if r.Code != 0 || gerr != nil || run.Canon(got) != run.Canon(exp) {
		return run.Failf("%s: exit %d, printed %q (stderr %q), expected %s", desc, r.Code, run.Clip(string(r.Stdout)), run.Clip(string(r.Stderr)), run.Canon(exp))
	}
	c.Nontrivial(t.Flag + t.Text)
	return nil
})

func c16ArgTextCases() []c16ArgTextCase {
	invalid, valid := c16NotOneJSON, c16OneJSON
	var out []c16ArgTextCase
	for _, f := range []string{"argjson", "jsonargs", "jsonargs-second"} {
		for _, t := range invalid {
			if strings.ContainsRune(t, 0) {
				continue // argv cannot carry NUL
			}
			out = append(out, c16ArgTextCase{Text: t, Flag: f})
		}
		for _, t := range valid {
			out = append(out, c16ArgTextCase{Text: t, Valid: true, Flag: f})
		}
	}
	return out
}

// texts that are not exactly one JSON value, and texts that are
var c16NotOneJSON = []string{"", " ", "\n", "\t \r\n", "1 2", "1 x", "[1] [2]", "{}{}", "nul", "1,", "[1,]", "{\"a\":}", "\"abc", "1 2 3", "null null", "[] x", "// c", "# c", "1 #c", "'a'", "tru", "-", "+1", "01", "1.", ".5", "\x00", "1\x00", "NaN", "[1 2]", "{\"a\" 1}", "\"\\x\"", "]", "1 ]", "1}",
	"[1]]", "1]", "{\"a\":1}}", "[1] ] and anything else", "null][", "[1]}", "{}]", "\"a\"]", "true}", "[[1]]]", " [ ] ] ", "{\"a\":[1]]}", "1 }", "[1],", "[1]:", "{}:", "1:2", "[1]\"", "1e", "1e+", "-.5", "0x10", "1_000", "Infinity", "-Infinity", "nan", "[,1]", "{,}", "{\"a\":1,}", "[1,,2]", "\"\\ud800\\u\"", "\"tab\there\"", "\"nl\nhere\""}
var c16OneJSON = []string{"1", " 1", "1 ", "\n[1,2]\n", "\t{\"a\":[null]}\r\n", "null", "\"a b\"", " \"\" ", "-0", "1e1000", "100000000000000000000000000001", "[]", "{}", "false", " \n\t\r [ 1 , {\"a\" : \"\\u00e9\"} ] \r\t\n ",
	"[[]]", "[{}]", "{\"a\":{\"b\":[]}}", "\"]\"", "\"}\"", "[\"]\"]", "{\"]\":\"}\"}", "1E5", "1e-5", "-1.5e+3", "0.0", "\"\\ud83d\\ude00\"", "\"\\\\\"", "[1,[2,[3,[4]]]]", " true "}

// c16.special: input files that are not regular files — /dev/stdin, a named pipe, a symbolic link, /dev/null — are
// read like any other, in argument order.

type c16SpecialCase struct {
	Args      []string // flags and query; the file arguments follow
	Slurpfile bool
}

var kC16Special = run.NewKind("c16.special", func(c *run.Ctx, t c16SpecialCase) *run.Fail {
	e, err := c16NewEnv(c)
	if err != nil {
		c.Inconclusive("no-temp-dir")
		return nil
	}
	defer e.close()
	if e.write("a.json", "1 2\n") != nil || e.write("z.json", "7 8") != nil || e.write("target.json", "5\n6\n") != nil {
		c.Inconclusive("no-temp-dir")
		return nil
	}
	fifo := filepath.Join(e.dir, "pipe.json")
	if err := syscall.Mkfifo(fifo, 0o644); err != nil {
		c.Inconclusive("no-fifo")
		return nil
	}
	if os.Symlink("target.json", filepath.Join(e.dir, "link.json")) != nil {
		c.Inconclusive("no-symlink")
		return nil
	}
	// a writer for the named pipe: opens it (blocks until the command opens it for reading), writes, closes
	done := make(chan struct{})
	go func() {
		defer close(done)
		f, err := os.OpenFile(fifo, os.O_WRONLY, 0)
		if err != nil {
			return
		}
		f.WriteString("3 4\n")
		f.Close()
	}()
	files := []string{"a.json", "pipe.json", "link.json", "/dev/null", "/dev/stdin", "z.json"}
	argv := append(append([]string{}, t.Args[:max(len(t.Args)-1, 0)]...), files...)
	if t.Slurpfile {
		argv = []string{"-nc", "--slurpfile", "p", "pipe.json", "--slurpfile", "l", "link.json", "--slurpfile", "s", "/dev/stdin", "[$p, $l, $s]"}
	}
	e.n++
	c.Count("process_runs", 1)
	r := run.CLI(run.CLIOpt{Args: argv, Dir: e.dir, Stdin: []byte("\"from stdin\"\n"), Timeout: 30 * time.Second})
	// release the writer if the command never opened the pipe
	if rf, err := os.OpenFile(fifo, os.O_RDONLY|syscall.O_NONBLOCK, 0); err == nil {
		<-done
		rf.Close()
	}
	if c16Broken(c, r) {
		return nil
	}
	desc := fmt.Sprintf("gojq %q (a.json regular, pipe.json a named pipe, link.json a symbolic link)", argv)
	got := strings.Join(strings.Fields(string(r.Stdout)), " ")
	want := t.Args[len(t.Args)-1]
	if t.Slurpfile {
		want = `[[3,4],[5,6],["from stdin"]]`
	}
	if r.Code != 0 || got != want {
		return run.Failf("%s: exit %d, stdout %s, stderr %s; expected %s", desc, r.Code, run.Clip(string(r.Stdout)), run.Clip(string(r.Stderr)), want)
	}
	c.Nontrivial(fmt.Sprint(argv))
	return nil
})

// the last element of Args is the expected output (fields joined by one space), the one before it the query
func c16SpecialCases() []c16SpecialCase {
	return []c16SpecialCase{
		{Args: []string{"-c", ".", `1 2 3 4 5 6 "from stdin" 7 8`}},
		{Args: []string{"-nc", "[inputs]", `[1,2,3,4,5,6,"from stdin",7,8]`}},
		{Args: []string{"-sc", ".", `[1,2,3,4,5,6,"from stdin",7,8]`}},
		{Args: []string{"-nc", "[inputs | input_filename] | unique", `["/dev/stdin","a.json","link.json","pipe.json","z.json"]`}},
		{Args: []string{"-c", "--stream", ".", `[[],1] [[],2] [[],3] [[],4] [[],5] [[],6] [[],"from stdin"] [[],7] [[],8]`}},
		{Args: []string{"-nc", "reduce inputs as $x (0; . + 1)", "9"}},
		{Slurpfile: true, Args: []string{"x"}},
	}
}

// c16.procfs: files whose reported size says nothing about their content (procfs reports 0): -Rs is the whole text,
// -R its lines, --rawfile the same text, also between other files and as a redirected standard input.

type c16ProcCase struct{ Mode string }

var kC16Proc = run.NewKind("c16.procfs", func(c *run.Ctx, t c16ProcCase) *run.Fail {
	const pf = "/proc/version"
	content, err := os.ReadFile(pf)
	if err != nil || len(content) == 0 {
		c.Inconclusive("no-procfs")
		return nil
	}
	e, err := c16NewEnv(c)
	if err != nil || e.write("a.txt", "first\nline") != nil || e.write("z.txt", "last\n") != nil {
		c.Inconclusive("no-temp-dir")
		return nil
	}
	defer e.close()
	text := string(content)
	lines := func(s string) []any {
		var out []any
		for rest := s; rest != ""; {
			l, tail, _ := strings.Cut(rest, "\n")
			out, rest = append(out, l), tail
		}
		return out
	}
	var opt run.CLIOpt
	var want []any
	switch t.Mode {
	case "Rs":
		opt, want = run.CLIOpt{Args: []string{"-Rs", ".", pf}, NoStdin: true}, []any{text}
	case "Rs-between":
		opt, want = run.CLIOpt{Args: []string{"-Rs", ".", "a.txt", pf, "z.txt"}, NoStdin: true}, []any{"first\nline" + text + "last\n"}
	case "Rs-stdin":
		opt, want = run.CLIOpt{Args: []string{"-Rs", "."}, StdinFile: pf}, []any{text}
	case "nRs-input":
		opt, want = run.CLIOpt{Args: []string{"-nRs", "[inputs]", pf, "z.txt"}, NoStdin: true}, []any{[]any{text + "last\n"}}
	case "R":
		opt, want = run.CLIOpt{Args: []string{"-R", ".", pf}, NoStdin: true}, lines(text)
	case "R-between":
		opt, want = run.CLIOpt{Args: []string{"-nR", "[inputs]", "a.txt", pf, "z.txt"}, NoStdin: true}, []any{append(append([]any{"first", "line"}, lines(text)...), "last")}
	case "rawfile":
		opt, want = run.CLIOpt{Args: []string{"-n", "--rawfile", "x", pf, "$x"}, NoStdin: true}, []any{text}
	case "Rs-length":
		opt, want = run.CLIOpt{Args: []string{"-Rs", "utf8bytelength", "z.txt", pf, "a.txt"}, NoStdin: true}, []any{len(content) + 15}
	default:
		return run.Failf("unknown mode")
	}
	opt.Dir = e.dir
	e.n++
	c.Count("process_runs", 1)
	r := run.CLI(opt)
	if c16Broken(c, r) {
		return nil
	}
	got, malformed := c15Decode(r.Stdout)
	if r.Code != 0 || malformed || run.Canon(got) != run.Canon(want) {
		return run.Failf("gojq %q (%s reports size 0 and holds %d bytes): exit %d, stdout %s, stderr %s; expected %s", opt.Args, pf, len(content), r.Code, run.Clip(string(r.Stdout)), run.Clip(string(r.Stderr)), run.Clip(run.Canon(want)))
	}
	c.Nontrivial(t.Mode)
	return nil
})
