package mon

import (
	"encoding/json"
	"fmt"
	"math"
	"math/big"
	"reflect"
	"sort"
	"strconv"
	"strings"

	"verif/harness/internal/gen"
	"verif/harness/internal/model"
	"verif/harness/internal/run"

	"github.com/itchyny/gojq"
)

// ---- C03: every builtin computes its documented function on all argument types ----

type c03Case struct {
	Name  string
	Input run.TV
	Args  []run.TV // value arguments ($a0, $a1, ...)
	FArgs []string // or filter arguments (text), for jq-defined builtins with filter parameters
	Op    bool     // Name is a binary operator: $x Name $a0
}

func (t c03Case) query() (string, []string) {
	names := []string{"$x"}
	if t.Op {
		return "$x " + t.Name + " $a0", append(names, "$a0")
	}
	call := t.Name
	var as []string
	if len(t.FArgs) > 0 {
		as = t.FArgs
	} else {
		for i := range t.Args {
			as = append(as, fmt.Sprintf("$a%d", i))
			names = append(names, fmt.Sprintf("$a%d", i))
		}
	}
	if len(as) > 0 {
		call += "(" + strings.Join(as, "; ") + ")"
	}
	return "$x | " + call, names
}

// altReps rewrites numbers into another exact Go representation inside the
// statement's interchangeability classes: mode 1 int -> *big.Int and
// fraction/exponent json.Number -> float64; mode 2 integers -> integer-literal
// json.Number and floats of magnitude <= 2^53 -> fraction/exponent json.Number.
func altReps(v any, mode int) any {
	switch x := v.(type) {
	case int:
		if mode == 1 {
			return big.NewInt(int64(x))
		}
		return json.Number(strconv.Itoa(x))
	case *big.Int:
		if mode == 2 && x != nil {
			return json.Number(x.String())
		}
		return x
	case float64:
		if mode == 2 && !math.IsNaN(x) && !math.IsInf(x, 0) && math.Abs(x) <= 1<<53 {
			s := strconv.FormatFloat(x, 'g', -1, 64)
			if !strings.ContainsAny(s, ".e") {
				s += ".0"
			}
			return json.Number(s)
		}
		return x
	case json.Number:
		s := string(x)
		if mode == 1 {
			if strings.ContainsAny(s, ".eE") {
				f, err := strconv.ParseFloat(s, 64)
				if err == nil && math.Abs(f) <= 1<<53 || math.IsInf(f, 0) {
					return f
				}
				return x
			}
			if b, ok := new(big.Int).SetString(s, 10); ok && s != "-0" {
				return b
			}
		}
		return x
	case []any:
		if x == nil {
			return x
		}
		w := make([]any, len(x))
		for i, e := range x {
			w[i] = altReps(e, mode)
		}
		return w
	case map[string]any:
		if x == nil {
			return x
		}
		w := make(map[string]any, len(x))
		for k, e := range x {
			w[k] = altReps(e, mode)
		}
		return w
	}
	return v
}

func outcomeKey(tr run.Trace) string {
	s := run.CanonList(tr.Vals) + "|" + tr.End.String()
	if tr.End == run.EndError {
		s += ":" + run.ErrClass(tr.Err)
		if run.ErrClass(tr.Err) == "user" {
			s += ":" + run.Canon(run.ErrValue(tr.Err))
		}
	}
	return s
}

var kC03 = run.NewKind("c03.builtin", func(c *run.Ctx, t c03Case) *run.Fail {
	src, names := t.query()
	if nondeterministic(src) {
		c.Inconclusive("clock-or-input-dependent")
		return nil
	}
	q, err := gojq.Parse(src)
	if err != nil {
		return run.Failf("harness: %q does not parse: %v", src, err)
	}
	code, cerr, pan := func() (*gojq.Code, error, string) {
		return run.CompileQuery(q, gojq.WithVariables(names))
	}()
	if pan != "" {
		return run.Failf("Compile panicked on %q: %s", src, pan)
	}
	if cerr != nil {
		c.Inconclusive("does-not-compile")
		return nil
	}
	vals := append([]any{t.Input.V}, run.UnTVs(t.Args)...)
	vals = vals[:len(names)]
	deep := func(vs []any) []any {
		out := make([]any, len(vs))
		for i, v := range vs {
			out[i] = run.DeepCopy(v)
		}
		return out
	}
	desc := func() string {
		s := src + " with $x=" + run.Clip(strictKey(t.Input.V))
		for i, a := range t.Args {
			s += fmt.Sprintf(" $a%d=%s", i, run.Clip(strictKey(a.V)))
		}
		return s
	}
	tr := run.RunCode(code, nil, deep(vals), 100000, 400)
	c.Logf("gojq : %s", run.TraceDesc(tr))
	// (4) catchability and value types
	if tr.End == run.EndPanic {
		return run.Failf("%s: panic instead of a catchable error: %s", desc(), tr.Panic)
	}
	for _, v := range tr.Vals {
		if !run.ValidOutput(v) {
			return run.Failf("%s emitted a Go value outside the supported types: %T", desc(), v)
		}
	}
	if tr.End == run.EndError && run.ErrClass(tr.Err) != "halt" {
		tq, _ := gojq.Parse("try (" + src + ") catch \"E\"")
		if tcode, e2, _ := run.CompileQuery(tq, gojq.WithVariables(names)); e2 == nil {
			tt := run.RunCode(tcode, nil, deep(vals), 100000, 400)
			if tt.End != run.EndOK || len(tt.Vals) != len(tr.Vals)+1 || run.Canon(tt.Vals[len(tt.Vals)-1]) != `"E"` {
				return run.Failf("%s raises %v, but try/catch around it gives %s instead of its outputs followed by the handler's value", desc(), tr.Err, run.TraceDesc(tt))
			}
			c.Count("errors_caught_by_try", 1)
		}
	}
	if tr.End == run.EndBudget {
		c.Inconclusive("budget")
		return nil
	}
	// (1)/(3) reference function or builtin.jq text
	vars := map[string]any{}
	for i, n := range names {
		vars[n] = run.DeepCopy(vals[i])
	}
	res := model.Run(q, nil, vars, 300000, 400)
	c.Logf("model: %s", modelDesc(res))
	diff, inc := cmpModel(tr, res)
	if diff != "" {
		return run.Failf("%s: %s", desc(), diff)
	}
	if inc != "" {
		c.Count("without_reference_result", 1)
		if strings.HasPrefix(inc, "unsupported") {
			c.Distinct("unsupported_reasons", inc)
		}
	} else {
		c.Count("compared_with_reference", 1)
		c.Distinct("builtins_with_reference_result", t.Name+"/"+strconv.Itoa(len(t.Args)+len(t.FArgs)))
	}
	// (2) representation independence
	base := outcomeKey(tr)
	for mode := 1; mode <= 2; mode++ {
		alt := make([]any, len(vals))
		changed := false
		for i, v := range vals {
			if c03Textual(t) {
				alt[i] = altRepsInts(run.DeepCopy(v), mode)
			} else {
				alt[i] = altReps(run.DeepCopy(v), mode)
			}
			changed = changed || strictKey(alt[i]) != strictKey(v)
		}
		if !changed {
			continue
		}
		tr2 := run.RunCode(code, nil, alt, 100000, 400)
		c.AddEvals(1)
		if tr2.End == run.EndBudget {
			continue
		}
		if k := outcomeKey(tr2); k != base {
			// An untouched number literal keeps its spelling on output (C10), so text derived from a float given as
			// "5.0" may read "5.0" where the float64 5 gives "5". Excused only when (a) the variant that converts
			// integers alone agrees and (b) the outcomes differ in nothing but the content of strings / object keys.
			ints := make([]any, len(vals))
			for i, v := range vals {
				ints[i] = altRepsInts(run.DeepCopy(v), mode)
			}
			if tr3 := run.RunCode(code, nil, ints, 100000, 400); outcomeKey(tr3) == base && differOnlyInStrings(tr, tr2) {
				c.Count("literal_spelling_reaches_text", 1)
				continue
			}
			return run.Failf("%s: the result depends on the Go representation of a number: %s, but with %s: %s", desc(), run.TraceDesc(tr), run.Clip(strictList(alt)), run.TraceDesc(tr2))
		}
		c.Count("representation_variants_agreeing", 1)
	}
	if len(tr.Vals) > 0 {
		c.Nontrivial(src + strictKey(t.Input.V) + strictList(run.UnTVs(t.Args)))
	}
	c.Distinct("builtins_exercised", t.Name+"/"+strconv.Itoa(len(t.Args)+len(t.FArgs)))
	return nil
})

// c03Textual: the builtin turns its input's number into text (or reads text out of it), where an untouched
// literal legitimately keeps its spelling (C10); only integer representations are varied for these.
func c03Textual(t c03Case) bool {
	switch t.Name {
	case "tojson", "tostring", "join", "ascii", "format", "INDEX", "tojson/0", "test", "match", "capture", "scan", "split", "splits", "sub", "gsub", "ltrimstr", "rtrimstr", "trimstr", "startswith", "endswith",
		"ascii_downcase", "ascii_upcase", "explode", "utf8bytelength", "fromjson", "todate", "todateiso8601", "strftime", "dateadd", "datesub", "date", "getpath", "error", "halt_error", "env", "$ENV", "input", "debug", "stderr", "+", "*":
		return true
	}
	if strings.HasPrefix(t.Name, "@") || strings.HasPrefix(t.Name, "_to") {
		return true
	}
	for _, f := range t.FArgs {
		if strings.Contains(f, "tostring") || strings.Contains(f, "tojson") || strings.Contains(f, "@") || strings.Contains(f, "\\(") {
			return true
		}
	}
	return false
}

// altRepsInts converts only integers (floats and fraction/exponent literals stay).
func altRepsInts(v any, mode int) any {
	switch x := v.(type) {
	case float64:
		return x
	case json.Number:
		if strings.ContainsAny(string(x), ".eE") {
			return x
		}
	case []any:
		if x == nil {
			return x
		}
		w := make([]any, len(x))
		for i, e := range x {
			w[i] = altRepsInts(e, mode)
		}
		return w
	case map[string]any:
		if x == nil {
			return x
		}
		w := make(map[string]any, len(x))
		for k, e := range x {
			w[k] = altRepsInts(e, mode)
		}
		return w
	}
	return altReps(v, mode)
}

func differOnlyInStrings(a, b run.Trace) bool {
	if len(a.Vals) != len(b.Vals) || a.End != b.End {
		return false
	}
	var same func(x, y any) bool
	same = func(x, y any) bool {
		switch p := x.(type) {
		case string:
			_, ok := y.(string)
			return ok
		case []any:
			q, ok := y.([]any)
			if !ok || len(p) != len(q) {
				return false
			}
			for i := range p {
				if !same(p[i], q[i]) {
					return false
				}
			}
			return true
		case map[string]any:
			q, ok := y.(map[string]any)
			if !ok || len(p) != len(q) {
				return false
			}
			kp, kq := model.SortedKeys(p), model.SortedKeys(q)
			for i := range kp {
				if !same(p[kp[i]], q[kq[i]]) {
					return false
				}
			}
			return true
		}
		return run.Canon(x) == run.Canon(y)
	}
	for i := range a.Vals {
		if !same(a.Vals[i], b.Vals[i]) {
			return false
		}
	}
	return true
}

// numericallySameText: outputs are strings that differ only in how an embedded
// number literal is spelled (compare after re-reading numbers is out of reach in
// general; accept when the non-digit skeletons agree).
func numericallySameText(a, b run.Trace) bool {
	if len(a.Vals) != len(b.Vals) || a.End != b.End {
		return false
	}
	skel := func(v any) string {
		s := run.Canon(v)
		var sb strings.Builder
		for _, r := range s {
			if r >= '0' && r <= '9' || r == '.' || r == 'e' || r == 'E' || r == '+' || r == '-' {
				continue
			}
			sb.WriteRune(r)
		}
		return sb.String()
	}
	for i := range a.Vals {
		if skel(a.Vals[i]) != skel(b.Vals[i]) {
			return false
		}
	}
	return true
}

// ---- sync of builtin.go with builtin.jq ----

type c03Sync struct{ Name string }

var kC03Sync = run.NewKind("c03.sync", func(c *run.Ctx, t c03Sync) *run.Fail {
	pre := gojq.VerifBuiltinFuncDefs()
	var names []string
	for n := range pre {
		names = append(names, n)
	}
	sort.Strings(names)
	seen := map[string]bool{}
	for _, name := range names {
		for _, fd := range pre[name] {
			key := fd.Name + "/" + strconv.Itoa(len(fd.Args))
			seen[key] = true
			src := model.BuiltinDef(fd.Name, len(fd.Args))
			if src == nil {
				return run.Failf("builtin.go ships %s, which builtin.jq does not define", key)
			}
			if !reflect.DeepEqual(fd, src) {
				return run.Failf("the precompiled definition of %s in builtin.go differs from builtin.jq:\n  builtin.go: %s\n  builtin.jq: %s", key, fd, src)
			}
			c.AddEvals(1)
			c.Nontrivial(key)
		}
	}
	b, err := readBuiltinJQ()
	if err != nil {
		return run.Failf("cannot read builtin.jq: %v", err)
	}
	q, err := gojq.Parse(b)
	if err != nil {
		return run.Failf("builtin.jq does not parse: %v", err)
	}
	for _, fd := range q.FuncDefs {
		key := fd.Name + "/" + strconv.Itoa(len(fd.Args))
		if !seen[key] {
			return run.Failf("builtin.jq defines %s, which builtin.go does not ship", key)
		}
	}
	c.Gauge("builtin_definitions_in_sync", int64(len(seen)))
	return nil
})

func readBuiltinJQ() (string, error) {
	b, err := osReadFile(model.BuiltinSource)
	return string(b), err
}

var c03Filters = []string{".", ".a?", ".[]?", "1", "empty", "error", "not", "length?", ".[0]?", ". + 1?", "tostring", "[.]", "type", ". == 1", "select(. != null)", "(1, 2)", ".. ", "null", "false", "\"k\"", "{a: .}", "-.?", "keys?", "first?", "(1, 2, 3, 4)", "range(5)", "(.[]?, 7, 8)", "(1, null, 2)", "range(3; 0; -1)", "(\"a\", \"b\", \"c\")"}

// c03ValueArgs: arguments for `$name` parameters of builtins that also take filters (counts, depths, indices, flags):
// zero, small, negative, fractional on both sides of an integer, huge, non-finite, and wrong types.
var c03ValueArgs = []string{"0", "1", "2", "-1", "\"a\"", "null", "\"g\"", ".", "[0]", "1.5", "0.5", "-0.5", "2.5", "3", "10", "1e-9", "1e1000", "infinite", "-infinite", "true", "2.000001", "1.999999", "-1.5", "0.0", "-0", "4294967296", "{}"}

func init() {
	run.Register(&run.Prop{
		ID: "C03", Level: "exploration", MinNontrivial: 5000,
		Rule:        "builtin: a case is (builtin name/arity taken at run time from `builtins` plus the user-reachable operators, input, arguments) with values from a ~110-value type universe (every type, empty/singleton/nested containers, negative/fractional/huge numbers, NaN/inf, multi-byte and invalid UTF-8 strings, number-like strings) — all (input, argument) pairs per arity-1 builtin in thorough, sampled otherwise — or filter arguments from a pool for jq-defined builtins with filter parameters. Each case is run by the real library and checked four ways: (1) against the reference (native reference functions written from the manual, or the reference interpreter evaluating builtin.jq's text for jq-defined builtins; the reference declines where jq versions differ), (2) representation independence: the same tuple with ints as *big.Int / integer-literal json.Number and floats <= 2^53 as fraction/exponent json.Number (and back) must give the same canonical outcome, (3) an error must be catchable by try/catch at the right position, never a panic, and outputs must consist of the supported Go types; sync: every precompiled definition of builtin.go is reflect.DeepEqual to the definition parsed from builtin.jq and vice versa. Non-trivial = distinct tuples that produced an output. Also (kind c03.fromjson): 100 texts that are / are not exactly one JSON value, in three calling forms: fromjson returns the value or a catchable error, never the value of a prefix. rangeedge: range($from; $upto; $by) across the edges of the machine integers (7 edges x 12 steps of either sign x 7 offsets x 4 representations) against the arithmetic progression computed with math/big. dates: gmtime, todate and strftime of a number of seconds (either sign, with and without a fraction, years 1..9999, ints and doubles) against the broken-down time computed from the day number by era arithmetic (not package time): an instant before 1970 lies in 1969 whatever its fraction; gmtime | mktime gives back the whole second or the instant.",
		Assumptions: []string{"the native reference functions (harness/internal/model/natives*.go, values.go) are a faithful reading of the manual; where the manual is silent and jq versions differ they decline and only checks (2)-(3) apply", "clock and time-zone builtins are excluded from (1)-(2)", "a number literal that reaches a text-producing builtin untouched keeps its spelling (C10), so outputs differing only in digit spelling are not a representation dependence"},
		Body: func(c *run.Ctx) {
			r := c.Rand("c03")
			U := gen.UTypes()
			U = append(U, "true", "false", " a ", "\ta\n", "a\x00b", "%zz", "YQ==", "YQ", "a=b", "[1,2,", "nan", "1e1000", json.Number("3.0"), json.Number("-0"), json.Number("0.5"), big.NewInt(5), 5.0, []any{1, 1.0, big.NewInt(1)}, []any{"a", "b", "a"}, []any{[]any{1, 2}, []any{3}},
				[]any{65, 66, 0x1F600}, []any{120, 4294967361, 121}, []any{4294967296, -4294967231, 1114112, -1}, []any{65.0, json.Number("66"), big.NewInt(67)}, []any{1e15, 9223372036854775807}, 4294967361, 4294967296, []any{1, "a", nil, true}, []any{"a,b", "c\"d", 1, nil, false}, map[string]any{"key": "k", "value": 1}, []any{map[string]any{"key": "k", "value": 1}, map[string]any{"name": "n", "Value": 2}}, []any{0, 1, 2, 3, 4}, "abcabc", "bc", "a b c", []any{"start", "end"}, 0.3, -7, 7, 1e15, -2.5, []any{3, 1, 2}, []any{[]any{"a", 1}, []any{"b", 2}})
			// arrays beyond a dozen elements with tied keys (algorithms that switch strategy with size must stay stable)
			{
				var tied, nums []any
				for i := 0; i < 20; i++ {
					tied = append(tied, map[string]any{"a": i % 3, "i": i})
					nums = append(nums, []any{1, 1.0, json.Number("1"), json.Number("1.0"), big.NewInt(1), 2, 0}[i%7])
				}
				U = append(U, tied, nums, tied[:13], append(append([]any{}, tied[:7]...), tied[:7]...))
			}
			c.Gauge("universe_size", int64(len(U)))
			pick := func() run.TV { return run.TV{V: U[r.IntN(len(U))]} }
			kC03Sync.Do(c, c03Sync{"builtin.go"})
			for _, t := range c03HugeCases() {
				kC03Huge.Do(c, t)
			}
			for _, t := range c03CompanyCases() {
				kC03Company.Do(c, t)
			}
			for _, t := range c03DateCases(c) {
				kC03Dates.Do(c, t)
			}
			for _, t := range c03RangeCases(c) {
				kC03Range.Do(c, t)
			}
			for _, t := range c16NotOneJSON {
				kC03FromJSON.Do(c, c03FromJSON{Text: t})
				kC03FromJSON.Do(c, c03FromJSON{Text: " " + t + "\n"})
			}
			for _, t := range c16OneJSON {
				kC03FromJSON.Do(c, c03FromJSON{Text: t, Valid: true})
			}
			names := builtinNames()
			names = append(names, "_plus/0", "_negate/0", "_index/2", "_slice/3", "_tohtml/0", "_touri/0", "_tourid/0", "_tocsv/0", "_totsv/0", "_tosh/0", "_tobase64/0", "_tobase64d/0", "_min_by/1", "_max_by/1", "_sort_by/1", "_group_by/1", "_unique_by/1", "_captures/0")
			ops := []string{"+", "-", "*", "/", "%", "==", "!=", "<", "<=", ">", ">=", "//", "and", "or"}
			// operators: the full type tables
			for _, op := range ops {
				for i, a := range U {
					for j, b := range U {
						if c.Quick() && (i*31+j*17)%5 != 0 {
							continue
						}
						kC03.Do(c, c03Case{Name: op, Input: run.TV{V: a}, Args: []run.TV{{V: b}}, Op: true})
					}
				}
			}
			for _, na := range names {
				i := strings.LastIndexByte(na, '/')
				name := na[:i]
				arity, _ := strconv.Atoi(na[i+1:])
				switch name {
				case "input", "inputs", "debug", "stderr", "input_line_number", "halt", "halt_error", "now", "localtime", "strflocaltime", "builtins", "modulemeta", "env", "$__loc__", "error", "repeat", "range", "limit", "until", "while", "recurse", "combinations", "getpath", "splits", "ltrimstr", "input_filename", "jn", "yn", "significand", "lgamma_r", "frexp", "modf", "ldexp", "scalb", "scalbln", "nearbyint", "logb", "drem", "erf", "erfc", "j0", "j1", "y0", "y1", "fma", "nexttoward", "nextafter", "remainder":
					if name != "range" && name != "limit" && name != "getpath" && name != "ltrimstr" && name != "error" && name != "combinations" {
						continue
					}
				}
				fd := model.BuiltinDef(name, arity)
				filterParams := false
				if fd != nil {
					for _, a := range fd.Args {
						filterParams = filterParams || a[0] != '$'
					}
				}
				var n int
				switch {
				case arity == 0:
					n = len(U)
				case arity == 1 && !c.Quick():
					n = len(U) * len(U)
				default:
					n = c.N(400, 8000)
				}
				for k := 0; k < n; k++ {
					cs := c03Case{Name: name}
					switch {
					case arity == 0:
						cs.Input = run.TV{V: U[k]}
					case arity == 1 && !c.Quick() && !filterParams:
						cs.Input, cs.Args = run.TV{V: U[k/len(U)]}, []run.TV{{V: U[k%len(U)]}}
					case filterParams:
						cs.Input = pick()
						for j := 0; j < arity; j++ {
							if fd.Args[j][0] == '$' {
								cs.FArgs = append(cs.FArgs, c03ValueArgs[r.IntN(len(c03ValueArgs))])
							} else {
								cs.FArgs = append(cs.FArgs, c03Filters[r.IntN(len(c03Filters))])
							}
						}
					default:
						cs.Input = pick()
						for j := 0; j < arity; j++ {
							cs.Args = append(cs.Args, pick())
						}
						// bias towards well-typed tuples: reuse the input's type for an argument sometimes
						if r.IntN(3) == 0 && arity > 0 {
							cs.Args[r.IntN(arity)] = cs.Input
						}
					}
					kC03.Do(c, cs)
				}
			}
		},
	})
}
