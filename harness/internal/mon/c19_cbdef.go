package mon

import (
	"errors"
	"fmt"
	"math/rand/v2"
	"runtime/debug"
	"sort"
	"strconv"
	"strings"

	"verif/harness/internal/gen"
	"verif/harness/internal/run"

	"github.com/itchyny/gojq"
)

// ---- C19 sub-check 4: Go callback ≡ jq definition ----

// c19Reg is one WithFunction / WithIterFunction option.
type c19Reg struct {
	Name     string
	Min, Max int
	Iter     bool
	Beh      string
}

// behaviours: a Go function and a jq BODY with the same input/output relation
var (
	c19PlainBehs = []string{"all", "first", "last", "self", "cnt", "obj", "verr", "verr0", "perr", "pack"}
	c19IterBehs  = []string{"each", "selfeach", "none", "mid", "one", "twice", "fixed", "lazy", "oneerr", "oneperr"}
)

type c19ValErr struct{ v any }

func (e *c19ValErr) Error() string { return "c19 value error: " + run.Canon(e.v) }
func (e *c19ValErr) Value() any    { return e.v }

const c19PlainMsg = "c19 plain error"

var errC19Plain = errors.New(c19PlainMsg)

// c19SliceIter yields the given events lazily (errors are raised, not emitted).
type c19SliceIter struct {
	xs []any
	i  int
}

func (it *c19SliceIter) Next() (any, bool) {
	if it.i >= len(it.xs) {
		return nil, false
	}
	it.i++
	return it.xs[it.i-1], true
}

func c19GoPlain(beh string) func(any, []any) any {
	return func(v any, args []any) any {
		if beh == "pack" {
			return args // the slice it was handed, as an array: a function may keep what it is given
		}
		args = append([]any(nil), args...)
		switch beh {
		case "all":
			return append([]any{v}, args...)
		case "first":
			if len(args) == 0 {
				return v
			}
			return args[0]
		case "last":
			if len(args) == 0 {
				return v
			}
			return args[len(args)-1]
		case "self":
			return v
		case "cnt":
			return len(args)
		case "obj":
			return map[string]any{"in": v, "n": len(args)}
		case "verr":
			return &c19ValErr{append([]any{v}, args...)}
		case "verr0":
			return &c19ValErr{nil}
		case "perr":
			return errC19Plain
		}
		panic("c19GoPlain: " + beh)
	}
}

func c19GoIter(beh string) func(any, []any) gojq.Iter {
	return func(v any, args []any) gojq.Iter {
		if beh == "lazy" {
			return &c19SliceIter{xs: args} // reads the slice it was handed only when asked for the next value
		}
		args = append([]any(nil), args...)
		switch beh {
		case "each":
			return &c19SliceIter{xs: args}
		case "selfeach":
			return &c19SliceIter{xs: append([]any{v}, args...)}
		case "none":
			return gojq.NewIter[any]()
		case "mid":
			xs := []any{}
			if len(args) > 0 {
				xs = append(xs, args[0])
			}
			xs = append(xs, &c19ValErr{"mid"})
			if len(args) > 1 {
				xs = append(xs, args[1:]...)
			}
			return &c19SliceIter{xs: xs}
		case "one":
			return gojq.NewIter(v)
		case "oneerr":
			// the usual way for an iterator function to fail: an iterator over one error
			return gojq.NewIter[any](&c19ValErr{"oneerr"})
		case "oneperr":
			return gojq.NewIter[any](errC19Plain)
		case "fixed":
			// a fixed stream kept by the callback's owner and handed to the library's slice iterator on every call
			return gojq.NewIter(c19Fixed...)
		case "twice":
			x := append([]any{v}, args...)
			return gojq.NewIter[any](x, x)
		}
		panic("c19GoIter: " + beh)
	}
}

var c19Fixed = c19FixedPristine()

func c19FixedPristine() []any { return []any{1, "two", []any{3}, nil, false} }

// c19Body is the jq BODY equivalent to behaviour beh at arity n, over $a0…
func c19Body(beh string, n int) string {
	as := make([]string, n)
	for i := range as {
		as[i] = "$a" + strconv.Itoa(i)
	}
	all := "[" + strings.Join(append([]string{"."}, as...), ", ") + "]"
	switch beh {
	case "all":
		return all
	case "first":
		if n == 0 {
			return "."
		}
		return as[0]
	case "last":
		if n == 0 {
			return "."
		}
		return as[n-1]
	case "self", "one":
		return "."
	case "cnt":
		return strconv.Itoa(n)
	case "obj":
		return "{in: ., n: " + strconv.Itoa(n) + "}"
	case "verr":
		return "error(" + all + ")"
	case "verr0":
		return "error(null)"
	case "perr":
		return "error(" + strconv.Quote(c19PlainMsg) + ")"
	case "pack":
		return "[" + strings.Join(as, ", ") + "]"
	case "each", "lazy":
		if n == 0 {
			return "empty"
		}
		return strings.Join(as, ", ")
	case "selfeach":
		return strings.Join(append([]string{"."}, as...), ", ")
	case "none":
		return "empty"
	case "oneerr":
		return `error("oneerr")`
	case "oneperr":
		return "error(" + strconv.Quote(c19PlainMsg) + ")"
	case "fixed":
		return `1, "two", [3], null, false`
	case "mid":
		xs := []string{}
		if n > 0 {
			xs = append(xs, as[0])
		}
		xs = append(xs, `error("mid")`)
		if n > 1 {
			xs = append(xs, as[1:]...)
		}
		return strings.Join(xs, ", ")
	case "twice":
		return all + " | ., ."
	}
	panic("c19Body: " + beh)
}

// c19Effective resolves overlapping registrations the way the option
// documents it: a later registration of a name takes the arities it covers.
func c19Effective(regs []c19Reg) map[string]map[int]string {
	eff := map[string]map[int]string{}
	for _, rg := range regs {
		if eff[rg.Name] == nil {
			eff[rg.Name] = map[int]string{}
		}
		for n := rg.Min; n <= rg.Max; n++ {
			eff[rg.Name][n] = rg.Beh
		}
	}
	return eff
}

func c19Opts(regs []c19Reg) []gojq.CompilerOption {
	var opts []gojq.CompilerOption
	for _, rg := range regs {
		if rg.Iter {
			opts = append(opts, gojq.WithIterFunction(rg.Name, rg.Min, rg.Max, c19GoIter(rg.Beh)))
		} else {
			opts = append(opts, gojq.WithFunction(rg.Name, rg.Min, rg.Max, c19GoPlain(rg.Beh)))
		}
	}
	return opts
}

// c19Defs renders the equivalent definitions: arguments evaluated as values,
// the last one in the outermost loop (the built-in argument order).
func c19Defs(regs []c19Reg) string {
	eff := c19Effective(regs)
	names := make([]string, 0, len(eff))
	for n := range eff {
		names = append(names, n)
	}
	sort.Strings(names)
	var sb strings.Builder
	for _, name := range names {
		ars := make([]int, 0, len(eff[name]))
		for n := range eff[name] {
			ars = append(ars, n)
		}
		sort.Ints(ars)
		for _, n := range ars {
			sb.WriteString("def " + name)
			if n > 0 {
				ps := make([]string, n)
				for i := range ps {
					ps[i] = "a" + strconv.Itoa(i)
				}
				sb.WriteString("(" + strings.Join(ps, "; ") + ")")
			}
			sb.WriteString(": ")
			for i := n - 1; i >= 0; i-- {
				fmt.Fprintf(&sb, "a%d as $a%d | ", i, i)
			}
			sb.WriteString(c19Body(eff[name][n], n))
			sb.WriteString(";\n")
		}
	}
	return sb.String()
}

// program text carries every callback argument between ⟦ and ⟧ so that the
// arguments can be rendered plainly or forced to values without paths.
const (
	c19Open  = "⟦"
	c19Close = "⟧"
)

func c19Render(prog string, wrapped bool) string {
	if wrapped {
		return strings.NewReplacer(c19Open, "((", c19Close, ") as $c19v | $c19v)").Replace(prog)
	}
	return strings.NewReplacer(c19Open, "", c19Close, "").Replace(prog)
}

// ---- event lists ----

type c19Ev struct {
	V   any
	Err error
}

type c19Trace struct {
	Compile error
	Evs     []c19Ev
	End     string // ok budget cap panic
	Panic   string
}

func (t c19Trace) String() string {
	if t.Compile != nil {
		return "compile error: " + t.Compile.Error()
	}
	var sb strings.Builder
	for i, e := range t.Evs {
		if i >= 14 {
			fmt.Fprintf(&sb, "… (%d events) ", len(t.Evs))
			break
		}
		if e.Err != nil {
			fmt.Fprintf(&sb, "error[%s](%s) ; ", run.ErrClass(e.Err), run.Clip(e.Err.Error()))
		} else {
			sb.WriteString(run.Clip(run.Canon(e.V)) + " ; ")
		}
	}
	sb.WriteString(t.End)
	if t.Panic != "" {
		sb.WriteString(" " + run.Clip(t.Panic))
	}
	return sb.String()
}

const c19MaxEvents = 60

// c19Exec compiles and runs src up to the first uncaught error (the last
// event then), exhaustion, the budget or the event cap. What an iterator
// yields when it is driven on after an uncaught error is not part of the
// comparison (DESIGN 3.3a; e.g. `[1, (2 | error), 3]` then yields `[1]`).
func c19Exec(src string, opts []gojq.CompilerOption, input any, budget int64) (t c19Trace) {
	cr := run.Compile(src, opts...)
	if cr.Panic != "" {
		return c19Trace{End: "panic", Panic: "compiler: " + cr.Panic}
	}
	if cr.Err != nil {
		return c19Trace{Compile: cr.Err, End: "ok"}
	}
	defer func() {
		if r := recover(); r != nil {
			t.End, t.Panic = "panic", fmt.Sprintf("%v\n%s", r, run.Clip(string(debug.Stack())))
		}
	}()
	iter := cr.Code.RunWithContext(run.Budget(budget), input)
	for {
		v, ok := iter.Next()
		if !ok {
			t.End = "ok"
			return
		}
		if err, isErr := v.(error); isErr {
			if err == run.ErrBudget {
				t.End = "budget"
				return
			}
			t.Evs = append(t.Evs, c19Ev{Err: err})
			t.End = "ok"
			// the iterator may be advanced after an error: whatever it yields then (not compared), it must not panic
			for i := 0; i < 3; i++ {
				if w, ok := iter.Next(); !ok || w == run.ErrBudget {
					break
				}
			}
			return
		} else {
			t.Evs = append(t.Evs, c19Ev{V: v})
		}
		if len(t.Evs) >= c19MaxEvents {
			t.End = "cap"
			return
		}
	}
}

// c19Caught is what `try … catch .` would receive for an error.
func c19Caught(err error) any {
	if ve, ok := err.(gojq.ValueError); ok {
		return ve.Value()
	}
	return err.Error()
}

func c19SameEv(a, b c19Ev) bool {
	if (a.Err != nil) != (b.Err != nil) {
		return false
	}
	if a.Err == nil {
		return run.Canon(a.V) == run.Canon(b.V)
	}
	ca, cb := run.ErrClass(a.Err), run.ErrClass(b.Err)
	// a plain Go error returned by a callback corresponds to error("its message")
	if a.Err == errC19Plain || b.Err == errC19Plain {
		return run.Canon(c19Caught(a.Err)) == run.Canon(c19Caught(b.Err))
	}
	if ca != cb {
		return false
	}
	if ca == "internal" {
		return true // same class; wording is implementation-defined
	}
	return run.Canon(run.ErrValue(a.Err)) == run.Canon(run.ErrValue(b.Err))
}

// c19SameTrace returns "" when the two event lists agree on everything
// conclusive (DESIGN 3.3a: common prefix only when a side was truncated).
func c19SameTrace(a, b c19Trace) string {
	if (a.Compile != nil) != (b.Compile != nil) {
		return "one side does not compile"
	}
	if a.Compile != nil {
		return ""
	}
	if a.End == "panic" || b.End == "panic" {
		if a.End != b.End {
			return "one side panicked"
		}
		return ""
	}
	n := min(len(a.Evs), len(b.Evs))
	for i := 0; i < n; i++ {
		if !c19SameEv(a.Evs[i], b.Evs[i]) {
			return fmt.Sprintf("event #%d differs", i)
		}
	}
	ta, tb := a.End != "ok", b.End != "ok"
	if ta || tb {
		if !ta && len(a.Evs) < len(b.Evs) || !tb && len(b.Evs) < len(a.Evs) {
			return "the complete side is shorter than the truncated side"
		}
		return ""
	}
	if len(a.Evs) != len(b.Evs) {
		return fmt.Sprintf("%d events vs %d events", len(a.Evs), len(b.Evs))
	}
	return ""
}

// ---- the kind ----

type c19CBCase struct {
	Regs    []c19Reg
	Prog    string // callback arguments bracketed by ⟦ ⟧
	Input   run.TV
	PathCtx bool // a callback call with arguments stands inside a path-tracking context
}

const c19SigD7 = "native-arg-path-tracking"

var kC19CB = run.NewKind("c19.cbdef", func(c *run.Ctx, t c19CBCase) *run.Fail {
	const budget = 30000
	copy(c19Fixed, c19FixedPristine())
	opts := c19Opts(t.Regs)
	defs := c19Defs(t.Regs)
	plain := c19Render(t.Prog, false)
	cb := c19Exec(plain, opts, run.DeepCopy(t.Input.V), budget)
	df := c19Exec(defs+plain, nil, run.DeepCopy(t.Input.V), budget)
	c.Logf("program: %s\ndefs:\n%scallback: %s\ndef:      %s", plain, defs, cb, df)
	for _, rg := range t.Regs {
		for n := rg.Min; n <= rg.Max; n++ {
			c.Distinct("registered_arity", strconv.Itoa(n))
		}
		c.Distinct("behaviour", rg.Beh)
	}
	if cb.Compile != nil && df.Compile != nil {
		c.Count("cbdef_both_reject_unregistered_arity", 1)
		return nil
	}
	diff := c19SameTrace(cb, df)
	if cb.Compile == nil && df.Compile == nil && len(cb.Evs)+len(df.Evs) > 0 {
		c.Nontrivial(fmt.Sprint(t.Regs) + "\x00" + t.Prog + "\x00" + run.Canon(t.Input.V))
		if t.PathCtx {
			c.Count("cbdef_pairs_in_path_context", 1)
		}
		if cb.End != "ok" || df.End != "ok" {
			c.Count("cbdef_pairs_compared_on_prefix_only", 1)
		}
		for _, e := range cb.Evs {
			if e.Err != nil {
				c.Count("cbdef_pairs_with_error_events", 1)
				break
			}
		}
	}
	if diff == "" {
		return nil
	}
	detail := fmt.Sprintf("registrations %+v, input %s, program %s\n with Go callbacks: %s\n with equivalent defs: %s\n (%s)\n defs:\n%s",
		t.Regs, run.Clip(run.Canon(t.Input.V)), plain, cb, df, diff, run.Clip(defs))
	// Known finding D7, by signature: the call stands in a path-tracking
	// context, nothing panicked, and forcing every callback argument to a
	// value without a path (`(A) as $v | $v`, which is what the definition
	// does with its parameters) makes the callback run agree with the defs.
	if t.PathCtx && cb.End != "panic" && df.End != "panic" && cb.Compile == nil && df.Compile == nil && strings.Contains(t.Prog, c19Open) {
		wr := c19Exec(c19Render(t.Prog, true), opts, run.DeepCopy(t.Input.V), budget)
		c.Logf("callback, arguments bound as values: %s", wr)
		if wr.End != "panic" && c19SameTrace(wr, df) == "" {
			c.Count("cbdef_d7_signature_hits", 1)
			return &run.Fail{Sig: c19SigD7, Detail: "arguments of a native callback are evaluated with path tracking on (the difference vanishes when each argument A is written `(A) as $v | $v`): " + detail}
		}
	}
	return run.Failf("a Go callback and the equivalent jq definition are told apart: %s", detail)
})

// ---- builtins: the only permitted difference ----

type c19BuiltinsCase struct{ Regs []c19Reg }

func c19BuiltinSet(src string, opts []gojq.CompilerOption) (map[string]bool, string) {
	cr := run.Compile(src, opts...)
	if cr.Code == nil {
		return nil, fmt.Sprintf("%q does not compile: %v %s", src, cr.Err, cr.Panic)
	}
	tr := run.RunCode(cr.Code, nil, nil, defBudget, 3)
	if tr.End != run.EndOK || len(tr.Vals) != 1 {
		return nil, "builtins gave " + run.TraceDesc(tr)
	}
	xs, _ := tr.Vals[0].([]any)
	m := map[string]bool{}
	for _, x := range xs {
		s, ok := x.(string)
		if !ok || m[s] {
			return nil, "builtins lists a non-string or a duplicate: " + run.Canon(x)
		}
		m[s] = true
	}
	return m, ""
}

var kC19Builtins = run.NewKind("c19.builtins", func(c *run.Ctx, t c19BuiltinsCase) *run.Fail {
	base, e0 := c19BuiltinSet("builtins", nil)
	withCB, e1 := c19BuiltinSet("builtins", c19Opts(t.Regs))
	withDef, e2 := c19BuiltinSet(c19Defs(t.Regs)+"builtins", nil)
	if e0+e1+e2 != "" {
		return run.Failf("builtins: %s %s %s", e0, e1, e2)
	}
	want := map[string]bool{}
	for k := range base {
		want[k] = true
	}
	for name, ars := range c19Effective(t.Regs) {
		if strings.HasPrefix(name, "_") {
			continue // underscore names are internal: never listed
		}
		for n := range ars {
			want[name+"/"+strconv.Itoa(n)] = true
		}
	}
	diffSets := func(a, b map[string]bool) string {
		var d []string
		for k := range a {
			if !b[k] {
				d = append(d, "+"+k)
			}
		}
		for k := range b {
			if !a[k] {
				d = append(d, "-"+k)
			}
		}
		sort.Strings(d)
		return strings.Join(d, " ")
	}
	if d := diffSets(withCB, want); d != "" {
		return run.Failf("registrations %+v: `builtins` with the callbacks differs from the option-less list plus every registered name/arity: %s", t.Regs, run.Clip(d))
	}
	if d := diffSets(withDef, base); d != "" {
		return run.Failf("registrations %+v: `builtins` with the equivalent defs differs from the option-less list: %s", t.Regs, run.Clip(d))
	}
	c.Count("builtins_listing_checks", 1)
	c.Nontrivial("builtins" + fmt.Sprint(t.Regs))
	return nil
})

// ---- generation ----

type c19Ctx struct {
	T    string
	Path bool
}

// calling contexts; %C is replaced by a call (or by the bracketed `input`)
var c19Ctxs = []c19Ctx{
	// plain
	{"%C", false}, {"%C", false}, {"[%C]", false}, {"%C | %C", false}, {".[]? | %C", false}, {"%C as $x | [$x, %C]", false}, {"[%C, %C]", false}, {"{a: %C}", false},
	{"\"s\\(%C)\"", false}, {"[%C] | length", false}, {"[%C + %C]", false}, {"if %C then 1 else 2 end", false}, {"[.[%C]?]", false}, {"def w(x): %C, x; [w(7)]", false},
	{"[.[]? as $e | $e | %C]", false}, {"[%C | tojson?]", false}, {"%C as [$p] | $p", false}, {"[range(2) | %C]", false}, {"[%C | select(. != null)]", false}, {"[getpath(%C)?]", false},
	{"[setpath([\"z\"]; %C)?]", false}, {"[%C] | map(type)", false}, {"[.. | %C?] | length", false},
	// try
	{"try %C catch .", false}, {"[.[]? | try %C catch \"c\"]", false}, {"[%C?]", false}, {"try error(%C) catch .", false}, {"(try %C catch .), 9", false}, {"[try (%C | error) catch .]", false},
	{"try (%C, error(\"after\")) catch [.]", false}, {"[.[]? | (%C)?] | length", false}, {"try (try %C catch error) catch {c: .}", false}, {"[(%C | .a)?]", false},
	// backtracking
	{"first(%C)", false}, {"[limit(2; %C)]", false}, {"label $l | %C | ., break $l", false}, {"[%C // 7]", false}, {"[(%C | select(. == null)) // 7]", false}, {"[.[]? as [$p] ?// $p | %C]", false},
	{"[%C as [$p] ?// $p | $p]", false}, {"isempty(%C)", false}, {"[limit(3; repeat(%C))]", false}, {"any(%C; . == 1)", false}, {"nth(1; %C)", false}, {"reduce %C as $x (0; . + 1)", false},
	{"[foreach %C as $x (0; . + 1; [$x, .])]", false}, {"[limit(1; %C), 5]", false}, {"[first(%C, 3), first(empty, %C)]", false}, {"[label $l | (%C, 1) | if . == 1 then break $l else . end]", false},
	{"[%C as {a: $p} ?// [$p] ?// $p | $p]", false}, {"first(%C | select(type == \"array\")) // \"none\"", false}, {"[until(type != \"number\" or . > 2; %C)]?", false}, {"all(%C; . != 3)", false},
	{"[limit(4; recurse(%C; type == \"array\" and length < 3))]", false}, {"def r: if type == \"number\" and . < 2 then (. + 1 | %C, r) else . end; [limit(6; 0 | r)]", false},
	// path-tracking contexts
	{"path(%C)", true}, {"[paths(%C)]", true}, {"%C |= 5", true}, {"%C = 5", true}, {"del(%C)", true}, {"%C += 1", true}, {"[path(.. | %C)]", true}, {"pick(%C)", true}, {"[path(.a? | %C)]", true},
	{"try path(%C) catch \"invalid\"", true}, {"[limit(1; path(%C))]", true}, {"path(first(%C))", true}, {"[path(%C | .a?)]", true}, {"[path(.a? | %C | .b?)]", true}, {"[path(if %C then .a? else .b? end)]", true},
	{"[path(%C // .a?)]", true}, {"[path(select(%C))]", true}, {"[path(.[%C]?)]", true}, {"[path(%C as $x | .a?)]", true}, {"[path(try %C catch .)]", true}, {"[path(%C?)]", true}, {"map_values(%C)?", true},
	{"[path(.[]? | %C)]", true}, {"(%C | .z?) = 1", true}, {"[path(getpath([\"a\"]) | %C)]", true}, {"to_entries? | [path(.[]? | %C)]", true}, {"[path(limit(1; %C))]", true}, {"%C //= 3", true},
	{"[path(label $l | %C | ., break $l)]", true}, {"[path(%C, %C)]", true}, {"delpaths([path(%C)])?", true}, {"[path(reduce %C as $x (.; .))]", true}, {"[path(%C | %C)]", true}, {"path(.a? | first(%C))?", true},
	{"[path(recurse(%C; false))]", true}, {"[paths(%C | type == \"number\")]", true}, {"(.a? | %C) |= (. // 0)", true}, {"[path(def w(x): x; w(%C))]", true}, {"try (%C |= empty) catch \"e\"", true}, {"[path(foreach (1, 2) as $i (.; %C; .))]?", true},
}

// c19FillCtx picks a context and fills every %C with call().
func c19FillCtx(r *rand.Rand, call func() string) (string, bool) {
	cx := c19Ctxs[r.IntN(len(c19Ctxs))]
	var sb strings.Builder
	s := cx.T
	for {
		i := strings.Index(s, "%C")
		if i < 0 {
			sb.WriteString(s)
			break
		}
		sb.WriteString(s[:i])
		sb.WriteString(call())
		s = s[i+2:]
	}
	return sb.String(), cx.Path
}

type c19CBGen struct {
	r    *rand.Rand
	regs []c19Reg
	eff  map[string]map[int]string
	path bool // an argument introduced a path context around a nested call
}

var c19ArgConsts = []string{"1", "2", "0", `"x"`, "null", "true", "[1]", `{"k":1}`, "false", `"a"`, "[]", "-1"}

var c19ArgExprs = []string{
	".", ".", ".a", ".[0]", ".[]", ".a?", ".[]?", "..", ".b.c?", "first(.[]?)", `getpath(["a"])`, ".[1:]?", "keys?", "length?", ".[0]?", ".a.b?",
	"(1, 2)", "range(2)", "empty", "(.[]?, 9)", "(null, 1)", "(.a?, .b?)",
	`error("e")`, `(1, error("e"))`, "error", `(1, 2, error({"v": 1}))`, "error(null)", `(error("e")?)`,
	"$v", "[$v, .]", "(label $q | 1, break $q, 2)", "reduce .[]? as $x (0; . + 1)", "limit(1; .[]?)", `try error("x") catch .`, "(1 as $x | 2 as $y | [$x, $y, $v])",
	// bare calls of parameterless jq functions (defined in the program prefix, or builtins the prefix has already used)
	"ka", "kz", "kgen", "first", "last", "first?", "(ka | kz)", "recurse", "not", "values", "ka", "kz",
	"[paths]", "path(.a?)", "(.a? |= 3)", "del(.a?)", "[.[]?] | length", "(. as $d | $d)", "if . == null then 1 else . end", "(.a? // \"d\")", ".. | numbers", "tojson", "[limit(2; repeat(1))]",
}

func (g *c19CBGen) names() []string {
	names := make([]string, 0, len(g.eff))
	for n := range g.eff {
		names = append(names, n)
	}
	sort.Strings(names)
	return names
}

func (g *c19CBGen) arg(depth int) string {
	r := g.r
	switch k := r.IntN(10); {
	case k < 3:
		return c19ArgConsts[r.IntN(len(c19ArgConsts))]
	case k < 8 || depth >= 2:
		return c19ArgExprs[r.IntN(len(c19ArgExprs))]
	}
	// nested callback calls
	inner := g.call(depth + 1)
	switch r.IntN(7) {
	case 0:
		return "[" + inner + "]"
	case 1:
		return "(" + inner + " | .a?)"
	case 2:
		return "(. as $d | " + inner + ")"
	case 3:
		return "(" + inner + ", 1)"
	case 4:
		if strings.Contains(inner, c19Open) {
			g.path = true
		}
		return "[path(" + inner + ")?]"
	case 5:
		return "(try " + inner + " catch \"c\")"
	}
	return inner
}

// call renders a call of a registered name; the arity is registered nine
// times out of ten.
func (g *c19CBGen) call(depth int) string {
	r := g.r
	names := g.names()
	name := names[r.IntN(len(names))]
	ars := make([]int, 0, len(g.eff[name]))
	for n := range g.eff[name] {
		ars = append(ars, n)
	}
	sort.Ints(ars)
	n := ars[r.IntN(len(ars))]
	if r.IntN(10) == 0 {
		n = r.IntN(32) // possibly an arity nobody registered (31: beyond any)
	}
	return g.callN(name, n, depth)
}

func (g *c19CBGen) callN(name string, n, depth int) string {
	if n == 0 {
		return name
	}
	args := make([]string, n)
	hot := map[int]bool{g.r.IntN(n): true, g.r.IntN(n): true}
	if n <= 3 {
		for i := range args {
			hot[i] = true
		}
	}
	for i := range args {
		a := strconv.Itoa(i)
		if hot[i] {
			a = g.arg(depth)
		}
		args[i] = c19Open + a + c19Close
	}
	return name + "(" + strings.Join(args, "; ") + ")"
}

var c19CBNames = []string{"f", "g", "h", "cb_1", "_u"}

// names of builtins (path-tracked ones first), registered only with arities no builtin of that name has (5 and more):
// a registered function is known by name AND arity, so these are ordinary custom functions
var c19CBBuiltinNames = []string{"getpath", "_index", "_slice", "getpath", "setpath", "paths", "path", "error", "select", "first", "input", "_break", "debug", "limit", "_modify", "delpaths", "empty", "recurse"}

func c19GenRegs(r *rand.Rand) []c19Reg {
	var regs []c19Reg
	nnames := 1 + r.IntN(2)
	perm := r.Perm(len(c19CBNames))
	for i := 0; i < nnames; i++ {
		name := c19CBNames[perm[i]]
		like := r.IntN(5) == 0
		if like {
			name = c19CBBuiltinNames[r.IntN(len(c19CBBuiltinNames))]
			for _, g := range regs {
				if g.Name == name { // one name is either a plain or an iterator function
					name, like = c19CBNames[perm[i]], false
				}
			}
		}
		iter := r.IntN(3) == 0
		for j, k := 0, 1+r.IntN(3); j < k; j++ {
			lo := []int{0, 0, 0, 1, 1, 1, 2, 2, 3, 5, 10, 29, 30}[r.IntN(13)]
			span := []int{0, 0, 1, 1, 2, 3, 5, 30}[r.IntN(8)]
			if like {
				lo, span = 5+r.IntN(3), r.IntN(2)
			}
			hi := min(30, lo+span)
			beh := c19PlainBehs[r.IntN(len(c19PlainBehs))]
			if iter {
				beh = c19IterBehs[r.IntN(len(c19IterBehs))]
			}
			regs = append(regs, c19Reg{Name: name, Min: lo, Max: hi, Iter: iter, Beh: beh})
		}
	}
	return regs
}

// c19Prefix defines the parameterless functions used as arguments and uses a few builtins once, so that later bare calls
// of them meet an already compiled definition.
const c19Prefix = `def ka: .a?; def kz: .[0]?; def kgen: (.a?, .b?); "V" as $v | ([first?, last?, (.. | 0), (values | 0), (recurse | 0), not] | 0) as $u0 | `

func c19GenCB(r *rand.Rand, inputs []any) c19CBCase {
	regs := c19GenRegs(r)
	g := &c19CBGen{r: r, regs: regs, eff: c19Effective(regs)}
	hasArgs := false
	src, path := c19FillCtx(r, func() string {
		s := g.call(0)
		hasArgs = hasArgs || strings.Contains(s, c19Open)
		return s
	})
	return c19CBCase{Regs: regs, Prog: c19Prefix + src, Input: run.TV{V: inputs[r.IntN(len(inputs))]}, PathCtx: (path && hasArgs) || g.path}
}

func c19BodyCBDef(c *run.Ctx) {
	r := c.Rand("c19.cbdef")
	inputs := gen.USmall()
	inputs = append(inputs, O{"a": O{"b": O{"c": 1}}, "b": A{1, 2}}, A{O{"a": A{1}}, A{2}}, O{"a": A{O{"b": 1}}, "z": 0}, A{A{1, 2}, A{3}}, O{"a": nil, "b": false})
	// systematic sweep: every arity 0..30 with every behaviour, generators in two argument positions
	for n := 0; n <= 30; n++ {
		for _, iter := range []bool{false, true} {
			behs := c19PlainBehs
			if iter {
				behs = c19IterBehs
			}
			for _, beh := range behs {
				lo, hi := max(0, n-r.IntN(3)), min(30, n+r.IntN(3))
				regs := []c19Reg{{Name: "f", Min: lo, Max: hi, Iter: iter, Beh: beh}}
				g := &c19CBGen{r: r, regs: regs, eff: c19Effective(regs)}
				call := g.callN("f", n, 1)
				kC19CB.Do(c, c19CBCase{Regs: regs, Prog: c19Prefix + "[" + call + "]", Input: run.TV{V: inputs[r.IntN(len(inputs))]}, PathCtx: g.path})
				kC19CB.Do(c, c19CBCase{Regs: regs, Prog: c19Prefix + "[.[]? | try " + call + " catch .]", Input: run.TV{V: inputs[r.IntN(len(inputs))]}, PathCtx: g.path})
			}
		}
	}
	// hand-written path-context cases (the first two are the D7 reproductions)
	one := func(beh string, iter bool) []c19Reg {
		return []c19Reg{{Name: "f", Min: 0, Max: 2, Iter: iter, Beh: beh}}
	}
	obj := O{"a": O{"b": 1}, "c": A{1, 2}}
	for _, h := range []struct {
		regs []c19Reg
		prog string
		in   any
	}{
		{one("first", false), "path(f(⟦.a⟧))", obj}, {one("self", false), "f(⟦.a⟧) |= 5", nil},
		{one("self", false), "path(f)", obj}, {one("self", false), "f |= 5", obj}, {one("first", false), "path(f(⟦.⟧))", obj}, {one("first", false), "path(f(⟦1⟧))", 1},
		{one("all", false), "try path(f(⟦1⟧)) catch \"invalid\"", obj}, {one("selfeach", true), "[path(f)]", obj}, {one("one", true), "[paths(f)]", obj}, {one("self", false), "[path(.a | f | .b)]", obj},
		{one("first", false), "\"V\" as $v | [path(f(⟦$v⟧))?]", "V"}, {one("self", false), "del(f | .a)", obj}, {one("none", true), "[path(f)]", obj}, {one("verr", false), "try path(f(⟦1⟧; ⟦2⟧)) catch .", obj},
	} {
		kC19CB.Do(c, c19CBCase{Regs: h.regs, Prog: h.prog, Input: run.TV{V: h.in}, PathCtx: strings.Contains(h.prog, c19Open)})
	}
	// every path-tracking context x every argument shape (constants, accesses, generators, variables, bare calls of
	// parameterless jq functions and of builtins used before) x arity 1..3 x a behaviour that returns an argument / its input
	for _, cx := range c19Ctxs {
		if !cx.Path {
			continue
		}
		for ai, arg := range append(append([]string{}, c19ArgExprs...), c19ArgConsts...) {
			for bi, beh := range []string{"first", "self", "last", "all"} {
				if c.Quick() && (ai+bi)%2 == 1 {
					continue
				}
				n := 1 + (ai+bi)%3
				regs := []c19Reg{{Name: "f", Min: 0, Max: 3, Iter: false, Beh: beh}}
				args := make([]string, n)
				for i := range args {
					args[i] = c19Open + []string{arg, "1", ".a?"}[(i+bi)%3] + c19Close
				}
				args[bi%n] = c19Open + arg + c19Close
				call := "f(" + strings.Join(args, "; ") + ")"
				kC19CB.Do(c, c19CBCase{Regs: regs, Prog: c19Prefix + strings.ReplaceAll(cx.T, "%C", call), Input: run.TV{V: inputs[(ai*7+bi)%len(inputs)]}, PathCtx: true})
			}
		}
	}
	for i := 0; i < c.N(24000, 490000); i++ {
		kC19CB.Do(c, c19GenCB(r, inputs))
	}
	for i := 0; i < c.N(200, 2000); i++ {
		kC19Builtins.Do(c, c19BuiltinsCase{Regs: c19GenRegs(r)})
	}
}
