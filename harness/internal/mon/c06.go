package mon

import (
	"fmt"
	"os"
	"strconv"
	"strings"
	"sync"
	"sync/atomic"

	"verif/harness/internal/gen"
	"verif/harness/internal/run"

	"github.com/itchyny/gojq"
)

// ---- C06: concurrent runs (Go race detector + per-goroutine equality) ----

type c06Case struct {
	Src   string
	Input run.TV
	Mode  int // bit0: shared *Query (concurrent compilation) instead of shared *Code; bit1: one shared input instead of private copies
	G, R  int
	Multi bool // every goroutine runs on its own variant of the input (c06Variant) and is compared with that variant's run alone
	Vars  bool // compiled with WithVariables($a, $b); every goroutine passes the same caller-owned values slice (spare capacity)
}

// c06Spare rebuilds v with spare capacity behind every array (what a decoder or a slice expression leaves behind).
func c06Spare(v any) any {
	switch x := v.(type) {
	case []any:
		w := make([]any, len(x), len(x)+3)
		for i, e := range x {
			w[i] = c06Spare(e)
		}
		return w
	case map[string]any:
		w := make(map[string]any, len(x))
		for k, e := range x {
			w[k] = c06Spare(e)
		}
		return w
	}
	return v
}

// c06Variant is input number g of a family that differs in every leaf a program is likely to use as a key into
// per-Code state (regular expressions and flags, numbers, strings), with the original input under "v".
func c06Variant(v any, g int) any {
	words := []any{}
	for k := 0; k < 24; k++ {
		words = append(words, "w"+strconv.Itoa(k%8))
	}
	return map[string]any{
		"v": run.DeepCopy(v), "g": g, "p": "^w" + strconv.Itoa(g) + "$", "q": "w[" + strconv.Itoa(g) + strconv.Itoa((g+1)%8) + "]", "f": []string{"", "g", "i", "x", "gi", "n", "s", "l"}[g%8],
		"s": "w" + strconv.Itoa(g) + " W" + strconv.Itoa(g) + " w" + strconv.Itoa((g+1)%8), "words": words, "a": map[string]any{"b": g}, "c": []any{g, map[string]any{"d": g + 1}},
	}
}

func raceLogPath() string {
	for _, f := range strings.Fields(os.Getenv("GORACE")) {
		if strings.HasPrefix(f, "log_path=") {
			return strings.TrimPrefix(f, "log_path=") + "." + fmt.Sprint(os.Getpid())
		}
	}
	return ""
}

func raceLogSize() int64 {
	p := raceLogPath()
	if p == "" {
		return 0
	}
	st, err := os.Stat(p)
	if err != nil {
		return 0
	}
	return st.Size()
}

func raceLogFrom(off int64) string {
	p := raceLogPath()
	b, err := os.ReadFile(p)
	if err != nil || int64(len(b)) <= off {
		return ""
	}
	return string(b[off:])
}

func traceKey(tr run.Trace) string {
	s := run.CanonList(tr.Vals) + "\n" + tr.End.String()
	if tr.End == run.EndError {
		s += ":" + run.ErrClass(tr.Err)
		if run.ErrClass(tr.Err) != "internal" {
			s += ":" + run.Canon(run.ErrValue(tr.Err))
		}
	}
	if tr.End == run.EndPanic {
		s += ":" + tr.Panic
	}
	return s
}

var kC06 = run.NewKind("c06.concurrent", func(c *run.Ctx, t c06Case) *run.Fail {
	if nondeterministic(t.Src) {
		c.Inconclusive("clock-or-input-dependent")
		return nil
	}
	q, err := gojq.Parse(t.Src)
	if err != nil {
		c.Inconclusive("does-not-parse")
		return nil
	}
	var copts []gojq.CompilerOption
	var values []any
	if t.Vars {
		copts = []gojq.CompilerOption{gojq.WithVariables([]string{"$a", "$b"})}
		values = append(make([]any, 0, 6), "A", []any{"B"})
	}
	compile := func() (*gojq.Code, error, string) {
		if t.Vars {
			r := run.Compile(t.Src, copts...)
			return r.Code, r.Err, r.Panic
		}
		return run.CompileQuery(q)
	}
	code, cerr, pan := compile()
	if pan != "" || cerr != nil || code == nil {
		c.Inconclusive("does-not-compile")
		return nil
	}
	before := raceLogSize()
	// sequential baseline, alone
	base := run.RunCode(code, run.DeepCopy(t.Input.V), values, defBudget, 500)
	if base.End == run.EndBudget {
		c.Inconclusive("budget")
		return nil
	}
	want := traceKey(base)
	wants := make([]string, t.G)
	if t.Multi {
		for g := range wants {
			b := run.RunCode(code, c06Variant(t.Input.V, g), values, defBudget, 500)
			if b.End == run.EndBudget {
				c.Inconclusive("budget")
				return nil
			}
			wants[g] = traceKey(b)
		}
	}
	shared := c06Spare(t.Input.V) // used only in shared-input mode; never written by the harness
	// the goroutines share a Code that has never run: whatever a Code builds lazily on first use is built under
	// contention (the baseline above ran on another Code of the same program)
	if fresh, ferr, fpan := compile(); ferr == nil && fpan == "" && fresh != nil {
		code = fresh
	}
	valuesSnap := run.Canon(values[:cap(values)])
	sharedQuery, sharedInput := t.Mode&1 != 0, t.Mode&2 != 0
	G, R := t.G, t.R
	var wg sync.WaitGroup
	var stop atomic.Bool
	var mism atomic.Int64
	var firstDiff atomic.Value
	if sharedInput {
		// canary reader: the caller's own read-only use of the shared input
		wg.Add(1)
		go func() {
			defer wg.Done()
			for !stop.Load() {
				_ = run.Canon(shared)
			}
		}()
	}
	var runners sync.WaitGroup
	for g := 0; g < G; g++ {
		runners.Add(1)
		go func(g int) {
			defer runners.Done()
			var in any
			want := want
			switch {
			case t.Multi:
				in, want = c06Variant(t.Input.V, g), wants[g]
			case sharedInput:
				in = shared
			default:
				in = run.DeepCopy(t.Input.V)
			}
			for r := 0; r < R; r++ {
				var tr run.Trace
				ctx := run.Budget(defBudget)
				func() {
					defer func() {
						if p := recover(); p != nil {
							tr = run.Trace{End: run.EndPanic, Panic: fmt.Sprint(p)}
						}
					}()
					var iter gojq.Iter
					switch {
					case t.Vars:
						iter = code.RunWithContext(ctx, in, values...)
					case sharedQuery:
						iter = q.RunWithContext(ctx, in)
					default:
						iter = code.RunWithContext(ctx, in)
					}
					tr = run.Drain(iter, ctx, 500, false)
				}()
				if got := traceKey(tr); got != want {
					mism.Add(1)
					firstDiff.CompareAndSwap(nil, fmt.Sprintf("goroutine %d run %d: %s", g, r, run.Clip(got)))
				}
			}
		}(g)
	}
	runners.Wait()
	stop.Store(true)
	wg.Wait()
	c.AddEvals(int64(G * R))
	c.Count("concurrent_runs", int64(G*R))
	c.Distinct("modes", fmt.Sprint(t.Mode))
	if t.Vars && run.Canon(values[:cap(values)]) != valuesSnap {
		return run.Failf("%q: the caller's values slice (with its spare capacity) read %s before the runs and %s after them", t.Src, valuesSnap, run.Canon(values[:cap(values)]))
	}
	if n := mism.Load(); n > 0 {
		return run.Failf("%q: %d of %d concurrent runs differ from the run alone (%s); first: %v", t.Src, n, G*R, run.Clip(want), firstDiff.Load())
	}
	if after := raceLogSize(); after > before {
		rep := raceLogFrom(before)
		if strings.Contains(rep, "WARNING: DATA RACE") {
			c.Count("race_reports", int64(strings.Count(rep, "WARNING: DATA RACE")))
			if strings.Contains(rep, "github.com/itchyny/gojq") || strings.Contains(rep, "/repo/") {
				return &run.Fail{Detail: fmt.Sprintf("%q (mode %d): the race detector reported a data race while %d goroutines ran it:\n%s", t.Src, t.Mode, G, run.Clip(raceSummary(rep)))}
			}
			c.Count("race_reports_without_gojq_frame", 1)
		}
	}
	if len(base.Vals) > 0 || base.End == run.EndError {
		c.Nontrivial(fmt.Sprintf("%d|%s|%s", t.Mode, t.Src, run.Canon(t.Input.V)))
	}
	return nil
})

// raceSummary keeps the head of the first report and the innermost gojq frames.
func raceSummary(rep string) string {
	var out []string
	n := 0
	for _, l := range strings.Split(rep, "\n") {
		if strings.HasPrefix(l, "WARNING: DATA RACE") || strings.HasPrefix(l, "Read at") || strings.HasPrefix(l, "Write at") || strings.HasPrefix(l, "Previous ") ||
			strings.Contains(l, "github.com/itchyny/gojq.") {
			out = append(out, l)
			n++
			if n > 24 {
				break
			}
		}
	}
	return strings.Join(out, "\n")
}

var c06PerInput = []string{
	".p as $p | [.words[] | select(test($p))]", ".p as $p | [.words[] | match($p).string]", ".q as $q | [.words[] | select(test($q))] | length", ".p as $p | .s | [scan($p[1:-1])]", ".q as $q | .s | [splits($q)]", ". as $d | .s | gsub($d.q; \"_\")",
	". as $d | .s | sub($d.q; \"<\\(.)>\")?", ".q as $q | .s | [match($q; \"g\").offset]", ". as $d | .s | [match($d.q; $d.f)?] | length", ". as $d | [.words[] | test($d.p; $d.f)?]", ".q as $q | .s | capture(\"(?<x>\" + $q + \")\")", ". as $d | .s | [test($d.q), test($d.q; \"i\"), test($d.p)]",
	".p as $p | [.words[] | select(test($p))] | length, (.s | ascii_downcase | [scan(\"w.\")])", ". as $d | .words | map(select(test($d.p))) | unique", ".g as $g | [.words[] | ltrimstr(\"w\") | tonumber | select(. == $g)]", ".s | ascii_upcase | [splits(\" \")]",
	". as $d | .words | index(\"w\" + ($d.g | tostring))", ".g as $g | [limit($g + 1; .words[])] | length", ".g as $g | label $out | .words[] | if . == \"w\" + ($g | tostring) then ., break $out else empty end", ".c |= map(.)", ".a.b += 1", "[.c[]] | sort_by(tostring)",
	".g as $g | [range($g + 2)] | .[$g:] | length", ". as $d | $d.words | group_by(. == \"w\" + ($d.g | tostring)) | map(length)", ".g as $g | [.words[] | select(endswith($g | tostring))] | length", ".s | @base64 | @base64d", ".g | tostring | tojson | fromjson | tonumber",
	". as $d | .s | [match($d.p[1:-1]; \"g\").string] | unique", ". as $d | [$d.words[] | sub($d.p; \"hit\")] | map(select(. == \"hit\")) | length", ".g as $g | first(.words[] | select(. == \"w\" + ($g | tostring)))", ".g as $g | any(.words[]; . == \"w\" + ($g | tostring))", "(.c[0], .a.b) |= . + 1",
}

var c06Hand = []string{
	// folds whose accumulator starts from an empty value and is then extended: operands (literals of the Code, parts of the shared input) must stay as they are
	"[{}, {\"kind\": \"user\"}, .] | add?", "[{}, .a, {\"z\": 1}] | add?", "[{}, {}, {\"k\": 1}, {\"a\": 2}] | add", "[null, {\"k\": 1}, .a] | add?", "[[], [1], .c] | add?", "[\"\", \"a\", \"b\"] | add", "[{}, .a, .a] | add?", "{} + {\"k\": 1} + {\"l\": 2}", "[{}, {\"k\": {\"m\": 1}}, {\"k\": {\"n\": 2}}] | add",
	"reduce ({}, {\"k\": 1}, {\"l\": 2}) as $o ({}; . + $o)", "[{}, {\"k\": 1}] | add | .x = 1", "{} * {\"k\": {\"m\": 1}} * {\"k\": {\"n\": 2}}",
	// one pattern under rejected and accepted flag sets: what is kept for the pattern must not decide whether the flags are looked at
	"\"abc\" | [(try test(\"b\"; \"x\") catch \"E\"), test(\"b\"), (try test(\"b\"; \"gx\") catch \"E\"), test(\"b\"; \"g\"), (try test(\"b\"; \"n\") catch \"E\")]", "\"aXb\" | [(try [match(\"x\"; \"ix\")] catch \"E\"), [match(\"x\"; \"i\").offset], (try sub(\"x\"; \"_\"; \"q\") catch \"E\"), sub(\"x\"; \"_\"; \"i\")]",
	"[.. | strings | (try test(\"a\"; \"z\") catch \"E\"), test(\"a\")]",
	// builtins applied to the arrays of the (shared) input themselves, not to copies: they must only read them
	"[.. | arrays | (join(\"-\")?, map(type))]", ".a | join(\",\")?", ".[0] | join(\"\")?", "[.. | arrays | join(\"-\")?] | length, ([.. | numbers] | add)", "[.. | arrays | join(\",\")?], [.. | scalars | type]",
	"[.. | arrays | (add?, (min_by(.)?), (unique_by(.)?), (sort_by(.)?), (group_by(.)?), flatten, tojson, (@csv?), (@tsv?), (@sh?), (transpose?), reverse, to_entries, indices(1), index(1), (inside([1])?), (contains([1])?), any, all, ([tostream] | length), (implode?), (@json), (@html?), (tostring), (map(tostring) | join(\"\")), (first?), (last?), (.[1:] | join(\"/\")?), (sort?), (unique?), (min?), (max?), ([limit(2; .[])]), ([combinations?] | length), (to_entries | from_entries?), (with_entries(.)?), (ltrimstr(\"a\")?), (splits(\"a\")?), (@base64?), (@uri?), (getpath([0])?), ([paths] | length), (tojson | fromjson), (walk(.)), (del(.[0])), (.[0] = 9), (. + [1]), (. - [1]), (map(.)), (map_values(.)), (bsearch(1)?), (flatten(1)?), (range(length)), (has(0)), (keys), (length), (not), (type), (env | type))] | length",
	// integer literals beyond 64 bits are pointers inside the shared Code: every operator must leave them alone
	"[100000000000000000007 % (1000, 3, 7, 999999), (100000000000000000007 | abs, -(.), . + 1, . - 1, . * 2, . / 7, . % 7, length, tostring, tojson, floor, sqrt > 0)]", "[range(1000; 1040) as $i | 100000000000000000007 % $i, -100000000000000000007 % $i] | add",
	"[limit(30; repeat(36893488147419103232 % 1000))] | unique", "[-36893488147419103232 | abs, ., (. % 5), (. - 1), -(.)], [18446744073709551616 | (. % 3), ., (. * -1), (. + 0)]", "reduce range(20) as $i (0; . + (100000000000000000007 % ($i + 2)) - (100000000000000000007 % ($i + 2)))",
	// tables a Code fills on first use
	"builtins | length", "[builtins] | .[0] | sort == .", "builtins | map(select(startswith(\"a\"))) | length", "[builtins, builtins] | .[0] == .[1]", "[.. | strings | test(\"a\"), test(\"b\"; \"i\"), test(\"c\"; \"g\")]", "[limit(5; builtins[])]", "env | type", "$ENV | type",
	"[getpath([\"a\", \"b\"]), getpath([\"c\", 1])]", "[first(range(10)), last(range(10)), nth(3; range(10)), limit(2; range(10))]", "[splits(\"a\")?, ascii_downcase?, ltrimstr(\"a\")?, @base64?, @uri?, @html?, @sh?, @csv?, @tsv?, @json, @text]", "todate?, (now | type)", "input_line_number",
	// updates whose right-hand side yields nothing (paths are collected and deleted at the end), flat and nested
	".[] |= empty", ".c |= (.[] |= empty)?", "(.a, .c) |= empty", "map_values(empty)", "map_values(select(. != 1))?", "(.. | numbers) |= empty", ".c[] |= select(type == \"number\")", "[1,2,3,4,5,6,7,8,9,10] | (.[] | select(. % 2 == 0)) |= empty",
	"[[1,2],[3,4]] | .[] |= (.[0] |= empty)", "{\"a\":[1,2,3],\"b\":[4,5]} | map_values(map_values(empty))", "[range(20)] | (.[] | select(. > 3)) |= empty | length", "(.a, .c, .a) |= (if type == \"object\" then map_values(empty) else empty end)?",
	"del(.[]?)", "del(.c[0], .a)", "[.[]?] | (.[0], .[1]) |= empty", "to_entries | map(select(.key != \"a\")) | from_entries?", "with_entries(select(.value != null))?", "walk(if type == \"number\" then empty else . end)?",
	"del(.a.q)", "del(.a.b)", "del(.c[0])", "delpaths([[\"a\", \"q\"]])", "{\"a\":{\"b\":1},\"c\":[1,{\"d\":2}]} | del(.a.q)", "[3,1,2] | sort", "{\"a\":[3,1,2]} | .a | sort", ".a |= . + 1?", ".c |= map(.)?", ".c[1].d += 1",
	".[] += 1?", "map_values(. )?", "to_entries", "with_entries(.)?", "add?", "[.[]?] | add?", "flatten?", "[.. ] | length", "paths", "[paths] | length", "tostream", "fromstream(tostream)", "walk(.)", "tojson", "tojson | fromjson", "keys?", "sort?", "group_by(.)?", "unique?", "min?, max?",
	"reverse?", "transpose?", ". + .?", ". * .?", ". - .?", ".c + .c", ".a + .a", "[.c[], .c[]]", ".c[1:] + .c[:1]", ".c | .[1:] | . + [0]", "del(.c[1:])", "del(.. | select(. == 1))?", "(.. | numbers) |= . + 1", ".. |= .", "[limit(3; ..)]", "first(..)", "getpath([\"a\", \"b\"])?", "setpath([\"a\", \"b\"]; 5)?",
	"test(\"a\")?", "[match(\"a\"; \"g\")?]", "[.. | strings | test(\"^[a-z]+$\")]", "[.. | strings | sub(\"a\"; \"b\")]", "[.. | strings | gsub(\"[aeiou]\"; \"_\")]", "\"abcabc\" | [match(\"(a)(b)?\"; \"g\") | .captures | length]", "\"test\" | test(\"T\"; \"i\")", "[\"a1\", \"b2\"] | map(capture(\"(?<l>[a-z])(?<d>[0-9])\"))", "\"a,b, c\" | [splits(\", *\")]", "\"xyz\" | ascii_downcase | test(\"x.z\")",
	"$ENV | length", "env | keys | length", "[.[]?] | sort_by(.)?", "[.[]? | tostring] | join(\",\")", "@json, @text, @csv?, @html", "@base64 | @base64d", "input_line_number?", "[range(10)] | map(. * 2) | add", "reduce range(20) as $i ([]; . + [$i]) | length", "[limit(5; repeat(1))]", "def f: if . < 5 then . + 1 | f else . end; 0 | f", "[.[]? as [$a] ?// $a | $a]",
	"{a: .a, b: .c} | del(.a)", "[., .] | del(.[0].a)", "[{\"a\":{\"b\":1}}, {\"a\":{\"b\":1}}] | map(del(.a.q))", "{\"x\":[1,2,3]} | .x |= map(. + 1)", "{\"x\":[[1],[2]]} | del(.x[0][5])", "[[1,2],[3,4]] | del(.[0][9], .[1][0])", "{\"a\":1,\"b\":{\"c\":[1,2,{\"d\":3}]}} | delpaths([[\"b\",\"c\",2,\"z\"]])", "{\"k\":[{\"a\":1},{\"a\":2}]} | del(.k[] | select(.a == 3))",
	"[1,[2,[3]]] | flatten", "{\"a\":[1,2]} | to_entries", "{\"a\":{\"b\":2}} * {\"a\":{\"c\":3}}", "[[3,1],[2]] | map(sort)", "{\"a\":[1,2,3]} | .a[1:]", "[1,2,3] | .[1:] = [9]", "{\"a\":[1,2,3]} | .a[0] = 0", "[{\"a\":1}] | .[0].a |= . + 1", "{\"a\":null} | .a //= [1]", "[[0]] | .[0][0] += 1", "{\"a\":[{\"b\":[]}]} | .a[0].b += [1]",
}

func init() {
	run.Register(&run.Prop{
		ID: "C06", Level: "exploration", MinNontrivial: 100, Race: true, HangFails: true,
		Rule:        "a case is (program, input, mode); the worker binary is built with the Go race detector. The program is first run alone (baseline), then G goroutines each run it R times at once in one of four modes — shared compiled *Code or shared parsed *Query (concurrent compilation), each on private copies of the input or on ONE shared input that a canary goroutine keeps deep-reading (the caller's read-only use) — and every run must equal the baseline; afterwards the race log of the process is checked for new `WARNING: DATA RACE` blocks with a gojq frame; a runtime fatal error kills the worker and is attributed to the case by the journal. parse: 8 goroutines Parse, print and compile 8 different query texts (string literals with escapes of 1..2000 characters, keys, formats, comments, definitions, metadata) 40 times each; every result must be what the same call gives alone. mixed: on one Code 8 goroutines make 200 runs that end in different ways (complete, cancelled after the first value and drained, abandoned, advanced after the end, refused for too many / too few variable values): complete runs equal the run alone, refused ones give their error every time. marshal: 8 goroutines Marshal, preview and serialise (tojson, tostring, @json, @text, interpolation, @csv, @sh) 8 different values 60 times each — strings of control characters, invalid UTF-8, numbers of every representation, objects. Programs: delete/update/sort/add programs over inputs and over literals folded into the code, regex programs (shared cache), a sweep of every builtin, the corpus, generated update-heavy programs. Non-trivial = distinct (mode, program, input) whose run emits a value or an error.",
		Assumptions: []string{"the Go race detector (happens-before) reports a race only when both accesses occur in the run; it reports each racing stack pair once per process", "a user-supplied input iterator or callback that is not thread-safe is the caller's side of the contract and is not exercised"},
		Body: func(c *run.Ctx) {
			// Parse / String / Compile of different texts at once
			for _, t := range c06ParseCases() {
				kC06Parse.Do(c, t)
			}
			// runs that end in different ways, at once on one Code
			for _, src := range c06MixedSrcs {
				kC06Mixed.Do(c, c06MixedCase{Src: src, Input: run.TV{V: []any{1, 2, 3, 4, 5, 6}}})
			}
			// registered Go functions: every call sees its own arguments
			for _, src := range c06CallbackSrcs {
				kC06Callback.Do(c, c06CallbackCase{Src: src})
			}
			// Marshal / Preview / tojson of different values at once
			for _, t := range c06MarshalCases() {
				kC06Marshal.Do(c, t)
			}
			r := c.Rand("c06")
			G, R := 8, c.N(10, 30)
			inputs := []any{
				map[string]any{"a": map[string]any{"b": 1}, "c": []any{1, map[string]any{"d": 2}}},
				[]any{[]any{3, 1, 2}, []any{1, []any{2}}, map[string]any{"a": "abc"}},
				map[string]any{"a": []any{3, 1, 2}, "b": "abcabc", "c": []any{"x", "y"}},
				[]any{1, 2, 3}, "abcabc", nil,
			}
			// per-goroutine inputs: state kept by the shared compiled code and keyed by run-time values (patterns, flags)
			for _, src := range c06PerInput {
				for mode := 0; mode < 2; mode++ {
					kC06.Do(c, c06Case{Src: src, Input: run.TV{V: inputs[(len(src)+mode)%3]}, Mode: mode, G: G, R: R, Multi: true})
				}
			}
			// declared variables: one caller-owned values slice with spare capacity handed to every run
			for _, src := range []string{"[$a, $b, .g]", "[$a, $b, .]", "$b + [.g] | length", "[.words[] | select(. == \"w\" + (.|tostring))] | [$a, length]", "{a: $a, b: $b, g: .g}", "[limit(3; repeat($a))] + $b", "$b[0] as $x | [$x, .g, $a]", "[$b, $b] | .[0] += [1] | [., $b]",
				". as $d | reduce range(50) as $i ([]; . + [$a]) | [length, $d.g]", "[paths] | length | [$a, .]", "$__loc__? // [$a, $b]", "[$a, $b] | tojson"} {
				kC06.Do(c, c06Case{Src: src, Input: run.TV{V: inputs[len(src)%3]}, Mode: 0, G: G, R: R, Multi: true, Vars: true})
			}
			for _, src := range c06Hand {
				kC06.Do(c, c06Case{Src: ".v | " + src, Input: run.TV{V: inputs[len(src)%3]}, Mode: 0, G: G, R: R, Multi: true})
				for mode := 0; mode < 4; mode++ {
					kC06.Do(c, c06Case{Src: src, Input: run.TV{V: inputs[(len(src)+mode)%3]}, Mode: mode, G: G, R: R})
				}
			}
			for _, src := range sweepPrograms(r, c.N(2, 8)) {
				src = strings.ReplaceAll(src, "$v", ".")
				kC06.Do(c, c06Case{Src: src, Input: run.TV{V: inputs[r.IntN(3)]}, Mode: 2 + r.IntN(2), G: G, R: R})
				// the same value folded into the code as a literal
				if r.IntN(2) == 0 {
					lit, _ := gojq.Marshal(inputs[r.IntN(3)])
					kC06.Do(c, c06Case{Src: string(lit) + " | " + src, Input: run.TV{V: nil}, Mode: r.IntN(2), G: G, R: R})
				}
			}
			n := c.N(1500, 12000)
			for i := 0; i < n; i++ {
				g := &gen.G1{R: r, Lits: 4, Updates: 6}
				src := g.Program(2 + r.IntN(2))
				if r.IntN(3) == 0 {
					src = g.UpdateProgram(2)
				}
				kC06.Do(c, c06Case{Src: src, Input: run.TV{V: inputs[r.IntN(len(inputs))]}, Mode: r.IntN(4), G: G, R: R})
			}
			corpus := gen.SimpleCorpus()
			m := len(corpus)
			for i := 0; i < m; i++ {
				cs := corpus[(i*7)%len(corpus)]
				var in any
				if len(cs.Inputs) > 0 {
					in = cs.Inputs[0]
				}
				kC06.Do(c, c06Case{Src: cs.Query, Input: run.TV{V: in}, Mode: r.IntN(4), G: G, R: R})
			}
		},
	})
}
