package mon

import (
	"verif/harness/internal/run"

	"github.com/itchyny/gojq"
)

// c02.readwrite: whatever element of an array a hostile index addresses when it is read (fractional, negative and
// fractional, integral doubles, huge), the write and the deletion through the same index address the same element:
// setpath | getpath gives back what was written, the written value sits where the read found its element, `=`, `|=`,
// `+=` and del agree with setpath / delpaths. The array has distinct elements, so that positions can be told.

type c02RWCase struct {
	K  run.TV
	In run.TV
}

const c02RWProg = `. as $a | getpath([$k]) as $r | ($a | index($r)) as $i
| if $r == null then "nothing-there" else
  [ (try (setpath([$k]; "X") | getpath([$k]) == "X") catch "E1"),
    (try ((setpath([$k]; "X") | index("X")) == $i) catch "E2"),
    (try ((.[$k] = "X") == setpath([$k]; "X")) catch "E3"),
    (try ((.[$k] |= "X") == setpath([$k]; "X")) catch "E4"),
    (try (delpaths([[$k]]) == ($a[:$i] + $a[$i + 1:])) catch "E5"),
    (try (del(.[$k]) == delpaths([[$k]])) catch "E6"),
    (try ((.[$k] += 1 | .[$i]) == ($r + 1)) catch "E7"),
    (try ((.[$k] |= empty) == delpaths([[$k]])) catch "E8"),
    (try (([paths] | length) == ([paths(true)] | length)) catch "E9"),
    (try ((setpath([$k]; "X") | length) == ($a | length)) catch "E10"),
    (try ((to_entries | map(select(.value == $r)) | .[0].key) == $i) catch "E11")
  ] end`

var kC02RW = run.NewKind("c02.readwrite", func(c *run.Ctx, t c02RWCase) *run.Fail {
	res := run.Compile(c02RWProg, gojq.WithVariables([]string{"$k"}))
	if res.Code == nil {
		return run.Failf("does not compile: %v", res.Err)
	}
	tr := run.RunCode(res.Code, run.DeepCopy(t.In.V), []any{t.K.V}, 200000, 0)
	if tr.End == run.EndError {
		c.Inconclusive("index-not-accepted-for-reading")
		return nil
	}
	if tr.End != run.EndOK || len(tr.Vals) != 1 {
		return run.Failf("index %s on %s: %s", run.Canon(t.K.V), run.Canon(t.In.V), run.TraceDesc(tr))
	}
	if tr.Vals[0] == any("nothing-there") {
		c.Inconclusive("nothing-at-the-index")
		return nil
	}
	got, _ := tr.Vals[0].([]any)
	for i, g := range got {
		if g != any(true) {
			return run.Failf("index %s on %s: writing / deleting through the index does not address the element that reading through it finds: law #%d gives %s (all: %s)", run.Canon(t.K.V), run.Canon(t.In.V), i+1, run.Canon(g), run.Canon(tr.Vals[0]))
		}
	}
	c.Nontrivial(run.Canon(t.K.V) + run.Canon(t.In.V))
	return nil
})

func c02RWCases() []c02RWCase {
	var out []c02RWCase
	ins := []any{[]any{10, 20, 30, 40}, []any{10}, []any{10, 20}, []any{1, 2, 3, 4, 5, 6, 7}, append(make([]any, 0, 9), 10, 20, 30)}
	ks := []any{-0.5, -1.5, -2.5, -3.5, -4.5, -1.0, -0.999, -0.001, -1.001, -2.0, 0.5, 1.5, 2.5, 0.999, 2.999, 3.0, 1.0, 0.0, -1e-9, 1e-9, -1, -2, 0, 1, 3, -4, -3.999, 6.5, -6.5, -7.0, -7.5}
	for _, in := range ins {
		for _, k := range ks {
			out = append(out, c02RWCase{K: run.TV{V: k}, In: run.TV{V: in}})
		}
	}
	return out
}
