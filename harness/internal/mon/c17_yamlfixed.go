package mon

import (
	"fmt"
	"os"
	"strings"

	"verif/harness/internal/run"
)

// c17.yamlfixed: hand-written YAML streams with characters the random generator cannot carry because the YAML
// decoder's own reading of SOME documents that contain them goes wrong (U+FEFF inside scalars, byte order marks in
// front of later documents): fixed texts, so what passes once passes always. The fault is the first occurrence of the
// marker @@ (removed before the run); the character behind it is the offending one.

type c17YFixedCase struct {
	Text string // with @@ in front of the offending character
	Via  string // pipe | file
}

var kC17YFixed = run.NewKind("c17.yamlfixed", func(c *run.Ctx, t c17YFixedCase) *run.Fail {
	p := strings.Index(t.Text, "@@")
	if p < 0 {
		return run.Failf("bad case")
	}
	whole := []byte(strings.Replace(t.Text, "@@", "", 1))
	args := []string{"--yaml-input", "-c", "."}
	opt := run.CLIOpt{Args: args, Stdin: whole}
	if t.Via == "file" {
		dir, cleanup := c17Dir()
		defer cleanup()
		path := dir + "/in.yaml"
		if err := os.WriteFile(path, whole, 0o644); err != nil {
			c.Inconclusive("tempfile")
			return nil
		}
		opt = run.CLIOpt{Args: append(args, path), NoStdin: true}
	}
	res := run.CLI(opt)
	if res.TimedOut || res.StartErr != nil {
		c.Inconclusive("cli-timeout")
		return nil
	}
	where := fmt.Sprintf("via=%s, stream %q, offending byte at offset %d", t.Via, whole, p)
	rep, why := c17ParseReport(string(res.Stderr), "invalid yaml: ")
	if rep == nil {
		return run.Failf("%s\n%s; exit %d, stderr: %s", where, why, res.Code, run.Clip(string(res.Stderr)))
	}
	switch verdict := c17Judge(rep, whole, p); verdict {
	case "":
	case "?":
		c.Inconclusive("width-oracle-undecided")
		return nil
	default:
		return run.Failf("%s\n%s\nstderr: %s", where, verdict, run.Clip(c17Stderr(res.Stderr)))
	}
	c.Nontrivial(t.Via + "\x00" + t.Text)
	return nil
})

func c17YFixedCases() []c17YFixedCase {
	texts := []string{
		"a: \"x\ufeffy\"\nb: @@]\nc: 3\n",
		"a: \"x\ufeffy\"\nb: \"\ufeff\ufeff\"\nc: @@}\n",
		"\ufeffa: 1\n---\n\ufeffb: 2\nc: @@}\n",
		"a: 'p\ufeffq'  # c\ufeffd\nk: @@`x\n",
		"k0: \"\ufeff\"\nk1: v\nk2: @@@x\n",
		"a: \"x\ufeffy\"\n---\nb: \"あ\ufeff字\"\nc: [1, 2]\nd: @@]\n",
		"a: \"\ufeffx\"\nb:\n  - 1\n  - \"y\ufeff\"\nc: @@}\n",
		"\ufeffa: \"x\ufeffy\"\nb: 2\nc: @@]\n",
		"a: \"é\ufeffé\ufeffé\"\nbb: b@@: c\n",
		"a: 1\n--- \n\ufeffb: \"q\ufeff\"\ncc: @@`z\n",
		"# c\ufeffomment\na: \"\ufeff\"\nb: @@]\n",
		"a: \"1\ufeff2\"\nb: \"3\ufeff4\"\nc: \"5\ufeff6\"\nd: \"7\ufeff8\"\ne: @@}\n",
	}
	var out []c17YFixedCase
	for _, t := range texts {
		out = append(out, c17YFixedCase{Text: t, Via: "pipe"}, c17YFixedCase{Text: t, Via: "file"})
	}
	return out
}
