package mon

import (
	"encoding/json"
	"fmt"
	"math/rand/v2"
	"os"
	"path/filepath"
	"strings"
	"unicode/utf8"

	"verif/harness/internal/run"

	"github.com/itchyny/gojq"
)

// ---- C17, queries: library ParseError and the command's report ----

// c17QSpec describes one generated well-formed query (or module).
type c17QSpec struct {
	Seed   uint64 `json:"s"`
	Lines  int    `json:"l"` // 1 => single line
	Max    int    `json:"m"` // target line length
	Wide   bool   `json:"w"`
	Module bool   `json:"mod,omitempty"` // a module: function definitions only
	Term   string `json:"term"`
}

type c17QAtom struct {
	text      string
	glue      bool // continues a string literal: no separator before it
	tight     bool // the separator before it may be empty
	endsTerm  bool // a complete term ends here: no operand may follow
	wantsExpr bool // an expression must start after it
	stack     string
	litFrom   int // [litFrom,litTo) of text is string-literal content
	litTo     int
}

type c17QGen struct {
	r     *rand.Rand
	wide  bool
	term  string
	atoms []c17QAtom
	stack []byte
	nfun  int
}

const (
	qEnds  = 1 << iota // endsTerm
	qWants             // wantsExpr
	qTight
	qGlue
)

func (g *c17QGen) emit(text string, flags int) *c17QAtom {
	g.atoms = append(g.atoms, c17QAtom{text: text, endsTerm: flags&qEnds != 0, wantsExpr: flags&qWants != 0,
		tight: flags&qTight != 0, glue: flags&qGlue != 0, stack: string(g.stack)})
	return &g.atoms[len(g.atoms)-1]
}

func (g *c17QGen) open(text string, b byte, flags int) {
	g.stack = append(g.stack, b)
	g.emit(text, flags)
}

func (g *c17QGen) close(text string, flags int) *c17QAtom {
	g.stack = g.stack[:len(g.stack)-1]
	return g.emit(text, flags)
}

var c17Idents = []string{"a", "foo", "bar_1", "x", "name", "items", "v2", "Key"}
var c17Funcs0 = []string{"length", "keys", "not", "empty", "f", "tostring", "add", "type"}
var c17Funcs1 = []string{"map", "select", "has", "g", "path", "sort_by", "first", "any"}
var c17Vars = []string{"$x", "$y", "$item", "$__loc__", "$v1", "$ENV"}
var c17Formats = []string{"@base64", "@json", "@text", "@sh", "@uri", "@csv"}

func pick[T any](r *rand.Rand, xs []T) T { return xs[r.IntN(len(xs))] }

// literal builds string-literal content (no quotes).
func (g *c17QGen) literal(n int) string {
	var sb strings.Builder
	for i := 0; i < n; i++ {
		k := g.r.IntN(100)
		switch {
		case k < 5:
			sb.WriteString(pick(g.r, []string{`\n`, `\"`, `\\`, `\t`, "\\" + "u00e9", `\/`}))
		case k < 7:
			sb.WriteString(g.term) // a raw line terminator inside a string literal
		case k < 35 && g.wide:
			sb.WriteString(c17Wide[g.r.IntN(len(c17Wide))].s)
		default:
			ch := c17ASCII[g.r.IntN(len(c17ASCII))]
			if ch == '#' && g.r.IntN(2) == 0 {
				ch = ' '
			}
			sb.WriteByte(ch)
		}
	}
	return sb.String()
}

// str emits a string: plain, or with 1..2 interpolations.
func (g *c17QGen) str(d int) {
	r := g.r
	n := r.IntN(14)
	if r.IntN(8) == 0 {
		n = 30 + r.IntN(90)
	}
	if d >= 3 || r.IntN(3) > 0 {
		lit := g.literal(n)
		a := g.emit(`"`+lit+`"`, qEnds)
		a.litFrom, a.litTo = 1, 1+len(lit)
		return
	}
	lit := g.literal(n)
	g.stack = append(g.stack, 's')
	a := g.emit(`"`+lit+`\(`, 0)
	a.litFrom, a.litTo = 1, 1+len(lit)
	for k := r.IntN(2); ; k-- {
		g.query(d+1, 1)
		lit = g.literal(r.IntN(10))
		if k <= 0 {
			break
		}
		// the part between two interpolations: `)lit\(`
		g.stack = g.stack[:len(g.stack)-1]
		g.stack = append(g.stack, 's')
		a = g.emit(`)`+lit+`\(`, qTight)
		a.litFrom, a.litTo = 1, 1+len(lit)
	}
	a = g.close(`)`+lit+`"`, qEnds|qTight)
	a.litFrom, a.litTo = 1, 1+len(lit)
}

func (g *c17QGen) number() string {
	r := g.r
	switch r.IntN(5) {
	case 0:
		return fmt.Sprintf("%d.%d", r.IntN(100), r.IntN(100))
	case 1:
		return fmt.Sprintf("%de%d", 1+r.IntN(9), r.IntN(20))
	case 2:
		return fmt.Sprintf(".%d", 1+r.IntN(99))
	}
	return fmt.Sprint(r.IntN(1000))
}

func (g *c17QGen) pattern(d int) {
	r := g.r
	switch {
	case d >= 2 || r.IntN(3) > 0:
		g.emit(pick(r, c17Vars[:5]), qEnds)
	case r.IntN(2) == 0:
		g.open("[", '[', 0)
		g.pattern(d + 1)
		if r.IntN(2) == 0 {
			g.emit(",", qTight)
			g.pattern(d + 1)
		}
		g.close("]", qEnds|qTight)
	default:
		g.open("{", '{', 0)
		g.emit(pick(r, c17Idents), 0)
		g.emit(":", qTight)
		g.pattern(d + 1)
		if r.IntN(2) == 0 {
			g.emit(",", qTight)
			g.emit(pick(r, c17Vars[:3]), qEnds)
		}
		g.close("}", qEnds|qTight)
	}
}

func (g *c17QGen) term1(d int) {
	r := g.r
	leaf := d >= 3 || r.IntN(100) < 45
	if leaf {
		switch r.IntN(11) {
		case 0:
			g.emit(".", 0)
		case 1, 2, 3:
			g.emit("."+pick(r, c17Idents), qEnds)
		case 4:
			g.emit("..", qEnds)
		case 5:
			g.emit(g.number(), qEnds)
		case 6:
			g.str(3)
		case 7:
			g.emit(pick(r, c17Vars), qEnds)
		case 8:
			g.emit(pick(r, []string{"null", "true", "false"}), qEnds)
		case 9:
			g.emit(pick(r, c17Funcs0), qEnds)
		case 10:
			g.emit(".", 0)
			g.open("[", '[', qTight)
			g.emit(pick(r, []string{"0", "-1", `"k"`, "2"}), qEnds)
			g.close("]", qEnds|qTight)
		}
	} else {
		switch r.IntN(12) {
		case 0:
			g.open("(", '(', qWants)
			g.query(d+1, 2)
			g.close(")", qEnds|qTight)
		case 1:
			if r.IntN(5) == 0 {
				g.open("[", '[', 0)
			} else {
				g.open("[", '[', qWants)
				g.query(d+1, 2)
			}
			g.close("]", qEnds|qTight)
		case 2:
			g.object(d)
		case 3:
			g.emit(pick(r, c17Funcs1), 0)
			g.open("(", '(', qTight|qWants)
			g.query(d+1, 1)
			if r.IntN(3) == 0 {
				g.emit(";", qTight)
				g.query(d+1, 1)
			}
			g.close(")", qEnds|qTight)
		case 4:
			g.open("if", 'i', qWants)
			g.query(d+1, 1)
			g.emit("then", qWants)
			g.query(d+1, 1)
			if r.IntN(3) == 0 {
				g.emit("elif", qWants)
				g.query(d+1, 1)
				g.emit("then", qWants)
				g.query(d+1, 1)
			}
			if r.IntN(3) > 0 {
				g.emit("else", qWants)
				g.query(d+1, 1)
			}
			g.close("end", qEnds)
		case 5:
			g.emit("try", 0)
			g.open("(", '(', qWants)
			g.query(d+1, 1)
			g.close(")", qEnds|qTight)
			if r.IntN(2) == 0 {
				g.emit("catch", 0)
				g.open("(", '(', qWants)
				g.query(d+1, 1)
				g.close(")", qEnds|qTight)
			}
		case 6:
			g.emit("reduce", 0)
			g.term1(3)
			g.emit("as", 0)
			g.pattern(d)
			g.open("(", '(', qWants)
			g.query(d+1, 1)
			g.emit(";", qTight)
			g.query(d+1, 1)
			g.close(")", qEnds|qTight)
		case 7:
			g.emit("foreach", 0)
			g.term1(3)
			g.emit("as", 0)
			g.pattern(d)
			g.open("(", '(', qWants)
			g.query(d+1, 1)
			g.emit(";", qTight)
			g.query(d+1, 1)
			if r.IntN(2) == 0 {
				g.emit(";", qTight)
				g.query(d+1, 1)
			}
			g.close(")", qEnds|qTight)
		case 8, 9:
			g.str(d)
		case 10:
			g.emit(pick(r, c17Formats), 0)
			g.str(d)
		case 11:
			g.emit(".", 0)
			lit := g.literal(1 + r.IntN(6))
			a := g.emit(`"`+lit+`"`, qEnds)
			a.litFrom, a.litTo = 1, 1+len(lit)
		}
	}
	// suffixes
	for n := r.IntN(3); n > 0 && r.IntN(2) == 0; n-- {
		switch r.IntN(5) {
		case 0:
			g.emit("."+pick(r, c17Idents), qEnds|qTight)
		case 1:
			g.open("[", '[', qTight)
			g.emit(fmt.Sprint(r.IntN(9)), qEnds)
			g.close("]", qEnds|qTight)
		case 2:
			g.open("[", '[', qTight)
			g.emit(fmt.Sprint(r.IntN(3)), qEnds)
			g.emit(":", qTight)
			g.emit(fmt.Sprint(3+r.IntN(3)), qEnds)
			g.close("]", qEnds|qTight)
		case 3:
			g.open("[", '[', qTight)
			g.close("]", qEnds|qTight)
		case 4:
			g.emit("?", qEnds|qTight)
		}
	}
}

func (g *c17QGen) object(d int) {
	r := g.r
	g.open("{", '{', 0)
	n := r.IntN(4)
	for i := 0; i < n; i++ {
		if i > 0 {
			g.emit(",", qTight)
		}
		switch r.IntN(5) {
		case 0:
			g.emit(pick(r, c17Vars[:3]), qEnds)
			continue
		case 1:
			lit := g.literal(1 + r.IntN(8))
			a := g.emit(`"`+lit+`"`, qEnds)
			a.litFrom, a.litTo = 1, 1+len(lit)
		case 2:
			g.open("(", '(', qWants)
			g.query(d+1, 1)
			g.close(")", qEnds|qTight)
		default:
			g.emit(pick(r, append(c17Idents, "if", "and", "def")), 0)
			if r.IntN(5) == 0 {
				continue
			}
		}
		g.emit(":", qTight)
		g.arith(d + 1)
	}
	g.close("}", qEnds|qTight)
}

func (g *c17QGen) arith(d int) {
	g.term1(d)
	for n := g.r.IntN(3); n > 0 && g.r.IntN(2) == 0; n-- {
		g.emit(pick(g.r, []string{"+", "-", "*", "/", "%"}), qWants)
		g.term1(d + 1)
	}
}

func (g *c17QGen) expr(d int) {
	r := g.r
	cmp := func() {
		g.arith(d)
		if r.IntN(6) == 0 {
			g.emit(pick(r, []string{"==", "!=", "<", "<=", ">", ">="}), qWants)
			g.arith(d)
		}
	}
	cmp()
	if r.IntN(7) == 0 {
		g.emit(pick(r, []string{"and", "or", "//"}), qWants)
		cmp()
	}
	if d < 2 && r.IntN(14) == 0 {
		g.emit(pick(r, []string{"=", "|=", "+=", "//="}), qWants)
		g.arith(d + 1)
	}
}

func (g *c17QGen) funcdef(d int) {
	r := g.r
	g.emit("def", 0)
	g.emit(fmt.Sprintf("%s%d", pick(r, []string{"f", "g", "helper_"}), g.nfun), 0)
	g.nfun++
	if r.IntN(3) == 0 {
		g.open("(", '(', qTight)
		g.emit(pick(r, []string{"a", "$b", "fn"}), 0)
		if r.IntN(2) == 0 {
			g.emit(";", qTight)
			g.emit(pick(r, []string{"c", "$d"}), 0)
		}
		g.close(")", qTight)
	}
	g.emit(":", qTight|qWants)
	g.stack = append(g.stack, 'd')
	g.query(d+1, 2)
	g.close(";", qTight)
}

// query emits a pipeline of at most n stages.
func (g *c17QGen) query(d, n int) {
	r := g.r
	if d <= 1 && r.IntN(6) == 0 {
		g.funcdef(d)
	}
	stages := 1 + r.IntN(n)
	for i := 0; i < stages; i++ {
		if i > 0 {
			g.emit("|", qWants)
		}
		if i < stages-1 {
			switch r.IntN(8) {
			case 0:
				g.term1(d + 1)
				g.emit("as", 0)
				g.pattern(d)
				if r.IntN(4) == 0 {
					g.emit("?//", 0)
					g.pattern(d)
				}
				continue
			case 1:
				g.emit("label", 0)
				g.emit(pick(r, []string{"$out", "$l"}), qEnds)
				continue
			}
		}
		g.expr(d)
		if r.IntN(8) == 0 {
			g.emit(",", qTight|qWants)
			g.expr(d)
		}
	}
}

// c17QBuilt is a laid-out query.
type c17QBuilt struct {
	atoms []c17QAtom
	seps  []string // separator before each atom
	src   string
}

func c17QBuild(s c17QSpec) *c17QBuilt {
	r := rand.New(rand.NewPCG(s.Seed, 0xc17a))
	term := c17Term(s.Term)
	g := &c17QGen{r: r, wide: s.Wide, term: term}
	if s.Lines <= 1 {
		g.term = " " // a single-line query has no raw terminators in its strings
	}
	if s.Module {
		for n := 1 + s.Lines/3; n > 0; n-- {
			g.funcdef(0)
		}
	} else {
		for {
			g.query(0, 4)
			if len(g.atoms) >= s.Lines*3 || s.Lines <= 1 {
				break
			}
			g.emit("|", qWants)
		}
	}
	b := &c17QBuilt{atoms: g.atoms}
	var sb strings.Builder
	cur, tgt, lines := 0, r.IntN(s.Max+1), 1
	for i, a := range b.atoms {
		sep := ""
		switch {
		case i == 0 || a.glue:
		case s.Lines > 1 && (cur+len(a.text) > tgt || r.IntN(12) == 0) && lines < s.Lines+40:
			if r.IntN(6) == 0 {
				sep = " # " + strings.NewReplacer("\r", " ", "\n", " ", `\`, "/").Replace(g.literal(r.IntN(12)))
			}
			sep += term
			lines++
			for r.IntN(12) == 0 {
				sep += term
				lines++
			}
			ind := r.IntN(7)
			sep += "      "[:ind]
			cur, tgt = ind, r.IntN(s.Max+1)
		case c17QMayTouch(b.atoms[i-1], a) && r.IntN(2) == 0:
		default:
			sep = "  "[:1+r.IntN(8)/7]
		}
		b.seps = append(b.seps, sep)
		sb.WriteString(sep)
		sb.WriteString(a.text)
		cur += len(sep) + len(a.text)
	}
	b.src = sb.String()
	return b
}

// c17QMayTouch reports whether atom a may follow prev without white space.
func c17QMayTouch(prev, a c17QAtom) bool {
	last := prev.text[len(prev.text)-1]
	if prev.litTo == 0 && strings.IndexByte("([{", last) >= 0 {
		return true
	}
	if !a.tight {
		return false
	}
	if a.text[0] == '.' { // `.name` after a number or a dot would change the tokens
		return last >= 'a' && last <= 'z' || last >= 'A' && last <= 'Z' || strings.IndexByte("])}\"?", last) >= 0
	}
	return true
}

// c17QFault is one injected query fault.
type c17QFault struct {
	Kind string `json:"k"` // operand starter closer badtok char esc eof unterminated
	At   int    `json:"i"` // boundary (before atom At) or atom index
	Var  int    `json:"v"`
}

var c17QOperands = []string{"1", "$zz", `"s"`, `"s\(1)t"`, "foo", "@text", ".5", "{", "..", `"\(.)"`, `"é\(1)"`, "null", "42.5e3", "$__loc__", `"multi word あ string"`}
var c17QStarters = []string{"|", ",", "*", "/", "%", "==", "!=", "<", ">=", "and", "or", "//", "=", "|=", "+=", ";", ":", "?", "as", "then", "else", "elif", "end", "catch", "?//"}
var c17QBadTok = []string{"1.2.3", "12ab", "3e+", "0x1F", "7e", "1.5.", ".5.5", "9z9", "2E-"}
var c17QChars = []string{"é", "あ", "😀", "ｱ", "𝄞", "~", "^", "&", "`", "'", "!", `\`, "@", "$", "\xff", "\xc0"}
var c17QEscapes = []string{`\q`, `\x`, `\a`, `\u12G4`, `\uZ`, `\ `, `\U0041`, `\u00g`, `\é`, `\あ`, `\😀`, `\u12é4`, `\☆x`}

// c17QWant is the expectation for one faulty source.
type c17QWant struct {
	src    string
	s      int  // start of the offending token
	e      int  // end of the offending token (maximal)
	exact  bool // Token must be the whole token
	eof    bool // Offset == len(src), Token == ""
	unterm bool
}

func c17QInject(b *c17QBuilt, f c17QFault) (w c17QWant, ok bool) {
	n := len(b.atoms)
	// offset of atom k in src
	pos := func(k int) int {
		p := 0
		for i := 0; i < k; i++ {
			p += len(b.seps[i]) + len(b.atoms[i].text)
		}
		if k < n {
			p += len(b.seps[k])
		}
		return p
	}
	insert := func(k int, tok string) (c17QWant, bool) {
		if k < 0 || k >= n || b.atoms[k].glue {
			return w, false
		}
		p := pos(k)
		pre := ""
		if k > 0 && b.seps[k] == "" {
			pre = " "
		}
		src := b.src[:p] + pre + tok + " " + b.src[p:]
		return c17QWant{src: src, s: p + len(pre), e: p + len(pre) + len(tok), exact: true}, true
	}
	stackBefore := func(k int) string {
		if k == 0 {
			return ""
		}
		return b.atoms[k-1].stack
	}
	switch f.Kind {
	case "operand":
		if f.At < 1 || f.At >= n || !b.atoms[f.At-1].endsTerm {
			return w, false
		}
		op := c17QOperands[f.Var%len(c17QOperands)]
		w, ok = insert(f.At, op)
		if ok && strings.Contains(op, `\(`) {
			w.exact = false // the opening of an interpolated string
		}
		return w, ok
	case "starter":
		if f.At > 0 && (f.At >= n || !b.atoms[f.At-1].wantsExpr) {
			return w, false
		}
		return insert(f.At, c17QStarters[f.Var%len(c17QStarters)])
	case "closer":
		st := stackBefore(f.At)
		top := byte(0)
		if len(st) > 0 {
			top = st[len(st)-1]
		}
		var cands []string
		switch top {
		case '(', 's':
			cands = []string{"]", "}"}
		case '[':
			cands = []string{")", "}"}
		case '{':
			cands = []string{")", "]"}
		case 0:
			cands = []string{")", "]", "}"}
		default: // inside if…end or def…; : every closer is wrong
			cands = []string{")", "]", "}"}
		}
		return insert(f.At, cands[f.Var%len(cands)])
	case "badtok":
		w, ok = insert(f.At, c17QBadTok[f.Var%len(c17QBadTok)])
		w.exact = false
		return w, ok
	case "char":
		return insert(f.At, c17QChars[f.Var%len(c17QChars)])
	case "esc":
		if f.At < 0 || f.At >= n {
			return w, false
		}
		a := b.atoms[f.At]
		if a.litTo == 0 {
			return w, false
		}
		var bs []int
		for i := a.litFrom; i < a.litTo; {
			bs = append(bs, i)
			switch {
			case a.text[i] == '\\' && a.text[i+1] == 'u':
				i += 6
			case a.text[i] == '\\':
				i += 2
			default:
				_, sz := utf8.DecodeRuneInString(a.text[i:])
				i += sz
			}
		}
		bs = append(bs, a.litTo)
		at := pos(f.At) + bs[(f.Var/8)%len(bs)]
		esc := c17QEscapes[f.Var%len(c17QEscapes)]
		return c17QWant{src: b.src[:at] + esc + b.src[at:], s: at, e: at + len(esc)}, true
	case "eof":
		if f.At < 0 || f.At >= n-1 || b.atoms[f.At+1].glue {
			return w, false
		}
		a := b.atoms[f.At]
		if a.stack == "" && !a.wantsExpr {
			return w, false
		}
		// the end may be reached directly or by skipping white space / a comment behind the last token
		src := b.src[:pos(f.At)+len(a.text)] + []string{"", " ", "\n", "\t \n", " # c", " # comment\n", "\n\n", "#x", " #\n #\n", "\r\n"}[f.Var%10]
		return c17QWant{src: src, s: len(src), e: len(src), eof: true}, true
	case "unterminated":
		if f.At < 0 || f.At >= n || b.atoms[f.At].glue {
			return w, false
		}
		p := pos(f.At)
		if strings.ContainsAny(b.src[p:], "\"\\") {
			return w, false
		}
		w, ok = insert(f.At, `"abc`)
		w.unterm, w.exact, w.e = true, false, len(w.src)
		return w, ok
	}
	return w, false
}

// c17QCase is one faulty query, checked through the library and the command.
type c17QCase struct {
	Spec  c17QSpec  `json:"spec"`
	Fault c17QFault `json:"fault"`
	Via   string    `json:"via"` // arg | file | module | include | lib
}

var kC17Q = run.NewKind("c17.query", func(c *run.Ctx, t c17QCase) *run.Fail {
	b := c17QBuild(t.Spec)
	if _, err := gojq.Parse(b.src); err != nil {
		c.Inconclusive("generated-query-invalid")
		c.Logf("generator produced an invalid query: %v\n%s", err, b.src)
		return nil
	}
	w, ok := c17QInject(b, t.Fault)
	if !ok {
		c.Inconclusive("fault-not-applicable")
		return nil
	}
	src := w.src
	c.Logf("faulty source (%d bytes), offending token bytes [%d,%d) %q:\n%s", len(src), w.s, w.e, src[w.s:w.e], src)
	_, err := gojq.Parse(src)
	if err == nil {
		c.Inconclusive("faulty-query-accepted")
		return nil
	}
	pe, isPE := err.(*gojq.ParseError)
	if !isPE {
		return run.Failf("Parse returned %T (%v), not *gojq.ParseError, for\n%s", err, err, run.Clip(src))
	}
	line, start, _ := c17Locate([]byte(src), w.s)
	where := fmt.Sprintf("fault %s#%d/%d via=%s term=%s: offending token %q at bytes [%d,%d) = line %d byte %d of a %d-byte query",
		t.Fault.Kind, t.Fault.At, t.Fault.Var, t.Via, t.Spec.Term, src[w.s:w.e], w.s, w.e, line, w.s-start, len(src))
	sig := "c17.query:" + t.Fault.Kind
	libFail := func(format string, a ...any) *run.Fail {
		return &run.Fail{Sig: sig + ":lib", Detail: where + "\nlibrary: ParseError{Offset: " + fmt.Sprint(pe.Offset) + ", Token: " + fmt.Sprintf("%q", pe.Token) + "} (" + pe.Error() + "): " +
			fmt.Sprintf(format, a...) + "\nsource near the token: " + fmt.Sprintf("%q", c17Clip(src, w.s))}
	}
	ts := pe.Offset - len(pe.Token)
	switch {
	case w.eof:
		if pe.Offset != len(src) || pe.Token != "" {
			return libFail("an unexpected end of input must be reported as Offset=len(source)=%d with an empty Token", len(src))
		}
	case w.unterm:
		if pe.Offset != len(src) || !(pe.Token == "" || pe.Token == src[w.s:]) {
			return libFail("an unterminated string must be reported at the end of the source (Offset=%d) with Token empty or the string's bytes", len(src))
		}
	default:
		if pe.Offset < 0 || pe.Offset > len(src) || ts < 0 || src[ts:pe.Offset] != pe.Token {
			return libFail("Token is not the source text ending at Offset (source has %q there)", src[max(0, min(ts, len(src))):max(0, min(pe.Offset, len(src)))])
		}
		if pe.Token == "" {
			return libFail("empty Token for an offending token")
		}
		if utf8.ValidString(src) && !utf8.ValidString(pe.Token) {
			return libFail("Token ends inside a multi-byte character of a source that is valid UTF-8")
		}
		if ts != w.s {
			return libFail("Offset-len(Token)=%d is not the start of the offending token (%d)", ts, w.s)
		}
		if pe.Offset > w.e || w.exact && pe.Offset != w.e {
			return libFail("Offset is not the end of the offending token (%d)", w.e)
		}
	}
	c.Count("query_lib_errors_compared", 1)
	c.Count("query_fault_"+t.Fault.Kind, 1)
	key, _ := json.Marshal(t)
	if t.Via == "lib" {
		c.Nontrivial(string(key))
		return nil
	}
	if w.eof && t.Fault.Var%10 != 0 {
		// the end of the input lies behind white space or a comment: there is no offending character and the statement
		// does not say which of the neighbouring positions the command should show; the library's answer was checked
		c.Count("query_eof_behind_trivia_library_only", 1)
		c.Nontrivial(string(key))
		return nil
	}
	// the command
	dir, cleanup := c17Dir()
	if c.Replay {
		c.Logf("files kept in %s", dir)
	} else {
		defer cleanup()
	}
	file := src
	if !w.eof && !w.unterm && t.Fault.Var%3 == 0 {
		file += c17Term(t.Spec.Term)
	}
	// white space in front of the query, as in a query written over several lines inside quotes: positions are those of
	// the text as given
	lead := ""
	if t.Via == "arg" || t.Via == "file" {
		lead = []string{"", "", " ", "\n", "\n  ", "\t", " \n\n ", c17Term(t.Spec.Term) + "    "}[(t.Fault.At+t.Fault.Var)%8]
	}
	file = lead + file
	var opt run.CLIOpt
	switch t.Via {
	case "arg":
		opt = run.CLIOpt{Args: []string{"-n", lead + src}, NoStdin: true}
	case "file":
		p := filepath.Join(dir, "q.jq")
		os.WriteFile(p, []byte(file), 0o644)
		opt = run.CLIOpt{Args: []string{"-n", "-f", p}, NoStdin: true}
	case "module", "include":
		os.WriteFile(filepath.Join(dir, "m.jq"), []byte(file), 0o644)
		main := `import "m" as m; .`
		if t.Via == "include" {
			main = `include "m"; .`
		}
		opt = run.CLIOpt{Args: []string{"-n", "-L", dir, main}, NoStdin: true}
	default:
		return run.Failf("unknown transport %q", t.Via)
	}
	res := run.CLI(opt)
	if res.TimedOut || res.StartErr != nil {
		c.Inconclusive("cli-timeout")
		return nil
	}
	c.Logf("stderr:\n%s", res.Stderr)
	rep, why := c17ParseReport(string(res.Stderr), "invalid query: ")
	if rep == nil {
		return &run.Fail{Sig: sig + ":cli", Detail: fmt.Sprintf("%s\n%s; exit %d, stderr: %s", where, why, res.Code, run.Clip(string(res.Stderr)))}
	}
	cands := []int{len(lead) + w.s}
	if w.unterm {
		cands = append(cands, len(lead)+len(src))
	}
	whole := []byte(lead + src)
	if t.Via != "arg" {
		whole = []byte(file)
	}
	if lead != "" {
		c.Count("query_reports_behind_leading_white_space", 1)
	}
	var verdict string
	for _, p := range cands {
		if verdict = c17Judge(rep, whole, p); verdict == "" {
			break
		}
	}
	switch verdict {
	case "":
	case "?":
		c.Inconclusive("width-oracle-undecided")
		return nil
	default:
		return &run.Fail{Sig: sig + ":cli", Detail: where + "\ncommand: " + verdict + "\nstderr: " + run.Clip(c17Stderr(res.Stderr))}
	}
	c.Nontrivial(string(key))
	c.Count("query_reports_compared", 1)
	c.Distinct("query_via_term", t.Via+"/"+t.Spec.Term)
	if rep.HasLine {
		c.Distinct("query_lines_reported", fmt.Sprint(rep.Line))
	}
	return nil
})

func c17BodyQuery(c *run.Ctx) {
	r := c.Rand("c17.query")
	nq := c.N(240, 700)
	vias := []string{"arg", "file", "module", "include", "arg", "file", "lib"}
	for q := 0; q < nq; q++ {
		spec := c17QSpec{Seed: r.Uint64() >> 11, Wide: r.IntN(3) > 0, Term: c17Terms[r.IntN(3)]}
		switch q % 4 {
		case 0:
			spec.Lines, spec.Max = 1, 0
		case 1:
			spec.Lines, spec.Max = 2+r.IntN(6), 10+r.IntN(60)
		case 2:
			spec.Lines, spec.Max = 8+r.IntN(50), r.IntN(120)
		case 3:
			spec.Lines, spec.Max = 3+r.IntN(20), 150+r.IntN(150)
		}
		via := vias[q%len(vias)]
		spec.Module = via == "module" || via == "include"
		b := c17QBuild(spec)
		n := len(b.atoms)
		var faults []c17QFault
		add := func(kind string, at int) {
			faults = append(faults, c17QFault{Kind: kind, At: at, Var: r.IntN(1 << 16)})
		}
		// every applicable boundary for the context-dependent faults (sampled in quick)
		var ends, wants, lits, eofs []int
		for i, a := range b.atoms {
			if i+1 < n && a.endsTerm && !b.atoms[i+1].glue {
				ends = append(ends, i+1)
			}
			if i+1 < n && a.wantsExpr && !b.atoms[i+1].glue {
				wants = append(wants, i+1)
			}
			if a.litTo > 0 {
				lits = append(lits, i)
			}
			if i+1 < n && (a.stack != "" || a.wantsExpr) && !b.atoms[i+1].glue {
				eofs = append(eofs, i)
			}
		}
		wants = append(wants, 0)
		sample := func(xs []int, k int) []int {
			if len(xs) <= k {
				return xs
			}
			var out []int
			for _, j := range r.Perm(len(xs))[:k] {
				out = append(out, xs[j])
			}
			return out
		}
		k := c.N(3, 6)
		for _, at := range sample(ends, 2*k) {
			add("operand", at)
		}
		for _, at := range sample(wants, k) {
			add("starter", at)
		}
		for _, at := range sample(lits, k) {
			add("esc", at)
		}
		for _, at := range sample(eofs, k) {
			add("eof", at)
		}
		for i := 0; i < k; i++ {
			add("closer", r.IntN(n))
			add("badtok", r.IntN(n))
			add("char", r.IntN(n))
		}
		// an unterminated string at the latest boundaries without quotes behind them
		for at, cnt := n-1, 0; at >= 0 && cnt < 2; at-- {
			if f := (c17QFault{Kind: "unterminated", At: at}); !b.atoms[at].glue {
				if _, ok := c17QInject(b, f); !ok {
					break
				}
				faults = append(faults, f)
				cnt++
			}
		}
		for _, f := range faults {
			kC17Q.Do(c, c17QCase{Spec: spec, Fault: f, Via: via})
		}
	}
}
