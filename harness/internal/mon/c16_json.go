package mon

import (
	"encoding/json"
	"errors"
	"fmt"
	"math/rand/v2"
	"sort"
	"strings"
	"unicode/utf16"
	"unicode/utf8"
)

// ---- C16 helpers: the harness' own JSON scanner, the tostream event model
// in document order, and the text-level document generators. Nothing here
// calls gojq or encoding/json's decoder. ----

// c16Tok is one lexical token of a JSON text stream.
type c16Tok struct {
	S, E int  // byte span [S,E)
	K    byte // '[' ']' '{' '}' ',' ':' 's' string, 'n' number, 'l' literal
	Key  bool // string used as an object key
}

// c16Ev is one streaming event ([path, leaf] or [path]) together with the
// token whose completion makes the event known.
type c16Ev struct {
	V   []any
	Tok int
}

// c16Doc is one top-level value of a stream.
type c16Doc struct {
	S, E   int
	V      any  // []any / map[string]any / string / json.Number / bool / nil
	Scalar byte // 'n' or 'l' when the document is a bare number/literal, else 0
	Sorted bool // every object lists its keys in strictly increasing byte order
	Ev0    int  // index of its first event
	Ev1    int  // one past its last event
}

type c16Stream struct {
	Toks []c16Tok
	Evs  []c16Ev
	Docs []c16Doc
	Dup  bool // some object repeats a key
}

type c16P struct {
	b      []byte
	i      int
	st     *c16Stream
	sorted bool
}

var errC16EOF = errors.New("unexpected end of text")

// c16Parse scans a whole multi-document text. On a syntax error it returns
// what was scanned so far and the error.
func c16Parse(b []byte) (*c16Stream, error) {
	p := &c16P{b: b, st: &c16Stream{}}
	for {
		p.ws()
		if p.i >= len(b) {
			return p.st, nil
		}
		s, e0 := p.i, len(p.st.Evs)
		p.sorted = true
		var sc byte
		if c := b[p.i]; c != '[' && c != '{' && c != '"' {
			sc = 'n'
			if c == 't' || c == 'f' || c == 'n' {
				sc = 'l'
			}
		}
		v, err := p.value(nil)
		if err != nil {
			return p.st, fmt.Errorf("offset %d: %v", p.i, err)
		}
		p.st.Docs = append(p.st.Docs, c16Doc{S: s, E: p.i, V: v, Scalar: sc, Sorted: p.sorted, Ev0: e0, Ev1: len(p.st.Evs)})
	}
}

func (p *c16P) ws() {
	for p.i < len(p.b) {
		switch p.b[p.i] {
		case ' ', '\t', '\n', '\r':
			p.i++
		default:
			return
		}
	}
}

func (p *c16P) peek() byte {
	if p.i < len(p.b) {
		return p.b[p.i]
	}
	return 0
}

func (p *c16P) tok(k byte, s, e int, key bool) int {
	p.st.Toks = append(p.st.Toks, c16Tok{S: s, E: e, K: k, Key: key})
	return len(p.st.Toks) - 1
}

func c16Path(path []any, more ...any) []any {
	q := make([]any, 0, len(path)+len(more))
	q = append(q, path...)
	return append(q, more...)
}

func (p *c16P) leaf(path []any, v any, tok int) {
	p.st.Evs = append(p.st.Evs, c16Ev{V: []any{c16Path(path), v}, Tok: tok})
}

func (p *c16P) closing(path []any, tok int) {
	p.st.Evs = append(p.st.Evs, c16Ev{V: []any{c16Path(path)}, Tok: tok})
}

func (p *c16P) value(path []any) (any, error) {
	if p.i >= len(p.b) {
		return nil, errC16EOF
	}
	switch c := p.b[p.i]; {
	case c == '[':
		p.tok('[', p.i, p.i+1, false)
		p.i++
		p.ws()
		if p.peek() == ']' {
			t := p.tok(']', p.i, p.i+1, false)
			p.i++
			p.leaf(path, []any{}, t)
			return []any{}, nil
		}
		arr := []any{}
		for n := 0; ; n++ {
			p.ws()
			v, err := p.value(c16Path(path, n))
			if err != nil {
				return nil, err
			}
			arr = append(arr, v)
			p.ws()
			switch p.peek() {
			case ',':
				p.tok(',', p.i, p.i+1, false)
				p.i++
			case ']':
				t := p.tok(']', p.i, p.i+1, false)
				p.i++
				p.closing(c16Path(path, n), t)
				return arr, nil
			case 0:
				return nil, errC16EOF
			default:
				return nil, fmt.Errorf("expected , or ] but found %q", p.peek())
			}
		}
	case c == '{':
		p.tok('{', p.i, p.i+1, false)
		p.i++
		p.ws()
		if p.peek() == '}' {
			t := p.tok('}', p.i, p.i+1, false)
			p.i++
			p.leaf(path, map[string]any{}, t)
			return map[string]any{}, nil
		}
		obj := map[string]any{}
		last, first := "", true
		for {
			p.ws()
			if p.peek() != '"' {
				if p.i >= len(p.b) {
					return nil, errC16EOF
				}
				return nil, fmt.Errorf("expected an object key but found %q", p.peek())
			}
			s := p.i
			k, err := p.str()
			if err != nil {
				return nil, err
			}
			p.tok('s', s, p.i, true)
			if _, dup := obj[k]; dup {
				p.st.Dup = true
			}
			if !first && !(last < k) {
				p.sorted = false
			}
			last, first = k, false
			p.ws()
			if p.peek() != ':' {
				if p.i >= len(p.b) {
					return nil, errC16EOF
				}
				return nil, fmt.Errorf("expected : but found %q", p.peek())
			}
			p.tok(':', p.i, p.i+1, false)
			p.i++
			p.ws()
			v, err := p.value(c16Path(path, k))
			if err != nil {
				return nil, err
			}
			obj[k] = v
			p.ws()
			switch p.peek() {
			case ',':
				p.tok(',', p.i, p.i+1, false)
				p.i++
			case '}':
				t := p.tok('}', p.i, p.i+1, false)
				p.i++
				p.closing(c16Path(path, k), t)
				return obj, nil
			case 0:
				return nil, errC16EOF
			default:
				return nil, fmt.Errorf("expected , or } but found %q", p.peek())
			}
		}
	case c == '"':
		s := p.i
		v, err := p.str()
		if err != nil {
			return nil, err
		}
		t := p.tok('s', s, p.i, false)
		p.leaf(path, v, t)
		return v, nil
	case c == 't' || c == 'f' || c == 'n':
		for _, lit := range []string{"true", "false", "null"} {
			if strings.HasPrefix(string(p.b[p.i:min(len(p.b), p.i+len(lit))]), lit) {
				t := p.tok('l', p.i, p.i+len(lit), false)
				p.i += len(lit)
				var v any
				switch lit {
				case "true":
					v = true
				case "false":
					v = false
				}
				p.leaf(path, v, t)
				return v, nil
			}
		}
		if len(p.b)-p.i < 5 {
			return nil, errC16EOF
		}
		return nil, fmt.Errorf("bad literal")
	case c == '-' || c >= '0' && c <= '9':
		s := p.i
		for p.i < len(p.b) && strings.IndexByte("+-.eE0123456789", p.b[p.i]) >= 0 {
			p.i++
		}
		txt := string(p.b[s:p.i])
		if !c16ValidNumber(txt) {
			p.i = s
			return nil, fmt.Errorf("bad number %q", txt)
		}
		t := p.tok('n', s, p.i, false)
		v := json.Number(txt)
		p.leaf(path, v, t)
		return v, nil
	}
	return nil, fmt.Errorf("unexpected byte %q", p.b[p.i])
}

// c16ValidNumber implements the JSON number grammar.
func c16ValidNumber(s string) bool {
	i := 0
	if i < len(s) && s[i] == '-' {
		i++
	}
	digits := func() int {
		n := 0
		for i < len(s) && s[i] >= '0' && s[i] <= '9' {
			i++
			n++
		}
		return n
	}
	if i >= len(s) {
		return false
	}
	if s[i] == '0' {
		i++
	} else if digits() == 0 {
		return false
	}
	if i < len(s) && s[i] == '.' {
		i++
		if digits() == 0 {
			return false
		}
	}
	if i < len(s) && (s[i] == 'e' || s[i] == 'E') {
		i++
		if i < len(s) && (s[i] == '+' || s[i] == '-') {
			i++
		}
		if digits() == 0 {
			return false
		}
	}
	return i == len(s)
}

// str scans a JSON string starting at the opening quote and returns its
// decoded value.
func (p *c16P) str() (string, error) {
	p.i++ // opening quote
	var sb strings.Builder
	for {
		if p.i >= len(p.b) {
			return "", errC16EOF
		}
		c := p.b[p.i]
		switch {
		case c == '"':
			p.i++
			return sb.String(), nil
		case c < 0x20:
			return "", fmt.Errorf("control character in string")
		case c == '\\':
			if p.i+1 >= len(p.b) {
				return "", errC16EOF
			}
			e := p.b[p.i+1]
			p.i += 2
			switch e {
			case '"', '\\', '/':
				sb.WriteByte(e)
			case 'b':
				sb.WriteByte('\b')
			case 'f':
				sb.WriteByte('\f')
			case 'n':
				sb.WriteByte('\n')
			case 'r':
				sb.WriteByte('\r')
			case 't':
				sb.WriteByte('\t')
			case 'u':
				r, err := p.hex4()
				if err != nil {
					return "", err
				}
				if utf16.IsSurrogate(r) {
					if p.i+1 < len(p.b) && p.b[p.i] == '\\' && p.b[p.i+1] == 'u' {
						save := p.i
						p.i += 2
						r2, err := p.hex4()
						if err != nil {
							return "", err
						}
						if d := utf16.DecodeRune(r, r2); d != utf8.RuneError {
							sb.WriteRune(d)
							continue
						}
						p.i = save
					}
					r = utf8.RuneError
				}
				sb.WriteRune(r)
			default:
				return "", fmt.Errorf("bad escape \\%c", e)
			}
		default:
			sb.WriteByte(c)
			p.i++
		}
	}
}

func (p *c16P) hex4() (rune, error) {
	if p.i+4 > len(p.b) {
		return 0, errC16EOF
	}
	var r rune
	for _, c := range p.b[p.i : p.i+4] {
		r <<= 4
		switch {
		case c >= '0' && c <= '9':
			r |= rune(c - '0')
		case c >= 'a' && c <= 'f':
			r |= rune(c-'a') + 10
		case c >= 'A' && c <= 'F':
			r |= rune(c-'A') + 10
		default:
			return 0, fmt.Errorf("bad \\u escape")
		}
	}
	p.i += 4
	return r, nil
}

// c16Cut describes what the statement fixes about the prefix b[:c] of a
// well-formed stream under --stream: every event whose token ended at least
// one byte before the cut must be there (required), nothing beyond the events
// whose token lies wholly in the prefix may be there (allowed; a number token
// cut in the middle whose prefix is itself a number counts, with the prefix as
// its value, because the prefix is all the command can see), and unless the
// prefix is itself a complete stream there is exactly one error.
func (st *c16Stream) cut(b []byte, c int) (required int, allowed [][]any, complete bool) {
	depth := 0
	partial := -1
	for i, t := range st.Toks {
		if t.E <= c {
			switch t.K {
			case '[', '{':
				depth++
			case ']', '}':
				depth--
			}
		} else if t.S < c {
			partial = i
		}
	}
	for _, e := range st.Evs {
		t := st.Toks[e.Tok]
		if t.E < c {
			required++
		}
		if t.E <= c {
			allowed = append(allowed, e.V)
		} else if e.Tok == partial && t.K == 'n' && c16ValidNumber(string(b[t.S:c])) {
			allowed = append(allowed, []any{e.V[0], json.Number(string(b[t.S:c]))})
			partial = -2 // counts as a complete number at the end of the text
		}
	}
	complete = depth == 0 && partial < 0
	if complete {
		required = len(allowed)
	}
	return
}

// ---- generators (text level, so that whitespace, escapes, key order and
// number spelling are under the harness' control) ----

type c16G struct{ r *rand.Rand }

var c16Scalars = []string{
	"null", "true", "false", "0", "-1", "7", "42", "123", "-0", "1.5", "-0.25", "1e2", "2.5E-1", "1E+2", "10.50", "3.0",
	"12345678901234567890", "-98765432109876543210",
	`""`, `"a"`, `"ab c"`, `"é"`, `"\u00e9x"`, `"\"q\""`, `"\\"`, `"\n\t"`, `"😀"`, `"\ud83d\ude00!"`, `"{\"a\":1}"`,
	`"\/"`, `"日本"`, `"null"`, `"\u0000"`, `"\u001f"`, `"[1,2]"`, `"a,b"`, `"\b\f\r"`, `"x\u00E9\u65e5"`,
}

var c16Keys = []struct{ T, D string }{
	{`"a"`, "a"}, {`"b"`, "b"}, {`"c"`, "c"}, {`"id"`, "id"}, {`"key"`, "key"}, {`""`, ""}, {`"a b"`, "a b"},
	{`"é"`, "é"}, {`"\u00FC"`, "ü"}, {`"\n"`, "\n"}, {`"😀"`, "😀"}, {`"A"`, "A"}, {`"aa"`, "aa"}, {`"0"`, "0"}, {`"\"k\""`, `"k"`},
}

var c16WS = []string{" ", "\n", "\t", "\r\n", "  ", " \n ", "\r"}

func (g *c16G) ws() string {
	if g.r.IntN(10) < 6 {
		return ""
	}
	return c16WS[g.r.IntN(len(c16WS))]
}

func (g *c16G) ws1() string { return c16WS[g.r.IntN(len(c16WS))] }

func (g *c16G) scalar() string { return c16Scalars[g.r.IntN(len(c16Scalars))] }

// value writes a random value; sorted makes every object list its keys in
// increasing order (so that --stream and tostream agree literally).
func (g *c16G) value(depth int, sorted bool) string {
	n := 12
	if depth <= 0 {
		n = 6
	}
	k := g.r.IntN(n)
	switch {
	case k < 6:
		return g.scalar()
	case k < 9:
		w := g.r.IntN(5)
		var sb strings.Builder
		sb.WriteString("[" + g.ws())
		for i := 0; i < w; i++ {
			if i > 0 {
				sb.WriteString(g.ws() + "," + g.ws())
			}
			sb.WriteString(g.value(depth-1, sorted))
		}
		sb.WriteString(g.ws() + "]")
		return sb.String()
	default:
		w := g.r.IntN(5)
		idx := g.r.Perm(len(c16Keys))[:w]
		if sorted {
			sort.Slice(idx, func(a, b int) bool { return c16Keys[idx[a]].D < c16Keys[idx[b]].D })
		}
		var sb strings.Builder
		sb.WriteString("{" + g.ws())
		for i, ki := range idx {
			if i > 0 {
				sb.WriteString(g.ws() + "," + g.ws())
			}
			sb.WriteString(c16Keys[ki].T + g.ws() + ":" + g.ws() + g.value(depth-1, sorted))
		}
		sb.WriteString(g.ws() + "}")
		return sb.String()
	}
}

// doc is a top-level document, biased towards containers.
func (g *c16G) doc(sorted bool) string {
	for i := 0; ; i++ {
		d := g.value(3+g.r.IntN(2), sorted)
		if i >= 2 || d[0] == '[' || d[0] == '{' || g.r.IntN(3) == 0 {
			return d
		}
	}
}

// idDoc is a document carrying the unique number id.
func (g *c16G) idDoc(id int) string {
	switch g.r.IntN(6) {
	case 0:
		return fmt.Sprint(id)
	case 1:
		return fmt.Sprintf(`"id-%d"`, id)
	case 2:
		return fmt.Sprintf("[%s%d%s,%s%s]", g.ws(), id, g.ws(), g.ws(), g.value(2, false))
	case 3:
		return fmt.Sprintf(`{"v"%s:%s%s,%s"id":%s%d%s}`, g.ws(), g.ws(), g.value(2, false), g.ws(), g.ws(), id, g.ws())
	default:
		return fmt.Sprintf(`{%s"id"%s:%d,"v":%s}`, g.ws(), g.ws(), id, g.value(2, false))
	}
}

func c16SelfDelimited(c byte) bool { return c == '[' || c == ']' || c == '{' || c == '}' || c == '"' }

// join concatenates documents with any legal white space, including none
// where one of the neighbours is delimited by a bracket or a quote.
func (g *c16G) join(docs []string) string {
	var sb strings.Builder
	sb.WriteString(g.ws())
	for i, d := range docs {
		if i > 0 {
			prev := docs[i-1]
			if (c16SelfDelimited(prev[len(prev)-1]) || c16SelfDelimited(d[0])) && g.r.IntN(3) == 0 {
				// no separator
			} else {
				sb.WriteString(g.ws1())
			}
		}
		sb.WriteString(d)
	}
	if len(docs) > 0 {
		sb.WriteString(g.ws())
	}
	return sb.String()
}

// split distributes n items over k consecutive groups (groups may be empty).
func (g *c16G) split(n, k int) []int {
	cuts := make([]int, k+1)
	for i := 1; i < k; i++ {
		cuts[i] = g.r.IntN(n + 1)
	}
	cuts[k] = n
	sort.Ints(cuts)
	return cuts
}
