package mon

import (
	"encoding/json"
	"fmt"
	"math"
	"math/big"
	"strconv"
	"strings"
	"sync"
	"unicode/utf8"

	"verif/harness/internal/model"
	"verif/harness/internal/run"

	"github.com/itchyny/gojq"
)

// ---- C13: documented inverse pairs are exact inverses ----
//
// One case = one law of the statement evaluated through the public library
// API on one input that lies in the law's stated domain. The result is
// compared with the input by the harness' own deep equality (run.Canon text
// equality AND model.Cmp == 0). Generators live in c13_gen.go.

type c13Case struct {
	Law string
	In  run.TV
	Arg *run.TV `json:"Arg,omitempty"` // separator s (split/join) or [p, x] (setpath/getpath)
}

const (
	c13Lo = int64(-62135596800) // 0001-01-01T00:00:00Z
	c13Hi = int64(253402300799) // 9999-12-31T23:59:59Z

	c13Budget = 5000000
)

// law kinds
const (
	c13Identity = iota // program emits exactly one value equal to the input
	c13SetGet          // setpath($p; $x) | getpath($p) == $x
	c13SetGetID        // setpath(p; getpath(p)) == . for every p in paths
	c13Paths           // [paths] == [path(..)] without the root
	c13Leaf            // every tostream event [p, leaf]: getpath(p) == leaf
	c13Derived         // setpath(p; x) | getpath(p) == x for x taken from the value at p itself (its prefixes, suffixes, members)
	c13AllTrue         // the program emits true
)

type c13Law struct {
	name string
	src  string
	vars []string
	kind int
	dom  func(v any) bool
	// numeric: every in-domain input is non-trivial (the input is a number by definition)
	numeric bool
	// viaText: the law prints numbers as text and reads them back
	viaText bool
}

func c13Any(v any) bool { return run.ValidOutput(v) }

func c13IsObject(v any) bool {
	m, ok := v.(map[string]any)
	return ok && m != nil && run.ValidOutput(v)
}

func c13ValidString(v any) bool {
	s, ok := v.(string)
	return ok && utf8.ValidString(s)
}

// c13JSONLiteral reports whether s is a number literal of the JSON grammar.
func c13JSONLiteral(s string) bool {
	i := 0
	if i < len(s) && s[i] == '-' {
		i++
	}
	digits := func() int {
		n := 0
		for i < len(s) && '0' <= s[i] && s[i] <= '9' {
			i++
			n++
		}
		return n
	}
	start := i
	if digits() == 0 || s[start] == '0' && i-start > 1 {
		return false
	}
	if i < len(s) && s[i] == '.' {
		i++
		if digits() == 0 {
			return false
		}
	}
	if i < len(s) && (s[i] == 'e' || s[i] == 'E') {
		i++
		if i < len(s) && (s[i] == '+' || s[i] == '-') {
			i++
		}
		if digits() == 0 {
			return false
		}
	}
	return i == len(s)
}

// c13JSONValue: the value can be written as a JSON text (no NaN / infinite
// float64, every string and key is valid UTF-8).
func c13JSONValue(v any) bool {
	switch v := v.(type) {
	case nil, bool, int:
		return true
	case float64:
		return !math.IsNaN(v) && !math.IsInf(v, 0)
	case *big.Int:
		return v != nil
	case json.Number:
		return c13JSONLiteral(string(v))
	case string:
		return utf8.ValidString(v)
	case []any:
		if v == nil {
			return false
		}
		for _, x := range v {
			if !c13JSONValue(x) {
				return false
			}
		}
		return true
	case map[string]any:
		if v == nil {
			return false
		}
		for k, x := range v {
			if !utf8.ValidString(k) || !c13JSONValue(x) {
				return false
			}
		}
		return true
	}
	return false
}

// c13Finite: a number (any Go representation) whose value is finite in the
// harness' numeric model (a fraction/exponent literal denotes its double).
func c13Finite(v any) bool {
	switch v := v.(type) {
	case int:
		return true
	case *big.Int:
		return v != nil
	case float64:
		return !math.IsNaN(v) && !math.IsInf(v, 0)
	case json.Number:
		if !c13JSONLiteral(string(v)) {
			return false
		}
		if !strings.ContainsAny(string(v), ".eE") {
			return true
		}
		f, err := strconv.ParseFloat(string(v), 64)
		return err == nil && !math.IsInf(f, 0)
	}
	return false
}

// c13WholeSecond: a finite integral number within years 1..9999.
func c13WholeSecond(v any) bool {
	if !c13Finite(v) {
		return false
	}
	return model.CmpNum(v, int(c13Lo)) >= 0 && model.CmpNum(v, int(c13Hi)) <= 0 && c13Integral(v)
}

func c13Integral(v any) bool {
	switch v := v.(type) {
	case int, *big.Int:
		return true
	case float64:
		return v == math.Trunc(v)
	case json.Number:
		if !strings.ContainsAny(string(v), ".eE") {
			return true
		}
		f, err := strconv.ParseFloat(string(v), 64)
		return err == nil && f == math.Trunc(f)
	}
	return false
}

var c13Laws = []*c13Law{
	{name: "fromstream(tostream)", src: "fromstream(tostream)", dom: c13Any},
	{name: "to_entries|from_entries", src: "to_entries | from_entries", dom: c13IsObject},
	{name: "with_entries(.)", src: "with_entries(.)", dom: c13IsObject},
	{name: "explode|implode", src: "explode | implode", dom: c13ValidString},
	{name: "split(s)|join(s)", src: "split($s) | join($s)", vars: []string{"$s"}, dom: c13ValidString},
	{name: "@base64|@base64d", src: "@base64 | @base64d", dom: c13ValidString},
	{name: "@uri|@urid", src: "@uri | @urid", dom: c13ValidString},
	{name: "tojson|fromjson", src: "tojson | fromjson", dom: c13JSONValue, viaText: true},
	{name: "tostring|tonumber", src: "tostring | tonumber", dom: c13Finite, numeric: true, viaText: true},
	{name: "todate|fromdate", src: "todate | fromdate", dom: c13WholeSecond, numeric: true},
	{name: "gmtime|mktime", src: "gmtime | mktime", dom: c13WholeSecond, numeric: true},
	{name: "setpath(p;x)|getpath(p)", src: "setpath($p; $x) | getpath($p)", vars: []string{"$p", "$x"}, kind: c13SetGet, dom: c13Any},
	{name: "setpath(p;part of getpath(p))", src: `. as $in | [paths, []] | map(. as $p | ($in | getpath($p)) as $cur | ($cur | if type == "array" or type == "string" then (range(0; length + 1) as $k | .[:$k], .[$k:]), (select(type == "array") | .[]?) elif type == "object" then .[], del(.[keys[0]]?) else empty end) as $x | [$p, $x, ($in | setpath($p; $x) | getpath($p))])`, kind: c13Derived, dom: c13Any},
	{name: "two setpaths on one base", src: `. as $in | [paths(type == "array"), []] | map(. as $p | ($in | getpath($p)) as $cur | select($cur | type == "array") | ($cur | length) as $n | [($in | [setpath($p + [$n]; "x", "y")] | map(getpath($p + [$n]))), ($in | getpath($p) | length), ([$cur[:1] | setpath([1]; "x", "y")] | map(.[1])), ($cur | .[1:2])]) | map(.[0] == ["x", "y"] and .[2] == ["x", "y"]) | all`, kind: c13AllTrue, dom: c13Any},
	{name: "setpath(p;getpath(p))", src: ". as $in | [paths | . as $p | $in | setpath($p; getpath($p))]", kind: c13SetGetID, dom: c13Any},
	{name: "[paths]==[path(..)]-root", src: "[[paths], [path(..)]]", kind: c13Paths, dom: c13Any},
	{name: "tostream-leaf|getpath", src: "[tostream]", kind: c13Leaf, dom: c13Any},
	{name: "tostream-setpath-replay", src: "reduce (tostream | select(length == 2)) as [$p, $v] (null; setpath($p; $v))", dom: c13Any},
}

var c13LawByName = func() map[string]*c13Law {
	m := map[string]*c13Law{}
	for _, l := range c13Laws {
		m[l.name] = l
	}
	return m
}()

var c13Codes sync.Map // src -> *gojq.Code

func c13Code(src string, vars []string) *gojq.Code {
	if c, ok := c13Codes.Load(src); ok {
		return c.(*gojq.Code)
	}
	res := run.Compile(src, gojq.WithVariables(vars))
	if res.Code == nil {
		panic(fmt.Sprintf("c13: %q does not compile: %v %s", src, res.Err, res.Panic))
	}
	c13Codes.Store(src, res.Code)
	return res.Code
}

// c13Same is the harness' deep equality: canonical text AND the manual's
// order, both exact across number representations.
//
// One documented exception, for numbers only and only for the two laws that
// go through number text (viaText: tostring|tonumber, tojson|fromjson): a float64 (or a fraction /
// exponent literal, which denotes a double) of magnitude >= 2^53 prints with
// the shortest digits that read back as the same double (pinned; C10 demands
// exactly that), and gojq reads an integer literal back as an exact integer
// (its documented difference to jq). The digits "1152921504606847000" of the
// double 2^60 therefore come back as the integer 1152921504606847000, which
// differs from 2^60 exactly but is the same double, prints identically and is
// == under gojq's own comparison. For such an input the result must be a
// number whose nearest double is bit-equal to the input (C10's "parses back
// to the same bits") and that gojq's own Compare reports equal to the input.
// Everything else is compared exactly.
func c13Same(c *run.Ctx, in, out any, viaText bool) bool {
	if !viaText {
		return run.Canon(in) == run.Canon(out) && model.Cmp(in, out) == 0
	}
	switch x := in.(type) {
	case []any:
		y, ok := out.([]any)
		if !ok || len(x) != len(y) {
			return false
		}
		for i := range x {
			if !c13Same(c, x[i], y[i], true) {
				return false
			}
		}
		return true
	case map[string]any:
		y, ok := out.(map[string]any)
		if !ok || len(x) != len(y) {
			return false
		}
		for k, xv := range x {
			yv, ok := y[k]
			if !ok || !c13Same(c, xv, yv, true) {
				return false
			}
		}
		return true
	case float64, json.Number:
		if d, ok := c13BigDouble(x); ok {
			od, ok := c13NearestDouble(out)
			if !ok || od != d || gojq.Compare(in, out) != 0 {
				return false
			}
			if c != nil {
				c.Count("double >= 2^53 compared as a double", 1)
				if !(run.Canon(in) == run.Canon(out) && model.Cmp(in, out) == 0) {
					c.Count("double >= 2^53 whose shortest digits came back as a different exact integer (same double)", 1)
				}
			}
			return true
		}
	}
	return run.Canon(in) == run.Canon(out) && model.Cmp(in, out) == 0
}

// c13BigDouble: v denotes a finite double of magnitude >= 2^53.
func c13BigDouble(v any) (float64, bool) {
	var d float64
	switch v := v.(type) {
	case float64:
		d = v
	case json.Number:
		if !strings.ContainsAny(string(v), ".eE") {
			return 0, false
		}
		f, err := strconv.ParseFloat(string(v), 64)
		if err != nil {
			return 0, false
		}
		d = f
	default:
		return 0, false
	}
	if math.IsNaN(d) || math.IsInf(d, 0) || math.Abs(d) < 1<<53 {
		return 0, false
	}
	return d, true
}

// c13NearestDouble rounds a number in any representation to the nearest double.
func c13NearestDouble(v any) (float64, bool) {
	switch v := v.(type) {
	case int:
		f, _ := new(big.Float).SetInt64(int64(v)).Float64()
		return f, true
	case *big.Int:
		if v == nil {
			return 0, false
		}
		f, _ := new(big.Float).SetInt(v).Float64()
		return f, true
	case float64:
		return v, true
	case json.Number:
		if !strings.ContainsAny(string(v), ".eE") {
			if b, ok := new(big.Int).SetString(string(v), 10); ok {
				f, _ := new(big.Float).SetInt(b).Float64()
				return f, true
			}
		}
		f, err := strconv.ParseFloat(string(v), 64)
		return f, err == nil
	}
	return 0, false
}

func c13Show(v any) string {
	return run.Clip(strictKey(v))
}

// c13Trivial: null, booleans, "", [] and {} are trivial inputs everywhere; a
// number is trivial except where the law is about numbers (numeric laws and
// tojson|fromjson); a non-empty string is trivial for the structural laws
// (streams, paths), which never look inside a scalar. For setpath|getpath the
// case is trivial when the path is empty.
func c13Trivial(l *c13Law, v, arg any) bool {
	if l.kind == c13SetGet {
		px, _ := arg.([]any)
		if len(px) != 2 {
			return true
		}
		p, _ := px[0].([]any)
		return len(p) == 0
	}
	switch v := v.(type) {
	case nil, bool:
		return true
	case int, float64, *big.Int, json.Number:
		return !(l.numeric || l.name == "tojson|fromjson")
	case string:
		if v == "" {
			return true
		}
		switch l.name {
		case "explode|implode", "split(s)|join(s)", "@base64|@base64d", "@uri|@urid", "tojson|fromjson":
			return false
		}
		return true
	case []any:
		return len(v) == 0
	case map[string]any:
		return len(v) == 0
	}
	return true
}

// c13PathDefined is the documented domain of setpath for paths made of
// strings and integers: a string key needs null or an object, an index needs
// null or an array, a negative index must address an existing element;
// missing members read as null.
func c13PathDefined(v any, p []any) bool {
	for _, k := range p {
		switch k := k.(type) {
		case string:
			switch m := v.(type) {
			case nil:
				v = nil
			case map[string]any:
				v = m[k]
			default:
				return false
			}
		case int, float64, *big.Int, json.Number:
			i, ok := c13Index(k)
			if !ok {
				return false
			}
			switch a := v.(type) {
			case nil:
				if i < 0 {
					return false
				}
				v = nil
			case []any:
				if i < 0 {
					i += len(a)
					if i < 0 {
						return false
					}
				}
				if i < len(a) {
					v = a[i]
				} else {
					v = nil
				}
			default:
				return false
			}
		default:
			return false
		}
	}
	return true
}

// c13Index converts a small number in any representation to an index
// (non-negative fractions floor; the generators emit no negative fractions).
func c13Index(k any) (int, bool) {
	switch k := k.(type) {
	case int:
		return k, k > -1<<20 && k < 1<<20
	case *big.Int:
		if k != nil && k.IsInt64() && k.Int64() > -1<<20 && k.Int64() < 1<<20 {
			return int(k.Int64()), true
		}
	case float64:
		if k == k && k > -1<<20 && k < 1<<20 && (k >= 0 || k == math.Trunc(k)) {
			return int(math.Floor(k)), true
		}
	case json.Number:
		f, err := strconv.ParseFloat(string(k), 64)
		if err == nil {
			return c13Index(f)
		}
	}
	return 0, false
}

// c13SimplePath: only strings and numbers (slice objects are path components
// too, but slice assignment is not an inverse of slice reading by design, so
// the law is taken over the key/index paths the manual describes for
// paths/getpath/setpath).
func c13SimplePath(p any) ([]any, bool) {
	ps, ok := p.([]any)
	if !ok {
		return nil, false
	}
	for _, k := range ps {
		switch k.(type) {
		case string, int, float64, *big.Int, json.Number:
		default:
			return nil, false
		}
	}
	return ps, true
}

var kC13 = run.NewKind("c13.law", func(c *run.Ctx, t c13Case) *run.Fail {
	l := c13LawByName[t.Law]
	if l == nil {
		return run.Failf("unknown law %q", t.Law)
	}
	in := t.In.V
	if !l.dom(in) {
		c.Inconclusive("input outside the law's domain")
		return nil
	}
	var arg any
	if t.Arg != nil {
		arg = t.Arg.V
	}
	sig := "c13 " + l.name + " " + run.Clip(run.Canon(in))
	if t.Arg != nil {
		sig += " " + run.Clip(run.Canon(arg))
	}
	fail := func(format string, a ...any) *run.Fail {
		f := run.Failf("law %s on input %s", l.name, c13Show(in))
		if t.Arg != nil {
			f.Detail += " with argument " + c13Show(arg)
		}
		f.Detail += ": " + fmt.Sprintf(format, a...)
		f.Sig = sig
		return f
	}
	var vars []any
	switch l.name {
	case "split(s)|join(s)":
		s, ok := arg.(string)
		if !ok || s == "" || !utf8.ValidString(s) {
			c.Inconclusive("input outside the law's domain")
			return nil
		}
		vars = []any{s}
	case "setpath(p;x)|getpath(p)":
		px, ok := arg.([]any)
		if !ok || len(px) != 2 || !run.ValidOutput(px[1]) {
			c.Inconclusive("input outside the law's domain")
			return nil
		}
		if _, ok := c13SimplePath(px[0]); !ok {
			c.Inconclusive("input outside the law's domain")
			return nil
		}
		vars = []any{run.DeepCopy(px[0]), run.DeepCopy(px[1])}
	}
	key := l.name + "\x00" + strictKey(in)
	if t.Arg != nil {
		key += "\x00" + strictKey(arg)
	}
	c.Count("law "+l.name, 1)
	c.Distinct("laws", l.name)
	c.Distinct("input_go_types", fmt.Sprintf("%s %T", l.name, in))
	if !c13Trivial(l, in, arg) {
		c.Nontrivial(key)
	} else {
		c.Count("trivial_inputs", 1)
	}
	tr := run.RunCode(c13Code(l.src, l.vars), run.DeepCopy(in), vars, c13Budget, 0)
	c.Logf("%s on %s => %s", l.src, c13Show(in), run.TraceDesc(tr))
	switch tr.End {
	case run.EndBudget, run.EndLimit:
		c.Inconclusive("budget")
		return nil
	case run.EndPanic:
		return fail("panic: %s", run.Clip(tr.Panic))
	}
	switch l.kind {
	case c13Identity:
		if tr.End != run.EndOK || len(tr.Vals) != 1 {
			return fail("expected exactly the input back, got %s", run.TraceDesc(tr))
		}
		if !c13Same(c, in, tr.Vals[0], l.viaText) {
			return fail("returned %s", c13Show(tr.Vals[0]))
		}
	case c13SetGet:
		px := arg.([]any)
		p, _ := c13SimplePath(px[0])
		x := px[1]
		defined := c13PathDefined(in, p)
		if tr.End == run.EndError {
			if defined {
				return fail("the path is defined for this input (string keys through null/objects, indices through null/arrays) but the law's left side failed: %v", tr.Err)
			}
			c.Count("setpath_undefined_path (error, nothing demanded)", 1)
			return nil
		}
		if defined {
			c.Count("setpath_defined_path", 1)
		}
		if len(tr.Vals) != 1 {
			return fail("expected one value, got %s", run.TraceDesc(tr))
		}
		if !c13Same(c, x, tr.Vals[0], false) {
			return fail("setpath then getpath returned %s instead of x", c13Show(tr.Vals[0]))
		}
	case c13SetGetID:
		if tr.End != run.EndOK || len(tr.Vals) != 1 {
			return fail("setpath(p; getpath(p)) failed for some p in paths: %s", run.TraceDesc(tr))
		}
		outs, ok := tr.Vals[0].([]any)
		if !ok {
			return fail("unexpected result %s", c13Show(tr.Vals[0]))
		}
		for i, o := range outs {
			if !c13Same(c, in, o, false) {
				return fail("for the %d-th path of `paths`, setpath(p; getpath(p)) returned %s", i, c13Show(o))
			}
		}
		c.Count("paths_round_tripped", int64(len(outs)))
		if len(outs) > 1 {
			c.AddEvals(int64(len(outs) - 1))
		}
	case c13AllTrue:
		if tr.End != run.EndOK || len(tr.Vals) != 1 || tr.Vals[0] != true {
			return fail("two results of setpath on the same array, held together, must each read back what was set (and the array stay as it was): %s", run.TraceDesc(tr))
		}
	case c13Derived:
		if tr.End != run.EndOK || len(tr.Vals) != 1 {
			return fail("setpath(p; part of getpath(p)) failed for some p: %s", run.TraceDesc(tr))
		}
		outs, ok := tr.Vals[0].([]any)
		if !ok {
			return fail("unexpected result %s", c13Show(tr.Vals[0]))
		}
		for _, o := range outs {
			tri, _ := o.([]any)
			if len(tri) != 3 {
				return fail("unexpected result %s", c13Show(o))
			}
			if !c13Same(c, tri[1], tri[2], false) {
				return fail("for p = %s and x = %s (a part of the value at p), setpath(p; x) | getpath(p) returned %s", c13Show(tri[0]), c13Show(tri[1]), c13Show(tri[2]))
			}
		}
		c.Count("derived_values_round_tripped", int64(len(outs)))
		if len(outs) > 1 {
			c.AddEvals(int64(len(outs) - 1))
		}
	case c13Paths:
		if tr.End != run.EndOK || len(tr.Vals) != 1 {
			return fail("expected one value, got %s", run.TraceDesc(tr))
		}
		pair, ok := tr.Vals[0].([]any)
		if !ok || len(pair) != 2 {
			return fail("unexpected result %s", c13Show(tr.Vals[0]))
		}
		a, _ := pair[0].([]any)
		b, _ := pair[1].([]any)
		if len(b) == 0 || run.Canon(b[0]) != "[]" {
			return fail("path(..) does not start with the root path []: %s", c13Show(pair[1]))
		}
		if len(a) != len(b)-1 {
			return fail("[paths] has %d elements, [path(..)] without the root has %d", len(a), len(b)-1)
		}
		for i := range a {
			if !c13Same(c, b[i+1], a[i], false) {
				return fail("[paths][%d] = %s but [path(..)][%d] = %s", i, c13Show(a[i]), i+1, c13Show(b[i+1]))
			}
		}
		c.Count("paths_compared", int64(len(a)))
	case c13Leaf:
		if tr.End != run.EndOK || len(tr.Vals) != 1 {
			return fail("tostream failed: %s", run.TraceDesc(tr))
		}
		evs, _ := tr.Vals[0].([]any)
		get := c13Code("getpath($p)", []string{"$p"})
		n := 0
		for _, e := range evs {
			ev, ok := e.([]any)
			if !ok || len(ev) != 2 {
				continue
			}
			n++
			g := run.RunCode(get, run.DeepCopy(in), []any{run.DeepCopy(ev[0])}, c13Budget, 0)
			if g.End != run.EndOK || len(g.Vals) != 1 {
				return fail("event %s: getpath(p) gave %s", c13Show(e), run.TraceDesc(g))
			}
			if !c13Same(c, ev[1], g.Vals[0], false) {
				return fail("event %s: getpath(p) is %s, not the event's leaf", c13Show(e), c13Show(g.Vals[0]))
			}
		}
		c.Count("leaf_events_checked", int64(n))
		if n > 1 {
			c.AddEvals(int64(n - 1))
		}
	}
	return nil
})

func init() {
	run.Register(&run.Prop{
		ID: "C13", Level: "exploration", MinNontrivial: 5000,
		Rule: "a case is (law, input[, argument]): one of the 16 laws of the statement evaluated by the real library on one input of the law's stated domain (objects for the entry laws, valid-UTF-8 strings for explode/implode, split/join (with a non-empty 1..3 character separator), @base64 and @uri, JSON-expressible values for tojson|fromjson, finite numbers in int/float64/*big.Int/json.Number form for tostring|tonumber, whole seconds from -62135596800 to 253402300799 for the two date laws, any value for the stream/path laws, string/index paths for setpath|getpath); the result must equal the input under run.Canon AND model.Cmp (exact across number representations; sole relaxation, for tostring|tonumber and tojson|fromjson only: an input number that is a double (float64 or fraction/exponent literal) with |x| >= 2^53 must come back as a number whose nearest double is bit-equal to x and that gojq.Compare reports equal - its shortest digits are read back as an exact integer; uses are counted in observed). Inputs: U_types in every number representation, handpicked awkward containers, PRNG-built nested values (empty/multi-byte/escape-needing/number-like keys, strings over every byte class), seconds at both ends of the range, around special instants, at every day boundary of sampled years and uniformly random. Non-trivial = distinct (law, input, argument) whose input is not null/boolean/\"\"/[]/{} and, for the structural laws, not a scalar. Also: a law with x taken from the value at p itself (setpath(p; x) | getpath(p) == x for every prefix and suffix slice and every member), and strings whose byte length lies around fixed buffer and block sizes (62..100001 bytes, one- to four-byte characters) under every string law.",
		Assumptions: []string{
			"run.Canon and model.Cmp (harness-owned) decide equality; a fraction/exponent json.Number denotes its double value",
			"doubles of magnitude >= 2^53 print with the shortest digits that read back as the same double (pinned, C10) and integer literals are read back as exact integers (gojq's documented difference), so for such inputs 'returns its input' through number text means the same double and equality under gojq's own comparison, not the same exact rational (C11 excludes that range for the same reason)",
			"the domain of setpath(p;x)|getpath(p) is taken as paths of strings and integers (slice components excluded: slice assignment is not an inverse of slice reading by design); where the harness' domain model says the path is undefined for the input an error is accepted",
			"invalid UTF-8 strings and NaN/infinite floats are outside the JSON universe; they are used only for the structural laws (streams, paths, setpath), which never look inside a scalar",
		},
		Body: c13Body,
	})
}
