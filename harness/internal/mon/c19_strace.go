package mon

import (
	"bufio"
	"context"
	"encoding/json"
	"fmt"
	"math/rand/v2"
	"os"
	"os/exec"
	"path/filepath"
	"regexp"
	"strings"
	"syscall"
	"time"

	"verif/harness/internal/run"
)

// ---- C19 sub-check 2: syscall monitor ----

type c19StraceCase struct {
	Seed uint64
	N    int
	Mode string // "plain" (no clock/time-zone builtin), "tz" (time-zone builtins mixed in), "control" (planted accesses)
}

const c19TraceSet = "trace=%file,%network,%process,read,pread64,readv,preadv,preadv2"

var (
	c19LineRe    = regexp.MustCompile(`^(\d+)\s+(.*)$`)
	c19ResumedRe = regexp.MustCompile(`^<\.\.\. (\w+) resumed>`)
	c19NameRe    = regexp.MustCompile(`^(\w+)\(`)
	c19PathRe    = regexp.MustCompile(`"((?:[^"\\]|\\.)*)"`)
	c19FdRe      = regexp.MustCompile(`^\w+\((\d+)`)
)

// c19TZPath: files Go's time package may open to initialise time.Local.
func c19TZPath(p string) bool {
	return p == "/etc/localtime" || strings.Contains(p, "zoneinfo") || strings.HasPrefix(p, "/usr/lib/locale/TZ/")
}

type c19Scan struct {
	Window     int      // lines between the sentinels
	Forbidden  []string // offending lines
	TZAccess   int      // allow-listed time-zone file accesses
	Threads    int      // clone/clone3 with CLONE_THREAD
	Preempts   int      // tgkill SIGURG
	FoundBegin bool
	FoundEnd   bool
}

// c19ScanLog applies the deny-by-default policy to the part of an strace log
// between the two sentinel syscalls.
func c19ScanLog(path, begin, end string, allowTZ bool) (c19Scan, error) {
	var sc c19Scan
	f, err := os.Open(path)
	if err != nil {
		return sc, err
	}
	defer f.Close()
	rd := bufio.NewScanner(f)
	rd.Buffer(make([]byte, 1<<20), 1<<24)
	in := false
	// pid -> a call printed as "<unfinished ...>" whose "resumed" line is
	// still to come: it was judged (or began before the window) already
	pending := map[string]bool{}
	for rd.Scan() {
		line := rd.Text()
		m := c19LineRe.FindStringSubmatch(line)
		if m == nil {
			if in {
				sc.Forbidden = append(sc.Forbidden, "unparsable: "+line)
			}
			continue
		}
		pid, rest := m[1], m[2]
		resumed := c19ResumedRe.MatchString(rest)
		unfinished := strings.HasSuffix(rest, "<unfinished ...>")
		if resumed {
			was := pending[pid]
			delete(pending, pid)
			if unfinished {
				pending[pid] = true
			}
			if in && !was {
				sc.Forbidden = append(sc.Forbidden, "resumed without a start: "+line)
			}
			continue
		}
		if unfinished {
			pending[pid] = true
		}
		if !in {
			if strings.Contains(rest, `"`+begin+`"`) {
				in, sc.FoundBegin = true, true
			}
			continue
		}
		if strings.Contains(rest, `"`+end+`"`) {
			sc.FoundEnd = true
			break
		}
		sc.Window++
		switch {
		case strings.HasPrefix(rest, "--- SIGURG"):
			continue // Go's asynchronous preemption signal
		case strings.HasPrefix(rest, "---"), strings.HasPrefix(rest, "+++"):
			sc.Forbidden = append(sc.Forbidden, line)
			continue
		}
		name := ""
		if r := c19NameRe.FindStringSubmatch(rest); r != nil {
			name = r[1]
		}
		switch name {
		case "tgkill":
			if strings.Contains(rest, "SIGURG") {
				sc.Preempts++
				continue
			}
		case "clone", "clone3":
			if strings.Contains(rest, "CLONE_THREAD") {
				sc.Threads++
				continue
			}
		case "exit":
			continue // a thread of the Go scheduler ending
		case "read", "pread64", "readv", "preadv", "preadv2":
			if r := c19FdRe.FindStringSubmatch(rest); r != nil {
				fd := r[1]
				if fd != "0" && fd != "1" && fd != "2" {
					// not an inherited descriptor: either the runtime's
					// eventfd/epoll wake-up or a file opened inside the
					// window (the open itself is judged below)
					continue
				}
			}
		case "open", "openat", "openat2", "stat", "lstat", "newfstatat", "statx", "access", "faccessat", "faccessat2", "readlink", "readlinkat":
			if allowTZ {
				if p := c19PathRe.FindStringSubmatch(rest); p != nil && c19TZPath(p[1]) {
					sc.TZAccess++
					continue
				}
			}
		}
		sc.Forbidden = append(sc.Forbidden, line)
	}
	return sc, rd.Err()
}

var kC19Strace = run.NewKind("c19.strace", func(c *run.Ctx, t c19StraceCase) *run.Fail {
	strace, err := exec.LookPath("strace")
	if err != nil {
		c.Inconclusive("strace-not-installed")
		return nil
	}
	exe, err := os.Executable()
	if err != nil {
		c.Inconclusive("no-executable-path")
		return nil
	}
	root, err := os.MkdirTemp("", "vp-c19-*")
	if err != nil {
		c.Inconclusive("tempdir")
		return nil
	}
	defer os.RemoveAll(root)
	r := rand.New(rand.NewPCG(t.Seed, 0xc19))
	g := newC19Gen(r, false)
	w := c19Workload{Begin: fmt.Sprintf("/VERIF-C19-SENTINEL-BEGIN-%d", t.Seed), End: fmt.Sprintf("/VERIF-C19-SENTINEL-END-%d", t.Seed), Budget: c19AmbBudget}
	tzRan := 0
	for i := 0; i < t.N; i++ {
		if t.Mode == "tz" && i%10 == 3 {
			w.Progs = append(w.Progs, g.tzProg())
			tzRan++
			continue
		}
		w.Progs = append(w.Progs, g.prog())
	}
	st := c19GenState(r, "A")
	for p, content := range st.Files {
		full := filepath.Join(root, p)
		os.MkdirAll(filepath.Dir(full), 0o755)
		os.WriteFile(full, []byte(content), 0o644)
	}
	cwd := filepath.Join(root, st.Dir)
	os.MkdirAll(cwd, 0o755)
	workf, outf, logf, stdinf := filepath.Join(root, "work.json"), filepath.Join(root, "out.json"), filepath.Join(root, "strace.log"), filepath.Join(root, "stdin.json")
	b, _ := json.Marshal(&w)
	if os.WriteFile(workf, b, 0o644) != nil || os.WriteFile(stdinf, []byte(st.Stdin), 0o644) != nil {
		c.Inconclusive("tempfile")
		return nil
	}
	sf, err := os.Open(stdinf)
	if err != nil {
		c.Inconclusive("tempfile")
		return nil
	}
	defer sf.Close()
	ctx, cancel := context.WithTimeout(context.Background(), 600*time.Second)
	defer cancel()
	cmd := exec.CommandContext(ctx, strace, "-f", "-e", c19TraceSet, "-o", logf, exe)
	mode := "run"
	if t.Mode == "control" {
		mode = "control"
	}
	cmd.Env = []string{c19EnvHelper + "=" + mode, c19EnvWork + "=" + workf, c19EnvOut + "=" + outf}
	for _, kv := range st.Env {
		if !strings.HasPrefix(kv, "=") {
			cmd.Env = append(cmd.Env, strings.ReplaceAll(kv, "@ROOT@", root))
		}
	}
	cmd.Dir = cwd
	cmd.Stdin = sf
	// strace and the helper form their own process group, killed as a whole
	cmd.SysProcAttr = &syscall.SysProcAttr{Setpgid: true}
	cmd.Cancel = func() error { return syscall.Kill(-cmd.Process.Pid, syscall.SIGKILL) }
	cmd.WaitDelay = 5 * time.Second
	out, err := cmd.CombinedOutput()
	if ctx.Err() != nil {
		c.Inconclusive("strace-session-timeout")
		return nil
	}
	var res c19HelperResult
	ob, rerr := os.ReadFile(outf)
	if err != nil || rerr != nil || json.Unmarshal(ob, &res) != nil {
		c.Logf("strace/helper failed: %v %v\n%s", err, rerr, run.Clip(string(out)))
		c.Inconclusive("strace-helper-failed")
		return nil
	}
	sc, err := c19ScanLog(logf, w.Begin, w.End, t.Mode == "tz")
	c.Logf("helper: %+v\nscan: window=%d lines, threads=%d, preemptions=%d, tz accesses=%d, forbidden=%d", res, sc.Window, sc.Threads, sc.Preempts, sc.TZAccess, len(sc.Forbidden))
	if err != nil || !sc.FoundBegin || !sc.FoundEnd {
		c.Inconclusive("strace-log-without-sentinels")
		return nil
	}
	if res.Ran != len(w.Progs) {
		c.Inconclusive("strace-helper-incomplete")
		return nil
	}
	if t.Mode == "control" {
		// the planted accesses: /etc/hostname, getcwd's stat calls, .jq, read(0)
		seen := map[string]bool{}
		for _, l := range sc.Forbidden {
			for _, k := range []string{`"/etc/hostname"`, `".jq"`, "read(0,"} {
				if strings.Contains(l, k) {
					seen[k] = true
				}
			}
		}
		if len(seen) != 3 {
			c.Logf("control session saw only %v of the planted accesses", seen)
			c.Inconclusive("strace-control-blind")
			return nil
		}
		c.Count("strace_control_sessions_seeing_all_planted_accesses", 1)
		return nil
	}
	c.AddEvals(int64(res.Ran) - 1)
	c.Count("strace_sessions", 1)
	c.Count("strace_programs", int64(res.Ran))
	c.Count("strace_programs_compiled", int64(res.Compiled))
	c.Count("strace_outputs", int64(res.Outputs))
	c.Count("strace_window_lines", int64(sc.Window))
	c.Count("strace_threads_created_in_window", int64(sc.Threads))
	c.Count("strace_tz_file_accesses_allowed", int64(sc.TZAccess))
	if len(sc.Forbidden) > 0 {
		n := len(sc.Forbidden)
		if n > 8 {
			sc.Forbidden = sc.Forbidden[:8]
		}
		return run.Failf("%d system call(s) of the file/network/process classes between the sentinels while %d option-less programs ran (mode %s):\n%s", n, res.Ran, t.Mode, strings.Join(sc.Forbidden, "\n"))
	}
	if t.Mode == "tz" {
		if sc.TZAccess == 0 {
			// time.Local must have been initialised inside the window
			c.Inconclusive("strace-tz-session-saw-no-zone-file-access")
			return nil
		}
		c.Count("strace_tz_programs", int64(tzRan))
	}
	if res.Compiled > 0 && res.Outputs > 0 {
		c.Nontrivial(fmt.Sprintf("strace %d %s", t.Seed, t.Mode))
	}
	return nil
})

func c19BodyStrace(c *run.Ctx) {
	r := c.Rand("c19.strace")
	n := c.N(2000, 4000)
	// quick: 1 plain + 1 tz session; thorough: 5 sessions of each kind (×5)
	for i := 0; i < c.N(1, 5); i++ {
		kC19Strace.Do(c, c19StraceCase{Seed: r.Uint64() >> 1, N: n, Mode: "plain"})
		kC19Strace.Do(c, c19StraceCase{Seed: r.Uint64() >> 1, N: n, Mode: "tz"})
	}
	kC19Strace.Do(c, c19StraceCase{Seed: r.Uint64() >> 1, N: 50, Mode: "control"})
}
