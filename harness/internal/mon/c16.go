package mon

import (
	"bytes"
	"encoding/json"
	"fmt"
	"io"
	"os"
	"path/filepath"
	"sort"
	"strings"
	"sync/atomic"
	"time"

	"verif/harness/internal/run"
)

// ---- C16: input modes and argument flags mean what their in-language
// equivalents mean. Every observation is a run of the real cmd/gojq; expected
// values come from the bytes the harness generated (own scanner in
// c16_json.go, own line splitter) and/or from a second run of the command
// with the in-language equivalent. ----

// c16File is one file argument; Name "-" is the stdin slot.
type c16File struct{ Name, Data string }

// c16In is where the input bytes are: stdin and/or files in argv order.
type c16In struct {
	Files     []c16File // empty: no file arguments, the command reads stdin
	Stdin     string
	StdinFile bool // stdin is a regular file instead of a pipe
}

// pieces returns the data in the order the command has to consume it.
func (in c16In) pieces() []string {
	if len(in.Files) == 0 {
		return []string{in.Stdin}
	}
	var ps []string
	used := false
	for _, f := range in.Files {
		switch {
		case f.Name != "-":
			ps = append(ps, f.Data)
		case !used:
			ps, used = append(ps, in.Stdin), true
		default:
			ps = append(ps, "")
		}
	}
	return ps
}

// withPiece replaces the i-th piece.
func (in c16In) withPiece(i int, data string) c16In {
	out := c16In{Stdin: in.Stdin, StdinFile: in.StdinFile, Files: append([]c16File(nil), in.Files...)}
	if len(in.Files) == 0 || in.Files[i].Name == "-" {
		out.Stdin = data
		return out
	}
	name := in.Files[i].Name
	for j := range out.Files {
		if out.Files[j].Name == name {
			out.Files[j].Data = data
		}
	}
	return out
}

func (in c16In) names() []string {
	var ns []string
	for _, f := range in.Files {
		ns = append(ns, f.Name)
	}
	return ns
}

type c16Env struct {
	dir string
	c   *run.Ctx
	n   int64
}

func c16NewEnv(c *run.Ctx) (*c16Env, error) {
	dir, err := os.MkdirTemp("", "vp-c16-*")
	if err != nil {
		return nil, err
	}
	return &c16Env{dir: dir, c: c}, nil
}

func (e *c16Env) close() {
	os.RemoveAll(e.dir)
	if e.n > 1 {
		e.c.AddEvals(e.n - 1)
	}
}

func (e *c16Env) write(name, data string) error {
	return os.WriteFile(filepath.Join(e.dir, name), []byte(data), 0o644)
}

// exec runs gojq <args> <file names of in> in the case directory.
func (e *c16Env) exec(in c16In, args ...string) (run.CLIResult, string) {
	for _, f := range in.Files {
		if f.Name != "-" {
			if err := e.write(f.Name, f.Data); err != nil {
				return run.CLIResult{StartErr: err}, ""
			}
		}
	}
	argv := append(append([]string{}, args...), in.names()...)
	o := run.CLIOpt{Args: argv, Dir: e.dir}
	if in.StdinFile {
		if err := e.write("stdin.data", in.Stdin); err != nil {
			return run.CLIResult{StartErr: err}, ""
		}
		o.StdinFile = filepath.Join(e.dir, "stdin.data")
	} else {
		o.Stdin = []byte(in.Stdin)
	}
	desc := fmt.Sprintf("gojq %q", argv)
	// A command that never ends (e.g. `inputs` that never runs dry) is
	// inconclusive, never a wall-clock verdict; after three of them this
	// worker stops starting processes so that a runaway tree cannot occupy
	// the machine for hours. The value checks of the cases already run decide.
	if c16Timeouts.Load() >= 3 {
		return run.CLIResult{TimedOut: true}, desc
	}
	o.Timeout = 20 * time.Second
	e.n++
	e.c.Count("process_runs", 1)
	res := run.CLI(o)
	if res.TimedOut {
		c16Timeouts.Add(1)
	}
	return res, desc
}

var c16Timeouts atomic.Int32

func c16Broken(c *run.Ctx, rs ...run.CLIResult) bool {
	for _, r := range rs {
		if r.TimedOut || r.StartErr != nil {
			c.Inconclusive("cli-timeout-or-start-error")
			return true
		}
	}
	return false
}

// c16Vals decodes stdout as a sequence of JSON values with the standard
// library and returns their canonical texts.
func c16Vals(out []byte) ([]string, error) {
	dec := json.NewDecoder(bytes.NewReader(out))
	dec.UseNumber()
	var vs []string
	for {
		var v any
		if err := dec.Decode(&v); err == io.EOF {
			return vs, nil
		} else if err != nil {
			return vs, fmt.Errorf("stdout is not a sequence of JSON values after %d values: %v", len(vs), err)
		}
		vs = append(vs, run.Canon(v))
	}
}

// c16Errs counts the diagnostics on stderr (every one starts a line with the
// command name; excerpt lines are indented).
func c16Errs(stderr []byte) int {
	n := 0
	for _, l := range strings.Split(string(stderr), "\n") {
		if strings.HasPrefix(l, "gojq: ") {
			n++
		}
	}
	return n
}

func c16Show(r run.CLIResult) string {
	return fmt.Sprintf("status %d, stdout %q, stderr %q", r.Code, run.Clip(string(r.Stdout)), run.Clip(string(r.Stderr)))
}

func c16Canons(vs []any) []string {
	out := make([]string, len(vs))
	for i, v := range vs {
		out[i] = run.Canon(v)
	}
	return out
}

func c16SameList(got, want []string) string {
	for i := 0; i < len(got) && i < len(want); i++ {
		if got[i] != want[i] {
			return fmt.Sprintf("value #%d is %s, expected %s", i, run.Clip(got[i]), run.Clip(want[i]))
		}
	}
	if len(got) != len(want) {
		return fmt.Sprintf("%d values, expected %d (got %s; expected %s)", len(got), len(want), run.Clip(strings.Join(got, " ")), run.Clip(strings.Join(want, " ")))
	}
	return ""
}

// c16Model is the harness' reading of the input bytes.
type c16Model struct {
	Streams []*c16Stream // per piece
	Docs    []string     // canonical documents in consumption order
	Evs     []string     // canonical events in consumption order (document key order)
	Sorted  bool
}

func c16ModelOf(in c16In) (*c16Model, error) {
	m := &c16Model{Sorted: true}
	for i, p := range in.pieces() {
		st, err := c16Parse([]byte(p))
		if err != nil {
			return nil, fmt.Errorf("piece %d: %v", i, err)
		}
		if st.Dup {
			return nil, fmt.Errorf("piece %d: duplicate key", i)
		}
		m.Streams = append(m.Streams, st)
		for _, d := range st.Docs {
			m.Docs = append(m.Docs, run.Canon(d.V))
			m.Sorted = m.Sorted && d.Sorted
		}
		for _, e := range st.Evs {
			m.Evs = append(m.Evs, run.Canon(e.V))
		}
	}
	return m, nil
}

func c16Key(kind string, t any) string {
	b, _ := json.Marshal(t)
	return kind + "\x00" + string(b)
}

// ---------------------------------------------------------------------------
// 1. `-s .` equals `-n [inputs]`

type c16SlurpCase struct {
	In    c16In
	Flags []string // output/stream flags used on both sides
}

const c16SlurpProbe = `[., type, length, (. == []), tojson, del(.[0]), del(.[]), del(.[1:]), (.[0] |= empty), (.[1:] |= .), delpaths([[0]]), delpaths([]), (try setpath([0]; 1) catch "E"), to_entries, add, map(.), (.[0] = 1), (. + [1]), ([] + .), (.[] |= .), [paths], (. - [null]), sort, reverse, unique, (.[:1] = []), first(.[]?, "none"), (. as [$a] | $a), getpath([0]), (.. |= .), tostream, flatten, (.[-1:] | length), index(null), (try implode catch "E"), any, all, min, max, (to_entries | from_entries? // "n"), @json, ([.[]?] == .), (. // "alt"), (if . then 1 else 2 end), (.[0]? // "d"), keys, has(0), (map(select(false)) == .), contains([]), inside([]), (try join(",") catch "E"), transpose?, group_by(.), limit(1; .[]?, 9), (reduce .[] as $x (.; .)), (walk(.) == .)]`

var kC16Slurp = run.NewKind("c16.slurp", func(c *run.Ctx, t c16SlurpCase) *run.Fail {
	m, err := c16ModelOf(t.In)
	if err != nil {
		c.Inconclusive("generator-produced-unscannable-input")
		return nil
	}
	env, err := c16NewEnv(c)
	if err != nil {
		c.Inconclusive("tempdir")
		return nil
	}
	defer env.close()
	a, adesc := env.exec(t.In, append(append([]string{}, t.Flags...), "-s", ".")...)
	b, bdesc := env.exec(t.In, append(append([]string{}, t.Flags...), "-n", "[inputs]")...)
	if c16Broken(c, a, b) {
		return nil
	}
	if a.Code != b.Code || !bytes.Equal(a.Stdout, b.Stdout) {
		return run.Failf("%s: %s\n%s: %s", adesc, c16Show(a), bdesc, c16Show(b))
	}
	want := m.Docs
	stream := false
	for _, f := range t.Flags {
		stream = stream || f == "--stream"
	}
	if stream {
		want = m.Evs
	}
	got, err := c16Vals(a.Stdout)
	if err != nil {
		return run.Failf("%s: %v", adesc, err)
	}
	if len(got) != 1 || got[0] != "["+strings.Join(want, ",")+"]" {
		return run.Failf("%s printed %s, the input holds [%s]", adesc, run.Clip(strings.Join(got, " ")), run.Clip(strings.Join(want, ",")))
	}
	if a.Code != 0 || len(a.Stderr) != 0 || len(b.Stderr) != 0 {
		return run.Failf("%s on well-formed input: %s; %s: %s", adesc, c16Show(a), bdesc, c16Show(b))
	}
	// the slurped array is the same value as [inputs] for every program, not only when printed: a battery of
	// operations that tell representations of an array apart (deletion, update, slicing, comparison, encoding)
	a2, a2desc := env.exec(t.In, append(append([]string{}, t.Flags...), "-s", c16SlurpProbe)...)
	b2, b2desc := env.exec(t.In, append(append([]string{}, t.Flags...), "-n", "[inputs] | "+c16SlurpProbe)...)
	if c16Broken(c, a2, b2) {
		return nil
	}
	if a2.Code != b2.Code || !bytes.Equal(a2.Stdout, b2.Stdout) || !bytes.Equal(a2.Stderr, b2.Stderr) {
		return run.Failf("%s: %s\n%s: %s", a2desc, c16Show(a2), b2desc, c16Show(b2))
	}
	c.Count("slurp_probe_batteries", 1)
	if len(want) > 0 {
		c.Nontrivial(c16Key("slurp", t))
	}
	c.Count("slurp_values", int64(len(want)))
	c.Distinct("sources_layout", fmt.Sprint(t.In.names(), t.In.StdinFile))
	return nil
})

// ---------------------------------------------------------------------------
// 2. input/inputs consume in stream order, each value once; input past the end errs

type c16Seg struct {
	Op string
	K  int
}

type c16InputsCase struct {
	In   c16In
	Segs []c16Seg
}

// c16SegRun gives the query text of a segment and its effect on the
// remaining documents: outputs, documents left, error (input past the end).
func c16SegRun(s c16Seg, rem []string) (src string, out []string, rest []string, fail bool) {
	arr := func(xs []string) string { return "[" + strings.Join(xs, ",") + "]" }
	switch s.Op {
	case "input":
		if len(rem) == 0 {
			return "input", nil, rem, true
		}
		return "input", rem[:1], rem[1:], false
	case "inputs":
		return "inputs", rem, nil, false
	case "all":
		return "[inputs]", []string{arr(rem)}, nil, false
	case "reduce":
		return "reduce inputs as $x ([]; . + [$x])", []string{arr(rem)}, nil, false
	case "count":
		return "([inputs] | length)", []string{fmt.Sprint(len(rem))}, nil, false
	case "foreach":
		for i, d := range rem {
			out = append(out, fmt.Sprintf("[%d,%s]", i+1, d))
		}
		return "foreach inputs as $x (0; . + 1; [., $x])", out, nil, false
	case "range":
		src = fmt.Sprintf("(range(%d) | input)", s.K)
		if s.K > len(rem) {
			return src, rem, nil, true
		}
		return src, rem[:s.K], rem[s.K:], false
	case "limit":
		src = fmt.Sprintf("[limit(%d; inputs)]", s.K)
		k := min(s.K, len(rem))
		return src, []string{arr(rem[:k])}, rem[k:], false
	case "first":
		if len(rem) == 0 {
			return "first(inputs)", nil, rem, false
		}
		return "first(inputs)", rem[:1], rem[1:], false
	case "swap":
		src = "(input as $a | input as $b | [$b, $a])"
		if len(rem) < 2 {
			return src, nil, nil, true
		}
		return src, []string{arr([]string{rem[1], rem[0]})}, rem[2:], false
	case "def":
		src = "(def f: input; [f, f])"
		if len(rem) < 2 {
			return src, nil, nil, true
		}
		return src, []string{arr(rem[:2])}, rem[2:], false
	case "try":
		src = `(try input catch "END")`
		if len(rem) == 0 {
			return src, []string{`"END"`}, rem, false
		}
		return src, rem[:1], rem[1:], false
	case "dot":
		return ".", []string{"null"}, rem, false
	}
	return "empty", nil, rem, false
}

var kC16Inputs = run.NewKind("c16.inputs", func(c *run.Ctx, t c16InputsCase) *run.Fail {
	m, err := c16ModelOf(t.In)
	if err != nil {
		c.Inconclusive("generator-produced-unscannable-input")
		return nil
	}
	seen := map[string]bool{}
	for _, d := range m.Docs {
		if seen[d] {
			c.Inconclusive("documents-not-unique")
			return nil
		}
		seen[d] = true
	}
	var srcs, want []string
	rem, failed := m.Docs, false
	for _, s := range t.Segs {
		src, out, rest, fail := c16SegRun(s, rem)
		srcs = append(srcs, src)
		if failed {
			continue
		}
		want = append(want, out...)
		rem, failed = rest, fail
	}
	query := strings.Join(srcs, ", ")
	env, err := c16NewEnv(c)
	if err != nil {
		c.Inconclusive("tempdir")
		return nil
	}
	defer env.close()
	r, desc := env.exec(t.In, "-n", "-c", query)
	if c16Broken(c, r) {
		return nil
	}
	c.Logf("%s -> %s", desc, c16Show(r))
	got, err := c16Vals(r.Stdout)
	if err != nil {
		return run.Failf("%s: %v", desc, err)
	}
	if d := c16SameList(got, want); d != "" {
		return run.Failf("%s over the documents %s: %s", desc, run.Clip(strings.Join(m.Docs, " ")), d)
	}
	if failed {
		if r.Code != 5 || c16Errs(r.Stderr) != 1 {
			return run.Failf("%s reads past the end of the input (%d documents): expected one error and status 5, got %s", desc, len(m.Docs), c16Show(r))
		}
		c.Count("input_past_end_errors", 1)
	} else if r.Code != 0 || len(r.Stderr) != 0 {
		return run.Failf("%s: expected status 0 and no diagnostics, got %s", desc, c16Show(r))
	}
	if len(m.Docs) > 0 {
		c.Nontrivial(c16Key("inputs", t))
	}
	for _, s := range t.Segs {
		c.Distinct("consumption_ops", s.Op)
	}
	c.Count("documents_consumed", int64(len(m.Docs)-len(rem)))
	c.Distinct("sources_layout", fmt.Sprint(t.In.names(), t.In.StdinFile))
	return nil
})

// ---------------------------------------------------------------------------
// 3. --stream equals tostream up to key order; fromstream rebuilds

type c16StreamCase struct{ In c16In }

func c16Multiset(canon []string) (leaves []string, closing []int) {
	for _, e := range canon {
		var v []any
		if json.Unmarshal([]byte(e), &v) != nil {
			leaves = append(leaves, "?"+e)
			continue
		}
		if len(v) == 2 {
			leaves = append(leaves, e)
		} else if len(v) == 1 {
			p, _ := v[0].([]any)
			closing = append(closing, len(p))
		} else {
			leaves = append(leaves, "?"+e)
		}
	}
	sort.Strings(leaves)
	sort.Ints(closing)
	return
}

var kC16Stream = run.NewKind("c16.stream", func(c *run.Ctx, t c16StreamCase) *run.Fail {
	m, err := c16ModelOf(t.In)
	if err != nil {
		c.Inconclusive("generator-produced-unscannable-input")
		return nil
	}
	env, err := c16NewEnv(c)
	if err != nil {
		c.Inconclusive("tempdir")
		return nil
	}
	defer env.close()
	a, adesc := env.exec(t.In, "-c", "--stream", ".")
	b, bdesc := env.exec(t.In, "-c", "tostream")
	f, fdesc := env.exec(t.In, "-n", "-c", "--stream", "fromstream(inputs)")
	d, ddesc := env.exec(t.In, "-c", ".")
	if c16Broken(c, a, b, f, d) {
		return nil
	}
	for _, x := range []struct {
		r    run.CLIResult
		desc string
	}{{a, adesc}, {b, bdesc}, {f, fdesc}, {d, ddesc}} {
		if x.r.Code != 0 || len(x.r.Stderr) != 0 {
			return run.Failf("%s on well-formed input: %s", x.desc, c16Show(x.r))
		}
	}
	av, err := c16Vals(a.Stdout)
	if err != nil {
		return run.Failf("%s: %v", adesc, err)
	}
	if diff := c16SameList(av, m.Evs); diff != "" {
		return run.Failf("%s: events differ from the documents' events in document key order: %s", adesc, diff)
	}
	bv, err := c16Vals(b.Stdout)
	if err != nil {
		return run.Failf("%s: %v", bdesc, err)
	}
	if m.Sorted {
		if !bytes.Equal(a.Stdout, b.Stdout) {
			return run.Failf("keys are sorted in every document, yet %s and %s differ: %s", adesc, bdesc, c16SameList(av, bv))
		}
		c.Count("stream_literal_comparisons", 1)
	} else {
		al, ac := c16Multiset(av)
		bl, bc := c16Multiset(bv)
		if diff := c16SameList(al, bl); diff != "" {
			return run.Failf("%s and %s differ as multisets of leaf events: %s", adesc, bdesc, diff)
		}
		if fmt.Sprint(ac) != fmt.Sprint(bc) {
			return run.Failf("%s and %s differ in their closing events (path lengths %v vs %v)", adesc, bdesc, ac, bc)
		}
		c.Count("stream_multiset_comparisons", 1)
	}
	fv, err := c16Vals(f.Stdout)
	if err != nil {
		return run.Failf("%s: %v", fdesc, err)
	}
	if diff := c16SameList(fv, m.Docs); diff != "" {
		return run.Failf("%s does not rebuild the documents: %s", fdesc, diff)
	}
	if !bytes.Equal(f.Stdout, d.Stdout) {
		return run.Failf("%s and %s print different text: %q vs %q", fdesc, ddesc, run.Clip(string(f.Stdout)), run.Clip(string(d.Stdout)))
	}
	if len(m.Docs) > 0 {
		c.Nontrivial(c16Key("stream", t))
	}
	c.Count("stream_events", int64(len(m.Evs)))
	c.Count("stream_documents", int64(len(m.Docs)))
	for _, st := range m.Streams {
		for _, e := range st.Evs {
			if p, _ := e.V[0].([]any); true {
				c.Gauge("max_event_path_length", int64(len(p)))
			}
		}
	}
	return nil
})

// ---------------------------------------------------------------------------
// 4. --stream on a document truncated at every byte

type c16CutCase struct {
	Data string
	Via  string // "pipe", "stdinfile", "file"
}

var kC16Cut = run.NewKind("c16.cut", func(c *run.Ctx, t c16CutCase) *run.Fail {
	b := []byte(t.Data)
	st, err := c16Parse(b)
	if err != nil || st.Dup {
		c.Inconclusive("generator-produced-unscannable-input")
		return nil
	}
	env, err := c16NewEnv(c)
	if err != nil {
		c.Inconclusive("tempdir")
		return nil
	}
	defer env.close()
	for cut := 0; cut <= len(b); cut++ {
		var in c16In
		switch t.Via {
		case "file":
			in = c16In{Files: []c16File{{Name: "cut.json", Data: string(b[:cut])}}}
		case "stdinfile":
			in = c16In{Stdin: string(b[:cut]), StdinFile: true}
		default:
			in = c16In{Stdin: string(b[:cut])}
		}
		r, desc := env.exec(in, "-c", "--stream", ".")
		if c16Broken(c, r) {
			return nil
		}
		required, allowedVals, complete := st.cut(b, cut)
		allowed := make([]string, len(allowedVals))
		for i, v := range allowedVals {
			allowed[i] = run.Canon(v)
		}
		where := fmt.Sprintf("%s on the first %d of %d bytes (%q)", desc, cut, len(b), run.Clip(string(b[:cut])))
		got, err := c16Vals(r.Stdout)
		if err != nil {
			return run.Failf("%s: %v", where, err)
		}
		if len(got) > len(allowed) {
			return run.Failf("%s: %d events, but only %d events have their token inside the prefix; extra: %s", where, len(got), len(allowed), run.Clip(strings.Join(got[len(allowed):], " ")))
		}
		if diff := c16SameList(got, allowed[:len(got)]); diff != "" {
			return run.Failf("%s: emitted events are not a prefix of the document's events: %s", where, diff)
		}
		if len(got) < required {
			return run.Failf("%s: %d events, but %d events were complete at least one byte before the cut; missing: %s", where, len(got), required, run.Clip(strings.Join(allowed[len(got):required], " ")))
		}
		if complete {
			if r.Code != 0 || len(r.Stderr) != 0 {
				return run.Failf("%s: the prefix is itself a complete stream, expected status 0 and no diagnostics: %s", where, c16Show(r))
			}
			c.Count("cuts_leaving_complete_stream", 1)
		} else {
			if r.Code != 5 || c16Errs(r.Stderr) != 1 {
				return run.Failf("%s: the prefix ends inside a document, expected exactly one error and status 5: %s", where, c16Show(r))
			}
			c.Count("cuts_inside_document", 1)
			if len(got) > required {
				c.Count("cuts_with_optional_last_event_emitted", 1)
			}
		}
		if cut > 0 {
			c.Nontrivial("cut\x00" + t.Via + "\x00" + string(b[:cut]))
		}
	}
	c.Count("documents_cut_at_every_byte", int64(len(st.Docs)))
	c.Distinct("cut_delivery", t.Via)
	return nil
})

// ---------------------------------------------------------------------------
// 5. -R yields the lines, -Rs the whole text

type c16RawCase struct{ In c16In }

// c16Lines is the harness' own line split: a line ends at "\n"; a final
// piece without "\n" is a line if it is not empty ("\r" is ordinary).
func c16Lines(s string) []string {
	var out []string
	start := 0
	for i := 0; i < len(s); i++ {
		if s[i] == '\n' {
			out = append(out, s[start:i])
			start = i + 1
		}
	}
	if start < len(s) {
		out = append(out, s[start:])
	}
	return out
}

var kC16Raw = run.NewKind("c16.raw", func(c *run.Ctx, t c16RawCase) *run.Fail {
	var lines []any
	var canonLines []string
	var rawOut strings.Builder
	whole := ""
	for _, p := range t.In.pieces() {
		whole += p
		for _, l := range c16Lines(p) {
			lines = append(lines, l)
			canonLines = append(canonLines, run.Canon(l))
			rawOut.WriteString(l + "\n")
		}
	}
	env, err := c16NewEnv(c)
	if err != nil {
		c.Inconclusive("tempdir")
		return nil
	}
	defer env.close()
	type exp struct {
		args []string
		want []string
		raw  *string
	}
	rawLines, rawWhole := rawOut.String(), whole
	exps := []exp{
		{[]string{"-R", "-c", "."}, canonLines, nil},
		{[]string{"-c", "--raw-input", "--slurp", "."}, []string{run.Canon(whole)}, nil},
		{[]string{"-n", "-R", "-c", "[inputs]"}, []string{run.Canon(lines)}, nil},
		{[]string{"-Rr", "."}, nil, &rawLines},
		{[]string{"-Rsj", "."}, nil, &rawWhole},
	}
	if len(lines) == 0 {
		exps[2].want = []string{"[]"}
	}
	for _, x := range exps {
		r, desc := env.exec(t.In, x.args...)
		if c16Broken(c, r) {
			return nil
		}
		if r.Code != 0 || len(r.Stderr) != 0 {
			return run.Failf("%s: %s", desc, c16Show(r))
		}
		if x.raw != nil {
			if string(r.Stdout) != *x.raw {
				return run.Failf("%s printed %q, the text is %q", desc, run.Clip(string(r.Stdout)), run.Clip(*x.raw))
			}
			continue
		}
		got, err := c16Vals(r.Stdout)
		if err != nil {
			return run.Failf("%s: %v", desc, err)
		}
		if diff := c16SameList(got, x.want); diff != "" {
			return run.Failf("%s on text %q: %s", desc, run.Clip(whole), diff)
		}
	}
	if len(lines) > 0 {
		c.Nontrivial(c16Key("raw", t))
	}
	c.Count("raw_lines", int64(len(lines)))
	if whole != "" && !strings.HasSuffix(whole, "\n") {
		c.Count("raw_texts_without_final_newline", 1)
	}
	if strings.Contains(whole, "\r\n") {
		c.Count("raw_texts_with_crlf", 1)
	}
	c.Gauge("raw_longest_line", int64(func() int {
		n := 0
		for _, l := range lines {
			n = max(n, len(l.(string)))
		}
		return n
	}()))
	return nil
})

// ---------------------------------------------------------------------------
// 6. --arg/--argjson/--slurpfile/--rawfile/--args/--jsonargs

type c16Bind struct {
	Kind string // arg, argjson, slurpfile, rawfile
	Name string
	Val  string // the string, the JSON text, or the file name
}

type c16Pos struct {
	JSON bool
	Text string
}

type c16ArgsCase struct {
	Argv    []string  // the command line; the item c16QueryMark stands for the query
	Files   []c16File // files named by --slurpfile/--rawfile
	Named   []c16Bind // in command-line order
	Pos     []c16Pos  // in command-line order
	Variant int       // which query
	Stdin   string    // "null" when -n is not among the flags
}

const c16QueryMark = "@@QUERY@@"

func c16Decode1(text string) (any, error) {
	dec := json.NewDecoder(strings.NewReader(text))
	dec.UseNumber()
	var v any
	err := dec.Decode(&v)
	return v, err
}

var kC16Args = run.NewKind("c16.args", func(c *run.Ctx, t c16ArgsCase) *run.Fail {
	files := map[string]string{}
	for _, f := range t.Files {
		files[f.Name] = f.Data
	}
	// expected bindings: the first binding of a name wins, whatever its kind
	named := map[string]any{}
	var names []string
	for _, b := range t.Named {
		if _, ok := named[b.Name]; ok {
			c.Count("args_shadowed_bindings", 1)
			continue
		}
		var v any
		switch b.Kind {
		case "arg":
			v = b.Val
		case "argjson":
			x, err := c16Decode1(b.Val)
			if err != nil {
				c.Inconclusive("bad-case")
				return nil
			}
			v = x
		case "rawfile":
			v = files[b.Val]
		case "slurpfile":
			st, err := c16Parse([]byte(files[b.Val]))
			if err != nil {
				c.Inconclusive("bad-case")
				return nil
			}
			arr := []any{}
			for _, d := range st.Docs {
				arr = append(arr, d.V)
			}
			v = arr
		}
		named[b.Name] = v
		names = append(names, b.Name)
		c.Distinct("args_binding_kinds", b.Kind)
	}
	positional := []any{}
	for _, p := range t.Pos {
		if !p.JSON {
			positional = append(positional, p.Text)
			continue
		}
		x, err := c16Decode1(p.Text)
		if err != nil {
			c.Inconclusive("bad-case")
			return nil
		}
		positional = append(positional, x)
	}
	sort.Strings(names)
	vars := make([]string, len(names))
	varVals := make([]any, len(names))
	for i, n := range names {
		vars[i] = "$" + n
		varVals[i] = named[n]
	}
	var query string
	var want []string
	switch t.Variant {
	case 1:
		query = "def f: [" + strings.Join(vars, ", ") + "]; $ARGS, f"
		want = []string{run.Canon(map[string]any{"named": named, "positional": positional}), run.Canon(varVals)}
	case 2:
		query = strings.Join(append([]string{"$ARGS.positional[]", "$ARGS.named"}, vars...), ", ")
		want = append(c16Canons(positional), run.Canon(named))
		want = append(want, c16Canons(varVals)...)
	case 3:
		// the bound values behave like the same values written as literals under operations that tell
		// representations apart (only compared with the literal-binding run below)
		query = "[" + strings.Join(append([]string{"$ARGS.positional", "$ARGS.named"}, vars...), ", ") + "] | map([type, (try del(.[0]) catch \"E\"), (try (.[0] |= empty) catch \"E\"), (try delpaths([[0]]) catch \"E\"), (try (. + []) catch \"E\"), " +
			"(try (.[1:] |= .) catch \"E\"), (try to_entries catch \"E\"), (try del(.[]) catch \"E\"), (try (.[] |= .) catch \"E\"), (. == []), (. == {}), length?, (try (.[0] = 1) catch \"E\"), (try setpath([\"a\"]; 1) catch \"E\"), (try ([paths] | length) catch \"E\"), (try del(.nosuchname) catch \"E\"), (try delpaths([[\"nosuchname\"]]) catch \"E\"), (try (.nosuchname |= empty) catch \"E\"), (try del(.nosuchname, .other) catch \"E\"), (try del(.[5]) catch \"E\"), (try with_entries(.) catch \"E\")])" +
			", ($ARGS | del(.named.nosuchname), del(.positional[7]), (.named.nosuchname |= empty), delpaths([[\"named\", \"q\"], [\"positional\", 5]]), del(.named[]), del(.positional[]), (.named |= with_entries(.)), (.positional |= map(.)), del(.named.nosuchname.deeper?))"
	default:
		query = "[" + strings.Join(append([]string{"$ARGS.named", "$ARGS.positional"}, vars...), ", ") + "]"
		want = []string{run.Canon(append([]any{named, positional}, varVals...))}
	}
	argv := make([]string, len(t.Argv))
	for i, a := range t.Argv {
		if a == c16QueryMark {
			a = query
		}
		argv[i] = a
	}
	env, err := c16NewEnv(c)
	if err != nil {
		c.Inconclusive("tempdir")
		return nil
	}
	defer env.close()
	for _, f := range t.Files {
		if err := env.write(f.Name, f.Data); err != nil {
			c.Inconclusive("tempdir")
			return nil
		}
	}
	r, desc := env.exec(c16In{Stdin: t.Stdin}, argv...)
	// in-language equivalent: literal bindings
	var lit strings.Builder
	for i, n := range names {
		fmt.Fprintf(&lit, "%s as $%s | ", run.Canon(varVals[i]), n)
	}
	fmt.Fprintf(&lit, "{named: %s, positional: %s} as $ARGS | (%s)", run.Canon(named), run.Canon(positional), query)
	r2, desc2 := env.exec(c16In{}, "-n", "-c", lit.String())
	if c16Broken(c, r, r2) {
		return nil
	}
	c.Logf("%s -> %s", desc, c16Show(r))
	if r.Code != 0 || len(r.Stderr) != 0 {
		return run.Failf("%s: %s", desc, c16Show(r))
	}
	got, err := c16Vals(r.Stdout)
	if err != nil {
		return run.Failf("%s: %v", desc, err)
	}
	if t.Variant != 3 {
		if diff := c16SameList(got, want); diff != "" {
			return run.Failf("%s: %s", desc, diff)
		}
	}
	// (values, not bytes: a number read by --argjson keeps its spelling, a
	// number literal of the query language does not)
	got2, err := c16Vals(r2.Stdout)
	if r2.Code != 0 || err != nil || c16SameList(got, got2) != "" {
		return run.Failf("%s printed %q but the literal bindings %s give %s", desc, run.Clip(string(r.Stdout)), desc2, c16Show(r2))
	}
	if len(t.Named)+len(t.Pos) > 0 {
		c.Nontrivial(c16Key("args", t))
	}
	c.Count("args_named_bindings", int64(len(t.Named)))
	c.Count("args_positional_values", int64(len(t.Pos)))
	return nil
})

// ---------------------------------------------------------------------------
// 7. -f file equals the file's text

type c16FromFileCase struct {
	Query string
	In    c16In
	Flag  string   // -f or --from-file
	Pre   []string // flags before
	Post  []string // arguments after the input files (e.g. --args a b)
}

var kC16FromFile = run.NewKind("c16.fromfile", func(c *run.Ctx, t c16FromFileCase) *run.Fail {
	env, err := c16NewEnv(c)
	if err != nil {
		c.Inconclusive("tempdir")
		return nil
	}
	defer env.close()
	if err := env.write("prog.jq", t.Query); err != nil {
		c.Inconclusive("tempdir")
		return nil
	}
	build := func(q ...string) []string {
		argv := append(append([]string{}, t.Pre...), q...)
		argv = append(argv, t.In.names()...)
		return append(argv, t.Post...)
	}
	in := c16In{Stdin: t.In.Stdin, StdinFile: t.In.StdinFile}
	for _, f := range t.In.Files {
		if f.Name != "-" {
			if err := env.write(f.Name, f.Data); err != nil {
				c.Inconclusive("tempdir")
				return nil
			}
		}
	}
	a, adesc := env.exec(in, build(t.Flag, "prog.jq")...)
	b, bdesc := env.exec(in, build(t.Query)...)
	if c16Broken(c, a, b) {
		return nil
	}
	c.Logf("%s -> %s", adesc, c16Show(a))
	if a.Code != b.Code || !bytes.Equal(a.Stdout, b.Stdout) || a.Code != 3 && !bytes.Equal(a.Stderr, b.Stderr) {
		return run.Failf("query file holds %q\n%s: %s\n%s: %s", t.Query, adesc, c16Show(a), bdesc, c16Show(b))
	}
	if a.Code == 3 && (len(a.Stdout) != 0 || c16Errs(a.Stderr) != 1 || c16Errs(b.Stderr) != 1) {
		return run.Failf("query %q does not compile: expected one diagnostic and no output on both sides\n%s: %s\n%s: %s", t.Query, adesc, c16Show(a), bdesc, c16Show(b))
	}
	if len(a.Stdout) > 0 {
		c.Nontrivial(c16Key("fromfile", t))
	}
	c.Distinct("fromfile_statuses", fmt.Sprint(a.Code))
	c.Count("fromfile_output_bytes", int64(len(a.Stdout)))
	return nil
})

// ---------------------------------------------------------------------------
// 8. a malformed document: complete values before it, one error, end of input

type c16Fault struct {
	Kind string
	Src  int // piece index
	Off  int // byte offset in the piece
	Del  int // bytes removed at Off
	Ins  string
}

type c16BadCase struct {
	In c16In // well-formed
	F  c16Fault
}

var kC16Bad = run.NewKind("c16.malformed", func(c *run.Ctx, t c16BadCase) *run.Fail {
	m, err := c16ModelOf(t.In)
	if err != nil {
		c.Inconclusive("generator-produced-unscannable-input")
		return nil
	}
	pieces := t.In.pieces()
	if t.F.Src < 0 || t.F.Src >= len(pieces) || t.F.Off < 0 || t.F.Off+t.F.Del > len(pieces[t.F.Src]) {
		c.Inconclusive("bad-case")
		return nil
	}
	var before, later, evAllowed, evLater []string
	evRequired := 0
	for i, st := range m.Streams {
		for _, d := range st.Docs {
			switch {
			case i < t.F.Src || i == t.F.Src && d.E <= t.F.Off:
				if i == t.F.Src && d.E == t.F.Off && d.Scalar != 0 {
					// a bare number/literal touching the fault: whether it
					// is "complete" is not fixed by the statement
					c.Inconclusive("fault-touches-bare-scalar")
					return nil
				}
				before = append(before, run.Canon(d.V))
			case i > t.F.Src:
				later = append(later, run.Canon(d.V))
			}
		}
		for _, e := range st.Evs {
			end := st.Toks[e.Tok].E
			switch {
			case i < t.F.Src || i == t.F.Src && end < t.F.Off:
				evRequired++
				evAllowed = append(evAllowed, run.Canon(e.V))
			case i == t.F.Src && end == t.F.Off:
				evAllowed = append(evAllowed, run.Canon(e.V))
			case i > t.F.Src:
				evLater = append(evLater, run.Canon(e.V))
			}
		}
	}
	p := pieces[t.F.Src]
	bad := t.In.withPiece(t.F.Src, p[:t.F.Off]+t.F.Ins+p[t.F.Off+t.F.Del:])
	if st, err := c16Parse([]byte(bad.pieces()[t.F.Src])); err == nil {
		_ = st
		c.Inconclusive("fault-left-the-text-well-formed")
		return nil
	}
	last := t.F.Src == len(pieces)-1
	env, err := c16NewEnv(c)
	if err != nil {
		c.Inconclusive("tempdir")
		return nil
	}
	defer env.close()
	what := fmt.Sprintf("fault %s at byte %d of piece %d (%q)", t.F.Kind, t.F.Off, t.F.Src, run.Clip(bad.pieces()[t.F.Src]))
	oneError := func(r run.CLIResult, desc string) *run.Fail {
		if r.Code != 5 || c16Errs(r.Stderr) != 1 {
			return run.Failf("%s, %s: expected exactly one error and status 5: %s", what, desc, c16Show(r))
		}
		return nil
	}
	// either nothing after the error, or (malformed piece is not the last
	// one) exactly the later pieces' values: each file is its own stream
	tail := func(got, pre, post []string) string {
		d1 := c16SameList(got, pre)
		if d1 == "" {
			return ""
		}
		if !last && len(post) > 0 && c16SameList(got, append(append([]string{}, pre...), post...)) == "" {
			c.Count("malformed_then_next_file_read", 1)
			return ""
		}
		return d1
	}

	// default mode
	r, desc := env.exec(bad, "-c", ".")
	if c16Broken(c, r) {
		return nil
	}
	c.Logf("%s -> %s", desc, c16Show(r))
	got, err := c16Vals(r.Stdout)
	if err != nil {
		return run.Failf("%s, %s: %v", what, desc, err)
	}
	if d := tail(got, before, later); d != "" {
		return run.Failf("%s, %s: the complete values before the fault are %s: %s; %s", what, desc, run.Clip(strings.Join(before, " ")), d, c16Show(r))
	}
	if f := oneError(r, desc); f != nil {
		return f
	}
	// slurp and its equivalent: no value, one error
	for _, args := range [][]string{{"-s", "-c", "."}, {"-n", "-c", "[inputs]"}} {
		r, desc := env.exec(bad, args...)
		if c16Broken(c, r) {
			return nil
		}
		if len(r.Stdout) != 0 {
			return run.Failf("%s, %s: output although the input is malformed: %s", what, desc, c16Show(r))
		}
		if f := oneError(r, desc); f != nil {
			return f
		}
	}
	// -n inputs: values before, then the error ends the query
	r, desc = env.exec(bad, "-n", "-c", "inputs")
	if c16Broken(c, r) {
		return nil
	}
	if got, err = c16Vals(r.Stdout); err != nil {
		return run.Failf("%s, %s: %v", what, desc, err)
	}
	if d := c16SameList(got, before); d != "" {
		return run.Failf("%s, %s: %s; %s", what, desc, d, c16Show(r))
	}
	if f := oneError(r, desc); f != nil {
		return f
	}
	// -n with every input call guarded: one error, then end of input
	total := len(m.Docs) + 3
	r, desc = env.exec(bad, "-n", "-c", fmt.Sprintf(`range(%d) | try (input | [.]) catch "E"`, total))
	if c16Broken(c, r) {
		return nil
	}
	if got, err = c16Vals(r.Stdout); err != nil {
		return run.Failf("%s, %s: %v", what, desc, err)
	}
	wrap := func(xs []string) (out []string) {
		for _, x := range xs {
			out = append(out, "["+x+"]")
		}
		return
	}
	fill := func(xs []string) []string {
		for len(xs) < total {
			xs = append(xs, `"E"`)
		}
		return xs
	}
	w1 := fill(append(wrap(before), `"E"`))
	w2 := fill(append(append(wrap(before), `"E"`), wrap(later)...))
	if d := c16SameList(got, w1); d != "" && (last || c16SameList(got, w2) != "") {
		return run.Failf("%s, %s: expected the values before the fault, one failing input, then no more input: %s; %s", what, desc, d, c16Show(r))
	}
	if r.Code != 0 || len(r.Stderr) != 0 {
		return run.Failf("%s, %s: every error is caught, expected status 0: %s", what, desc, c16Show(r))
	}
	// --stream: events of the tokens before the fault, one error
	r, desc = env.exec(bad, "-c", "--stream", ".")
	if c16Broken(c, r) {
		return nil
	}
	if got, err = c16Vals(r.Stdout); err != nil {
		return run.Failf("%s, %s: %v", what, desc, err)
	}
	ok := false
	for n := evRequired; n <= len(evAllowed) && !ok; n++ {
		ok = tail(got, evAllowed[:n], evLater) == ""
	}
	if !ok {
		return run.Failf("%s, %s: expected the %d..%d events whose tokens precede the fault (%s): %s; %s", what, desc, evRequired, len(evAllowed),
			run.Clip(strings.Join(evAllowed, " ")), c16SameList(got, evAllowed), c16Show(r))
	}
	if f := oneError(r, desc); f != nil {
		return f
	}
	c.Nontrivial(c16Key("malformed", t))
	c.Distinct("fault_kinds", t.F.Kind)
	c.Count("malformed_values_before_fault", int64(len(before)))
	c.Count("malformed_events_before_fault", int64(evRequired))
	if !last {
		c.Count("malformed_piece_not_last", 1)
	}
	return nil
})

// ---------------------------------------------------------------------------
// generators

// input lays pieces out over stdin and up to three files.
func (g *c16G) input(pieces []string, allowRepeat bool) c16In {
	in := c16In{StdinFile: g.r.IntN(4) == 0}
	n := len(pieces)
	if n == 1 {
		switch g.r.IntN(4) {
		case 0, 1:
			in.Stdin = pieces[0]
			return in
		case 2:
			in.Stdin = pieces[0]
			in.Files = []c16File{{Name: "-"}}
			return in
		}
	}
	// which slot is stdin (n => none, only possible with at most three pieces)
	slot := g.r.IntN(n + 1)
	if n > 3 && slot == n {
		slot = g.r.IntN(n)
	}
	for i, p := range pieces {
		if i == slot {
			in.Stdin = p
			in.Files = append(in.Files, c16File{Name: "-"})
		} else {
			in.Files = append(in.Files, c16File{Name: fmt.Sprintf("f%d.json", i+1), Data: p})
		}
	}
	if slot == n && g.r.IntN(3) == 0 {
		in.Stdin = `{"decoy":"stdin is not named on the command line"}`
	}
	if allowRepeat && len(in.Files) < 4 && g.r.IntN(8) == 0 {
		for _, f := range in.Files {
			if f.Name != "-" {
				in.Files = append(in.Files, f)
				break
			}
		}
	}
	return in
}

func (g *c16G) docsInput(docs []string, allowRepeat bool) c16In {
	k := 1
	if g.r.IntN(3) > 0 {
		k = 1 + g.r.IntN(4)
	}
	cuts := g.split(len(docs), k)
	pieces := make([]string, k)
	for i := range pieces {
		pieces[i] = g.join(docs[cuts[i]:cuts[i+1]])
	}
	return g.input(pieces, allowRepeat)
}

func (g *c16G) docs(n int, sorted bool) []string {
	docs := make([]string, n)
	for i := range docs {
		docs[i] = g.doc(sorted)
	}
	return docs
}

var c16SegOps = []string{"input", "inputs", "all", "reduce", "count", "foreach", "range", "limit", "first", "swap", "def", "try", "dot"}

func (g *c16G) inputsCase() c16InputsCase {
	n := g.r.IntN(9)
	docs := make([]string, n)
	base := 1000 + 100*g.r.IntN(50)
	for i := range docs {
		docs[i] = g.idDoc(base + i)
	}
	t := c16InputsCase{In: g.docsInput(docs, false)}
	for i, k := 0, 1+g.r.IntN(4); i < k; i++ {
		s := c16Seg{Op: c16SegOps[g.r.IntN(len(c16SegOps))]}
		if s.Op == "range" || s.Op == "limit" {
			s.K = g.r.IntN(n + 2)
		}
		t.Segs = append(t.Segs, s)
	}
	return t
}

var c16RawPieces = []string{
	"", "a", "a b", "null", "false", `{"a":1}`, `"quoted"`, `back\slash`, "tab\there", "é", "日本語", "😀", "  lead", "trail  ", "x\r", "\r", "1", "[1,2",
	"\x01ctl\x7f", "nul\x00byte", "a,b,c", "#comment", "-n", "\\n",
}

func (g *c16G) rawText() string {
	var sb strings.Builder
	n := g.r.IntN(8)
	for i := 0; i < n; i++ {
		switch k := g.r.IntN(40); {
		case k == 0:
			sb.WriteString(strings.Repeat("x", 4090+g.r.IntN(12)))
		case k == 1:
			sb.WriteString(strings.Repeat("long é ", 9000+g.r.IntN(2000)))
		default:
			for j, m := 0, 1+g.r.IntN(3); j < m; j++ {
				sb.WriteString(c16RawPieces[g.r.IntN(len(c16RawPieces))])
			}
		}
		if i < n-1 || g.r.IntN(2) == 0 {
			if g.r.IntN(5) == 0 {
				sb.WriteString("\r\n")
			} else {
				sb.WriteString("\n")
			}
		}
	}
	return sb.String()
}

func (g *c16G) rawCase() c16RawCase {
	k := 1
	if g.r.IntN(3) == 0 {
		k = 2 + g.r.IntN(3)
	}
	pieces := make([]string, k)
	for i := range pieces {
		pieces[i] = g.rawText()
		// lines are a per-file notion: keep every piece but the last one
		// newline-terminated so that the whole text has the same lines
		if i < k-1 && pieces[i] != "" && !strings.HasSuffix(pieces[i], "\n") {
			pieces[i] += "\n"
		}
	}
	return c16RawCase{In: g.input(pieces, true)}
}

var c16Names = []string{"a", "b", "c", "foo", "x1", "_u", "Abc", "named", "ARGS0"}
var c16ArgStrings = []string{"", "1", "value 1", `"bar"`, `{"x":1}`, "é😀", "-n", "--arg", "--", "a=b", "$x", ".", "null", "line\nbreak", `back\slash`, "'q'", " spaced "}
var c16ArgJSON = []string{"1", "-1", "0", `"bar"`, `{"x":1}`, "[1, 2]", "null", "true", "1.5", "12345678901234567890", " 3 ", `{"b":[{"c":null}],"a":"é"}`, `"\u00e9"`, "[]", "1e2", "-0.5"}
var c16PosStrings = []string{"", "1", "a", `"bar"`, `{"x":1}`, "with space", "é", "a=b", "$x", ".", "null", "-", "-1", "-0.5", "f1.json", "x--y"}
var c16PosDashed = []string{"-c", "--", "--arg", "-n", "--args", "--jsonargs", "-x", "--stream"}

func (g *c16G) argsCase() c16ArgsCase {
	t := c16ArgsCase{Variant: g.r.IntN(4)}
	// named bindings, names drawn from a small pool so that they collide
	type item struct {
		words []string
		kind  byte // 'n' named group, 'f' flag, 'p' positional flag, 'v' positional value, 'q' query
	}
	var namedItems []item
	for i, n := 0, g.r.IntN(5); i < n; i++ {
		b := c16Bind{Name: c16Names[g.r.IntN(min(len(c16Names), 3+n))]}
		switch g.r.IntN(6) {
		case 0, 1:
			b.Kind, b.Val = "arg", c16ArgStrings[g.r.IntN(len(c16ArgStrings))]
		case 2, 3:
			b.Kind, b.Val = "argjson", c16ArgJSON[g.r.IntN(len(c16ArgJSON))]
		case 4:
			b.Kind, b.Val = "slurpfile", fmt.Sprintf("s%d.json", i)
			t.Files = append(t.Files, c16File{Name: b.Val, Data: g.join(g.docs(g.r.IntN(4), false))})
		default:
			b.Kind, b.Val = "rawfile", fmt.Sprintf("r%d.txt", i)
			txt := g.rawText()
			if len(txt) > 20000 { // the literal-binding run passes it in argv
				txt = "short\ntext"
			}
			t.Files = append(t.Files, c16File{Name: b.Val, Data: txt})
		}
		t.Named = append(t.Named, b)
		namedItems = append(namedItems, item{[]string{"--" + b.Kind, b.Name, b.Val}, 'n'})
	}
	// positional segments
	var posItems []item
	lastJSON := false
	for i, n := 0, g.r.IntN(4); i < n; i++ {
		lastJSON = g.r.IntN(2) == 0
		flag := "--args"
		if lastJSON {
			flag = "--jsonargs"
		}
		posItems = append(posItems, item{[]string{flag}, 'p'})
		for j, m := 0, g.r.IntN(4); j < m; j++ {
			p := c16Pos{JSON: lastJSON}
			if lastJSON {
				p.Text = c16ArgJSON[g.r.IntN(len(c16ArgJSON))]
			} else {
				p.Text = c16PosStrings[g.r.IntN(len(c16PosStrings))]
			}
			t.Pos = append(t.Pos, p)
			posItems = append(posItems, item{[]string{p.Text}, 'v'})
		}
	}
	// the query goes anywhere before the first positional value
	firstVal := len(posItems)
	for i, it := range posItems {
		if it.kind == 'v' {
			firstVal = i
			break
		}
	}
	qAt := g.r.IntN(firstVal + 1)
	if g.r.IntN(2) == 0 {
		qAt = 0
	}
	items := append(append(append([]item{}, posItems[:qAt]...), item{[]string{c16QueryMark}, 'q'}), posItems[qAt:]...)
	// flags and named groups go anywhere
	others := append([]item{{[]string{"-c"}, 'f'}}, namedItems...)
	if g.r.IntN(3) > 0 {
		others = append(others, item{[]string{"-n"}, 'f'})
	} else {
		t.Stdin = "null"
	}
	// the mode in which the main input is read must not change how the named files and values are read
	// (the stdin text "null" is one input value in every mode)
	if g.r.IntN(3) == 0 {
		others = append(others, item{[][]string{{"-R"}, {"--raw-input"}, {"--stream"}, {"-s"}, {"--slurp"}, {"--yaml-input"}, {"-R", "-s"}, {"--stream", "-s"}, {"--yaml-input", "-s"}}[g.r.IntN(9)], 'f'})
	}
	front := g.r.IntN(3) == 0 // conventional layout: all options first
	for _, o := range others {
		at := 0
		if !front {
			at = g.r.IntN(len(items) + 1)
		}
		items = append(items[:at], append([]item{o}, items[at:]...)...)
	}
	// optionally `--`: everything after it is taken literally, so it can
	// only go after the last option; values after it may look like options
	if g.r.IntN(4) == 0 {
		lastOpt := -1
		for i, it := range items {
			if it.kind != 'v' && it.kind != 'q' {
				lastOpt = i
			}
		}
		at := lastOpt + 1 + g.r.IntN(len(items)-lastOpt)
		items = append(items[:at], append([]item{{[]string{"--"}, 'f'}}, items[at:]...)...)
		if len(posItems) > 0 && !lastJSON {
			// the active positional kind is --args: append option-like strings
			for j, m := 0, 1+g.r.IntN(3); j < m; j++ {
				s := c16PosDashed[g.r.IntN(len(c16PosDashed))]
				t.Pos = append(t.Pos, c16Pos{Text: s})
				items = append(items, item{[]string{s}, 'v'})
			}
		}
	}
	// named bindings in command-line order
	t.Named = nil
	for _, it := range items {
		t.Argv = append(t.Argv, it.words...)
		if it.kind == 'n' {
			t.Named = append(t.Named, c16Bind{Kind: it.words[0][2:], Name: it.words[1], Val: it.words[2]})
		}
	}
	return t
}

var c16Queries = []string{
	".", ".a", "[., 1]", ".[]?", "[inputs]", "input_filename", "[input_filename, .]", "def f: . + 1;\nmap(f?)", "# comment\n.\n", ".. | numbers",
	"reduce .[]? as $x (0; . + 1)", "$ARGS", "[$ARGS.positional[]]", `"a\(1 + 1)b"`, `error("x")`, ".a.b.c", "{a: 1} | .a as $x | [$x, .]",
	"first(inputs)", ". as [$a] ?// $a | $a", `"multi
line string"`, ".a\r\n| .b?", "[.[]?] # trailing comment", "input", "length", "tojson", "[limit(2; .[]?)]", "try error catch .", "halt_error", "1, 2, 3",
	"", "   ", "# only a comment", ".a[", "}", "1 +", "$undefined", "nosuchfunction", `"unterminated`, "include \"nosuchmodule\"; .",
}

func (g *c16G) fromFileCase() c16FromFileCase {
	q := c16Queries[g.r.IntN(len(c16Queries))]
	switch g.r.IntN(5) {
	case 0:
		q = q + "\n"
	case 1:
		q = "\n  " + q + "  \n\n"
	case 2:
		q = "\t" + q + "\n# end"
	}
	t := c16FromFileCase{Query: q, Flag: "-f", Pre: []string{"-c"}}
	if g.r.IntN(3) == 0 {
		t.Flag = "--from-file"
	}
	switch g.r.IntN(4) {
	case 0:
		t.Pre = nil
	case 1:
		t.Pre = []string{"-c", "-n"}
	}
	t.In = g.docsInput(g.docs(g.r.IntN(4), false), true)
	if g.r.IntN(4) == 0 {
		// with --args the remaining words are positional values, not files
		t.In = c16In{Stdin: t.In.Stdin}
		t.Post = []string{"--args", "a", "b c"}
		if g.r.IntN(2) == 0 {
			t.Post = []string{"--jsonargs", "1", `{"x":[2]}`}
		}
	}
	return t
}

// fault picks a fault for piece src of a well-formed input; ok=false when
// the piece offers no place for it.
func (g *c16G) fault(piece string, st *c16Stream) (f c16Fault, ok bool) {
	pick := func(pred func(i int, t c16Tok) bool) int {
		var idx []int
		for i, t := range st.Toks {
			if pred(i, t) {
				idx = append(idx, i)
			}
		}
		if len(idx) == 0 {
			return -1
		}
		return idx[g.r.IntN(len(idx))]
	}
	docStart := map[int]bool{}
	for _, d := range st.Docs {
		docStart[d.S] = true
	}
	switch k := g.r.IntN(10); k {
	case 0, 1: // garbage at a token start or at the end
		ins := []string{"@", "'", "#", "+", ".", "x", "\\", "\x00", "tru "}[g.r.IntN(9)]
		at := g.r.IntN(len(st.Toks) + 1)
		off := len(piece)
		if at < len(st.Toks) {
			off = st.Toks[at].S
		}
		return c16Fault{Kind: "garbage " + ins, Off: off, Ins: ins}, true
	case 2: // a separator replaced by a space
		i := pick(func(_ int, t c16Tok) bool { return t.K == ',' || t.K == ':' })
		if i < 0 {
			return f, false
		}
		return c16Fault{Kind: "separator-dropped", Off: st.Toks[i].S, Del: 1, Ins: " "}, true
	case 3: // an extra comma
		i := pick(func(_ int, t c16Tok) bool { return strings.IndexByte(",[{]}", t.K) >= 0 })
		if i < 0 {
			return f, false
		}
		off := st.Toks[i].E
		if st.Toks[i].K == ']' || st.Toks[i].K == '}' {
			off = st.Toks[i].S
		}
		return c16Fault{Kind: "extra-comma", Off: off, Ins: ","}, true
	case 4: // mismatched closing bracket
		i := pick(func(_ int, t c16Tok) bool { return t.K == ']' || t.K == '}' })
		if i < 0 {
			return f, false
		}
		ins := "}"
		if st.Toks[i].K == '}' {
			ins = "]"
		}
		return c16Fault{Kind: "mismatched-close", Off: st.Toks[i].S, Del: 1, Ins: ins}, true
	case 5, 6: // the text ends inside a document
		i := pick(func(_ int, t c16Tok) bool { return !docStart[t.S] || t.K == 's' && t.E-t.S >= 2 || t.K == 'l' })
		if i < 0 {
			return f, false
		}
		off := st.Toks[i].S
		if docStart[off] || (st.Toks[i].K == 's' || st.Toks[i].K == 'l') && g.r.IntN(2) == 0 {
			off = st.Toks[i].S + 1 + g.r.IntN(st.Toks[i].E-st.Toks[i].S-1)
		}
		return c16Fault{Kind: "ends-inside-document", Off: off, Del: len(piece) - off}, true
	case 7: // a raw newline inside a string
		i := pick(func(_ int, t c16Tok) bool { return t.K == 's' })
		if i < 0 {
			return f, false
		}
		return c16Fault{Kind: "newline-in-string", Off: st.Toks[i].S + 1 + g.r.IntN(st.Toks[i].E-st.Toks[i].S-1), Ins: "\n"}, true
	case 8: // unmatched closing bracket between documents
		off := len(piece)
		if len(st.Docs) > 0 && g.r.IntN(2) == 0 {
			off = st.Docs[g.r.IntN(len(st.Docs))].S
		}
		return c16Fault{Kind: "unmatched-close", Off: off, Ins: []string{"]", "}"}[g.r.IntN(2)]}, true
	default: // a literal with its last letter missing
		i := pick(func(_ int, t c16Tok) bool { return t.K == 'l' })
		if i < 0 {
			return f, false
		}
		return c16Fault{Kind: "short-literal", Off: st.Toks[i].E - 1, Del: 1}, true
	}
}

func (g *c16G) badCase() (c16BadCase, bool) {
	in := g.docsInput(g.docs(1+g.r.IntN(5), false), false)
	pieces := in.pieces()
	for try := 0; try < 20; try++ {
		src := g.r.IntN(len(pieces))
		st, err := c16Parse([]byte(pieces[src]))
		if err != nil {
			return c16BadCase{}, false
		}
		f, ok := g.fault(pieces[src], st)
		if !ok {
			continue
		}
		f.Src = src
		// reject a fault that touches a bare top-level number/literal
		touch := false
		for _, d := range st.Docs {
			touch = touch || d.Scalar != 0 && d.E == f.Off
		}
		if touch {
			continue
		}
		p := pieces[src]
		if _, err := c16Parse([]byte(p[:f.Off] + f.Ins + p[f.Off+f.Del:])); err == nil {
			continue // still well-formed (e.g. cut between documents)
		}
		return c16BadCase{In: in, F: f}, true
	}
	return c16BadCase{}, false
}

func init() {
	run.Register(&run.Prop{
		ID: "C16", Level: "fault_enumeration", MinNontrivial: 1000,
		Rule: "every case is a set of runs of the real cmd/gojq on generated bytes (random multi-document JSON text: scalars of every spelling, nested containers, duplicate-free objects in arbitrary key order, any legal white space between tokens and documents including none, spread over stdin (pipe or regular file) and up to three files; raw text with CRLF, missing final newline, lines longer than the read buffer; argument lists with colliding names over all four named-flag kinds and mixed --args/--jsonargs segments, options placed before/after the query and after `--`). Expected values come from the harness' own scanner/event model over the bytes it generated, plus a second run with the in-language equivalent (-s . / -n [inputs]; --stream / tostream / fromstream(inputs); flags / literal `as` bindings; -f file / the text). Fault enumeration: a stream of 1-3 documents is cut at EVERY byte under --stream (pipe, regular-file stdin, file argument): the emitted events must be a prefix of the events whose tokens lie in the prefix, contain every event whose token ended >= 1 byte before the cut, then exactly one error and status 5 - unless the prefix is itself a complete stream (then all events, no error). Malformed documents (10 fault kinds at scanner-known offsets) are run under ., -s ., -n [inputs], -n inputs, guarded input calls and --stream. Non-trivial = distinct (argv, stdin/files) case with at least one document/line/binding (for cuts: every distinct non-empty prefix). Also: c16.manyfiles (90 and 300 input files in 12 input modes under a descriptor limit of 24/32, compared with the run without the limit), c16.argtext (texts of --argjson/--jsonargs that are / are not exactly one JSON value), c16.special (/dev/stdin, a named pipe, a symbolic link and /dev/null among the input files).",
		Assumptions: []string{
			"each file argument is its own JSON text stream (cli/inputs.go filesInputIter): after a malformed document in a file that is not the last one, both 'nothing more' and 'the later files' values' are accepted; in the malformed file itself nothing may follow the error",
			"an event whose token ends exactly at a cut/fault (or a number cut in the middle whose prefix is a number) may or may not be emitted: the statement fixes only the events before the cut",
			"-R: lines are split per file (pinned by cli/test.yaml: final line without newline is a line, CR is kept); generated non-final pieces end with a newline so that per-file and whole-text splitting coincide",
			"first binding of a name wins across --arg/--argjson/--slurpfile/--rawfile (cli/flags.go mapKeys, pinned by test 'arg and argjson options')",
			"diagnostics are counted as stderr lines starting with 'gojq: '; their wording is not compared",
		},
		Body: func(c *run.Ctx) {
			// 0. fixed cases first: input past the end of the input
			for _, segs := range [][]c16Seg{{{Op: "input"}}, {{Op: "try"}, {Op: "input"}}, {{Op: "input"}, {Op: "input"}, {Op: "dot"}}, {{Op: "range", K: 3}}, {{Op: "swap"}}, {{Op: "def"}}, {{Op: "all"}, {Op: "input"}}} {
				for _, in := range []c16In{{Stdin: ""}, {Stdin: "1001"}, {Files: []c16File{{Name: "f1.json", Data: "[1002]"}}}, {Files: []c16File{{Name: "f1.json", Data: " "}, {Name: "-"}}, Stdin: "{\"id\":1003}"}} {
					kC16Inputs.Do(c, c16InputsCase{In: in, Segs: segs})
				}
			}
			// 1. slurp
			g := &c16G{r: c.Rand("c16.slurp")}
			for i := 0; i < c.N(300, 6000); i++ {
				t := c16SlurpCase{In: g.docsInput(g.docs(g.r.IntN(7), g.r.IntN(2) == 0), true)}
				t.Flags = [][]string{{"-c"}, {"-c"}, {}, {"--stream", "-c"}, {"--tab"}, {"-c", "--stream"}}[g.r.IntN(6)]
				kC16Slurp.Do(c, t)
			}
			// 2. input/inputs
			g = &c16G{r: c.Rand("c16.inputs")}
			for i := 0; i < c.N(700, 14000); i++ {
				kC16Inputs.Do(c, g.inputsCase())
			}
			// 3. --stream vs tostream / fromstream
			g = &c16G{r: c.Rand("c16.stream")}
			for i := 0; i < c.N(250, 5000); i++ {
				kC16Stream.Do(c, c16StreamCase{In: g.docsInput(g.docs(1+g.r.IntN(5), i%2 == 0), false)})
			}
			for _, data := range c16CutShapes {
				kC16Stream.Do(c, c16StreamCase{In: c16In{Stdin: data}})
			}
			// 4. every byte cut
			g = &c16G{r: c.Rand("c16.cut")}
			for i := 0; i < c.N(40, 1500); i++ {
				var data string
				for {
					data = g.join(g.docs([]int{1, 1, 1, 2, 2, 3}[g.r.IntN(6)], false))
					if n := len(data); n >= 8 && n <= 160 {
						break
					}
				}
				kC16Cut.Do(c, c16CutCase{Data: data, Via: []string{"pipe", "stdinfile", "file"}[i%3]})
			}
			// hand-picked shapes named in the statement's rationale
			for i, data := range c16CutShapes {
				kC16Cut.Do(c, c16CutCase{Data: data, Via: []string{"pipe", "stdinfile", "file"}[i%3]})
			}
			// 5. raw input
			g = &c16G{r: c.Rand("c16.raw")}
			for i := 0; i < c.N(120, 2400); i++ {
				kC16Raw.Do(c, g.rawCase())
			}
			// 6. argument flags
			g = &c16G{r: c.Rand("c16.args")}
			for i := 0; i < c.N(400, 8000); i++ {
				kC16Args.Do(c, g.argsCase())
			}
			// 7. -f
			g = &c16G{r: c.Rand("c16.fromfile")}
			for i := 0; i < c.N(150, 3000); i++ {
				kC16FromFile.Do(c, g.fromFileCase())
			}
			// 10. texts of --argjson / --jsonargs that are (not) exactly one JSON value
			for _, t := range c16ArgTextCases() {
				kC16ArgText.Do(c, t)
			}
			// 11. input files that are not regular files
			for _, t := range c16SpecialCases() {
				kC16Special.Do(c, t)
			}
			// 12. files whose reported size says nothing about their content
			for _, m := range []string{"Rs", "Rs-between", "Rs-stdin", "nRs-input", "R", "R-between", "rawfile", "Rs-length"} {
				kC16Proc.Do(c, c16ProcCase{Mode: m})
			}
			// 9. more files than descriptors
			for _, t := range c16ManyCases(c.Quick()) {
				kC16Many.Do(c, t)
			}
			// 8. malformed documents
			g = &c16G{r: c.Rand("c16.malformed")}
			for i := 0; i < c.N(200, 4000); i++ {
				if t, ok := g.badCase(); ok {
					kC16Bad.Do(c, t)
				}
			}
		},
	})
}

// c16CutShapes are the document shapes the property's rationale names: top-level
// scalars, empty containers, siblings after nested closes.
var c16CutShapes = []string{
	`123`, `-1.5e+10 `, `"a\u00e9\ud83d\ude00b"`, `true false null`, `[]`, `{}`, `[[]]`, `[{}]`, `{"a":[]}`, `{"a":{}}`,
	`[[1],2]`, `[[[1]],[2],3]`, `{"a":{"b":1},"c":2}`, `{"a":[1,{"b":[2]}],"c":[3]}`, `[1,[2,[3,[4]]],5]`, `[{"a":1},{"b":2}]`,
	`{"x":[1,{"y":[2]},3],"z":[4]}`, `[1][2]{"a":3}"s"4`, ` [ 1 , 2 ] `, "{\"a\"\n:\n[\n]\n}", `[null,true,false,"",0]`, `{"":{"":{"":[]}}}`,
	`[[],[],{}]`, `{"a":[],"b":{},"c":[[]]}`, `12 34`, `"a""b"`, `[1,2,{"x":{"y":[3,[{}],{"z":{}}]}}]`,
}
