package mon

import (
	"errors"
	"fmt"

	"verif/harness/internal/model"
	"verif/harness/internal/run"

	"github.com/itchyny/gojq"
)

// matchVal compares a model value with a gojq value; an Opaque token (caught
// internal error message) matches any string.
func matchVal(mv, gv any) bool {
	switch x := mv.(type) {
	case model.Opaque:
		_, ok := gv.(string)
		return ok
	case []any:
		y, ok := gv.([]any)
		if !ok || len(x) != len(y) {
			return false
		}
		for i := range x {
			if !matchVal(x[i], y[i]) {
				return false
			}
		}
		return true
	case map[string]any:
		y, ok := gv.(map[string]any)
		if !ok || len(x) != len(y) {
			return false
		}
		for k, v := range x {
			w, ok := y[k]
			if !ok || !matchVal(v, w) {
				return false
			}
		}
		return true
	}
	return run.Canon(mv) == run.Canon(gv)
}

func canonM(v any) string {
	if model.ContainsOpaque(v) {
		return fmt.Sprintf("%v(opaque)", stripOpaque(v))
	}
	return run.Canon(v)
}

func stripOpaque(v any) any {
	switch x := v.(type) {
	case model.Opaque:
		return "<caught internal error text>"
	case []any:
		out := make([]any, len(x))
		for i, e := range x {
			out[i] = stripOpaque(e)
		}
		return out
	case map[string]any:
		out := map[string]any{}
		for k, e := range x {
			out[k] = stripOpaque(e)
		}
		return out
	}
	return v
}

// modelDesc renders a model result.
func modelDesc(r model.Result) string {
	s := ""
	for i, v := range r.Vals {
		if i >= 12 {
			s += fmt.Sprintf("… (%d values)", len(r.Vals))
			break
		}
		s += run.Clip(canonM(v)) + " ; "
	}
	switch e := r.Err.(type) {
	case nil:
		s += "end"
	case *model.UserErr:
		s += "error[user] " + run.Clip(canonM(e.V))
	case *model.InternalErr:
		s += "error[internal] " + e.Msg
	case *model.HaltErr:
		s += fmt.Sprintf("halt(%d) %s", e.Code, run.Clip(canonM(e.V)))
	default:
		s += "error " + r.Err.Error()
	}
	return s
}

// cmpModel compares the gojq trace with the model result. It returns
// (difference, inconclusiveReason); both empty = agreement.
func cmpModel(tr run.Trace, r model.Result) (string, string) {
	switch e := r.Err.(type) {
	case *model.Unsupported:
		return "", "unsupported: " + e.What
	case *model.BudgetErr:
		return "", "model-budget"
	}
	if _, ok := r.Err.(interface{ Error() string }); ok && r.Err.Error() == "output limit" {
		// model stopped at the output limit: compare the prefix only
		if tr.End == run.EndPanic {
			return "gojq panicked: " + tr.Panic, ""
		}
		n := min(len(tr.Vals), len(r.Vals))
		for i := 0; i < n; i++ {
			if !matchVal(r.Vals[i], tr.Vals[i]) {
				return fmt.Sprintf("output #%d: gojq %s, model %s", i, run.Clip(run.Canon(tr.Vals[i])), run.Clip(canonM(r.Vals[i]))), ""
			}
		}
		return "", "output-limit"
	}
	if tr.End == run.EndPanic {
		return "gojq panicked: " + tr.Panic, ""
	}
	n := min(len(tr.Vals), len(r.Vals))
	for i := 0; i < n; i++ {
		if !matchVal(r.Vals[i], tr.Vals[i]) {
			return fmt.Sprintf("output #%d: gojq %s, model %s", i, run.Clip(run.Canon(tr.Vals[i])), run.Clip(canonM(r.Vals[i]))), ""
		}
	}
	if tr.End == run.EndBudget || tr.End == run.EndLimit {
		if len(tr.Vals) > len(r.Vals) {
			return fmt.Sprintf("gojq emitted %d values before its budget, the model only %d in total", len(tr.Vals), len(r.Vals)), ""
		}
		return "", "gojq-budget"
	}
	if len(tr.Vals) != len(r.Vals) {
		return fmt.Sprintf("gojq emitted %d values (%s), model %d (%s)", len(tr.Vals), run.TraceDesc(tr), len(r.Vals), modelDesc(r)), ""
	}
	switch e := r.Err.(type) {
	case nil:
		if tr.End != run.EndOK {
			return fmt.Sprintf("gojq ends with %s, model ends normally", run.TraceDesc(tr)), ""
		}
	case *model.UserErr:
		if tr.End != run.EndError || run.ErrClass(tr.Err) != "user" {
			return fmt.Sprintf("gojq: %s; model raises user error %s", run.TraceDesc(tr), run.Clip(canonM(e.V))), ""
		}
		if !matchVal(e.V, run.ErrValue(tr.Err)) {
			return fmt.Sprintf("user error value: gojq %s, model %s", run.Clip(run.Canon(run.ErrValue(tr.Err))), run.Clip(canonM(e.V))), ""
		}
	case *model.InternalErr:
		if tr.End != run.EndError || run.ErrClass(tr.Err) != "internal" {
			return fmt.Sprintf("gojq: %s; model raises an internal error (%s)", run.TraceDesc(tr), e.Msg), ""
		}
	case *model.HaltErr:
		var h *gojq.HaltError
		if tr.End != run.EndError || !errors.As(tr.Err, &h) {
			return fmt.Sprintf("gojq: %s; model halts", run.TraceDesc(tr)), ""
		}
		if h.ExitCode() != e.Code || !matchVal(e.V, h.Value()) {
			return fmt.Sprintf("halt: gojq code %d value %s; model code %d value %s", h.ExitCode(), run.Canon(h.Value()), e.Code, canonM(e.V)), ""
		}
	default:
		return fmt.Sprintf("model ended with unexpected %T %v", r.Err, r.Err), ""
	}
	return "", ""
}

// CmpModel and MatchVal are exported for the calibration command.
func CmpModel(tr run.Trace, r model.Result) (string, string) { return cmpModel(tr, r) }

// MatchVal is matchVal.
func MatchVal(mv, gv any) bool { return matchVal(mv, gv) }
