package mon

import (
	"fmt"
	"math"

	"verif/harness/internal/run"
)

// c03.dates: gmtime, todate and strftime of a number of seconds since 1970-01-01T00:00:00Z (any sign, with or without
// a fraction, years 1..9999) are the broken-down time of the proleptic Gregorian calendar, computed here from the
// day number by the era arithmetic of civil-from-days, not by package time: [year, month-1, day, hour, minute,
// seconds + fraction, weekday, day of year - 1]; an instant before the epoch lies in 1969, whatever its fraction.

type c03Date struct {
	Epoch run.TV
}

func c03Civil(days int64) (y, m, d int64) {
	z := days + 719468
	era := z / 146097
	if z < 0 {
		era = (z - 146096) / 146097
	}
	doe := z - era*146097
	yoe := (doe - doe/1460 + doe/36524 - doe/146096) / 365
	y = yoe + era*400
	doy := doe - (365*yoe + yoe/4 - yoe/100)
	mp := (5*doy + 2) / 153
	d = doy - (153*mp+2)/5 + 1
	m = mp + 3
	if m > 12 {
		m -= 12
	}
	if m <= 2 {
		y++
	}
	return
}

func c03DaysFromCivil(y, m, d int64) int64 {
	if m <= 2 {
		y--
	}
	era := y / 400
	if y < 0 {
		era = (y - 399) / 400
	}
	yoe := y - era*400
	mp := m + 9
	if m > 2 {
		mp = m - 3
	}
	doy := (153*mp+2)/5 + d - 1
	doe := yoe*365 + yoe/4 - yoe/100 + doy
	return era*146097 + doe - 719468
}

var kC03Dates = run.NewKind("c03.dates", func(c *run.Ctx, t c03Date) *run.Fail {
	var e float64
	switch x := t.Epoch.V.(type) {
	case int:
		e = float64(x)
	case float64:
		e = x
	default:
		return run.Failf("bad case: epoch %T", t.Epoch.V)
	}
	res := run.Compile(`[gmtime, todate, strftime("%Y-%m-%dT%H:%M:%SZ %j %u"), (gmtime | todate), (gmtime | mktime), (gmtime | strftime("%d.%m.%Y %H-%M-%S"))]`)
	if res.Code == nil {
		return run.Failf("does not compile: %v", res.Err)
	}
	tr := run.RunCode(res.Code, t.Epoch.V, nil, 100000, 0)
	if tr.End != run.EndOK || len(tr.Vals) != 1 {
		return run.Failf("date functions on %s: %s", run.Canon(t.Epoch.V), run.TraceDesc(tr))
	}
	got, _ := tr.Vals[0].([]any)
	if len(got) != 6 {
		return run.Failf("date functions on %s: %s", run.Canon(t.Epoch.V), run.TraceDesc(tr))
	}
	whole := math.Floor(e)
	frac := e - whole
	secs := int64(whole)
	days := secs / 86400
	if secs%86400 < 0 {
		days--
	}
	sod := secs - days*86400
	y, m, d := c03Civil(days)
	hh, mm, ss := sod/3600, sod%3600/60, sod%60
	wday := ((days+4)%7 + 7) % 7
	yday := days - c03DaysFromCivil(y, 1, 1)
	// gmtime
	bt, _ := got[0].([]any)
	if len(bt) != 8 {
		return run.Failf("%s | gmtime gave %s", run.Canon(t.Epoch.V), run.Canon(got[0]))
	}
	num := func(v any) (float64, bool) {
		switch x := v.(type) {
		case int:
			return float64(x), true
		case float64:
			return x, true
		}
		return 0, false
	}
	want := []float64{float64(y), float64(m - 1), float64(d), float64(hh), float64(mm), float64(ss) + frac, float64(wday), float64(yday)}
	for i, w := range want {
		g, ok := num(bt[i])
		tol := 0.0
		if i == 5 {
			tol = 1e-6
		}
		if !ok || math.Abs(g-w) > tol {
			return run.Failf("%s | gmtime gave %s; the instant is %04d-%02d-%02dT%02d:%02d:%02d plus %v s, weekday %d, day of year %d: field %d should be %v", run.Canon(t.Epoch.V), run.Canon(got[0]), y, m, d, hh, mm, ss, frac, wday, yday+1, i, w)
		}
	}
	iso := fmt.Sprintf("%04d-%02d-%02dT%02d:%02d:%02dZ", y, m, d, hh, mm, ss)
	u := wday
	if u == 0 {
		u = 7
	}
	if got[1] != any(iso) || got[3] != any(iso) {
		return run.Failf("%s | todate gave %s, gmtime | todate gave %s; the instant is %s", run.Canon(t.Epoch.V), run.Canon(got[1]), run.Canon(got[3]), iso)
	}
	if w := fmt.Sprintf("%s %03d %d", iso, yday+1, u); got[2] != any(w) {
		return run.Failf("%s | strftime(\"%%Y-%%m-%%dT%%H:%%M:%%SZ %%j %%u\") gave %s, expected %q", run.Canon(t.Epoch.V), run.Canon(got[2]), w)
	}
	if w := fmt.Sprintf("%02d.%02d.%04d %02d-%02d-%02d", d, m, y, hh, mm, ss); got[5] != any(w) {
		return run.Failf("%s | gmtime | strftime(\"%%d.%%m.%%Y %%H-%%M-%%S\") gave %s, expected %q", run.Canon(t.Epoch.V), run.Canon(got[5]), w)
	}
	// back to seconds: the whole second the instant lies in (mktime of a broken-down time with a fraction may keep it)
	if g, ok := num(got[4]); !ok || (g != whole && math.Abs(g-e) > 1e-6) {
		return run.Failf("%s | gmtime | mktime gave %s, expected %v (or the instant itself)", run.Canon(t.Epoch.V), run.Canon(got[4]), whole)
	}
	c.Nontrivial(run.Canon(t.Epoch.V))
	return nil
})

func c03DateCases(c *run.Ctx) []c03Date {
	var out []c03Date
	add := func(e float64) {
		if e < -62135596800 || e >= 253402300800 {
			return
		}
		if e == math.Trunc(e) {
			out = append(out, c03Date{Epoch: run.TV{V: int(e)}})
		}
		out = append(out, c03Date{Epoch: run.TV{V: e}})
	}
	fracs := []float64{0, 0.5, 0.25, 0.75, 0.125, 0.999, 0.001}
	bases := []float64{0, 1, -1, 2, -2, 59, 60, -60, 3599, 3600, -3600, 86399, 86400, -86400, -86401, 86401, 951782400, 951868800, 68169600, 94694400, -2203891200, -2208988800, 4107542400, 1e9, 2e9, -1e9, 1234567890, 2147483647, 2147483648, -2147483648, -2147483649, 4294967296,
		-62135596800, -62135510400, 253402300799, 253402214400, 1709164800, 1709251199, 1709251200, 1704067199, 1704067200, 1735689599, -11644473600, -12219292800}
	for _, b := range bases {
		for _, f := range fracs {
			add(b + f)
			add(b - f)
		}
	}
	r := c.Rand("c03.dates")
	for i, n := 0, c.N(400, 20000); i < n; i++ {
		b := math.Floor((r.Float64() - 0.45) * 4e9)
		if r.IntN(4) == 0 {
			b = math.Floor(-62135596800 + r.Float64()*(253402300799+62135596800))
		}
		switch r.IntN(3) {
		case 0:
			add(b)
		case 1:
			add(b + fracs[r.IntN(len(fracs))])
		default:
			add(b + math.Floor(r.Float64()*1000)/1000)
		}
	}
	return out
}
