package mon

import (
	"bytes"
	"encoding/json"
	"fmt"
	"regexp"
	"strings"
	"unicode/utf8"

	"verif/harness/internal/run"
)

// c12.yamlin: values that enter the command as YAML text. YAML spells numbers more liberally than JSON (+1, 1., .5,
// 1.e3, 007.5, 1_000); whatever the decoder hands to the interpreter, what the command prints must be JSON in every mode
// and must denote the number the YAML text denotes.

type c12YAMLInCase struct {
	Spell []string  `json:"spell"`
	Pos   int       `json:"pos"`
	Modes []c12Mode `json:"modes"`
}

var (
	c12reYInt   = regexp.MustCompile(`^[-+]?[0-9]+$`)
	c12reYFloat = regexp.MustCompile(`^[-+]?(\.[0-9]+|[0-9]+(\.[0-9]*)?)([eE][-+]?[0-9]+)?$`)
)

// c12YAMLNum returns the JSON spelling of the number a plain YAML scalar denotes under the core schema, or ok=false when
// the scalar is not a decimal number or its reading differs between YAML versions (integers with leading zeros).
func c12YAMLNum(s string) (string, bool) {
	if c12reYInt.MatchString(s) {
		d := strings.TrimLeft(s, "+-")
		if len(d) > 1 && d[0] == '0' {
			return "", false
		}
	} else if !c12reYFloat.MatchString(s) {
		return "", false
	}
	neg := strings.HasPrefix(s, "-")
	s = strings.TrimLeft(s, "+-")
	mant, exp := s, ""
	if i := strings.IndexAny(s, "eE"); i >= 0 {
		mant, exp = s[:i], s[i:]
		if len(strings.TrimLeft(exp[1:], "+-0")) > 2 {
			return "", false // beyond float64: saturation is allowed, no exact expectation
		}
	}
	ip, frac, _ := strings.Cut(mant, ".")
	ip = strings.TrimLeft(ip, "0")
	if ip == "" {
		ip = "0"
	}
	if frac != "" {
		ip += "." + frac
	}
	if neg {
		ip = "-" + ip
	}
	return ip + exp, true
}

// c12YAMLDoc lays the scalars out at position class pos and returns the text and, per document, the expected value
// (nil element = no expectation, validity only).
func c12YAMLDoc(spell []string, pos int) (string, []any, bool) {
	want := make([]any, len(spell))
	all := true
	for i, s := range spell {
		if j, ok := c12YAMLNum(s); ok {
			want[i] = json.Number(j)
		} else {
			all = false
		}
	}
	var sb strings.Builder
	switch pos {
	case 0: // one document per scalar
		for _, s := range spell {
			sb.WriteString("--- " + s + "\n")
		}
		if !all {
			for i := range want {
				if _, ok := want[i].(json.Number); !ok {
					want[i] = nil
				}
			}
		}
		return sb.String(), want, true
	case 1:
		for _, s := range spell {
			sb.WriteString("- " + s + "\n")
		}
		return sb.String(), []any{want}, all
	case 2:
		m := map[string]any{}
		for i, s := range spell {
			k := fmt.Sprintf("k%d", i)
			sb.WriteString(k + ": " + s + "\n")
			m[k] = want[i]
		}
		return sb.String(), []any{m}, all
	case 3:
		sb.WriteString("[" + strings.Join(spell, ", ") + "]\n")
		return sb.String(), []any{want}, all
	case 4:
		m := map[string]any{}
		sb.WriteString("{")
		for i, s := range spell {
			k := fmt.Sprintf("k%d", i)
			if i > 0 {
				sb.WriteString(", ")
			}
			sb.WriteString(k + ": " + s)
			m[k] = want[i]
		}
		sb.WriteString("}\n")
		return sb.String(), []any{m}, all
	default:
		var items []any
		sb.WriteString("a:\n")
		for _, s := range spell {
			sb.WriteString("  - b: " + s + "\n    c: [" + s + "]\n")
		}
		for i := range spell {
			items = append(items, map[string]any{"b": want[i], "c": []any{want[i]}})
		}
		return sb.String(), []any{map[string]any{"a": items}}, all
	}
}

var kC12YAMLIn = run.NewKind("c12.yamlin", func(c *run.Ctx, t c12YAMLInCase) *run.Fail {
	doc, want, full := c12YAMLDoc(t.Spell, t.Pos)
	runOne := func(args []string, stdin []byte, colors string) ([]byte, *run.Fail) {
		r := run.CLI(run.CLIOpt{Args: args, Stdin: stdin, Env: c12Env(colors)})
		if r.TimedOut || r.StartErr != nil {
			c.Inconclusive("cli-timeout")
			return nil, nil
		}
		if r.Code == 5 && bytes.Contains(r.Stderr, []byte("invalid yaml")) {
			c.Inconclusive("yaml-rejected-by-the-decoder")
			return nil, nil
		}
		if r.Code != 0 || len(r.Stderr) != 0 {
			return nil, &run.Fail{Detail: fmt.Sprintf("gojq %v on YAML %q exited %d: %s", args, clipS(doc, 200), r.Code, run.Clip(string(r.Stderr))), Sig: "c12.cli-error"}
		}
		c.Count("cli_runs", 1)
		return r.Stdout, nil
	}
	// splits out into JSON texts, checks each against want (when known) and returns the compact texts
	check := func(what string, out []byte, info c12ModeInfo) ([][]byte, *run.Fail) {
		if info.color {
			var err error
			out, _, err = c12StripSGR(out)
			if err != nil {
				return nil, &run.Fail{Detail: fmt.Sprintf("%s: %v", what, err), Sig: "c12.sgr"}
			}
		}
		if !utf8.Valid(out) {
			return nil, &run.Fail{Detail: fmt.Sprintf("%s on YAML %q: output is not valid UTF-8", what, clipS(doc, 200)), Sig: "c12.invalid-utf8"}
		}
		var comps [][]byte
		pos := 0
		for pos < len(out) {
			toks, end, err := c12Scan(out, pos)
			if err != nil {
				return nil, &run.Fail{Detail: fmt.Sprintf("%s on YAML %q: output is not JSON: %v; text %q", what, clipS(doc, 200), err, clipS(string(out[pos:]), 200)), Sig: "c12.yamlin:invalid-json"}
			}
			i := len(comps)
			if i >= len(want) {
				return nil, &run.Fail{Detail: fmt.Sprintf("%s on YAML %q: more outputs than documents", what, clipS(doc, 200)), Sig: "c12.count"}
			}
			e := c12Expect{V: want[i]}
			if !full && t.Pos != 0 || want[i] == nil {
				// no expectation: validity (own scanner and encoding/json) only
				if _, err := c12Decode(out[pos:end]); err != nil {
					return nil, &run.Fail{Detail: fmt.Sprintf("%s on YAML %q: encoding/json rejects the text: %v; text %q", what, clipS(doc, 200), err, clipS(string(out[pos:end]), 200)), Sig: "c12.yamlin:invalid-json"}
				}
			} else if f := c12CheckScanned(e, out, toks, pos, end, info.lays, nil); f != nil {
				f = prefixFail(f, "%s on YAML %q", what, clipS(doc, 200))
				f.Sig = "c12.yamlin:" + strings.TrimPrefix(f.Sig, "c12.")
				return nil, f
			}
			comps = append(comps, c12Compact(out, toks))
			if end >= len(out) || out[end] != '\n' {
				return nil, &run.Fail{Detail: fmt.Sprintf("%s: missing newline after output #%d", what, i), Sig: "c12.separator"}
			}
			pos = end + 1
		}
		if len(comps) != len(want) {
			return nil, &run.Fail{Detail: fmt.Sprintf("%s on YAML %q: %d outputs for %d documents", what, clipS(doc, 200), len(comps), len(want)), Sig: "c12.count"}
		}
		return comps, nil
	}
	var ref [][]byte
	for _, m := range t.Modes {
		info := c12ParseMode(m)
		if info.wrap != 0 || info.sep != "\n" {
			continue
		}
		args := append(append([]string{"--yaml-input"}, m.Args...), ".")
		out, f := runOne(args, []byte(doc), m.Colors)
		if f != nil || out == nil {
			return f
		}
		comps, f := check(fmt.Sprintf("gojq %v", args), out, info)
		if f != nil {
			return f
		}
		if ref == nil {
			ref = comps
		} else {
			for i := range comps {
				if !bytes.Equal(comps[i], ref[i]) {
					return &run.Fail{Detail: fmt.Sprintf("gojq %v on YAML %q: modes disagree on output #%d: %s", args, clipS(doc, 200), i, c12DiffAt(comps[i], ref[i])), Sig: "c12.modes-disagree"}
				}
			}
		}
	}
	// tojson run by the command: a JSON string whose content is JSON for the same value
	out, f := runOne([]string{"--yaml-input", "-r", "tojson, tostring, @json, \"\\(.)\""}, []byte(doc), "")
	if f != nil || out == nil {
		return f
	}
	lines := bytes.Split(bytes.TrimSuffix(out, []byte("\n")), []byte("\n"))
	if len(lines) != 4*len(want) {
		return &run.Fail{Detail: fmt.Sprintf("tojson/tostring/@json/interpolation on YAML %q: %d lines for %d documents", clipS(doc, 200), len(lines), len(want)), Sig: "c12.count"}
	}
	for i, ln := range lines {
		w := want[i/4]
		var err *run.Fail
		if w == nil || (!full && t.Pos != 0) {
			if i%4 == 1 || i%4 == 3 {
				continue // tostring / interpolation of a string is the string itself, not JSON
			}
			if _, e := c12Decode(ln); e != nil {
				err = &run.Fail{Detail: fmt.Sprintf("encoding/json rejects the text: %v; text %q", e, clipS(string(ln), 200)), Sig: "c12.invalid-json"}
			}
		} else {
			err = c12CheckText(c12Expect{V: w}, ln, nil)
		}
		if err != nil {
			f := prefixFail(err, "%s on YAML %q", []string{"tojson", "tostring", "@json", "interpolation"}[i%4], clipS(doc, 200))
			f.Sig = "c12.yamlin:" + strings.TrimPrefix(f.Sig, "c12.")
			return f
		}
	}
	// --yaml-output | --yaml-input gives the same values
	yout, f := runOne([]string{"--yaml-input", "--yaml-output", "."}, []byte(doc), "")
	if f != nil || yout == nil {
		return f
	}
	back, f := runOne([]string{"--yaml-input", "-c", "."}, yout, "")
	if f != nil || back == nil {
		return f
	}
	if _, f := check("gojq --yaml-input --yaml-output . | gojq --yaml-input -c .", back, c12ModeInfo{sep: "\n"}); f != nil {
		f.Detail += fmt.Sprintf("; YAML written: %q", clipS(string(yout), 200))
		return f
	}
	for _, s := range t.Spell {
		if j, ok := c12YAMLNum(s); ok && j != s {
			c.Nontrivial(fmt.Sprintf("yamlin\x00%d\x00%s", t.Pos, s))
			c.Count("yaml_numbers_not_spelled_like_json", 1)
		}
	}
	c.Count("yaml_scalars_checked", int64(len(t.Spell)))
	c.AddEvals(int64(len(t.Spell)) - 1)
	return nil
})

// c12YAMLSpellings: every combination of sign x integer part x fraction x exponent of the YAML core-schema number
// grammar (bounded), plus spellings other YAML versions read as numbers and near misses that must stay strings.
func c12YAMLSpellings() (nums, others []string) {
	for _, sign := range []string{"", "+", "-"} {
		for _, ip := range []string{"", "0", "7", "12", "007", "00", "123456789012345678901234567890"} {
			for _, fr := range []string{"", ".", ".5", ".0", ".50", ".000000000000000000000000001"} {
				for _, ex := range []string{"", "e3", "E3", "e+3", "e-3", "e03", "e0", "e400", "e-400"} {
					s := sign + ip + fr + ex
					if _, ok := c12YAMLNum(s); ok {
						nums = append(nums, s)
					} else if ip+fr != "" {
						others = append(others, s)
					}
				}
			}
		}
	}
	others = append(others, "0x1F", "-0x1f", "+0x10", "0o17", "+0o7", "0b11", "-0b101", "1_000", "+1_000", "-1_0.5", "1_0e1_0", "010", "-010", "+0100", "089", "1:30", "-1:30:00", "190:20:30.15",
		".inf", "+.inf", "-.Inf", ".NaN", ".nan", "~", "null", "Null", "true", "True", "yes", "No", "on", "OFF", "y", "n",
		"+", "-", ".", "+.", "-.", "e3", ".e3", "+.e3", "1e", "1e+", "1.5.", "1..5", "--1", "+-1", "1-", "1+", "0x", "0xG", "0o8", "0b2", "1__0", "_1", "1_", "0_", "+_1", "1e3e3", "1,5", "1 5", "١٢", "１２",
		"!!float 1", "!!float +1", "!!float 1.", "!!int 3", "!!int \"+3\"", "!!float \"+3.\"", "!!float \".5\"", "!!str +1", "!!str 1.", "\"+1\"", "'1.'", "!!float .inf", "!!int 0x10", "!!int 0b1_1", "!!float 1_0.5", "!!float 1e3", "!!float -0", "!!int -0", "!!float 685_230.15")
	return
}
