package mon

import (
	"fmt"
	"os"
	"path/filepath"
	"strings"
	"time"

	"verif/harness/internal/run"
)

// c20.command-files: the command consumes `inputs` (and its own per-input loop) over many more files than the process
// may hold open at once. What a consumed file leaves behind must not grow with the number of files consumed: with a
// descriptor limit of 32 (soft and hard, so that the Go runtime cannot raise it) a run over 150 and over 600 files
// must both reach the last file.

type c20FilesCase struct {
	Args []string // flags and query
	Want string   // printf format of the expected output, given n and n*(n+1)/2
	Raw  bool     // the files are read as raw text (-R)
}

var kC20Files = run.NewKind("c20.command-files", func(c *run.Ctx, t c20FilesCase) *run.Fail {
	if _, err := os.Stat("/bin/sh"); err != nil {
		c.Inconclusive("no-/bin/sh")
		return nil
	}
	dir, err := os.MkdirTemp("", "vp-c20-*")
	if err != nil {
		c.Inconclusive("no-temp-dir")
		return nil
	}
	defer os.RemoveAll(dir)
	made := 0
	for _, n := range []int{150, 600} {
		var names []string
		for i := 1; i <= n; i++ {
			name := fmt.Sprintf("f%04d.json", i)
			names = append(names, name)
			if i > made {
				if err := os.WriteFile(filepath.Join(dir, name), []byte(fmt.Sprintf("{\"i\":%d}\n", i)), 0o644); err != nil {
					c.Inconclusive("no-temp-file")
					return nil
				}
				made = i
			}
		}
		res := run.CLI(run.CLIOpt{Wrap: []string{"/bin/sh", "-c", "ulimit -n 32 && exec \"$@\"", "sh"}, Args: append(append([]string{}, t.Args...), names...), Dir: dir, NoStdin: true, Timeout: 120 * time.Second})
		if res.TimedOut || res.StartErr != nil {
			c.Inconclusive("cli-timeout")
			return nil
		}
		want := fmt.Sprintf(t.Want, n, n*(n+1)/2)
		if got := strings.TrimSpace(string(res.Stdout)); res.Code != 0 || got != want {
			return run.Failf("gojq %q over %d files with at most 32 open descriptors: exit %d, stdout ends %q (want %q), stderr %s", t.Args, n, res.Code, run.Clip(got[max(0, len(got)-80):]), want, run.Clip(string(res.Stderr)))
		}
		c.Count("files_consumed", int64(n))
	}
	c.Nontrivial("files|" + strings.Join(t.Args, " "))
	return nil
})

var c20FilesCases = []c20FilesCase{
	{Args: []string{"-n", "-c", "[inputs.i] | [length, add]"}, Want: "[%d,%d]"},
	{Args: []string{"-n", "-c", "reduce inputs as $x ([0, 0]; [.[0] + 1, .[1] + $x.i])"}, Want: "[%d,%d]"},
	{Args: []string{"-n", "-c", "last(foreach inputs as $x ([0, 0]; [.[0] + 1, .[1] + $x.i]))"}, Want: "[%d,%d]"},
	{Args: []string{"-n", "-c", "[try repeat(input) catch empty | .i] | [length, add]"}, Want: "[%d,%d]"},
	{Args: []string{"-c", "-s", "[length, (map(.i) | add)]"}, Want: "[%d,%d]"},
	{Args: []string{"-c", "-n", "[limit(1e9; inputs)] | [length, (map(.i) | add)]"}, Want: "[%d,%d]"},
	{Args: []string{"-c", "-n", "[inputs | input_filename] | [(unique | length), (map(.[1:5] | tonumber) | add)]"}, Want: "[%d,%d]"},
	{Args: []string{"-c", "-n", "reduce (inputs | tojson | length) as $l ([0, 0]; [.[0] + 1, .[1] + $l]) | [.[0], (.[0] * (.[0] + 1) / 2)]"}, Want: "[%d,%d]"},
	{Args: []string{"-c", "-n", "-R", "[inputs | fromjson.i] | [length, add]"}, Want: "[%d,%d]", Raw: true},
	{Args: []string{"-c", "-n", "--stream", "[inputs | select(length == 2) | .[1]] | [length, add]"}, Want: "[%d,%d]"},
}
