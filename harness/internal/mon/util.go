// Package mon holds one monitor per property.
package mon

import (
	"os"
	"strings"

	"verif/harness/internal/run"

	"github.com/itchyny/gojq"
)

const defBudget = 200000

// eval compiles and runs src on input under the default instruction budget.
func eval(src string, input any, vars ...any) run.Trace {
	res := run.Compile(src)
	if res.Panic != "" {
		return run.Trace{End: run.EndPanic, Panic: res.Panic}
	}
	if res.Err != nil {
		return run.Trace{End: run.EndError, Err: res.Err}
	}
	return run.RunCode(res.Code, input, vars, defBudget, 0)
}

// evalVars compiles src with named variables and runs it.
func evalVars(src string, input any, names []string, vals []any, budget int64) run.Trace {
	res := run.Compile(src, gojq.WithVariables(names))
	if res.Panic != "" {
		return run.Trace{End: run.EndPanic, Panic: res.Panic}
	}
	if res.Err != nil {
		return run.Trace{End: run.EndError, Err: res.Err}
	}
	return run.RunCode(res.Code, input, vals, budget, 0)
}

// nondeterministic reports whether a program may depend on the clock, the
// local time zone or an input iterator (excluded by the properties).
func nondeterministic(src string) bool {
	for _, w := range []string{"now", "local", "input", "$__prog"} {
		if strings.Contains(src, w) {
			return true
		}
	}
	return false
}

var osReadFile = os.ReadFile
