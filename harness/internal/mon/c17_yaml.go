package mon

import (
	"encoding/json"
	"fmt"
	"math/rand/v2"
	"os"
	"path/filepath"
	"strings"

	"verif/harness/internal/run"
)

// ---- C17, YAML input ----

// c17YSpec describes one generated well-formed block-style YAML document.
type c17YSpec struct {
	Seed  uint64 `json:"s"`
	Lines int    `json:"l"`
	Wide  bool   `json:"w"`
}

type c17YEntry struct {
	line   int    // index of the key line
	last   int    // index of the entry's last line
	key    string // top-level key
	typ    byte   // 'p' plain scalar, 'q' quoted, 'm' nested mapping, 's' sequence, 'f' flow
	valCol int    // byte column of the value on the key line ('p' only)
}

type c17YDoc struct {
	lines   []string
	entries []c17YEntry
	nested  []int // indices of nested-mapping lines that are not the first of their block
	nested1 []int // indices of all nested-mapping lines
}

// c17YWideChar picks a member of the non-ASCII alphabet, but not U+FEFF: at the start of a line YAML takes it for a byte
// order mark and skips it, and with the character inside a scalar its reading of some valid documents goes wrong
// (see c17.yamlfixed for the hand-written streams that carry it).
func c17YWideChar(r *rand.Rand) string {
	for {
		if s := c17Wide[r.IntN(len(c17Wide))].s; s != "\ufeff" {
			return s
		}
	}
}

func c17YWord(r *rand.Rand, wide bool) string {
	var sb strings.Builder
	for n := 1 + r.IntN(7); n > 0; n-- {
		if wide && r.IntN(4) == 0 {
			sb.WriteString(c17YWideChar(r))
		} else {
			sb.WriteByte("abcdefghijklmnopqrstuvwxyz0123456789"[r.IntN(36)])
		}
	}
	return sb.String()
}

func c17YText(r *rand.Rand, wide bool, n int) string {
	var ws []string
	for ; n > 0; n-- {
		ws = append(ws, c17YWord(r, wide))
	}
	return strings.Join(ws, " ")
}

func c17YBuild(s c17YSpec) *c17YDoc {
	r := rand.New(rand.NewPCG(s.Seed, 0xc17b))
	d := &c17YDoc{}
	add := func(l string) int { d.lines = append(d.lines, l); return len(d.lines) - 1 }
	comment := func() string {
		if r.IntN(6) == 0 {
			return "  # " + c17YText(r, s.Wide, 1+r.IntN(4))
		}
		return ""
	}
	plain := func() string {
		if r.IntN(3) == 0 {
			return fmt.Sprint(r.IntN(100000))
		}
		return "v" + c17YText(r, s.Wide, 1+r.IntN(3))
	}
	for k := 0; len(d.lines) < s.Lines; k++ {
		switch r.IntN(12) {
		case 0:
			add("# " + c17YText(r, s.Wide, 1+r.IntN(8)))
			continue
		case 1:
			add("")
			continue
		}
		key := fmt.Sprintf("k%d", k)
		if s.Wide && r.IntN(3) == 0 {
			key = c17YWideChar(r) + key + c17YWideChar(r)
		}
		e := c17YEntry{key: key}
		switch r.IntN(9) {
		case 0, 1, 2, 3:
			e.typ, e.valCol = 'p', len(key)+2
			e.line = add(key + ": " + plain() + comment())
		case 4:
			e.typ = 'q'
			n := 1 + r.IntN(6)
			if r.IntN(5) == 0 {
				n = 15 + r.IntN(25)
			}
			text := c17YText(r, s.Wide, n)
			e.line = add(key + `: "` + text + `"` + comment())
		case 5, 6:
			e.typ = 'm'
			e.line = add(key + ":" + comment())
			for i, n := 0, 1+r.IntN(4); i < n; i++ {
				j := add(fmt.Sprintf("  s%d: %s", i, plain()))
				d.nested1 = append(d.nested1, j)
				if i > 0 {
					d.nested = append(d.nested, j)
				}
			}
		case 7:
			e.typ = 's'
			e.line = add(key + ":")
			for n := 1 + r.IntN(4); n > 0; n-- {
				add("  - " + plain())
			}
		case 8:
			e.typ = 'f'
			if r.IntN(2) == 0 {
				e.line = add(key + ": [" + fmt.Sprint(r.IntN(100)) + `, "` + c17YText(r, s.Wide, 1+r.IntN(3)) + `", ` + c17YWord(r, false) + "]")
			} else {
				e.line = add(key + ": {a: " + fmt.Sprint(r.IntN(100)) + ", b: " + c17YWord(r, s.Wide) + "}")
			}
		}
		e.last = len(d.lines) - 1
		d.entries = append(d.entries, e)
	}
	return d
}

// c17YFault is one injected YAML fault.
type c17YFault struct {
	Kind string `json:"k"` // exact: flowclose mapvalue badchar nokey dupkey; weak: tab indent unclosed; found while decoding: anchor tag
	At   int    `json:"i"`
	Var  int    `json:"v"`
}

// c17YInject returns the faulty lines, the line index and byte column of the
// offending character (exact kinds) or of the injected fault (weak kinds).
func c17YInject(d *c17YDoc, f c17YFault) (lines []string, li, col int, exact, ok bool) {
	lines = append([]string{}, d.lines...)
	insertBefore := func(i int, l string) {
		lines = append(lines[:i], append([]string{l}, lines[i:]...)...)
	}
	switch f.Kind {
	case "flowclose", "mapvalue", "badchar", "unclosed":
		if f.At >= len(d.entries) || d.entries[f.At].typ != 'p' {
			return nil, 0, 0, false, false
		}
		e := d.entries[f.At]
		head := d.lines[e.line][:e.valCol]
		switch f.Kind {
		case "flowclose":
			lines[e.line] = head + []string{"]", "}"}[f.Var%2]
			return lines, e.line, e.valCol, true, true
		case "mapvalue":
			lines[e.line] = head + "b: c"
			return lines, e.line, e.valCol + 1, true, true
		case "badchar":
			lines[e.line] = head + []string{"@x", "`x", "@", "`y z"}[f.Var%4]
			return lines, e.line, e.valCol, true, true
		default:
			if f.At == len(d.entries)-1 {
				return nil, 0, 0, false, false
			}
			lines[e.line] = head + []string{"[1, 2", "{a: 1", "[x, [y]"}[f.Var%3]
			return lines, e.line, e.valCol, false, true
		}
	case "anchor", "tag":
		// faults the YAML reader finds only when it builds the value: an alias without its anchor, a scalar that its
		// tag cannot decode. The reader may or may not know where they are (see the judge).
		if f.At >= len(d.entries) || d.entries[f.At].typ != 'p' {
			return nil, 0, 0, false, false
		}
		e := d.entries[f.At]
		head := d.lines[e.line][:e.valCol]
		if f.Kind == "anchor" {
			lines[e.line] = head + []string{"*nosuch", "*a1", "*x"}[f.Var%3]
		} else {
			lines[e.line] = head + []string{"!!float x", "!!int 1x", "!!bool maybe", "!!null 7"}[f.Var%4]
		}
		return lines, e.line, e.valCol, false, true
	case "nokey":
		if f.At < 1 || f.At >= len(d.entries) {
			return nil, 0, 0, false, false
		}
		e, prev := d.entries[f.At], d.entries[f.At-1]
		if prev.last != e.line-1 || prev.typ != 'p' && prev.typ != 'q' {
			return nil, 0, 0, false, false
		}
		insertBefore(e.line, []string{"word", "10", "x1y"}[f.Var%3])
		return lines, e.line, 0, true, true
	case "dupkey":
		if f.At < 1 || f.At >= len(d.entries) {
			return nil, 0, 0, false, false
		}
		e := d.entries[f.At]
		insertBefore(e.line, d.entries[f.Var%f.At].key+": 1")
		return lines, e.line, 0, true, true
	case "tab":
		if len(d.nested1) == 0 {
			return nil, 0, 0, false, false
		}
		li = d.nested1[f.At%len(d.nested1)]
		lines[li] = "\t" + strings.TrimLeft(lines[li], " ")
		return lines, li, 0, false, true
	case "indent":
		if len(d.nested) == 0 {
			return nil, 0, 0, false, false
		}
		li = d.nested[f.At%len(d.nested)]
		lines[li] = " " + strings.TrimLeft(lines[li], " ")
		return lines, li, 1, false, true
	}
	return nil, 0, 0, false, false
}

// c17YCase is one run of the command on a YAML stream with one fault.
type c17YCase struct {
	Doc   c17YSpec   `json:"doc"`
	Pre   []c17YSpec `json:"pre,omitempty"`
	Tail  bool       `json:"tail,omitempty"`
	Term  string     `json:"term"`
	Via   string     `json:"via"`
	Fault c17YFault  `json:"fault"`
	BOM   bool       `json:"bom,omitempty"` // the stream starts with a byte order mark (which YAML allows)
}

var kC17Y = run.NewKind("c17.yaml", func(c *run.Ctx, t c17YCase) *run.Fail {
	term := c17Term(t.Term)
	var all []string
	for _, p := range t.Pre {
		all = append(all, c17YBuild(p).lines...)
		all = append(all, "---")
	}
	docStart := len(all)
	lines, li, col, exact, ok := c17YInject(c17YBuild(t.Doc), t.Fault)
	if !ok {
		c.Inconclusive("fault-not-applicable")
		return nil
	}
	all = append(all, lines...)
	if t.Tail {
		all = append(all, "---", "z: 1")
	}
	whole := []byte(strings.Join(all, term) + term)
	p := 0
	for _, l := range all[:docStart+li] {
		p += len(l) + len(term)
	}
	p += col
	if t.BOM {
		if docStart+li == 0 {
			c.Inconclusive("bom-on-the-fault-line") // how wide a terminal shows the mark is not ours to say
			return nil
		}
		whole = append([]byte("\ufeff"), whole...)
		p += 3
	}
	dir, cleanup := c17Dir()
	if c.Replay {
		c.Logf("input kept in %s", dir)
	} else {
		defer cleanup()
	}
	path := filepath.Join(dir, "in.yaml")
	args := []string{"--yaml-input", "-c", "."}
	var opt run.CLIOpt
	switch t.Via {
	case "file":
		os.WriteFile(path, whole, 0o644)
		opt = run.CLIOpt{Args: append(args, path), NoStdin: true}
	case "stdinfile":
		os.WriteFile(path, whole, 0o644)
		opt = run.CLIOpt{Args: args, StdinFile: path}
	case "stdinfile-skip":
		// the descriptor is a regular file whose first lines another process has already consumed: what the command
		// reads, and therefore numbers and quotes, starts at the current position
		prefix := []byte("# this header is consumed by somebody else" + term + "consumed: [1, 2," + term + "  3]" + term + "---" + term)
		for n := []int{0, 0, 40, 900, 9000}[(len(all)+col)%5]; n > 0; n-- {
			prefix = append(prefix, ("- 17" + term)...)
		}
		os.WriteFile(path, append(append([]byte{}, prefix...), whole...), 0o644)
		opt = run.CLIOpt{Args: args, StdinFile: path, StdinSkip: int64(len(prefix))}
	default:
		opt = run.CLIOpt{Args: args, Stdin: whole}
	}
	res := run.CLI(opt)
	if res.TimedOut || res.StartErr != nil {
		c.Inconclusive("cli-timeout")
		return nil
	}
	where := fmt.Sprintf("via=%s term=%s input=%d bytes, %d lines, %d preceding documents; fault %s#%d/%d at line %d byte %d (offset %d): %q",
		t.Via, t.Term, len(whole), len(all), len(t.Pre), t.Fault.Kind, t.Fault.At, t.Fault.Var, docStart+li+1, col, p, all[docStart+li])
	c.Logf("%s", where)
	c.Logf("stderr:\n%s", res.Stderr)
	sig := "c17.yaml:" + t.Fault.Kind
	if cont := c17ContBytes(whole[:p]); cont > 0 {
		where += fmt.Sprintf("; %d UTF-8 continuation bytes precede the fault", cont)
		sig += ":after-multibyte"
	} else {
		sig += ":ascii-before"
	}
	rep, why := c17ParseReport(string(res.Stderr), "invalid yaml: ")
	if t.Fault.Kind == "anchor" || t.Fault.Kind == "tag" {
		// The reader may report these without a position. Then the command must not invent one: either the report
		// names the line of the fault, or it carries no line, no quoted text and no caret at all; in both cases it says
		// what is wrong and the status is 5.
		stderr := string(res.Stderr)
		if res.Code != 5 || !strings.Contains(stderr, "gojq: invalid yaml: ") {
			return &run.Fail{Sig: sig, Detail: fmt.Sprintf("%s\nexpected status 5 and an \"invalid yaml\" report; exit %d, stderr: %s", where, res.Code, run.Clip(stderr))}
		}
		if rep != nil {
			if !rep.HasLine || rep.Line != docStart+li+1 {
				return &run.Fail{Sig: sig, Detail: fmt.Sprintf("%s\nthe report points at line %d (has a line number: %v); the offending scalar is on line %d\nstderr: %s", where, rep.Line, rep.HasLine, docStart+li+1, run.Clip(c17Stderr(res.Stderr)))}
			}
			if strings.TrimSpace(rep.Msg) == "" {
				return &run.Fail{Sig: sig, Detail: where + "\nthe report does not say what is wrong\nstderr: " + run.Clip(c17Stderr(res.Stderr))}
			}
			c.Count("yaml_semantic_reports_with_position", 1)
		} else {
			if strings.Contains(stderr, "^") && strings.Contains(stderr, " | ") {
				return &run.Fail{Sig: sig, Detail: where + "\nmalformed position report: " + why + "\nstderr: " + run.Clip(c17Stderr(res.Stderr))}
			}
			_, msg, _ := strings.Cut(stderr, "gojq: invalid yaml: ")
			if len(strings.TrimSpace(msg)) < 12 {
				return &run.Fail{Sig: sig, Detail: where + "\nthe report does not say what is wrong\nstderr: " + run.Clip(c17Stderr(res.Stderr))}
			}
			c.Count("yaml_semantic_reports_without_position", 1)
		}
		key, _ := json.Marshal(t)
		c.Nontrivial(string(key))
		c.Count("yaml_fault_"+t.Fault.Kind, 1)
		return nil
	}
	if rep == nil {
		if !exact && res.Code == 0 {
			c.Inconclusive("yaml-fault-accepted") // a weak fault the YAML grammar happens to accept
			return nil
		}
		return &run.Fail{Sig: sig, Detail: fmt.Sprintf("%s\n%s; exit %d, stderr: %s", where, why, res.Code, run.Clip(string(res.Stderr)))}
	}
	key, _ := json.Marshal(t)
	if exact {
		switch verdict := c17Judge(rep, whole, p); verdict {
		case "":
		case "?":
			c.Inconclusive("width-oracle-undecided")
			return nil
		default:
			return &run.Fail{Sig: sig, Detail: where + "\n" + verdict + "\nstderr: " + run.Clip(c17Stderr(res.Stderr))}
		}
		c.Count("yaml_exact_reports_compared", 1)
	} else {
		// self-consistency: the printed number, the quoted text and the caret
		// describe one position inside the faulty document, not after the fault
		if !rep.HasLine {
			return &run.Fail{Sig: sig, Detail: where + "\nthe report carries no line number\nstderr: " + run.Clip(c17Stderr(res.Stderr))}
		}
		hi := docStart + li + 1
		if t.Fault.Kind == "unclosed" {
			hi = len(all)
		}
		if rep.Line < docStart+1 || rep.Line > hi {
			return &run.Fail{Sig: sig, Detail: fmt.Sprintf("%s\nline %d reported; the faulty document starts on line %d and the fault is detected no later than line %d\nstderr: %s",
				where, rep.Line, docStart+1, hi, run.Clip(c17Stderr(res.Stderr)))}
		}
		T := strings.ReplaceAll(all[rep.Line-1], "\t", " ") // tabs are shown as single spaces (see c17Judge)
		if t.BOM && rep.Line == 1 {
			T = "\ufeff" + T // the mark belongs to the first line
		}
		okPos := false
		for s := 0; s+len(rep.Excerpt) <= len(T); s++ {
			if T[s:s+len(rep.Excerpt)] != rep.Excerpt {
				continue
			}
			// the caret must stand at a character boundary of the excerpt (or just behind it)
			for j := 0; j <= len(rep.Excerpt); j++ {
				if j < len(rep.Excerpt) && rep.Excerpt[j]&0xC0 == 0x80 {
					continue
				}
				if w, _ := c17Width(rep.Excerpt[:j]); w == rep.Caret {
					okPos = true
				}
			}
		}
		if !okPos {
			return &run.Fail{Sig: sig, Detail: fmt.Sprintf("%s\nline %d reported, but the quoted text %q with the caret at column %d is not a position of that line %q\nstderr: %s",
				where, rep.Line, rep.Excerpt, rep.Caret, c17Clip(T, 0), run.Clip(c17Stderr(res.Stderr)))}
		}
		c.Count("yaml_weak_reports_checked", 1)
	}
	c.Nontrivial(string(key))
	c.Count("yaml_fault_"+t.Fault.Kind, 1)
	c.Distinct("yaml_via_term", t.Via+"/"+t.Term)
	c.Distinct("yaml_lines_reported", fmt.Sprint(rep.Line))
	return nil
})

// c17ContBytes counts UTF-8 continuation bytes (bytes minus characters).
func c17ContBytes(b []byte) (n int) {
	for _, x := range b {
		if x&0xC0 == 0x80 {
			n++
		}
	}
	return
}

func c17BodyYAML(c *run.Ctx) {
	r := c.Rand("c17.yaml")
	nd := c.N(90, 500)
	vias := []string{"file", "stdinfile", "pipe", "stdinfile-skip"}
	for k := 0; k < nd; k++ {
		doc := c17YSpec{Seed: r.Uint64() >> 11, Wide: r.IntN(3) > 0}
		switch k % 4 {
		case 0:
			doc.Lines = 2 + r.IntN(6)
		case 1:
			doc.Lines = 5 + r.IntN(40)
		case 2:
			doc.Lines = 40 + r.IntN(160)
		case 3:
			doc.Lines = 200 + r.IntN(200)
		}
		base := c17YCase{Doc: doc, Term: c17Terms[r.IntN(3)], Via: vias[(k+k/4)%4], Tail: r.IntN(3) == 0, BOM: r.IntN(6) == 0}
		for n := r.IntN(4); n > 0; n-- {
			pre := c17YSpec{Seed: r.Uint64() >> 11, Wide: r.IntN(2) == 0, Lines: 1 + r.IntN(30)}
			if r.IntN(4) == 0 {
				pre.Lines = 300 + r.IntN(900)
			}
			base.Pre = append(base.Pre, pre)
		}
		d := c17YBuild(doc)
		ne := len(d.entries)
		if ne == 0 {
			continue
		}
		for i := 0; i < c.N(8, 16); i++ {
			kind := []string{"flowclose", "mapvalue", "badchar", "nokey", "dupkey"}[i%5]
			at := r.IntN(ne)
			for j := 0; j < ne; j++ { // move on to an entry the fault applies to
				f := c17YFault{Kind: kind, At: (at + j) % ne, Var: r.IntN(1000)}
				if _, _, _, _, ok := c17YInject(d, f); ok {
					cs := base
					cs.Fault = f
					kC17Y.Do(c, cs)
					break
				}
			}
		}
		for i := 0; i < c.N(5, 10); i++ {
			kind := []string{"tab", "indent", "unclosed", "anchor", "tag"}[i%5]
			at := r.IntN(ne)
			for j := 0; j < ne; j++ {
				f := c17YFault{Kind: kind, At: (at + j) % ne, Var: r.IntN(1000)}
				if _, _, _, _, ok := c17YInject(d, f); ok {
					cs := base
					cs.Fault = f
					kC17Y.Do(c, cs)
					break
				}
			}
		}
	}
}
