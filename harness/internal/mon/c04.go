package mon

import (
	"fmt"
	"strings"

	"verif/harness/internal/gen"
	"verif/harness/internal/run"

	"github.com/itchyny/gojq"
)

// ---- C04: optimisations are unobservable ----

type c04Case struct {
	Src    string
	Inputs []run.TV
}

const c04NOpts = 12 // bits 0..10 compile-time switches, bit 11 in-place (run-time)

func c04Configs() []uint32 {
	var cs []uint32
	for i := 0; i < c04NOpts; i++ {
		cs = append(cs, 1<<i)
	}
	cs = append(cs, 1<<c04NOpts-1)                         // all off
	cs = append(cs, (1<<c04NOpts-1)&^(1<<11))              // all compile-time switches off
	cs = append(cs, 1<<5|1<<6, 1<<9|1<<10, 1<<0|1<<1|1<<7) // inlining pair, tailrec+peephole, const folding family
	return cs
}

func maskName(m uint32) string {
	var ns []string
	for i, n := range gojq.VerifOptNames {
		if m&(1<<i) != 0 {
			ns = append(ns, n)
		}
	}
	return strings.Join(ns, "+")
}

// staticScan checks the emitted code for malformed instructions.
func staticScan(code *gojq.Code) string {
	ins := gojq.VerifInstrs(code)
	n := len(ins)
	for pc, in := range ins {
		switch in.Op {
		case "<nil>", "<invalid>":
			return fmt.Sprintf("instruction %d is %s", pc, in.Op)
		case "jump", "jumpifnot", "fork", "forktrybegin", "forkalt":
			t, ok := in.V.(int)
			if !ok || t < 0 || t >= n {
				return fmt.Sprintf("instruction %d (%s) has target %v outside the code (len %d)", pc, in.Op, in.V, n)
			}
		case "callrec", "pushpc":
			t, ok := in.V.(int)
			if !ok || t < 0 || t >= n || ins[t].Op != "scope" {
				return fmt.Sprintf("instruction %d (%s) does not target a scope instruction: %v", pc, in.Op, in.V)
			}
		case "call":
			switch t := in.V.(type) {
			case int:
				if t < 0 || t >= n || ins[t].Op != "scope" {
					return fmt.Sprintf("instruction %d (call) does not target a scope instruction: %v", pc, t)
				}
			case [3]any:
				if _, ok := t[1].(int); !ok {
					return fmt.Sprintf("instruction %d (call) has a malformed native operand", pc)
				}
			default:
				return fmt.Sprintf("instruction %d (call) has operand %T", pc, in.V)
			}
		case "load", "store", "append", "forklabel":
			if _, ok := in.V.([2]int); !ok {
				return fmt.Sprintf("instruction %d (%s) has operand %T", pc, in.Op, in.V)
			}
		case "scope":
			if _, ok := in.V.([3]int); !ok {
				return fmt.Sprintf("instruction %d (scope) has operand %T", pc, in.V)
			}
		case "object":
			if _, ok := in.V.(int); !ok {
				return fmt.Sprintf("instruction %d (object) has operand %T", pc, in.V)
			}
		}
	}
	if n == 0 || ins[n-1].Op != "ret" {
		return "code does not end with ret"
	}
	return ""
}

func withSwitches[T any](mask uint32, f func() T) T {
	old := gojq.VerifSetOff(mask)
	defer gojq.VerifSetOff(old)
	return f()
}

var kC04 = run.NewKind("c04.switch", func(c *run.Ctx, t c04Case) *run.Fail {
	if nondeterministic(t.Src) {
		c.Inconclusive("clock-or-input-dependent")
		return nil
	}
	q, err := gojq.Parse(t.Src)
	if err != nil {
		c.Inconclusive("does-not-parse")
		return nil
	}
	base, cerr, pan := run.CompileQuery(q)
	if pan != "" {
		return run.Failf("Compile panicked on %q: %s", t.Src, pan)
	}
	if cerr != nil {
		// must not compile under any configuration either
		for _, m := range c04Configs()[:c04NOpts-1] {
			var e2 error
			var p2 string
			withSwitches(m, func() int { _, e2, p2 = run.CompileQuery(q); return 0 })
			if p2 != "" {
				return run.Failf("Compile panicked on %q with %s off: %s", t.Src, maskName(m), p2)
			}
			if e2 == nil {
				return run.Failf("%q fails to compile by default (%v) but compiles with %s off", t.Src, cerr, maskName(m))
			}
		}
		c.Inconclusive("does-not-compile")
		return nil
	}
	if msg := staticScan(base); msg != "" {
		return run.Failf("%q: default code is malformed: %s", t.Src, msg)
	}
	baseTr := make([]run.Trace, len(t.Inputs))
	for i, in := range t.Inputs {
		baseTr[i] = run.RunCode(base, in.V, nil, defBudget, 2000)
		c.Logf("default on %s: %s", run.Clip(run.Canon(in.V)), run.TraceDesc(baseTr[i]))
	}
	nontrivial := false
	for _, m := range c04Configs() {
		var code *gojq.Code
		res := withSwitches(m&^(1<<11), func() [2]any {
			cc, e, p := run.CompileQuery(q)
			code = cc
			return [2]any{e, p}
		})
		if p, _ := res[1].(string); p != "" {
			return run.Failf("Compile panicked on %q with %s off: %s", t.Src, maskName(m), p)
		}
		if e, _ := res[0].(error); e != nil {
			return run.Failf("%q compiles by default but not with %s off: %v", t.Src, maskName(m), e)
		}
		if msg := staticScan(code); msg != "" {
			return run.Failf("%q with %s off: code is malformed: %s", t.Src, maskName(m), msg)
		}
		if m&^(1<<11) != 0 {
			// did the switch change the emitted code at all?
			if len(gojq.VerifInstrs(code)) != len(gojq.VerifInstrs(base)) || codeDiffers(code, base) {
				c.Count("configs_that_changed_the_code", 1)
				c.Distinct("switches_exercised", maskName(m))
				nontrivial = true
			}
		}
		for i, in := range t.Inputs {
			tr := withSwitches(m&(1<<11), func() run.Trace { return run.RunCode(code, in.V, nil, defBudget, 2000) })
			c.AddEvals(1)
			diff, partial := run.SameTrace(baseTr[i], tr, run.DiffOpt{InternalMsgEq: true, InternalKinds: true})
			if partial {
				c.Inconclusive("budget-prefix-only")
			}
			if diff != "" {
				c.Logf("%s off on %s: %s", maskName(m), run.Clip(run.Canon(in.V)), run.TraceDesc(tr))
				return run.Failf("%q on %s: default compilation and compilation with %s off differ: %s", t.Src, run.Clip(run.Canon(in.V)), maskName(m), diff)
			}
		}
	}
	if nontrivial {
		c.Nontrivial(t.Src)
	}
	return nil
})

func codeDiffers(a, b *gojq.Code) bool {
	x, y := gojq.VerifInstrs(a), gojq.VerifInstrs(b)
	if len(x) != len(y) {
		return true
	}
	for i := range x {
		if x[i].Op != y[i].Op {
			return true
		}
	}
	return false
}

var c04OneInstr = []string{".a", ".[0]", "$x", "f", "..", "[]", "{}", "(label $l | .)", "empty", "path(.)", ".", "1", "\"a\"", "null", ".[]", ".[1:]", "-1", "[1,2]", "{\"a\":1}", "first", "length", "keys?", "$__loc__", "not", "(break $out)", ".[\"a\"]", ".a?", "input?", "error", "-(1)", "-.", "1[0]?", "\"a\"[0:]", "-1[0]?", "{a:1}.a", "[3][0]"}

var c04ArgTemplates = []string{"[%s + 1]", "[1 + %s]", "[%s == %s]", "has(%s)?", ".[%s]?", "[range(%s)?]", "[limit(1; %s)]", "[%s | length?]", "getpath([%s])?", "[.[%s:]?]", "[.[:%s]?]", "\"ab\" | ltrimstr(%s)?",
	"[%s, %s] | add?", "setpath([%s]; 1)?", "try error(%s) catch .", "[%s] | map(.)", "{a: %s}", "{(%s | tostring): 1}?", "[.[]? | . == %s]", "%s as $y | [$y]", "[%s // 1]", "if %s then 1 else 2 end", "[%s | tojson]",
	"[%s - %s]?", "[%s * 2]?", "contains(%s)?", "[(%s) | not]", "[flatten(%s)?]", "[splits(%s)?]", "test(%s)?", "index(%s)?", "[%s < %s]", "[-(%s)]?", "(%s) |= 1", ".[%s] = 1", ".[%s] |= 2", "del(.[%s])?", "to_entries[%s]?", "[.[%s]?, .[%s]?]", "[paths(%s)?]", "min_by(%s)?", "[first(%s), last(%s)]", "isempty(%s)", "[%s[]?]", "%s[0]?", "-%s?", "[.[%s][0]?]", ".[%s][%s]? = 3"}

var c04TailRec = []string{
	"def f: if . < 3 then (. + 1 | f) else . end; 0 | f",
	"def f: if . < 3 then (. + 1 | f), 10 else . end; [0 | f]",
	"def f: (select(. < 3) | . + 1 | f) // .; 0 | f",
	"def f: ., (select(. < 3) | . + 1 | f); [0 | f]",
	"def f: (. + 1) as $x | if $x < 3 then $x | f else $x end; 0 | f",
	"def f: try (if . < 3 then . + 1 | f else error(\"done\") end) catch .; 0 | f",
	"def f: label $l | if . < 3 then . + 1 | f else ., break $l end; [0 | f]",
	"def f: [if . < 3 then . + 1 | f else . end]; 0 | f",
	"def f: def g: if . < 3 then . + 1 | g else . end; g; 0 | f",
	"def f(x): if . < 3 then . + 1 | f(x) else x end; 0 | f(10)",
	"def f: if . < 3 then . + 1 | f | . + 100 else . end; 0 | f",
	"def f: def g: if . < 5 then . + 1 | f else . end; if . < 5 then . + 1 | g else . end; 0 | f",
	"def f: reduce (1, 2) as $x (.; . + $x) | if . < 10 then f else . end; 0 | f",
	"def f: .[1:] | if length > 0 then f else \"done\" end; f?",
	"def f: if type == \"array\" and length > 0 then (.[0], (.[1:] | f)) else empty end; [f]",
	"def f: if . < 3 then . + 1 | f elif . < 5 then . + 2 | f else . end; 0 | f",
	"def f: if . > 100 then . else (. * 2 | f) end; [1, 2, 3 | f]",
	"def f: if . < 3 then (. + 1 | f) else empty end; [0 | f]",
	"def f: if . < 3 then (., (. + 1 | f)) else . end; [limit(5; 0 | f)]",
	"def f: . as [$a, $b] | if $a < 3 then [$a + 1, $b] | f else . end; [0, 1] | f",
	"def f: . as $x | if $x < 3 then $x + 1 | f else [$x] end; 0 | f",
	"def f: (. + 1 | select(. < 4) | f), .; [0 | f]",
	"def f: first(if . < 3 then . + 1 | f else . end); 0 | f",
	"def f: if . < 3 then . + 1 | f else . end | . + 1; 0 | f",
	"def f: if . < 3 then . + 1 | f else . end; def g: f | f; 0 | g",
	"def f: if . < 2 then (. + 1 | f), (. + 2 | f) else . end; [0 | f]",
	"def f: if . < 3 then . + 1 | f else . end; [range(3) | f]",
	"def f: if . < 3 then (.+1|f)? else error(.) end; [.[]? | numbers | try f catch -.]",
	"def f: if length < 3 then . + [length] | f else . end; [] | f",
	"def f: if . == null then 0 | f elif . < 3 then . + 1 | f else . end; f?",
	"def r: ., (.[]? | r); [r]", "def r: (.[]? | r), .; [r]", "[recurse(.[]?)]", "[..]", "def f: .[]? | f; [f]", "[limit(5; repeat(1))]", "[limit(5; 1 | repeat(. * 2))]", "last(range(10))", "first(range(10; 0; -1))", "until(. > 10; . + 3)?", "[while(. < 10; . + 3)?]", "[range(5)] | map(select(. > 1))", "isempty(empty)", "[.[]?] | any, all",
}

var c04NearConstPaths = []string{
	// a constant-path assignment inside a path expression: the value assigned is no part of the path around it (known
	// finding D49: the direct setpath lowering evaluates it with path tracking on)
	"path((.a = ([5, 6] | .[1]) | empty), .b)", "try path(.[0]? | (.[0] = ([5, 6] | .[1]))) catch .",
	// constant-path assignments whose right-hand side has several outputs, chained into further constant-path
	// assignments that run on other values before the first is resumed
	".a = (1, 2) | .c | .b = 3", ".a = (1, 2) | .b = (3, 4)", ".x.y = (.a, .b) | .x | .z = 1", "[.a = (1, 2) | .c? | .b = 3]", ".a = (1, 2) | [.b = 3, (.c? | .d = 4)]", "(.a = (1, 2)) as $v | .c? | .b = $v", ".a = (.b = (1, 2) | .c?) | .d = 5",
	".a = (1, 2) | .c? | .b = (3, 4) | .a? | .e = 6", "def f: .a = (1, 2); f | .c? | .b = 3", "[.[0] = (1, 2) | .[1]? | .[0] = 3]?", ".a[0] = (1, 2) | .a | .[1] = 3", ".a = (1, 2), .b = 3 | .c? | .d = 4", ".a += (1, 2) | .c? | .b += 3", ".a |= (., 2) | .c? | .b = 3",
	// literal keys that are numbers but not small integers
	"path(.[1e19])", "path(.[-0.0])", "path(.[1e1000])", "path(.[2.0])", "path(.[1.0:2.0])", ".[1e19]? = 1", ".[2.0] = 1", ".[-0.0] |= 5", "try (.[1e19] |= 1) catch .", "path(.[9223372036854775808])", "path(.[-1e19])", "path(.[1.5])", "path(.[0.0])", ".[1e2]? = 0 | length", "path(.a[1e19])?",
	".a = 1", ".a.b = 1", ".[0] = 1", ".[1:] = [1]", ".a[0].b = 1", ".[\"a\"] = 1", ".a[1:2] = [9]", ".[-1] = 1", ".a[.b] = 1", ".[.[0]]? = 1", "(.a) = 1", "(.a).b = 1", ".a[] = 1", ".[0][1:][0] = 1", ".a = (1, 2)", ".a = .b", ".a = empty", ".a = error(\"x\")", "try (.a = error(\"x\")) catch .", ".\"a\" = 1", ".\"a\\(1)\" = 1", ".[1.5] = 1", ".[1:2.5] = [1]", ".[null:1] = [1]", ".a.b.c.d = 1", ".[0] = .[1]", ".[2:1] = [\"x\"]", ".[\"a\", \"b\"] = 1", ".a |= . + 1", ".a += 1", ".[1e1000] = 1", ".[-1:] = []", ".a.a.a = .a", ".[0:1][0] = 5", "(.a, .b) = 1", ".a[1[0]]? = 1", ".[\"a\"[0:]]? = 1", ".[-1[0]]? = 2"}

func init() {
	run.Register(&run.Prop{
		ID: "C04", Level: "exploration", MinNontrivial: 300,
		Rule:        "a case is (program, 3 inputs); it is compiled by the real compiler in its default configuration and with each single optimisation switched off (constant object/array/unary folding, constant index key, constant assignment path, identity / one-instruction argument inlining, constant if branches, expbegin removal, tail-call elimination, peephole pass; the in-place update switch is flipped at run time), with all switches off and with three switch groups off; every configuration's event list on every input must equal the default's (values exactly, user errors by value, internal errors by class), every emitted code must pass a static well-formedness scan, and a program must compile in all configurations or in none. Programs: PRNG-generated core-grammar programs weighted toward literal containers and updates, templates × one-instruction arguments of every kind, self calls in and out of tail position, constant and near-constant assignment paths, the library-level corpus and token mutations of it. Non-trivial = distinct programs for which at least one switch changed the emitted instruction sequence.",
		Assumptions: []string{"the switches (build tag verif) select the compiler's own generic lowering: each inserted guard runs the pre-existing unoptimised code path", "two caught internal error messages are compared by class, not wording"},
		Body: func(c *run.Ctx) {
			small := gen.USmall()
			r := c.Rand("c04")
			ins := func(k int) []run.TV {
				out := make([]run.TV, k)
				for i := range out {
					if r.IntN(4) == 0 {
						out[i] = run.TV{V: gen.RandValue(r, 3)}
					} else {
						out[i] = run.TV{V: small[r.IntN(len(small))]}
					}
				}
				return out
			}
			fixed := []run.TV{{V: nil}, {V: []any{1, 2, 3}}, {V: map[string]any{"a": []any{1, map[string]any{"b": 2}}, "b": 1}}, {V: 2}, {V: "ab"}, {V: map[string]any{"c": map[string]any{"d": 0}, "a": map[string]any{"e": 1}, "x": map[string]any{"z": 0}, "b": 7}}}
			for _, t := range c04ArgTemplates {
				for _, a := range c04OneInstr {
					src := "def f: .[0]?; 1 as $x | label $out | " + strings.ReplaceAll(t, "%s", a)
					kC04.Do(c, c04Case{Src: src, Inputs: fixed})
				}
			}
			for _, src := range c04TailRec {
				kC04.Do(c, c04Case{Src: src, Inputs: append(fixed[:3:3], run.TV{V: []any{[]any{1, []any{2}}, 3}}, run.TV{V: 0})})
			}
			for _, src := range c04NearConstPaths {
				kC04.Do(c, c04Case{Src: src, Inputs: fixed})
				kC04.Do(c, c04Case{Src: "[" + src + "] | .[0]", Inputs: fixed})
			}
			// constant-branch conditionals followed by constants, in every consuming context
			for _, cond := range []string{".", "true", "false", ".a?", ".[]?", "(1, null)", "$x", "length > 1", "empty", "error?"} {
				for _, br := range [][2]string{{"3", "4"}, {"\"a\"", "null"}, {"[]", "{}"}, {"-1", "1.5"}, {"true", "false"}, {"[1]", "3"}, {"null", "null"}} {
					for _, tail := range []string{"", " | 5", " | null", " | \"x\"", " | []", " | -1", " | {}", " | not", " | .", ", 6", " | 5 | 6", " // 7", " | [5]", " | {a: 5}"} {
						core := "if " + cond + " then " + br[0] + " else " + br[1] + " end" + tail
						for _, ctx := range []string{"{a: (%s)}", "(%s) as $y | .", "reduce . as $z (%s; $z)", "[(%s), .]", "[.[]? | (%s)]", "1 + (%s)", "foreach . as $z (%s; .; [$z, .])", "%s", "[limit(3; %s)]", "try (%s) catch .", "def g: %s; [g, .]", "[(%s)] | length, ."} {
							kC04.Do(c, c04Case{Src: "1 as $x | " + strings.ReplaceAll(ctx, "%s", core), Inputs: fixed})
						}
					}
				}
			}
			// recursive calls that look like tail calls
			for _, src := range gen.RecursionPrograms() {
				kC04.Do(c, c04Case{Src: src, Inputs: fixed[:2]})
			}
			// literals whose members arrange constants and the identity with commas, pipes and parentheses in every way
			for _, src := range gen.LiteralShapePrograms(c.N(6, 1)) {
				kC04.Do(c, c04Case{Src: src, Inputs: fixed[:4]})
			}
			// control-flow joins followed by fusable instructions, in multi-slot consumers
			var joinIn, pbIn []run.TV
			for _, v := range gen.JoinInputs() {
				joinIn = append(joinIn, run.TV{V: v})
			}
			for _, v := range gen.PathBindInputs() {
				pbIn = append(pbIn, run.TV{V: v})
			}
			for _, src := range gen.JoinPrograms(c.N(12, 1)) {
				kC04.Do(c, c04Case{Src: src, Inputs: joinIn})
			}
			// value operands in the middle of path expressions (expbegin/expend bracketing)
			for _, src := range gen.PathBindPrograms() {
				kC04.Do(c, c04Case{Src: src, Inputs: pbIn})
			}
			n := c.N(9000, 200000)
			for i := 0; i < n; i++ {
				g := &gen.G1{R: r, Lits: 4, Updates: 1}
				kC04.Do(c, c04Case{Src: g.Program(2 + r.IntN(3)), Inputs: ins(3)})
			}
			corpus := gen.SimpleCorpus()
			for _, cs := range corpus {
				in := ins(1)
				for _, v := range cs.Inputs {
					if len(in) < 3 {
						in = append(in, run.TV{V: v})
					}
				}
				kC04.Do(c, c04Case{Src: cs.Query, Inputs: in})
			}
			m := c.N(4000, 100000)
			for i := 0; i < m; i++ {
				cs := corpus[r.IntN(len(corpus))]
				kC04.Do(c, c04Case{Src: gen.Mutate(r, cs.Query), Inputs: ins(2)})
			}
		},
	})
}
