package mon

import (
	"encoding/json"
	"fmt"
	"math/big"

	"verif/harness/internal/run"

	"github.com/itchyny/gojq"
)

// c03.rangeedge: range($from; $upto; $by) across the edges of the machine integers, in both directions, with the
// three numbers carried by every exact representation: the outputs are from, from + by, ... strictly before upto,
// computed here with math/big.

type c03Range struct {
	From, Upto, By string // decimal integers
	Rep            int    // 0: Go int where it fits, else *big.Int; 1: *big.Int; 2: json.Number; 3: literals in the query text
}

func c03RangeVal(s string, rep int) any {
	b, _ := new(big.Int).SetString(s, 10)
	switch rep {
	case 0:
		if b.IsInt64() {
			return int(b.Int64())
		}
		return b
	case 1:
		return b
	default:
		return json.Number(s)
	}
}

var kC03Range = run.NewKind("c03.rangeedge", func(c *run.Ctx, t c03Range) *run.Fail {
	from, ok1 := new(big.Int).SetString(t.From, 10)
	upto, ok2 := new(big.Int).SetString(t.Upto, 10)
	by, ok3 := new(big.Int).SetString(t.By, 10)
	if !ok1 || !ok2 || !ok3 || by.Sign() == 0 {
		return run.Failf("bad case")
	}
	var want []string
	for x := new(big.Int).Set(from); len(want) < 12 && (by.Sign() > 0 && x.Cmp(upto) < 0 || by.Sign() < 0 && x.Cmp(upto) > 0); x = new(big.Int).Add(x, by) {
		want = append(want, x.String())
	}
	src := "[limit(12; range($from; $upto; $by))] | map(tojson)"
	opts := []gojq.CompilerOption{gojq.WithVariables([]string{"$from", "$upto", "$by"})}
	vals := []any{c03RangeVal(t.From, t.Rep), c03RangeVal(t.Upto, t.Rep), c03RangeVal(t.By, t.Rep)}
	if t.Rep == 3 {
		src = fmt.Sprintf("[limit(12; range(%s; %s; %s))] | map(tojson)", t.From, t.Upto, t.By)
		opts, vals = nil, nil
	}
	res := run.Compile(src, opts...)
	if res.Code == nil {
		return run.Failf("%q does not compile: %v", src, res.Err)
	}
	tr := run.RunCode(res.Code, nil, vals, 1000000, 0)
	if tr.End == run.EndBudget {
		c.Inconclusive("budget")
		return nil
	}
	got, _ := func() ([]any, bool) {
		if tr.End != run.EndOK || len(tr.Vals) != 1 {
			return nil, false
		}
		a, ok := tr.Vals[0].([]any)
		return a, ok
	}()
	same := got != nil && len(got) == len(want)
	for i := 0; same && i < len(want); i++ {
		same = got[i] == any(want[i])
	}
	if !same {
		return run.Failf("range(%s; %s; %s) (representation %d), first 12 outputs: %s; the arithmetic progression gives %v", t.From, t.Upto, t.By, t.Rep, run.Clip(run.TraceDesc(tr)), want)
	}
	c.Nontrivial(fmt.Sprintf("%s/%s/%s/%d", t.From, t.Upto, t.By, t.Rep))
	return nil
})

func c03RangeCases(c *run.Ctx) []c03Range {
	var out []c03Range
	edges := []string{"-9223372036854775808", "9223372036854775807", "-4611686018427387904", "4611686018427387904", "0", "-18446744073709551616", "18446744073709551615"}
	steps := []int64{1, 2, 3, 7, -1, -2, -3, -7, 4611686018427387904, -4611686018427387904, 9223372036854775807, -9223372036854775807}
	n := 0
	for _, e := range edges {
		eb, _ := new(big.Int).SetString(e, 10)
		for _, s := range steps {
			for _, off := range []int64{-5, -2, -1, 0, 1, 2, 5} {
				// start a few steps before the edge, end a few steps behind it
				sb := big.NewInt(s)
				from := new(big.Int).Sub(new(big.Int).Add(eb, big.NewInt(off)), new(big.Int).Mul(sb, big.NewInt(3)))
				upto := new(big.Int).Add(from, new(big.Int).Mul(sb, big.NewInt(8)))
				for rep := 0; rep < 4; rep++ {
					n++
					if c.Quick() && n%3 != 0 {
						continue
					}
					out = append(out, c03Range{From: from.String(), Upto: upto.String(), By: sb.String(), Rep: rep})
				}
			}
		}
	}
	return out
}
