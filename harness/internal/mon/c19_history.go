package mon

import (
	"fmt"
	"strings"

	"verif/harness/internal/gen"
	"verif/harness/internal/run"

	"github.com/itchyny/gojq"
)

// c19.history: "its output is a function of the query and the input alone" — also not of what the same compiled
// code was run on before. One Code is run on A and then on every B of an input list; every result must be what a
// freshly compiled Code gives for that input alone.

type c19HistCase struct {
	Src   string
	First run.TV   // the input the shared Code sees first
	Rest  []run.TV // then these, in order
	Exact bool     // compare error texts literally (programs without objects)
}

var kC19Hist = run.NewKind("c19.history", func(c *run.Ctx, t c19HistCase) *run.Fail {
	shared := run.Compile(t.Src)
	if shared.Code == nil {
		c.Inconclusive("does-not-compile")
		return nil
	}
	same := func(a, b run.Trace) string {
		if t.Exact {
			if x, y := run.TraceDesc(a), run.TraceDesc(b); x != y {
				return x + "  vs fresh  " + y
			}
			return ""
		}
		d, _ := run.SameTrace(a, b, run.DiffOpt{})
		return d
	}
	_ = run.RunCode(shared.Code, run.DeepCopy(t.First.V), nil, 100000, 50)
	seen := 0
	for i, in := range t.Rest {
		got := run.RunCode(shared.Code, run.DeepCopy(in.V), nil, 100000, 50)
		fresh := run.Compile(t.Src)
		if fresh.Code == nil {
			c.Inconclusive("does-not-compile")
			return nil
		}
		want := run.RunCode(fresh.Code, run.DeepCopy(in.V), nil, 100000, 50)
		if got.End == run.EndBudget || want.End == run.EndBudget {
			c.Inconclusive("budget")
			continue
		}
		if d := same(got, want); d != "" {
			return run.Failf("%q on %s, as run #%d of a Code first run on %s: %s", t.Src, run.Clip(run.Canon(in.V)), i+2, run.Clip(run.Canon(t.First.V)), d)
		}
		if len(got.Vals) > 0 {
			seen++
		}
	}
	if seen > 0 {
		c.Nontrivial(t.Src + run.Canon(t.First.V))
	}
	c.AddEvals(int64(len(t.Rest)))
	c.Count("history_comparisons", int64(len(t.Rest)))
	return nil
})

var c19HistRegexProgs = []string{
	`. as [$s, $re, $f] | $s | [(try test($re; $f) catch "ERR"), (try [match($re; $f) | .offset] catch "ERR")]`,
	`. as [$s, $re, $f] | $s | [(try sub($re; "_"; $f) catch "ERR"), (try [scan($re; $f)] catch "ERR"), (try [splits($re; $f)] catch "ERR")]`,
	`. as [$s, $re, $f] | $s | if $f == null then [(try test($re) catch "ERR"), (try capture($re) catch "ERR"), (try [split($re; null)] catch "ERR")] else [(try test($re; $f) catch "ERR"), (try capture($re; $f) catch "ERR"), (try gsub($re; "-"; $f) catch "ERR")] end`,
	`. as [$s, $re, $f] | $s | try (if $f == null then test($re) else test([$re, $f]) end) catch "ERR"`,
}

func c19HistRegexInputs() []run.TV {
	var out []run.TV
	for _, s := range []string{"XI xi x\nXG xg IX ix GX gx", "aG\nag AI ai a IA ia GA ga"} {
		for _, re := range []string{"x", "xi", "xg", "xgi", "xn", "xx", "x.", "x$", "a", "ag", "ai", "a.", "(?i)x", "^x", "xs", "xl", "xp", "ix", "gx", "gix", "nx", "ia", "ga", "sx", "igx"} {
			for _, f := range []any{nil, "", "i", "g", "gi", "x", "n", "s", "l", "p", "ig", "xi"} {
				out = append(out, run.TV{V: []any{s, re, f}})
			}
		}
	}
	return out
}

func c19BodyHistory(c *run.Ctx) {
	r := c.Rand("c19.history")
	ins := c19HistRegexInputs()
	c.Gauge("history_regex_inputs", int64(len(ins)))
	for _, src := range c19HistRegexProgs {
		for i, a := range ins {
			if c.Quick() && i%3 != int(r.IntN(3)) {
				continue
			}
			// the inputs that share the subject of a, rotated so that every run starts its list elsewhere
			var rest []run.TV
			for j := range ins {
				b := ins[(i+j)%len(ins)]
				if b.V.([]any)[0] == a.V.([]any)[0] {
					rest = append(rest, b)
				}
			}
			kC19Hist.Do(c, c19HistCase{Src: src, First: a, Rest: rest, Exact: true})
		}
	}
	// error messages and texts over containers with many members: a function of query and input, not of the walk of a map
	for _, nkeys := range []int{9, 17, 40} {
		big := map[string]any{}
		for i := 0; i < nkeys; i++ {
			big[fmt.Sprintf("k%03d", i)] = i
		}
		for _, src := range c05BigPrograms {
			if strings.Contains(src, "input") || strings.Contains(src, "$ENV") || strings.Contains(src, "$__loc__") {
				continue
			}
			t := c19HistCase{Src: src, First: run.TV{V: big}, Exact: true}
			for j := 0; j < 6; j++ {
				t.Rest = append(t.Rest, run.TV{V: map[string]any{"o": big}}, run.TV{V: big})
			}
			kC19Hist.Do(c, t)
		}
	}
	// order-sensitive folds over the members of an object (floating-point sums that cancel): a function of query and
	// input, sixteen runs each
	for variant := 0; variant < c.N(3, 12); variant++ {
		k := fmt.Sprintf("w%02d", variant)
		for _, obj := range []any{
			map[string]any{k + "a": 1e100, k + "b": 1.0, k + "c": -1e100},
			map[string]any{k + "a": 1e16, k + "b": 1.0, k + "c": 1.0, k + "d": -1e16},
			map[string]any{k + "a": 0.1, k + "b": 0.2, k + "c": 0.3, k + "d": 1e17, k + "e": -1e17, k + "f": 0.7, k + "g": 1e-9, k + "h": 3.0},
		} {
			for _, src := range c05OrderFolds {
				t := c19HistCase{Src: src, First: run.TV{V: obj}, Exact: true}
				for j := 0; j < 16; j++ {
					t.Rest = append(t.Rest, run.TV{V: obj})
				}
				kC19Hist.Do(c, t)
			}
		}
	}
	small := gen.USmall()
	for i := 0; i < c.N(1500, 30000); i++ {
		g := &gen.G1{R: r, Lits: 3, Updates: 3}
		src := g.Program(1 + r.IntN(3))
		if strings.Contains(src, "now") || strings.Contains(src, "input") || strings.Contains(src, "localtime") || strings.Contains(src, "mktime") || strings.Contains(src, "$__loc__") {
			continue
		}
		t := c19HistCase{Src: src, First: run.TV{V: small[r.IntN(len(small))]}}
		for j := 0; j < 5; j++ {
			t.Rest = append(t.Rest, run.TV{V: small[r.IntN(len(small))]})
		}
		kC19Hist.Do(c, t)
	}
}

// c19.modvars: the names given to WithVariables are bound to the values passed to Run everywhere the program can
// mention them, also inside modules it imports (under an alias, by include, through another module).

type c19ModVarsCase struct {
	Names []string
	Vals  []run.TV
	Main  string
	Mods  map[string]string
	Want  run.TV
}

type c19MapLoader map[string]string

func (l c19MapLoader) LoadJSON(name string) (any, error) {
	if _, ok := l["json:"+name]; !ok {
		return nil, fmt.Errorf("module not found: %q", name)
	}
	return []any{"data of " + name}, nil
}

func (l c19MapLoader) LoadModule(name string) (*gojq.Query, error) {
	src, ok := l[name]
	if !ok {
		return nil, fmt.Errorf("module not found: %q", name)
	}
	return gojq.Parse(src)
}

var kC19ModVars = run.NewKind("c19.modvars", func(c *run.Ctx, t c19ModVarsCase) *run.Fail {
	res := run.Compile(t.Main, gojq.WithVariables(t.Names), gojq.WithModuleLoader(c19MapLoader(t.Mods)))
	if res.Code == nil {
		return run.Failf("%q with modules %v and variables %v does not compile: %v %s", t.Main, t.Mods, t.Names, res.Err, res.Panic)
	}
	vals := make([]any, len(t.Vals))
	for i, v := range t.Vals {
		vals[i] = v.V
	}
	tr := run.RunCode(res.Code, nil, vals, 100000, 10)
	if tr.End != run.EndOK || len(tr.Vals) != 1 || run.Canon(tr.Vals[0]) != run.Canon(t.Want.V) {
		return run.Failf("%q with modules %v, variables %v = %s: %s, expected %s", t.Main, t.Mods, t.Names, run.Canon(vals), run.TraceDesc(tr), run.Canon(t.Want.V))
	}
	c.Nontrivial(t.Main + fmt.Sprint(t.Names, t.Mods))
	return nil
})

func c19BodyModVars(c *run.Ctx) {
	r := c.Rand("c19.modvars")
	for i := 0; i < c.N(300, 6000); i++ {
		n := 1 + r.IntN(4)
		names := make([]string, n)
		vals := make([]run.TV, n)
		for j := range names {
			names[j] = fmt.Sprintf("$v%d", j)
			vals[j] = run.TV{V: c19TagVal(r, "mv", j)}
		}
		k := r.IntN(n) // the variable the module mentions
		use := names[k]
		mods := map[string]string{}
		var main string
		want := []any{vals[k].V, vals[k].V}
		switch r.IntN(9) {
		case 7:
			// a data import named like the variable: the importer sees the data, a module imported under an alias the Run value
			mods["m"], mods["json:d"] = "def f: "+use+";", "x"
			main = `import "d" as ` + use + `; import "m" as m; [m::f, ` + use + `]`
			if r.IntN(2) == 0 {
				main = `import "m" as m; import "d" as ` + use + `; [m::f, ` + use + `]`
			}
			want = []any{vals[k].V, []any{"data of d"}}
		case 8:
			mods["m"], mods["n"], mods["json:d"] = `import "n" as n; def f: n::g;`, "def g: "+use+";", "x"
			main = `import "d" as ` + use + `; import "m" as m; [m::f, (` + use + ` | length)]`
			want = []any{vals[k].V, 1}
		case 0:
			mods["m"] = "def f: " + use + ";"
			main = `import "m" as m; [m::f, ` + use + `]`
		case 1:
			mods["m"] = "def f: " + use + ";"
			main = `include "m"; [f, ` + use + `]`
		case 2:
			mods["m"] = `import "n" as n; def f: n::g;`
			mods["n"] = "def g: " + use + ";"
			main = `import "m" as m; [m::f, ` + use + `]`
		case 3:
			mods["m"] = `include "n"; def f: g;`
			mods["n"] = "def g: [" + use + "] | .[0];"
			main = `import "m" as m; [m::f, ` + use + `]`
		case 4:
			mods["m"] = "def f($x): [$x, " + use + "];"
			main = `import "m" as m; 7 as $x | m::f(` + use + `)`
		case 5:
			mods["m"] = "def f: . as [" + strings.Join(names, ", ") + "] | " + use + "; def g: " + use + ";"
			main = `import "m" as m; [([` + strings.Repeat(`"shadow", `, n-1) + `"shadow"] | m::f), m::g]`
			want = []any{"shadow", vals[k].V}
		default:
			mods["m"] = "def f: def h: " + use + "; [h, (1 as " + use + " | " + use + "), " + use + "];"
			main = `import "m" as m; import "m" as m2; [m::f, m2::f] | [.[0][0], .[1][2]]`
		}
		kC19ModVars.Do(c, c19ModVarsCase{Names: names, Vals: vals, Main: main, Mods: mods, Want: run.TV{V: want}})
	}
}
