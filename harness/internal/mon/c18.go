package mon

import (
	"bytes"
	"encoding/json"
	"fmt"
	"os"
	"path"
	"path/filepath"
	"sort"
	"strconv"
	"strings"

	"verif/harness/internal/run"

	"github.com/itchyny/gojq"
)

// ---- C18: modules behave as textual inclusion with namespacing ----
//
// A case is a whole module tree (files relative to a temp root), a search-path
// configuration, a main program and a list of variants (one extra definition
// calling some name, or one extra import, added to one file). For the base
// tree and for every variant three things are computed and compared:
//
//   real   – the real library (NewModuleLoader + Compile + Run) or the real
//            command (-L / default paths with HOME redirected) on the files
//            written to disk;
//   model  – c18Model: file resolution over the case's file list (never the
//            disk) and a scope model (include = splice, import = exactly the
//            module's top-level definitions under alias::, later shadows);
//   inline – one single-file program printed from the same structure, every
//            definition renamed <alias>__<name>, run without a module loader.
//
// Every generated definition returns [label, results of its calls...], so the
// definition each call site resolved to is directly visible in the output.

// c18Call is a call site: a function call `[Q::]N(args)` or a data variable.
type c18Call struct {
	Q string `json:"q,omitempty"`
	N string `json:"n"`
	A int    `json:"a,omitempty"`
	V int    `json:"v,omitempty"` // 0 function, 1 `$N`, 2 `$N::N`
}

func (k c18Call) key() string {
	switch k.V {
	case 1:
		return "$" + k.N
	case 2:
		return "$" + k.N + "::" + k.N
	}
	s := k.N + "/" + strconv.Itoa(k.A)
	if k.Q != "" {
		s = k.Q + "::" + s
	}
	return s
}

func c18Args(n int) string {
	if n == 0 {
		return ""
	}
	var a []string
	for i := 0; i < n; i++ {
		a = append(a, fmt.Sprintf("%q", "a"+strconv.Itoa(i)))
	}
	return "(" + strings.Join(a, ";") + ")"
}

// c18Probe wraps a variable reference: the value itself, unless it is an array that deletions turn into null (a nil Go
// slice standing for an empty array: prints like [], is not one).
func c18Probe(ref string) string {
	return "(" + ref + " | if (try ((del(.[0]) == null) or (delpaths([[3]]) == null)) catch false) then \"NOT-AN-ARRAY-UNDER-DELETION\" else . end)"
}

func (k c18Call) src() string {
	switch k.V {
	case 1:
		return c18Probe("$" + k.N)
	case 2:
		return c18Probe("$" + k.N + "::" + k.N)
	}
	s := k.N
	if k.Q != "" {
		s = k.Q + "::" + k.N
	}
	return s + c18Args(k.A)
}

type c18Def struct {
	N     string    `json:"n"`
	A     int       `json:"a,omitempty"`
	Calls []c18Call `json:"calls,omitempty"`
	UseP  bool      `json:"usep,omitempty"` // body also emits its first parameter
}

type c18Imp struct {
	K      string `json:"k"` // include | import | data
	P      string `json:"p"`
	As     string `json:"as,omitempty"`
	Search string `json:"search,omitempty"`
	Tag    string `json:"tag,omitempty"`
	Style  int    `json:"style,omitempty"` // bit0 quoted keys, bit1 tag before search, bit2 decoy keys as/relpath/is_data
}

type c18KV struct{ K, V string } // metadata key, JSON text of its value

type c18File struct {
	Rel   string   `json:"rel"` // path below the root ("" = main program)
	Meta  []c18KV  `json:"meta,omitempty"`
	MetaQ bool     `json:"metaq,omitempty"`
	Imps  []c18Imp `json:"imps,omitempty"`
	Defs  []c18Def `json:"defs,omitempty"`
	Docs  []string `json:"docs,omitempty"` // data file: JSON texts
	Sep   string   `json:"sep,omitempty"`
	Data  bool     `json:"data,omitempty"`
}

// c18Var is a variant of the base tree: file File ("" = main) gets one more
// import (Imp) or one more definition `zz` calling Call, at its end.
type c18Var struct {
	File string   `json:"file"`
	Call *c18Call `json:"call,omitempty"`
	Imp  *c18Imp  `json:"imp,omitempty"`
}

type c18Case struct {
	Mode  string    `json:"mode"` // lib | cli | clirel | home | homeL
	Libs  []string  `json:"libs"` // search directories below the root, in order
	Files []c18File `json:"files"`
	Main  c18File   `json:"main"`
	Home  *c18File  `json:"home,omitempty"` // ~/.jq as a file
	Mods  []string  `json:"mods"`           // module names (modulemeta)
	Vars  []c18Var  `json:"vars"`
	// Globals: names (without $) bound by WithVariables / --arg to the string "G:<name>"; visible in the main
	// program and in every module, unless a data import of the same file binds the name again
	Globals []string `json:"globals,omitempty"`
	// DupGlobals: every global is given twice (WithVariables with a repeated name and value; --arg twice, plus a
	// named argument called ARGS, which the command's own $ARGS repeats): what is visible where must not change
	DupGlobals bool `json:"dupglobals,omitempty"`
}

func (cs *c18Case) newEnv() *c18Env {
	env := &c18Env{}
	for _, g := range cs.Globals {
		env.vars = append(env.vars, c18Bind{call: c18Call{N: g, V: 1}, key: "$" + g, val: "G:" + g})
	}
	return env
}

const c18Cwd = "cwd"

func (cs *c18Case) find(rel string) *c18File {
	for i := range cs.Files {
		if cs.Files[i].Rel == rel {
			return &cs.Files[i]
		}
	}
	return nil
}

// resolve is the file-resolution model: for every search directory in order
// dir/name.ext, then dir/name/<basename>.ext; a search entry (already
// resolved against the importing file's directory) comes first. It reports
// whether the directory form was used and whether another candidate existed
// later in the order.
func (cs *c18Case) resolve(name, ext, search string) (f *c18File, dirForm, orderMatters bool) {
	dirs := cs.Libs
	if search != "" {
		dirs = append([]string{search}, cs.Libs...)
	}
	for _, d := range dirs {
		for form, cand := range []string{path.Join(d, name+ext), path.Join(d, name, path.Base(name)+ext)} {
			if g := cs.find(cand); g != nil {
				if f == nil {
					f, dirForm = g, form == 1
				} else if g != f {
					orderMatters = true
				}
			}
		}
	}
	return
}

// eff returns the imports and definitions of a file under a variant.
func (f *c18File) eff(v *c18Var) ([]c18Imp, []c18Def) {
	imps, defs := f.Imps, f.Defs
	if v != nil && v.File == f.Rel && !f.Data {
		if v.Imp != nil {
			imps = append(append([]c18Imp{}, imps...), *v.Imp)
		}
		if v.Call != nil {
			defs = append(append([]c18Def{}, defs...), c18Def{N: "zz", Calls: []c18Call{*v.Call}})
		}
	}
	return imps, defs
}

func (f *c18File) dir() string {
	if f.Rel == "" {
		return c18Cwd
	}
	return path.Dir(f.Rel)
}

func (f *c18File) label(i int, d c18Def) string {
	rel := f.Rel
	if rel == "" {
		rel = "main"
	}
	return fmt.Sprintf("%s#%d:%s/%d", rel, i, d.N, d.A)
}

// ---- printing the real files ----

func (im c18Imp) metaText() string {
	var kvs []string
	q := func(k string) string {
		if im.Style&1 != 0 {
			return strconv.Quote(k)
		}
		return k
	}
	if im.Search != "" {
		kvs = append(kvs, q("search")+": "+strconv.Quote(im.Search))
	}
	if im.Tag != "" {
		kv := q("tag") + ": " + strconv.Quote(im.Tag)
		if im.Style&2 != 0 {
			kvs = append([]string{kv}, kvs...)
		} else {
			kvs = append(kvs, kv)
		}
	}
	if im.Style&4 != 0 {
		// decoys: metadata keys named like the fields modulemeta computes for a dependency; the computed fields win
		// (an include has no `as` of its own, so a metadata key of that name would legitimately show through)
		kvs = append(kvs, q("relpath")+": \"other/place\"", q("is_data")+": "+strconv.FormatBool(im.K != "data"))
		if im.K != "include" {
			kvs = append(kvs, q("as")+": \"zzz\"")
		}
	}
	if len(kvs) == 0 {
		return ""
	}
	return " { " + strings.Join(kvs, ", ") + " }"
}

func (im c18Imp) text() string {
	switch im.K {
	case "include":
		return fmt.Sprintf("include %q%s;\n", im.P, im.metaText())
	case "data":
		return fmt.Sprintf("import %q as $%s%s;\n", im.P, im.As, im.metaText())
	}
	return fmt.Sprintf("import %q as %s%s;\n", im.P, im.As, im.metaText())
}

func c18Params(n int) string {
	if n == 0 {
		return ""
	}
	var a []string
	for i := 0; i < n; i++ {
		a = append(a, "p"+strconv.Itoa(i))
	}
	return "(" + strings.Join(a, "; ") + ")"
}

func (f *c18File) defText(i int, d c18Def, name string, call func(c18Call) string) string {
	var sb strings.Builder
	fmt.Fprintf(&sb, "def %s%s: [%q", name, c18Params(d.A), f.label(i, d))
	for _, k := range d.Calls {
		sb.WriteString(", " + call(k))
	}
	if d.UseP && d.A > 0 {
		sb.WriteString(", p0")
	}
	sb.WriteString("];\n")
	return sb.String()
}

// text prints a module, data or main file (without the main query).
func (f *c18File) text(v *c18Var) string {
	if f.Data {
		return strings.Join(f.Docs, f.Sep) + "\n"
	}
	var sb strings.Builder
	if len(f.Meta) > 0 {
		var kvs []string
		for _, kv := range f.Meta {
			k := kv.K
			if f.MetaQ {
				k = strconv.Quote(k)
			}
			kvs = append(kvs, k+": "+kv.V)
		}
		sb.WriteString("module { " + strings.Join(kvs, ", ") + " };\n")
	}
	imps, defs := f.eff(v)
	for _, im := range imps {
		sb.WriteString(im.text())
	}
	for i, d := range defs {
		sb.WriteString(f.defText(i, d, d.N, c18Call.src))
	}
	return sb.String()
}

func c18Query(calls []c18Call, src func(c18Call) string) string {
	if len(calls) == 0 {
		return `"none"`
	}
	var parts []string
	for _, k := range calls {
		parts = append(parts, src(k))
	}
	return strings.Join(parts, ", ")
}

// ---- the resolution / scope model ----

type c18Any struct{} // position whose resolution the statement does not fix

type c18Bind struct {
	call c18Call
	key  string
	val  any
	amb  bool
}

type c18Env struct{ funcs, vars []c18Bind }

func (e *c18Env) lookup(k c18Call) *c18Bind {
	list := e.funcs
	if k.V != 0 {
		list = e.vars
	}
	key := k.key()
	for i := len(list) - 1; i >= 0; i-- {
		if list[i].key == key {
			return &list[i]
		}
	}
	return nil
}

type c18Model struct {
	cs                                                                                  *c18Case
	v                                                                                   *c18Var
	leaky                                                                               bool   // diagnostic variant: an imported module sees its importer's earlier names
	fail                                                                                string // why the program must not compile ("" = it must)
	class                                                                               string // notfound | undefined | generator
	loaded                                                                              map[string]int
	nAlias, nData, nInclude, nSearch, nDirForm, nOrder, nShadow, nArity, nAmb, nAmbUsed int
}

func newC18Model(cs *c18Case, v *c18Var) *c18Model {
	return &c18Model{cs: cs, v: v, loaded: map[string]int{}}
}

func c18Decode(docs []string) []any {
	vals := []any{}
	for _, d := range docs {
		dec := json.NewDecoder(strings.NewReader(d))
		dec.UseNumber()
		var v any
		if err := dec.Decode(&v); err != nil {
			panic("c18: bad generated JSON document " + d)
		}
		vals = append(vals, v)
	}
	return vals
}

func (m *c18Model) imp(f *c18File, im c18Imp, env *c18Env, depth int) {
	ext := ".jq"
	if im.K == "data" {
		ext = ".json"
	}
	search := ""
	if im.Search != "" {
		search = path.Join(f.dir(), im.Search)
		m.nSearch++
	}
	g, dirForm, order := m.cs.resolve(im.P, ext, search)
	if g == nil {
		m.fail, m.class = fmt.Sprintf("module %q imported by %q cannot be resolved", im.P, f.Rel), "notfound"
		return
	}
	if dirForm {
		m.nDirForm++
	}
	if order {
		m.nOrder++
	}
	switch im.K {
	case "data":
		m.nData++
		m.loaded[g.Rel]++
		vals := c18Decode(g.Docs)
		env.vars = append(env.vars,
			c18Bind{call: c18Call{N: im.As, V: 1}, key: "$" + im.As, val: vals},
			c18Bind{call: c18Call{N: im.As, V: 2}, key: "$" + im.As + "::" + im.As, val: vals})
	case "include":
		m.nInclude++
		m.file(g, env, depth+1)
	default:
		m.nAlias++
		sub, base := m.cs.newEnv(), 0
		if m.leaky {
			sub.funcs = append(sub.funcs, env.funcs...)
			sub.vars = append(sub.vars, env.vars...)
			base = len(sub.funcs)
		}
		m.file(g, sub, depth+1)
		if m.fail != "" {
			return
		}
		for _, b := range sub.funcs[base:] {
			if b.call.Q != "" {
				continue // names the module imported under its own aliases are not exported
			}
			nb := b
			nb.call.Q = im.As
			nb.key = nb.call.key()
			nb.amb = false
			if old := env.lookup(nb.call); old != nil && c18Show(old.val) != c18Show(nb.val) {
				// the same alias::name/arity from a different module: the
				// statement does not say which import wins
				nb.amb = true
				m.nAmb++
			}
			env.funcs = append(env.funcs, nb)
		}
	}
}

func (m *c18Model) def(f *c18File, i int, d c18Def, env *c18Env) {
	tree := []any{f.label(i, d)}
	for _, k := range d.Calls {
		if k.V == 0 && k.Q == "" && k.N == d.N && k.A == d.A {
			m.fail, m.class = "generated definition calls itself", "generator"
			return
		}
		b := env.lookup(k)
		if b == nil {
			m.fail, m.class = fmt.Sprintf("%s is not visible in %s (definition %s/%d)", k.key(), f.label(i, d), d.N, d.A), "undefined"
			return
		}
		if b.amb {
			m.nAmbUsed++
			tree = append(tree, c18Any{})
		} else {
			tree = append(tree, b.val)
		}
	}
	if d.UseP && d.A > 0 {
		tree = append(tree, "a0")
	}
	me := c18Call{N: d.N, A: d.A}
	for j := len(env.funcs) - 1; j >= 0; j-- {
		if o := env.funcs[j].call; o.Q == "" && o.N == d.N {
			if o.A == d.A {
				m.nShadow++
			} else {
				m.nArity++
			}
			break
		}
	}
	env.funcs = append(env.funcs, c18Bind{call: me, key: me.key(), val: tree})
}

func (m *c18Model) imports(f *c18File, env *c18Env, depth int) {
	imps, _ := f.eff(m.v)
	for _, im := range imps {
		if m.imp(f, im, env, depth); m.fail != "" {
			return
		}
	}
}

// file processes one module file in env: its imports, then its definitions.
// Data variables imported by the file end with the file's text (pinned by
// cli/test.yaml "module directory option variable name conflict").
func (m *c18Model) file(f *c18File, env *c18Env, depth int) {
	if depth > 10 {
		m.fail, m.class = "import cycle in generated tree", "generator"
		return
	}
	m.loaded[f.Rel]++
	mark := len(env.vars)
	if m.imports(f, env, depth); m.fail != "" {
		return
	}
	_, defs := f.eff(m.v)
	for i, d := range defs {
		if m.def(f, i, d, env); m.fail != "" {
			return
		}
	}
	if f.Rel != "" {
		env.vars = env.vars[:mark]
	}
}

// program processes ~/.jq (if it is a file on the search path) and the main
// program and returns the calls of every visible name with expected values.
func (m *c18Model) program() (calls []c18Call, exp []any) {
	env := m.cs.newEnv()
	if m.cs.Home != nil {
		if m.file(m.cs.Home, env, 1); m.fail != "" {
			return nil, nil
		}
	}
	if m.file(&m.cs.Main, env, 0); m.fail != "" {
		return nil, nil
	}
	seen := map[string]bool{}
	var bs []c18Bind
	for _, list := range [][]c18Bind{env.vars, env.funcs} {
		for i := len(list) - 1; i >= 0; i-- {
			if b := list[i]; !seen[b.key] {
				seen[b.key] = true
				bs = append(bs, b)
			}
		}
	}
	for i := len(bs) - 1; i >= 0; i-- {
		calls = append(calls, bs[i].call)
		if bs[i].amb {
			m.nAmbUsed++
			exp = append(exp, c18Any{})
		} else {
			exp = append(exp, bs[i].val)
		}
	}
	if len(calls) == 0 {
		exp = []any{"none"}
	}
	return
}

func c18Match(exp, act any) bool {
	switch e := exp.(type) {
	case c18Any:
		return true
	case []any:
		a, ok := act.([]any)
		if !ok || len(a) != len(e) {
			return false
		}
		for i := range e {
			if !c18Match(e[i], a[i]) {
				return false
			}
		}
		return true
	}
	return run.Canon(exp) == run.Canon(act)
}

func c18Plain(v any) any {
	switch v := v.(type) {
	case c18Any:
		return "<unspecified>"
	case []any:
		w := make([]any, len(v))
		for i := range v {
			w[i] = c18Plain(v[i])
		}
		return w
	}
	return v
}

func c18HasAny(v any) bool {
	switch v := v.(type) {
	case c18Any:
		return true
	case []any:
		for _, x := range v {
			if c18HasAny(x) {
				return true
			}
		}
	}
	return false
}

func c18Show(v any) string { return run.Canon(c18Plain(v)) }

func c18Sites(v any) int64 {
	a, ok := v.([]any)
	if !ok {
		return 0
	}
	var n int64
	if len(a) > 0 {
		if s, ok := a[0].(string); ok && strings.Contains(s, "#") {
			n = 1
		}
	}
	for _, x := range a {
		n += c18Sites(x)
	}
	return n
}

func c18Size(v any) int {
	a, ok := v.([]any)
	if !ok {
		return 1
	}
	n := 1
	for _, x := range a {
		n += c18Size(x)
	}
	return n
}

// ---- the inlined program (textual inclusion with renaming) ----

type c18Inl struct {
	cs   *c18Case
	v    *c18Var
	sb   strings.Builder
	fail string
	vars [][2]string // data alias -> unique inlined name, scoped like the file texts
	uniq int
}

func (p *c18Inl) call(prefix string) func(c18Call) string {
	return func(k c18Call) string {
		if k.V != 0 {
			for i := len(p.vars) - 1; i >= 0; i-- {
				if p.vars[i][0] == k.N {
					return p.vars[i][1]
				}
			}
			if k.V == 1 {
				for _, g := range p.cs.Globals {
					if g == k.N {
						return "$" + g // a global variable of the compilation, visible everywhere
					}
				}
			}
			return "UNBOUND_" + k.N
		}
		s := prefix
		if k.Q != "" {
			s += k.Q + "__"
		}
		return s + k.N + c18Args(k.A)
	}
}

// file prints f's imports and definitions under prefix and returns the
// name/arity list of the definitions printed in that namespace (the module's
// exports). A module imported as `a` is printed under a prefix of its own
// (unique per import directive, so nothing else can reach into it) followed by
// one forwarding definition <prefix>a__name per export.
func (p *c18Inl) file(f *c18File, prefix string, fresh bool, depth int) (exports []c18Call) {
	if depth > 10 {
		p.fail = "cycle"
		return
	}
	saved := p.vars
	if fresh {
		p.vars = nil
	}
	mark := len(p.vars)
	imps, defs := f.eff(p.v)
	for _, im := range imps {
		ext := ".jq"
		if im.K == "data" {
			ext = ".json"
		}
		search := ""
		if im.Search != "" {
			search = path.Join(f.dir(), im.Search)
		}
		g, _, _ := p.cs.resolve(im.P, ext, search)
		if g == nil {
			p.fail = "module not found"
			return
		}
		switch im.K {
		case "data":
			p.uniq++
			name := fmt.Sprintf("%sV%d_%s", prefix, p.uniq, im.As)
			fmt.Fprintf(&p.sb, "def %s: [%s];\n", name, strings.Join(g.Docs, ","))
			p.vars = append(p.vars, [2]string{im.As, name})
		case "include":
			exports = append(exports, p.file(g, prefix, false, depth+1)...)
		default:
			p.uniq++
			inner := fmt.Sprintf("%s%s_%d__", prefix, im.As, p.uniq)
			for _, e := range p.file(g, inner, true, depth+1) {
				fmt.Fprintf(&p.sb, "def %s%s__%s%s: %s%s%s;\n", prefix, im.As, e.N, c18Params(e.A), inner, e.N, strings.ReplaceAll(c18Params(e.A), "; ", ";"))
			}
		}
		if p.fail != "" {
			return
		}
	}
	for i, d := range defs {
		p.sb.WriteString(f.defText(i, d, prefix+d.N, p.call(prefix)))
		exports = append(exports, c18Call{N: d.N, A: d.A})
	}
	if f.Rel != "" {
		p.vars = p.vars[:mark]
	}
	if fresh {
		p.vars = saved
	}
	return
}

func c18Inline(cs *c18Case, v *c18Var, calls []c18Call) (string, string) {
	p := &c18Inl{cs: cs, v: v}
	if cs.Home != nil {
		p.file(cs.Home, "", false, 1)
	}
	if p.fail == "" {
		p.file(&cs.Main, "", false, 0)
	}
	if p.fail != "" {
		return "", p.fail
	}
	p.sb.WriteString(c18Query(calls, p.call("")))
	return p.sb.String(), ""
}

// ---- running the real thing ----

type c18Out struct {
	ok    bool   // compiled and ran to the end
	cerr  string // compile (or parse / load) error
	vals  []any
	bad   string // anything else: runtime error, panic, unexpected exit status
	incon string
}

func c18FromTrace(tr run.Trace) c18Out {
	switch tr.End {
	case run.EndOK:
		return c18Out{ok: true, vals: tr.Vals}
	case run.EndError:
		return c18Out{bad: "runtime error: " + tr.Err.Error()}
	case run.EndPanic:
		return c18Out{bad: "panic: " + tr.Panic}
	}
	return c18Out{incon: "budget"}
}

func c18RunLib(src string, opts ...gojq.CompilerOption) c18Out {
	return c18RunLibGlobals(src, nil, opts...)
}

func c18RunLibGlobals(src string, globals []string, opts ...gojq.CompilerOption) c18Out {
	var vals []any
	if len(globals) > 0 {
		names := make([]string, len(globals))
		for i, g := range globals {
			names[i] = "$" + g
			vals = append(vals, "G:"+g)
		}
		opts = append(opts, gojq.WithVariables(names))
	}
	res := run.Compile(src, opts...)
	if res.Panic != "" {
		return c18Out{bad: "panic in " + res.Stage + ": " + res.Panic}
	}
	if res.Err != nil {
		return c18Out{cerr: res.Stage + ": " + res.Err.Error()}
	}
	return c18FromTrace(run.RunCode(res.Code, nil, vals, 2000000, 0))
}

type c18Runner struct {
	cs   *c18Case
	root string
}

func (r *c18Runner) abs(rel string) string { return filepath.Join(r.root, filepath.FromSlash(rel)) }

func (r *c18Runner) libArgs() (libs []string) {
	for _, l := range r.cs.Libs {
		switch {
		case l == "home/.jq" && r.cs.Mode != "lib":
			libs = append(libs, "~/.jq")
		case r.cs.Mode == "clirel":
			rel, _ := filepath.Rel(r.abs(c18Cwd), r.abs(l))
			libs = append(libs, rel)
		default:
			libs = append(libs, r.abs(l))
		}
	}
	return
}

func (r *c18Runner) cli(args []string, stdin string) run.CLIResult {
	var full []string
	if r.cs.Mode != "home" { // home: the command's default search list
		for i, l := range r.libArgs() {
			switch i % 3 {
			case 0:
				full = append(full, "-L", l)
			case 1:
				full = append(full, "-L"+l)
			default:
				full = append(full, "--library-path", l)
			}
		}
	}
	full = append(full, args...)
	dir := r.abs(c18Cwd)
	if r.cs.Mode == "clif" {
		// the program file lies in the directory the other modes run in; the command runs somewhere else, so that a
		// relative search path of the program can only be found relative to the program file
		dir = r.abs("elsewhere")
		if n := len(full); n > 0 {
			file := filepath.Join(r.abs(c18Cwd), "main-program.jq")
			if os.WriteFile(file, []byte(full[n-1]), 0o644) == nil {
				full = append(full[:n-1:n-1], "-f", file)
			}
		}
	}
	return run.CLI(run.CLIOpt{Args: full, Stdin: []byte(stdin),
		Env: []string{"PATH=/usr/bin:/bin", "HOME=" + r.abs("home"), "LANG=C"}, Dir: dir})
}

func c18ParseOut(b []byte) ([]any, error) {
	dec := json.NewDecoder(bytes.NewReader(b))
	dec.UseNumber()
	var vals []any
	for dec.More() {
		var v any
		if err := dec.Decode(&v); err != nil {
			return nil, err
		}
		vals = append(vals, v)
	}
	return vals, nil
}

func (r *c18Runner) run(src string) c18Out {
	if r.cs.Mode == "lib" {
		globals := r.cs.Globals
		if r.cs.DupGlobals {
			globals = append(append([]string{}, globals...), globals...)
		}
		return c18RunLibGlobals(src, globals, gojq.WithModuleLoader(gojq.NewModuleLoader(r.libArgs())))
	}
	args := []string{"-n", "-c"}
	for _, g := range r.cs.Globals {
		args = append(args, "--arg", g, "G:"+g)
	}
	if r.cs.DupGlobals {
		args = append(args, "--arg", "ARGS", "named like the command's own variable")
		for _, g := range r.cs.Globals {
			args = append(args, "--arg", g, "G:"+g)
		}
	}
	res := r.cli(append(args, src), "")
	switch {
	case res.TimedOut || res.StartErr != nil:
		return c18Out{incon: "cli-timeout-or-start"}
	case res.Code == 3:
		return c18Out{cerr: strings.TrimSpace(string(res.Stderr))}
	case res.Code != 0:
		return c18Out{bad: fmt.Sprintf("exit status %d: %s", res.Code, run.Clip(string(res.Stderr)))}
	}
	vals, err := c18ParseOut(res.Stdout)
	if err != nil {
		return c18Out{bad: "unparsable output: " + run.Clip(string(res.Stdout))}
	}
	return c18Out{ok: true, vals: vals}
}

func (r *c18Runner) write(f *c18File, v *c18Var) error {
	p := r.abs(f.Rel)
	if err := os.MkdirAll(filepath.Dir(p), 0o755); err != nil {
		return err
	}
	return os.WriteFile(p, []byte(f.text(v)), 0o644)
}

// ---- modulemeta ----

func c18DefsLess(a, b string) bool {
	an, aa, _ := strings.Cut(a, "/")
	bn, ba, _ := strings.Cut(b, "/")
	if an != bn {
		return an < bn
	}
	x, _ := strconv.Atoi(aa)
	y, _ := strconv.Atoi(ba)
	return x < y
}

func c18Dedup(xs []string) []string {
	var out []string
	for i, x := range xs {
		if i == 0 || x != xs[i-1] {
			out = append(out, x)
		}
	}
	return out
}

// c18MetaCmp compares a modulemeta result with what the file says. cwd is the
// directory relative search spellings in the result are resolved against.
func (r *c18Runner) metaCmp(f *c18File, act any, cwd string) string {
	obj, ok := act.(map[string]any)
	if !ok {
		return "result is not an object: " + run.Canon(act)
	}
	want := map[string]any{}
	for _, kv := range f.Meta {
		want[kv.K] = c18Decode([]string{kv.V})[0]
	}
	for k, v := range want {
		a, ok := obj[k]
		if !ok || run.Canon(a) != run.Canon(v) {
			return fmt.Sprintf("metadata key %q: %s, the module directive says %s", k, run.Canon(a), run.Canon(v))
		}
	}
	for k := range obj {
		if _, ok := want[k]; !ok && k != "deps" && k != "defs" {
			return fmt.Sprintf("unexpected key %q", k)
		}
	}
	deps, ok := obj["deps"].([]any)
	if !ok || len(deps) != len(f.Imps) {
		return fmt.Sprintf("deps = %s, the module has %d import/include directives", run.Canon(obj["deps"]), len(f.Imps))
	}
	for i, im := range f.Imps {
		d, ok := deps[i].(map[string]any)
		if !ok {
			return fmt.Sprintf("deps[%d] is not an object", i)
		}
		if d["relpath"] != im.P {
			return fmt.Sprintf("deps[%d].relpath = %s, want %q", i, run.Canon(d["relpath"]), im.P)
		}
		if d["is_data"] != (im.K == "data") {
			return fmt.Sprintf("deps[%d].is_data = %s for a directive of kind %s", i, run.Canon(d["is_data"]), im.K)
		}
		if im.K == "include" {
			if as, has := d["as"]; has && as != nil {
				return fmt.Sprintf("deps[%d].as = %s for an include", i, run.Canon(as))
			}
		} else if d["as"] != im.As {
			return fmt.Sprintf("deps[%d].as = %s, want %q", i, run.Canon(d["as"]), im.As)
		}
		if im.Tag != "" && d["tag"] != im.Tag {
			return fmt.Sprintf("deps[%d].tag = %s, want %q", i, run.Canon(d["tag"]), im.Tag)
		}
		if im.Search != "" {
			s, ok := d["search"].(string)
			if !ok {
				return fmt.Sprintf("deps[%d].search = %s, want a path", i, run.Canon(d["search"]))
			}
			want := filepath.Join(r.abs(f.dir()), filepath.FromSlash(im.Search))
			got := s
			if !filepath.IsAbs(got) {
				got = filepath.Join(cwd, got)
			}
			if s != im.Search && filepath.Clean(got) != filepath.Clean(want) {
				return fmt.Sprintf("deps[%d].search = %q denotes %s, the directive's %q (file in %s) denotes %s", i, s, got, im.Search, f.dir(), want)
			}
		}
		for k := range d {
			switch k {
			case "relpath", "is_data", "as":
			case "tag":
				if im.Tag == "" {
					return fmt.Sprintf("deps[%d] has unexpected key tag", i)
				}
			case "search":
				if im.Search == "" {
					return fmt.Sprintf("deps[%d] has unexpected key search", i)
				}
			default:
				return fmt.Sprintf("deps[%d] has unexpected key %q", i, k)
			}
		}
	}
	defs, ok := obj["defs"].([]any)
	if !ok {
		return "defs = " + run.Canon(obj["defs"])
	}
	var got, exp []string
	for _, d := range defs {
		s, ok := d.(string)
		if !ok {
			return "defs contains a non-string"
		}
		got = append(got, s)
	}
	for i := 1; i < len(got); i++ {
		if c18DefsLess(got[i], got[i-1]) {
			return fmt.Sprintf("defs is not sorted: %v", got)
		}
	}
	for _, d := range f.Defs {
		if !strings.HasPrefix(d.N, "_") {
			exp = append(exp, d.N+"/"+strconv.Itoa(d.A))
		}
	}
	sort.Slice(exp, func(i, j int) bool { return c18DefsLess(exp[i], exp[j]) })
	if fmt.Sprint(c18Dedup(got)) != fmt.Sprint(c18Dedup(exp)) {
		return fmt.Sprintf("defs = %v, the file defines %v", got, exp)
	}
	return ""
}

func (r *c18Runner) metaCheck(c *run.Ctx) *run.Fail {
	cs := r.cs
	var names []string
	var files []*c18File
	for _, n := range cs.Mods {
		f, _, _ := cs.resolve(n, ".jq", "")
		if f == nil {
			if cs.Mode == "lib" {
				out := c18RunLibInput("modulemeta", n, gojq.WithModuleLoader(gojq.NewModuleLoader(r.libArgs())))
				if out.ok {
					return run.Failf("%q | modulemeta succeeded (%s) although no search directory holds the module; libs=%v", n, run.CanonList(out.vals), cs.Libs)
				}
				c.Count("modulemeta_not_found", 1)
			}
			continue
		}
		names, files = append(names, n), append(files, f)
	}
	if len(names) == 0 {
		return nil
	}
	var vals []any
	cwd := r.abs(c18Cwd)
	if cs.Mode == "lib" {
		cwd, _ = os.Getwd()
		for _, n := range names {
			out := c18RunLibInput("modulemeta", n, gojq.WithModuleLoader(gojq.NewModuleLoader(r.libArgs())))
			if !out.ok || len(out.vals) != 1 {
				return run.Failf("%q | modulemeta failed: %s %s %s", n, out.cerr, out.bad, run.CanonList(out.vals))
			}
			vals = append(vals, out.vals[0])
		}
	} else {
		var in []string
		for _, n := range names {
			in = append(in, strconv.Quote(n))
		}
		margs := []string{"-c"}
		for _, g := range cs.Globals {
			margs = append(margs, "--arg", g, "G:"+g) // ~/.jq is compiled too and may refer to them
		}
		res := r.cli(append(margs, "modulemeta"), strings.Join(in, "\n"))
		if res.TimedOut || res.StartErr != nil {
			c.Inconclusive("cli-timeout-or-start")
			return nil
		}
		var err error
		if vals, err = c18ParseOut(res.Stdout); res.Code != 0 || err != nil || len(vals) != len(names) {
			return run.Failf("modulemeta on %v through the command: exit %d, stdout %s, stderr %s", names, res.Code, run.Clip(string(res.Stdout)), run.Clip(string(res.Stderr)))
		}
	}
	for i, f := range files {
		if d := r.metaCmp(f, vals[i], cwd); d != "" {
			return run.Failf("%q | modulemeta (resolved to %s by the model; libs=%v) = %s\n%s\nmodule text:\n%s", names[i], f.Rel, cs.Libs, run.Canon(vals[i]), d, f.text(nil))
		}
		c.Count("modulemeta_compared", 1)
		c.Count("modulemeta_deps_compared", int64(len(f.Imps)))
	}
	return nil
}

func c18RunLibInput(src string, input any, opts ...gojq.CompilerOption) c18Out {
	res := run.Compile(src, opts...)
	if res.Panic != "" {
		return c18Out{bad: "panic in " + res.Stage + ": " + res.Panic}
	}
	if res.Err != nil {
		return c18Out{cerr: res.Stage + ": " + res.Err.Error()}
	}
	return c18FromTrace(run.RunCode(res.Code, input, nil, 2000000, 0))
}

// ---- the check ----

func (cs *c18Case) describe(v *c18Var) string {
	var sb strings.Builder
	fmt.Fprintf(&sb, "mode=%s libs=%v\n", cs.Mode, cs.Libs)
	if cs.Home != nil {
		fmt.Fprintf(&sb, "--- ~/.jq (file)\n%s", cs.Home.text(v))
	}
	for i := range cs.Files {
		fmt.Fprintf(&sb, "--- %s\n%s", cs.Files[i].Rel, cs.Files[i].text(v))
	}
	return sb.String()
}

const c18LeakSig = "c18.importer-names-visible-inside-imported-module"

var kC18 = run.NewKind("c18.tree", func(c *run.Ctx, t c18Case) *run.Fail {
	cs := &t
	root, err := os.MkdirTemp("", "vp-c18-*")
	if err != nil {
		c.Inconclusive("mkdtemp")
		return nil
	}
	defer os.RemoveAll(root)
	r := &c18Runner{cs: cs, root: root}
	for _, d := range []string{"p0", "p1", "p2", c18Cwd, "home", "elsewhere"} {
		if err := os.MkdirAll(r.abs(d), 0o755); err != nil {
			c.Inconclusive("mkdir")
			return nil
		}
	}
	for i := range cs.Files {
		if err := r.write(&cs.Files[i], nil); err != nil {
			c.Inconclusive("write")
			return nil
		}
	}
	if cs.Home != nil {
		if err := r.write(cs.Home, nil); err != nil {
			c.Inconclusive("write")
			return nil
		}
	}
	if cs.Mode == "home" {
		for _, d := range []string{"../lib", "../lib/gojq"} {
			if _, err := os.Stat(filepath.Join(filepath.Dir(run.GojqBin()), d)); err == nil {
				c.Inconclusive("default-lib-dir-exists")
				return nil
			}
		}
	}
	c.Count("trees_mode_"+cs.Mode, 1)

	variants := append([]*c18Var{nil}, make([]*c18Var, 0, len(cs.Vars))...)
	for i := range cs.Vars {
		variants = append(variants, &cs.Vars[i])
	}
	for vi, v := range variants {
		m := newC18Model(cs, v)
		calls, exp := m.program()
		if m.class == "generator" {
			c.Inconclusive("generator:" + m.fail)
			continue
		}
		mainSrc := cs.Main.text(v) + c18Query(calls, c18Call.src)
		var touched *c18File
		if v != nil && v.File != "" {
			if touched = cs.find(v.File); touched == nil && cs.Home != nil && cs.Home.Rel == v.File {
				touched = cs.Home
			}
			if touched == nil || touched.Data {
				c.Inconclusive("bad-variant")
				continue
			}
			if err := r.write(touched, v); err != nil {
				c.Inconclusive("write")
				continue
			}
		}
		out := r.run(mainSrc)
		if touched != nil {
			if err := r.write(touched, nil); err != nil {
				c.Inconclusive("write")
				return nil
			}
		}
		if vi > 0 {
			c.AddEvals(1)
		}
		if out.incon != "" {
			c.Inconclusive(out.incon)
			continue
		}
		c.Count("programs_run", 1)
		if cs.Mode != "lib" {
			c.Count("programs_run_through_command", 1)
		}
		ctx := func() string {
			s := ""
			if v != nil {
				b, _ := json.Marshal(v)
				s = "variant " + string(b) + "\n"
			}
			return s + cs.describe(v) + "--- main program\n" + mainSrc + "\n"
		}
		c.Logf("variant %d: model fail=%q; real ok=%v cerr=%q vals=%s", vi, m.fail, out.ok, out.cerr, run.Clip(run.CanonList(out.vals)))
		if out.bad != "" {
			return run.Failf("%s\n%s", out.bad, ctx())
		}
		// (1) model vs real
		var fail *run.Fail
		switch {
		case m.fail != "" && out.ok:
			fail = run.Failf("compiles although the model says it must not: %s\noutputs: %s\n%s", m.fail, run.Clip(run.CanonList(out.vals)), ctx())
		case m.fail == "" && !out.ok:
			fail = run.Failf("every name used is visible by the model, but: %s\n%s", out.cerr, ctx())
		case m.fail == "":
			if len(out.vals) != len(exp) {
				fail = run.Failf("%d outputs, the main query has %d call sites\n%s", len(out.vals), len(exp), ctx())
				break
			}
			for i := range exp {
				if !c18Match(exp[i], out.vals[i]) {
					site := `"none"`
					if len(calls) > 0 {
						site = calls[i].src()
					}
					fail = run.Failf("call site `%s` of the main query resolved to\n  %s\nthe model says\n  %s\n%s", site, run.Canon(out.vals[i]), c18Show(exp[i]), ctx())
					break
				}
				c.Count("call_sites_compared", c18Sites(exp[i]))
			}
		}
		if fail != nil {
			// diagnosis only: does the observed behaviour equal the model in
			// which an imported module sees its importer's earlier names?
			lm := newC18Model(cs, v)
			lm.leaky = true
			if lm.program(); m.fail != "" && m.class == "undefined" && lm.fail == "" && out.ok {
				fail.Sig = c18LeakSig
				fail.Detail = "[explained by: names of the importer are visible inside a module imported with an alias] " + fail.Detail
			}
			return fail
		}
		if m.fail != "" {
			c.Count("invisible_or_unresolvable_confirmed_"+m.class, 1)
		} else if v != nil {
			c.Count("variant_names_visible_confirmed", 1)
		}
		// (2) inlined program vs real
		isrc, ifail := c18Inline(cs, v, calls)
		iout := c18Out{cerr: ifail}
		if ifail == "" {
			iout = c18RunLibGlobals(isrc, cs.Globals)
		}
		if iout.incon != "" {
			c.Inconclusive("inline-" + iout.incon)
			continue
		}
		if iout.bad != "" {
			return run.Failf("inlined program: %s\n%s\n%s", iout.bad, isrc, ctx())
		}
		if iout.ok != out.ok {
			return run.Failf("module program compiles=%v (%s) but the inlined program compiles=%v (%s)\n--- inlined\n%s\n%s", out.ok, out.cerr, iout.ok, iout.cerr, isrc, ctx())
		}
		if out.ok {
			if len(iout.vals) != len(out.vals) {
				return run.Failf("module program: %d outputs, inlined program: %d\n--- inlined\n%s\n%s", len(out.vals), len(iout.vals), isrc, ctx())
			}
			for i := range out.vals {
				if c18HasAny(exp[i]) {
					c.Count("outputs_with_unspecified_alias_clash_not_compared", 1)
					continue
				}
				if run.Canon(out.vals[i]) != run.Canon(iout.vals[i]) {
					return run.Failf("output %d: module program %s, inlined program %s\n--- inlined\n%s\n%s", i, run.Canon(out.vals[i]), run.Canon(iout.vals[i]), isrc, ctx())
				}
			}
			c.Count("inline_outputs_compared", int64(len(out.vals)))
		}
		c.Count("inline_programs_compared", 1)

		if v == nil {
			// evidence and non-triviality from the base tree
			nfiles := 0
			diamond := false
			for rel, n := range m.loaded {
				if rel != "" {
					nfiles++
				}
				if n > 1 {
					diamond = true
				}
			}
			c.Count("alias_imports", int64(m.nAlias))
			c.Count("includes", int64(m.nInclude))
			c.Count("data_imports", int64(m.nData))
			c.Count("search_metadata_imports", int64(m.nSearch))
			for _, im := range cs.Main.Imps {
				if im.Search != "" {
					c.Count("search_metadata_imports_in_main_program", 1)
				}
			}
			c.Count("directory_form_resolutions", int64(m.nDirForm))
			c.Count("resolutions_where_order_decides", int64(m.nOrder))
			c.Count("shadowing_redefinitions", int64(m.nShadow))
			c.Count("same_name_other_arity", int64(m.nArity))
			c.Count("unspecified_alias_clashes_skipped", int64(m.nAmb))
			if diamond {
				c.Count("trees_with_a_module_loaded_twice", 1)
			}
			if cs.Home != nil {
				c.Count("trees_with_home_jq_file", 1)
			}
			c.Gauge("max_files_loaded", int64(nfiles))
			if nfiles >= 2 && (m.nAlias > 0 || m.nShadow+m.nArity > 0) {
				b, _ := json.Marshal(cs)
				c.Nontrivial(string(b))
			}
			if f := r.metaCheck(c); f != nil {
				return f
			}
		}
	}
	return nil
})

func init() {
	run.Register(&run.Prop{
		ID: "C18", Level: "exploration", MinNontrivial: 300,
		Rule: "a case is a random module tree (depth <= 3, diamonds, name clashes, several arities, data modules, name.jq vs name/name.jq, the same name in several search directories, relative search metadata) written to a temp dir, a search-path configuration (library NewModuleLoader ~80 %, command -L absolute / relative, default list with HOME redirected, -L ~/.jq) and 5-10 variants adding one call or one import to one file; every definition returns [label, results of its calls]. Each program is decided three ways: real (files on disk), resolution/scope model (file list only), single-file inlined program with alias__name renaming. modulemeta is compared for every module of the base tree. Non-trivial = distinct trees that load >= 2 files and have >= 1 alias import or name clash. Also: mode clif (the main program is a file given with -f and the command runs in another directory: relative search paths of the program are relative to the program file), import metadata with decoy keys named like the fields modulemeta computes, global variables (--arg / WithVariables) named like data imports.",
		Assumptions: []string{
			"data variables imported by an included module end with that module's text (pinned by cli/test.yaml 'variable name conflict'); functions and aliases spliced by include stay visible",
			"when two different modules are imported under one alias and define the same name/arity the winner is not asserted (statement silent); likewise the order between a search entry and the -L list (unique location generated)",
			"modulemeta deps.search is compared after path resolution; a missing `as` equals null for include",
			"~/.jq auto-inclusion is asserted only when ~/.jq is among the search paths (default list or -L ~/.jq), through the command with HOME redirected",
			"main-program relative search entries are exercised through the command only (the library resolves them against the process cwd)",
		},
		Body: func(c *run.Ctx) {
			for _, t := range c18OddCases() {
				kC18Odd.Do(c, t)
			}
			r := c.Rand("c18")
			n := c.N(3000, 40000)
			for i := 0; i < n; i++ {
				seed := r.Uint64()
				if !c.Mine() {
					c.Skip()
					continue
				}
				kC18.Do(c, c18Gen(seed))
			}
		},
	})
}
