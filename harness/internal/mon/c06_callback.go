package mon

import (
	"fmt"
	"runtime"
	"strings"
	"sync"
	"sync/atomic"

	"verif/harness/internal/run"

	"github.com/itchyny/gojq"
)

// c06.callback: one Code with registered Go functions (plain and iterator, arities 0..3) is run by 8 goroutines at
// once, each with its own value of $g; every call of every goroutine must see its own arguments — the functions yield
// the processor between reading their arguments — and every run must give what the same run gives alone.

type c06CallbackCase struct{ Src string }

func c06CallbackOpts() []gojq.CompilerOption {
	return []gojq.CompilerOption{
		gojq.WithVariables([]string{"$g"}),
		gojq.WithFunction("pair", 2, 2, func(_ any, xs []any) any { a := xs[0]; runtime.Gosched(); return []any{a, xs[0], xs[1]} }),
		gojq.WithFunction("trio", 1, 3, func(v any, xs []any) any {
			a := append([]any{}, xs...)
			runtime.Gosched()
			return []any{v, a, append([]any{}, xs...)}
		}),
		gojq.WithFunction("zero", 0, 0, func(v any, _ []any) any { runtime.Gosched(); return v }),
		gojq.WithFunction("keep", 1, 1, func(_ any, xs []any) any { runtime.Gosched(); return xs }),
		gojq.WithIterFunction("each", 1, 3, func(_ any, xs []any) gojq.Iter {
			a := append([]any{}, xs...)
			runtime.Gosched()
			return gojq.NewIter[any](a, append([]any{}, xs...))
		}),
		gojq.WithIterFunction("lazy", 2, 2, func(_ any, xs []any) gojq.Iter {
			i := 0
			return c06FuncIter(func() (any, bool) {
				if i >= 2 {
					return nil, false
				}
				i++
				runtime.Gosched()
				return []any{xs[0], xs[1]}, true
			})
		}),
	}
}

type c06FuncIter func() (any, bool)

func (f c06FuncIter) Next() (any, bool) { return f() }

var kC06Callback = run.NewKind("c06.callback", func(c *run.Ctx, t c06CallbackCase) *run.Fail {
	res := run.Compile(t.Src, c06CallbackOpts()...)
	if res.Code == nil {
		return run.Failf("%q does not compile: %v %s", t.Src, res.Err, res.Panic)
	}
	code := res.Code
	const G = 8
	var want [G]string
	for g := 0; g < G; g++ {
		tr := run.RunCode(code, g*100, []any{g}, defBudget, 5000)
		if tr.End != run.EndOK {
			return run.Failf("%q alone with $g = %d: %s", t.Src, g, run.Clip(run.TraceDesc(tr)))
		}
		want[g] = run.TraceDesc(tr)
	}
	before := raceLogSize()
	var wg sync.WaitGroup
	var mism atomic.Int64
	var first atomic.Value
	start := make(chan struct{})
	for g := 0; g < G; g++ {
		wg.Add(1)
		go func(g int) {
			defer wg.Done()
			defer func() {
				if r := recover(); r != nil {
					mism.Add(1)
					first.CompareAndSwap(nil, fmt.Sprintf("goroutine %d: panic %v", g, r))
				}
			}()
			<-start
			for i := 0; i < 6; i++ {
				if got := run.TraceDesc(run.RunCode(code, g*100, []any{g}, defBudget, 5000)); got != want[g] {
					mism.Add(1)
					first.CompareAndSwap(nil, fmt.Sprintf("goroutine %d ($g = %d), run %d gave %s; alone: %s", g, g, i, run.Clip(got), run.Clip(want[g])))
				}
			}
		}(g)
	}
	close(start)
	wg.Wait()
	c.Count("callback_runs", G*6)
	if n := mism.Load(); n > 0 {
		return run.Failf("%q: %d of %d concurrent runs of a Code with registered Go functions differ from the run alone; first: %v", t.Src, n, G*6, first.Load())
	}
	if after := raceLogSize(); after > before {
		rep := raceLogFrom(before)
		if strings.Contains(rep, "WARNING: DATA RACE") && (strings.Contains(rep, "github.com/itchyny/gojq") || strings.Contains(rep, "/repo/")) {
			return &run.Fail{Detail: fmt.Sprintf("%q: the race detector reported a data race during concurrent runs with registered Go functions:\n%s", t.Src, run.Clip(raceSummary(rep)))}
		}
	}
	c.Nontrivial(t.Src)
	return nil
})

var c06CallbackSrcs = []string{
	"range(300) as $i | pair($g; $i)", "[range(200) as $i | pair($i; $g)] | map(.[0] == .[1]) | all, length", "range(200) as $i | trio($g; $i; .)", "range(200) as $i | trio($i)", "[range(300) | zero] | add, $g",
	"range(200) as $i | keep([$g, $i])", "range(150) as $i | each($g; $i)", "range(150) as $i | each($i; $g; .)", "range(150) as $i | lazy($g; $i)", "[range(100) as $i | pair($g; $i), keep($i), (each($g) | .[0])] | length, .[7]",
	"reduce range(200) as $i ([]; . + [pair($g; $i)[1]]) | unique", "range(100) as $i | pair(pair($g; $i); keep($i))", "path(range(50) as $i | pair($g; $i) | empty), (range(100) as $i | trio($g; $i))", "[limit(40; repeat(pair($g; .)))] | map(.[0]) | unique",
	"range(100) as $i | try error(pair($g; $i)) catch .", "range(100) as $i | (pair($g; $i), keep($g), zero) as $v | [$i, $v]",
}
