package mon

import (
	"encoding/hex"
	"fmt"
	"math"
	"math/rand/v2"
	"regexp"
	"strings"
	"sync"
	"unicode/utf8"

	"verif/harness/internal/run"

	"github.com/itchyny/gojq"
)

// ---- C14: string positions are code points; regex builtins agree with match ----
//
// Two kinds of cases, both evaluated by the real library VM:
//
//   c14.positions {S}          length / explode / .[i] / .[i:j] / index / rindex / indices
//                              against the same operations on []rune done here.
//   c14.regex     {S, Re, Fl}  match / test / capture / scan / splits / split/2 / sub / gsub
//                              against (a) Go's regexp driven directly with byte offsets
//                              converted by unicode/utf8, and (b) the documented compositions
//                              of the (global) match list.
//
// Every query is compiled ONCE per worker with the variables $re and $fl (and
// $is / $subs for positions) and the *Code is reused for all subjects.

// c14Alphabet: ASCII, 2-, 3- (narrow and wide) and 4-byte characters, a
// combining mark and a newline.
var c14Alphabet = []string{"a", "b", "é", "–", "日", "😀", "\u0301", "\n", "\ufffd"}

// c14LongAlphabet extends it for the random longer subjects: upper-case
// partners (flag i), a word separator (\b) and two characters whose simple
// case folding changes the UTF-8 width (K U+212A Kelvin sign ~ k, ſ ~ s).
var c14LongAlphabet = append(append([]string{}, c14Alphabet...), "A", "B", "É", " ", "k", "K", "s", "ſ")

// c14Budget is the instruction budget of one builtin call on a subject of n
// code points. Soundness of treating exhaustion as non-termination: Go's
// FindAll yields non-overlapping matches with no empty match adjacent to the
// previous match, hence at most n+1 matches; every jq-defined builtin here
// (builtin.jq: match test capture scan splits split/2 sub gsub) executes a
// constant number of VM instructions per match (one foreach/reduce step).
// Calibration on the unchanged tree (gauges max_polls_per_query and
// max_polls_per_rune_x100): at most ~500 instructions on the empty subject and
// ~290 per code point on 40-code-point subjects (gsub with a string
// interpolation, 41 empty matches: 11 620 in total). The budget is more than
// 15 times that per code point on top of a 50 000 instruction base.
func c14Budget(n int) int64 { return 50000 + 5000*int64(n) }

type c14Pos struct {
	S string
}

type c14Re struct {
	S  string
	Re string
	Fl *string // nil = null flags (the short forms match($re), test($re), … are used)
}

// ---------------------------------------------------------------- queries

type c14Query struct {
	name    string
	src     string // with $re and $fl
	srcNull string // short form used when the flags are null ("" = same as src)
}

var c14Queries = []c14Query{
	{"match", `[match($re; $fl)]`, `[match($re)]`},
	{"gmatch", `[match($re; $fl + "g")]`, ``},
	{"test", `[test($re; $fl)]`, `[test($re)]`},
	{"capture", `[capture($re; $fl)]`, `[capture($re)]`},
	{"scan", `[scan($re; $fl)]`, `[scan($re)]`},
	{"splits", `[splits($re; $fl)]`, `[splits($re)]`},
	{"split2", `[split($re; $fl)]`, ``},
	{"sub", `[sub($re; "#"; $fl)]`, `[sub($re; "#")]`},
	{"gsub", `[gsub($re; "#"; $fl)]`, `[gsub($re; "#")]`},
	{"gsub-identity", `[gsub("(?<x>" + $re + ")"; .x; $fl)]`, `[gsub("(?<x>" + $re + ")"; .x)]`},
	{"gsub-wrap", `[gsub("(?<x>" + $re + ")"; "<\(.x)>"; $fl)]`, `[gsub("(?<x>" + $re + ")"; "<\(.x)>")]`},
}

type c14Compiled struct {
	withFl, null *gojq.Code
}

var c14Codes = sync.OnceValue(func() map[string]c14Compiled {
	m := map[string]c14Compiled{}
	comp := func(src string) *gojq.Code {
		res := run.Compile(src, gojq.WithVariables([]string{"$re", "$fl"}))
		if res.Code == nil {
			panic(fmt.Sprintf("c14: cannot compile %s: %v %s", src, res.Err, res.Panic))
		}
		return res.Code
	}
	for _, q := range c14Queries {
		cc := c14Compiled{withFl: comp(q.src)}
		cc.null = cc.withFl
		if q.srcNull != "" {
			cc.null = comp(q.srcNull)
		}
		m[q.name] = cc
	}
	return m
})

func c14Src(name string, fl *string) string {
	for _, q := range c14Queries {
		if q.name == name {
			if fl == nil && q.srcNull != "" {
				return q.srcNull
			}
			return q.src
		}
	}
	return name
}

// c14Run runs one query on the subject. The result must be exactly one array
// (every query is wrapped in [...]).
func c14Run(c *run.Ctx, name string, t c14Re, n int) run.Trace {
	cc := c14Codes()[name]
	code := cc.withFl
	var fl any
	if t.Fl == nil {
		code = cc.null
	} else {
		fl = *t.Fl
	}
	tr := run.RunCode(code, t.S, []any{t.Re, fl}, c14Budget(n), 0)
	if c.Replay {
		c.Logf("%-14s %s  =>  %s   [%d instructions]", name, c14Src(name, t.Fl), run.TraceDesc(tr), tr.Polls)
	}
	c.Count("vm_runs", 1)
	c.Gauge("max_polls_per_query", tr.Polls)
	c.Gauge("max_polls_per_rune_x100", tr.Polls*100/int64(n+1))
	return tr
}

// ---------------------------------------------------------------- match lists

type c14Cap struct {
	name  string // "" = unnamed
	off   int    // -1 = did not participate
	ln    int
	str   string
	isNil bool // string is null
}

type c14Match struct {
	off, ln int
	str     string
	caps    []c14Cap
}

func c14Int(v any) (int, bool) {
	switch v := v.(type) {
	case int:
		return v, true
	case float64:
		if v == float64(int(v)) {
			return int(v), true
		}
	}
	return 0, false
}

// c14ParseMatches decodes the array of match objects produced by gojq.
func c14ParseMatches(v any) ([]c14Match, string) {
	arr, ok := v.([]any)
	if !ok {
		return nil, "not an array"
	}
	ms := make([]c14Match, 0, len(arr))
	for i, e := range arr {
		o, ok := e.(map[string]any)
		if !ok || len(o) != 4 {
			return nil, fmt.Sprintf("match #%d is not an object with exactly offset, length, string, captures: %s", i, run.Clip(run.Canon(e)))
		}
		var m c14Match
		var ok1, ok2, ok3 bool
		m.off, ok1 = c14Int(o["offset"])
		m.ln, ok2 = c14Int(o["length"])
		m.str, ok3 = o["string"].(string)
		caps, ok4 := o["captures"].([]any)
		if !(ok1 && ok2 && ok3 && ok4) {
			return nil, fmt.Sprintf("match #%d has a field of the wrong type: %s", i, run.Clip(run.Canon(e)))
		}
		for j, ce := range caps {
			co, ok := ce.(map[string]any)
			if !ok || len(co) != 4 {
				return nil, fmt.Sprintf("match #%d capture #%d is not an object with exactly name, offset, length, string: %s", i, j, run.Clip(run.Canon(ce)))
			}
			var cp c14Cap
			cp.off, ok1 = c14Int(co["offset"])
			cp.ln, ok2 = c14Int(co["length"])
			switch s := co["string"].(type) {
			case string:
				cp.str = s
			case nil:
				cp.isNil = true
			default:
				ok1 = false
			}
			switch nm := co["name"].(type) {
			case string:
				cp.name = nm
				if nm == "" {
					ok1 = false
				}
			case nil:
			default:
				ok1 = false
			}
			if _, has := co["name"]; !has || !ok1 || !ok2 {
				return nil, fmt.Sprintf("match #%d capture #%d has a field of the wrong type: %s", i, j, run.Clip(run.Canon(ce)))
			}
			m.caps = append(m.caps, cp)
		}
		ms = append(ms, m)
	}
	return ms, ""
}

// c14SliceLaw: slicing the subject by code points with (offset, length)
// returns .string, for the match and for every participating capture; a
// non-participating capture is (offset -1, length 0, string null).
func c14SliceLaw(R []rune, ms []c14Match, what string) string {
	span := func(off, ln int) (string, bool) {
		if off < 0 || ln < 0 || off+ln > len(R) {
			return "", false
		}
		return string(R[off : off+ln]), true
	}
	prevEnd := 0
	for i, m := range ms {
		got, ok := span(m.off, m.ln)
		if !ok {
			return fmt.Sprintf("%s #%d: (offset %d, length %d) is outside the subject of %d code points", what, i, m.off, m.ln, len(R))
		}
		if got != m.str {
			return fmt.Sprintf("%s #%d: subject[%d:%d] by code points is %q but .string is %q", what, i, m.off, m.off+m.ln, got, m.str)
		}
		if m.off < prevEnd {
			return fmt.Sprintf("%s #%d starts at %d, before the end %d of the previous match (matches must be ordered and disjoint)", what, i, m.off, prevEnd)
		}
		prevEnd = m.off + m.ln
		for j, cp := range m.caps {
			if cp.off == -1 || cp.isNil {
				if !(cp.off == -1 && cp.isNil && cp.ln == 0) {
					return fmt.Sprintf("%s #%d capture #%d: a non-participating group must be (offset -1, length 0, string null), got (offset %d, length %d, null=%v)", what, i, j, cp.off, cp.ln, cp.isNil)
				}
				continue
			}
			got, ok := span(cp.off, cp.ln)
			if !ok {
				return fmt.Sprintf("%s #%d capture #%d: (offset %d, length %d) is outside the subject of %d code points", what, i, j, cp.off, cp.ln, len(R))
			}
			if got != cp.str {
				return fmt.Sprintf("%s #%d capture #%d: subject[%d:%d] by code points is %q but .string is %q", what, i, j, cp.off, cp.off+cp.ln, got, cp.str)
			}
		}
	}
	return ""
}

// ---- direct Go regexp reference

type c14RxKey struct{ re, fl string }

var (
	c14RxMu    sync.Mutex
	c14RxCache = map[c14RxKey]*regexp.Regexp{}
	c14RxBad   = map[c14RxKey]bool{}
)

// c14FlagsOK: gojq accepts exactly the flag letters g, i, m.
func c14FlagsOK(fl string) bool {
	return strings.Trim(fl, "gim") == ""
}

// c14GoRegexp compiles the regex as the README documents it (Go's regexp;
// i = case-insensitive, m = '.' matches newline, i.e. Go's (?s)).
func c14GoRegexp(re, fl string) *regexp.Regexp {
	k := c14RxKey{re, fl}
	c14RxMu.Lock()
	defer c14RxMu.Unlock()
	if rx, ok := c14RxCache[k]; ok {
		return rx
	}
	if c14RxBad[k] || !c14FlagsOK(fl) {
		return nil
	}
	p := ""
	if strings.Contains(fl, "i") {
		p += "(?i)"
	}
	if strings.Contains(fl, "m") {
		p += "(?s)"
	}
	rx, err := regexp.Compile(p + re)
	if err != nil {
		c14RxBad[k] = true
		return nil
	}
	c14RxCache[k] = rx
	return rx
}

func c14GoMatches(rx *regexp.Regexp, s string, all bool) []c14Match {
	n := 1
	if all {
		n = -1
	}
	names := rx.SubexpNames()
	cp := func(b int) int { return utf8.RuneCountInString(s[:b]) }
	var ms []c14Match
	for _, x := range rx.FindAllStringSubmatchIndex(s, n) {
		m := c14Match{off: cp(x[0]), ln: utf8.RuneCountInString(s[x[0]:x[1]]), str: s[x[0]:x[1]]}
		for j := 1; j < len(x)/2; j++ {
			if x[2*j] < 0 {
				m.caps = append(m.caps, c14Cap{name: names[j], off: -1, isNil: true})
			} else {
				m.caps = append(m.caps, c14Cap{name: names[j], off: cp(x[2*j]), ln: utf8.RuneCountInString(s[x[2*j]:x[2*j+1]]), str: s[x[2*j]:x[2*j+1]]})
			}
		}
		ms = append(ms, m)
	}
	return ms
}

func c14DescMatches(ms []c14Match) string {
	var sb strings.Builder
	sb.WriteByte('[')
	for i, m := range ms {
		if i > 0 {
			sb.WriteByte(' ')
		}
		fmt.Fprintf(&sb, "(%d,%d,%q", m.off, m.ln, m.str)
		for _, cp := range m.caps {
			if cp.isNil {
				fmt.Fprintf(&sb, " %s:(%d,%d,null)", cp.name, cp.off, cp.ln)
			} else {
				fmt.Fprintf(&sb, " %s:(%d,%d,%q)", cp.name, cp.off, cp.ln, cp.str)
			}
		}
		sb.WriteByte(')')
	}
	sb.WriteByte(']')
	return run.Clip(sb.String())
}

func c14SameMatches(a, b []c14Match) bool {
	if len(a) != len(b) {
		return false
	}
	for i := range a {
		x, y := a[i], b[i]
		if x.off != y.off || x.ln != y.ln || x.str != y.str || len(x.caps) != len(y.caps) {
			return false
		}
		for j := range x.caps {
			if x.caps[j] != y.caps[j] {
				return false
			}
		}
	}
	return true
}

// c14Replace rebuilds the subject with every match of ms replaced by f(match).
func c14Replace(R []rune, ms []c14Match, f func(m c14Match) string) string {
	var sb strings.Builder
	next := 0
	for _, m := range ms {
		sb.WriteString(string(R[next:m.off]))
		sb.WriteString(f(m))
		next = m.off + m.ln
	}
	sb.WriteString(string(R[next:]))
	return sb.String()
}

func c14Strings(v any) ([]string, bool) {
	arr, ok := v.([]any)
	if !ok {
		return nil, false
	}
	ss := make([]string, len(arr))
	for i, e := range arr {
		s, ok := e.(string)
		if !ok {
			return nil, false
		}
		ss[i] = s
	}
	return ss, true
}

func c14FlDesc(fl *string) string {
	if fl == nil {
		return "null"
	}
	return fmt.Sprintf("%q", *fl)
}

// ---------------------------------------------------------------- c14.regex

var kC14Re = run.NewKind("c14.regex", func(c *run.Ctx, t c14Re) *run.Fail {
	R := []rune(t.S)
	n := len(R)
	flStr := ""
	if t.Fl != nil {
		flStr = *t.Fl
	}
	hasG := strings.Contains(flStr, "g")
	id := fmt.Sprintf("subject %q regex %q flags %s", t.S, t.Re, c14FlDesc(t.Fl))
	rx := c14GoRegexp(t.Re, flStr)

	// 1. match decides whether the regex is accepted.
	trM := c14Run(c, "match", t, n)
	switch trM.End {
	case run.EndError:
		if rx == nil {
			c.Count("not_accepted", 1)
			return nil
		}
		// Go accepts it (and the README names Go's regexp as the engine) but
		// match refuses: not a statement of C14; counted, never silent.
		c.Inconclusive("match-error-on-regex-go-accepts")
		return nil
	case run.EndPanic:
		return run.Failf("%s: match panicked: %s", id, run.Clip(trM.Panic))
	case run.EndBudget:
		return run.Failf("%s: match did not terminate within %d instructions (%d code points)", id, c14Budget(n), n)
	}
	if len(trM.Vals) != 1 {
		return run.Failf("%s: [match] produced %d outputs", id, len(trM.Vals))
	}
	M, bad := c14ParseMatches(trM.Vals[0])
	if bad != "" {
		return run.Failf("%s: match output malformed: %s", id, bad)
	}

	// every other builtin must succeed (an accepted regex never makes one
	// builtin fail while match succeeds) and terminate within the budget.
	out := map[string]any{}
	for _, q := range c14Queries[1:] {
		tr := c14Run(c, q.name, t, n)
		src := c14Src(q.name, t.Fl)
		switch tr.End {
		case run.EndError:
			return run.Failf("%s: match succeeds (%d matches) but %s fails: %v", id, len(M), src, tr.Err)
		case run.EndPanic:
			return run.Failf("%s: %s panicked: %s", id, src, run.Clip(tr.Panic))
		case run.EndBudget:
			return run.Failf("%s: %s did not terminate within %d instructions (%d code points, at most %d matches possible)", id, src, c14Budget(n), n, n+1)
		}
		if len(tr.Vals) != 1 {
			return run.Failf("%s: %s produced %d outputs, expected one array", id, src, len(tr.Vals))
		}
		arr, ok := tr.Vals[0].([]any)
		if !ok {
			return run.Failf("%s: %s: not an array", id, src)
		}
		switch q.name {
		case "gmatch", "capture", "scan", "splits":
			out[q.name] = arr
		default:
			if len(arr) != 1 {
				return run.Failf("%s: %s produced %d outputs, expected exactly one", id, src, len(arr))
			}
			out[q.name] = arr[0]
		}
	}
	G, bad := c14ParseMatches(out["gmatch"])
	if bad != "" {
		return run.Failf("%s: global match output malformed: %s", id, bad)
	}

	// 2. offsets are code points: slice law on every match and capture.
	if d := c14SliceLaw(R, M, "match"); d != "" {
		return run.Failf("%s: %s", id, d)
	}
	if d := c14SliceLaw(R, G, "global match"); d != "" {
		return run.Failf("%s: %s", id, d)
	}
	c.Count("law_slice", 1)

	// 3. flag g selects all matches, otherwise the first.
	wantM := G
	if !hasG && len(G) > 1 {
		wantM = G[:1]
	}
	if !c14SameMatches(M, wantM) {
		return run.Failf("%s: match with these flags gave %s but the global matches are %s (g = all, otherwise the first)", id, c14DescMatches(M), c14DescMatches(G))
	}

	// 4. Go's regexp driven directly, byte offsets converted with unicode/utf8.
	if rx != nil {
		if ref := c14GoMatches(rx, t.S, true); !c14SameMatches(G, ref) {
			return run.Failf("%s: global matches %s differ from Go regexp with code-point-converted offsets %s", id, c14DescMatches(G), c14DescMatches(ref))
		}
		if ref := c14GoMatches(rx, t.S, hasG); !c14SameMatches(M, ref) {
			return run.Failf("%s: matches %s differ from Go regexp with code-point-converted offsets %s", id, c14DescMatches(M), c14DescMatches(ref))
		}
		c.Count("law_go_regexp_reference", 1)
	} else {
		c.Inconclusive("reference-regexp-unavailable")
	}

	// 5. test <=> a match exists.
	if b, ok := out["test"].(bool); !ok || b != (len(G) > 0) {
		return run.Failf("%s: test gave %s but there are %d matches", id, run.Canon(out["test"]), len(G))
	}
	c.Count("law_test", 1)

	// 6. capture: one object per match; every named group is a key (null when
	// the group did not participate); values are the captures' strings.
	caps := out["capture"].([]any)
	if len(caps) != len(M) {
		return run.Failf("%s: capture produced %d objects for %d matches", id, len(caps), len(M))
	}
	var rxNames []string
	if rx != nil {
		for _, nm := range rx.SubexpNames() {
			if nm != "" {
				rxNames = append(rxNames, nm)
			}
		}
	}
	for i, m := range M {
		o, ok := caps[i].(map[string]any)
		if !ok {
			return run.Failf("%s: capture output #%d is not an object: %s", id, i, run.Canon(caps[i]))
		}
		want := map[string]any{}
		for _, cp := range m.caps {
			if cp.name != "" {
				if cp.isNil {
					want[cp.name] = nil
				} else {
					want[cp.name] = cp.str
				}
			}
		}
		if rx != nil {
			for _, nm := range rxNames {
				if _, ok := o[nm]; !ok {
					return run.Failf("%s: named group %q is missing from capture output #%d %s", id, nm, i, run.Canon(o))
				}
			}
		}
		if run.Canon(o) != run.Canon(want) {
			return run.Failf("%s: capture output #%d is %s, the named captures of match #%d are %s", id, i, run.Canon(o), i, run.Canon(want))
		}
		c.Count("named_captures_seen", int64(len(want)))
	}
	c.Count("law_capture", 1)

	// 7. scan == strings (or capture-string arrays when groups exist) of the global matches.
	{
		want := make([]any, 0, len(G))
		for _, m := range G {
			if len(m.caps) == 0 {
				want = append(want, m.str)
				continue
			}
			cs := make([]any, len(m.caps))
			for j, cp := range m.caps {
				if !cp.isNil {
					cs[j] = cp.str
				}
			}
			want = append(want, cs)
		}
		if run.Canon(out["scan"]) != run.Canon(want) {
			return run.Failf("%s: scan gave %s, the global matches give %s", id, run.Clip(run.Canon(out["scan"])), run.Clip(run.Canon(want)))
		}
	}
	c.Count("law_scan", 1)

	// 8. splits: pieces interleaved with the global matches rebuild the subject.
	P, ok := c14Strings(out["splits"])
	if !ok {
		return run.Failf("%s: splits produced a non-string: %s", id, run.Clip(run.Canon(out["splits"])))
	}
	if len(P) != len(G)+1 {
		return run.Failf("%s: splits produced %d pieces for %d global matches (want %d): %s", id, len(P), len(G), len(G)+1, run.Clip(run.Canon(out["splits"])))
	}
	{
		var sb strings.Builder
		next := 0
		for i, p := range P {
			sb.WriteString(p)
			end := n
			if i < len(G) {
				sb.WriteString(G[i].str)
				end = G[i].off
			}
			if want := string(R[next:end]); p != want {
				return run.Failf("%s: splits piece #%d is %q, the text between the matches is %q", id, i, p, want)
			}
			if i < len(G) {
				next = G[i].off + G[i].ln
			}
		}
		if sb.String() != t.S {
			return run.Failf("%s: pieces of splits interleaved with the matches give %q, not the subject", id, sb.String())
		}
	}
	c.Count("law_splits", 1)

	// 9. split/2 == [splits].
	if run.Canon(out["split2"]) != run.Canon(out["splits"]) {
		return run.Failf("%s: split/2 gave %s but [splits] gave %s", id, run.Clip(run.Canon(out["split2"])), run.Clip(run.Canon(out["splits"])))
	}
	c.Count("law_split2", 1)

	// 10. sub replaces the first match only (all with g); gsub all.
	hash := func(c14Match) string { return "#" }
	if want := c14Replace(R, M, hash); out["sub"] != any(want) {
		return run.Failf("%s: sub(re; \"#\") gave %s, replacing %s gives %q", id, run.Canon(out["sub"]), c14DescMatches(M), want)
	}
	if want := c14Replace(R, G, hash); out["gsub"] != any(want) {
		return run.Failf("%s: gsub(re; \"#\") gave %s, replacing %s gives %q", id, run.Canon(out["gsub"]), c14DescMatches(G), want)
	}
	c.Count("law_sub_gsub", 1)

	// 11. a named group around the whole regex substituted back returns the
	// subject; wrapped in <> it marks exactly the global matches.
	if out["gsub-identity"] != any(t.S) {
		return run.Failf("%s: gsub(\"(?<x>RE)\"; .x) gave %s, not the subject", id, run.Canon(out["gsub-identity"]))
	}
	if want := c14Replace(R, G, func(m c14Match) string { return "<" + m.str + ">" }); out["gsub-wrap"] != any(want) {
		return run.Failf("%s: gsub(\"(?<x>RE)\"; \"<\\(.x)>\") gave %s, the global matches %s give %q", id, run.Canon(out["gsub-wrap"]), c14DescMatches(G), want)
	}
	c.Count("law_gsub_identity", 1)

	// evidence
	ascii := len(t.S) == n
	if !ascii || len(G) > 0 {
		c.Nontrivial("R|" + t.S + "\x00" + t.Re + "\x00" + c14FlDesc(t.Fl))
	}
	c.Distinct("regexes", t.Re)
	c.Distinct("regex_flag_pairs", t.Re+"\x00"+c14FlDesc(t.Fl))
	c.Distinct("subjects", t.S)
	c.Count("accepted_cases", 1)
	c.Count("matches_seen", int64(len(G)))
	if len(G) > 1 {
		c.Count("cases_with_several_matches", 1)
	}
	for _, m := range G {
		if m.ln == 0 {
			c.Count("empty_matches_seen", 1)
		}
		for _, cp := range m.caps {
			if cp.isNil {
				c.Count("nonparticipating_captures_seen", 1)
			}
		}
	}
	if !ascii && len(G) > 0 {
		last := G[len(G)-1]
		if len(string(R[:last.off])) != last.off || len(last.str) != last.ln {
			c.Count("cases_where_byte_and_code_point_offsets_differ", 1)
		}
	}
	return nil
})

// ---------------------------------------------------------------- c14.positions

var c14PosNames = []string{"$is", "$subs"}

var c14PosCodes = sync.OnceValue(func() map[string]*gojq.Code {
	m := map[string]*gojq.Code{}
	for name, src := range map[string]string{
		"length":  `[length, (explode | length), explode]`,
		"index":   `[$is[] as $i | .[$i]]`,
		"slice":   `[(null, $is[]) as $i | (null, $is[]) as $j | .[$i:$j]]`,
		"slice1":  `[$is[] as $i | [.[$i:], .[:$i]]]`,
		"fslice":  `. as $s | [(null, -0.5, 0.5, -1.5, 1.5, -2.5, 2.5, (length - 0.5), (0.5 - length), (-0.5 - length), -0.25, 3.75) as $i | (null, -0.5, 0.5, -1.5, 1.5, -2.5, (length - 0.5), (0.5 - length), -0.75) as $j | [$i, $j, ($s | .[$i:$j])]]`,
		"const":   `[.[0], .[-1], .[2], .[-3], .[1:], .[:-1], .[1:3], .[-2:], .[:2], .[-3:-1], .[2:1]]`,
		"indices": `[$subs[] as $t | [index($t), rindex($t), indices($t)]]`,
	} {
		res := run.Compile(src, gojq.WithVariables(c14PosNames))
		if res.Code == nil {
			panic(fmt.Sprintf("c14: cannot compile %s: %v %s", src, res.Err, res.Panic))
		}
		m[name] = res.Code
	}
	return m
})

// c14Clamp is the documented index normalisation: negative counts from the
// end, then clamped into [lo, n].
func c14Clamp(i, lo, n int) int {
	if i < 0 {
		i += n
	}
	return max(lo, min(i, n))
}

func c14RuneEq(a, b []rune) bool { return string(a) == string(b) }

var kC14Pos = run.NewKind("c14.positions", func(c *run.Ctx, t c14Pos) *run.Fail {
	R := []rune(t.S)
	n := len(R)
	id := fmt.Sprintf("subject %q (%d code points, %d bytes)", t.S, n, len(t.S))
	// all indices from -n-2 to n+2
	var is []any
	var ints []int
	for i := -n - 2; i <= n+2; i++ {
		is = append(is, i)
		ints = append(ints, i)
	}
	// substrings: every distinct substring up to 3 code points (all of them
	// for short subjects), every alphabet letter, the empty string, and the
	// subject followed by one more letter (cannot occur).
	seen := map[string]bool{}
	var subs []any
	add := func(s string) {
		if !seen[s] {
			seen[s] = true
			subs = append(subs, s)
		}
	}
	add("")
	maxLen := 3
	if n <= 6 {
		maxLen = n
	}
	for i := 0; i < n; i++ {
		for l := 1; l <= maxLen && i+l <= n; l++ {
			add(string(R[i : i+l]))
		}
	}
	for _, a := range c14Alphabet {
		add(a)
		add(a + a)
	}
	add(t.S + "a")
	add("e") // the base letter of é: must not be found inside it
	vars := []any{is, subs}
	budget := int64(100000) + 200*int64(len(is)+1)*int64(len(is)+1) + 200*int64(len(subs))*int64(n+2)
	runQ := func(name string) (any, *run.Fail) {
		tr := run.RunCode(c14PosCodes()[name], t.S, vars, budget, 0)
		if c.Replay {
			c.Logf("%-8s => %s [%d instructions]", name, run.TraceDesc(tr), tr.Polls)
		}
		c.Count("vm_runs", 1)
		if tr.End != run.EndOK || len(tr.Vals) != 1 {
			if tr.End == run.EndBudget {
				return nil, run.Failf("%s: %s query did not terminate within %d instructions", id, name, budget)
			}
			return nil, run.Failf("%s: %s query: expected one output, got %s", id, name, run.TraceDesc(tr))
		}
		return tr.Vals[0], nil
	}

	// length == explode|length == number of code points; explode lists them.
	v, f := runQ("length")
	if f != nil {
		return f
	}
	{
		cps := make([]any, n)
		for i, r := range R {
			cps[i] = int(r)
		}
		want := []any{n, n, cps}
		if run.Canon(v) != run.Canon(want) {
			return run.Failf("%s: [length, explode|length, explode] is %s, by code points %s", id, run.Clip(run.Canon(v)), run.Clip(run.Canon(want)))
		}
	}

	// .[i]
	v, f = runQ("index")
	if f != nil {
		return f
	}
	{
		got, _ := v.([]any)
		if len(got) != len(ints) {
			return run.Failf("%s: .[i] query returned %d values for %d indices", id, len(got), len(ints))
		}
		for k, i := range ints {
			var want any
			j := i
			if j < 0 {
				j += n
			}
			if 0 <= j && j < n {
				want = string(R[j])
			}
			if got[k] != want {
				return run.Failf("%s: .[%d] is %s, the code point at that position is %s", id, i, run.Canon(got[k]), run.Canon(want))
			}
		}
		c.Count("index_ops_checked", int64(len(ints)))
	}

	// .[i:j], .[i:], .[:j]
	v, f = runQ("slice")
	if f != nil {
		return f
	}
	{
		got, _ := v.([]any)
		ends := append([]*int{nil}, make([]*int, len(ints))...)
		for k := range ints {
			ends[k+1] = &ints[k]
		}
		if len(got) != len(ends)*len(ends) {
			return run.Failf("%s: slice query returned %d values for %d index pairs", id, len(got), len(ends)*len(ends))
		}
		k := 0
		for _, pi := range ends {
			for _, pj := range ends {
				start, end := 0, n
				if pi != nil {
					start = c14Clamp(*pi, 0, n)
				}
				if pj != nil {
					end = c14Clamp(*pj, start, n)
				}
				end = max(end, start)
				want := string(R[start:end])
				if got[k] != any(want) {
					d := func(p *int) string {
						if p == nil {
							return "null"
						}
						return fmt.Sprint(*p)
					}
					return run.Failf("%s: .[%s:%s] is %s, by code points %q", id, d(pi), d(pj), run.Canon(got[k]), want)
				}
				k++
			}
		}
		c.Count("slice_ops_checked", int64(k))
	}
	v, f = runQ("slice1")
	if f != nil {
		return f
	}
	{
		got, _ := v.([]any)
		if len(got) != len(ints) {
			return run.Failf("%s: open slice query returned %d values for %d indices", id, len(got), len(ints))
		}
		for k, i := range ints {
			p := c14Clamp(i, 0, n)
			want := []any{string(R[p:]), string(R[:p])}
			if run.Canon(got[k]) != run.Canon(want) {
				return run.Failf("%s: [.[%d:], .[:%d]] is %s, by code points %s", id, i, i, run.Canon(got[k]), run.Canon(want))
			}
		}
	}

	// fractional boundaries: a negative one counts from the end first, then the start is rounded down and the end up
	v, f = runQ("fslice")
	if f != nil {
		return f
	}
	{
		got, _ := v.([]any)
		if len(got) != 12*9 {
			return run.Failf("%s: fractional slice query returned %d values", id, len(got))
		}
		bound := func(x any, end bool, lo int) (int, bool) {
			if x == nil {
				if end {
					return n, true
				}
				return 0, true
			}
			var fl float64
			switch x := x.(type) {
			case float64:
				fl = x
			case int:
				fl = float64(x)
			default:
				return 0, false
			}
			if fl < 0 {
				fl = math.Max(fl+float64(n), 0)
			}
			if end {
				fl = math.Ceil(fl)
			} else {
				fl = math.Floor(fl)
			}
			return min(max(int(fl), lo), n), true
		}
		for _, g := range got {
			tri, _ := g.([]any)
			if len(tri) != 3 {
				return run.Failf("%s: fractional slice query returned %s", id, run.Canon(g))
			}
			start, ok1 := bound(tri[0], false, 0)
			end, ok2 := bound(tri[1], true, start)
			if !ok1 || !ok2 {
				return run.Failf("%s: fractional slice query returned %s", id, run.Canon(g))
			}
			if want := string(R[start:end]); tri[2] != any(want) {
				return run.Failf("%s: .[%s:%s] is %s, by code points %q", id, run.Canon(tri[0]), run.Canon(tri[1]), run.Canon(tri[2]), want)
			}
		}
		c.Count("fractional_slice_ops_checked", int64(len(got)))
	}

	// the same with constant indices (compiled to a different instruction)
	v, f = runQ("const")
	if f != nil {
		return f
	}
	{
		at := func(i int) any {
			if i < 0 {
				i += n
			}
			if 0 <= i && i < n {
				return string(R[i])
			}
			return nil
		}
		sl := func(i, j *int) any {
			start, end := 0, n
			if i != nil {
				start = c14Clamp(*i, 0, n)
			}
			if j != nil {
				end = c14Clamp(*j, start, n)
			}
			return string(R[start:max(start, end)])
		}
		p := func(i int) *int { return &i }
		want := []any{at(0), at(-1), at(2), at(-3), sl(p(1), nil), sl(nil, p(-1)), sl(p(1), p(3)), sl(p(-2), nil), sl(nil, p(2)), sl(p(-3), p(-1)), sl(p(2), p(1))}
		if run.Canon(v) != run.Canon(want) {
			return run.Failf("%s: [.[0], .[-1], .[2], .[-3], .[1:], .[:-1], .[1:3], .[-2:], .[:2], .[-3:-1], .[2:1]] is %s, by code points %s", id, run.Canon(v), run.Canon(want))
		}
	}

	// index / rindex / indices (overlapping occurrences are all reported, as
	// pinned by cli/test.yaml for the shared array implementation).
	v, f = runQ("indices")
	if f != nil {
		return f
	}
	{
		got, _ := v.([]any)
		if len(got) != len(subs) {
			return run.Failf("%s: indices query returned %d values for %d substrings", id, len(got), len(subs))
		}
		for k, sv := range subs {
			sub := []rune(sv.(string))
			pos := []any{}
			if len(sub) > 0 {
				for i := 0; i+len(sub) <= n; i++ {
					if c14RuneEq(R[i:i+len(sub)], sub) {
						pos = append(pos, i)
					}
				}
			}
			var first, last any
			if len(pos) > 0 {
				first, last = pos[0], pos[len(pos)-1]
			}
			want := []any{first, last, pos}
			if run.Canon(got[k]) != run.Canon(want) {
				return run.Failf("%s: [index, rindex, indices](%q) is %s, searching the code point sequence gives %s", id, sv, run.Canon(got[k]), run.Canon(want))
			}
			if len(pos) > 1 {
				c.Count("substrings_with_several_occurrences", 1)
			}
		}
		c.Count("substring_searches_checked", int64(len(subs)))
	}
	if len(t.S) != n {
		c.Nontrivial("P|" + t.S)
	}
	c.Distinct("position_subjects", t.S)
	return nil
})

// ---------------------------------------------------------------- generators

// c14Subjects4 enumerates every string over the alphabet up to 4 code points
// (including the empty string): 1 + 8 + 64 + 512 + 4096 = 4681.
func c14Subjects4() []string {
	out := []string{""}
	level := []string{""}
	for l := 1; l <= 4; l++ {
		var next []string
		for _, p := range level {
			for _, a := range c14Alphabet {
				next = append(next, p+a)
			}
		}
		out = append(out, next...)
		level = next
	}
	return out
}

func c14LongSubject(r *rand.Rand) string {
	n := 5 + r.IntN(36)
	// a small sub-alphabet so that repetitions (and therefore matches) occur
	k := 2 + r.IntN(4)
	var sub []string
	for i := 0; i < k; i++ {
		if r.IntN(3) == 0 {
			sub = append(sub, c14LongAlphabet[r.IntN(len(c14LongAlphabet))])
		} else {
			sub = append(sub, c14Alphabet[r.IntN(len(c14Alphabet))])
		}
	}
	var sb strings.Builder
	for i := 0; i < n; i++ {
		sb.WriteString(sub[r.IntN(len(sub))])
	}
	return sb.String()
}

// c14FixedRegexes is the hand-enumerated part of the regex grammar.
var c14FixedRegexes = []string{
	// literals
	"a", "b", "é", "–", "日", "😀", "\u0301", "\n", `\n`, "x",
	// empty and dot
	"", ".", "..", ".*", ".+", ".?", ".*?", ".+?", ".??", ".{2}", ".{1,2}", ".{0,2}?",
	// classes
	"[ab]", "[^a]", "[^a]*", "[ab]+", "[é日😀]", "[é日😀]+", `[^\n]+`, "[a-b]", "[^ab]", "[^ab]+", "[\u0301\n]", `\w`, `\W`, `\s`, `\S+`, `\pL`, `\PL+`, `\pM`, "[a-z]+", "[A-Z]", "[^é]?",
	// anchors
	"^", "$", "^$", `\b`, `\B`, "^a", "a$", "^.", ".$", "(?m)^", "(?m)$", "(?m)^.", "(?m).$", `\ba`, `a\b`, "^|$", `\b|$`, `\A`, `\z`, "^.*$", "(?m)^.*$", "^é", "😀$",
	// repetition incl. empty-matching
	"a*", "b*", "é*", "日*", "😀*", "\u0301*", "x*", "a+", "a?", "a{0,2}", "a{2}", "a{1,}", "a{1,2}", "é+", "é?", "😀+", "日{2}",
	"a*?", "a+?", "a??", "a{0,2}?", "a{1,}?", "é*?", "é+?",
	// groups
	"(a)", "(?<n>a)", "(?P<n>a)", "(?:a)", "(a)(b)", "(a)|(b)", "(?<n>a)|(?<m>b)", "((a)b)", "(?<n>(?<m>a)b)", "(?<n>(?<m>a)|b)",
	"(a|)", "(|a)", "(a|b)", "(?<n>a|)", "()", "(?<n>)", "(a)*", "(a)+", "(a)?", "(ab)*", "(ab)+", "(a|b)*", "(a|b)+?", "(a*)*", "(a*)+", "(a|)*", "(a|)+", "(?<n>a*)", "(?<n>a)*",
	"(?<n>.)(?<m>.)", "(?<n>.)?b", "(a)?(b)?", "(?<n>é)|(?<m>日)", "(?<n>😀)?", "(.)(.)?", "(?<n>[^a])", "(?<n>\u0301)", "a(?<n>\u0301)?", ".(?<n>\u0301*)", "(?<n>é)(?<m>.)?", "(?<n>.)*", "((?<n>é)|(?<m>😀))+", "(?<n>^)", "(?<n>$)", `(?<n>\b)`, "(?<n>é*)(?<m>日*)",
	// alternation
	"a|b", "a|", "|a", "a|ab", "ab|a", "a|b|é", "é|日|😀", "^a|b$", "a||b", "é|", "|😀", "日|日日", "a|\n", "x|",
	// sequences
	"ab", "ba", "aa", "a.", ".a", "a.b", "é日", "日😀", "a\u0301", "a\n", "\nb", `a\nb`, "é.", ".é", "..b", "a.*b", "a.*?b", "é.*é", "😀.?",
	// case folding
	"A", "É", "(?i)a", "(?i)é", "k", "s+", "(?i:k)", "(?i)[a-z]+",
	// whole-subject anchoring of literals and near-literals (the shapes regexp reports as a complete literal prefix)
	"^a$", "^ab$", "^aa$", "^é$", "^日日$", "^😀$", `\Aa\z`, `\Aab\z`, `^a\z`, `\Aa$`, `^
$`, `^a
b$`, "^(a)$", "^(?:a)$", "^a*$", "^[ab]$", "^.a$", "^a.$", `^a\.b$`, `^\.$`, "(?m)^a$", "(?m)^b$", "^a$|^b$", "^(?<n>a)$", "^á$", "^–a–$", "^aab$", "^b😀b$",
}

// c14RandRegex draws from the grammar: atoms (literals, classes, ., anchors),
// concatenation, alternation (incl. an empty alternative), groups (unnamed,
// named, non-capturing) and quantifiers (greedy and lazy) on atoms and groups.
type c14ReGen struct {
	r     *rand.Rand
	names int
}

func (g *c14ReGen) atom() string {
	r := g.r
	switch r.IntN(10) {
	case 0, 1, 2, 3:
		return c14Alphabet[r.IntN(len(c14Alphabet))]
	case 4:
		return []string{"[ab]", "[^a]", "[é日]", "[^😀]", `[^\n]`, "[a\u0301]", `\w`, `\pL`}[r.IntN(8)]
	case 5, 6:
		return "."
	case 7:
		return []string{"^", "$", `\b`, `\B`, "(?m:^)", "(?m:$)"}[r.IntN(6)]
	default:
		return []string{"a", "b", "é"}[r.IntN(3)]
	}
}

func (g *c14ReGen) group(body string) string {
	switch g.r.IntN(4) {
	case 0:
		return "(?:" + body + ")"
	case 1, 2:
		g.names++
		return fmt.Sprintf("(?<g%d>%s)", g.names, body)
	default:
		return "(" + body + ")"
	}
}

// gen returns a regex and whether it is atomic (may take a quantifier directly).
func (g *c14ReGen) gen(depth int) (string, bool) {
	r := g.r
	if depth <= 0 {
		return g.atom(), true
	}
	switch r.IntN(8) {
	case 0:
		return g.atom(), true
	case 1, 2: // concatenation
		k := 2 + r.IntN(2)
		var sb strings.Builder
		for i := 0; i < k; i++ {
			s, _ := g.gen(depth - 1)
			if strings.Contains(s, "|") {
				s = g.group(s)
			}
			sb.WriteString(s)
		}
		return sb.String(), false
	case 3: // alternation
		k := 2 + r.IntN(2)
		parts := make([]string, k)
		for i := range parts {
			if r.IntN(5) == 0 {
				parts[i] = ""
			} else {
				parts[i], _ = g.gen(depth - 1)
			}
		}
		return strings.Join(parts, "|"), false
	case 4, 5: // group
		s, _ := g.gen(depth - 1)
		return g.group(s), true
	default: // quantifier
		s, atomic := g.gen(depth - 1)
		if !atomic {
			s = g.group(s)
		}
		q := []string{"*", "+", "?", "{0,2}", "{1,2}", "{2}", "{1,}"}[r.IntN(7)]
		if r.IntN(3) == 0 {
			q += "?"
		}
		return s + q, false
	}
}

// c14Regexes: the fixed list plus nRand grammar-generated regexes determined
// by the seed. Only regexes that Go's regexp accepts (alone and wrapped in a
// named group, under every flag prefix) are kept, so that every generated
// case is an "accepted regex" case.
func c14Regexes(r *rand.Rand, nRand int) []string {
	seen := map[string]bool{}
	var out []string
	ok := func(re string) bool {
		for _, p := range []string{"", "(?i)", "(?s)"} {
			if _, err := regexp.Compile(p + re); err != nil {
				return false
			}
			if _, err := regexp.Compile(p + "(?<x>" + re + ")"); err != nil {
				return false
			}
		}
		return true
	}
	for _, re := range c14FixedRegexes {
		if !seen[re] && ok(re) {
			seen[re] = true
			out = append(out, re)
		}
	}
	for tries := 0; len(out) < len(c14FixedRegexes)+nRand && tries < 20*nRand; tries++ {
		g := &c14ReGen{r: r}
		re, _ := g.gen(1 + r.IntN(3))
		switch r.IntN(12) {
		case 0:
			re = "^" + re + "$"
		case 1:
			re = `\A` + re + `\z`
		case 2:
			re = "^(?:" + re + ")$"
		}
		if len(re) > 60 || seen[re] || !ok(re) {
			continue
		}
		seen[re] = true
		out = append(out, re)
	}
	return out
}

// c14CoreSubjects always meet every (regex, flags) pair, in every tier and seed.
var c14CoreSubjects = []string{"", "a", "aaa", "ab", "ba", "é", "aé日b", "😀a", "a\u0301", "a\nb", "日日", "–a–", "éaé", "b😀b", "\n", "aab"}

func c14P(s string) *string { return &s }

// ---- strings that are not valid UTF-8 (they reach a query through @base64d, --arg, -R, or a Go caller) ----
//
// Whatever an undecodable byte counts as, every position-bearing builtin has to count it the same way.

type c14Bytes struct {
	Hex string // the subject's bytes
}

const c14BytesLaws = `. as $s | length as $n | [
	($n == (explode | length)),
	($n == ([match("(?s)."; "g")] | length)),
	([range(0; $n + 1) as $i | ($s[:$i] + $s[$i:]) == $s] | all),
	([range(0; $n + 1) as $i | range($i; $n + 1) as $j | ($s[$i:$j] | length) == $j - $i] | all),
	(utf8bytelength >= $n),
	([match("(?s)."; "g") | (.offset as $o | .length as $l | $s[$o:$o + $l] == .string)] | all),
	([range(0; $n) as $i | $s[$i:] | length] == [range($n; 0; -1)]),
	(($s + "x" | length) == $n + 1), ((["a", $s, "b"] | add | index("b")) == $n + 1), (($s + "b" | rindex("b")) == $n), (($s + "|b" | [splits("\\|")] | .[0] | length) == $n), (($s + "|" | sub("\\|$"; "") | length) == $n)
]`

var c14BytesCode = sync.OnceValue(func() *gojq.Code {
	res := run.Compile(c14BytesLaws)
	if res.Code == nil {
		panic(fmt.Sprintf("c14: %v %s", res.Err, res.Panic))
	}
	return res.Code
})

var kC14Bytes = run.NewKind("c14.invalid-utf8", func(c *run.Ctx, t c14Bytes) *run.Fail {
	b, err := hex.DecodeString(t.Hex)
	if err != nil {
		return run.Failf("bad case")
	}
	subj := string(b)
	tr := run.RunCode(c14BytesCode(), subj, nil, 400000, 0)
	if tr.End == run.EndBudget {
		c.Inconclusive("budget")
		return nil
	}
	if tr.End != run.EndOK || len(tr.Vals) != 1 {
		return run.Failf("position laws on the bytes %q: %s", subj, run.TraceDesc(tr))
	}
	res, _ := tr.Vals[0].([]any)
	names := []string{"length == explode|length", "length == number of matches of .", ".[:i] + .[i:] == .", "(.[i:j] | length) == j - i", "utf8bytelength >= length", "slicing by a match's (offset, length) gives its string", "suffix lengths count down", "appending one character adds one",
		"index of a character behind the subject", "rindex behind the subject", "first piece of splits", "sub at the end"}
	for i, ok := range res {
		if ok != true {
			return run.Failf("string with the bytes %q (not valid UTF-8): law %q does not hold (%s)", subj, names[min(i, len(names)-1)], run.Canon(tr.Vals[0]))
		}
	}
	if !utf8.ValidString(subj) {
		c.Nontrivial("bytes|" + t.Hex)
		c.Count("invalid_utf8_subjects", 1)
	}
	return nil
})

func init() {
	run.Register(&run.Prop{
		ID: "C14", Level: "exploration", MinNontrivial: 20000,
		Rule: "positions: every subject over {a, b, é, –, 日, 😀, U+0301, \\n} up to 4 code points (exhaustive, 4681) and random subjects of 5..40 code points; for each, length/explode, .[i] and .[i:j] for every i, j in [-n-2, n+2] and null, and index/rindex/indices of every substring (≤3 code points), every alphabet letter and non-occurring strings are compared with the same operation on []rune. regex: (subject, regex, flags) triples — quick: every exhaustive subject × 110 PRNG-chosen (regex, flags) pairs; thorough: the full product of the exhaustive subjects × all regexes × all flags, 16 fixed core subjects × every pair, random long subjects × random pairs; regexes = ~185 hand-enumerated grammar instances + seed-determined grammar-generated ones; flags null, g, i, m, gi, gm (plus \"\", im, gim, mig on long subjects). Each triple runs 11 compiled queries under the instruction budget 50 000 + 5 000·n. Non-trivial = distinct triple whose subject is non-ASCII or that has at least one match (positions: distinct non-ASCII subject).",
		Assumptions: []string{
			"Go's regexp, unicode/utf8 and []rune conversion (go1.26 standard library) are correct; gojq documents Go's regexp as its engine, flags i = case-insensitive, m = dot matches newline (pinned by cli/test.yaml), g = all matches",
			"a regex is 'accepted' iff match($re; $flags) does not raise an error",
			"non-termination inside a native function that never polls the context would show as a worker hang (inconclusive), not as a budget violation",
		},
		Body: func(c *run.Ctx) {
			// every byte string up to length 3 (quick) / 4 over bytes of every UTF-8 role
			{
				alpha := []string{"a", "\x80", "\xbf", "\xc3", "\xe3", "\x81", "\xf0", "\x9f", "\xff", "\xc3\xa9", "\xed", "\xa0", "\xf4", "\x90", "\xc0", "\xef\xbf\xbd"}
				var rec func(prefix string, d int)
				rec = func(prefix string, d int) {
					kC14Bytes.Do(c, c14Bytes{Hex: hex.EncodeToString([]byte(prefix))})
					if d == 0 {
						return
					}
					for _, a := range alpha {
						rec(prefix+a, d-1)
					}
				}
				rec("", c.N(3, 4))
			}
			subjects := c14Subjects4()
			c.Gauge("exhaustive_subjects_len4", 1)
			c.Gauge("subjects_len4", int64(len(subjects)))
			r := c.Rand("c14")
			regexes := c14Regexes(c.Rand("c14.regexes"), c.N(40, 100))
			c.Gauge("regexes", int64(len(regexes)))
			flags := []*string{nil, c14P("g"), c14P("i"), c14P("m"), c14P("gi"), c14P("gm")}
			longFlags := append(append([]*string{}, flags...), c14P(""), c14P("im"), c14P("gim"), c14P("mig"))
			type pair struct {
				re string
				fl *string
			}
			var pairs []pair
			for _, re := range regexes {
				for _, fl := range flags {
					pairs = append(pairs, pair{re, fl})
				}
			}

			// 1. positions, exhaustive subjects + random long ones
			for _, s := range subjects {
				kC14Pos.Do(c, c14Pos{S: s})
			}
			for i, n := 0, c.N(3000, 40000); i < n; i++ {
				kC14Pos.Do(c, c14Pos{S: c14LongSubject(r)})
			}

			// 2. core subjects × every (regex, flags)
			for _, p := range pairs {
				for _, s := range c14CoreSubjects {
					kC14Re.Do(c, c14Re{S: s, Re: p.re, Fl: p.fl})
				}
			}

			// 3. quick: every exhaustive subject × K PRNG-chosen (regex, flags)
			// pairs; thorough: the full product subjects × regexes × flags.
			if c.Quick() {
				for _, s := range subjects {
					for j := 0; j < c14QuickPairsPerSubject; j++ {
						p := pairs[r.IntN(len(pairs))]
						kC14Re.Do(c, c14Re{S: s, Re: p.re, Fl: p.fl})
					}
				}
			} else {
				c.Gauge("exhaustive_product_subjects_x_regexes_x_flags", 1)
				for _, p := range pairs {
					for _, s := range subjects {
						kC14Re.Do(c, c14Re{S: s, Re: p.re, Fl: p.fl})
					}
				}
			}

			// 4. random longer subjects × random (regex, extended flags)
			for i, n := 0, c.N(c14QuickLong, c14ThoroughLong); i < n; i++ {
				s := c14LongSubject(r)
				re := regexes[r.IntN(len(regexes))]
				fl := longFlags[r.IntN(len(longFlags))]
				kC14Re.Do(c, c14Re{S: s, Re: re, Fl: fl})
			}

			// 5. a few regexes / flags that are NOT accepted (skip path; must not panic)
			for _, re := range []string{"[", "(?<n>", "a**", "(", `\`, "(?<n", "a"} {
				for _, fl := range []*string{nil, c14P("x"), c14P("gx"), c14P("n")} {
					if re == "a" && fl == nil {
						continue
					}
					for _, s := range c14CoreSubjects[:6] {
						kC14Re.Do(c, c14Re{S: s, Re: re, Fl: fl})
					}
				}
			}
		},
	})
}

const (
	c14QuickPairsPerSubject = 110
	c14QuickLong            = 100000
	c14ThoroughLong         = 1000000
)
