package mon

import (
	"bytes"
	"encoding/json"
	"fmt"
	"io"
	"math"
	"math/big"
	"sort"
	"strconv"
	"strings"
	"unicode/utf8"
)

// ---- C12 independent readers: SGR stripper, JSON scanner, value equality ----
//
// Nothing in this file calls gojq. The scanner is a hand-written JSON
// tokenizer (it knows strings, so whitespace inside strings is never touched);
// the reader that decides "parses back to an equal value" is encoding/json
// with UseNumber; numbers are compared as exact decimals.

// c12StripSGR removes every "ESC [ params m" sequence (params = digits and
// semicolons). Any other ESC byte is an error: a raw ESC may never occur in
// JSON text (control characters must be escaped inside strings).
func c12StripSGR(b []byte) (out []byte, nseq int, err error) {
	if bytes.IndexByte(b, 0x1b) < 0 {
		return b, 0, nil
	}
	out = make([]byte, 0, len(b))
	for i := 0; i < len(b); {
		if b[i] != 0x1b {
			out = append(out, b[i])
			i++
			continue
		}
		j := i + 1
		if j >= len(b) || b[j] != '[' {
			return nil, nseq, fmt.Errorf("ESC at offset %d is not the start of an SGR sequence", i)
		}
		j++
		for j < len(b) && (b[j] >= '0' && b[j] <= '9' || b[j] == ';') {
			j++
		}
		if j >= len(b) || b[j] != 'm' {
			return nil, nseq, fmt.Errorf("unterminated or non-SGR escape sequence at offset %d", i)
		}
		nseq++
		i = j + 1
	}
	return out, nseq, nil
}

// c12Tok is one JSON token. D is the nesting depth at which the token sits:
// a top-level value has D 0, the elements/keys of a container at depth d have
// D d+1, a closing bracket has the D of its opening bracket.
type c12Tok struct {
	K    byte // [ ] { } , : s(tring) k(ey string) n(umber) l(iteral)
	S, E int
	D    int
}

type c12Scanner struct {
	b    []byte
	p    int
	toks []c12Tok
}

func (s *c12Scanner) ws() {
	for s.p < len(s.b) {
		switch s.b[s.p] {
		case ' ', '\t', '\n', '\r':
			s.p++
		default:
			return
		}
	}
}

func (s *c12Scanner) tok(k byte, start, d int) {
	s.toks = append(s.toks, c12Tok{K: k, S: start, E: s.p, D: d})
}

func (s *c12Scanner) errf(format string, a ...any) error {
	return fmt.Errorf("offset %d: %s", s.p, fmt.Sprintf(format, a...))
}

func isHex(c byte) bool {
	return c >= '0' && c <= '9' || c >= 'a' && c <= 'f' || c >= 'A' && c <= 'F'
}

func (s *c12Scanner) str(kind byte, d int) error {
	start := s.p
	s.p++ // opening quote
	for {
		if s.p >= len(s.b) {
			return s.errf("unterminated string")
		}
		c := s.b[s.p]
		switch {
		case c == '"':
			s.p++
			s.tok(kind, start, d)
			return nil
		case c < 0x20:
			return s.errf("raw control character 0x%02x inside a string", c)
		case c == 0x7f:
			return s.errf("raw DEL (0x7f) inside a string (control characters must be escaped)")
		case c == '\\':
			if s.p+1 >= len(s.b) {
				return s.errf("dangling backslash")
			}
			switch s.b[s.p+1] {
			case '"', '\\', '/', 'b', 'f', 'n', 'r', 't':
				s.p += 2
			case 'u':
				if s.p+6 > len(s.b) || !isHex(s.b[s.p+2]) || !isHex(s.b[s.p+3]) || !isHex(s.b[s.p+4]) || !isHex(s.b[s.p+5]) {
					return s.errf("bad \\u escape")
				}
				s.p += 6
			default:
				return s.errf("bad escape \\%c", s.b[s.p+1])
			}
		default:
			s.p++
		}
	}
}

func (s *c12Scanner) digits() int {
	n := 0
	for s.p < len(s.b) && s.b[s.p] >= '0' && s.b[s.p] <= '9' {
		s.p++
		n++
	}
	return n
}

func (s *c12Scanner) num(d int) error {
	start := s.p
	if s.b[s.p] == '-' {
		s.p++
	}
	if s.p >= len(s.b) {
		return s.errf("truncated number")
	}
	if s.b[s.p] == '0' {
		s.p++
	} else if s.digits() == 0 {
		return s.errf("bad number")
	}
	if s.p < len(s.b) && s.b[s.p] == '.' {
		s.p++
		if s.digits() == 0 {
			return s.errf("bad fraction")
		}
	}
	if s.p < len(s.b) && (s.b[s.p] == 'e' || s.b[s.p] == 'E') {
		s.p++
		if s.p < len(s.b) && (s.b[s.p] == '+' || s.b[s.p] == '-') {
			s.p++
		}
		if s.digits() == 0 {
			return s.errf("bad exponent")
		}
	}
	s.tok('n', start, d)
	return nil
}

func (s *c12Scanner) value(d int) error {
	if s.p >= len(s.b) {
		return s.errf("value expected, found end of text")
	}
	switch c := s.b[s.p]; {
	case c == '[':
		start := s.p
		s.p++
		s.tok('[', start, d)
		s.ws()
		if s.p < len(s.b) && s.b[s.p] == ']' {
			s.p++
			s.tok(']', s.p-1, d)
			return nil
		}
		for {
			if err := s.value(d + 1); err != nil {
				return err
			}
			s.ws()
			if s.p >= len(s.b) {
				return s.errf("unterminated array")
			}
			switch s.b[s.p] {
			case ',':
				s.p++
				s.tok(',', s.p-1, d+1)
				s.ws()
			case ']':
				s.p++
				s.tok(']', s.p-1, d)
				return nil
			default:
				return s.errf("',' or ']' expected, found %q", s.b[s.p])
			}
		}
	case c == '{':
		start := s.p
		s.p++
		s.tok('{', start, d)
		s.ws()
		if s.p < len(s.b) && s.b[s.p] == '}' {
			s.p++
			s.tok('}', s.p-1, d)
			return nil
		}
		for {
			if s.p >= len(s.b) || s.b[s.p] != '"' {
				return s.errf("object key expected")
			}
			if err := s.str('k', d+1); err != nil {
				return err
			}
			s.ws()
			if s.p >= len(s.b) || s.b[s.p] != ':' {
				return s.errf("':' expected")
			}
			s.p++
			s.tok(':', s.p-1, d+1)
			s.ws()
			if err := s.value(d + 1); err != nil {
				return err
			}
			s.ws()
			if s.p >= len(s.b) {
				return s.errf("unterminated object")
			}
			switch s.b[s.p] {
			case ',':
				s.p++
				s.tok(',', s.p-1, d+1)
				s.ws()
			case '}':
				s.p++
				s.tok('}', s.p-1, d)
				return nil
			default:
				return s.errf("',' or '}' expected, found %q", s.b[s.p])
			}
		}
	case c == '"':
		return s.str('s', d)
	case c == '-' || c >= '0' && c <= '9':
		return s.num(d)
	default:
		for _, lit := range []string{"true", "false", "null"} {
			if bytes.HasPrefix(s.b[s.p:], []byte(lit)) {
				start := s.p
				s.p += len(lit)
				s.tok('l', start, d)
				return nil
			}
		}
		return s.errf("unexpected byte %q where a value should start", c)
	}
}

// c12Scan scans exactly one JSON value that starts at b[pos] (no leading
// white space) and returns its tokens and the offset just after it.
func c12Scan(b []byte, pos int) ([]c12Tok, int, error) {
	s := &c12Scanner{b: b, p: pos}
	if err := s.value(0); err != nil {
		return nil, s.p, err
	}
	return s.toks, s.p, nil
}

// c12Compact concatenates the tokens: the text without insignificant white space.
func c12Compact(b []byte, toks []c12Tok) []byte {
	n := 0
	for _, t := range toks {
		n += t.E - t.S
	}
	out := make([]byte, 0, n)
	for _, t := range toks {
		out = append(out, b[t.S:t.E]...)
	}
	return out
}

// c12Layout describes one admissible layout: compact, or indented by Unit.
type c12Layout struct {
	Compact bool
	Unit    string
}

func (l c12Layout) String() string {
	if l.Compact {
		return "compact"
	}
	return fmt.Sprintf("indent unit %q", l.Unit)
}

type c12LayoutStats struct {
	Lines    int
	MaxWidth int
	Depths   map[int]bool
}

// c12CheckLayout checks the white space between the tokens of one value.
// Statement level ("indentation is exactly depth times the unit"): the white
// space after the last newline of every gap is unit x depth of the following
// token. Pinned layout (cli/test.yaml): compact output has no white space at
// all; indented output puts every element, member and non-empty closing
// bracket on its own line, one space after ':' and keeps [] and {} inline.
func c12CheckLayout(b []byte, toks []c12Tok, l c12Layout, st *c12LayoutStats) string {
	for i := 1; i < len(toks); i++ {
		prev, t := toks[i-1], toks[i]
		gap := string(b[prev.E:t.S])
		if l.Compact {
			if gap != "" {
				return fmt.Sprintf("layout: compact output contains white space %q at offset %d", gap, prev.E)
			}
			continue
		}
		if j := strings.LastIndexByte(gap, '\n'); j >= 0 {
			lead := gap[j+1:]
			if want := strings.Repeat(l.Unit, t.D); lead != want {
				return fmt.Sprintf("indent: line starting at offset %d (token %q, depth %d) is indented by %q (%d bytes), want depth x unit = %d x %q (%d bytes)",
					prev.E+j+1, clipS(string(b[t.S:t.E]), 30), t.D, clipS(lead, 60), len(lead), t.D, l.Unit, len(want))
			}
			if st != nil {
				st.Lines++
				st.MaxWidth = max(st.MaxWidth, len(lead))
				if st.Depths != nil {
					st.Depths[t.D] = true
				}
			}
		}
		var want string
		switch {
		case (prev.K == '[' && t.K == ']') || (prev.K == '{' && t.K == '}'):
			want = ""
		case prev.K == '[' || prev.K == '{' || prev.K == ',' || t.K == ']' || t.K == '}':
			want = "\n" + strings.Repeat(l.Unit, t.D)
		case prev.K == ':':
			want = " "
		}
		if gap != want {
			return fmt.Sprintf("layout: white space between %q and %q at offset %d is %q, want %q",
				clipS(string(b[prev.S:prev.E]), 20), clipS(string(b[t.S:t.E]), 20), prev.E, clipS(gap, 60), clipS(want, 60))
		}
	}
	return ""
}

func clipS(s string, n int) string {
	if len(s) > n {
		return s[:n] + "…"
	}
	return s
}

// c12Decode is the independent reader: encoding/json, numbers kept as text.
func c12Decode(text []byte) (any, error) {
	dec := json.NewDecoder(bytes.NewReader(text))
	dec.UseNumber()
	var w any
	if err := dec.Decode(&w); err != nil {
		return nil, err
	}
	if _, err := dec.Token(); err != io.EOF {
		return nil, fmt.Errorf("trailing data after the JSON value")
	}
	return w, nil
}

// ---- exact decimal comparison of number texts ----

type c12Dec struct {
	neg    bool
	digits string // no leading or trailing zeros; "" for zero
	exp    int64  // value = 0.digits x 10^exp ... stored as: digits x 10^exp
}

// c12ParseDec parses a JSON number text into sign, significant digits and a
// decimal exponent (value = digits x 10^exp).
func c12ParseDec(s string) (c12Dec, bool) {
	var d c12Dec
	if strings.HasPrefix(s, "-") {
		d.neg = true
		s = s[1:]
	}
	mant, expo := s, ""
	if i := strings.IndexAny(s, "eE"); i >= 0 {
		mant, expo = s[:i], s[i+1:]
		if expo == "" {
			return d, false
		}
	}
	var e int64
	if expo != "" {
		if len(expo) > 12 {
			return d, false
		}
		v, err := strconv.ParseInt(expo, 10, 64)
		if err != nil {
			return d, false
		}
		e = v
	}
	intp, frac := mant, ""
	if i := strings.IndexByte(mant, '.'); i >= 0 {
		intp, frac = mant[:i], mant[i+1:]
		if frac == "" {
			return d, false
		}
	}
	if intp == "" {
		return d, false
	}
	all := intp + frac
	for i := 0; i < len(all); i++ {
		if all[i] < '0' || all[i] > '9' {
			return d, false
		}
	}
	e -= int64(len(frac))
	all = strings.TrimLeft(all, "0")
	t := strings.TrimRight(all, "0")
	e += int64(len(all) - len(t))
	if t == "" {
		return c12Dec{}, true // zero (sign ignored: -0 == 0)
	}
	d.digits, d.exp = t, e
	return d, true
}

// c12DecEq reports whether two number texts denote the same real number.
func c12DecEq(a, b string) (eq, ok bool) {
	da, ok1 := c12ParseDec(a)
	db, ok2 := c12ParseDec(b)
	if !ok1 || !ok2 {
		return false, false
	}
	return da == db, true
}

// ---- U+FFFD replacement matching ----

// c12MatchStr reports whether d is s with "invalid UTF-8 replaced by U+FFFD":
// d is valid UTF-8, every valid rune of s is preserved in order, and every
// maximal run of n invalid bytes became between 1 and n U+FFFD.
func c12MatchStr(s, d string) bool {
	if utf8.ValidString(s) {
		return s == d
	}
	if !utf8.ValidString(d) {
		return false
	}
	i, j := 0, 0
	for i < len(s) || j < len(d) {
		// count the U+FFFD-like group in s: lo/hi replacement runes
		lo, hi := 0, 0
		inRun := false
		for i < len(s) {
			r, n := utf8.DecodeRuneInString(s[i:])
			if r == utf8.RuneError && n == 1 {
				hi++
				if !inRun {
					lo++
					inRun = true
				}
				i++
				continue
			}
			if r == utf8.RuneError { // a genuine U+FFFD
				lo++
				hi++
				inRun = false
				i += n
				continue
			}
			break
		}
		k := 0
		for j < len(d) {
			r, n := utf8.DecodeRuneInString(d[j:])
			if r != utf8.RuneError {
				break
			}
			k++
			j += n
		}
		if k < lo || k > hi {
			return false
		}
		// one ordinary rune on both sides
		if i >= len(s) && j >= len(d) {
			return true
		}
		if i >= len(s) || j >= len(d) {
			return false
		}
		r1, n1 := utf8.DecodeRuneInString(s[i:])
		r2, n2 := utf8.DecodeRuneInString(d[j:])
		if r1 != r2 {
			return false
		}
		i += n1
		j += n2
	}
	return true
}

// ---- value equality modulo the documented lossy cases ----

// c12Diff describes the first difference between an emitted value and what
// was read back.
type c12Diff struct {
	Path string
	Why  string
	Kind string // "<Go type of the emitted leaf>-><JSON type read back>" for signatures
	Leaf string // the emitted string (or object key) the difference is about, if any
}

func (d *c12Diff) String() string { return fmt.Sprintf("at %s: %s", d.Path, d.Why) }

func jsonTypeOf(w any) string {
	switch w.(type) {
	case nil:
		return "null"
	case bool:
		return "boolean"
	case json.Number:
		return "number"
	case string:
		return "string"
	case []any:
		return "array"
	case map[string]any:
		return "object"
	}
	return fmt.Sprintf("%T", w)
}

// c12EqualVal compares v (a gojq value: nil, bool, int, float64, *big.Int,
// json.Number, string, []any, map[string]any) with w (decoded by
// encoding/json with UseNumber). Lossy cases allowed: NaN reads back as null,
// +-Inf as +-MaxFloat64, invalid UTF-8 as U+FFFD (see c12MatchStr); -0 == 0.
func c12EqualVal(v, w any, path string) *c12Diff {
	mism := func(why string) *c12Diff {
		return &c12Diff{Path: path, Why: why, Kind: fmt.Sprintf("%T->%s", v, jsonTypeOf(w))}
	}
	switch v := v.(type) {
	case nil:
		if w != nil {
			return mism(fmt.Sprintf("emitted null, read back %s", c12Show(w)))
		}
	case bool:
		if b, ok := w.(bool); !ok || b != v {
			return mism(fmt.Sprintf("emitted %v, read back %s", v, c12Show(w)))
		}
	case string:
		d, ok := w.(string)
		if !ok {
			return mism(fmt.Sprintf("emitted a string, read back %s", c12Show(w)))
		}
		if !c12MatchStr(v, d) {
			df := mism(fmt.Sprintf("emitted string %q, read back %q", clipS(v, 120), clipS(d, 120)))
			df.Leaf = v
			return df
		}
	case int:
		return c12EqNum(strconv.Itoa(v), w, mism)
	case *big.Int:
		return c12EqNum(v.String(), w, mism)
	case json.Number:
		return c12EqNum(string(v), w, mism)
	case float64:
		if math.IsNaN(v) {
			if w != nil {
				return mism(fmt.Sprintf("emitted NaN, read back %s (want null)", c12Show(w)))
			}
			return nil
		}
		n, ok := w.(json.Number)
		if !ok {
			return mism(fmt.Sprintf("emitted number %v, read back %s", v, c12Show(w)))
		}
		want := v
		if math.IsInf(v, 1) {
			want = math.MaxFloat64
		} else if math.IsInf(v, -1) {
			want = -math.MaxFloat64
		}
		g, err := strconv.ParseFloat(string(n), 64)
		if err != nil || g != want {
			return mism(fmt.Sprintf("emitted float %s (bits %016x), read back %s which parses to %s",
				strconv.FormatFloat(v, 'g', -1, 64), math.Float64bits(v), n, strconv.FormatFloat(g, 'g', -1, 64)))
		}
	case []any:
		ws, ok := w.([]any)
		if !ok {
			return mism(fmt.Sprintf("emitted an array, read back %s", c12Show(w)))
		}
		if len(ws) != len(v) {
			return mism(fmt.Sprintf("emitted an array of %d elements, read back %d", len(v), len(ws)))
		}
		for i := range v {
			if d := c12EqualVal(v[i], ws[i], fmt.Sprintf("%s[%d]", path, i)); d != nil {
				return d
			}
		}
	case map[string]any:
		wm, ok := w.(map[string]any)
		if !ok {
			return mism(fmt.Sprintf("emitted an object, read back %s", c12Show(w)))
		}
		allValid := true
		for k := range v {
			if !utf8.ValidString(k) {
				allValid = false
				break
			}
		}
		if allValid {
			if len(wm) != len(v) {
				return mism(fmt.Sprintf("emitted an object of %d members, read back %d", len(v), len(wm)))
			}
			keys := make([]string, 0, len(v))
			for k := range v {
				keys = append(keys, k)
			}
			sort.Strings(keys)
			for _, k := range keys {
				y, ok := wm[k]
				if !ok {
					df := mism(fmt.Sprintf("key %q is missing in what was read back", clipS(k, 80)))
					df.Leaf = k
					return df
				}
				if d := c12EqualVal(v[k], y, path+"."+strconv.Quote(clipS(k, 40))); d != nil {
					return d
				}
			}
			return nil
		}
		// some keys are not valid UTF-8: after replacement keys may collide
		keys := make([]string, 0, len(v))
		for k := range v {
			keys = append(keys, k)
		}
		sort.Strings(keys)
		dkeys := make([]string, 0, len(wm))
		for k := range wm {
			dkeys = append(dkeys, k)
		}
		sort.Strings(dkeys)
		cand := map[string][]string{} // decoded key -> emitted keys it may stand for
		nmatch := map[string]int{}
		for _, k := range keys {
			for _, dk := range dkeys {
				if c12MatchStr(k, dk) {
					cand[dk] = append(cand[dk], k)
					nmatch[k]++
				}
			}
			if nmatch[k] == 0 {
				df := mism(fmt.Sprintf("key %q has no counterpart in what was read back", clipS(k, 80)))
				df.Leaf = k
				return df
			}
		}
		for _, dk := range dkeys {
			ks := cand[dk]
			if len(ks) == 0 {
				return mism(fmt.Sprintf("read back key %q that corresponds to no emitted key", clipS(dk, 80)))
			}
			var first *c12Diff
			okAny := false
			for _, k := range ks {
				d := c12EqualVal(v[k], wm[dk], path+"."+strconv.Quote(clipS(dk, 40)))
				if d == nil {
					okAny = true
					break
				}
				if first == nil {
					first = d
				}
			}
			if !okAny {
				return first
			}
		}
	default:
		return mism(fmt.Sprintf("unsupported emitted type %T", v))
	}
	return nil
}

func c12EqNum(text string, w any, mism func(string) *c12Diff) *c12Diff {
	n, ok := w.(json.Number)
	if !ok {
		return mism(fmt.Sprintf("emitted number %s, read back %s", clipS(text, 80), c12Show(w)))
	}
	eq, ok := c12DecEq(text, string(n))
	if !ok {
		return mism(fmt.Sprintf("cannot compare number texts %q and %q", clipS(text, 80), clipS(string(n), 80)))
	}
	if !eq {
		return mism(fmt.Sprintf("emitted number %s, read back %s", clipS(text, 80), clipS(string(n), 80)))
	}
	return nil
}

func c12Show(w any) string {
	b, err := json.Marshal(w)
	if err != nil {
		return fmt.Sprintf("%v", w)
	}
	return jsonTypeOf(w) + " " + clipS(string(b), 120)
}
