package mon

import (
	"fmt"
	"math/rand/v2"
	"strconv"
	"strings"

	"verif/harness/internal/run"
)

// ---- C15 workload: pools, argv spelling, stdin and query generators ----

func c15Deep(open, close string, n int, core string) string {
	return strings.Repeat(open, n) + core + strings.Repeat(close, n)
}

// c15Lits are values written as jq literals (each is also valid JSON unless it
// uses nan/infinite).
var c15Lits = []string{
	"null", "false", "true", "0", "1", "2", "42", "(-1)", "1.5", "1.0", "(-0)", "0.1", "1e3", "1E-2", "3.0e10",
	"100000000000000000000", "12345678901234567890123", "1e1000", "(-1e1000)", "1.7976931348623157e308", "5e-324",
	"nan", "infinite", "(-infinite)", "[nan,infinite]",
	// computed doubles at the two thresholds of the number format (1e-6 and 1e21), where the command's writer and the library's must agree
	"(1e21*1)", "(-1e21*1)", "[pow(10;21)]", "(1e21*1.0000001)", "(999999999999999900000*1.0)", "(1e20*1)", "(2e21*1)", "(1e-6*1)", "(1e-7*1)", "(0.000001*1)", "(0.0000009999999999999999*1)", "(-1e-6*1)", "{\"k\":[(1e21*1),(1e-6*1)]}", "(pow(2;63))", "(pow(2;53)+1)",
	`""`, `"a"`, `"abc"`, `"a b"`, `"a\nb"`, `"tab\there"`, `"q\"uote"`, `"back\\slash"`, `"nul\u0000mid"`, `"\u0000"`, `"\u0000\u0000end"`,
	`"é"`, `"日本語"`, `"😀"`, `"\ud83d\ude00"`, `"\ud800"`, `"  "`, `"<&>'"`, `"\u007f"`, `"\u001f\u0001"`, `"\r\n"`, `"ends with newline\n"`, `"/"`, `"\b\f"`,
	`("/w==" | @base64d)`, `"[1,2]"`, `"null"`, `" "`,
	"[]", "{}", "[[]]", "[{}]", `{"a":[]}`, `{"a":{}}`, "[1,2,3]", "[1,[2,[3,[4,[5]]]]]", `{"a":1,"b":{"c":[true,null,"x"]}}`,
	`{"z":1,"a":2,"m":{"y":[],"x":{}}}`, `[{"a":"nul\u0000in"}]`, `{"k\u0000":"v"}`, `{"a b":{"c\nd":1}}`, `["a:b","c,d","[","}","\"{"]`,
	`{"a":"x: y, z","b":"{}[]"}`, `[[],[[]],{},{"a":{}}]`, `[null,false,true]`, `[1.0,1e1000,100000000000000000000]`, `{"é":"ü","日":["本"]}`,
	`[""]`, `{"":""}`, `{"":{"":[]}}`,
}

// deep and large literals (exercise indentation beyond the fixed space/tab tables and output flushing)
var c15BigLits = []string{
	c15Deep("[", "]", 20, "1"), c15Deep("[", "]", 45, ""), c15Deep(`{"a":`, "}", 18, `"x"`), c15Deep(`[{"k":`, "}]", 12, "[]"),
	"[range(3000)]", `[range(400) | {a: ., b: [., "s\(.)"]}]`, `("ab\u0000c" * 3000)`, `("xy" * 6000)`, `[range(2000) | tostring]`,
	`[limit(12; repeat("abcdefghij" * 100))]`,
}

var c15HaltMsgs = []string{
	`"bye\n"`, `"no newline"`, `""`, `"nul\u0000in"`, `"é😀"`, "null", "0", "1.5", "false", "true", `[1,{"a":"b"}]`, `{"a":[1,2],"b":null}`,
	"nan", "100000000000000000000", `"multi\nline\n"`, "[]", `"gojq: looks like a diagnostic\n"`, `{"k\u0000":"\n"}`,
}

var c15HaltCodes = []int64{0, 1, 2, 3, 4, 5, 6, 42, 127, 128, 129, 255, 256, 257, 300, 511, 512, 1000, 65536, 65541, -1, -2, -128, -255, -256, -257, -300, 4294967303, -4294967295}

// c15Docs are stdin documents (JSON texts).
var c15Docs = []string{
	"null", "false", "true", "0", "1", "2", "3", "-1", "42", "1.5", "1.0", "1.000", "-0", "0.10", "1e2", "1E+2", "1e1000", "-1e1000", "1e-400",
	"100000000000000000000", "123456789012345678901234567890", "9007199254740993", "0.1e1",
	`""`, `"a"`, `"x y"`, `"a\nb"`, `"tab\t"`, `"q\""`, `"\\"`, `"nul\u0000x"`, `"\u0000"`, `"é"`, `"\u00e9"`, `"日本"`, `"😀"`, `"\ud83d\ude00"`, `"\ud800"`,
	`" "`, `"<&>"`, `"\u007f"`, `"\/"`, `"\b\f"`, "\"a\xffb\"", `"null"`, `"1"`,
	"[]", "{}", "[[]]", "[{}]", "[1,2,3]", `[1,"a",null,true]`, `{"a":1}`, `{"a":null}`, `{"a":{"b":2}}`, `{"a":[1,2],"b":"x"}`, `{"b":1,"a":2}`, `{"a":1,"a":2}`,
	"[[1,[2,[3]]]]", `{"a":"nul\u0000"}`, "[1.0,1e1000,-0]", `{ "a" : [ 1 , 2 ] }`, "[ ]", "{\n}", `{"a":false}`, "[false]", "[null]", `["\u0000"]`, `["a","nul\u0000",1]`,
	`{"a":{"a":{"a":[{"a":[]}]}}}`, `[{"a":1},{"a":"x"},{"b":null}]`, `{"é":1}`, `[[],{}]`, `{"a":[]}`,
}

var c15BigDocs = []string{
	c15Deep("[", "]", 30, "0"), c15Deep(`{"a":`, "}", 25, "null"),
	"[" + strings.TrimSuffix(strings.Repeat("1234567,", 3000), ",") + "]",
	`"` + strings.Repeat("0123456789abcdef", 1500) + `"`,
	"[" + strings.TrimSuffix(strings.Repeat(`{"k":["v",1.0,null]},`, 1200), ",") + "]",
}

var c15Tails = []string{
	"{", "[1,", "]", "}", "nul", `"abc`, `{"a" 1}`, "x", "tru", "[1 2]", "'a'", `{"a":}`, "[,]", `{"a":1,}`, `"\x"`, "+", "-", "1.e", `{"a"`, "[[[", "\x00",
	`"bad ` + "\n" + ` newline"`, "nan", "[1,2", `{"a":[1,{"b":`,
}

var c15Seps = []string{" ", "\n", "\n", "\n\n", "\t", "\r\n", " \n ", "  "}

// c15BadQueries do not parse or do not compile.
var c15BadQueries = []string{
	".[", "1 +", "if . then 1", "}", ". as x | x", `"unterminated`, ".a.[", "nosuchfn", "$undefined", "break $nolabel", "map", "map(1;2)",
	". as [$a] | $b", "reduce . as $x (0)", "1 2", "| 1", ".. ..", "{a:}", "[1,", "try", "def f: 1;", "def f: 1; g", "label | 1", `"\(1;2)"`, "1 as $x", "@", ".a = ", "..a",
	"error(1;2)", "halt_error(1;2)", "halt(1)", "f(.)", "$__nope__", "import \"nosuchmodule\" as m; .", "include \"nosuchmodule\"; .", "..[", "%", "1 ,, 2", "if 1 then 2 else 3",
}

// ---- argv spelling ----

// c15Argv spells the option set. With r == nil the spelling is canonical
// (separate short flags before the query).
func c15Argv(r *rand.Rand, o c15Opt, query string) []string {
	var toks [][]string
	var shorts []byte
	add := func(on bool, short byte, long string) {
		if !on {
			return
		}
		if r == nil || r.IntN(3) > 0 {
			shorts = append(shorts, short)
		} else {
			toks = append(toks, []string{long})
		}
	}
	add(o.Raw, 'r', "--raw-output")
	add(o.Join, 'j', "--join-output")
	add(o.Compact, 'c', "--compact-output")
	add(o.ExitStatus, 'e', "--exit-status")
	add(o.Null, 'n', "--null-input")
	add(o.Slurp, 's', "--slurp")
	add(o.RawIn, 'R', "--raw-input")
	if o.Raw0 {
		toks = append(toks, []string{"--raw-output0"})
	}
	if o.Tab {
		toks = append(toks, []string{"--tab"})
	}
	if o.Indent >= 0 {
		if r != nil && r.IntN(3) == 0 {
			toks = append(toks, []string{"--indent=" + strconv.Itoa(o.Indent)})
		} else {
			toks = append(toks, []string{"--indent", strconv.Itoa(o.Indent)})
		}
	}
	if r == nil {
		for _, s := range shorts {
			toks = append(toks, []string{"-" + string(s)})
		}
	} else if len(shorts) > 0 {
		r.Shuffle(len(shorts), func(i, j int) { shorts[i], shorts[j] = shorts[j], shorts[i] })
		for len(shorts) > 0 {
			n := 1
			if r.IntN(2) == 0 {
				n = 1 + r.IntN(len(shorts))
			}
			toks = append(toks, []string{"-" + string(shorts[:n])})
			shorts = shorts[n:]
		}
		r.Shuffle(len(toks), func(i, j int) { toks[i], toks[j] = toks[j], toks[i] })
	}
	var before, after []string
	for _, t := range toks {
		if r != nil && r.IntN(8) == 0 {
			after = append(after, t...)
		} else {
			before = append(before, t...)
		}
	}
	if r != nil && len(after) == 0 && r.IntN(10) == 0 {
		before = append(before, "--")
	}
	argv := append(before, query)
	return append(argv, after...)
}

func c15Case_(r *rand.Rand, o c15Opt, query string, stdin string, gen string) c15Case {
	if strings.HasPrefix(query, "-") {
		query = "(" + query + ")"
	}
	return c15Case{Args: c15Argv(r, o, query), Query: query, Opt: o, Stdin: []byte(stdin), Gen: gen}
}

// c15OptFromBits maps a number 0..511 to an option set; indent picks n when the bit is set.
func c15OptFromBits(b int, indent int) c15Opt {
	o := c15Opt{Raw: b&1 != 0, Join: b&2 != 0, Raw0: b&4 != 0, Compact: b&8 != 0, Tab: b&16 != 0, Indent: -1,
		ExitStatus: b&64 != 0, Null: b&128 != 0, Slurp: b&256 != 0}
	if b&32 != 0 {
		o.Indent = indent
	}
	return o
}

func c15Asserted(o c15Opt) bool { return len(c15Formats(o)) == 1 }

// ---- stdin ----

func c15SelfDelimiting(prev, next string) bool {
	return strings.HasSuffix(prev, "]") || strings.HasSuffix(prev, "}") || strings.HasSuffix(prev, `"`) ||
		strings.HasPrefix(next, "[") || strings.HasPrefix(next, "{") || strings.HasPrefix(next, `"`)
}

func c15GenStdin(r *rand.Rand) (stdin string, docs []string) {
	n := []int{0, 1, 1, 1, 2, 2, 2, 2, 3, 3, 3, 4, 4, 5, 5}[r.IntN(15)]
	var sb strings.Builder
	if r.IntN(8) == 0 {
		sb.WriteString(c15Seps[r.IntN(len(c15Seps))])
	}
	for i := 0; i < n; i++ {
		var d string
		switch k := r.IntN(100); {
		case k < 2:
			d = c15BigDocs[r.IntN(len(c15BigDocs))]
		case k < 30:
			d = c15Docs[r.IntN(8)] // small scalars, so that per-input conditions hit
		default:
			d = c15Docs[r.IntN(len(c15Docs))]
		}
		if i > 0 {
			if c15SelfDelimiting(docs[i-1], d) && r.IntN(5) == 0 {
				// no separator
			} else {
				sb.WriteString(c15Seps[r.IntN(len(c15Seps))])
			}
		}
		sb.WriteString(d)
		docs = append(docs, d)
	}
	if r.IntN(5) == 0 {
		if n > 0 {
			sb.WriteString(c15Seps[r.IntN(len(c15Seps))])
		}
		sb.WriteString(c15Tails[r.IntN(len(c15Tails))])
	}
	switch r.IntN(3) {
	case 0:
		sb.WriteString("\n")
	case 1:
		sb.WriteString(" \n")
	}
	return sb.String(), docs
}

// ---- queries ----

type c15Gen struct {
	r    *rand.Rand
	mk   int
	docs []string // stdin documents of the case (texts)
}

func (g *c15Gen) marker() string          { g.mk++; return fmt.Sprintf("ZQ%dX", g.mk) }
func (g *c15Gen) pick(xs []string) string { return xs[g.r.IntN(len(xs))] }

func (g *c15Gen) lit() string {
	if g.r.IntN(40) == 0 {
		return g.pick(c15BigLits)
	}
	return g.pick(c15Lits)
}

func (g *c15Gen) code() string {
	return strconv.FormatInt(c15HaltCodes[g.r.IntN(len(c15HaltCodes))], 10)
}

var c15TypeErrors = []string{`(1|.a)`, `("a"|.[0])`, `({}|.[0])`, `([]|has("a"))`, `(null|implode)`, `({}|tonumber)`, `([1]|join(",")|.a)`, `(1|keys)`, `("x"|@nosuchformat)`, `({} - 1)`, `([] | .["a"])`, `(1|ltrimstr("a")|explode)`}

// uncaught error (a diagnostic is due, the input's outputs end)
func (g *c15Gen) errorEvent() string {
	switch g.r.IntN(8) {
	case 0, 1, 2:
		return fmt.Sprintf(`error("%s")`, g.marker())
	case 3:
		return fmt.Sprintf(`error({"m":"%s","n":[1,null]})`, g.marker())
	case 4:
		return "error(null)"
	case 5:
		return "(" + g.pick(c15HaltMsgs) + " | error)"
	case 6:
		return fmt.Sprintf(`error("multi\nline %s\n")`, g.marker())
	default:
		return g.pick(c15TypeErrors)
	}
}

func (g *c15Gen) haltEvent() string {
	switch g.r.IntN(6) {
	case 0:
		return "halt"
	case 1:
		return "halt_error"
	case 2:
		return "halt_error(" + g.code() + ")"
	case 3:
		return "(" + g.pick(c15HaltMsgs) + " | halt_error)"
	default:
		return "(" + g.pick(c15HaltMsgs) + " | halt_error(" + g.code() + "))"
	}
}

// events that look like the above but must leave no trace (caught, unreached) or only an output
func (g *c15Gen) quietEvent() string {
	switch g.r.IntN(10) {
	case 0:
		return "empty"
	case 1:
		return fmt.Sprintf(`(try error("%s") catch .)`, g.marker())
	case 2:
		return fmt.Sprintf(`(error("%s"))?`, g.marker())
	case 3:
		return "(try " + g.pick(c15TypeErrors) + ` catch "caught")`
	case 4:
		return "first(" + g.lit() + ", " + g.errorEvent() + ")"
	case 5:
		return "limit(1; " + g.lit() + ", " + g.haltEvent() + ")"
	case 6:
		return "(label $f | " + g.lit() + ", break $f, " + g.lit() + ")"
	case 7:
		return "(" + g.lit() + " | select(. == null))"
	case 8:
		return `([.[]?] | length)`
	default:
		return "(try error(null) catch .)"
	}
}

// events that halt although wrapped in try (halt errors are not catchable)
func (g *c15Gen) tryHalt() string {
	return "(try " + g.haltEvent() + ` catch "not catchable")`
}

func (g *c15Gen) event() string {
	switch k := g.r.IntN(100); {
	case k < 40:
		return g.errorEvent()
	case k < 70:
		return g.haltEvent()
	case k < 75:
		return g.tryHalt()
	default:
		return g.quietEvent()
	}
}

// list is a comma list of values with events planted at chosen positions.
func (g *c15Gen) list(maxItems int, pEvent int) string {
	n := g.r.IntN(maxItems + 1)
	var parts []string
	for i := 0; i < n; i++ {
		if g.r.IntN(6) == 0 {
			parts = append(parts, ".")
		} else {
			parts = append(parts, g.lit())
		}
	}
	ne := 0
	if g.r.IntN(100) < pEvent {
		ne = 1 + g.r.IntN(4)/3
	}
	for i := 0; i < ne; i++ {
		p := g.r.IntN(len(parts) + 1)
		parts = append(parts[:p], append([]string{g.event()}, parts[p:]...)...)
	}
	if len(parts) == 0 {
		return "empty"
	}
	return strings.Join(parts, ", ")
}

func c15ASCII(s string) bool {
	for i := 0; i < len(s); i++ {
		if s[i] >= 0x80 || s[i] < 0x20 && s[i] != '\n' {
			return false
		}
	}
	return len(s) < 200
}

// cond is a per-input condition; it prefers constants that occur in the case's stdin.
func (g *c15Gen) cond() string {
	var ks []string
	for _, d := range g.docs {
		if c15ASCII(d) {
			ks = append(ks, d)
		}
	}
	switch k := g.r.IntN(10); {
	case k < 5 && len(ks) > 0:
		return ". == " + ks[g.r.IntN(len(ks))]
	case k < 6:
		return ". == " + g.pick(c15Docs[:8])
	case k == 6:
		return `type == "` + g.pick([]string{"number", "string", "null", "boolean", "array", "object"}) + `"`
	case k == 7:
		return ". == null or . == false"
	case k == 8:
		return "length > 1" // errors on booleans: a natural runtime error
	default:
		return `(tojson | length) > 3`
	}
}

var c15Access = []string{
	".", ".", ".[]", ".[]?", ".a", ".a?", ".[0]", "..", "[.]", "{x: .}", "[., .]", "tostring", "tojson", "type", "length", "keys", ".. | scalars", ".[]? | .a?",
	"to_entries", "., .", "not", "select(.)", "select(. != null)", "if . then 1 else empty end", ".a.b", ".[1:]", "add", "map(. + 1)", "ascii_downcase", "@json", "@text",
	"@base64", "tojson | fromjson", ".[]? // \"alt\"", "first(.[]?)", "[.[]?]", "[..]", "{(tostring): .}", "[., tojson]", ". as $x | [$x, $x]", "[paths]", "tostream", "(., .) | [.]",
	".. | select(type == \"string\")", ".[]?, .", "getpath([\"a\"])?", "[.] | add", "[limit(3; .[]?)]", "@html", "@sh", "tojson | @json", "utf8bytelength", "explode | implode", "ascii",
}

var c15InputQueries = []string{
	"inputs", "[inputs]", "input", "input, input", "first(inputs)", "[limit(2; inputs)]", "reduce inputs as $x (0; . + 1)", "[., input]", "try input catch \"none\"",
	"[inputs | tojson] | join(\" \")", "(inputs | select(type == \"number\")), \"done\"", "input as $x | inputs | [$x, .]", "., input", "[.] + [inputs]", "inputs | .a?",
	"first(inputs), [inputs]", "[inputs] | length", "(input | tostring), (try input catch \"second missing\")", "[limit(1; inputs)], input", "inputs | if type == \"string\" then . else tojson end",
	"., (try input catch \"end\")", "[., (inputs | select(. == null))]", "last(inputs)", "isempty(inputs)", "input | .[]?", "[inputs] | .[1:]",
}

func (g *c15Gen) query(o c15Opt) (src, kind string) {
	k := g.r.IntN(100)
	if o.Null && k >= 45 && k < 80 {
		k = 80 // under -n prefer queries that read the input stream themselves
	}
	switch {
	case k < 20:
		return g.list(4, 70), "list"
	case k < 45:
		q := "if " + g.cond() + " then " + g.list(3, 85) + " else " + g.list(3, 25) + " end"
		if o.Slurp && g.r.IntN(2) == 0 {
			q = ".[] | " + q
		}
		if g.r.IntN(5) == 0 {
			q = g.lit() + ", (" + q + ")"
		}
		return q, "per-input-conditional"
	case k < 58:
		return g.pick(c15Access), "access"
	case k < 68:
		if g.r.IntN(2) == 0 {
			return "(" + g.pick(c15Access) + "), " + g.list(3, 60), "access-then-list"
		}
		return g.list(3, 60) + ", (" + g.pick(c15Access) + ")", "list-then-access"
	case k < 80:
		return ".[]? | if " + g.cond() + " then " + g.event() + " else . end", "per-element-conditional"
	case k < 90:
		q := g.pick(c15InputQueries)
		switch g.r.IntN(4) {
		case 0:
			q = "(" + q + ") | if " + g.cond() + " then " + g.event() + " else . end"
		case 1:
			q = "(" + q + "), " + g.list(2, 60)
		}
		return q, "input-consumer"
	case k < 95:
		// last-output bookkeeping for --exit-status
		switch g.r.IntN(4) {
		case 0:
			return g.lit(), "exit-status-last"
		case 1:
			return g.lit() + ", " + g.pick([]string{"null", "false", "0", `""`, "[]", "{}", "nan", "empty", "[false]", "[null]"}), "exit-status-last"
		case 2:
			return "if " + g.cond() + " then " + g.pick([]string{"null", "false", "empty", "1", "true"}) + " else " + g.pick([]string{"null", "false", "empty", "1", "true"}) + " end", "exit-status-last"
		default:
			return "select(" + g.cond() + ")", "exit-status-last"
		}
	default:
		return g.pick(c15BadQueries), "bad-query"
	}
}

// ---- systematic part ----

func c15Systematic(c *run.Ctx) {
	none := c15Opt{Indent: -1}
	with := func(f func(o *c15Opt)) c15Opt { o := none; f(&o); return o }
	e := with(func(o *c15Opt) { o.ExitStatus = true })
	rw := with(func(o *c15Opt) { o.Raw = true })
	cm := with(func(o *c15Opt) { o.Compact = true })
	do := func(o c15Opt, q, stdin, gen string) { kC15.Do(c, c15Case_(nil, o, q, stdin, gen)) }

	// raw input: every line is one input whatever its length (sizes around the readers' buffers), in order, also
	// behind --null-input and under --slurp; a last line without a newline counts, an empty tail does not
	for _, n := range []int{0, 1, 4094, 4095, 4096, 4097, 8191, 8192, 8193, 65535, 65536, 70001} {
		long := strings.Repeat("y", n)
		for pi, stdin := range []string{long + "\n", "first\n" + long + "\nlast\n", "a\nb\n" + long, long + "\n" + long + "\nz", "\n" + long + "\n\n"} {
			if c.Quick() && (n+pi)%2 != 0 {
				continue
			}
			ri := with(func(o *c15Opt) { o.RawIn = true })
			do(ri, "length", stdin, "sys-raw-input-lines")
			do(with(func(o *c15Opt) { o.RawIn, o.Raw = true, true }), "., length", stdin, "sys-raw-input-lines")
			do(with(func(o *c15Opt) { o.RawIn, o.Null, o.Compact = true, true, true }), "[inputs | length]", stdin, "sys-raw-input-lines")
			do(with(func(o *c15Opt) { o.RawIn, o.Null = true, true }), "input | length", stdin, "sys-raw-input-lines")
			do(with(func(o *c15Opt) { o.RawIn, o.Slurp = true, true }), "length, (split(\"\\n\") | length)", stdin, "sys-raw-input-lines")
			do(with(func(o *c15Opt) { o.RawIn, o.ExitStatus = true, true }), "if length > 5 then error(\"ZQ1X\") else length end", stdin, "sys-raw-input-lines")
		}
	}

	// every halt code x message; the message rule and status modulo 256
	for i, code := range c15HaltCodes {
		for j, msg := range c15HaltMsgs {
			if c.Quick() && (i+j)%3 != 0 {
				continue
			}
			o := []c15Opt{none, e, rw, cm}[(i+j)%4]
			do(o, fmt.Sprintf("1, (%s | halt_error(%d)), 2", msg, code), "1 2", "sys-halt-code-message")
		}
		do(none, fmt.Sprintf("halt_error(%d)", code), `"msg\n" 2`, "sys-halt-code-message")
		do(e, fmt.Sprintf("if . == 2 then halt_error(%d) else . end", code), "1 2 3", "sys-halt-code-message")
		do(none, fmt.Sprintf("if . == 1 then error(\"ZQ1X\") else halt_error(%d) end", code), "1 2 3", "sys-halt-after-error")
	}
	for _, msg := range c15HaltMsgs {
		do(none, msg+" | halt_error", "1 2", "sys-halt-code-message")
		do(e, "1, ("+msg+" | halt_error), 2", "null", "sys-halt-code-message")
		do(none, "try ("+msg+" | halt_error) catch .", "1 2", "sys-halt-code-message")
	}
	for _, q := range []string{"halt", "1, halt, 2", "if . == 2 then halt else . end", "try halt catch 1", "halt?", "first(1, halt)", "[1, halt]", ".[] | halt", "., halt, .", "if . == 1 then error(\"ZQ1X\") else halt end"} {
		for _, o := range []c15Opt{none, e, rw, with(func(o *c15Opt) { o.Slurp = true }), with(func(o *c15Opt) { o.Null = true })} {
			do(o, q, "1 2 3", "sys-halt")
			do(o, q, "false", "sys-halt")
		}
	}

	// the --exit-status table over the literal pool
	for _, lit := range c15Lits {
		do(e, lit, "null", "sys-exit-status")
		do(e, "1, "+lit, "null", "sys-exit-status")
		do(e, lit+", empty", "null", "sys-exit-status")
		do(e, "if . == 1 then "+lit+" else empty end", "1 2", "sys-exit-status") // last output comes from an earlier input
		do(e, "if . == 1 then true else "+lit+" end", "1 2", "sys-exit-status")
		if !c.Quick() {
			do(none, lit, "null", "sys-exit-status") // without -e the status stays 0
			do(e, lit+", error(\"ZQ1X\")", "null", "sys-exit-status")
			do(e, lit+", halt", "null", "sys-exit-status")
		}
	}
	for _, q := range []string{"empty", ".[]", "select(. > 5)", "null", "false", ".", "not", ".a?", "error(\"ZQ1X\")", "error(null)", "if . == 2 then error(\"ZQ1X\") else . end", "if . == 2 then error(\"ZQ1X\") else false end", "if . == 3 then empty else null end"} {
		for _, in := range []string{"", "1", "1 2 3", "null", "false 1", "1 false", "[] []", "[false]", "1 2 {", "{", "null ]"} {
			do(e, q, in, "sys-exit-status")
			do(with(func(o *c15Opt) { o.ExitStatus, o.Slurp = true, true }), q, in, "sys-exit-status")
			do(with(func(o *c15Opt) { o.ExitStatus, o.Null = true, true }), q, in, "sys-exit-status")
		}
	}

	// error / halt planted at every position of a value list, on a chosen input
	events := []string{`error("ZQ1X")`, `error({"m":"ZQ1X"})`, "error(null)", "(1|.a)", "halt", "halt_error", `("m\n"|halt_error(3))`, "empty", `(try error("ZQ1X") catch .)`, `(error("ZQ1X"))?`, `(try halt_error catch .)`}
	vals := []string{`"v0"`, "1.0", `{"a":[1,{"b":null}]}`, "null"}
	for _, ev := range events {
		for pos := 0; pos <= len(vals); pos++ {
			parts := append(append(append([]string{}, vals[:pos]...), ev), vals[pos:]...)
			list := strings.Join(parts, ", ")
			for k, o := range []c15Opt{none, cm, rw, e, with(func(o *c15Opt) { o.Join = true }), with(func(o *c15Opt) { o.Raw0 = true }), with(func(o *c15Opt) { o.Tab = true }), with(func(o *c15Opt) { o.Indent = 0 })} {
				if c.Quick() && (pos+k)%2 != 0 {
					continue
				}
				do(o, list, "1 2 3", "sys-planted-event")
				do(o, "if . == 2 then ("+list+") else . end", "1 2 3", "sys-planted-event")
				do(o, "if . == 1 then ("+list+") else ., \"after\" end", "1 2 3 ]", "sys-planted-event")
			}
		}
	}

	// strings with NUL / newlines / unicode under every terminator
	terms := []c15Opt{none, rw, with(func(o *c15Opt) { o.Join = true }), with(func(o *c15Opt) { o.Raw0 = true }), with(func(o *c15Opt) { o.Raw, o.Raw0 = true, true }),
		with(func(o *c15Opt) { o.Raw, o.Join = true, true }), with(func(o *c15Opt) { o.Raw0, o.Join = true, true }), with(func(o *c15Opt) { o.Raw0, o.Compact = true, true }),
		with(func(o *c15Opt) { o.Raw0, o.ExitStatus = true, true }), with(func(o *c15Opt) { o.Join, o.ExitStatus = true, true })}
	for _, o := range terms {
		for _, q := range []string{".", ".[]?", "., \"tail\"", "[.]", "\"a\", \"nul\\u0000\", \"b\"", "\"a\", [\"nul\\u0000\"], \"b\"", ".. | strings", "tojson", "\"x\\u0000\" | ., ascii_downcase", "if type == \"string\" then . else \"other\" end"} {
			do(o, q, `"a" "nul\u0000x" "b"`, "sys-terminators")
			do(o, q, `["a\nb","\u0000",{"k":"v\u0000"}] "é😀" 1.0 null`, "sys-terminators")
			if !c.Quick() {
				do(o, q, `"\u0000"`, "sys-terminators")
				do(o, q, `"" "" [] {} ""`, "sys-terminators")
			}
		}
	}

	// indentation: every unit over nested, deep and large values
	var inds []c15Opt
	inds = append(inds, none, cm, with(func(o *c15Opt) { o.Tab = true }))
	for n := 0; n <= 9; n++ {
		inds = append(inds, with(func(o *c15Opt) { o.Indent = n }))
	}
	inds = append(inds, with(func(o *c15Opt) { o.Tab, o.Raw = true, true }), with(func(o *c15Opt) { o.Indent, o.Join = 3, true }), with(func(o *c15Opt) { o.Indent, o.Raw0 = 7, true }),
		with(func(o *c15Opt) { o.Compact, o.Tab = true, true }), with(func(o *c15Opt) { o.Compact, o.Indent = true, 5 }), with(func(o *c15Opt) { o.Tab, o.Indent = true, 4 }),
		with(func(o *c15Opt) { o.Compact, o.Tab, o.Indent = true, true, 1 }))
	nested := []string{`{"a":[1,[2,{"b":[]}],{}],"c":{"d":{"e":[{"f":"x: y, [z]"}]}},"g":"{\"h\":[1,2]}"}`, `[[],[[]],{},{"a":{}},[{}],[[],[]]]`, `[1.0,1e1000,-0,100000000000000000000,"\"","\\"]`}
	for _, o := range inds {
		for _, v := range nested {
			do(o, ".", v, "sys-indent")
			do(o, v, "null", "sys-indent")
		}
		for i, v := range c15BigLits {
			if c.Quick() && i%2 != 0 {
				continue
			}
			do(with(func(p *c15Opt) { *p = o; p.Null = true }), v, "", "sys-indent-big")
		}
		for i, v := range c15BigDocs {
			if c.Quick() && i%2 != 1 {
				continue
			}
			do(o, ".", v+"\n"+v, "sys-indent-big")
			do(with(func(p *c15Opt) { *p = o; p.Slurp = true }), ".", v+" 1 "+v, "sys-indent-big")
		}
	}

	// queries that do not parse / compile: status 3 whatever the options and the input
	for i, q := range c15BadQueries {
		for j, o := range []c15Opt{none, e, with(func(o *c15Opt) { o.Null = true }), with(func(o *c15Opt) { o.Slurp, o.Raw0 = true, true }), with(func(o *c15Opt) { o.ExitStatus, o.Null, o.Compact = true, true, true })} {
			do(o, q, []string{"1 2", "", "{", "null"}[(i+j)%4], "sys-bad-query")
		}
	}

	// malformed input: documents before the malformed point are processed, status 5
	for _, tail := range c15Tails {
		for _, o := range []c15Opt{none, e, cm, with(func(o *c15Opt) { o.Slurp = true }), with(func(o *c15Opt) { o.Null = true }), with(func(o *c15Opt) { o.Join = true })} {
			do(o, ".", "1 [2] "+tail, "sys-malformed-tail")
			do(o, ".", tail, "sys-malformed-tail")
			if !c.Quick() {
				do(o, "[., input]", "1 2 3 "+tail, "sys-malformed-tail")
				do(o, "[inputs]", "1 2 "+tail+" 4", "sys-malformed-tail")
				do(o, "if . == 1 then error(\"ZQ1X\") else . end", "1 2\n"+tail+"\n", "sys-malformed-tail")
			}
		}
	}

	// input / inputs share the stream with the main loop
	for _, q := range c15InputQueries {
		for _, o := range []c15Opt{none, with(func(o *c15Opt) { o.Null = true }), with(func(o *c15Opt) { o.Slurp = true }), with(func(o *c15Opt) { o.Null, o.Slurp = true, true }), with(func(o *c15Opt) { o.Null, o.ExitStatus = true, true })} {
			for _, in := range []string{"", "1", "1 2 3", `1 "a" null {"a":2} [3]`, "1 2 {"} {
				do(o, q, in, "sys-input-consumer")
			}
		}
	}
}

// ---- random part ----

func c15Random(c *run.Ctx) {
	r := c.Rand("c15.random")
	var asserted []int
	for b := 0; b < 512; b++ {
		if c15Asserted(c15OptFromBits(b, 3)) {
			asserted = append(asserted, b)
		}
	}
	n := c.N(24000, 1200000)
	for i := 0; i < n; i++ {
		var bits int
		if i%2 == 0 {
			bits = (i / 2) % 512 // every combination in turn
		} else {
			bits = asserted[(i/2)%len(asserted)] // combinations whose format the statement fixes
		}
		o := c15OptFromBits(bits, r.IntN(10))
		stdin, docs := c15GenStdin(r)
		g := &c15Gen{r: r, docs: docs}
		q, kind := g.query(o)
		cs := c15Case_(r, o, q, stdin, "rand-"+kind)
		cs.File = r.IntN(8) == 0
		kC15.Do(c, cs)
	}
}

// ---- usage part ----

func c15Usage(c *run.Ctx) {
	r := c.Rand("c15.usage")
	type bad struct {
		args []string
		last bool // must be the end of argv (a flag that lacks its argument)
		what string
	}
	parse := []bad{
		{[]string{"--nosuchflag"}, false, "unknown long flag"}, {[]string{"-q"}, false, "unknown short flag"}, {[]string{"-nqe"}, false, "unknown flag in a clump"},
		{[]string{"-rq"}, false, "unknown flag in a clump"}, {[]string{"--Raw-output"}, false, "unknown long flag"}, {[]string{"---c"}, false, "unknown long flag"},
		{[]string{"--indent"}, true, "flag without its argument"}, {[]string{"--indent", "foo"}, false, "invalid flag argument"}, {[]string{"--indent=foo"}, false, "invalid flag argument"},
		{[]string{"--indent="}, false, "invalid flag argument"}, {[]string{"--indent", "1.5"}, false, "invalid flag argument"}, {[]string{"--indent", "0x2"}, false, "invalid flag argument"},
		{[]string{"--compact-output=1"}, false, "boolean flag with an argument"}, {[]string{"--tab=true"}, false, "boolean flag with an argument"}, {[]string{"--exit-status=0"}, false, "boolean flag with an argument"},
		{[]string{"--arg", "x"}, true, "flag without its argument"}, {[]string{"--arg"}, true, "flag without its argument"}, {[]string{"--argjson", "x"}, true, "flag without its argument"},
		{[]string{"--slurpfile", "a"}, true, "flag without its argument"}, {[]string{"--rawfile"}, true, "flag without its argument"}, {[]string{"-L"}, true, "flag without its argument"},
		{[]string{"--library-path"}, true, "flag without its argument"}, {[]string{"--unknown=1"}, false, "unknown long flag"}, {[]string{"-cZ"}, false, "unknown flag in a clump"},
	}
	post := []struct {
		args  []string
		files map[string]string
		what  string
	}{
		{[]string{"--indent", "10"}, nil, "indent out of range"}, {[]string{"--indent=10"}, nil, "indent out of range"}, {[]string{"--indent", "-1"}, nil, "indent out of range"},
		{[]string{"--indent", "100"}, nil, "indent out of range"}, {[]string{"--indent=-5"}, nil, "indent out of range"},
		{[]string{"--tab", "--yaml-output"}, nil, "tab with YAML output"},
		{[]string{"--argjson", "x", "{"}, nil, "bad --argjson content"}, {[]string{"--argjson", "x", "nul"}, nil, "bad --argjson content"}, {[]string{"--argjson", "x", "[1,"}, nil, "bad --argjson content"},
		{[]string{"--slurpfile", "x", "nosuchfile.json"}, nil, "unreadable --slurpfile"}, {[]string{"--slurpfile", "x", "bad.json"}, map[string]string{"bad.json": "1 2 {"}, "bad --slurpfile content"},
		{[]string{"-f", "nosuchfile.jq"}, nil, "unreadable -f file"}, {[]string{"--from-file", "nosuchdir/q.jq"}, nil, "unreadable -f file"},
	}
	valid := [][]string{{"-c"}, {"-r"}, {"-e"}, {"-n"}, {"-s"}, {"--tab"}, {"--indent", "3"}, {"-j"}, {"--raw-output0"}, {"-rc"}, {"--exit-status"}, {"--arg", "v", "1"}}
	stdins := []string{"", "1 2 3", `{"a":1}`, "{", "null"}
	rounds := c.N(12, 120)
	for round := 0; round < rounds; round++ {
		for _, b := range parse {
			var argv []string
			for i := r.IntN(3); i > 0; i-- {
				argv = append(argv, valid[r.IntN(len(valid))]...)
			}
			q := []string{".", ".a", "1, 2", "halt_error(7)"}[r.IntN(4)]
			switch {
			case b.last:
				if r.IntN(2) == 0 {
					argv = append(argv, q)
				}
				argv = append(argv, b.args...)
			case r.IntN(2) == 0:
				argv = append(append(argv, b.args...), q)
			default:
				argv = append(append(argv, q), b.args...)
			}
			kC15Usage.Do(c, c15UsageCase{Args: argv, Stdin: []byte(stdins[r.IntN(len(stdins))]), Want: 2, What: b.what})
		}
		for _, p := range post {
			var argv []string
			for i := r.IntN(2); i > 0; i-- {
				argv = append(argv, valid[r.IntN(8)]...)
			}
			argv = append(argv, p.args...)
			if p.args[0] != "-f" && p.args[0] != "--from-file" {
				argv = append(argv, []string{".", ".a", "1, 2"}[r.IntN(3)])
			}
			kC15Usage.Do(c, c15UsageCase{Args: argv, Stdin: []byte(stdins[r.IntN(len(stdins))]), Want: 5, Files: p.files, What: p.what})
		}
	}
}
