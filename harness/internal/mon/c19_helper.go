package mon

import (
	"encoding/json"
	"fmt"
	"os"
	"time"

	"verif/harness/internal/run"
)

// ---- C19 sub-check 2: the traced helper process ----
//
// The monitor re-executes the worker binary itself under strace with
// VERIF_C19_HELPER set. This init function runs before main (package mon is
// linked into vcheck), executes the sentinel-bracketed workload and exits, so
// no other part of the harness runs in the traced process.

const (
	c19EnvHelper = "VERIF_C19_HELPER" // "run" or "control"
	c19EnvWork   = "VERIF_C19_WORK"   // workload file (JSON c19Workload)
	c19EnvOut    = "VERIF_C19_OUT"    // result file (JSON c19HelperResult)
)

type c19Prog struct {
	Src   string
	Input run.TV
}

type c19Workload struct {
	Begin, End string // sentinel paths (never exist)
	Budget     int64
	Progs      []c19Prog
}

type c19HelperResult struct {
	Ran, Compiled, Outputs, Errors, Budget, Panics int
	Hash                                           uint64
	PanicSample                                    string
}

func init() {
	mode := os.Getenv(c19EnvHelper)
	if mode == "" {
		return
	}
	os.Exit(c19HelperMain(mode))
}

func c19HelperMain(mode string) int {
	b, err := os.ReadFile(os.Getenv(c19EnvWork))
	if err != nil {
		fmt.Fprintln(os.Stderr, "c19 helper:", err)
		return 3
	}
	var w c19Workload
	if err := json.Unmarshal(b, &w); err != nil {
		fmt.Fprintln(os.Stderr, "c19 helper:", err)
		return 3
	}
	var res c19HelperResult
	// safety net only (never a verdict): an orphaned helper must not live on
	time.AfterFunc(15*time.Minute, func() { os.Exit(4) })
	os.Stat(w.Begin) // sentinel syscall: everything after it is the query phase
	for _, p := range w.Progs {
		c19HelperRun(&res, p, w.Budget)
	}
	if mode == "control" {
		// deliberate ambient accesses: the monitor must see each of them
		os.ReadFile("/etc/hostname")
		os.Getwd()
		os.Stat(".jq")
		os.Stdin.Read(make([]byte, 8))
	}
	os.Stat(w.End) // sentinel syscall: end of the query phase
	out, _ := json.Marshal(&res)
	if err := os.WriteFile(os.Getenv(c19EnvOut), out, 0o644); err != nil {
		fmt.Fprintln(os.Stderr, "c19 helper:", err)
		return 3
	}
	return 0
}

func c19HelperRun(res *c19HelperResult, p c19Prog, budget int64) {
	res.Ran++
	cr := run.Compile(p.Src) // option-less: the point of the sub-check
	if cr.Panic != "" {
		res.Panics++
		res.PanicSample = p.Src + ": " + run.Clip(cr.Panic)
		return
	}
	if cr.Err != nil {
		res.Hash = res.Hash*1099511628211 ^ run.Hash64("CE:"+cr.Err.Error())
		return
	}
	res.Compiled++
	tr := run.RunCode(cr.Code, p.Input.V, nil, budget, 60)
	res.Outputs += len(tr.Vals)
	for _, v := range tr.Vals {
		res.Hash = res.Hash*1099511628211 ^ run.Hash64(run.Canon(v))
	}
	switch tr.End {
	case run.EndError:
		res.Errors++
		res.Hash = res.Hash*1099511628211 ^ run.Hash64("E:"+tr.Err.Error())
	case run.EndBudget:
		res.Budget++
	case run.EndPanic:
		res.Panics++
		res.PanicSample = p.Src + ": " + run.Clip(tr.Panic)
	}
}
