package mon

import (
	"bytes"
	"encoding/json"
	"fmt"
	"os"
	"path/filepath"
	"regexp"
	"runtime/debug"
	"strings"

	"verif/harness/internal/run"

	"github.com/itchyny/gojq"
)

// ---- C15: the command prints exactly what the library yields, with documented statuses ----
//
// Oracle. The real cmd/gojq process is run on (argv, stdin). The expectation is
// computed here, without any code of package cli: stdin is decoded document by
// document with encoding/json (UseNumber); the query is run through the library
// (gojq.Parse / gojq.Compile / Code.RunWithContext) once per input, in order,
// with the same lazily consumed input stream attached as the input iterator;
// every output is rendered by this file (compact text from gojq.Marshal,
// re-indented by c15Indent from the rule "newline + depth x unit", top-level
// strings raw under -r/-j/--raw-output0) and followed by the selected
// terminator; the status comes from the table in the property statement.

// c15Opt is the semantic option set of a case. The oracle reads this, never argv.
type c15Opt struct {
	Raw, Join, Raw0 bool
	Compact, Tab    bool
	Indent          int // -1: not given
	ExitStatus      bool
	Null, Slurp     bool
	RawIn           bool `json:",omitempty"` // --raw-input: the inputs are the lines of the stream (with --slurp: its whole text)
}

type c15Case struct {
	Args  []string // complete argv (flags and the query, in the generated spelling)
	Query string
	Opt   c15Opt
	Stdin []byte
	File  bool   // stdin is a regular file instead of a pipe
	Gen   string // generator that produced the case (evidence only)
}

// c15Fmt is one effective output format.
type c15Fmt struct {
	Name     string
	Term     string // appended after every output
	Raw      bool   // top-level strings are written raw
	NulCheck bool   // a raw string containing NUL is rejected
	Compact  bool
	Unit     string // indentation unit when not compact
}

// c15Formats lists the effective formats the statement allows for an option
// set. More than one entry means the option set is one of the combinations
// whose precedence the statement does not fix (-j with --raw-output0, -c with
// --tab/--indent, --tab with --indent): the command must then behave exactly
// as ONE of them, which one is not asserted.
func c15Formats(o c15Opt) []c15Fmt {
	type term struct {
		name, term string
		raw, nul   bool
	}
	var terms []term
	switch {
	case o.Raw0 && o.Join:
		terms = []term{{"raw-output0", "\x00", true, true}, {"join", "", true, false}}
	case o.Raw0:
		terms = []term{{"raw-output0", "\x00", true, true}}
	case o.Join:
		terms = []term{{"join", "", true, false}}
	case o.Raw:
		terms = []term{{"raw", "\n", true, false}}
	default:
		terms = []term{{"json", "\n", false, false}}
	}
	type ind struct {
		name    string
		compact bool
		unit    string
	}
	var inds []ind
	if o.Compact {
		inds = append(inds, ind{"compact", true, ""})
	}
	if o.Tab {
		inds = append(inds, ind{"tab", false, "\t"})
	}
	if o.Indent >= 0 {
		inds = append(inds, ind{fmt.Sprintf("indent%d", o.Indent), false, strings.Repeat(" ", o.Indent)})
	}
	if len(inds) == 0 {
		inds = []ind{{"indent2(default)", false, "  "}}
	}
	var fs []c15Fmt
	for _, t := range terms {
		for _, i := range inds {
			fs = append(fs, c15Fmt{Name: t.name + "/" + i.name, Term: t.term, Raw: t.raw, NulCheck: t.nul, Compact: i.compact, Unit: i.unit})
		}
	}
	return fs
}

// c15Indent re-indents compact JSON text: after an opening bracket of a
// non-empty container and after every comma comes a newline followed by
// depth x unit; before the closing bracket of a non-empty container a newline
// followed by the outer depth x unit; a colon is followed by one space; empty
// containers stay "[]" / "{}". Written from the documented rule, string-aware,
// independent of cli/encoder.go.
func c15Indent(compact []byte, unit string) []byte {
	out := make([]byte, 0, len(compact)*2)
	depth := 0
	inStr, esc := false, false
	nl := func() {
		out = append(out, '\n')
		for i := 0; i < depth; i++ {
			out = append(out, unit...)
		}
	}
	for i, b := range compact {
		if inStr {
			out = append(out, b)
			switch {
			case esc:
				esc = false
			case b == '\\':
				esc = true
			case b == '"':
				inStr = false
			}
			continue
		}
		switch b {
		case '"':
			inStr = true
			out = append(out, b)
		case '[', '{':
			out = append(out, b)
			if i+1 < len(compact) && (compact[i+1] == ']' || compact[i+1] == '}') {
				break
			}
			depth++
			nl()
		case ']', '}':
			if i > 0 && (compact[i-1] == '[' || compact[i-1] == '{') {
				out = append(out, b)
				break
			}
			depth--
			nl()
			out = append(out, b)
		case ',':
			out = append(out, b)
			nl()
		case ':':
			out = append(out, ':', ' ')
		default:
			out = append(out, b)
		}
	}
	return out
}

// c15Decode decodes a stream of JSON documents with the standard library.
func c15Decode(stdin []byte) (docs []any, malformed bool) {
	dec := json.NewDecoder(bytes.NewReader(stdin))
	dec.UseNumber()
	for {
		var v any
		err := dec.Decode(&v)
		if err != nil {
			return docs, err.Error() != "EOF"
		}
		docs = append(docs, v)
	}
}

type c15InputError struct{}

func (c15InputError) Error() string { return "c15: malformed JSON in the input stream" }

// c15Iter is the input stream as the library sees it: documents in order, then
// (for a malformed tail) one error, then exhausted.
type c15Iter struct {
	items []any
	pos   int
}

func (it *c15Iter) Next() (any, bool) {
	if it.pos >= len(it.items) {
		return nil, false
	}
	v := it.items[it.pos]
	it.pos++
	return v, true
}

func c15NewIter(stdin []byte, slurp, rawIn bool) *c15Iter {
	if rawIn {
		if slurp {
			return &c15Iter{items: []any{string(stdin)}}
		}
		var lines []any
		for rest := string(stdin); rest != ""; {
			line, tail, _ := strings.Cut(rest, "\n")
			lines, rest = append(lines, line), tail
		}
		return &c15Iter{items: lines}
	}
	docs, malformed := c15Decode(stdin)
	if slurp {
		// the whole stream is one input: an array of all documents, or, when the
		// stream cannot be read to its end, an input error
		if malformed {
			return &c15Iter{items: []any{c15InputError{}}}
		}
		if docs == nil {
			docs = []any{}
		}
		return &c15Iter{items: []any{docs}}
	}
	if malformed {
		docs = append(docs, c15InputError{})
	}
	return &c15Iter{items: docs}
}

// c15Exp is what the command must do under one effective format.
type c15Exp struct {
	Fmt      c15Fmt
	Class    string // "run" or "exit3"
	Stdout   []byte
	Code     int
	Diags    int      // diagnostics expected on stderr (runtime, input, NUL rejection, parse/compile)
	Markers  []string // markers planted in user errors, in the order of their diagnostics
	Halted   bool
	HaltMsg  []byte // bytes the halt writes to stderr (after all diagnostics)
	HaltCode int
	Outputs  int
	RunErrs  int
	InErrs   int
	NulRej   int
	AfterErr int // outputs printed for inputs that follow an errored input
}

var c15MarkerRe = regexp.MustCompile(`ZQ[0-9]+X`)

const c15Budget = 20_000_000

// c15Model computes the expectation for one effective format.
func c15Model(t c15Case, f c15Fmt) (exp c15Exp, inconclusive string) {
	defer func() {
		if r := recover(); r != nil {
			inconclusive = fmt.Sprintf("library-panic: %v\n%s", r, run.Clip(string(debug.Stack())))
		}
	}()
	exp.Fmt, exp.Class = f, "run"
	q, err := gojq.Parse(t.Query)
	if err != nil {
		return c15Exp{Fmt: f, Class: "exit3", Code: 3, Diags: 1}, ""
	}
	it := c15NewIter(t.Stdin, t.Opt.Slurp, t.Opt.RawIn)
	code, err := gojq.Compile(q, gojq.WithInputIter(it))
	if err != nil {
		return c15Exp{Fmt: f, Class: "exit3", Code: 3, Diags: 1}, ""
	}
	var out bytes.Buffer
	var last any
	failed, errSeen := false, false
	nullDone := false
	next := func() (any, bool) {
		if t.Opt.Null {
			if nullDone {
				return nil, false
			}
			nullDone = true
			return nil, true
		}
		return it.Next()
	}
inputs:
	for {
		v, ok := next()
		if !ok {
			break
		}
		if _, isErr := v.(error); isErr {
			exp.Diags++
			exp.InErrs++
			failed, errSeen = true, true
			continue
		}
		iter := code.RunWithContext(run.Budget(c15Budget), v)
		for {
			x, ok := iter.Next()
			if !ok {
				break
			}
			if e, isErr := x.(error); isErr {
				if e == run.ErrBudget {
					return exp, "budget"
				}
				if h, ok := e.(*gojq.HaltError); ok {
					exp.Halted, exp.HaltCode = true, h.ExitCode()
					// message rule (cli/test.yaml "halt_error/0 function …"): null prints
					// nothing, a string is written raw without a newline, any other
					// value as compact JSON followed by a newline
					switch m := h.Value().(type) {
					case nil:
					case string:
						exp.HaltMsg = []byte(m)
					default:
						b, _ := gojq.Marshal(m)
						exp.HaltMsg = append(b, '\n')
					}
					break inputs
				}
				exp.Diags++
				exp.RunErrs++
				failed, errSeen = true, true
				if ve, ok := e.(gojq.ValueError); ok {
					b, _ := gojq.Marshal(ve.Value())
					exp.Markers = append(exp.Markers, c15MarkerRe.FindAllString(string(b), -1)...)
				}
				break // this input's outputs end; the next input is still processed
			}
			if s, ok := x.(string); ok && f.Raw {
				if f.NulCheck && strings.IndexByte(s, 0) >= 0 {
					exp.Diags++
					exp.NulRej++
					failed, errSeen = true, true
					break
				}
				out.WriteString(s)
			} else {
				b, err := gojq.Marshal(x)
				if err != nil {
					return exp, "marshal-error"
				}
				if !f.Compact {
					b = c15Indent(b, f.Unit)
				}
				out.Write(b)
			}
			out.WriteString(f.Term)
			exp.Outputs++
			if errSeen {
				exp.AfterErr++
			}
			last = x
		}
	}
	exp.Stdout = out.Bytes()
	switch {
	case exp.Halted:
		// "halt and halt_error stop at once with the requested status (modulo 256)"
		exp.Code = ((exp.HaltCode % 256) + 256) % 256
	case failed:
		exp.Code = 5
	case t.Opt.ExitStatus && exp.Outputs == 0:
		exp.Code = 4
	case t.Opt.ExitStatus && (last == nil || last == false):
		exp.Code = 1
	}
	return exp, ""
}

func c15Crashed(res run.CLIResult) string {
	se := res.Stderr
	if bytes.Contains(se, []byte("goroutine ")) && (bytes.Contains(se, []byte("panic: ")) || bytes.Contains(se, []byte("fatal error: "))) {
		return "Go runtime crash"
	}
	if res.Code < 0 {
		return "killed by a signal"
	}
	return ""
}

// c15Match compares an observed run with one expectation; "" means it matches.
func c15Match(res run.CLIResult, exp c15Exp) string {
	if exp.Class == "exit3" {
		// query parse/compile error: nothing is run, nothing printed
		if res.Code != 3 {
			return fmt.Sprintf("exit status %d, want 3 (the library rejects the query at parse/compile time)", res.Code)
		}
		if len(res.Stdout) != 0 {
			return fmt.Sprintf("stdout %q although the query does not compile", run.Clip(string(res.Stdout)))
		}
		if len(res.Stderr) == 0 {
			return "no diagnostic on stderr for a query that does not compile"
		}
		return ""
	}
	if !bytes.Equal(res.Stdout, exp.Stdout) {
		i := 0
		for i < len(res.Stdout) && i < len(exp.Stdout) && res.Stdout[i] == exp.Stdout[i] {
			i++
		}
		lo := max(0, i-60)
		return fmt.Sprintf("stdout differs at byte %d (got %d bytes, want %d): got …%q, want …%q",
			i, len(res.Stdout), len(exp.Stdout), run.Clip(string(res.Stdout[lo:min(len(res.Stdout), i+120)])), run.Clip(string(exp.Stdout[lo:min(len(exp.Stdout), i+120)])))
	}
	if res.Code != exp.Code {
		return fmt.Sprintf("exit status %d, want %d (outputs=%d runtime errors=%d input errors=%d NUL rejections=%d halted=%v halt code=%d)",
			res.Code, exp.Code, exp.Outputs, exp.RunErrs, exp.InErrs, exp.NulRej, exp.Halted, exp.HaltCode)
	}
	se := res.Stderr
	if exp.Halted {
		if !bytes.HasSuffix(se, exp.HaltMsg) {
			return fmt.Sprintf("stderr %q does not end with the halt message %q", run.Clip(string(se)), run.Clip(string(exp.HaltMsg)))
		}
		se = se[:len(se)-len(exp.HaltMsg)]
	}
	if exp.Diags == 0 {
		if len(se) != 0 {
			return fmt.Sprintf("stderr has %q although no diagnostic is due", run.Clip(string(se)))
		}
		return ""
	}
	if len(se) == 0 {
		return fmt.Sprintf("stderr is empty, %d diagnostics are due", exp.Diags)
	}
	if n := bytes.Count(se, []byte("\n")); n < exp.Diags {
		return fmt.Sprintf("stderr has %d lines, %d diagnostics are due: %q", n, exp.Diags, run.Clip(string(se)))
	}
	pos := 0
	for _, m := range exp.Markers {
		j := bytes.Index(se[pos:], []byte(m))
		if j < 0 {
			return fmt.Sprintf("stderr does not report the error carrying %s (in order %v): %q", m, exp.Markers, run.Clip(string(se)))
		}
		pos += j + len(m)
	}
	if n := len(c15MarkerRe.FindAll(se, -1)); n != len(exp.Markers) {
		return fmt.Sprintf("stderr mentions %d planted error values, %d uncaught errors are due (%v): %q", n, len(exp.Markers), exp.Markers, run.Clip(string(se)))
	}
	return ""
}

func c15Key(t c15Case) string {
	return strings.Join(t.Args, "\x00") + "\x01" + string(t.Stdin) + fmt.Sprint(t.File)
}

var kC15 = run.NewKind("c15.run", func(c *run.Ctx, t c15Case) *run.Fail {
	var res run.CLIResult
	if t.File {
		dir, err := os.MkdirTemp("", "vp-c15-*")
		if err != nil {
			c.Inconclusive("tempdir")
			return nil
		}
		defer os.RemoveAll(dir)
		name := filepath.Join(dir, "stdin.json")
		if err := os.WriteFile(name, t.Stdin, 0o644); err != nil {
			c.Inconclusive("tempfile")
			return nil
		}
		res = run.CLI(run.CLIOpt{Args: t.Args, StdinFile: name})
		c.Count("runs_with_stdin_from_a_regular_file", 1)
	} else {
		res = run.CLI(run.CLIOpt{Args: t.Args, Stdin: t.Stdin})
	}
	c.Logf("argv: %q", t.Args)
	c.Logf("stdin: %q", run.Clip(string(t.Stdin)))
	c.Logf("observed: exit=%d stdout=%q stderr=%q", res.Code, run.Clip(string(res.Stdout)), run.Clip(string(res.Stderr)))
	if res.StartErr != nil {
		c.Inconclusive("process-start-error")
		return nil
	}
	if res.TimedOut {
		c.Inconclusive("process-timeout")
		return nil
	}
	c.Count("process_runs", 1)
	if why := c15Crashed(res); why != "" {
		return run.Failf("%s: gojq %q on stdin %q: exit=%d stderr=%q", why, t.Args, run.Clip(string(t.Stdin)), res.Code, run.Clip(string(res.Stderr)))
	}
	fs := c15Formats(t.Opt)
	var exps []c15Exp
	for _, f := range fs {
		exp, inc := c15Model(t, f)
		if inc != "" {
			if strings.HasPrefix(inc, "library-panic") {
				// the command did not crash (checked above) but the library run here did
				return run.Failf("library run panicked while the command exited %d: %s", res.Code, inc)
			}
			c.Inconclusive(inc)
			return nil
		}
		c.Logf("expected under %s: exit=%d stdout=%q diagnostics=%d markers=%v halted=%v haltmsg=%q", f.Name, exp.Code, run.Clip(string(exp.Stdout)), exp.Diags, exp.Markers, exp.Halted, exp.HaltMsg)
		exps = append(exps, exp)
	}
	var why []string
	var hit *c15Exp
	for i := range exps {
		w := c15Match(res, exps[i])
		if w == "" {
			hit = &exps[i]
			break
		}
		why = append(why, exps[i].Fmt.Name+": "+w)
	}
	if hit == nil {
		if len(exps) == 1 {
			return run.Failf("gojq %q on stdin %q: %s", t.Args, run.Clip(string(t.Stdin)), why[0])
		}
		return run.Failf("gojq %q on stdin %q matches none of the %d formats the option set allows: %s", t.Args, run.Clip(string(t.Stdin)), len(exps), strings.Join(why, " | "))
	}
	// evidence
	if len(exps) == 1 {
		c.Count("runs_format_asserted", 1)
	} else {
		c.Count("runs_precedence_not_asserted", 1)
	}
	c.Count("gen_"+t.Gen, 1)
	c.Distinct("option_set", fmt.Sprintf("%+v", t.Opt))
	c.Distinct("exit_status", fmt.Sprint(res.Code))
	c.Distinct("query", t.Query)
	c.Distinct("stdin", string(t.Stdin))
	c.Count(fmt.Sprintf("exit_%d", res.Code), 1)
	if hit.Class == "exit3" {
		c.Count("query_rejected_runs", 1)
		c.Nontrivial(c15Key(t))
		return nil
	}
	c.Distinct("format", hit.Fmt.Name)
	c.Count("outputs_compared", int64(hit.Outputs))
	c.Count("stdout_bytes_compared", int64(len(hit.Stdout)))
	c.Count("runtime_error_diagnostics", int64(hit.RunErrs))
	c.Count("input_error_diagnostics", int64(hit.InErrs))
	c.Count("nul_rejections", int64(hit.NulRej))
	c.Count("outputs_after_an_errored_input", int64(hit.AfterErr))
	c.Count("error_markers_found_on_stderr", int64(len(hit.Markers)))
	if hit.Halted {
		c.Count("halts", 1)
		c.Distinct("halt_code", fmt.Sprint(hit.HaltCode))
		if len(hit.HaltMsg) > 0 {
			c.Count("halt_messages_compared", 1)
		}
	}
	if t.Opt.ExitStatus && !hit.Halted && hit.Diags == 0 {
		c.Count("exit_status_option_decided", 1)
	}
	if hit.Outputs > 0 || hit.Diags > 0 || hit.Halted {
		c.Nontrivial(c15Key(t))
	}
	return nil
})

// ---- usage errors (flag parser) and failures detected after flag parsing ----

type c15UsageCase struct {
	Args  []string
	Stdin []byte
	Want  int               // 2: the flag parser rejects argv; 5: detected after flag parsing (pinned)
	Files map[string]string // files created in the working directory
	What  string
}

var kC15Usage = run.NewKind("c15.usage", func(c *run.Ctx, t c15UsageCase) *run.Fail {
	dir, err := os.MkdirTemp("", "vp-c15-*")
	if err != nil {
		c.Inconclusive("tempdir")
		return nil
	}
	defer os.RemoveAll(dir)
	for name, content := range t.Files {
		if err := os.WriteFile(filepath.Join(dir, name), []byte(content), 0o644); err != nil {
			c.Inconclusive("tempfile")
			return nil
		}
	}
	res := run.CLI(run.CLIOpt{Args: t.Args, Stdin: t.Stdin, Dir: dir})
	c.Logf("argv: %q stdin: %q", t.Args, t.Stdin)
	c.Logf("observed: exit=%d stdout=%q stderr=%q", res.Code, run.Clip(string(res.Stdout)), run.Clip(string(res.Stderr)))
	if res.StartErr != nil || res.TimedOut {
		c.Inconclusive("process-start-or-timeout")
		return nil
	}
	c.Count("process_runs", 1)
	if why := c15Crashed(res); why != "" {
		return run.Failf("%s: gojq %q: exit=%d stderr=%q", why, t.Args, res.Code, run.Clip(string(res.Stderr)))
	}
	if res.Code != t.Want {
		return run.Failf("gojq %q (%s): exit status %d, want %d; stderr=%q", t.Args, t.What, res.Code, t.Want, run.Clip(string(res.Stderr)))
	}
	if len(res.Stderr) == 0 {
		return run.Failf("gojq %q (%s): exit status %d but nothing on stderr", t.Args, t.What, res.Code)
	}
	if t.Want == 2 && len(res.Stdout) != 0 {
		return run.Failf("gojq %q (%s): the flag parser rejects the command line but stdout has %q", t.Args, t.What, run.Clip(string(res.Stdout)))
	}
	c.Count(fmt.Sprintf("usage_exit_%d", res.Code), 1)
	c.Distinct("exit_status", fmt.Sprint(res.Code))
	c.Distinct("usage_kind", t.What)
	c.Nontrivial("usage\x00" + strings.Join(t.Args, "\x00") + "\x01" + string(t.Stdin))
	return nil
})

func init() {
	run.Register(&run.Prop{
		ID: "C15", Level: "exploration", MinNontrivial: 2000,
		Rule: "a case is (argv, stdin) for the real cmd/gojq process. Systematic part: every halt code x halt message, the --exit-status table over a literal pool, error/halt planted at every position of a value list with a per-input conditional, NUL strings under every terminator, query parse/compile errors, deep and large values under every indentation. Random part: every one of the 512 combinations of -r -j --raw-output0 -c --tab --indent n -e -n -s in turn (plus a second pass over the combinations whose format the statement fixes), each with a generated query (value lists with error/halt/halt_error(c)/type error/empty planted, caught and unreached variants, per-input conditionals, input/inputs consumers) and a generated stdin of 0..5 documents (scalars, escapes, NUL, unicode, nested, big and literal-preserving numbers) with an optional malformed tail; flags are spelled short/long/clumped/--indent=n and placed before or after the query; stdin is a pipe, for one case in eight a regular file. The expectation is computed from encoding/json + the library + this file's renderer and status table. Usage part: command lines the flag parser must reject (2) and failures detected after flag parsing (5, pinned). Non-trivial = distinct (argv, stdin) whose run produced at least one output, a diagnostic, a halt or a status-2/3/5 rejection.",
		Assumptions: []string{
			"the command and the harness are built from the same library working tree, so a library-level bug is invisible here by design (it belongs to C01–C14); C15 observes package cli and cmd/gojq",
			"stdin documents are delimited as encoding/json's Decoder delimits them (the command uses the same decoder; number literals are kept as json.Number on both sides)",
			"halt/halt_error: the requested status wins over -e bookkeeping (pinned) and over the status 5 of errors on earlier inputs (literal reading of 'stop at once with the requested status'; same as jq)",
			"precedence among -j/--raw-output0, -c/--tab/--indent is not asserted: the run must equal ONE of the formats the given flags name, in stdout, status and stderr discipline",
			"wording of diagnostics is not compared: stderr must be empty exactly when no diagnostic is due, have at least one line per due diagnostic, mention each uncaught user error's planted marker once and in order, and end with the halt message",
			"failures detected after flag parsing (indent out of range, --tab with YAML, bad --argjson/--slurpfile, unreadable -f) are asserted only as 'status 5 and a message on stderr' (pinned by cli/test.yaml)",
		},
		Body: func(c *run.Ctx) {
			c15Systematic(c)
			c15Random(c)
			c15Usage(c)
		},
	})
}
