package mon

import (
	"encoding/json"
	"os"
	"path/filepath"
	"regexp"
	"sort"
	"strings"

	"verif/harness/internal/run"

	"github.com/itchyny/gojq"
)

// c10.passthrough: arrays of several number literals through filters that only move, select, group or reorder
// their elements. No such filter computes a new number, so every number of the output must carry the spelling of
// one of the input's literals (for the permuting filters: exactly the same multiset of spellings), and the input
// itself must still spell its numbers as before.

type c10Pass struct {
	Filter string     `json:"filter"`
	Perm   bool       `json:"perm"`
	Sets   [][]string `json:"sets"`
	CLI    bool       `json:"cli"`
	Mode   int        `json:"mode"` // library: 0 input, 1 `$v`, 2 text through fromjson; command: 0 stdin, 1 --argjson, 2 --slurpfile
}

var c10PassPerm = []string{"sort", "reverse", "sort_by(.)", "flatten", "to_entries | map(.value)", "walk(.)", "[tostream] | fromstream(.[])", "[.] | transpose | map(.[0])", ". - []", ". + []", "[] + .",
	"map(values)", "map(numbers)", "[.[1:], .[:1]] | add", "[.[] | [.]] | add", "[range(0; length) as $i | .[$i]]", "map(. // 1)", "[foreach .[] as $x (null; $x)]", "group_by(.) | add", "[.[] as [$a] ?// $a | $a]",
	"map(try error catch .)", "map([.] | flatten | .[0])", ". as $x | sort | $x", "[., sort] | .[0]", "[sort, .] | .[1]", "[sort, .] | .[0]", "(sort | length) as $n | .", "(unique | length) as $n | .", "(group_by(.) | length) as $n | .",
	"[min, max] as $m | .", "sort | sort", "sort | reverse", "sort_by(-.)", "sort_by(., 1)", "to_entries | sort_by(.value) | map(.value)", "map([.]) | sort | map(.[0])", "map({a: .}) | sort_by(.a) | map(.a)", "map({a: .}) | sort | map(.a)",
	"[.[] | [., .] | unique | .[0]]", "[.[] | [.] | sort | .[0]]", ". as $x | unique | $x", "[., unique] | .[0]", "reduce .[] as $x ([]; . + [$x])", "[limit(100; .[])]", "[.[] | select(. == .)]", "map(. as $x | [$x, $x] | sort | .[1])",
	"[paths as $p | getpath($p)]", "[.. | numbers]", "to_entries | map(.value) | sort", "[splits(\"x\")?] + .", "[.[] | tojson | fromjson]", "tojson | fromjson | sort", "map(tonumber)", "del(.[100])",
}

var c10PassSub = []string{"unique", "unique_by(.)", "min", "max", "min_by(.)", "max_by(.)", "[limit(3; .[])]", "first(.[])", "pick(.[0])", "getpath([0])", "del(.[1])", "[.[] | select(. > 0)]", "map([., .] | max)", "map([., .] | min)",
	"group_by(.) | map(.[0])", "group_by(.) | map(.[-1])", "INDEX(.) | map(.)", "[limit(2; repeat(.[0]))]", "unique | .[0]", "[min, max]", "sort | .[0], .[-1]", "[.[] | . as $x | [$x] | unique | .[0]]", "unique | reverse", "sort | .[1:]",
	"[.[] | select(. != .[0]?)]", "map(select(. >= 1))", "[.[] | [.] | min, max]", "[sort[], unique[]]", ".[1:] | sort", "unique_by(-.)", "[group_by(.)[] | max]", "sort | first, last", "[.[0], .[-1]] | sort", "map(select(. < 0)) | unique", "sort | unique_by(length, .) | . as $u | $u"}

var c10NumRe = regexp.MustCompile(`-?[0-9][0-9.eE+\-]*`)

func c10Spellings(v any, out *[]string) {
	switch v := v.(type) {
	case []any:
		for _, x := range v {
			c10Spellings(x, out)
		}
	case map[string]any:
		ks := make([]string, 0, len(v))
		for k := range v {
			ks = append(ks, k)
		}
		sort.Strings(ks)
		for _, k := range ks {
			c10Spellings(v[k], out)
		}
	case nil, bool, string:
	default:
		bs, err := gojq.Marshal(v)
		if err != nil {
			*out = append(*out, "!"+err.Error())
			return
		}
		*out = append(*out, string(bs))
	}
}

func c10JudgePass(t c10Pass, set, got []string) string {
	in := map[string]int{}
	for _, s := range set {
		in[s]++
	}
	if t.Perm {
		if len(got) != len(set) {
			return "the numbers of the output are not the numbers of the input"
		}
		for _, s := range got {
			in[s]--
		}
		for s, n := range in {
			if n != 0 {
				return "the spelling " + s + " occurs a different number of times in the output"
			}
		}
		return ""
	}
	for _, s := range got {
		if in[s] == 0 {
			return "the output has a number spelled " + s + ", which no literal of the input is"
		}
	}
	return ""
}

var kC10Pass = run.NewKind("c10.passthrough", func(c *run.Ctx, t c10Pass) *run.Fail {
	if t.CLI {
		for _, set := range t.Sets {
			text := "[" + strings.Join(set, ",") + "]"
			opt := run.CLIOpt{Args: []string{"-c", t.Filter}, Stdin: []byte(text)}
			switch t.Mode {
			case 1:
				opt = run.CLIOpt{Args: []string{"-n", "-c", "--argjson", "v", text, "$v | " + t.Filter}}
			case 2:
				dir, err := os.MkdirTemp("", "c10pass")
				if err != nil {
					c.Inconclusive("no-temp-dir")
					return nil
				}
				defer os.RemoveAll(dir)
				if os.WriteFile(filepath.Join(dir, "in.json"), []byte(text), 0o644) != nil {
					c.Inconclusive("no-temp-dir")
					return nil
				}
				opt = run.CLIOpt{Args: []string{"-n", "-c", "--slurpfile", "v", "in.json", "$v[0] | " + t.Filter}, Dir: dir}
			}
			r := run.CLI(opt)
			if r.TimedOut || r.StartErr != nil {
				c.Inconclusive("cli-timeout")
				return nil
			}
			if r.Code != 0 {
				return run.Failf("gojq %q on %s exited %d: %s", t.Filter, text, r.Code, run.Clip(string(r.Stderr)))
			}
			got := c10NumRe.FindAllString(string(r.Stdout), -1)
			if msg := c10JudgePass(t, set, got); msg != "" {
				return run.Failf("gojq %v on %s printed %s: %s", opt.Args, text, run.Clip(strings.TrimSpace(string(r.Stdout))), msg)
			}
			c.Nontrivial("cli" + t.Filter + text)
		}
		c.AddEvals(int64(len(t.Sets)) - 1)
		return nil
	}
	src := t.Filter
	switch t.Mode {
	case 1:
		src = "$v | " + src
	case 2:
		src = "fromjson | " + src
	}
	res := run.Compile(src, gojq.WithVariables([]string{"$v"}))
	if res.Code == nil {
		return run.Failf("filter %q does not compile: %v", src, res.Err)
	}
	for _, set := range t.Sets {
		arr := make([]any, len(set))
		for i, s := range set {
			arr[i] = json.Number(s)
		}
		text := "[" + strings.Join(set, ",") + "]"
		var in, v any = arr, nil
		switch t.Mode {
		case 1:
			in, v = nil, arr
		case 2:
			in = text
		}
		tr := run.RunCode(res.Code, in, []any{v}, 200000, 0)
		if tr.End != run.EndOK || len(tr.Vals) < 1 {
			return run.Failf("%s on %s: %s", src, text, run.TraceDesc(tr))
		}
		var got []string
		for _, o := range tr.Vals {
			c10Spellings(o, &got)
		}
		if msg := c10JudgePass(t, set, got); msg != "" {
			return run.Failf("%s on %s gave numbers spelled [%s] in %d outputs: %s", src, text, run.Clip(strings.Join(got, ",")), len(tr.Vals), msg)
		}
		var after []string
		c10Spellings(arr, &after)
		if strings.Join(after, ",") != strings.Join(set, ",") {
			return run.Failf("%s on %s: afterwards the array handed in reads [%s]", src, text, strings.Join(after, ","))
		}
		c.Nontrivial(src + "\x00" + text)
	}
	c.AddEvals(int64(len(t.Sets)) - 1)
	return nil
})
