package mon

import (
	"encoding/hex"
	"fmt"
	"math/rand/v2"
	"os"
	"os/exec"
	"path/filepath"
	"runtime"
	"runtime/debug"
	"strings"
	"time"

	"verif/harness/internal/gen"
	"verif/harness/internal/run"

	"github.com/itchyny/gojq"
)

// ---- C08: no query text or input can crash the library or the command ----

type c08Lib struct {
	SrcHex string // query bytes (hex: arbitrary byte strings)
	Input  run.TV
	Var    run.TV
}

func guard(what string, f func()) (pan string) {
	defer func() {
		if r := recover(); r != nil {
			pan = fmt.Sprintf("%s panicked: %v\n%s", what, r, run.Clip(string(debug.Stack())))
		}
	}()
	f()
	return
}

var kC08Lib = run.NewKind("c08.library", func(c *run.Ctx, t c08Lib) *run.Fail {
	b, err := hex.DecodeString(t.SrcHex)
	if err != nil {
		return run.Failf("bad case")
	}
	src := string(b)
	var q *gojq.Query
	var perr error
	if p := guard("Parse", func() { q, perr = gojq.Parse(src) }); p != "" {
		return run.Failf("%q: %s", src, p)
	}
	if perr != nil {
		c.Count("parse_errors", 1)
		pe, ok := perr.(*gojq.ParseError)
		if !ok {
			return run.Failf("Parse(%q) returned a %T, not a *ParseError: %v", src, perr, perr)
		}
		if pe.Offset < 0 || pe.Offset > len(src) {
			return run.Failf("Parse(%q): ParseError.Offset %d lies outside the source (length %d), token %q", src, pe.Offset, len(src), pe.Token)
		}
		if len(pe.Token) > pe.Offset {
			return run.Failf("Parse(%q): ParseError.Token %q is longer than Offset %d", src, pe.Token, pe.Offset)
		}
		if p := guard("ParseError.Error", func() { _ = pe.Error() }); p != "" {
			return run.Failf("%q: %s", src, p)
		}
		c.Distinct("parse_error_tokens", pe.Token)
		return nil
	}
	if q == nil {
		return run.Failf("Parse(%q) returned neither a query nor an error", src)
	}
	if p := guard("Query.String", func() { _ = q.String() }); p != "" {
		return run.Failf("%q: %s", src, p)
	}
	var code *gojq.Code
	var cerr error
	if p := guard("Compile", func() {
		code, cerr = gojq.Compile(q, gojq.WithVariables([]string{"$v"}), gojq.WithEnvironLoader(func() []string { return []string{"A=1", "B", "=x", "C=="} }),
			gojq.WithInputIter(gojq.NewIter[any](1, "x", nil)))
	}); p != "" {
		return run.Failf("%q: %s", src, p)
	}
	if cerr != nil {
		c.Count("compile_errors", 1)
		if p := guard("compile error text", func() { _ = cerr.Error() }); p != "" {
			return run.Failf("%q: %s", src, p)
		}
		return nil
	}
	ctx := run.Budget(100000)
	var fail *run.Fail
	outs := 0
	if p := guard("Run/Next", func() {
		iter := code.RunWithContext(ctx, run.DeepCopy(t.Input.V), run.DeepCopy(t.Var.V))
		for n := 0; n < 300; n++ {
			v, ok := iter.Next()
			if !ok {
				// exhausted: stays exhausted
				if v2, ok2 := iter.Next(); ok2 {
					fail = run.Failf("%q: Next returned (%v, true) after exhaustion", src, v2)
				}
				return
			}
			if e, isErr := v.(error); isErr {
				if e == run.ErrBudget {
					c.Inconclusive("budget")
					return
				}
				c.Count("error_values", 1)
				c.Distinct("error_types", fmt.Sprintf("%T", e))
				_ = e.Error()
				if ve, ok := e.(gojq.ValueError); ok {
					_, _ = gojq.Marshal(ve.Value())
				}
				continue // the iterator may be advanced after an error
			}
			outs++
			if run.Huge(v, 100000) {
				c.Inconclusive("huge-value")
				return
			}
			if !run.ValidOutput(v) {
				fail = run.Failf("%q emitted a Go value outside the supported types: %T %v", src, v, v)
				return
			}
			if _, err := gojq.Marshal(v); err != nil {
				fail = run.Failf("%q: Marshal of an emitted value failed: %v", src, err)
				return
			}
			_ = gojq.Preview(v)
			_ = gojq.TypeOf(v)
		}
	}); p != "" {
		return run.Failf("%q on %s: %s", src, run.Clip(run.Canon(t.Input.V)), p)
	}
	if fail != nil {
		return fail
	}
	if len(src) > 2 {
		c.Nontrivial(t.SrcHex + run.Canon(t.Input.V))
	}
	c.Count("outputs", int64(outs))
	return nil
})

// ---- size guards: bounded requests must fail as values, not exhaust memory ----

type c08Guard struct{ Src string }

var kC08Guard = run.NewKind("c08.guard", func(c *run.Ctx, t c08Guard) *run.Fail {
	res := run.Compile(t.Src)
	if res.Code == nil {
		return run.Failf("harness: %q does not compile: %v", t.Src, res.Err)
	}
	var m0, m1 runtime.MemStats
	runtime.ReadMemStats(&m0)
	tr := run.RunCode(res.Code, nil, nil, 100000, 5)
	runtime.ReadMemStats(&m1)
	if tr.End == run.EndPanic {
		return run.Failf("%q panicked: %s", t.Src, tr.Panic)
	}
	if tr.End != run.EndError || len(tr.Vals) != 0 {
		return run.Failf("%q asks for an absurdly large result and must fail with an error value, got %s", t.Src, run.TraceDesc(tr))
	}
	if d := m1.TotalAlloc - m0.TotalAlloc; d > 256<<20 {
		return run.Failf("%q allocated %d MiB before failing (%v)", t.Src, d>>20, tr.Err)
	}
	c.Nontrivial(t.Src)
	return nil
})

// ---- the command ----

type c08CLI struct {
	Args     []string
	StdinHex string
	Files    map[string]string // name -> hex content, created in the working directory
	Strace   string            // optional -e inject=... specification
}

var goCrashMarks = []string{"panic:", "fatal error:", "goroutine ", "runtime.", "SIGSEGV", "[signal "}

var kC08CLI = run.NewKind("c08.command", func(c *run.Ctx, t c08CLI) *run.Fail {
	dir, err := os.MkdirTemp("", "vp-c08-*")
	if err != nil {
		c.Inconclusive("tempdir")
		return nil
	}
	defer os.RemoveAll(dir)
	for name, h := range t.Files {
		b, _ := hex.DecodeString(h)
		os.WriteFile(filepath.Join(dir, name), b, 0o644)
	}
	os.Mkdir(filepath.Join(dir, "adir"), 0o755)
	stdin, _ := hex.DecodeString(t.StdinHex)
	var res run.CLIResult
	if t.Strace == "" {
		res = run.CLI(run.CLIOpt{Args: t.Args, Stdin: stdin, Dir: dir, Timeout: 20 * time.Second})
	} else {
		res = straceRun(t, stdin, dir)
		if res.StartErr != nil {
			c.Inconclusive("strace-unavailable")
			return nil
		}
	}
	if res.TimedOut {
		c.Inconclusive("timeout")
		return nil
	}
	if res.StartErr != nil {
		c.Inconclusive("start-error")
		return nil
	}
	stderr := string(res.Stderr)
	if t.Strace != "" && strings.Contains(stderr, "runtime: netpollBreak write failed") {
		// the injected write error hit the Go runtime's own wake-up pipe, not a write of the command
		c.Inconclusive("fault-hit-the-go-runtime")
		return nil
	}
	for _, m := range goCrashMarks[:3] {
		if strings.Contains(stderr, m) && (strings.Contains(stderr, "goroutine ") || strings.Contains(stderr, "fatal error:")) && strings.Contains(stderr, ".go:") {
			return run.Failf("gojq %q printed a Go stack trace (%s), exit %d:\n%s", t.Args, m, res.Code, run.Clip(stderr))
		}
	}
	okCode := res.Code >= 0 && res.Code <= 5
	if !okCode && (strings.Contains(strings.Join(t.Args, " "), "halt_error") || strings.Contains(string(readFiles(t)), "halt_error")) && res.Code >= 0 && res.Code <= 255 {
		okCode = true
	}
	if !okCode {
		return run.Failf("gojq %q exited with undocumented status %d; stderr: %s", t.Args, res.Code, run.Clip(stderr))
	}
	if t.Strace == "" && res.Code != 0 && len(res.Stderr) == 0 && res.Code != 1 && res.Code != 4 && !strings.Contains(strings.Join(t.Args, " "), "halt") {
		return run.Failf("gojq %q exited %d without any diagnostic", t.Args, res.Code)
	}
	c.Distinct("exit_statuses", fmt.Sprint(res.Code))
	c.Nontrivial(strings.Join(t.Args, "\x00") + t.StdinHex + t.Strace)
	return nil
})

func readFiles(t c08CLI) []byte {
	var all []byte
	for _, h := range t.Files {
		b, _ := hex.DecodeString(h)
		all = append(all, b...)
	}
	return all
}

func straceRun(t c08CLI, stdin []byte, dir string) run.CLIResult {
	path, err := exec.LookPath("strace")
	if err != nil {
		return run.CLIResult{StartErr: err}
	}
	args := append([]string{"-f", "-o", "/dev/null", "-e", "trace=read,write", "-e", t.Strace, run.GojqBin()}, t.Args...)
	cmd := exec.Command(path, args...)
	cmd.Dir = dir
	cmd.Env = []string{"PATH=/usr/bin:/bin", "HOME=/nonexistent"}
	var so, se strings.Builder
	cmd.Stdout, cmd.Stderr = &so, &se
	cmd.Stdin = strings.NewReader(string(stdin))
	done := make(chan error, 1)
	if err := cmd.Start(); err != nil {
		return run.CLIResult{StartErr: err}
	}
	go func() { done <- cmd.Wait() }()
	select {
	case err := <-done:
		res := run.CLIResult{Stdout: []byte(so.String()), Stderr: []byte(se.String())}
		if ee, ok := err.(*exec.ExitError); ok {
			res.Code = ee.ExitCode()
		}
		return res
	case <-time.After(30 * time.Second):
		cmd.Process.Kill()
		return run.CLIResult{TimedOut: true}
	}
}

// ---- generators ----

var c08Hostile = []byte{0, 0xff, 0xfe, 0xc0, 0x80, 0xed, 0xa0, '"', '\\', '(', ')', '[', ']', '{', '}', '$', '@', '#', '.', '?', '/', '*', '|', ',', ':', ';', '-', '+', '=', '<', '\n', '\r', '\t', ' ', '0', '9', 'e', 'E', 'a', '_', '\'', '`', '~', '%', '&', '^', '!', 0x7f, 0xf0, 0x9f, 0x98, 0x80}

func byteMutate(r *rand.Rand, s string) string {
	b := []byte(s)
	n := 1 + r.IntN(3)
	for k := 0; k < n; k++ {
		if len(b) == 0 {
			b = append(b, c08Hostile[r.IntN(len(c08Hostile))])
			continue
		}
		i := r.IntN(len(b))
		switch r.IntN(7) {
		case 0:
			b[i] ^= 1 << r.IntN(8)
		case 1:
			b = append(b[:i:i], append([]byte{c08Hostile[r.IntN(len(c08Hostile))]}, b[i:]...)...)
		case 2:
			b = b[:i]
		case 3:
			b = append(b[:i:i], b[min(len(b), i+1+r.IntN(3)):]...)
		case 4:
			j := i + r.IntN(len(b)-i)
			b = append(b[:j:j], append(append([]byte{}, b[i:j]...), b[j:]...)...)
		case 5:
			b[i] = c08Hostile[r.IntN(len(c08Hostile))]
		default:
			b = append(b, c08Hostile[r.IntN(len(c08Hostile))])
		}
	}
	return string(b)
}

var c08Internals = []string{"_index", "_slice", "_range", "_match", "_captures", "_min_by", "_max_by", "_sort_by", "_group_by", "_unique_by", "_modify", "_assign", "_last", "_plus", "_negate", "_add", "_subtract", "_multiply", "_divide", "_modulo", "_alternative", "_equal", "_less", "_tohtml", "_touri", "_tourid", "_tocsv", "_totsv", "_tosh", "_tobase64", "_tobase64d", "_allocator", "_setpath", "_delpaths", "_break", "_while", "_until", "_repeat", "_walk"}

var c08Args = []string{".", "null", "0", "-1", "1", "1e1000", "-1e1000", "nan", "infinite", "-infinite", "1.5", "0.5", "9223372036854775807", "-9223372036854775808", "9223372036854775808", "100000000000000000000", "536870912", "536870911", "2147483648", "\"\"", "\"a\"", "\"\\u0000\"", "\"abc\"", "\"(\"", "\"a*\"", "\"g\"", "\"x\"", "[]", "[0]", "[1,2]", "[[]]", "[null]", "[\"a\"]", "{}", "{\"a\":1}", "{\"start\":1,\"end\":null}", "{\"start\":null}", "{\"start\":\"a\",\"end\":{}}",
	"true", "false", "empty", "error", "error(null)", "(1,2)", ".[]?", "$v", "input", "$__loc__", "$ENV", "[.]", "{a:.}", "path(.)", "..", "[limit(3;repeat(.))]", "\"\\(.)\"", "@json", "not", "[paths]", "tostream", "getpath([\"a\"])", "{\"name\":\"a\",\"offset\":0,\"length\":1,\"string\":\"a\",\"captures\":[]}", "[{\"name\":null,\"string\":1}]", "[0,1,2,3,4,5,6,7]", "[2015,2,5,23,51,47,4,63]", "[1e1000,1,1,1,1,1,1,1]", "\"2015-03-05T23:51:47Z\"", "\"%Y\"", "\"%\"", "1e18", "-1e18", "0.1", "-0", "[1,[2,[3]]]"}

func builtinCall(r *rand.Rand, names []string) string {
	var name string
	var arity int
	if r.IntN(5) == 0 {
		name, arity = c08Internals[r.IntN(len(c08Internals))], r.IntN(4)
	} else {
		na := names[r.IntN(len(names))]
		i := strings.LastIndexByte(na, '/')
		name = na[:i]
		fmt.Sscan(na[i+1:], &arity)
		if r.IntN(8) == 0 {
			arity = r.IntN(4) // wrong arity
		}
	}
	args := make([]string, arity)
	for i := range args {
		args[i] = c08Args[r.IntN(len(c08Args))]
		switch name {
		case "recurse", "while", "until", "repeat", "_while", "_until", "_repeat", "walk", "_walk", "limit", "first", "nth", "isempty", "any", "all", "last":
			// feedback loops over a string-growing filter need memory exponential in the step count
			switch args[i] {
			case "@json", "\"\\(.)\"", "tostream", "[.]", "{a:.}", "[limit(3;repeat(.))]", "..", "[paths]":
				args[i] = "."
			}
		case "jn", "yn", "ldexp", "scalb", "scalbln", "range", "_range", "combinations", "flatten":
			// O(n) native loops on a huge count are legitimate unbounded work, not crashes
			switch args[i] {
			case "1e18", "-1e18", "9223372036854775807", "-9223372036854775808", "9223372036854775808", "100000000000000000000", "1e1000", "-1e1000", "infinite", "-infinite", "536870912", "536870911", "2147483648":
				args[i] = "7"
			}
		}
	}
	s := name
	if arity > 0 {
		s += "(" + strings.Join(args, "; ") + ")"
	}
	switch r.IntN(8) {
	case 0:
		return "try (" + s + ") catch ."
	case 1:
		return "[" + s + "]"
	case 2:
		return "path(" + s + ")"
	case 3:
		return c08Args[r.IntN(len(c08Args))] + " | " + s
	case 4:
		return "(" + s + ") |= " + c08Args[r.IntN(len(c08Args))]
	case 5:
		return "[limit(5; " + s + ")] | tojson"
	case 6:
		return ".[]? | " + s
	}
	return s
}

var c08Flags = []string{"-r", "-j", "--raw-output0", "-c", "--tab", "--indent", "--indent=3", "--indent", "-C", "-M", "-n", "-R", "--stream", "--yaml-input", "--yaml-output", "-s", "-e", "-f", "--from-file", "-L", "--library-path", "--arg", "--argjson", "--slurpfile", "--rawfile", "--args", "--jsonargs", "-v", "-h", "--", "-", "--unknown", "-x", "-rj", "-nr", "-sR", "-cn", "--indent=-1", "--indent=99", "--arg=a", "-L.", "--seq", "--exit-status", "-e", "--color-output", "--null-input", "--slurp", "--raw-input",
	// clusters of short flags that end in (or contain) the one that takes a value
	"-nL", "-rL", "-ncL", "-sRL", "-eL", "-nrL", "-Ln", "-nL.", "-nL=.", "-nf", "-rf", "-fn", "-nfL", "-L", "-nL", "-cL"}
var c08FlagArgs = []string{"a", "1", "x", "{}", "[1,2", "f.jq", "d.json", "bad.json", "missing", "adir", ".", "-1", "8", "0", "", "$x", "a b", "\x00", "null", "\"s\"", "1e1000", "../", "/dev/null", "/proc/self/environ"}
var c08Queries = []string{".", ".a", ".[]", "..", "$x", "$a", "$ARGS", "$ARGS.named", "$ARGS.positional[0]", "$__prog_args", "input", "[inputs]", "inputs", "input_filename", "halt", "halt_error", "halt_error(1)", "\"x\"|halt_error(300)", "{}|halt_error(-1)", "error", "error(null)", ".[] as [$a] ?// $a | $a", "import \"m\" as m; m::f", "include \"m\"; f", "import \"d\" as $d; $d", "import \"bad\" as b; .", "modulemeta", "\"m\"|modulemeta", "env|length", "$ENV.PATH", "now|type", "@base64d", "@sh", "tojson", "fromjson", "ltrimstr(1)", "splits(\"(\")", "test(\"a\";\"x\")", "[limit(3;repeat(1))]", "range(1e9)|select(.>3)|halt", "def f: f; 1", "", " ", "#", ".a.b.c.d", "[.[]?]", "{(.[]?|tostring):1}", "tostream", "fromstream(inputs)", "getpath([\"a\",0])", "to_entries", ". as {a:$x} | $x", "label $f | 1, break $f", "reduce inputs as $x (0; .+1)", "first(inputs)", "input_line_number", "$__loc__", "get_search_list", "debug", "stderr", "debug(\"m\")", "[.,input]", "ascii", "@text \"\\(.)\"", "\"\\u0000\"", "\"\\ud800\"", "1e1000", "-0", "[nan]|tojson", "infinite", "implode", "[1114112]|implode", "[-1]|implode", "\"a\"*1e9|length", "[range(100000)]|length", ".[1e10]=1", ".[-1e10]", "setpath([1e9];1)", ".[\"a\",0]", "..|=.", "del(..)", "paths", "leaf_paths", "splits", "significand", "gamma", "pow(2;1e4)", "ldexp(1;1e10)", "\"\\(1,2)\\(3,4)\"", "@json \"\\(.)\"", "strptime(\"%Y\")", "strftime(\"%\")", "mktime", "todate", "1e20|todate", "\"x\"|fromdate", "gmtime", "localtime", "dateadd(\"seconds\";1)", "tojson|fromjson", "utf8bytelength", "toboolean", "getpath(1)", "setpath(1;2)", "delpaths(1)", "has(null)", "in(null)", "contains(1)", "inside(1)", "combinations", "combinations(1e3)", "walk(1)", "transpose", "flatten(-1)", "range(0;1;0)", "limit(-1;1)", "nth(-1;1)", "until(true;1)", "repeat(1)|halt", "env.PATH|test(\".\")", "splits(1)", "sub(\"a\";\"b\";\"z\")", "gsub(\"\";\"x\")", "[match(\"\";\"g\")]|length", "capture(\"(?<a>.)(?<a>.)\")", "scan(\"(\")", "test(\"\\\\\")", "ascii_downcase", "@base64", "@uri", "@urid", "@csv", "@tsv", "@html", "ltrimstr(\"a\")", "trim", "ltrim", "rtrim", "trimstr(\"a\")", "abs", "toarray", "have_literal_numbers", "pick(.a)", "pick(.[0])", "pick(first)", "debug(1,2)", "scan(\"a\";\"g\")", "splits(\"a\";null)", "ascii(1)", "@foo", "$__loc__.file", "input|input", "try input catch .", "limit(1;inputs)", "[.[]|tostring]", "tojson|.[0:1]", "getpath([\"a\"];1)", "error(\"x\";1)", "ltrimstr", "f", "f(1)", "def f(a;b;c;d;e;g;h;i;j;k;l;m;n;o;p;q;r;s;t;u;v;w;x;y;z;aa;bb;cc;dd;ee;ff): 1; f(1;2;3;4;5;6;7;8;9;10;11;12;13;14;15;16;17;18;19;20;21;22;23;24;25;26;27;28;29;30;31)"}

var c08Stdins = []string{"", "null", "1", "\"a\"", "[1,2,3]", "{\"a\":{\"b\":[1,2]}}", "1 2 3", "[1,2", "{\"a\":", "tru", "nul", "\"\\ud800\"", "\"\xff\"", "\x00", "\xff\xfe", "1e1000", "-", "[[[[[[[[[[[[[[[[[[[[[[[[[[[[[[[[[[[[[[[[", "{}{}{}", "[]\n[]\r\n[]", "a: 1\nb: [1, 2]\n", "- a\n- : b\n", "a:\n\t- 1", "---\n...\n---\n1", "&a [*a]", "? |\n  x\n: y", "\"unterminated", "1 \"a\" [null] {\"k\":false} 1.5e3", "{\"a\":1,\"a\":2}", "9999999999999999999999999", "0.1e-400", "[1,]", "{,}", "\t\n\r ", "line1\nline2\r\nline3\rline4", strings.Repeat("[", 5000), strings.Repeat("[", 5000) + strings.Repeat("]", 5000), strings.Repeat("1 ", 20000), "{\"a\":\"" + strings.Repeat("x", 70000) + "\"}", strings.Repeat("{\"a\":", 3000) + "1" + strings.Repeat("}", 3000)}

func c08RandomCLI(r *rand.Rand) c08CLI {
	var args []string
	n := r.IntN(6)
	for i := 0; i < n; i++ {
		f := c08Flags[r.IntN(len(c08Flags))]
		args = append(args, f)
		switch f {
		case "--indent", "-L", "--library-path":
			args = append(args, c08FlagArgs[r.IntN(len(c08FlagArgs))])
		case "-nL", "-rL", "-ncL", "-sRL", "-eL", "-nrL", "-cL", "-nfL":
			if r.IntN(4) > 0 { // otherwise whatever comes next (or nothing) is taken for the value
				args = append(args, []string{".", "lib", "/nonexistent", "", "-"}[r.IntN(5)])
			}
		case "--arg", "--argjson", "--slurpfile", "--rawfile":
			args = append(args, c08FlagArgs[r.IntN(len(c08FlagArgs))])
			if r.IntN(8) > 0 {
				args = append(args, c08FlagArgs[r.IntN(len(c08FlagArgs))])
			}
		}
	}
	q := c08Queries[r.IntN(len(c08Queries))]
	if r.IntN(4) == 0 {
		q = byteMutate(r, q)
	}
	q = strings.ReplaceAll(q, "\x00", "") // argv cannot carry NUL
	pos := r.IntN(len(args) + 1)
	args = append(args[:pos:pos], append([]string{q}, args[pos:]...)...)
	for i, m := 0, r.IntN(3); i < m; i++ {
		args = append(args, c08FlagArgs[r.IntN(len(c08FlagArgs))])
	}
	for i := range args {
		args[i] = strings.ReplaceAll(args[i], "\x00", "")
	}
	stdin := c08Stdins[r.IntN(len(c08Stdins))]
	if r.IntN(4) == 0 {
		stdin = byteMutate(r, stdin)
	}
	files := map[string]string{
		"f.jq":     hex.EncodeToString([]byte(c08Queries[r.IntN(len(c08Queries))])),
		"d.json":   hex.EncodeToString([]byte(c08Stdins[r.IntN(len(c08Stdins))])),
		"bad.json": hex.EncodeToString([]byte("{\"a\": tru}")),
		"m.jq":     hex.EncodeToString([]byte("def f: 1; def g(x): x;")),
		"bad.jq":   hex.EncodeToString([]byte("def f: ;")),
		".jq":      hex.EncodeToString([]byte("def z: 0;")),
	}
	return c08CLI{Args: args, StdinHex: hex.EncodeToString([]byte(stdin)), Files: files}
}

var c08NilPrograms = []string{"add", ". + {a: 1}", "{a: 1} + .", ". + [1]", "[1] + .", ". * {a: {b: 1}}", ".a = 1", ".[0] = 1", ".a.b |= 2", ".[1:] = [1]", "del(.a)", "del(.[0])", "to_entries", "with_entries(.)", "map_values(.)", "map(.)", "keys", "setpath([\"a\"]; 1)",
	"setpath([0]; 1)", "delpaths([[\"a\"]])", "[.[]]", "tojson", "tostream", "[paths]", "walk(.)", "sort", "group_by(.)", "unique", "flatten", "reverse", "transpose", "implode", "join(\",\")", "min, max", "from_entries", ". - [1]", "index(1)", "has(\"a\")", "has(0)",
	"contains({})", "contains([])", "inside({})", "limit(1; .[]?)", "first, last", "any, all", "[combinations]", "getpath([\"a\"])", "to_entries | from_entries", "@json, @text", "@csv", "tojson | fromjson", "length", "add(.[])", ".[] += 1", ".[] |= empty", ".. |= .", "pick(.a)", "pick(.[0])",
	"to_entries | map(.value) | add", "[.[] | . + {z: 1}]", "reduce .[] as $x ({}; . + $x)", "reduce .[] as $x (null; . + $x)", "[., .] | add | .q = 1", "map_values(. + {k: 1})", ".[0] += {k: 1}", ".[0] *= {k: {l: 1}}", "input?", "splits(\"a\")", "ltrimstr(\"a\")", "tostring", "ascii_downcase", "test(\"a\")", "@base64", "env | length", "getpath([\"a\", \"b\"]) = 1", "paths(..)", "leaf_paths", "any(.[]; .)", "isvalid(.a)", "error", "halt_error", "min_by(.a), max_by(.a)", "unique_by(.a)", "sort_by(.a)", "group_by(.a)", "IN(.[])", "INDEX(.a)", "ascii", "@sh", "@html", "@uri", "tojson | @base64 | @base64d", "splits(\"a\"; null)", "sub(\"a\"; \"b\")", "capture(\"a\")", "ltrimstr(1)", "significand", "getpath([1:2])?", ".[:1]", ".[\"a\"]?", "..", "recurse(.[]?)", "env.PATH", "$ENV | type", "input_line_number", "$__loc__", "path(..)", "del(..)", "del(.[])", "to_entries[]", "tostream | tojson", "fromstream(tostream)", "truncate_stream(1; tostream)?", "limit(3; repeat(.))", "until(true; .)", "[range(2) as $i | .]", "getpath(paths)", "splits", "combinations(2)", "walk(if type == \"object\" then . + {w: 1} else . end)", "with_entries(.value += 1)?", "map_values(empty)", "add / 2", "flatten(0)", "flatten(-1)", "nth(0)", "nth(0; .[])", "first(.[])", "isempty(.[])", "tojson | length", "utf8bytelength", "ltrimstr(.)", "startswith(\"a\")", "abs", "toarray", "have_literal_numbers", "getpath([]) = 1", "trim", "ascii(65)?", "@json \"x\\(.)\"", "\"\\(.)\"", "objects, arrays, iterables, scalars, nulls", "tojson | fromjson | . + {a: 1}", "debug", "debug(.)", "stderr", "input_filename", "ltrimstr(\"\")", "splits(\"\")", "limit(0; .)", "getpath([\"a\"]; 1)?", "pick(first)", "have_decnum", "abs?", "toarray | add", "group_by(.) | add", "to_entries | add", "[.[]?] | add", "[.] | add", "[., null, .] | add", "[null, .] | add", "[., .] | add", "[[.], [.]] | add | add"}

func init() {
	run.Register(&run.Prop{
		ID: "C08", Level: "exploration", MinNontrivial: 5000,
		Rule:        "library: a case is (query bytes, input, variable value). Parse, String, Compile, Run/Next (300 outputs, instruction budget, advancing after error values), Marshal, Preview, TypeOf and every error's text are called under recover(); a ParseError's Offset must lie in [0,len] with len(Token) <= Offset; emitted values must consist of the supported Go types; a process-fatal error (stack overflow, concurrent map writes, ...) kills the worker and is attributed to the case by the journal. Queries: byte- and token-level mutations of every corpus query, calls of every builtin name/arity from `builtins` and of the user-reachable `_`-prefixed internals with wrong-typed, boundary and wrong-arity arguments in path/update/try/limit contexts; inputs: the type universe in every Go number representation incl. NaN/Inf/invalid UTF-8/nil containers. loader: 8 kinds of module loader (no methods, each single method, all, always failing, init modules) x 11 module maps (self-including, mutually importing, three-module circle, diamond, unparsable, data inside a module, init module including itself) x 16 queries under recover(). paths: every path of up to two elements from 13 well- and ill-typed elements in 25 getpath/setpath/delpaths/pick/update forms and every ordered pair of such paths from 7 elements in 10 two-path forms, over 6 inputs. command: modules that include or import each other in a circle as files; random combinations of every flag of the command with valid and invalid arguments, queries, stdin bytes and files; stderr is scanned for a Go stack trace and the exit status must be a documented one (0-5, or the halt_error code); thorough also injects write(ENOSPC)/read(EIO) faults on the n-th call with strace. Resource exhaustion (budget, heap limit, timeout) is counted as inconclusive. Non-trivial = distinct cases (library: query longer than 2 bytes).",
		Assumptions: []string{"programs that legitimately need unbounded time or memory are outside the claim: instruction budget, 3 GiB heap watchdog and timeouts classify them as inconclusive", "a stack overflow within the instruction budget is a violation (it means unbounded recursion on a bounded value)"},
		Body: func(c *run.Ctx) {
			r := c.Rand("c08")
			types := gen.UTypes()
			types = append(types, []any(nil), map[string]any(nil), []any{[]any(nil), map[string]any(nil)}, "\xf0\x9f", "\x00")
			pickIn := func() any {
				v := types[r.IntN(len(types))]
				if r.IntN(3) == 0 {
					v = gen.Reps(v, r.IntN(4))
				}
				if r.IntN(6) == 0 {
					v = []any{v, types[r.IntN(len(types))]}
				}
				if r.IntN(8) == 0 {
					v = map[string]any{"a": v, "b": types[r.IntN(len(types))]}
				}
				return v
			}
			emit := func(src string) {
				kC08Lib.Do(c, c08Lib{SrcHex: hex.EncodeToString([]byte(src)), Input: run.TV{V: pickIn()}, Var: run.TV{V: pickIn()}})
			}
			// nil containers (valid values of the documented input types) through every container operation
			for _, in := range []any{map[string]any(nil), []any(nil), []any{map[string]any(nil), map[string]any{"y": 1}}, []any{[]any(nil), []any{1}}, map[string]any{"a": map[string]any(nil), "b": []any(nil)}} {
				for _, src := range c08NilPrograms {
					for _, w := range []string{"%s", ". as $x | (%s), $x", "[., {y: 1}, .] | (%s)", "[., [1]] | (%s)", "{a: .} | (.a | %s), (%s)", "$v | (%s)"} {
						kC08Lib.Do(c, c08Lib{SrcHex: hex.EncodeToString([]byte(strings.ReplaceAll(w, "%s", src))), Input: run.TV{V: in}, Var: run.TV{V: in}})
					}
				}
			}
			// path primitives with hostile path elements, inside and outside path expressions (bounded-exhaustive): every path of up to
			// two elements from a pool of well- and ill-typed elements, and every ordered pair of such paths for the multi-path forms
			for _, t := range c08PathHostile() {
				kC08Lib.Do(c, t)
			}
			// something that cannot be compiled (undefined function / variable / label, bad arity) at every query position, alone
			// and behind or before something that can: Compile reports it as a value wherever it meets it
			for _, pos := range c01ScopePositions {
				for qi, q := range c08Uncompilable {
					src := strings.ReplaceAll(pos, "%Q", q)
					kC08Lib.Do(c, c08Lib{SrcHex: hex.EncodeToString([]byte(src)), Input: run.TV{V: nil}, Var: run.TV{V: nil}})
					if qi%4 == 0 {
						src = "def ok: 1; " + strings.ReplaceAll(pos, "%Q", "ok") + " | " + src
						kC08Lib.Do(c, c08Lib{SrcHex: hex.EncodeToString([]byte(src)), Input: run.TV{V: nil}, Var: run.TV{V: nil}})
					}
				}
			}
			// sizes beyond what the interpreter starts with: many variables in one scope (as bindings, destructuring, definitions,
			// labels), deep nesting, long pipes — its tables have to grow, not overflow
			for _, n := range []int{20, 33, 40, 65, 70, 130, 150, 300} {
				vars, refs, pat := "", "", ""
				for i := 0; i < n; i++ {
					vars += fmt.Sprintf("%d as $v%d | ", i, i)
					refs += fmt.Sprintf("$v%d, ", i)
					pat += fmt.Sprintf("$p%d, ", i)
				}
				for _, src := range append(c01Scale(n), vars+"["+refs+"0] | length", ". as ["+pat+"$last] | [$p0, $last]", vars+"def f: ["+refs+"1]; f | add", "[range("+fmt.Sprint(n)+")] as ["+pat+"$last] | $p"+fmt.Sprint(n-1),
					"{a: 1} as {a: $x} | "+vars+"$x + $v"+fmt.Sprint(n-1), vars+"reduce range(3) as $i (0; . + $v"+fmt.Sprint(n-1)+")", "def g: "+vars+"$v0 + $v"+fmt.Sprint(n-1)+"; [g, g]") {
					kC08Lib.Do(c, c08Lib{SrcHex: hex.EncodeToString([]byte(src)), Input: run.TV{V: nil}, Var: run.TV{V: nil}})
				}
			}
			// the same failing operation more than once in one run (what a Code keeps from the first failure meets the second)
			for _, src := range c08Twice {
				for _, w := range []string{"(\"a\", \"b\", \"a\") | %s", "[(\"a\", \"b\") | %s]", "\"a\" | (%s), (%s)", "[limit(3; repeat(\"a\" | %s))]", "reduce (1, 2, 3) as $i (\"a\"; (%s) | tostring)"} {
					kC08Lib.Do(c, c08Lib{SrcHex: hex.EncodeToString([]byte(strings.ReplaceAll(w, "%s", src))), Input: run.TV{V: nil}, Var: run.TV{V: nil}})
				}
			}
			// module loaders of every shape, modules that import each other in a circle
			for _, t := range c08LoaderCases() {
				kC08Loader.Do(c, t)
			}
			for _, t := range c08CycleCLI() {
				kC08CLI.Do(c, t)
			}
			qs := gen.AllCorpusQueries()
			names := builtinNames()
			for _, q := range qs {
				emit(q)
			}
			for _, q := range c08Queries {
				emit(q)
				emit(q)
			}
			n := c.N(60000, 1500000)
			for i := 0; i < n; i++ {
				q := qs[r.IntN(len(qs))]
				switch r.IntN(3) {
				case 0:
					emit(byteMutate(r, q))
				case 1:
					emit(gen.Mutate(r, q))
				default:
					emit(byteMutate(r, gen.Mutate(r, q)))
				}
			}
			m := c.N(60000, 1500000)
			for i := 0; i < m; i++ {
				src := builtinCall(r, names)
				if r.IntN(6) == 0 {
					src += []string{" | ", ", ", " + ", " // "}[r.IntN(4)] + builtinCall(r, names)
				}
				emit(src)
			}
			for _, src := range []string{".[536870912] = 1", ".[1e10] = 1", "setpath([1e9]; 1)", "[1] | .[536870912] = 1", "null | .[4000000000] |= 1", "[] | .[999999999999] += 1", "{} | .a[536870912] = 1",
				"\"abcdefgh\" * 1e9", "\"ab\" * 2147483647", "\"abcdefghijklmnop\" * 300000000", "[.[536870912]?] | .[0][1e12] = 1", ".[1e18] = 0", "null | setpath([0, 1e10]; 1)", ".[9223372036854775807] = 1", ".[18446744073709551616] = 1", ".[1e300] = 1"} {
				kC08Guard.Do(c, c08Guard{Src: src})
			}
			k := c.N(3000, 60000)
			for i := 0; i < k; i++ {
				kC08CLI.Do(c, c08RandomCLI(r))
			}
			if !c.Quick() {
				for i := 0; i < 6000; i++ {
					t := c08RandomCLI(r)
					if r.IntN(2) == 0 {
						t.Strace = fmt.Sprintf("inject=write:error=ENOSPC:when=%d", 1+r.IntN(6))
					} else {
						t.Strace = fmt.Sprintf("inject=read:error=EIO:when=%d", 1+r.IntN(8))
					}
					kC08CLI.Do(c, t)
				}
			} else {
				for i := 0; i < 60; i++ {
					t := c08RandomCLI(r)
					t.Strace = fmt.Sprintf("inject=write:error=ENOSPC:when=%d", 1+r.IntN(4))
					kC08CLI.Do(c, t)
				}
			}
		},
	})
}

var c08PathElems = []string{"null", "true", "0", "1", "-1", "1.5", `"a"`, `"x"`, `{"start":0,"end":1}`, `{"start":null}`, "[]", "[0]", "{}"}
var c08PathElemsFew = []string{"null", "true", "0", "1", `"a"`, `"x"`, `{"start":0}`}
var c08PathInputs = []any{nil, map[string]any{"a": map[string]any{"x": 1}}, []any{[]any{1, 2}}, map[string]any{"a": nil}, map[string]any{"a": []any{map[string]any{"x": 1}, 2}}, map[string]any{"a": "abc", "x": []any{nil}}}
var c08PathSingles = []string{"getpath(%p)", "path(getpath(%p))", "[paths(getpath(%p))]", "getpath(%p) = 1", "getpath(%p) |= 3", "getpath(%p) |= empty", "del(getpath(%p))", "try (getpath(%p) |= 3) catch .", "try del(getpath(%p)) catch .",
	"setpath(%p; 1)", "try setpath(%p; 1) catch .", "delpaths([%p])", "pick(getpath(%p))", "try pick(getpath(%p)) catch .", "[getpath(%p)?]", "getpath(%p)? // 1", "path(getpath(%p) | getpath(%p))", "to_entries? | getpath(%p)", "first(path(getpath(%p)))?",
	"getpath(%p) += 1", "[limit(1; path(getpath(%p)))]", "path(.. | getpath(%p)?)", "[paths] | map(. + %p) | .[0:3]", "path(getpath(%p)?) , path(.a)", "reduce path(getpath(%p)?) as $q (.; setpath($q; 0))"}
var c08PathPairs = []string{"delpaths([%p, %q])", "try delpaths([%p, %q]) catch .", "del(getpath(%p), getpath(%q))", "try del(getpath(%p), getpath(%q)) catch .", "[getpath(%p, %q)?]", "try (getpath(%p, %q) |= empty) catch .",
	"path(getpath(%p) | getpath(%q))", "try (getpath(%p) = 1 | getpath(%q) = 2) catch .", "setpath(%p; 1) | try delpaths([%q, %p]) catch .", "try ((getpath(%p), getpath(%q)) = 1) catch ."}

func c08PathLists(elems []string) []string {
	out := []string{"[]"}
	for _, a := range elems {
		out = append(out, "["+a+"]")
	}
	for _, a := range elems {
		for _, b := range elems {
			out = append(out, "["+a+","+b+"]")
		}
	}
	return out
}

func c08PathHostile() []c08Lib {
	var out []c08Lib
	add := func(src string, in any) {
		out = append(out, c08Lib{SrcHex: hex.EncodeToString([]byte(src)), Input: run.TV{V: in}, Var: run.TV{V: in}})
	}
	for _, p := range c08PathLists(c08PathElems) {
		for _, w := range c08PathSingles {
			src := strings.ReplaceAll(w, "%p", p)
			for _, in := range c08PathInputs {
				add(src, in)
			}
		}
	}
	few := c08PathLists(c08PathElemsFew)
	for _, p := range few {
		for _, q := range few {
			for wi, w := range c08PathPairs {
				src := strings.ReplaceAll(strings.ReplaceAll(w, "%p", p), "%q", q)
				for ii, in := range c08PathInputs {
					if wi >= 2 && (ii+wi)%2 == 0 {
						continue // the forms after the two delpaths forms alternate over the inputs
					}
					add(src, in)
				}
			}
		}
	}
	return out
}

var c08Uncompilable = []string{"foo", "$undefined", "foo, 2", "2, foo", "try $x", "try foo", "try foo catch bar", "1 as $y | foo", "bar(1)", "def g: foo; g", "break $nolabel", "foo // 1", "1 // foo", "if foo then 1 else 2 end", "if 1 then foo else 2 end", "if 1 then 2 else foo, 3 end",
	"if 1 then 2 else try $x end", "if 1 then 2 elif foo then 3 else 4 end", "[foo]", "{a: foo}", "{(foo): 1}", "reduce foo as $x (0; 1)", "reduce 1 as $x (foo; 1)", "foreach 1 as $x (0; foo; 1)", "label $l | foo", ".a = foo", "foo |= 1", "path(foo)", "first(foo)", "limit(foo; 1)", "\"\\(foo)\"", "@base64 \"\\($x)\"",
	". as [$a] ?// $b | $a", ". as [$a] ?// [$b] | foo", "length(1)", "error(1; 2)", "input", "$__loc__", "foo::bar", "$m::x", "-foo", "foo as $x | 1", ". as $x | . as [$y] | $z", "def f(g): g(1); f(.)", "def f($a; $a): $b; f(1; 2)", "ltrimstr", "splits", "getpath", "env(1)", "builtins(1)", "input_line_number(1)", "@foo", "@base32d \"\\(foo)\""}

var c08Twice = []string{"try test(\"(\") catch \"bad\"", "try [match(\"[\")] catch \"E\"", "try sub(\"(\"; \"x\") catch \"E\"", "[scan(\"(\")?]", "try capture(\"(?<a\") catch \"E\"", "try splits(\"*\") catch \"E\"", "try test(\"a\"; \"q\") catch \"E\"", "try gsub(\"\\\\\"; \"x\") catch \"E\"",
	"try strptime(\"%\") catch \"E\"", "try strftime(\"%Q\") catch \"E\"", "try fromjson catch \"E\"", "try tonumber catch \"E\"", "try (\"m\" | modulemeta) catch \"E\"", "try input catch \"E\"", "try error catch \"E\"", "try @base64d catch \"E\"", "try implode catch \"E\"", "try ltrimstr(1) catch \"E\"",
	"try getpath([\"a\"]) catch \"E\"", "try (.[0] = 1) catch \"E\"", "try (. as [$a] | $a) catch \"E\"", "try tojson catch \"E\"", "try (\"(\" as $re | test($re)) catch \"E\"", "try ascii catch \"E\"", "try todate catch \"E\"", "try (. * 1e9 | length) catch \"E\""}
