package mon

import (
	"fmt"

	"verif/harness/internal/run"

	"github.com/itchyny/gojq"
)

// c05.values: the slice of variable values the caller spreads into Run (`code.Run(v, values...)`) is the caller's:
// its order, its length and what lies behind its length stay as they were, run after run, and every run sees the
// values under the names they were given for.

type c05ValuesCase struct {
	Src string
	N   int // number of variables ($a, $b, ...)
}

var kC05Values = run.NewKind("c05.values", func(c *run.Ctx, t c05ValuesCase) *run.Fail {
	names := []string{"$a", "$b", "$c", "$d", "$e"}[:t.N]
	res := run.Compile(t.Src, gojq.WithVariables(names))
	if res.Code == nil {
		return run.Failf("%q does not compile: %v %s", t.Src, res.Err, res.Panic)
	}
	mk := func() []any {
		vals := make([]any, t.N, t.N+4)
		pool := []any{"first", map[string]any{"second": 2}, []any{3, []any{"third"}}, 4.5, nil}
		copy(vals, pool)
		tail := vals[t.N : t.N+4]
		for i := range tail {
			tail[i] = fmt.Sprintf("sentinel-%d", i)
		}
		return vals
	}
	vals := mk()
	snap := func(v []any) string { return run.Canon(v[:cap(v)]) }
	want := snap(vals)
	var first string
	for round := 0; round < 4; round++ {
		iter := res.Code.Run(map[string]any{"in": round % 2}, vals...)
		var outs []any
		for n := 0; n < 50; n++ {
			v, ok := iter.Next()
			if !ok {
				break
			}
			if e, isErr := v.(error); isErr {
				outs = append(outs, "error: "+e.Error())
				break
			}
			outs = append(outs, v)
			if got := snap(vals); got != want {
				return run.Failf("%q: after output #%d of run %d the caller's slice of variable values reads %s, it was %s (the last four are behind its length)", t.Src, n, round+1, got, want)
			}
		}
		if got := snap(vals); got != want {
			return run.Failf("%q: after run %d the caller's slice of variable values reads %s, it was %s (the last four are behind its length)", t.Src, round+1, got, want)
		}
		// rounds 0 and 2 (and 1 and 3) have equal inputs
		if round == 0 {
			first = run.Canon(outs)
		} else if round == 2 && run.Canon(outs) != first {
			return run.Failf("%q: run 3 gave %s, run 1 on an equal input and the same values gave %s", t.Src, run.Clip(run.Canon(outs)), run.Clip(first))
		}
	}
	c.Nontrivial(t.Src)
	return nil
})

func c05ValuesCases() []c05ValuesCase {
	var out []c05ValuesCase
	for n := 1; n <= 5; n++ {
		refs := []string{"$a", "$b", "$c", "$d", "$e"}[:n]
		all := "["
		for i, r := range refs {
			if i > 0 {
				all += ", "
			}
			all += r
		}
		all += "]"
		last := refs[n-1]
		for _, src := range []string{"[., " + all + "]", all + " | reverse", "[" + last + ", $a]", all + " | .[0] = \"changed\" | ., " + all, "$a as $x | " + all + " | sort | ., $x", all + " | map(tojson) | join(\"|\")", "reduce " + all + "[] as $v ([]; . + [$v]) | length, " + all,
			"[limit(2; repeat(" + all + "))]", all + " | del(.[0]) | ., " + all, "(" + all + " | .[-1]) as $l | [$l, " + last + "] | .[0] == .[1]", all + " as [$x] | [$x, $a]", "def f: " + all + "; [f, f] | .[0] == .[1], f", all + " | to_entries | map(.value) == " + all,
			"[" + all + ", " + all + "] | add | length", all + " | (.[] | arrays) |= . + [9] | ., " + all, "try error(" + all + ") catch ., " + all} {
			out = append(out, c05ValuesCase{Src: src, N: n})
		}
	}
	return out
}

// c05.callback: a value emitted by a query stays as it was emitted while the iterator advances and after it has ended,
// also when it was produced by a registered Go function that returns (parts of) what it was handed.

type c05CallbackCase struct{ Src string }

var kC05Callback = run.NewKind("c05.callback", func(c *run.Ctx, t c05CallbackCase) *run.Fail {
	opts := []gojq.CompilerOption{
		gojq.WithFunction("pair", 2, 2, func(_ any, xs []any) any { return xs }),
		gojq.WithFunction("tail", 1, 3, func(_ any, xs []any) any { return xs[1:] }),
		gojq.WithFunction("wrap", 1, 1, func(v any, xs []any) any { return map[string]any{"in": v, "args": xs} }),
		gojq.WithIterFunction("each", 1, 3, func(_ any, xs []any) gojq.Iter { return gojq.NewIter(xs...) }),
		gojq.WithIterFunction("both", 2, 2, func(_ any, xs []any) gojq.Iter { return gojq.NewIter[any](xs, xs[:1]) }),
	}
	res := run.Compile(t.Src, opts...)
	if res.Code == nil {
		return run.Failf("%q does not compile: %v %s", t.Src, res.Err, res.Panic)
	}
	var first string
	for round := 0; round < 2; round++ {
		iter := res.Code.Run(nil)
		var vals []any
		var snaps []string
		check := func(when string) *run.Fail {
			for i, v := range vals {
				if got := run.Canon(v); got != snaps[i] {
					return run.Failf("%q: output #%d was %s when it was emitted and reads %s %s", t.Src, i, snaps[i], got, when)
				}
			}
			return nil
		}
		for n := 0; n < 60; n++ {
			v, ok := iter.Next()
			if !ok {
				break
			}
			if _, isErr := v.(error); isErr {
				break
			}
			vals, snaps = append(vals, v), append(snaps, run.Canon(v))
			if f := check(fmt.Sprintf("after output #%d", n)); f != nil {
				return f
			}
		}
		if f := check("after the iterator has ended"); f != nil {
			return f
		}
		if round == 0 {
			first = run.Canon(vals)
		} else if run.Canon(vals) != first {
			return run.Failf("%q: the second run gave %s, the first %s", t.Src, run.Clip(run.Canon(vals)), run.Clip(first))
		}
	}
	c.Nontrivial(t.Src)
	return nil
})

var c05CallbackSrcs = []string{"pair(1; 2), (pair(\"a\"; \"b\") | length)", "[pair(1; 2), pair(3; 4)]", "pair(1, 2; 3)", "pair(\"a\"; \"b\") | ., (\"x\" | ltrimstr(\"y\"))", "tail(1; 2; 3), tail(4; 5; 6)", "[tail(1; 2), tail(3; 4; 5)] | ., length",
	"wrap(1), wrap(2) | ., (.args | length)", "[wrap(1, 2)] | ., map(.args)", "each(1; 2; 3) | ., (4 + 5)", "[each(1; 2), each(3; 4)]", "both(1; 2), both(3; 4)", "[both(1; 2)] | ., (.[0] | length), pair(9; 8)", "pair(1; 2) as $p | pair(3; 4) as $q | [$p, $q]",
	"reduce (pair(1; 2), pair(3; 4)) as $p ([]; . + [$p])", "[limit(3; repeat(pair(1; 2)))] | ., (3 | tostring | ltrimstr(\"x\"))", "pair(pair(1; 2); pair(3; 4))", "[pair(1; 2)[], tail(1; 2)[]]", "path(pair(1; 2) | .[0])?, pair(5; 6)", "def f: pair(1; 2); [f, f], (7 | tostring)", "pair([1]; {a: 2}) | .[0][0] = 9, ."}
