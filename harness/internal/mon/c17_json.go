package mon

import (
	"bytes"
	"encoding/json"
	"fmt"
	"io"
	"math/rand/v2"
	"os"
	"path/filepath"
	"strconv"
	"strings"
	"unicode/utf8"

	"verif/harness/internal/run"
)

// ---- C17, JSON input ----

// c17Doc describes one generated well-formed JSON document.
type c17Doc struct {
	Seed  uint64 `json:"s"`
	Lines int    `json:"l"` // target number of lines
	Max   int    `json:"m"` // maximal target line length in bytes (0..300)
	Wide  bool   `json:"w"` // strings contain 2/3/4-byte and double-width characters
}

type c17Tok struct {
	s, e int
	kind byte // 'v' scalar value, 'k' object key, 'p' punctuation
	str  bool
}

type c17Built struct {
	term       string
	text       []byte
	lineStarts []int
	toks       []c17Tok
}

// c17Gen is a JSON token generator (a pushdown walk over the JSON grammar).
type c17Gen struct {
	r         *rand.Rand
	wide      bool
	stack     []byte
	state     int
	finishing bool
	done      bool
}

const (
	c17sValue = iota
	c17sValueOrClose
	c17sKeyOrClose
	c17sKey
	c17sColon
	c17sAfter
)

func (g *c17Gen) closeTop() string {
	top := g.stack[len(g.stack)-1]
	g.stack = g.stack[:len(g.stack)-1]
	g.state = c17sAfter
	if top == '[' {
		return "]"
	}
	return "}"
}

func (g *c17Gen) open() string {
	if g.r.IntN(2) == 0 {
		g.stack = append(g.stack, '[')
		g.state = c17sValueOrClose
		return "["
	}
	g.stack = append(g.stack, '{')
	g.state = c17sKeyOrClose
	return "{"
}

// next returns the next token ("" when the document is complete).
func (g *c17Gen) next() (string, byte) {
	for {
		switch g.state {
		case c17sValue:
			if len(g.stack) == 0 {
				return g.open(), 'p'
			}
			if !g.finishing && len(g.stack) < 4 && g.r.IntN(100) < 22 {
				return g.open(), 'p'
			}
			g.state = c17sAfter
			return g.scalar(), 'v'
		case c17sValueOrClose:
			if g.finishing || g.r.IntN(10) == 0 {
				return g.closeTop(), 'p'
			}
			g.state = c17sValue
		case c17sKeyOrClose:
			if g.finishing || g.r.IntN(10) == 0 {
				return g.closeTop(), 'p'
			}
			g.state = c17sKey
		case c17sKey:
			g.state = c17sColon
			return g.str(g.r.IntN(8)), 'k'
		case c17sColon:
			g.state = c17sValue
			return ":", 'p'
		case c17sAfter:
			if len(g.stack) == 0 {
				g.done = true
				return "", 0
			}
			if g.finishing || len(g.stack) > 1 && g.r.IntN(100) < 22 {
				return g.closeTop(), 'p'
			}
			if g.stack[len(g.stack)-1] == '[' {
				g.state = c17sValue
			} else {
				g.state = c17sKey
			}
			return ",", 'p'
		}
	}
}

func (g *c17Gen) scalar() string {
	r := g.r
	switch r.IntN(12) {
	case 0:
		return "true"
	case 1:
		return "false"
	case 2:
		return "null"
	case 3, 4:
		return strconv.Itoa(r.IntN(2000) - 500)
	case 5:
		return strconv.FormatFloat(float64(r.IntN(100000))/100-300, 'f', -1, 64)
	case 6:
		return fmt.Sprintf("%d.%de%+d", r.IntN(9)+1, r.IntN(1000), r.IntN(40)-20)
	}
	switch r.IntN(10) {
	case 0:
		return g.str(60 + r.IntN(200))
	case 1, 2, 3:
		return g.str(10 + r.IntN(50))
	}
	return g.str(r.IntN(13))
}

const c17ASCII = " !#$%&'()*+,-./0123456789:;<=>?@ABCDEFGHIJKLMNOPQRSTUVWXYZ[]^_`abcdefghijklmnopqrstuvwxyz{|}~\x7f\x7f"

var c17Escapes = []string{`\n`, `\"`, `\\`, "\\" + "u00e9", `\t`, `\/`, "\\" + "u3042"}

// str builds a JSON string literal of n atoms.
func (g *c17Gen) str(n int) string {
	var sb strings.Builder
	sb.WriteByte('"')
	for i := 0; i < n; i++ {
		k := g.r.IntN(100)
		switch {
		case k < 4:
			sb.WriteString(c17Escapes[g.r.IntN(len(c17Escapes))])
		case k < 34 && g.wide:
			sb.WriteString(c17Wide[g.r.IntN(len(c17Wide))].s)
		default:
			sb.WriteByte(c17ASCII[g.r.IntN(len(c17ASCII))])
		}
	}
	sb.WriteByte('"')
	return sb.String()
}

// c17Build lays the token stream of d out on lines ended by term. The
// structure (tokens, line breaks) does not depend on term.
func c17Build(d c17Doc, term string) *c17Built {
	r := rand.New(rand.NewPCG(d.Seed, 0xc17))
	g := &c17Gen{r: r, wide: d.Wide}
	if term == "\x00mixed" {
		mr := rand.New(rand.NewPCG(d.Seed, 0x3117))
		return c17BuildWith(d, r, g, "\n", func() string { return []string{"\n", "\r", "\r\n", "\n"}[mr.IntN(4)] })
	}
	return c17BuildWith(d, r, g, term, func() string { return term })
}

func c17BuildWith(d c17Doc, r *rand.Rand, g *c17Gen, term string, nl func() string) *c17Built {
	b := &c17Built{term: term, lineStarts: []int{0}}
	var out bytes.Buffer
	target := func() int {
		if d.Max >= 100 && r.IntN(100) < 15 {
			return d.Max
		}
		return r.IntN(d.Max + 1)
	}
	cur, tgt := 0, target()
	first := true
	for {
		tok, kind := g.next()
		if tok == "" {
			break
		}
		if !first {
			if cur > 0 && cur+len(tok) > tgt || cur == 0 && tgt == 0 && r.IntN(3) == 0 {
				out.WriteString(nl())
				b.lineStarts = append(b.lineStarts, out.Len())
				for r.IntN(14) == 0 { // blank lines
					out.WriteString(nl())
					b.lineStarts = append(b.lineStarts, out.Len())
				}
				ind := 0
				if d.Max >= 4 {
					ind = r.IntN(5)
				}
				if r.IntN(4) == 0 {
					out.WriteString("\t\t\t\t"[:ind]) // tab-indented documents (what --tab writes)
				} else {
					out.WriteString("    "[:ind])
				}
				cur, tgt = ind, target()
			} else if n := r.IntN(4); n >= 2 {
				if r.IntN(6) == 0 {
					out.WriteString("\t\t"[:n-1])
				} else {
					out.WriteString("  "[:n-1])
				}
				cur += n - 1
			}
		}
		first = false
		b.toks = append(b.toks, c17Tok{s: out.Len(), e: out.Len() + len(tok), kind: kind, str: tok[0] == '"'})
		out.WriteString(tok)
		cur += len(tok)
		if !g.finishing && len(b.lineStarts) >= d.Lines && cur >= tgt {
			g.finishing = true
		}
	}
	b.text = out.Bytes()
	return b
}

// c17StrBoundaries lists the offsets inside the JSON string literal tok
// (between the quotes) at which an escape sequence may be inserted.
func c17StrBoundaries(tok string) []int {
	var bs []int
	for i := 1; i < len(tok)-1; {
		bs = append(bs, i)
		switch {
		case tok[i] == '\\' && tok[i+1] == 'u':
			i += 6
		case tok[i] == '\\':
			i += 2
		default:
			_, n := utf8.DecodeRuneInString(tok[i:])
			i += n
		}
	}
	return append(bs, len(tok)-1)
}

// Illegal characters: never valid outside a JSON string.
var c17Illegal = []string{"@", "#", "~", "'", "&", "é", "あ", "😀", "ｱ", "𝄞"}

// Broken scalars with the index of the byte the decoder must name.
var c17Broken = []struct {
	s   string
	off int
}{
	{"tru}", 3}, {"nul]", 3}, {"fals,", 4}, {"-}", 1}, {"1.}", 2}, {"2e]", 2}, {"tx", 1}, {"nil", 1},
	{`"a\qb"`, 3}, {`"\u12G4"`, 5}, {"01", 1}, {"truE", 3}, {"+1", 0}, {".5", 0},
}

// c17Fault is one injected fault.
type c17Fault struct {
	Kind string `json:"k"` // ls (illegal char at line start), tb/ta (before/after token), rep (broken scalar), esc (bad escape in a string), nl (raw line terminator in a string), eof (truncation after a token), sep (a missing separator, followed by a well-formed value or by a broken scalar)
	Idx  int    `json:"i"` // line index or token index
	Var  int    `json:"v"` // variant
}

// c17Inject applies f to the built document. It returns the faulty text and
// the offset of the offending byte in it (len(text) for eof).
func c17Inject(b *c17Built, f c17Fault) (text []byte, p int, ok bool) {
	ins := func(at int, s string) []byte {
		out := make([]byte, 0, len(b.text)+len(s))
		out = append(out, b.text[:at]...)
		out = append(out, s...)
		return append(out, b.text[at:]...)
	}
	ill := c17Illegal[f.Var%len(c17Illegal)]
	switch f.Kind {
	case "ls":
		if f.Idx >= len(b.lineStarts) {
			return nil, 0, false
		}
		at := b.lineStarts[f.Idx]
		return ins(at, ill), at, true
	case "tb", "ta", "rep", "esc", "eof", "nl", "sep":
		if f.Idx >= len(b.toks) {
			return nil, 0, false
		}
		t := b.toks[f.Idx]
		switch f.Kind {
		case "sep":
			// a separator (`,` or `:`) goes missing: the first byte of what follows is the unexpected one, whether that is a
			// well-formed value or (every second variant) the start of a broken scalar
			if t.kind != 'p' || t.e != t.s+1 || (b.text[t.s] != ',' && b.text[t.s] != ':') || f.Idx+1 >= len(b.toks) {
				return nil, 0, false
			}
			nx := b.toks[f.Idx+1]
			out := append([]byte{}, b.text[:t.s]...)
			out = append(out, ' ')
			if f.Var%2 == 1 && nx.kind == 'v' {
				br := c17Broken[(f.Var/2)%len(c17Broken)]
				if br.off == 0 {
					br = c17Broken[0]
				}
				out = append(out, b.text[t.e:nx.s]...)
				out = append(out, br.s...)
				out = append(out, b.text[nx.e:]...)
				return out, nx.s, true
			}
			out = append(out, b.text[t.e:]...)
			return out, nx.s, true
		case "tb":
			return ins(t.s, ill), t.s, true
		case "ta":
			return ins(t.e, ill), t.e, true
		case "rep":
			if t.kind != 'v' {
				return nil, 0, false
			}
			br := c17Broken[f.Var%len(c17Broken)]
			out := append([]byte{}, b.text[:t.s]...)
			out = append(out, br.s...)
			out = append(out, b.text[t.e:]...)
			return out, t.s + br.off, true
		case "esc":
			if !t.str {
				return nil, 0, false
			}
			bs := c17StrBoundaries(string(b.text[t.s:t.e]))
			at := t.s + bs[(f.Var/4)%len(bs)]
			esc := []string{`\q`, `\x`, `\U`, `\ `}[f.Var%4]
			return ins(at, esc), at + 1, true
		case "nl": // a raw line terminator inside a string: the terminator itself is the offending byte
			if !t.str {
				return nil, 0, false
			}
			bs := c17StrBoundaries(string(b.text[t.s:t.e]))
			at := t.s + bs[f.Var%len(bs)]
			return ins(at, b.term), at, true
		case "eof":
			if f.Idx >= len(b.toks)-1 {
				return nil, 0, false
			}
			return append([]byte{}, b.text[:t.e]...), t.e, true
		}
	}
	return nil, 0, false
}

// c17JCase is one run of the command on a JSON input with one fault.
type c17JCase struct {
	Doc   c17Doc   `json:"doc"`
	Pre   []c17Doc `json:"pre,omitempty"` // valid documents before the faulty one
	Join  string   `json:"join,omitempty"`
	Pad   int      `json:"pad,omitempty"`  // spaces before the faulty document
	Tail  bool     `json:"tail,omitempty"` // a valid document follows
	Term  string   `json:"term"`
	Via   string   `json:"via"`  // file | stdinfile | pipe
	Mode  string   `json:"mode"` // plain stream slurp slurpfile argjson file2 importjson
	Fault c17Fault `json:"fault"`
}

// c17PreText is everything before the faulty document (padding excluded).
func c17PreText(t c17JCase) []byte {
	term := c17Term(t.Term)
	var buf bytes.Buffer
	for i, d := range t.Pre {
		buf.Write(c17Build(d, c17BuildTerm(t.Term)).text)
		if i == len(t.Pre)-1 && t.Join == "sp" {
			buf.WriteByte(' ')
		} else {
			buf.WriteString(term)
		}
	}
	return buf.Bytes()
}

// c17Assemble builds the whole input and the offset of the offending byte.
func c17Assemble(t c17JCase) (whole []byte, p int, eof, ok bool) {
	term := c17Term(t.Term)
	var buf bytes.Buffer
	buf.Write(c17PreText(t))
	for i := 0; i < t.Pad; i++ {
		buf.WriteByte(' ')
	}
	b := c17Build(t.Doc, c17BuildTerm(t.Term))
	text, q, ok := c17Inject(b, t.Fault)
	if !ok || t.Mode == "argjson" && t.Fault.Kind == "ta" && t.Fault.Idx == len(b.toks)-1 {
		return nil, 0, false, false // --argjson reads one value only: nothing behind it is examined
	}
	p = buf.Len() + q
	buf.Write(text)
	eof = t.Fault.Kind == "eof"
	if !eof {
		buf.WriteString(term)
		if t.Tail {
			buf.WriteString("[1, 2]")
			buf.WriteString(term)
			buf.WriteString("{\"z\": null}")
			buf.WriteString(term)
		}
	}
	return buf.Bytes(), p, eof, true
}

// c17MemDecode decodes whole from memory, document after document, and
// returns the 0-based offset of the byte the decoder rejects.
func c17MemDecode(whole []byte) (off int, eof, bad bool) {
	dec := json.NewDecoder(bytes.NewReader(whole))
	dec.UseNumber()
	for {
		var v any
		err := dec.Decode(&v)
		if err == nil {
			continue
		}
		if err == io.EOF {
			return 0, false, false
		}
		if err == io.ErrUnexpectedEOF {
			return len(whole), true, true
		}
		if se, ok := err.(*json.SyntaxError); ok {
			return int(se.Offset) - 1, false, true
		}
		return -1, false, true
	}
}

var kC17J = run.NewKind("c17.json", func(c *run.Ctx, t c17JCase) *run.Fail {
	whole, p, eof, ok := c17Assemble(t)
	if !ok {
		c.Inconclusive("fault-not-applicable")
		return nil
	}
	off, eofErr, bad := c17MemDecode(whole)
	if !bad || off != p || eofErr != eof {
		c.Inconclusive("oracle-disagree")
		c.Logf("construction says offset %d (eof=%v), encoding/json says %d (eof=%v, rejected=%v)", p, eof, off, eofErr, bad)
		return nil
	}
	dir, cleanup := c17Dir()
	if c.Replay {
		c.Logf("input kept in %s", dir)
	} else {
		defer cleanup()
	}
	path := filepath.Join(dir, "in.json")
	if c.Replay {
		os.WriteFile(filepath.Join(dir, "whole-input.json"), whole, 0o644)
	}
	write := func(name string, b []byte) string {
		pth := filepath.Join(dir, name)
		if err := os.WriteFile(pth, b, 0o644); err != nil {
			panic(err)
		}
		return pth
	}
	var opt run.CLIOpt
	var args []string
	switch t.Mode {
	case "plain":
		args = []string{"-c", "."}
	case "stream":
		args = []string{"--stream", "-c", "."}
	case "slurp":
		args = []string{"-s", "-c", "length"}
	}
	switch t.Mode {
	case "plain", "stream", "slurp":
		switch t.Via {
		case "file":
			write("in.json", whole)
			opt = run.CLIOpt{Args: append(args, path), NoStdin: true}
		case "stdinfile":
			write("in.json", whole)
			opt = run.CLIOpt{Args: args, StdinFile: path}
		case "stdinfile-skip":
			// the descriptor is a regular file whose first lines another process has already consumed: what the
			// command reads, and therefore numbers, starts at the current position
			prefix := []byte("{\"consumed\": \"by somebody else\"}" + c17Term(t.Term) + "[1, 2," + c17Term(t.Term) + " 3]" + c17Term(t.Term))
			// ... a few bytes or many windows of the reader
			for n := []int{0, 0, 700, 3000, 9000, 40000}[(t.Fault.Var+t.Fault.Idx)%6]; n > 0; n-- {
				prefix = append(prefix, ("17" + c17Term(t.Term))...)
			}
			write("in.json", append(append([]byte{}, prefix...), whole...))
			opt = run.CLIOpt{Args: args, StdinFile: path, StdinSkip: int64(len(prefix))}
		default:
			opt = run.CLIOpt{Args: args, Stdin: whole}
		}
	case "file2":
		first := write("first.json", []byte("{\"first\":"+c17Term(t.Term)+" [1,"+c17Term(t.Term)+"2]}"+c17Term(t.Term)))
		write("in.json", whole)
		opt = run.CLIOpt{Args: []string{"-c", ".", first, path}, NoStdin: true}
	case "slurpfile":
		write("in.json", whole)
		opt = run.CLIOpt{Args: []string{"-n", "--slurpfile", "v", path, "$v | length"}, NoStdin: true}
	case "argjson":
		opt = run.CLIOpt{Args: []string{"-n", "-c", "--argjson", "v", string(whole), "$v | length"}, NoStdin: true}
	case "importjson":
		write("d.json", whole)
		opt = run.CLIOpt{Args: []string{"-n", "-L", dir, `import "d" as $d; $d | length`}, NoStdin: true}
	default:
		return run.Failf("unknown mode %q", t.Mode)
	}
	res := run.CLI(opt)
	if res.TimedOut || res.StartErr != nil {
		c.Inconclusive("cli-timeout")
		return nil
	}
	line, start, _ := c17Locate(whole, p)
	where := fmt.Sprintf("mode=%s via=%s term=%s input=%d bytes, %d preceding documents; fault %s#%d/%d: offending byte at offset %d = line %d byte %d",
		t.Mode, t.Via, t.Term, len(whole), len(t.Pre), t.Fault.Kind, t.Fault.Idx, t.Fault.Var, p, line, p-start)
	c.Logf("%s", where)
	c.Logf("stderr:\n%s", res.Stderr)
	sig := fmt.Sprintf("c17.json:%s:%s:%s:%s", t.Mode, t.Via, t.Term, c17Far(p))
	rep, why := c17ParseReport(string(res.Stderr), "invalid json: ")
	if rep == nil {
		return &run.Fail{Detail: fmt.Sprintf("%s\n%s; exit %d, stderr: %s", where, why, res.Code, run.Clip(string(res.Stderr))), Sig: sig}
	}
	switch verdict := c17Judge(rep, whole, p); verdict {
	case "":
	case "?":
		c.Inconclusive("width-oracle-undecided")
		return nil
	default:
		if t.Via == "pipe" && c17CutInsideOffendingChar(rep, whole, p) {
			sig = "c17.json:pipe-read-ends-inside-offending-multibyte-character"
			verdict += "\n(the quoted text stops exactly before the offending multi-byte character and the caret stands behind it: a read from the pipe ended inside that character)"
		}
		return &run.Fail{Detail: where + "\n" + verdict + "\nstderr: " + run.Clip(c17Stderr(res.Stderr)), Sig: sig}
	}
	key, _ := json.Marshal(t)
	c.Nontrivial(string(key))
	c.Count("json_reports_compared", 1)
	c.Count("json_fault_"+t.Fault.Kind, 1)
	c.Count("json_offset_"+c17Far(p), 1)
	c.Distinct("json_mode_via_term", t.Mode+"/"+t.Via+"/"+t.Term)
	c.Distinct("json_lines_reported", strconv.Itoa(line))
	if len(rep.Excerpt) >= 64 {
		c.Count("json_excerpted_long_lines", 1)
	}
	if !isASCII(rep.Excerpt[:min(len(rep.Excerpt), max(0, p-start))]) {
		c.Count("json_caret_after_multibyte_prefix", 1)
	}
	c.Gauge("json_max_input_bytes", int64(len(whole)))
	c.Gauge("json_max_line", int64(line))
	return nil
})

// c17CutInsideOffendingChar recognises one narrow shape of a failed report:
// right line number, the offending character is multi-byte, the quoted text
// is the line from its start (or from at least 45 bytes back) up to exactly
// that character, and the caret stands right behind the quoted text.
func c17CutInsideOffendingChar(rep *c17Report, whole []byte, p int) bool {
	line, start, end := c17Locate(whole, p)
	got := 1
	if rep.HasLine {
		got = rep.Line
	}
	col := p - start
	if got != line || p >= len(whole) || whole[p] < 0x80 || len(rep.Excerpt) > col {
		return false
	}
	T := strings.ReplaceAll(string(whole[start:end]), "\t", " ") // the command shows a tab of the line as one space
	w, ok := c17Width(rep.Excerpt)
	return ok && T[col-len(rep.Excerpt):col] == rep.Excerpt && w == rep.Caret && (len(rep.Excerpt) == col || len(rep.Excerpt) >= 45)
}

func isASCII(s string) bool {
	for i := 0; i < len(s); i++ {
		if s[i] >= 0x80 {
			return false
		}
	}
	return true
}

func c17Stderr(b []byte) string {
	s := string(b)
	if i := strings.Index(s, "gojq: "); i >= 0 {
		s = s[i:]
	}
	return s
}

// c17Far classifies an offset relative to the reader's 16 KiB window.
func c17Far(p int) string {
	switch {
	case p < 12*1024:
		return "lt12k"
	case p < 16*1024:
		return "12k-16k"
	case p < 32*1024:
		return "16k-32k"
	default:
		return "ge32k"
	}
}

type c17Combo struct{ mode, via string }

var c17Combos = []c17Combo{
	{"plain", "file"}, {"plain", "stdinfile"}, {"plain", "pipe"},
	{"stream", "file"}, {"stream", "stdinfile"}, {"stream", "pipe"},
	{"slurp", "file"}, {"slurp", "stdinfile"}, {"slurp", "pipe"},
	{"plain", "pipe"}, {"stream", "pipe"}, {"slurp", "pipe"},
	{"plain", "stdinfile-skip"}, {"stream", "stdinfile-skip"}, {"slurp", "stdinfile-skip"},
	{"slurpfile", "file"}, {"argjson", "arg"}, {"file2", "file"}, {"importjson", "file"},
}

// c17DocProfile draws a faulty-document shape.
func c17DocProfile(r *rand.Rand, k int) c17Doc {
	d := c17Doc{Seed: r.Uint64() >> 11, Wide: r.IntN(3) > 0}
	switch k % 6 {
	case 0:
		d.Lines, d.Max = 1, r.IntN(31)
	case 1:
		d.Lines, d.Max = 2+r.IntN(11), r.IntN(61)
	case 2:
		d.Lines, d.Max = 10+r.IntN(71), 20+r.IntN(141)
	case 3:
		d.Lines, d.Max = 3+r.IntN(38), 200+r.IntN(101)
	case 4:
		d.Lines, d.Max = 150+r.IntN(251), 100+r.IntN(201)
	case 5:
		d.Lines, d.Max = 200+r.IntN(201), r.IntN(9)
	}
	return d
}

// c17PreProfile draws 0..3 preceding valid documents of varying total size.
func c17PreProfile(r *rand.Rand, k int) []c17Doc {
	mk := func(lines, mx int) c17Doc {
		return c17Doc{Seed: r.Uint64() >> 11, Lines: lines, Max: mx, Wide: r.IntN(2) == 0}
	}
	switch k % 8 {
	case 0:
		return nil
	case 1: // small
		var ds []c17Doc
		for i := 0; i <= r.IntN(3); i++ {
			ds = append(ds, mk(1+r.IntN(20), r.IntN(80)))
		}
		return ds
	case 2: // one document around the window size
		return []c17Doc{mk(100+r.IntN(120), 100+r.IntN(100))}
	case 3: // many short lines, beyond the window
		return []c17Doc{mk(2500+r.IntN(3000), r.IntN(8))}
	case 4: // two documents, 20..60 KiB
		return []c17Doc{mk(60+r.IntN(200), 120+r.IntN(180)), mk(60+r.IntN(200), 60+r.IntN(180))}
	case 5: // three documents, first beyond the window
		return []c17Doc{mk(150+r.IntN(150), 150+r.IntN(150)), mk(1+r.IntN(5), r.IntN(40)), mk(20+r.IntN(300), r.IntN(120))}
	case 6: // one large document (several windows)
		return []c17Doc{mk(300+r.IntN(300), 200+r.IntN(100))}
	default: // small then just below the window
		return []c17Doc{mk(1+r.IntN(3), r.IntN(30)), mk(80+r.IntN(60), 120+r.IntN(80))}
	}
}

func c17BodyJSON(c *run.Ctx) {
	r := c.Rand("c17.json")
	nDocs := c.N(350, 1000)
	perm := r.Perm(len(c17Combos))
	for d := 0; d < nDocs; d++ {
		doc := c17DocProfile(r, d)
		combo := c17Combos[perm[d%len(perm)]]
		if d%len(perm) == len(perm)-1 {
			perm = r.Perm(len(c17Combos))
		}
		term := c17TermsMixed[r.IntN(len(c17TermsMixed))]
		base := c17JCase{Doc: doc, Term: term, Via: combo.via, Mode: combo.mode, Tail: r.IntN(3) == 0}
		if combo.mode != "argjson" {
			base.Pre = c17PreProfile(r, r.IntN(8))
			if len(base.Pre) > 0 && r.IntN(5) == 0 {
				base.Join = "sp"
			}
		} else if doc.Lines > 250 {
			base.Doc.Lines = 250 // a single argv string must stay below 128 KiB
		}
		b := c17Build(base.Doc, "\n")
		var faults []c17Fault
		// every line start (sampled in the quick tier for long documents)
		nl := len(b.lineStarts)
		stride := 1
		if c.Quick() && nl > 24 {
			stride = nl / 24
		}
		for i := r.IntN(stride); i < nl; i += stride {
			faults = append(faults, c17Fault{Kind: "ls", Idx: i, Var: r.IntN(1000)})
		}
		// sampled in-line token boundaries
		nt := len(b.toks)
		for i := 0; i < c.N(14, 40) && nt > 0; i++ {
			k := r.IntN(nt)
			kind := []string{"tb", "ta", "rep", "rep", "esc", "eof", "nl", "sep", "sep"}[r.IntN(9)]
			// move to a token the fault applies to
			for j := 0; j < nt; j++ {
				tk := b.toks[(k+j)%nt]
				if kind == "rep" && tk.kind != 'v' || (kind == "esc" || kind == "nl") && !tk.str || kind == "eof" && (k+j)%nt >= nt-1 {
					continue
				}
				if kind == "sep" && (tk.kind != 'p' || tk.e != tk.s+1 || (b.text[tk.s] != ',' && b.text[tk.s] != ':') || (k+j)%nt >= nt-1) {
					continue
				}
				k = (k + j) % nt
				faults = append(faults, c17Fault{Kind: kind, Idx: k, Var: r.IntN(1000)})
				break
			}
		}
		// faults next to the thresholds of the reader's window
		if len(base.Pre) > 0 || len(b.text) > 12*1024 {
			preLen := len(c17PreText(base))
			bt := c17Build(base.Doc, c17BuildTerm(term))
			for th := 4096; th <= preLen+len(bt.text) && th <= 96*1024; th += 4096 {
				if th < preLen || r.IntN(2) == 0 {
					continue
				}
				// last token starting at or before the threshold
				k := -1
				for i, tk := range bt.toks {
					if preLen+tk.s <= th {
						k = i
					}
				}
				if k < 0 {
					continue
				}
				delta := r.IntN(4) - 1
				pad := th + delta - (preLen + bt.toks[k].s)
				if pad < 0 || pad > 400 {
					continue
				}
				cs := base
				cs.Pad = pad
				cs.Fault = c17Fault{Kind: "tb", Idx: k, Var: r.IntN(1000)}
				kC17J.Do(c, cs)
			}
		}
		for _, f := range faults {
			kC17J.Do(c, c17JCaseWith(base, f))
		}
	}
}

func c17JCaseWith(base c17JCase, f c17Fault) c17JCase {
	base.Fault = f
	return base
}
