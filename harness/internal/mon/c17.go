package mon

import (
	"fmt"
	"os"
	"regexp"
	"strconv"
	"strings"
	"unicode/utf8"

	"verif/harness/internal/run"

	"github.com/mattn/go-runewidth"
)

// ---- C17: reported error positions point at the offending byte ----
//
// Every case is a well-formed multi-line JSON document / jq query / YAML
// document with ONE injected fault whose offending byte offset is known by
// construction (and, for JSON, cross-checked by decoding the whole input in
// memory with encoding/json). The real command is run and its report
//
//	gojq: invalid json: NAME[:LINE]
//	    [LINE | ]EXCERPT
//	    <spaces>^  MESSAGE
//
// is parsed. Refuted when LINE is not the 1-based line of the offending byte
// in the whole input (LF, CRLF and lone CR each end a line), when EXCERPT is
// not a piece of that line containing the offending character, or when the
// caret is not under that character with the excerpt's prefix measured in
// terminal columns (go-runewidth, the definition the command documents).
//
// Files: c17.go (report parser, position oracle, registration),
// c17_json.go, c17_query.go, c17_yaml.go.

// c17Cond is the width definition of the command when it runs under the
// harness' environment (LANG=C: not East Asian, emoji strictly neutral).
var c17Cond = func() *runewidth.Condition {
	c := runewidth.NewCondition()
	c.EastAsianWidth = false
	c.StrictEmojiNeutral = true
	return c
}()

// c17Wide is the non-ASCII alphabet of all generators with the terminal
// width of each member (own table; guards the runewidth call).
var c17Wide = []struct {
	s string
	w int
}{
	{"é", 1}, {"ж", 1}, {"ß", 1}, {"€", 1}, {"あ", 2}, {"漢", 2}, {"ｱ", 1}, {"한", 2}, {"😀", 2}, {"𝄞", 1}, {"Ω", 1}, {"字", 2}, {"\ufffd", 1}, {"\ufeff", 0},
}

var c17WideWidth = func() map[rune]int {
	m := map[rune]int{}
	for _, e := range c17Wide {
		r, _ := utf8.DecodeRuneInString(e.s)
		m[r] = e.w
	}
	return m
}()

// c17Width measures s in terminal columns. ok=false when the harness' own
// table and go-runewidth disagree (then nothing is decided).
func c17Width(s string) (w int, ok bool) {
	w = c17Cond.StringWidth(s)
	own := 0
	for _, r := range s {
		switch {
		case r == utf8.RuneError:
			return w, true // not an alphabet member: trust the library
		case r < 0x80:
			if r >= 0x20 && r != 0x7f {
				own++
			}
		default:
			ww, known := c17WideWidth[r]
			if !known {
				return w, true
			}
			own += ww
		}
	}
	return w, own == w
}

func c17Term(name string) string {
	switch name {
	case "crlf":
		return "\r\n"
	case "cr":
		return "\r"
	}
	return "\n"
}

var c17Terms = []string{"lf", "crlf", "cr"}

// c17TermsMixed adds documents whose lines end differently from line to line (files edited on several systems).
var c17TermsMixed = []string{"lf", "crlf", "cr", "mixed", "lf", "crlf", "cr"}

// c17BuildTerm is the terminator argument of c17Build: a sentinel selects a terminator per line.
func c17BuildTerm(name string) string {
	if name == "mixed" {
		return "\x00mixed"
	}
	return c17Term(name)
}

// c17Locate returns the 1-based line of byte offset p in b and the extent
// [start,end) of that line without its terminator. LF, CRLF and a lone CR
// each end a line. p == len(b) addresses the end of input.
func c17Locate(b []byte, p int) (line, start, end int) {
	line = 1
	for i := 0; i < p && i < len(b); i++ {
		switch b[i] {
		case '\n':
			line++
			start = i + 1
		case '\r':
			if i+1 < len(b) && b[i+1] == '\n' {
				i++
			}
			line++
			start = i + 1
		}
	}
	end = max(p, start)
	for end < len(b) && b[end] != '\n' && b[end] != '\r' {
		end++
	}
	return
}

// c17Report is a parsed position report of the command.
type c17Report struct {
	Header  string
	HasLine bool
	Line    int
	Excerpt string
	Caret   int // columns between the start of the excerpt and the caret
	Msg     string
}

var c17HdrLine = regexp.MustCompile(`^(.*):([0-9]+)$`)

// c17ParseReport finds "gojq: [compile error: ]<tag>…" in stderr and parses
// the three-line report. The second result describes a malformed report.
func c17ParseReport(stderr, tag string) (*c17Report, string) {
	lines := strings.Split(stderr, "\n")
	at := -1
	var header string
	for i, l := range lines {
		if rest, ok := strings.CutPrefix(l, "gojq: "+tag); ok {
			at, header = i, rest
			break
		}
		if rest, ok := strings.CutPrefix(l, "gojq: compile error: "+tag); ok {
			at, header = i, rest
			break
		}
	}
	if at < 0 {
		return nil, fmt.Sprintf("no %q report on stderr", strings.TrimSpace(tag))
	}
	if at+2 >= len(lines) {
		return nil, "report is not followed by a quoted line and a caret line"
	}
	rep := &c17Report{Header: header}
	quoted, caret := lines[at+1], lines[at+2]
	pre := 4
	if m := c17HdrLine.FindStringSubmatch(header); m != nil && strings.HasPrefix(quoted, "    "+m[2]+" | ") {
		rep.HasLine = true
		rep.Line, _ = strconv.Atoi(m[2])
		pre = 4 + len(m[2]) + 3
	} else if !strings.HasPrefix(quoted, "    ") {
		return nil, fmt.Sprintf("quoted line %q does not start with the four-space margin", quoted)
	}
	rep.Excerpt = quoted[pre:]
	idx := strings.IndexByte(caret, '^')
	if idx < 0 || strings.Trim(caret[:idx], " ") != "" {
		return nil, fmt.Sprintf("third line %q is not a caret line", caret)
	}
	if idx < pre {
		return nil, fmt.Sprintf("caret at column %d lies left of the quoted text (which starts at column %d)", idx, pre)
	}
	rep.Caret = idx - pre
	rep.Msg = strings.TrimPrefix(caret[idx+1:], "  ")
	return rep, ""
}

// c17Judge compares a report with the offending byte offset p of whole.
// It returns "" when the report points at p, "?" when the width oracle is
// undecided, and a description of the disagreement otherwise.
func c17Judge(rep *c17Report, whole []byte, p int) string {
	line, start, end := c17Locate(whole, p)
	got := 1
	if rep.HasLine {
		got = rep.Line
	}
	// a tab has no width of its own on a terminal: the command is expected to show it as one space
	T := strings.ReplaceAll(string(whole[start:end]), "\t", " ")
	col := p - start
	if got != line {
		return fmt.Sprintf("line %d reported (quoted %q); the offending byte (offset %d) is byte %d of line %d: %q",
			got, rep.Excerpt, p, col, line, c17Clip(T, col))
	}
	E := rep.Excerpt
	if utf8.ValidString(T) && !utf8.ValidString(E) {
		return fmt.Sprintf("line %d: the quoted text %q cuts a multi-byte character of the line", line, E)
	}
	found, undecided := false, false
	var carets []int
	for s := max(0, col-len(E)); s <= col && s+len(E) <= len(T); s++ {
		if T[s:s+len(E)] != E {
			continue
		}
		if !(col < s+len(E) || col == len(T)) {
			continue // the excerpt ends before the offending character
		}
		found = true
		w, ok := c17Width(E[:col-s])
		if !ok {
			undecided = true
			continue
		}
		if w == rep.Caret {
			return ""
		}
		carets = append(carets, w)
	}
	if !found {
		return fmt.Sprintf("line %d: the quoted text %q is not an excerpt of that line containing the offending character (byte %d of %q)",
			line, E, col, c17Clip(T, col))
	}
	if undecided {
		return "?"
	}
	return fmt.Sprintf("line %d: caret under column %d of the quoted text %q; the offending character (byte %d of the line) is at column %v",
		line, rep.Caret, E, col, carets)
}

// c17Clip shows the neighbourhood of byte col of a long line.
func c17Clip(s string, col int) string {
	if len(s) <= 160 {
		return s
	}
	a, b := max(0, col-70), min(len(s), col+70)
	for a > 0 && !utf8.RuneStart(s[a]) {
		a--
	}
	for b < len(s) && !utf8.RuneStart(s[b]) {
		b++
	}
	return fmt.Sprintf("…[%d bytes]%s[%d bytes]…", a, s[a:b], len(s)-b)
}

// c17Dir creates the per-case scratch directory.
func c17Dir() (string, func()) {
	dir, err := os.MkdirTemp("", "vp-c17-*")
	if err != nil {
		panic(err)
	}
	return dir, func() { os.RemoveAll(dir) }
}

func init() {
	run.Register(&run.Prop{
		ID: "C17", Level: "fault_enumeration", MinNontrivial: 1000,
		Rule: "a case is (generated well-formed multi-line JSON document / jq query / YAML document, preceding valid documents, line terminator LF|CRLF|CR, transport, input mode, ONE injected fault). The fault's offending byte offset is known by construction (JSON: cross-checked by decoding the whole input in memory with encoding/json). The real command is run and its three-line report (header with line number, quoted line, caret line) is compared with the line/column of that byte in the whole input, columns measured with go-runewidth. Queries are additionally parsed with the library and ParseError.Offset/Token must delimit the offending token's bytes. Faults: illegal character at every line start and at sampled token boundaries, broken literals/numbers/escapes, a raw line terminator inside a string (the terminator is the offending byte), truncation (unexpected EOF); queries: operand after operand (incl. interpolated-string opening), operator where an expression must start, mismatched closer, invalid number/escape/unterminated string, multi-byte and stray characters, EOF; YAML: flow closer / nested mapping value / reserved indicator / key-less line / duplicate key (exact position), tab / indentation / unclosed flow (self-consistency only). Non-trivial = the command produced a position report that was compared. Also: a missing separator followed by a well-formed value or a broken scalar (fault kind sep), white space and line breaks in front of a query argument or file, a consumed prefix of up to 40000 lines in front of a positioned standard input, mixed line terminators, tab-indented documents.",
		Assumptions: []string{
			"the offending byte of a JSON fault is the one encoding/json names when it decodes the whole input from memory (no windowing involved); cases where construction and that decoder disagree are counted inconclusive (observed: 0)",
			"terminal columns are those of go-runewidth under LANG=C (not East Asian, strict emoji neutral), cross-checked against the harness' own width table for the generator alphabet; tabs and combining characters are not generated",
			"YAML: go-yaml reports the context mark of an error; exact positions are asserted only for fault kinds whose context mark is the injected character itself (pinned by cli/test.yaml); for tab/indent/unclosed-flow faults only the consistency of line number, quoted line and document range is asserted",
			"a pipe delivers input in chunks of unspecified size, so the read-ahead of the decoder varies between runs; the property must hold for each",
		},
		Body: func(c *run.Ctx) {
			c17BodyJSON(c)
			c17BodyQuery(c)
			c17BodyYAML(c)
			for _, t := range c17YFixedCases() {
				kC17YFixed.Do(c, t)
			}
		},
	})
}
