package mon

import (
	"context"
	"errors"
	"fmt"
	"math/rand/v2"
	"runtime/debug"
	"strings"
	"time"

	"verif/harness/internal/gen"
	"verif/harness/internal/run"

	"github.com/itchyny/gojq"
)

// ---- C07: cancellation is prompt, prefix-consistent and terminal ----

type c07Case struct {
	Src   string
	Input run.TV
	Opt   string // "", "iterfn", "input", "query" (Query.RunWithContext), "badvars"
}

type c07Event struct {
	val    any
	err    error
	pollAt int64
}

type countIter struct{ n, max int }

func (it *countIter) Next() (any, bool) {
	c07Pulls++
	if it.n >= it.max {
		return nil, false
	}
	it.n++
	return it.n, true
}

func c07Opts(opt string) []gojq.CompilerOption {
	switch opt {
	case "iterfn":
		return []gojq.CompilerOption{
			gojq.WithIterFunction("upto", 1, 1, func(_ any, xs []any) gojq.Iter {
				n, _ := xs[0].(int)
				return &countIter{max: n}
			}),
			// the usual ways for a Go function to fail: an iterator over one error, an error among values, a plain error
			gojq.WithIterFunction("iterr", 0, 0, func(any, []any) gojq.Iter { return gojq.NewIter[any](errors.New("iterr failed")) }),
			gojq.WithIterFunction("iterr2", 0, 0, func(any, []any) gojq.Iter { return gojq.NewIter[any](1, errors.New("iterr2 failed"), 3) }),
			gojq.WithIterFunction("iternone", 0, 0, func(any, []any) gojq.Iter { return gojq.NewIter[any]() }),
			gojq.WithIterFunction("iterone", 0, 0, func(v any, _ []any) gojq.Iter { return gojq.NewIter(v) }),
			gojq.WithFunction("plainerr", 0, 0, func(any, []any) any { return errors.New("plainerr failed") }),
			gojq.WithFunction("twice", 0, 0, func(v any, _ []any) any {
				if n, ok := v.(int); ok {
					return n * 2
				}
				return fmt.Errorf("twice: not an int")
			}),
		}
	case "input":
		return []gojq.CompilerOption{gojq.WithInputIter(&countIter{max: 40})}
	}
	return nil
}

const c07MaxEvents = 300

// c07Drive runs one iterator, recording events and the terminal behaviour.
// closeAt<=0 means the reference run (budget pmax, reported via truncated).
func c07Drive(t c07Case, closeAt, pmax int64) (evs []c07Event, endPolls int64, truncated bool, ctxErrAt int, fail string) {
	defer func() {
		if r := recover(); r != nil {
			fail = fmt.Sprintf("panic: %v\n%s", r, run.Clip(string(debug.Stack())))
		}
	}()
	ctxErrAt = -1
	var ctx *run.PollCtx
	if closeAt > 0 {
		ctx = &run.PollCtx{CloseAt: closeAt, E: context.Canceled}
	} else {
		ctx = &run.PollCtx{CloseAt: pmax + 1, E: run.ErrBudget}
	}
	var iter gojq.Iter
	q, err := gojq.Parse(t.Src)
	if err != nil {
		return nil, 0, false, -1, "parse error in pool program: " + err.Error()
	}
	switch t.Opt {
	case "query":
		iter = q.RunWithContext(ctx, t.Input.V)
	case "badvars":
		code, err := gojq.Compile(q, gojq.WithVariables([]string{"$v"}))
		if err != nil {
			return nil, 0, false, -1, "compile error in pool program: " + err.Error()
		}
		iter = code.RunWithContext(ctx, t.Input.V) // too few values
	case "badvars2":
		code, err := gojq.Compile(q)
		if err != nil {
			return nil, 0, false, -1, "compile error in pool program: " + err.Error()
		}
		iter = code.RunWithContext(ctx, t.Input.V, 1, 2) // too many values
	default:
		code, err := gojq.Compile(q, c07Opts(t.Opt)...)
		if err != nil {
			// compile errors are legitimate for some pool members under "query" only
			return nil, 0, false, -1, "compile error in pool program: " + err.Error()
		}
		iter = code.RunWithContext(ctx, t.Input.V)
	}
	errorsSeen := 0
	for {
		v, ok := iter.Next()
		if !ok {
			break
		}
		if e, isErr := v.(error); isErr {
			if e == run.ErrBudget {
				truncated = true
				break
			}
			if closeAt > 0 && ctx.N >= closeAt && ctxErrAt < 0 {
				// the first thing returned once the context is closed
				ctxErrAt = len(evs)
				evs = append(evs, c07Event{err: e, pollAt: ctx.N})
				continue
			}
			errorsSeen++
			evs = append(evs, c07Event{err: e, pollAt: ctx.N})
			if errorsSeen > 50 {
				truncated = true
				break
			}
			continue
		}
		evs = append(evs, c07Event{val: v, pollAt: ctx.N})
		if len(evs) >= c07MaxEvents {
			truncated = true
			break
		}
	}
	endPolls = ctx.N
	if !truncated {
		// exhausted: must stay exhausted
		for i := 0; i < 3; i++ {
			if v, ok := iter.Next(); ok {
				return evs, endPolls, truncated, ctxErrAt, fmt.Sprintf("Next returned (%v, true) after it had returned false (call %d after exhaustion)", v, i+1)
			}
		}
	}
	return
}

func sameEvent(a, b c07Event) bool {
	if (a.err != nil) != (b.err != nil) {
		return false
	}
	if a.err != nil {
		return a.err.Error() == b.err.Error() || run.ErrClass(a.err) == run.ErrClass(b.err)
	}
	return run.Canon(a.val) == run.Canon(b.val)
}

var kC07 = run.NewKind("c07.cancel", func(c *run.Ctx, t c07Case) *run.Fail {
	const pmax = 20000
	ref, refEnd, refTrunc, _, fail := c07Drive(t, 0, pmax)
	if strings.HasPrefix(fail, "compile error") || strings.HasPrefix(fail, "parse error") {
		c.Inconclusive("program-does-not-compile")
		return nil
	}
	if fail != "" {
		return run.Failf("uncancelled run of %q: %s", t.Src, fail)
	}
	c.Logf("reference: %d events, %d polls, truncated=%v", len(ref), refEnd, refTrunc)
	P := refEnd
	if refTrunc && len(ref) > 0 && len(ref) >= c07MaxEvents {
		P = ref[len(ref)-1].pollAt
	}
	if P > pmax {
		P = pmax
	}
	if len(ref) > 0 || P > 3 {
		c.Nontrivial(t.Src + "\x00" + run.Canon(t.Input.V) + t.Opt)
	}
	// cancellation indices: exhaustive up to 400, then sampled
	r := rand.New(rand.NewPCG(uint64(c.Seed), run.Hash64(t.Src)))
	var ks []int64
	for k := int64(1); k <= min(P+2, 400); k++ {
		ks = append(ks, k)
	}
	for i := 0; i < 150 && P > 400; i++ {
		ks = append(ks, 401+r.Int64N(P-400))
	}
	for _, k := range ks {
		evs, endPolls, trunc, ctxErrAt, fail := c07Drive(t, k, 0)
		c.AddEvals(1)
		c.Distinct("cancel_index", fmt.Sprint(k))
		if fail != "" {
			return run.Failf("%q cancelled at poll %d: %s", t.Src, k, fail)
		}
		// expected prefix
		var want []c07Event
		for _, e := range ref {
			if e.pollAt < k {
				want = append(want, e)
			}
		}
		reaches := refTrunc || refEnd >= k // the uncancelled run performs a k-th poll
		if !reaches {
			// the program ends before the k-th poll: identical to the uncancelled run
			if trunc || len(evs) != len(ref) || ctxErrAt >= 0 {
				return run.Failf("%q with cancellation at poll %d (never reached; run has %d polls): %d events vs %d uncancelled", t.Src, k, refEnd, len(evs), len(ref))
			}
			for i := range evs {
				if !sameEvent(evs[i], ref[i]) {
					return run.Failf("%q: event %d differs from the uncancelled run although the cancellation point %d is never reached", t.Src, i, k)
				}
			}
			continue
		}
		c.Count("cancelled_runs", 1)
		if trunc {
			return run.Failf("%q cancelled at poll %d: iterator kept producing (%d events) instead of ending", t.Src, k, len(evs))
		}
		if ctxErrAt < 0 {
			return run.Failf("%q cancelled at poll %d: the context error was never returned; events=%d, polls=%d", t.Src, k, len(evs), endPolls)
		}
		if ctxErrAt != len(want) {
			return run.Failf("%q cancelled at poll %d: %d events before the context error, the uncancelled run has %d events before its poll %d", t.Src, k, ctxErrAt, len(want), k)
		}
		for i := range want {
			if !sameEvent(evs[i], want[i]) {
				return run.Failf("%q cancelled at poll %d: event %d is not the uncancelled run's event %d", t.Src, k, i, i)
			}
		}
		if e := evs[ctxErrAt].err; !errors.Is(e, context.Canceled) {
			return run.Failf("%q cancelled at poll %d: Next returned %v, not the context's error", t.Src, k, e)
		}
		if len(evs) != ctxErrAt+1 {
			return run.Failf("%q cancelled at poll %d: %d further events after the context error (iterator must be exhausted)", t.Src, k, len(evs)-ctxErrAt-1)
		}
		if endPolls != k {
			return run.Failf("%q cancelled at poll %d: the interpreter polled %d times (it must stop at the closing poll)", t.Src, k, endPolls)
		}
	}
	if f := c07External(c, t, ref, refTrunc); f != nil {
		return f
	}
	return c07StaleHandle(c, t, ref, refTrunc)
})

// flagCtx is cancelled from outside, between two Next calls (the consumer's cancel()).
type flagCtx struct {
	closed bool
	polls  int64
	limit  int64 // safety bound: the context closes itself after this many polls (0 = 100000)
}

func (f *flagCtx) Deadline() (time.Time, bool) { return time.Time{}, false }
func (f *flagCtx) Value(any) any               { return nil }
func (f *flagCtx) Err() error {
	if f.closed {
		return context.Canceled
	}
	return nil
}
func (f *flagCtx) Done() <-chan struct{} {
	f.polls++
	if f.limit == 0 {
		f.limit = 100000
	}
	if f.polls > f.limit {
		f.closed = true
	}
	if f.closed {
		return closedChan
	}
	return nil
}

var closedChan = func() chan struct{} { c := make(chan struct{}); close(c); return c }()

var c07Pulls int // pulls of the user-supplied iterators (countIter), reset per run

func c07Start(t c07Case, ctx context.Context) (gojq.Iter, error) {
	q, err := gojq.Parse(t.Src)
	if err != nil {
		return nil, err
	}
	switch t.Opt {
	case "query":
		return q.RunWithContext(ctx, t.Input.V), nil
	case "badvars":
		code, err := gojq.Compile(q, gojq.WithVariables([]string{"$v"}))
		if err != nil {
			return nil, err
		}
		return code.RunWithContext(ctx, t.Input.V), nil
	case "badvars2":
		code, err := gojq.Compile(q)
		if err != nil {
			return nil, err
		}
		return code.RunWithContext(ctx, t.Input.V, 1, 2), nil
	}
	code, err := gojq.Compile(q, c07Opts(t.Opt)...)
	if err != nil {
		return nil, err
	}
	return code.RunWithContext(ctx, t.Input.V), nil
}

// c07External: the consumer cancels between two Next calls, after j events. The very next Next must return the
// context's error (the interpreter always has a next step until it has reported exhaustion), no user iterator may be
// pulled after the cancellation, and afterwards the iterator is exhausted.
func c07External(c *run.Ctx, t c07Case, ref []c07Event, refTrunc bool) (fail *run.Fail) {
	defer func() {
		if r := recover(); r != nil {
			fail = run.Failf("%q: panic with a cancellation between two Next calls: %v", t.Src, r)
		}
	}()
	if t.Opt == "badvars" || t.Opt == "badvars2" {
		return nil
	}
	// the same with the standard library's contexts cancelled WITH A CAUSE (directly, through a child, by a deadline
	// with a cause): Next returns the context's error (ctx.Err()), which is what callers compare with
	for j := 0; j <= min(len(ref), 3); j++ {
		for variant := 0; variant < 3; variant++ {
			parent, cancel := context.WithCancelCause(context.Background())
			var ctx context.Context = parent
			var stop context.CancelFunc = func() {}
			switch variant {
			case 1:
				ctx, stop = context.WithCancel(parent)
			case 2:
				ctx, stop = context.WithTimeoutCause(parent, time.Hour, errors.New("c07: deadline cause"))
			}
			iter, err := c07Start(t, ctx)
			if err != nil {
				cancel(nil)
				stop()
				return nil
			}
			ok := true
			for i := 0; i < j && ok; i++ {
				_, ok = iter.Next()
			}
			cancel(errors.New("c07: the client went away"))
			if ok {
				v, ok2 := iter.Next()
				if _, isEnv := gojq.VerifFootprint(iter); isEnv && ok2 {
					if e, isErr := v.(error); !isErr || e != ctx.Err() {
						stop()
						return run.Failf("%q: context cancelled with a cause after %d events (variant %d): Next returned %v; the context's error is %v", t.Src, j, variant, v, ctx.Err())
					}
					c.Count("cancellations_with_a_cause", 1)
				}
			}
			stop()
		}
	}
	for j := 0; j <= min(len(ref), 12); j++ {
		ctx := &flagCtx{}
		iter, err := c07Start(t, ctx)
		if err != nil {
			return nil
		}
		c07Pulls = 0
		ok := true
		for i := 0; i < j && ok; i++ {
			var v any
			v, ok = iter.Next()
			if ok && !sameEvent(eventOf(v), ref[i]) {
				return run.Failf("%q: event %d differs between two uncancelled runs", t.Src, i)
			}
		}
		if !ok {
			continue // exhaustion was reported before j events
		}
		ctx.closed = true
		pulls := c07Pulls
		v, ok := iter.Next()
		c.Count("cancellations_between_next_calls", 1)
		if one, isOne := iter.(interface{ Next() (any, bool) }); isOne && one != nil && !ok && t.Opt == "query" && j == len(ref) && len(ref) == 1 && ref[0].err != nil {
			continue // compile errors are one-shot iterators, not interpreter runs
		}
		if !ok {
			if _, isEnv := gojq.VerifFootprint(iter); !isEnv {
				continue // not an interpreter run (one-shot iterator of an argument-count or compile error)
			}
			return run.Failf("%q: the context was cancelled after %d events (before exhaustion was reported); the next Next returned (nil, false) instead of the context's error", t.Src, j)
		}
		if e, isErr := v.(error); !isErr || !errors.Is(e, context.Canceled) {
			if _, isEnv := gojq.VerifFootprint(iter); !isEnv {
				continue
			}
			return run.Failf("%q: the context was cancelled after %d events; the next Next returned %v instead of the context's error", t.Src, j, v)
		}
		if c07Pulls != pulls {
			return run.Failf("%q: after the cancellation (following %d events) the user-supplied iterator was advanced %d more time(s); those values are lost", t.Src, j, c07Pulls-pulls)
		}
		for i := 0; i < 2; i++ {
			if v, ok := iter.Next(); ok {
				return run.Failf("%q: Next returned (%v, true) after the context error", t.Src, v)
			}
		}
	}
	return nil
}

func eventOf(v any) c07Event {
	if e, ok := v.(error); ok {
		return c07Event{err: e}
	}
	return c07Event{val: v}
}

// c07StaleHandle: a finished iterator (exhausted, or ended by the context error) stays finished even after other
// runs have been started, and the other runs are not disturbed by advancing it.
func c07StaleHandle(c *run.Ctx, t c07Case, ref []c07Event, refTrunc bool) (fail *run.Fail) {
	defer func() {
		if r := recover(); r != nil {
			fail = run.Failf("%q: panic while advancing a finished iterator: %v", t.Src, r)
		}
	}()
	other := c07Case{Src: "\"a\", \"b\", \"c\"", Input: run.TV{V: nil}}
	for mode := 0; mode < 2; mode++ {
		ctx := &flagCtx{}
		iter, err := c07Start(t, ctx)
		if err != nil {
			return nil
		}
		n := 0
		for ; n < c07MaxEvents; n++ {
			if mode == 1 && n == min(len(ref), 2) {
				ctx.closed = true
			}
			if _, ok := iter.Next(); !ok {
				break
			}
		}
		if n >= c07MaxEvents {
			return nil // not finished within the bound
		}
		// the context is closed only now, after the end (the usual `defer cancel()`, a late deadline): false for ever
		if mode == 0 {
			for i := 0; i < 2; i++ {
				if v, ok := iter.Next(); ok {
					return run.Failf("%q: a finished iterator returned (%v, true) (call %d after the end)", t.Src, v, i+1)
				}
			}
			ctx.closed = true
			for i := 0; i < 3; i++ {
				if v, ok := iter.Next(); ok {
					return run.Failf("%q: a finished iterator returned (%v, true) after its context was closed behind the end (call %d)", t.Src, v, i+1)
				}
			}
			c.Count("contexts_closed_behind_the_end", 1)
		}
		// start two other runs, leave them pending, then advance the finished one again
		b1, _ := c07Start(other, &flagCtx{})
		b2, _ := c07Start(t, &flagCtx{})
		for i := 0; i < 3; i++ {
			if v, ok := iter.Next(); ok {
				return run.Failf("%q: a finished iterator returned (%v, true) again after another run had been started (call %d)", t.Src, v, i+1)
			}
		}
		var got []string
		for {
			v, ok := b1.Next()
			if !ok {
				break
			}
			got = append(got, run.Canon(v))
		}
		if strings.Join(got, ",") != `"a","b","c"` {
			return run.Failf("%q: advancing a finished iterator disturbed another run: it yields %v instead of \"a\",\"b\",\"c\"", t.Src, got)
		}
		for i := 0; i < len(ref) && i < 5; i++ {
			v, ok := b2.Next()
			if !ok || !sameEvent(eventOf(v), ref[i]) {
				return run.Failf("%q: a second run of the same program started while a finished iterator was advanced differs at event %d", t.Src, i)
			}
		}
		c.Count("finished_iterators_advanced_after_other_runs", 1)
	}
	return nil
}

var c07Pool = []string{
	"def f: f; f", "def f: ., f; f", "def f: .+1 | f; f", "def f(x): x | f(x); f(.)", "def f: if . > 50 then . else .+1 | f end; 0 | f",
	"def f: def g: 1, f; g; f", "def f: (1 | f), 2; f | empty", "def f($n): if $n > 30 then $n else f($n+1) end; f(0)",
	"repeat(.)", "repeat(1)", "0 | repeat(.+1)", "range(infinite)", "range(1e9)", "[range(100)]", "range(5; 50; 3)", "range(10; 0; -1)",
	"0 | until(false; .+1)", "0 | until(. > 60; .+1)", "0 | while(true; .+1)", "0 | while(. < 40; .+1)", "0 | recurse(.+1)", "recurse", "..", "[..]",
	"limit(5; repeat(1))", "limit(0; repeat(1))", "first(range(10; 0; -1))", "first(repeat(1))", "isempty(repeat(1))", "nth(5; repeat(1))", "[limit(10; repeat(1))] | add",
	"label $l | (1, 2, break $l, 3)", "label $l | repeat(1, break $l)", "[label $l | range(10) | ., (select(. == 3) | break $l)]",
	"path(..)", "[paths]", "[paths(type == \"number\")]", "tostream", "fromstream(tostream)",
	"reduce range(1000) as $i (0; . + $i)", "foreach range(1000) as $i (0; . + $i)", "foreach range(50) as $i (0; . + $i; [$i, .])", "reduce .[]? as $x (null; . + $x)",
	"[range(300)] | .[] |= . + 1", "[range(200)] | map(. + 1)", "[range(100)] | map(select(. % 2 == 0))", "[range(50)] | to_entries | from_entries?", "[range(100)] | sort | reverse | unique",
	"[range(100)] | tojson | fromjson", "[range(60) | tostring] | join(\",\")", ".[]? as $x | .[]? as $y | [$x, $y]", "try error(\"x\") catch .", ".[]? | (1, error(\"x\"), 2)",
	"(1, 2, 3) | error", "error", "error(null)", ".a.b.c", ".[]", ".[]?", ".a?", "..|numbers", "[.[]? | select(. > 1)?]", "if . then 1 else 2 end", "(.. |= .)",
	"reduce (.[]? | arrays) as [$a, $b] (0; . + $a)", ". as [$a] ?// $a | $a", ".[]? as {a: $x} ?// [$x] | $x", "\"\\(1, 2) \\(3, 4)\"", "{a: (1, 2), b: (3, 4)}",
	"last(range(100))", "getpath([\"a\", \"b\"])", "walk(.)", "[range(30)] | group_by(. % 3)", "@base64", "tojson", "ascii_downcase?", "[match(\"a\"; \"g\")?]", "[splits(\"a\")?]",
	"halt", "halt_error", "1, halt, 2", "(1, 2) | halt_error?", "try (1, halt_error) catch .", "del(.[0]?)", "delpaths([[0]])?", "to_entries?", "with_entries(.value |= tostring)?",
	"limit(3; .[]?)", "first(.[]?)", "any(repeat(true))", "all(range(10); . < 5)", "[range(20)] | combinations(2)?", "[[1, 2], [3, 4]] | combinations", "[range(10)] | .[2:8] | .[1:3]",
	"getpath([\"a\"]) = 1", "(.a, .b) = (1, 2)", ".[]? += 1", ".. |= (numbers |= . + 1)", "[range(40)] | del(.[range(0; 40; 2)])", "[range(20)] | .[3:7] = [\"x\"]", "env | length",
	"[range(100)] | any(. > 50)", "[range(100)] | add", "[range(50)] | min_by(-.)", "[range(30) | {a: ., b: -.}] | sort_by(.b) | map(.a)", "[range(20)] | indices(5)", "[range(64)] | implode | explode | length",
	"ltrimstr(\"a\")", "tostring", "type", "length?", "keys?", "not", "1 as $x | 2 as $y | [$x, $y, .]", "[.[]? | tostring] | add", "splits(\"b\")?", "@json \"x\\(.)\"", "@sh?",
	"[limit(20; repeat(1))] | length", "def f(g): g | g; f(.[]? // 1)", "def f(g; h): [g, h]; f(range(3); range(2))", "[range(10)] | .[] as $x | select($x > 5) | $x", "try (range(5) | if . == 3 then error(.) else . end) catch -1",
	"[range(5)] | map(try (if . == 2 then error(\"e\") else . end) catch \"c\")", ".[]? // \"none\"", "(.a // .b) // 3", "first(empty) // 4", "[.[]? | . // 0]", "empty", "null", "[]", "{}",
}

func init() {
	run.Register(&run.Prop{
		ID: "C07", Level: "fault_enumeration", MinNontrivial: 100, HangFails: true,
		Rule:        "a case is (program, input, compile option); the fault is a cancellation at the k-th interpreter poll of ctx.Done(), enumerated for every k = 1..min(P+2,400) and 150 sampled k up to P (P = polls of the uncancelled run, capped at 20000). The oracle compares emitted events with the uncancelled run's events before its k-th poll, requires ctx.Err() next, exhaustion afterwards, no poll after the closing one, no panic; independently every iterator is called three more times after it returned false and driven on after every error value. Non-trivial = the uncancelled run emitted something or polled more than 3 times.",
		Assumptions: []string{"the VM polls ctx.Done() once per instruction, so a Done() call count is an instruction index (execute.go)", "poll counts are deterministic for programs without now/input side effects (checked: the never-reached comparison would fire otherwise)"},
		Body: func(c *run.Ctx) {
			inputs := []any{nil, 1, []any{1, 2, 3}, map[string]any{"a": []any{1, 2}, "b": map[string]any{"c": 3}}, "abcab", []any{[]any{1, 2}, []any{3}, map[string]any{"a": 5}},
				[]any{3, 1, 2, 1, 5, 4, 2, 9, 8, 7, 6, 0}, map[string]any{"a": map[string]any{"b": map[string]any{"c": []any{1, map[string]any{"d": nil}}}}}, true, 2.5}
			nin := c.N(4, len(inputs))
			for i, src := range c07Pool {
				for j := 0; j < nin; j++ {
					in := inputs[(i+j*3)%len(inputs)]
					kC07.Do(c, c07Case{Src: src, Input: run.TV{V: in}})
				}
				kC07.Do(c, c07Case{Src: src, Input: run.TV{V: inputs[(i+2)%len(inputs)]}, Opt: "query"})
			}
			for _, src := range []string{"upto(10)", "[upto(50)] | add", "upto(3) | upto(.)", "limit(4; upto(100))", "first(upto(5))", "upto(5) | twice", "[upto(5) | twice?]", "upto(2) as $x | upto($x)", "path(upto(3))?", "label $l | upto(9) | ., (select(. > 4) | break $l)", "reduce upto(100) as $x (0; . + $x)", "upto(-1)", "\"a\" | twice", "try (\"a\" | twice) catch ."} {
				for _, in := range inputs[:3] {
					kC07.Do(c, c07Case{Src: src, Input: run.TV{V: in}, Opt: "iterfn"})
				}
			}
			for _, src := range []string{"input", "[inputs]", "inputs", "input, input", "first(inputs)", "limit(3; inputs)", "reduce inputs as $x (0; . + $x)", "[limit(50; repeat(input))]", "try repeat(input) catch .", "label $l | inputs | ., (select(. > 5) | break $l)", "[., input]", "foreach inputs as $x (0; . + $x)"} {
				for _, in := range inputs[:2] {
					kC07.Do(c, c07Case{Src: src, Input: run.TV{V: in}, Opt: "input"})
				}
			}
			for _, src := range []string{".", "1, 2", "$v"} {
				kC07.Do(c, c07Case{Src: src, Input: run.TV{V: 1}, Opt: "badvars"})
				if src != "$v" {
					kC07.Do(c, c07Case{Src: src, Input: run.TV{V: 1}, Opt: "badvars2"})
				}
			}
			// one-shot iterators for compile errors via Query.RunWithContext
			for _, src := range []string{"$undefined", "nosuchfunc", "break $x", "input", "import \"m\" as m; .", "$__prog_args", "f(1)", "1 as $x | $y"} {
				kC07.Do(c, c07Case{Src: src, Input: run.TV{V: 1}, Opt: "query"})
			}
			c07Generated(c)
			// every kind of run-time error, uncaught, in every kind of surrounding state (pending forks, open frames, open
			// path scopes, iterators on the stack): the driver keeps calling Next after each error value
			for ei, e := range c07Errors {
				for ci, cx := range c07ErrCtxs {
					if c.Quick() && (ei+ci)%3 != 0 {
						continue
					}
					in := inputs[(ei+ci)%len(inputs)]
					opt := ""
					if (ei+ci)%7 == 0 {
						opt = "query"
					}
					kC07.Do(c, c07Case{Src: strings.ReplaceAll(cx, "%E", e), Input: run.TV{V: in}, Opt: opt})
				}
			}
			// ... and the errors of registered Go functions
			for _, e := range []string{"iterr", "iterr2", "plainerr", "iternone | error", "iterone | error", "(iterone, iterr)", "iterone | iterr", "\"x\" | twice", "upto(2) | error", "[iterr2]", "iterr // 1", "try iterr catch error", "iterr2 | select(. > 1)", "first(iterr2, iterr)"} {
				for ci, cx := range c07ErrCtxs {
					kC07.Do(c, c07Case{Src: strings.ReplaceAll(cx, "%E", e), Input: run.TV{V: inputs[ci%len(inputs)]}, Opt: "iterfn"})
				}
			}
		},
	})
}

var c07Errors = []string{
	"1 | .[]", "path([1] | .[])", "path({a: 1} | .[])", "path(1 | .[])", "path({a: 1} | .a)", "path([1] | .[0])", "path({} | .[])", "path([] | .[])", "path(\"a\" | .[0])", "path({a: {b: 1}} | .a.b)", "path([[1]] | .[0][0])",
	"path(1 | getpath([\"a\"]))", "path({a: 1} | getpath([\"a\"]))", "path([1, 2] | .[1:])", "path({a: [1]} | .a[])", "path(. as $d | {a: $d} | .a)", "[paths({a: 1} | .[])]", "({a: 1} | .[]) |= 1", "({a: 1} | .a) = 1", "del([1] | .[0])",
	"1 | .a", "{} | .[0]", "[] | .a", "null | .[{}]", "{(1): 2}", "{a: 1, (null): 2}", "error", "error(null)", "error({a: 1})", "1 + \"a\"", "[] | implode", "\"a\" | tonumber", "{} - 1", "[] | ltrimstr(1) | error", "1 / 0", "1 % 0",
	". as [$a] | $a | error", "{} as [$a] | $a", "[] as {a: $x} | $x", "1 as [$a] ?// {a: $a} | $a", "try error(\"x\") catch error", "try error(\"x\") catch error(null)", "(1, 2) | error", "1 | getpath([\"a\", \"b\"])", "{} | setpath([1]; 1)",
	"[] | delpaths([[\"a\"]])", "1 | to_entries", "{} | has(1)", "range(\"a\")", "{} | .[1:2]", "test(\"(\")", "\"!\" | @base64d", "\"{\" | fromjson", "[1] | join(1)?, error(\"j\")", "reduce error(\"r\") as $x (0; .)", "reduce 1 as $x (error(\"s\"); .)",
	"reduce 1 as $x (0; error(\"u\"))", "foreach (1, 2) as $x (0; error(\"f\"); .)", "foreach 1 as $x (0; 1; error(\"g\"))", "limit(1; error(\"l\"))", "first(error(\"f\"))", "label $l | error(\"b\")", "input", "$__loc__ | .nope | error", "[.[]?] | .[\"a\"]",
	"error(\"a\"), error(\"b\")", "1, error(\"mid\"), 2, error(\"end\")", "[1 | .[]]", "{a: (1 | .[])}", "path(..) | error", "tostream | error", "getpath([\"a\"]) | .[0] | .b | error(\"deep\")", "ascii | error", "splits(1)", "halt_error", "{} | halt_error(1)",
}

var c07ErrCtxs = []string{"%E", "1, (%E), 2", "[%E]", "{a: 1, b: (%E)}", "(%E) as $x | 1", "first(%E)", "label $l | (%E)", "reduce (%E) as $x (0; .)", "path(%E)", "(%E) // 1", "try (%E) catch error", ".[]? | (%E)", "def f: %E; f, f", "limit(2; %E)",
	"(%E) | 1", "[.[]? | (%E)?] , (%E)", "(1, 2) | (%E)", "[limit(3; repeat(1))] | (%E)", "path(.. | (%E))?, (%E)", "foreach (1, 2) as $i (0; (%E); .)", "[1, 2] | .[] as $i | (%E)", "{a: [1]} | .a[] |= (%E)", "(%E), (%E)", "isempty(%E), (%E)"}

// c07Generated adds PRNG-generated core-grammar programs (finite and looping) to the pool.
var c07Generated = func(c *run.Ctx) {
	r := c.Rand("c07.g1")
	small := gen.USmall()
	n := c.N(600, 8000)
	for i := 0; i < n; i++ {
		g := &gen.G1{R: r, Updates: 1}
		src := g.Program(2 + r.IntN(3))
		switch r.IntN(6) {
		case 0:
			src = "repeat(" + src + ")"
		case 1:
			src = "[limit(7; repeat(" + src + "))]"
		case 2:
			src = "path(" + src + ")?"
		}
		opt := ""
		if r.IntN(5) == 0 {
			opt = "query"
		}
		kC07.Do(c, c07Case{Src: src, Input: run.TV{V: small[r.IntN(len(small))]}, Opt: opt})
	}
}
