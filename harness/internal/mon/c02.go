package mon

import (
	"encoding/json"
	"fmt"
	"math/big"
	"math/rand/v2"
	"strings"

	"verif/harness/internal/gen"
	"verif/harness/internal/model"
	"verif/harness/internal/run"

	"github.com/itchyny/gojq"
)

// ---- C02: paths and update operators equal their defining reductions ----

// c02Inputs: shared and nested structure over the 3-key universe of the path atoms.
func c02Inputs() []any {
	leaf := map[string]any{"b": 1, "c": []any{1, 2}}
	arr := []any{0, 1, 2}
	return []any{
		map[string]any{"a": map[string]any{"b": map[string]any{"c": 1}, "a": 2}, "b": []any{0, map[string]any{"a": 3}}, "c": nil},
		[]any{[]any{1, 2, 3}, map[string]any{"a": []any{4, 5}}, 2, nil},
		map[string]any{"a": []any{map[string]any{"b": 1}, []any{2, 3}, 4}, "b": map[string]any{"a": 5}},
		[]any{0, 1, 2, 3},
		map[string]any{"a": leaf, "b": leaf, "c": []any{leaf}},
		[]any{arr, arr, arr[1:]},
		[]any{[]any{[]any{1}}, []any{}, map[string]any{}},
		map[string]any{"a": 1}, []any{}, map[string]any{}, nil, 1, "ab", []any{nil, false},
		map[string]any{"a": map[string]any{"a": map[string]any{"a": 0}}},
		[]any{map[string]any{"a": 1, "b": 2}, map[string]any{"a": 3, "c": []any{1, map[string]any{"a": 2}}}},
	}
}

type c02Pair struct {
	L, R  string // two programs that must behave identically (both run by the real library)
	Input run.TV
	What  string
	P     string   // the path expression (used to prefer an input on which it yields a path)
	Alt   []run.TV // alternative inputs
}

// preferInput returns the first candidate on which path(p) yields at least one path (else the first).
func preferInput(p string, first run.TV, alt []run.TV) run.TV {
	if p == "" || len(alt) == 0 {
		return first
	}
	for _, in := range append([]run.TV{first}, alt...) {
		if tr := eval("[limit(1; path("+p+"))] | length", run.DeepCopy(in.V)); tr.End == run.EndOK && len(tr.Vals) == 1 && run.Canon(tr.Vals[0]) == "1" {
			return in
		}
	}
	return first
}

var kC02Pair = run.NewKind("c02.reduction", func(c *run.Ctx, t c02Pair) *run.Fail {
	t.Input = preferInput(t.P, t.Input, t.Alt)
	l, r := run.Compile(t.L), run.Compile(t.R)
	if l.Panic != "" || r.Panic != "" {
		return run.Failf("Compile panicked: %s %s", l.Panic, r.Panic)
	}
	if l.Code == nil || r.Code == nil {
		if (l.Code == nil) != (r.Code == nil) && l.Stage != "parse" && r.Stage != "parse" {
			return run.Failf("%s: only one side compiles: %q (%v) vs %q (%v)", t.What, t.L, l.Err, t.R, r.Err)
		}
		c.Inconclusive("does-not-compile")
		return nil
	}
	a := run.RunCode(l.Code, run.DeepCopy(t.Input.V), nil, 40000, 300)
	b := run.RunCode(r.Code, run.DeepCopy(t.Input.V), nil, 400000, 300)
	c.Logf("operator : %s", run.TraceDesc(a))
	c.Logf("reduction: %s", run.TraceDesc(b))
	diff, partial := run.SameTrace(a, b, run.DiffOpt{InternalMsgEq: true})
	if partial {
		c.Inconclusive("budget-prefix-only")
	}
	if diff != "" {
		return run.Failf("%s on %s:\n  %s\n  differs from its defining reduction\n  %s\n  %s", t.What, run.Clip(run.Canon(t.Input.V)), t.L, t.R, diff)
	}
	if len(a.Vals) > 0 {
		c.Nontrivial(t.L + "\x00" + run.Canon(t.Input.V))
		c.Count("reductions_with_output", 1)
	} else if a.End == run.EndError {
		c.Count("reductions_ending_in_error", 1)
	}
	return nil
})

func redModify(p, f string) string {
	return "reduce path(" + p + ") as $rq ([., []]; . as [$rv, $rd] | label $ro | (((($rv | getpath($rq)) | (" + f + ")) as $ru | ([($rv | setpath($rq; $ru)), $rd], break $ro)), [$rv, $rd + [$rq]])) | . as [$rv, $rd] | $rv | delpaths($rd)"
}

func redAssign(p, x string) string {
	return "(" + x + ") as $rx | reduce path(" + p + ") as $rq (.; setpath($rq; $rx))"
}

type c02Align struct {
	P     string
	Input run.TV
	Alt   []run.TV
}

var kC02Align = run.NewKind("c02.alignment", func(c *run.Ctx, t c02Align) *run.Fail {
	t.Input = preferInput(t.P, t.Input, t.Alt)
	pp, vp := run.Compile("path("+t.P+")"), run.Compile(t.P)
	if pp.Code == nil || vp.Code == nil {
		c.Inconclusive("does-not-compile")
		return nil
	}
	in := run.DeepCopy(t.Input.V)
	paths := run.RunCode(pp.Code, in, nil, defBudget, 300)
	vals := run.RunCode(vp.Code, in, nil, defBudget, 300)
	c.Logf("path(p): %s", run.TraceDesc(paths))
	c.Logf("p      : %s", run.TraceDesc(vals))
	if paths.End == run.EndPanic || vals.End == run.EndPanic {
		return run.Failf("panic: %s %s", paths.Panic, vals.Panic)
	}
	n := min(len(paths.Vals), len(vals.Vals))
	for i := 0; i < n; i++ {
		q, ok := paths.Vals[i].([]any)
		if !ok {
			return run.Failf("path(%s) emitted a non-array %s", t.P, run.Canon(paths.Vals[i]))
		}
		got, err := model.Getpath(in, q)
		if err != nil {
			if _, un := err.(*model.Unsupported); un {
				c.Inconclusive("unsupported-by-model")
				return nil
			}
			return run.Failf("path(%s) on %s emitted %s, which cannot be navigated in the input: %v", t.P, run.Clip(run.Canon(in)), run.Canon(q), err)
		}
		if run.Canon(got) != run.Canon(vals.Vals[i]) {
			return run.Failf("path(%s) on %s: path #%d is %s, getpath gives %s, but output #%d of the expression is %s", t.P, run.Clip(run.Canon(in)), i, run.Canon(q), run.Clip(run.Canon(got)), i, run.Clip(run.Canon(vals.Vals[i])))
		}
		// ... and the library's own getpath reads the emitted path back to the same value
		gp := evalVars("getpath($q)", in, []string{"$q"}, []any{q}, defBudget)
		if gp.End != run.EndOK || len(gp.Vals) != 1 || run.Canon(gp.Vals[0]) != run.Canon(vals.Vals[i]) {
			return run.Failf("path(%s) on %s emits %s for output #%d (%s), but getpath of that path gives %s", t.P, run.Clip(run.Canon(in)), run.Canon(q), i, run.Clip(run.Canon(vals.Vals[i])), run.TraceDesc(gp))
		}
	}
	if paths.End == run.EndBudget || vals.End == run.EndBudget || paths.End == run.EndLimit || vals.End == run.EndLimit {
		c.Inconclusive("budget-prefix-only")
		return nil
	}
	// the path run may stop earlier with an invalid-path error only where the statement requires one; otherwise
	// both lists end at the same place
	if len(paths.Vals) != len(vals.Vals) || (paths.End == run.EndError) != (vals.End == run.EndError) {
		if paths.End == run.EndError && strings.Contains(paths.Err.Error(), "invalid path") && len(paths.Vals) <= len(vals.Vals) {
			c.Count("alignment_cut_by_invalid_path_error", 1)
			return nil
		}
		return run.Failf("path(%s) on %s: %d paths then %s; the expression itself gives %d outputs then %s", t.P, run.Clip(run.Canon(in)), len(paths.Vals), paths.End, len(vals.Vals), vals.End)
	}
	if len(paths.Vals) > 0 {
		c.Nontrivial(t.P + "\x00" + run.Canon(in))
		c.Count("paths_aligned", int64(len(paths.Vals)))
	}
	return nil
})

type c02Prim struct {
	Fn    string // getpath | setpath | delpaths
	V     run.TV
	Paths run.TV // one path, or a list of paths for delpaths
	X     run.TV
}

var c02PrimCode = map[string]*gojq.Code{}

func c02Code(src string) *gojq.Code {
	if code, ok := c02PrimCode[src]; ok {
		return code
	}
	res := run.Compile(src, gojq.WithVariables([]string{"$p", "$x"}))
	if res.Code == nil {
		panic(fmt.Sprint(src, res.Err))
	}
	c02PrimCode[src] = res.Code
	return res.Code
}

var kC02Prim = run.NewKind("c02.primitive", func(c *run.Ctx, t c02Prim) *run.Fail {
	var src string
	var want any
	var werr error
	v := run.DeepCopy(t.V.V)
	switch t.Fn {
	case "getpath":
		src = "getpath($p)"
		p, _ := t.Paths.V.([]any)
		want, werr = model.Getpath(v, p)
	case "setpath":
		src = "setpath($p; $x)"
		p, _ := t.Paths.V.([]any)
		want, werr = model.Setpath(v, p, t.X.V)
	case "delpaths":
		src = "delpaths($p)"
		p, _ := t.Paths.V.([]any)
		want, werr = model.Delpaths(v, p)
	case "setget":
		// setpath(p; x) | getpath(p) == x
		src = "setpath($p; $x) | getpath($p)"
		p, _ := t.Paths.V.([]any)
		if _, werr = model.Setpath(v, p, t.X.V); werr == nil {
			want = t.X.V
		}
	default:
		return run.Failf("bad fn")
	}
	if _, un := werr.(*model.Unsupported); un {
		c.Inconclusive("unsupported-by-model")
		return nil
	}
	tr := run.RunCode(c02Code(src), v, []any{t.Paths.V, t.X.V}, 100000, 0)
	if tr.End == run.EndPanic {
		return run.Failf("%s panicked: %s", src, tr.Panic)
	}
	desc := fmt.Sprintf("%s with $p=%s $x=%s on %s", src, run.Canon(t.Paths.V), run.Clip(run.Canon(t.X.V)), run.Clip(run.Canon(t.V.V)))
	if werr != nil {
		if tr.End != run.EndError {
			if t.Fn == "setget" {
				// slice paths are not inverses by design; only defined paths are asserted
				c.Inconclusive("setget-on-undefined-path")
				return nil
			}
			return run.Failf("%s: the reference primitive fails (%v) but gojq returned %s", desc, werr, run.TraceDesc(tr))
		}
		c.Count("primitive_errors_agreed", 1)
		return nil
	}
	if tr.End != run.EndOK || len(tr.Vals) != 1 {
		return run.Failf("%s: expected %s, gojq: %s", desc, run.Clip(run.Canon(want)), run.TraceDesc(tr))
	}
	if t.Fn == "setget" && pathHasSlice(t.Paths.V) {
		return nil
	}
	if run.Canon(tr.Vals[0]) != run.Canon(want) {
		return run.Failf("%s: gojq %s, reference %s", desc, run.Clip(run.Canon(tr.Vals[0])), run.Clip(run.Canon(want)))
	}
	c.Nontrivial(t.Fn + run.Canon(t.V.V) + run.Canon(t.Paths.V) + run.Canon(t.X.V))
	return nil
})

func pathHasSlice(p any) bool {
	ps, _ := p.([]any)
	for _, k := range ps {
		if _, ok := k.(map[string]any); ok {
			return true
		}
	}
	return false
}

// ---- non-interference ----

type c02NonInt struct {
	P, F  string
	Input run.TV
	Alt   []run.TV
}

func isPrefix(a, b []any) bool {
	if len(a) > len(b) {
		return false
	}
	for i := range a {
		if run.Canon(a[i]) != run.Canon(b[i]) {
			return false
		}
	}
	return true
}

var kC02NonInt = run.NewKind("c02.non-interference", func(c *run.Ctx, t c02NonInt) *run.Fail {
	t.Input = preferInput(t.P, t.Input, t.Alt)
	in := run.DeepCopy(t.Input.V)
	pt := eval("[path("+t.P+")]", in)
	if pt.End != run.EndOK || len(pt.Vals) != 1 {
		c.Inconclusive("path-expression-fails")
		return nil
	}
	updated, _ := pt.Vals[0].([]any)
	for _, u := range updated {
		if pathHasSlice(u) {
			c.Inconclusive("slice-path")
			return nil
		}
		up, _ := u.([]any)
		for _, k := range up {
			if f, ok := k.(int); ok && f < 0 {
				c.Inconclusive("negative-index-aliases-a-positive-one")
				return nil
			}
			if _, ok := k.(float64); ok {
				c.Inconclusive("fractional-index")
				return nil
			}
		}
	}
	// f must be non-empty everywhere for the law to be stated simply: detect deletions by comparing path sets
	res := eval("("+t.P+") |= ("+t.F+")", in)
	if res.End != run.EndOK || len(res.Vals) != 1 {
		c.Inconclusive("update-fails")
		return nil
	}
	r := res.Vals[0]
	// deletions depend on the values the earlier paths have written: count them along the defining reduction itself
	if tr := eval("reduce path("+t.P+") as $p ([., 0]; .[0] as $v | [$v | getpath($p) | first("+t.F+")] as $o | if ($o | length) == 0 then [$v, .[1] + 1] else [($v | setpath($p; $o[0])), .[1]] end) | .[1]", in); tr.End != run.EndOK || len(tr.Vals) != 1 || run.Canon(tr.Vals[0]) != "0" {
		c.Inconclusive("update-deletes-a-path")
		return nil
	}
	// the law is stated for updates that do not delete: f must yield a value at every updated path and no
	// array on the way to an updated path may have changed its length (deletion shifts the siblings)
	for _, u := range updated {
		up, _ := u.([]any)
		if tr := evalVars("[getpath($p) | first("+t.F+")] | length", in, []string{"$p"}, []any{up}, defBudget); tr.End != run.EndOK || len(tr.Vals) != 1 || run.Canon(tr.Vals[0]) != "1" {
			c.Inconclusive("update-deletes-a-path")
			return nil
		}
		for k := 0; k < len(up); k++ {
			a, _ := model.Getpath(in, up[:k])
			b, _ := model.Getpath(r, up[:k])
			if x, ok := a.([]any); ok {
				if y, ok := b.([]any); !ok || len(x) != len(y) {
					c.Inconclusive("update-deletes-a-path")
					return nil
				}
			}
		}
	}
	checked := 0
	for _, q := range model.AllPaths(in) {
		related := false
		for _, u := range updated {
			up, _ := u.([]any)
			if isPrefix(up, q) || isPrefix(q, up) {
				related = true
				break
			}
		}
		if related {
			continue
		}
		before, err1 := model.Getpath(in, q)
		after, err2 := model.Getpath(r, q)
		if err1 != nil || err2 != nil || run.Canon(before) != run.Canon(after) {
			return run.Failf("(%s) |= (%s) on %s wrote through paths %s but changed what is stored under the unrelated path %s: before %s, after %s (%v)",
				t.P, t.F, run.Clip(run.Canon(in)), run.Clip(run.Canon(updated)), run.Canon(q), run.Clip(run.Canon(before)), run.Clip(run.Canon(after)), err2)
		}
		checked++
	}
	c.Count("unrelated_paths_checked", int64(checked))
	if checked > 0 && len(updated) > 0 {
		c.Nontrivial(t.P + "|" + t.F + "|" + run.Canon(in))
	}
	return nil
})

// ---- invalid path ----

type c02Invalid struct {
	Src   string
	C     string // the computed source inside Src
	Input run.TV
	// Orig/Comp: the case applies only if these two programs yield different values (a computed scalar that happens
	// to equal the value at the location IS that location)
	Orig, Comp string
	// EmptyAlias: the computed value is an empty array and the location holds an empty array too (known finding D56)
	EmptyAlias bool `json:",omitempty"`
}

var kC02Invalid = run.NewKind("c02.invalid-path", func(c *run.Ctx, t c02Invalid) *run.Fail {
	if t.C != "" {
		// the computed source must produce a value on this input, otherwise there is nothing to navigate from
		if pre := eval("[limit(1; "+t.C+")] | length", run.DeepCopy(t.Input.V)); pre.End != run.EndOK || len(pre.Vals) != 1 || run.Canon(pre.Vals[0]) != "1" {
			c.Inconclusive("computed-source-yields-nothing")
			return nil
		}
	}
	if t.Orig != "" {
		o, n := eval(t.Orig, run.DeepCopy(t.Input.V)), eval(t.Comp, run.DeepCopy(t.Input.V))
		if o.End != run.EndOK || n.End != run.EndOK || len(o.Vals) != 1 || len(n.Vals) != 1 || model.Cmp(o.Vals[0], n.Vals[0]) == 0 || run.Canon(o.Vals[0]) == run.Canon(n.Vals[0]) {
			c.Inconclusive("computed-scalar-equals-the-location's-value")
			return nil
		}
	}
	tr := eval(t.Src, run.DeepCopy(t.Input.V))
	c.Logf("gojq: %s", run.TraceDesc(tr))
	if tr.End == run.EndPanic {
		return run.Failf("%q panicked: %s", t.Src, tr.Panic)
	}
	if len(tr.Vals) > 0 || tr.End != run.EndError {
		f := run.Failf("%q on %s navigates from a computed value; it must raise an invalid-path error, got %s", t.Src, run.Clip(run.Canon(t.Input.V)), run.TraceDesc(tr))
		if t.EmptyAlias {
			f.Sig = "c02.invalid-path:empty-array-at-a-location-holding-an-empty-array"
		}
		return f
	}
	if !strings.Contains(tr.Err.Error(), "invalid path") {
		return run.Failf("%q on %s: expected an invalid-path error, got: %v", t.Src, run.Clip(run.Canon(t.Input.V)), tr.Err)
	}
	c.Nontrivial(t.Src + run.Canon(t.Input.V))
	return nil
})

func hostilePaths(r *rand.Rand, v any) []any {
	all := model.AllPaths(v)
	var out []any
	for _, p := range all {
		out = append(out, p)
	}
	keys := []any{"a", "b", "zz", 0, 1, -1, -5, 7, 1.5, nil, true, map[string]any{"start": 1, "end": nil}, map[string]any{"start": nil, "end": 1}, map[string]any{"start": -1, "end": 5},
		map[string]any{"start": 0.5, "end": 1.5}, map[string]any{"start": 2, "end": 1}, map[string]any{"start": 1}, map[string]any{}, []any{0}, "", 100, map[string]any{"start": "a", "end": 1},
		map[string]any{"start": -1.5, "end": nil}, map[string]any{"start": 0.5, "end": -0.5}, map[string]any{"start": -2.5, "end": -0.5}, map[string]any{"start": nil, "end": -1.5}}
	for i := 0; i < 12; i++ {
		n := r.IntN(4)
		p := make([]any, n)
		for j := range p {
			p[j] = keys[r.IntN(len(keys))]
		}
		out = append(out, p)
		if len(all) > 0 {
			base := all[r.IntN(len(all))]
			out = append(out, append(append([]any{}, base...), keys[r.IntN(len(keys))]))
		}
	}
	return out
}

func init() {
	run.Register(&run.Prop{
		ID: "C02", Level: "exploration", MinNontrivial: 3000,
		Rule:        "sub-checks, all on executions of the real library: alignment — the n-th output of path(p) navigated in the input by the harness' reference getpath equals the n-th output of p, and both lists end together; reduction — `p |= f`, `p = x`, `p op= x`, `p //= x`, `del(p)` against their defining reductions written with plain reduce/path/getpath/setpath/delpaths (first output of f, deletion when f is empty, deletions together at the end, paths generated against the original input); model — map_values, paths, paths(f), pick, to_entries, with_entries, tostream, del, path and the update operators against the reference interpreter evaluating builtin.jq's text over persistent reference primitives; primitive — getpath/setpath/delpaths and setpath|getpath on every path of a value plus hostile paths (negative, out of range, fractional, slices with null/negative/inverted bounds, wrong key types) against always-copying reference primitives; readwrite — 11 laws tying setpath, `=`, `|=`, `+=`, del and delpaths to what getpath finds through 31 hostile indices (fractional, negative and fractional, integral doubles) on arrays with distinct elements; non-interference — after a successful `p |= f` every path of the input unrelated to the updated paths still holds its value; invalid-path — navigation from a constructed container, a foreign scalar or a computed null (14 sources x 14 constant and computed keys, indices and slices x 10 contexts, on locations that do not hold null) inside path(...) or on the left of an update must raise an invalid-path error. Programs: all ordered pairs and sampled triples of 36 path atoms (ancestor/descendant/equal/slice-overlap in every order) x 21 update bodies (copy, duplicate, embed, slice, replace, compute, drop, multiply, fail) x inputs with shared and nested structure; PRNG-generated path-safe expressions. Non-trivial = distinct cases that produced an output (alignment: a path).",
		Assumptions: []string{"the reference primitives (harness/internal/model/paths.go) are a faithful reading of the manual (null-tolerant getpath, padding setpath, mark-then-sweep delpaths)", "caught/terminal internal errors are compared by class", "expressions whose result may or may not be the same container (`. + []`) and cross-representation scalar coincidences are not used for the invalid-path check"},
		Body: func(c *run.Ctx) {
			r := c.Rand("c02")
			inputs := c02Inputs()
			atoms := gen.PathAtoms()
			bodies := gen.UpdateBodies()
			pickIn := func() run.TV { return run.TV{V: inputs[r.IntN(len(inputs))]} }
			combo := func(ps ...string) string { return "(" + strings.Join(ps, ", ") + ")" }
			emit := func(p string) {
				p = "(" + p + ")"
				in := pickIn()
				alt := []run.TV{pickIn(), pickIn(), pickIn()}
				f := bodies[r.IntN(len(bodies))]
				switch r.IntN(10) {
				case 0, 1, 2, 3:
					kC02Pair.Do(c, c02Pair{L: p + " |= (" + f + ")", R: redModify(p, f), Input: in, What: "|=", P: p, Alt: alt})
				case 4:
					x := []string{"7", "[.]", ".a?", "(1, 2)", "empty", "{a: .}", ".[0]?", "null", "error(\"x\")", "[.[]?]"}[r.IntN(10)]
					kC02Pair.Do(c, c02Pair{L: p + " = (" + x + ")", R: redAssign(p, x), Input: in, What: "=", P: p, Alt: alt})
				case 5:
					op := []string{"+", "-", "*", "/", "%"}[r.IntN(5)]
					x := []string{"1", "2", "[1]", "\"s\"", "(1, 2)", "null", ".a?", "{a: 1}", "empty", "0"}[r.IntN(10)]
					kC02Pair.Do(c, c02Pair{L: p + " " + op + "= (" + x + ")", R: "(" + x + ") as $rx | " + p + " |= (. " + op + " $rx)", Input: in, What: op + "=", P: p, Alt: alt})
				case 6:
					x := []string{"1", "[1]", "(1, 2)", "null", ".a?", "empty"}[r.IntN(6)]
					kC02Pair.Do(c, c02Pair{L: p + " //= (" + x + ")", R: "(" + x + ") as $rx | " + p + " |= (. // $rx)", Input: in, What: "//=", P: p, Alt: alt})
				case 7:
					kC02Pair.Do(c, c02Pair{L: "del(" + p + ")", R: "delpaths([path(" + p + ")])", Input: in, What: "del", P: p, Alt: alt})
				case 8:
					kC02Align.Do(c, c02Align{P: p, Input: in, Alt: alt})
				default:
					kC02NonInt.Do(c, c02NonInt{P: p, F: f, Input: in, Alt: alt})
				}
			}
			// re-embedding through slices: the update function receives a slice of an array an earlier path has already
			// rewritten (and which the implementation may therefore modify in place) and returns an array of the same
			// length that contains that slice; every atom first, then a (nested) slice path, in every order
			{
				slicePaths := []string{".[1:][1:]", ".[1:][:1]", ".[:2][1:]", ".[0:2]", ".[1:]", ".[1:][1:][0:]", ".a[1:][1:]", ".[-2:][0:]", ".[1:][1:2]", ".[:3][1:][0:1]", ".[2:]", ".[0][1:]", ".[1:][0][0:]", ".a[1:]", ".[1:][1:][1:]"}
				embed := []string{". as $s | map($s)", "[., .]", "[.]", "[., 1, .]", ". as $s | map([$s])", ".[0] = .", "[.[1:], .]", ". as $s | [range(length) | {k: $s}]", ". as $s | .[-1] |= $s", "[., .][:length]"}
				ins := []any{
					[]any{[]any{3, 1, 2}, []any{3}, []any{1, 2}, []any{[]any{3, 1, 2}}},
					[]any{0, 1, 2, 3},
					map[string]any{"a": []any{0, []any{1}, 2, 3}, "b": 1},
					[]any{[]any{0, 1, 2}, []any{2, 3}, []any{4, 5}},
				}
				firsts := append(append([]string{}, atoms...), ".[3][0]", ".[-1][-1]", ".[2][0]", ".a[1][0]")
				for _, p1 := range firsts {
					for si, p2 := range slicePaths {
						for fi, f := range embed {
							if c.Quick() && (si+fi)%2 == 1 {
								continue
							}
							for oi, p := range []string{combo(p1, p2), combo(p2, p1), combo(p2, p2), combo(p1, p2, p2)} {
								in := ins[(si+fi+oi)%len(ins)]
								kC02Pair.Do(c, c02Pair{L: p + " |= (" + f + ")", R: redModify(p, f), Input: run.TV{V: in}, What: "|=", P: ""})
							}
						}
					}
				}
			}
			// re-embedding through negative indices: an earlier path updates below an array element, a later path
			// addresses that element itself counting from the end and its update function keeps what it was given more
			// than once, a still later path updates below it again
			{
				elems := []string{".[-1]", ".[-2]", ".a[-1]", ".[-1][-1]", ".[-1:][0]", ".[-1].b", ".[0]", ".a[0]"}
				belows := []string{".[-1].b.c", ".[0].b.c", ".[-1].b", ".[-1].d[0]", ".[-1].d[-1]", ".[-2].b.c", ".a[-1].b.c", ".a[0].b.c", ".[-1][-1].b.c", ".[-1].b.c, .[-1].d[-1]", ".[1].b.c"}
				embed := []string{"if type == \"number\" then . + 1 else {b: .b, y: .b} end", "if type == \"number\" then . + 1 else [., .] end", "if type == \"number\" then . + 1 else . as $o | {b: $o.b, y: $o, d: $o.d} end",
					"if type == \"number\" then . + 1 elif type == \"array\" then [.[-1], .[-1], .] else {b: .b, d: .d, y: [.b, .d]} end", "if type == \"number\" then . + 1 else (.y = .b | .z = .) end", "if type == \"number\" then . + 1 else with_entries(.) + {y: .b} end"}
				ins := []any{
					[]any{map[string]any{"b": map[string]any{"c": 1}, "d": []any{1, 2}}},
					[]any{0, map[string]any{"b": map[string]any{"c": 1}, "d": []any{1, 2}}},
					map[string]any{"a": []any{map[string]any{"b": map[string]any{"c": 1}, "d": []any{5}}}},
					[]any{map[string]any{"b": map[string]any{"c": 1}, "d": []any{3}}, []any{0, map[string]any{"b": map[string]any{"c": 2}, "d": []any{1, 2}}}},
					[]any{map[string]any{"b": map[string]any{"c": 1}, "d": []any{1}}, map[string]any{"b": map[string]any{"c": 7}, "d": []any{8, 9}}},
				}
				for ei, pe := range elems {
					for bi, pb := range belows {
						for fi, f := range embed {
							if c.Quick() && (ei+bi+fi)%2 == 1 {
								continue
							}
							for oi, p := range []string{combo(pb, pe, pb), combo(pe, pb), combo(pb, pe), combo(pb, pe, pb, pe, pb)} {
								in := ins[(ei+bi+fi+oi)%len(ins)]
								kC02Pair.Do(c, c02Pair{L: p + " |= (" + f + ")", R: redModify(p, f), Input: run.TV{V: in}, What: "|=", P: ""})
							}
						}
					}
				}
			}
			// interleaved path expressions: a path expression with generators inside value-mode sub-expressions is
			// suspended while its consumer runs another path expression, then resumed; the result must be what running
			// the outer expression to completion first gives
			{
				outers := []string{".a | select((true, true))", ".[]? | select((.b?, .c?) > 0)", ".[]? | select(.tags[]? == \"x\") | .n", ".[(0, 1)]?", ".[]? | if (true, false) then .n? else .tags? end", ".a?, .e?", ".[]? | .n? | select((1, 2) > 0)",
					"first(.[]? | select((true, true)))", ".[]? | limit((1, 2); .tags[]?)", ".. | select(type == (\"object\", \"array\"))", ".[]? | select([.tags[]?] | length > (0, 1))", "(.a?, .[0]?) | select((1, 2, 3) > 1)", ".[]? | .[(\"n\", \"tags\")]?",
					".[]? | select(any(.tags[]?; . == \"x\")) | .n.c?", "(.[]? | select((.n?, .tags?))) , .a?", ".. | select((type == \"number\"), (type == \"string\"))"}
				inners := []string{".e?", ".[0]?.n?.c?", "..", ".[]? | .tags?[0]?", ".a?.b?", ".[1:]?", ".[]? | select(.n?)", ".a?, .e?, .[]?"}
				ins := []any{map[string]any{"a": 1, "e": 1}, []any{map[string]any{"tags": []any{"x", "x"}, "n": map[string]any{"c": 0}, "b": 1, "c": 2}, map[string]any{"tags": []any{"x"}, "n": map[string]any{"c": 0}, "b": 0, "c": 3}},
					map[string]any{"a": map[string]any{"b": []any{1, 2}}, "e": []any{map[string]any{"n": 1, "tags": []any{"y"}}}}, []any{[]any{1, 2}, []any{3}, "s"}}
				for oi, o := range outers {
					for ii, inn := range inners {
						if c.Quick() && (oi+ii)%2 == 1 {
							continue
						}
						obs := "(try [path(" + inn + ")] catch \"E\"), (try (del(" + inn + ") | tojson | length) catch \"E\"), (try ((" + inn + ") |= . | tojson | length) catch \"E\")"
						L := "[path(" + o + ") as $p | [$p, " + obs + "]]"
						R := "[path(" + o + ")] as $ps | [" + obs + "] as $obs | [$ps[] | [.] + $obs]"
						for _, in := range ins {
							kC02Pair.Do(c, c02Pair{L: L, R: R, Input: run.TV{V: in}, What: "interleaved path expressions", P: ""})
						}
						// the same with an update as the consumer
						L2 := "[(" + o + ") |= (try ((" + inn + ") |= .) catch .)]"
						kC02Pair.Do(c, c02Pair{L: L2, R: "[" + redModify("("+o+")", "try (("+inn+") |= .) catch .") + "]", Input: run.TV{V: ins[(oi+ii)%len(ins)]}, What: "|= with an update inside", P: ""})
					}
				}
			}
			// plain assignment through element, slice and index paths in every order, with right-hand sides shorter,
			// equal and longer than the slices (an array updated in place must not keep a stale tail or lose elements)
			{
				ps := []string{".[0]", ".[1]", ".[4]", ".[5]", ".[-1]", ".[1:4]", ".[:2]", ".[2:]", ".[1:3]", ".[3]", ".q[0]", ".q[1:4]", ".q[4]", ".[7]"}
				xs := []string{"[]", "[9]", "[8, 9]", "[7, 8, 9, 9, 9]", "null", ".[0]"}
				ins := []any{[]any{1, 2, 3, 4, 5}, []any{"a", "b", "c", "d", "e", "f"}, map[string]any{"q": []any{"a", "b", "c", "d", "e"}}}
				for i, p1 := range ps {
					for j, p2 := range ps {
						for k, p3 := range ps {
							if c.Quick() && (i+j+k)%3 != 0 {
								continue
							}
							x := xs[(i*5+j*3+k)%len(xs)]
							in := ins[(i+j+k)%len(ins)]
							p := combo(p1, p2, p3)
							kC02Pair.Do(c, c02Pair{L: p + " = (" + x + ")", R: redAssign(p, x), Input: run.TV{V: in}, What: "=", P: ""})
						}
					}
				}
			}
			// all ordered pairs of atoms, every sub-check family sampled per pair
			reps := c.N(6, 24)
			for _, a := range atoms {
				for _, b := range atoms {
					for k := 0; k < reps; k++ {
						emit(combo(a, b))
					}
				}
				for k := 0; k < 4*reps; k++ {
					emit(a)
				}
			}
			// sampled triples
			for i, n := 0, c.N(60000, 1000000); i < n; i++ {
				emit(combo(atoms[r.IntN(len(atoms))], atoms[r.IntN(len(atoms))], atoms[r.IntN(len(atoms))]))
			}
			// generated path-safe expressions
			for i, n := 0, c.N(60000, 800000); i < n; i++ {
				g := &gen.G1{R: r}
				emit(g.PathProgram(1 + r.IntN(3)))
			}
			// alignment and model check on every atom x input
			for _, a := range atoms {
				for _, in := range inputs {
					kC02Align.Do(c, c02Align{P: a, Input: run.TV{V: in}})
				}
			}
			// jq-defined path functions against the reference interpreter
			for i, n := 0, c.N(20000, 300000); i < n; i++ {
				g := &gen.G1{R: r}
				p := g.PathProgram(r.IntN(3))
				f := bodies[r.IntN(len(bodies))]
				src := []string{"[paths]", "[paths(type == \"number\")]", "[paths(" + g.PathProgram(0) + " != null)]?", "pick(" + p + ")", "to_entries", "with_entries(.value |= (" + f + "))", "[tostream]", "map_values(" + f + ")", "del(" + p + ")",
					"[path(" + p + ")]", "(" + p + ") |= (" + f + ")", "(" + p + ") = (" + f + ")", "[leaf_paths]?", "delpaths([path(" + p + ")])", "fromstream(tostream)", "[getpath(path(" + p + "))]", "to_entries | from_entries", "(" + p + ") += 1", "[.. | select(type == \"number\")] | length", "walk(" + f + ")?"}[r.IntN(20)]
				kC01x.Do(c, c01Case{Src: src, Input: pickIn()})
			}
			// one array stored under two paths (or held in a variable), then extended, updated or deleted from through each: what
			// is written through one path must not show under the other
			for _, src := range c02TwoPaths() {
				sp := func(xs ...any) []any { return append(make([]any, 0, len(xs)+5), xs...) } // spare capacity, as a decoder leaves it
				for _, in := range []any{map[string]any{"a": sp(0, 1, 2)}, map[string]any{"a": sp(0, 1, 2, 3, 4), "c": 1}, sp(sp(0, 1, 2)), map[string]any{"a": map[string]any{"k": sp(7, 8, 9)}}} {
					kC01x.Do(c, c01Case{Src: src, Input: run.TV{V: in}})
				}
			}
			// value operands (bindings, destructuring, indices, conditions, arguments) in the middle of path expressions
			for _, src := range gen.PathBindPrograms() {
				for _, in := range gen.PathBindInputs() {
					kC01x.Do(c, c01Case{Src: src, Input: run.TV{V: in}})
				}
			}
			// primitives
			for i, n := 0, c.N(1500, 30000); i < n; i++ {
				var v any
				if i < len(inputs)*4 {
					v = inputs[i%len(inputs)]
				} else {
					v = gen.RandValue(r, 3)
				}
				ps := hostilePaths(r, v)
				for _, p := range ps {
					x := []any{9, nil, []any{1}, map[string]any{"z": 1}, "s", []any{}}[r.IntN(6)]
					kC02Prim.Do(c, c02Prim{Fn: "getpath", V: run.TV{V: v}, Paths: run.TV{V: p}})
					kC02Prim.Do(c, c02Prim{Fn: "setpath", V: run.TV{V: v}, Paths: run.TV{V: p}, X: run.TV{V: x}})
					kC02Prim.Do(c, c02Prim{Fn: "setget", V: run.TV{V: v}, Paths: run.TV{V: p}, X: run.TV{V: x}})
				}
				// delpaths with overlapping, unordered, duplicate paths
				for k := 0; k < 6; k++ {
					m := r.IntN(5)
					var set []any
					for j := 0; j < m; j++ {
						set = append(set, ps[r.IntN(len(ps))])
					}
					if set == nil {
						set = []any{}
					}
					kC02Prim.Do(c, c02Prim{Fn: "delpaths", V: run.TV{V: v}, Paths: run.TV{V: set}})
				}
			}
			// invalid path
			sources := []struct{ c, nav string }{
				{"[.]", ".[0]"}, {"{a: .}", ".a"}, {"[.[]?]", ".[0]"}, {"map(.)?", ".[0]"}, {"(keys? // [0])", ".[0]"}, {"(to_entries? // [0])", ".[0]"}, {"tojson", ".[0:1]"}, {"((. + [1])? // [1])", ".[0]"}, {"[1, 2]", ".[1]"}, {"{\"a\": 1}", ".a"},
				{"[.]", ".[]"}, {"{a: .}", ".[]"}, {"[[1]]", ".[0][0]"}, {"{a: {b: 1}}", ".a.b"}, {"[.]", ".[0:1]"}, {"\"zzz\"", ".[0:1]"}, {"[., .]", "first"}, {"[.]", "last"}, {"{a: [.]}", ".a[0]"}, {"[1, [2]]", ".[1][0]"}, {"[.]", "getpath([0])"}, {"{a: .}", "getpath([\"a\"])"},
				// empty constructed containers: there is nothing to iterate, but the navigation is just as invalid
				{"[]", ".[]"}, {"{}", ".[]"}, {"[empty]", ".[]"}, {"[]", ".[0]"}, {"{}", ".a"}, {"[]", ".[1:]"}, {"[.[]? | select(false)]", ".[]"}, {"(map(select(false))? // [])", ".[]"}, {"({} | with_entries(.))", ".[]"},
				{"[[]]", ".[0][]"}, {"{a: []}", ".a[]"}, {"{a: {}}", ".a[]"}, {"[]", "first(.[])"}, {"[]", ".[]?, .[]"}, {"(. as $x | [])", ".[]"}, {"[limit(0; 1)]", ".[]"},
			}
			// a scalar computed from the value at a location, different from it by as little as possible (integers
			// beyond 2^53 that share their float64, in every representation), is not that location
			{
				big1, _ := new(big.Int).SetString("100000000000000000000000000001", 10)
				scal := []any{9007199254740993, json.Number("9007199254740993"), new(big.Int).SetInt64(9007199254740993), big1, json.Number("100000000000000000000000000001"), 18014398509481985, 1, 1.5, json.Number("1.0"), "a", true, nil,
					json.Number("9223372036854775807"), 4611686018427387905, json.Number("-9007199254740993"), json.Number("1e400")}
				for i := range scal {
					var ops []string
					switch scal[i].(type) {
					case string:
						ops = []string{". + \"x\"", "ascii_downcase + \"b\""}
					case bool, nil:
						ops = []string{"not", "[.] | length"}
					default:
						ops = []string{". + 1", ". - 1", ". + 2 - 1", "-(.)|-(.)|. + 1", ". * 1 + 1", "tostring", "[.] | length"}
					}
					for _, op := range ops {
						for _, ctx := range []string{"path(.[%d] | %s)", "(.[%d] | %s) |= 1", "(.[%d] | %s) = 1", "del(.[%d] | %s)", "path(.[%d] | %s | .)", "path(first(.[%d] | %s))", "path(.[%d] as $v | .[%d] | %s)"} {
							src := fmt.Sprintf(ctx, i, op)
							if strings.Count(ctx, "%") == 3 {
								src = fmt.Sprintf(ctx, i, i, op)
							}
							kC02Invalid.Do(c, c02Invalid{Src: src, C: "", Input: run.TV{V: scal}, Orig: fmt.Sprintf(".[%d]", i), Comp: fmt.Sprintf(".[%d] | %s", i, op)})
						}
					}
				}
			}
			ctxs := []string{"path(%s | %s)", "[paths] | length | path(%s | %s)?, (%s | %s) |= 1", "(%s | %s) |= 1", "(%s | %s) = 1", "del(%s | %s)", "(%s | %s) += 1", "[path(.. | %s | %s)]", "path(.[]? | %s | %s)", "path(first(%s) | %s)", "path(if true then %s else . end | %s)", "try ((%s | %s) |= 1) catch error", "path((., %s) | %s) | select(length > 5)"}
			for _, s := range sources {
				for ci, ctx := range ctxs {
					if ci == 1 || ci == 11 {
						continue
					}
					src := fmt.Sprintf(ctx, s.c, s.nav)
					for _, in := range []any{inputs[0], inputs[1], inputs[3], 1, nil, "ab"} {
						if ci == 6 || ci == 7 { // the source runs on sub-values: use input-independent sources only
							if strings.ContainsAny(s.c, ".") {
								continue
							}
							if _, ok := in.([]any); !ok && ci == 7 {
								continue
							}
						}
						kC02Invalid.Do(c, c02Invalid{Src: src, C: s.c, Input: run.TV{V: in}})
					}
				}
			}
			// an empty array that was computed (or reached under another path) at a location that holds an empty array
			// itself: all empty arrays without capacity are one address to the interpreter (known finding D56)
			for _, src := range []string{"path(.a | [] | .[0])", "(.a | [] | .[0]) = 1", "(.a as $x | .b | $x | .[0]) = 1", "path(.a as $x | .b | $x | .[0])", "(.a | map(.) | .[0]) = 1", "(.a | [.[]] | .[1]) |= 7", "path(.a | ([] | .[0]), .[0])", "(.b | (.[1:] | .[0])) = 1"[:0] + "(.a | [empty] | .[2]) = 1",
				"del(.a | [] | .[0])", "(.a | [] | .[0]) += 1", "path(.a | (. - .) | .[0])"} {
				for _, in := range []any{map[string]any{"a": []any{}, "b": []any{}}, map[string]any{"a": []any{}, "b": []any{}, "c": 1}} {
					kC02Invalid.Do(c, c02Invalid{Src: src, C: "", Input: run.TV{V: in}, EmptyAlias: true})
				}
			}
			// reading and writing through hostile indices address the same element
			for _, t := range c02RWCases() {
				kC02RW.Do(c, t)
			}
			// a computed null is not the location either, unless the location holds null itself: constant keys, indices
			// and slices (the directly compiled forms) and computed ones
			nulls := []string{"null", "(null | .)", "(. as $x | null)", "(if true then null else . end)", "(.nokey? // null)", "(null as $x | $x)", "([null] | .[0])"[:0] + "(1 | not | not | null)", "(null, null)", "(try error(null) catch .)", "(label $l | null)", "first(null, 1)", "(reduce empty as $x (null; .))", "({} | .a)"[:0] + "(\"null\" | fromjson)"}
			nullNavs := []string{".x", ".[0]", ".[1:]", ".[\"k\"]", ".x.y", ".[0][1]", ".[:1]", ".[\"x\" + \"\"]", ".[1 - 1]", ".[(1, 0)]", "getpath([\"x\"])", ".[-1]", ".x[0]", ".[0:1][0]"}
			for _, src := range nulls {
				for _, nav := range nullNavs {
					for ci, ctx := range ctxs {
						if ci == 1 || ci == 11 {
							continue
						}
						for ii, in := range []any{map[string]any{"x": 1, "a": false, "k": []any{3}}, []any{1, []any{2}, "s"}, 1, "ab", true} {
							if _, ok := in.([]any); !ok && ci == 7 {
								continue
							}
							if c.Quick() && (ci+ii)%2 != 0 {
								continue
							}
							kC02Invalid.Do(c, c02Invalid{Src: fmt.Sprintf(ctx, src, nav), C: src, Input: run.TV{V: in}})
						}
					}
				}
			}
		},
	})
}

// kC01x reuses the C01 decision procedure (gojq vs reference interpreter) for C02's programs.
var kC01x = run.NewKind("c02.model", func(c *run.Ctx, t c01Case) *run.Fail {
	return c01Decide(c, t.Src, t.Input.V, "C02")
})

func c02TwoPaths() []string {
	copies := []string{".b = .a", ".b = (.a // .[0])", ". as $s | .b = ($s.a // $s[0])", ".b = [.a[]?, .[0][]?]", ".b = (.a // .[0] | .[0:])", "{a: (.a // .[0]), b: (.a // .[0])}"}
	writes := [][2]string{{".a += [\"A\"]", ".b += [\"B\"]"}, {".a |= . + [\"A\"]", ".b |= . + [\"B\"]"}, {".a[length] = \"A\"", ".b[length] = \"B\""}, {".a |= setpath([length]; \"A\")", ".b |= setpath([length]; \"B\")"},
		{".a[0] = \"A\"", ".b[0] = \"B\""}, {"del(.a[0])", "del(.b[1])"}, {".a[1:] = [\"A\"]", ".b[:1] = [\"B\"]"}, {".a += [\"A\"]", ".b |= .[:2] + [\"B\"]"}, {".a |= map(. + 1)?", ".b += [\"B\"]"}, {".a += [\"A\", \"A2\"]", ".b += [\"B\"]"}}
	var out []string
	for _, cp := range copies {
		for _, w := range writes {
			out = append(out, "try ("+cp+" | "+w[0]+" | "+w[1]+") catch \"E\"", "try ("+cp+" | "+w[1]+" | "+w[0]+" | [.a, .b]) catch \"E\"")
		}
	}
	for _, w := range writes {
		out = append(out, "try ((.a // .[0]) as $x | {a: $x, b: $x} | "+w[0]+" | "+w[1]+" | [., $x]) catch \"E\"", "try ([(.a // .[0]) | setpath([length]; \"x\", \"y\")] | map(.[-1])) catch \"E\"", "try ((.a // .[0]) as $x | [($x[:2] | setpath([2]; \"x\")), $x]) catch \"E\"")
	}
	return out
}
