package mon

import (
	"fmt"
	"math/rand/v2"
	"path"
	"path/filepath"
	"sort"
	"strings"
)

// Generator of C18 module trees. Small pools on purpose: clashes between the
// importer, a module and its transitive modules must be frequent.
var (
	c18FuncNames   = []string{"f", "g", "h", "k", "_p", "F2"}
	c18Aliases     = []string{"a", "b", "c", "m"}
	c18DataAliases = []string{"d", "e", "a"}
	c18ModNames    = []string{"m1", "m2", "m3", "m4", "x/m5", "m6", "y/z/m7"}
	c18DataNames   = []string{"d1", "d2", "x/d3"}
	c18Docs        = []string{`1`, `"s"`, `null`, `[1,[2]]`, `{"k":[true,{"z":null}]}`, `1.5`, `100000000000000000000`, `-7`, `{}`, `"éx"`, `[]`, `false`}
	c18Metas       = []c18KV{{"name", `"mod"`}, {"version", `2`}, {"tags", `["x",{"y":null}]`}, {"deep", `{"a":[1,1.5,true]}`}, {"description", `"a b"`}}
)

type c18Name struct {
	name  string
	level int
	data  bool
	rels  []string
}

type c18G struct {
	r      *rand.Rand
	cs     *c18Case
	base   map[string]string // Rel -> directory under which the module name resolves
	names  []*c18Name
	keys   []c18Call // every binding seen in any environment (probe material)
	keyset map[string]bool
	level  map[string]int
}

func (g *c18G) pick(xs []string) string { return xs[g.r.IntN(len(xs))] }

func (g *c18G) noteKeys(env *c18Env) {
	for _, list := range [][]c18Bind{env.funcs, env.vars} {
		for _, b := range list {
			if !g.keyset[b.key] {
				g.keyset[b.key] = true
				g.keys = append(g.keys, b.call)
			}
		}
	}
}

// relSpelling spells the path from directory `from` to directory `to`.
func (g *c18G) relSpelling(from, to string) string {
	rel, err := filepath.Rel(from, to)
	if err != nil {
		return ""
	}
	rel = filepath.ToSlash(rel)
	switch {
	case rel == ".":
		return g.pick([]string{"./", ".", "./."})
	case strings.HasPrefix(rel, ".."):
	case g.r.IntN(2) == 0:
		rel = "./" + rel
	}
	if g.r.IntN(5) == 0 {
		rel += "/"
	}
	return rel
}

// genFile fills the imports and definitions of f. Candidates for import are
// names of a lower level. Calls are drawn from the names the model says are
// visible at that point, so the base tree compiles by the model.
func (g *c18G) genFile(f *c18File, level int) {
	r, cs := g.r, g.cs
	isMain := f.Rel == ""
	allowSearch := !(isMain && cs.Mode == "lib")
	var cands []*c18Name
	for _, n := range g.names {
		if n.level < level {
			cands = append(cands, n)
		}
	}
	nImp := 1 + r.IntN(3)
	switch {
	case level == 1:
		nImp = r.IntN(2)
	case isMain:
		nImp = 1 + r.IntN(4)
	case f.Rel == "home/.jq":
		nImp = r.IntN(3)
	}
	usedVar := map[string]bool{}
	usedAlias := map[string]string{}
	for i := 0; i < nImp && len(cands) > 0; i++ {
		tgt := cands[r.IntN(len(cands))]
		for j := 0; j < 1 && tgt.data && level > 1; j++ {
			tgt = cands[r.IntN(len(cands))] // prefer module targets over data
		}
		im := c18Imp{P: tgt.name, K: "import"}
		ext := ".jq"
		switch {
		case tgt.data:
			im.K, ext = "data", ".json"
			im.As = g.pick(c18DataAliases)
			if usedVar[im.As] {
				continue
			}
		case r.IntN(100) < 35:
			im.K = "include"
		default:
			im.As = g.pick(c18Aliases)
			if o, ok := usedAlias[im.As]; ok && o != tgt.name && r.IntN(20) > 0 {
				continue
			}
		}
		hit, _, _ := cs.resolve(im.P, ext, "")
		if hit != nil {
			if allowSearch && r.IntN(100) < 15 {
				s := g.relSpelling(f.dir(), g.base[hit.Rel])
				if h2, _, _ := cs.resolve(im.P, ext, path.Join(f.dir(), s)); s != "" && h2 == hit {
					im.Search = s
				}
			}
		} else {
			if !allowSearch || len(tgt.rels) == 0 {
				continue
			}
			s := g.relSpelling(f.dir(), g.base[tgt.rels[r.IntN(len(tgt.rels))]])
			if s == "" {
				continue
			}
			if h2, _, _ := cs.resolve(im.P, ext, path.Join(f.dir(), s)); h2 == nil {
				continue
			}
			im.Search = s
		}
		if r.IntN(8) == 0 {
			im.Tag = fmt.Sprintf("t%d", r.IntN(3))
		}
		im.Style = r.IntN(4)
		if r.IntN(6) == 0 {
			im.Style |= 4
		}
		if im.K == "data" {
			usedVar[im.As] = true
		} else if im.K == "import" {
			usedAlias[im.As] = tgt.name
		}
		f.Imps = append(f.Imps, im)
	}
	if !isMain && r.IntN(100) < 30 {
		perm := r.Perm(len(c18Metas))
		for _, j := range perm[:1+r.IntN(3)] {
			f.Meta = append(f.Meta, c18Metas[j])
		}
		f.MetaQ = r.IntN(2) == 0
	}
	m := newC18Model(cs, nil)
	env := cs.newEnv()
	if isMain && cs.Home != nil {
		m.file(cs.Home, env, 1)
	}
	m.imports(f, env, 0)
	if m.fail != "" {
		f.Imps = nil
		env = cs.newEnv()
	}
	nDefs := 1 + r.IntN(4)
	if isMain {
		nDefs = r.IntN(3)
	}
	for i := 0; i < nDefs; i++ {
		d := c18Def{N: g.pick(c18FuncNames), A: []int{0, 0, 0, 0, 0, 0, 1, 1, 1, 2, 2, 3, 9, 10, 11, 12}[r.IntN(16)]}
		size := 1
		nc := []int{0, 0, 1, 1, 2, 3}[r.IntN(6)]
		for j := 0; j < nc; j++ {
			nf, nv := len(env.funcs), len(env.vars)
			if nf+nv == 0 {
				break
			}
			var b c18Bind
			if x := r.IntN(nf + nv); x < nf {
				b = env.funcs[x]
			} else {
				b = env.vars[x-nf]
			}
			// the call must resolve to this very binding's key holder and not to itself
			if b.call.V == 0 && b.call.Q == "" && b.call.N == d.N && b.call.A == d.A {
				continue
			}
			cur := env.lookup(b.call)
			if cur == nil || cur.amb {
				continue
			}
			if s := c18Size(cur.val); size+s <= 40 {
				size += s
				d.Calls = append(d.Calls, b.call)
			}
		}
		d.UseP = d.A > 0 && r.IntN(2) == 0
		m.def(f, len(f.Defs), d, env)
		f.Defs = append(f.Defs, d)
	}
	g.noteKeys(env)
}

func (g *c18G) place(n *c18Name, bases []string, ext string) []string {
	r := g.r
	np := []int{1, 1, 1, 1, 1, 1, 2, 2, 2, 3}[r.IntN(10)]
	var rels []string
	for i := 0; i < np; i++ {
		b := bases[r.IntN(len(bases))]
		if i == 0 && r.IntN(10) < 7 {
			if l := g.cs.Libs[r.IntN(len(g.cs.Libs))]; l != "nodir" && !(l == "home/.jq" && g.cs.Home != nil) {
				b = l
			}
		}
		rel := path.Join(b, n.name+ext)
		if r.IntN(100) < 35 {
			rel = path.Join(b, n.name, path.Base(n.name)+ext)
		}
		dup := false
		for _, o := range rels {
			dup = dup || o == rel
		}
		if !dup {
			rels = append(rels, rel)
			g.base[rel] = b
		}
	}
	return rels
}

func c18Gen(seed uint64) c18Case {
	r := rand.New(rand.NewPCG(seed, 0xc18))
	cs := &c18Case{}
	g := &c18G{r: r, cs: cs, base: map[string]string{}, keyset: map[string]bool{}, level: map[string]int{}}
	switch x := r.IntN(100); {
	case x < 80:
		cs.Mode = "lib"
	case x < 88:
		cs.Mode = "cli"
		if r.IntN(3) == 0 {
			cs.Mode = "clif" // the main program is a file given with -f, the command runs in another directory
		}
	case x < 94:
		cs.Mode = "clirel"
	case x < 97:
		cs.Mode = "home"
	default:
		cs.Mode = "homeL"
	}
	bases := []string{"p0", "p1", "p2", "p0/sub", "p1/in/lib"}
	perm := r.Perm(3)
	for _, i := range perm[:1+r.IntN(3)] {
		cs.Libs = append(cs.Libs, fmt.Sprintf("p%d", i))
	}
	if r.IntN(8) == 0 {
		i := r.IntN(len(cs.Libs) + 1)
		cs.Libs = append(cs.Libs[:i:i], append([]string{"nodir"}, cs.Libs[i:]...)...)
	}
	// global variables: mostly names that data imports also use, so that an importer's data shadows a global
	if r.IntN(3) == 0 {
		pool := append(append([]string{}, c18DataAliases...), "gv")
		for _, i := range r.Perm(len(pool))[:1+r.IntN(2)] {
			cs.Globals = append(cs.Globals, pool[i])
		}
		cs.DupGlobals = r.IntN(3) == 0
	}
	homeFile := false
	switch cs.Mode {
	case "cli", "clirel", "clif":
		bases = append(bases, "cwd/loc", "cwd")
	case "home":
		cs.Libs = []string{"home/.jq"}
		if r.IntN(2) == 0 {
			bases = []string{"home/.jq", "home/.jq", "home/.jq", "p0", "cwd/loc", "home/.jq/sub"}
		} else {
			homeFile = true
			bases = append(bases, "home/hlib", "cwd", "cwd/loc")
		}
	case "homeL":
		i := r.IntN(len(cs.Libs) + 1)
		cs.Libs = append(cs.Libs[:i:i], append([]string{"home/.jq"}, cs.Libs[i:]...)...)
		homeFile = r.IntN(5) != 0
		bases = append(bases, "home/hlib")
	}
	if homeFile {
		cs.Home = &c18File{Rel: "home/.jq"} // placeholder so that nothing is placed below it
	}

	// names and levels
	dperm := r.Perm(len(c18DataNames))
	for _, i := range dperm[:r.IntN(3)] {
		g.names = append(g.names, &c18Name{name: c18DataNames[i], data: true})
	}
	mperm := r.Perm(len(c18ModNames))
	nm := 2 + r.IntN(5)
	var mods []*c18Name
	for j, i := range mperm[:nm] {
		lv := 1 + r.IntN(3)
		if j == 0 {
			lv = 1
		}
		mods = append(mods, &c18Name{name: c18ModNames[i], level: lv})
	}
	sort.SliceStable(mods, func(i, j int) bool { return mods[i].level < mods[j].level })
	g.names = append(g.names, mods...)
	for _, n := range g.names {
		if n.data {
			n.rels = g.place(n, bases, ".json")
			for _, rel := range n.rels {
				f := c18File{Rel: rel, Data: true, Sep: g.pick([]string{"\n", " ", "\n\n", "\t"})}
				for k := r.IntN(4); k > 0; k-- {
					f.Docs = append(f.Docs, g.pick(c18Docs))
				}
				if r.IntN(3) > 0 {
					f.Docs = append(f.Docs, fmt.Sprintf("%q", rel))
				}
				if f.Docs == nil {
					f.Docs = []string{}
				}
				cs.Files = append(cs.Files, f)
			}
			continue
		}
		n.rels = g.place(n, bases, ".jq")
		cs.Mods = append(cs.Mods, n.name)
		for _, rel := range n.rels {
			f := c18File{Rel: rel}
			// generate against the files that exist so far (lower levels and
			// earlier placements); the file itself is added afterwards
			g.genFile(&f, n.level)
			g.level[rel] = n.level
			cs.Files = append(cs.Files, f)
		}
	}
	cs.Mods = append(cs.Mods, "nomod")
	if cs.Home != nil {
		g.genFile(cs.Home, 4)
	}
	g.genFile(&cs.Main, 4)

	// variants
	var modFiles []string
	for i := range cs.Files {
		if !cs.Files[i].Data {
			modFiles = append(modFiles, cs.Files[i].Rel)
		}
	}
	aliases := append([]string{"", "", ""}, c18Aliases...)
	nv := 5 + r.IntN(6)
	for i := 0; i < nv; i++ {
		v := c18Var{}
		switch x := r.IntN(100); {
		case x < 40 || len(modFiles) == 0:
		case x < 46 && cs.Home != nil:
			v.File = cs.Home.Rel
		default:
			v.File = modFiles[r.IntN(len(modFiles))]
		}
		if r.IntN(100) < 8 {
			im := c18Imp{K: "import", P: "nomod", As: "z"}
			lv := 4
			if l, ok := g.level[v.File]; ok {
				lv = l
			}
			// only names of a lower level: the tree must stay acyclic
			if n := g.names[r.IntN(len(g.names))]; n.level < lv && r.IntN(2) == 0 {
				im.P = n.name
				if n.data {
					im.K = "data"
				} else if r.IntN(3) == 0 {
					im.K, im.As = "include", ""
				}
			}
			v.Imp = &im
		} else {
			var k c18Call
			if len(g.keys) > 0 && r.IntN(100) < 65 {
				k = g.keys[r.IntN(len(g.keys))]
				if k.V == 0 && r.IntN(3) == 0 {
					k.Q = aliases[r.IntN(len(aliases))] // same name under another (or no) alias
				}
			} else if r.IntN(4) == 0 {
				k = c18Call{N: g.pick(c18DataAliases), V: 1 + r.IntN(2)}
			} else {
				k = c18Call{Q: aliases[r.IntN(len(aliases))], N: g.pick(c18FuncNames), A: []int{0, 1, 2, 0, 1, 2, 3, 10}[r.IntN(8)]}
			}
			v.Call = &k
		}
		cs.Vars = append(cs.Vars, v)
	}
	return *cs
}
