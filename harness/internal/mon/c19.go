package mon

import (
	"fmt"
	"math/rand/v2"
	"os"
	"path/filepath"
	"sort"
	"strconv"
	"strings"
	"sync"
	"syscall"
	"time"

	"verif/harness/internal/gen"
	"verif/harness/internal/run"
)

// ---- C19: no ambient authority by default; each option grants exactly its own ----
//
// Files: c19.go (program generator, ambient differential, denied capabilities,
// registration), c19_helper.go + c19_strace.go (syscall monitor),
// c19_grants.go (WithVariables / WithInputIter / WithEnvironLoader),
// c19_cbdef.go (Go callback ≡ jq definition).

// ---------------------------------------------------------------------------
// the builtin list, taken at run time from the `builtins` builtin
// ---------------------------------------------------------------------------

type c19NA struct {
	Name  string
	Arity int
}

var c19BuiltinList = sync.OnceValue(func() []c19NA {
	tr := eval("builtins", nil)
	if tr.End != run.EndOK || len(tr.Vals) != 1 {
		return nil
	}
	xs, _ := tr.Vals[0].([]any)
	var out []c19NA
	for _, x := range xs {
		s, _ := x.(string)
		i := strings.LastIndexByte(s, '/')
		if i <= 0 {
			continue
		}
		n, err := strconv.Atoi(s[i+1:])
		if err != nil {
			continue
		}
		out = append(out, c19NA{s[:i], n})
	}
	sort.Slice(out, func(i, j int) bool {
		return out[i].Name < out[j].Name || out[i].Name == out[j].Name && out[i].Arity < out[j].Arity
	})
	return out
})

// c19Clock: builtins whose result the statement exempts (the clock and the
// process' local time zone). `strptime` reaches time.Local only through the
// %Z directive; it is generated with %Z-free formats in the differential and
// counted as a time-zone builtin by the syscall monitor.
var c19Clock = map[string]bool{"now": true, "localtime": true, "strflocaltime": true, "strptime": true}

var c19ArgPool = []string{
	".", ".", "1", "2", "0", "-1", "3", `"a"`, `"b"`, `""`, `"%Y-%m-%dT%H:%M:%SZ"`, `"%A, %B %d, %Y"`, `"g"`, `"x"`, "null", "true",
	"[1,2]", `["a"]`, `{"a":1}`, ".a", ".[]?", ".[0]?", "(1,2)", "empty", ". == 1", "length?", "type", "tostring", "keys?",
	`"(?<x>a)(?<y>b)?"`, `"a,b"`, ". + 1", "[.]", "first(.[]?)", `error("e")`, "not", `"a+"`, `["a","b"]`, "[[0]]", ".. ", "tojson", `"."`, "10", "1.5", ". as [$p] | $p",
}

// per-builtin argument lists that reach the success path of the richer natives
var c19GoodArgs = map[string][]string{
	"test/1": {`"a"`, `"^a.*c$"`}, "test/2": {`"A"; "i"`, `"a"; "gx"`}, "match/1": {`"a"`, `"(?<l>[a-z])"`}, "match/2": {`"a"; "g"`, `"B"; "ig"`},
	"capture/1": {`"(?<x>[a-z]+)"`}, "capture/2": {`"(?<x>[a-z])"; "g"`}, "scan/1": {`"[a-c]"`}, "scan/2": {`"[A-C]"; "i"`}, "split/1": {`","`, `"b"`}, "split/2": {`"[,b]"; "g"`},
	"splits/1": {`","`}, "splits/2": {`"B"; "i"`}, "sub/2": {`"a"; "X"`, `"(?<x>a)"; "<\(.x)>"`}, "sub/3": {`"a"; "X"; "g"`}, "gsub/2": {`"[ab]"; "-"`}, "gsub/3": {`"A"; "z"; "i"`},
	"strftime/1": {`"%Y-%m-%dT%H:%M:%SZ"`, `"%j %U %Z %e"`, `"%z %s %Z %c"`, `"%H:%M %z"`}, "strptime/1": {`"%Y-%m-%dT%H:%M:%SZ"`, `"%Y-%m-%dT%H:%M:%S%z"`}, "mktime/0": {""}, "gmtime/0": {""}, "todate/0": {""}, "fromdate/0": {""},
	"getpath/1": {`["a"]`, `["a","b"]`, "[0]"}, "setpath/2": {`["a"]; 1`, "[0]; .", `[]; 2`}, "delpaths/1": {`[["a"]]`, "[[0]]"}, "paths/1": {"type == \"number\"", "true"}, "pick/1": {".a", ".[0]", ".a.b"},
	"has/1": {`"a"`, "0"}, "index/1": {`"a"`, "1", `"b"`}, "indices/1": {`"a"`, "1", "[1]"}, "ltrimstr/1": {`"a"`}, "rtrimstr/1": {`"c"`}, "trimstr/1": {`"a"`}, "startswith/1": {`"a"`}, "endswith/1": {`"c"`},
	"join/1": {`","`}, "flatten/1": {"1", "0"}, "range/1": {"3", "(1,2)"}, "range/2": {"1; 4"}, "range/3": {"0; 10; 3", "5; 0; -2"}, "limit/2": {"2; .[]?", "1; (1,2,3)"}, "skip/2": {"1; .[]?"}, "nth/2": {"1; .[]?"},
	"first/1": {".[]?", "(1,2)"}, "last/1": {".[]?"}, "until/2": {". == null or . > 3; (. // 0) + 1"}, "while/2": {"type == \"number\" and . < 3; . + 1"}, "repeat/1": {"."}, "recurse/1": {".[]?", ".a?"}, "recurse/2": {".[]?; . != null"},
	"map/1": {". + 1", "tostring", "type"}, "map_values/1": {"type", "empty"}, "with_entries/1": {".value |= tostring"}, "select/1": {"type == \"object\"", "."}, "walk/1": {"if type == \"number\" then . + 1 else . end"},
	"sort_by/1": {".a?", "-."}, "group_by/1": {".a?", ". % 2"}, "unique_by/1": {"length?"}, "min_by/1": {".a?"}, "max_by/1": {".a?"}, "any/1": {". == 1"}, "all/1": {"type == \"number\""}, "any/2": {".[]?; . == 1"}, "all/2": {".[]?; . != null"},
	"add/1": {".[]?"}, "in/1": {`{"a":1}`, "[0,1]"}, "inside/1": {`"abc"`, `{"a":1,"b":2}`}, "contains/1": {`"a"`, `{"a":1}`}, "bsearch/1": {"1", "2"}, "combinations/1": {"2"}, "splits/0": {""}, "ascii/0": {""},
	"tojson/0": {""}, "fromjson/0": {""}, "tostream/0": {""}, "fromstream/1": {"tostream"}, "truncate_stream/1": {"tostream"}, "to_entries/0": {""}, "from_entries/0": {""}, "env/0": {""}, "builtins/0": {""},
	"input/0": {""}, "debug/1": {`"m"`}, "modulemeta/0": {""}, "halt_error/1": {"1"}, "error/1": {`"x"`, "null", "."}, "pow/2": {"2; 10", ".; 2"}, "atan2/2": {"1; 2"}, "fma/3": {"2; 3; 4"}, "ldexp/2": {"1; 3"},
	"INDEX/1": {".a?"}, "INDEX/2": {".[]?; .a?"}, "IN/1": {"1, 2"}, "IN/2": {".[]?; 1, 2"}, "JOIN/2": {`{"1":"x"}; tostring`}, "isempty/1": {".[]?", "empty"}, "format/1": {`"json"`, `"base64"`, `"csv"`},
	"getpath/0": nil, "limit/0": nil, "tojson/1": nil, "toarray/0": {""}, "have_decnum/0": {""}, "abs/0": {""}, "trim/0": {""}, "implode/0": {""}, "explode/0": {""}, "ascii_downcase/0": {""}, "@base64d/0": {""},
}

var c19Feedback = map[string]bool{"recurse/1": true, "recurse/2": true, "while/2": true, "until/2": true, "repeat/1": true}

// pseudo builtins: format strings and the capability-bearing names
var c19Pseudo = []string{
	"@text", "@json", "@html", "@uri", "@urid", "@csv", "@tsv", "@sh", "@base64", "@base64d", "@base32d", `@json "v=\(.)"`, `@sh "echo \(.)"`,
	"env", "$ENV", "env.HOME", "$ENV.PATH", "env | keys", "$ENV | length", "env | has(\"PATH\")", "[env[]]", "$ENV | to_entries", "env.C19_MARK", "$ENV.JQ_COLORS",
	"$__loc__", "$__prog_args", "input_filename", "get_search_list", "input_line_number", "inputs", "input", "stderr", "debug", "ambient", "ambient_cwd", "a::ambient",
	`"a" | modulemeta`, `"./a" | modulemeta`, `"" | modulemeta`, "getpath([\"HOME\"])", "$HOME", "$ENV.HOME // env.USER // \"none\"", "halt", "halt_error", "ltrimstr(env.HOME // \"\")",
}

var c19ImportPrefixes = []string{
	`import "a" as a; `, `import "a" as $a; `, `include "a"; `, `import "./a" as a; `, `import "a" as a {search: "./"}; `, `import "b" as $b {search: "~/"}; `, `include ".jq"; `, `import "lib/m" as m; `,
}

func c19InputPool() []any {
	u := gen.USmall()
	u = append(u, "a,b", "abcabc", "2015-03-05T23:51:47Z", 1425599507, 1425599507.75, A{2015, 2, 5, 23, 51, 47, 4, 63}, "YWJj", "%41%20b", "[1,2]", `{"a":[1,"x"]}`,
		1e3, 3.7, -0.0, "A b C", " pad ", A{"a,b", "c"}, A{A{"a", 1}, A{"b", 2}}, A{O{"key": "k", "value": 1}}, A{A{0}, 1}, A{A{A{"a"}, 1}, A{A{"a"}}}, 65, A{65, 66},
		O{"a": "abc", "b": A{1, 2, 3}}, "aAbB", "line1\nline2", O{"HOME": 1, "PATH": 2})
	return u
}

type c19Gen struct {
	r      *rand.Rand
	bl     []c19NA
	inputs []any
	tz     bool // allow the clock / time-zone builtins (syscall monitor's TZ session only)
}

func newC19Gen(r *rand.Rand, tz bool) *c19Gen {
	return &c19Gen{r: r, bl: c19BuiltinList(), inputs: c19InputPool(), tz: tz}
}

func (g *c19Gen) pick(xs []string) string { return xs[g.r.IntN(len(xs))] }

func (g *c19Gen) call() string {
	r := g.r
	if r.IntN(12) == 0 || len(g.bl) == 0 {
		return g.pick(c19Pseudo)
	}
	for {
		b := g.bl[r.IntN(len(g.bl))]
		if c19Clock[b.Name] && !g.tz {
			if b.Name == "strptime" { // %Z-free formats only
				return "strptime(" + g.pick(c19GoodArgs["strptime/1"]) + ")"
			}
			continue
		}
		if b.Name == "halt" && r.IntN(4) != 0 {
			continue
		}
		key := b.Name + "/" + strconv.Itoa(b.Arity)
		// feedback loops get their curated arguments only: `recurse(tojson)`,
		// `while(type; tojson)` double a string per step, which no instruction
		// budget bounds
		if good := c19GoodArgs[key]; len(good) > 0 && (c19Feedback[key] || r.IntN(3) != 0) {
			if a := g.pick(good); a != "" {
				return b.Name + "(" + a + ")"
			}
			return b.Name
		}
		if b.Arity == 0 {
			return b.Name
		}
		args := make([]string, b.Arity)
		for i := range args {
			args[i] = g.pick(c19ArgPool)
		}
		return b.Name + "(" + strings.Join(args, "; ") + ")"
	}
}

var c19Shapes = []string{
	"%C", "%C", "%C", "[%C]", "try %C catch .", "[.[]? | %C?]", "%C | %C", "[limit(3; %C)]", "[path(%C)?]", "%C as $x | [$x, env, $ENV]",
	"env | %C", "[%C, %C]", "(%C | tojson?) // \"alt\"", "first(%C)?", "reduce %C as $x (0; . + 1)", "try ((%C) |= 1) catch .", "[.. | %C?] | length",
	"def w(f): [f]; w(%C)", "%C as $x | $x | %C", "{a: %C}", "\"\\(%C)\"", "[%C] | map(%C?)", "label $l | %C | ., break $l", "if %C then env else $ENV end",
}

func (g *c19Gen) prog() c19Prog {
	shape := g.pick(c19Shapes)
	var sb strings.Builder
	for {
		i := strings.Index(shape, "%C")
		if i < 0 {
			sb.WriteString(shape)
			break
		}
		sb.WriteString(shape[:i])
		sb.WriteString(g.call())
		shape = shape[i+2:]
	}
	src := sb.String()
	if g.r.IntN(25) == 0 {
		src = g.pick(c19ImportPrefixes) + src
	}
	return c19Prog{Src: src, Input: run.TV{V: g.inputs[g.r.IntN(len(g.inputs))]}}
}

// tzProg: programs of the time-zone class (syscall monitor's TZ session).
func (g *c19Gen) tzProg() c19Prog {
	srcs := []string{"localtime", "strflocaltime(\"%Y-%m-%dT%H:%M:%S %Z\")", "localtime | mktime", "gmtime | strflocaltime(\"%H %z\")", "now | type", "now | localtime | length",
		"\"10:20 UTC\" | strptime(\"%H:%M %Z\")", "\"JST\" | try strptime(\"%Z\") catch \"unknown zone\"", "[localtime, gmtime] | length", "todate | fromdate | localtime | todate?"}
	ins := []any{0, 1425599507, 1425599507.5, -1, 86400 * 365, A{2015, 2, 5, 23, 51, 47, 4, 63}}
	return c19Prog{Src: g.pick(srcs), Input: run.TV{V: ins[g.r.IntN(len(ins))]}}
}

// ---------------------------------------------------------------------------
// ambient state switching (in-process; a worker runs one case at a time)
// ---------------------------------------------------------------------------

const c19Mark = "VERIFAMBIENT"

type c19AmbState struct {
	Env   []string          // NAME=VALUE, the complete environment; "@ROOT@" is the temp root
	Dir   string            // working directory, relative to the temp root
	Stdin string            // content of file descriptor 0
	Files map[string]string // planted files, relative to the temp root
	Zone  int               // the process' local time zone (time.Local), minutes east of UTC
}

func c19GenState(r *rand.Rand, tag string) c19AmbState {
	m := c19Mark + tag + strconv.Itoa(r.IntN(1e6))
	st := c19AmbState{Dir: "cwd" + tag, Stdin: fmt.Sprintf("{\"stdin\":%q}\n[1,%q]\n%q\n", m, m, m), Files: map[string]string{}}
	st.Zone = []int{0, 540, -300, 330, -570, 765, -720, 60}[r.IntN(8)]
	if tag == "B" || tag == "b" {
		st.Zone = []int{-420, 345, 840, -210, 120, 0, 570, -60}[r.IntN(8)]
	}
	modsrc := func(n string) string {
		return fmt.Sprintf("def ambient: %q; def ambient_cwd: %q; def %s: %q;\n", m+n, m+n, n, m+n)
	}
	home := "home" + tag
	for _, d := range []string{st.Dir, home, home + "/.jq.d", st.Dir + "/lib", st.Dir + "/.jq.dir"} {
		st.Files[d+"/a.jq"] = modsrc("a")
		st.Files[d+"/a.json"] = fmt.Sprintf("{\"ambient\":%q}\n", m)
		st.Files[d+"/b.json"] = fmt.Sprintf("%q\n", m)
	}
	st.Files[st.Dir+"/lib/m.jq"] = modsrc("m")
	if r.IntN(4) != 0 {
		st.Files[home+"/.jq"] = modsrc("homejq") // the command's auto-include file
	} else {
		st.Files[home+"/.jq/a.jq"] = modsrc("a") // or a module directory
	}
	if r.IntN(2) == 0 {
		st.Files[st.Dir+"/.jq"] = modsrc("cwdjq")
	}
	st.Files[st.Dir+"/.jq.json"] = fmt.Sprintf("%q\n", m)
	env := []string{"C19_MARK=" + m, "FOO_" + strconv.Itoa(r.IntN(1000)) + "=" + m}
	if r.IntN(5) != 0 {
		env = append(env, "HOME=@ROOT@/"+home)
	}
	switch r.IntN(3) {
	case 0:
		env = append(env, "PATH=/usr/bin:/bin")
	case 1:
		env = append(env, "PATH=@ROOT@/"+st.Dir+":/nonexistent/"+m)
	}
	opt := []string{"JQ_LIBRARY_PATH=@ROOT@/" + st.Dir + "/lib", "JQ_COLORS=1;31:" + m, "GOJQ_COLORS=4;32", "NO_COLOR=1", "USER=" + m, "PWD=@ROOT@/" + st.Dir, "LANG=" + []string{"C", "ja_JP.UTF-8", "en_US.UTF-8"}[r.IntN(3)],
		"ORIGIN=@ROOT@/" + st.Dir, "GOJQ_DEBUG=stderr", "XDG_CONFIG_HOME=@ROOT@/" + home, "JQ_EXIT_STATUS=" + m, "ENV=" + m, "__loc__=" + m, "TMPDIR=@ROOT@/" + st.Dir, "=C:=" + m}
	for _, e := range opt {
		if r.IntN(2) == 0 {
			env = append(env, e)
		}
	}
	st.Env = env
	return st
}

// c19WithAmbient materialises st under a fresh temp root, switches the
// process to it (environment, working directory, fd 0), runs f and restores
// everything. It reports how many bytes of the planted stdin were consumed.
func c19WithAmbient(st c19AmbState, f func(root string)) (consumed int64, err error) {
	root, err := os.MkdirTemp("", "vp-c19-*")
	if err != nil {
		return 0, err
	}
	defer os.RemoveAll(root)
	for p, content := range st.Files {
		full := filepath.Join(root, p)
		if err := os.MkdirAll(filepath.Dir(full), 0o755); err != nil {
			return 0, err
		}
		if fi, e := os.Stat(full); e == nil && fi.IsDir() {
			continue
		}
		if err := os.WriteFile(full, []byte(content), 0o644); err != nil {
			// a path may be both a file and a directory prefix in a generated state
			continue
		}
	}
	cwd := filepath.Join(root, st.Dir)
	if err := os.MkdirAll(cwd, 0o755); err != nil {
		return 0, err
	}
	stdinPath := filepath.Join(root, "stdin.json")
	if err := os.WriteFile(stdinPath, []byte(st.Stdin), 0o644); err != nil {
		return 0, err
	}
	sf, err := os.Open(stdinPath)
	if err != nil {
		return 0, err
	}
	defer sf.Close()
	oldwd, err := os.Getwd()
	if err != nil {
		return 0, err
	}
	oldenv := os.Environ()
	oldLocal := time.Local
	time.Local = time.FixedZone(fmt.Sprintf("Z%+d", st.Zone), st.Zone*60)
	defer func() { time.Local = oldLocal }()
	saved0, err := syscall.Dup(0)
	if err != nil {
		saved0 = -1
	}
	defer func() {
		if saved0 >= 0 {
			syscall.Dup3(saved0, 0, 0)
			syscall.Close(saved0)
		} else {
			syscall.Close(0)
		}
		os.Chdir(oldwd)
		os.Clearenv()
		for _, kv := range oldenv {
			if k, v, ok := strings.Cut(kv, "="); ok && k != "" {
				os.Setenv(k, v)
			}
		}
	}()
	if err := syscall.Dup3(int(sf.Fd()), 0, 0); err != nil {
		return 0, err
	}
	os.Clearenv()
	for _, kv := range st.Env {
		kv = strings.ReplaceAll(kv, "@ROOT@", root)
		if k, v, ok := strings.Cut(kv, "="); ok && k != "" {
			os.Setenv(k, v)
		}
	}
	if err := os.Chdir(cwd); err != nil {
		return 0, err
	}
	f(root)
	off, serr := syscall.Seek(0, 0, 1)
	if serr != nil {
		return -1, nil
	}
	return off, nil
}

// ---------------------------------------------------------------------------
// sub-check 1: ambient differential
// ---------------------------------------------------------------------------

type c19AmbCase struct {
	Progs []c19Prog
	A, B  c19AmbState
}

const c19AmbBudget = 30000

// c19Observe runs one option-less program; the result is everything a caller
// of the library can see, as text.
func c19Observe(p c19Prog) (obs string, compiled bool, events int) {
	cr := run.Compile(p.Src)
	if cr.Panic != "" {
		return "PANIC " + cr.Stage + ": " + cr.Panic, false, 0
	}
	if cr.Err != nil {
		return "COMPILE-ERROR " + cr.Stage + ": " + cr.Err.Error(), false, 0
	}
	tr := run.RunCode(cr.Code, run.DeepCopy(p.Input.V), nil, c19AmbBudget, 40)
	var sb strings.Builder
	sb.WriteString(run.CanonList(tr.Vals))
	sb.WriteString("\n=> ")
	sb.WriteString(tr.End.String())
	events = len(tr.Vals)
	switch tr.End {
	case run.EndError:
		sb.WriteString(" [" + run.ErrClass(tr.Err) + "] " + tr.Err.Error())
		events++
	case run.EndPanic:
		sb.WriteString(" " + tr.Panic)
	}
	return sb.String(), true, events
}

var kC19Amb = run.NewKind("c19.ambient", func(c *run.Ctx, t c19AmbCase) *run.Fail {
	var obs [2][]string
	var roots [2]string
	for k, st := range []c19AmbState{t.A, t.B} {
		consumed, err := c19WithAmbient(st, func(root string) {
			roots[k] = root
			for _, p := range t.Progs {
				o, compiled, events := c19Observe(p)
				obs[k] = append(obs[k], o)
				if k == 0 {
					c.Distinct("observation", o)
					if compiled && events > 0 {
						c.Nontrivial(p.Src + "\x00" + run.Canon(p.Input.V))
					}
					if !compiled {
						c.Count("ambient_programs_not_compiling", 1)
					}
				}
			}
		})
		if err != nil {
			c.Inconclusive("ambient-state-setup: " + err.Error())
			return nil
		}
		if consumed != 0 {
			return run.Failf("an option-less compile+run moved the offset of file descriptor 0 to %d (stdin was read); programs: %s …", consumed, run.Clip(t.Progs[0].Src))
		}
	}
	c.AddEvals(int64(len(t.Progs)) - 1)
	c.Count("ambient_programs", int64(len(t.Progs)))
	c.Count("ambient_runs", int64(2*len(t.Progs)))
	for i, p := range t.Progs {
		a, b := obs[0][i], obs[1][i]
		for k, o := range []string{a, b} {
			if strings.Contains(o, c19Mark) || strings.Contains(o, roots[k]) {
				return run.Failf("option-less %q on %s shows ambient data (planted marker or temp root) in state %d: %s", p.Src, run.Clip(run.Canon(p.Input.V)), k, run.Clip(o))
			}
		}
		if a != b {
			return run.Failf("option-less %q on %s differs between two ambient states (environment, cwd, planted .jq files, stdin):\n state A: %s\n state B: %s", p.Src, run.Clip(run.Canon(p.Input.V)), run.Clip(a), run.Clip(b))
		}
		if strings.HasPrefix(a, "PANIC") {
			c.Count("ambient_panics_same_in_both_states", 1)
		}
	}
	return nil
})

// ---------------------------------------------------------------------------
// sub-check 1b: capabilities denied without their option; env is empty
// ---------------------------------------------------------------------------

type c19DenyCase struct {
	Src   string
	Input run.TV
	Want  []string // nil: must fail (no value, compile error or error); else exact canonical outputs
	State c19AmbState
}

var kC19Deny = run.NewKind("c19.denied", func(c *run.Ctx, t c19DenyCase) *run.Fail {
	var fail *run.Fail
	_, err := c19WithAmbient(t.State, func(root string) {
		src := strings.ReplaceAll(t.Src, "@ROOT@", root)
		cr := run.Compile(src)
		if cr.Panic != "" {
			fail = run.Failf("%q: compiler panicked: %s", src, cr.Panic)
			return
		}
		if cr.Err != nil {
			if t.Want != nil {
				fail = run.Failf("%q does not compile without options: %v", src, cr.Err)
				return
			}
			c.Count("denied_at_compile_time", 1)
			c.Distinct("denial", fmt.Sprintf("%T", cr.Err))
			return
		}
		tr := run.RunCode(cr.Code, t.Input.V, nil, defBudget, 50)
		c.Logf("%s", run.TraceDesc(tr))
		if t.Want == nil {
			if len(tr.Vals) > 0 || tr.End != run.EndError {
				fail = run.Failf("%q compiled without any option and ran to %s; a capability that needs an option must fail to compile or raise an error", src, run.TraceDesc(tr))
				return
			}
			c.Count("denied_at_run_time", 1)
			c.Distinct("denial", fmt.Sprintf("%T", tr.Err))
			return
		}
		if tr.End != run.EndOK || len(tr.Vals) != len(t.Want) {
			fail = run.Failf("%q without WithEnvironLoader: got %s, want %v", src, run.TraceDesc(tr), t.Want)
			return
		}
		for i, v := range tr.Vals {
			if run.Canon(v) != t.Want[i] {
				fail = run.Failf("%q without WithEnvironLoader: output #%d is %s, want %s (the environment must be invisible)", src, i, run.Clip(run.Canon(v)), t.Want[i])
				return
			}
		}
		c.Count("env_empty_checks", 1)
	})
	if err != nil {
		c.Inconclusive("ambient-state-setup: " + err.Error())
		return nil
	}
	if fail == nil {
		c.Nontrivial(t.Src + "\x00" + run.Canon(t.Input.V))
	}
	return fail
})

// terms that need an option; each must be evaluated before any output in the
// contexts below, so "no value and an error" is the only admissible outcome.
var c19DeniedTerms = []string{
	"input", "inputs", "[inputs]", "first(inputs)", "limit(1; input)", "input | .a?", "def f: input; f", "input_filename", "input_line_number", "get_search_list",
	"$__loc__", "$__prog_args", "$__prog_name", "debug", "debug(\"m\")", "debug(.)", "stderr", "ambient", "ambient_cwd", "homejq", "cwdjq", "a::ambient", "a::a", "$a", "$a::a", "m::m",
	"modulemeta", "\"a\" | modulemeta", "\"./a\" | modulemeta", "\"@ROOT@/cwdA/a\" | modulemeta", "\"lib/m\" | modulemeta", "\"\" | modulemeta", "\".jq\" | modulemeta",
	"$HOME", "$C19_MARK", "$ENV::HOME", "getenv(\"HOME\")", "env(\"HOME\")", "$__env", "input_line", "ltrimstr", "halt_error(\"x\"; 1)", "getpath", "now(1)", "system(\"id\")", "exec(\"id\")", "open(\"a.json\")", "slurpfile(\"a.json\")", "$named", "$ARGS", "$ARGS.named", "$positional",
}

var c19DeniedCtx = []string{"%T", "[%T]", "%T as $x | 1", "{a: %T}", "first(%T)", "(%T) | tojson", "try (%T) catch error", ". as $v | %T", "%T | ., 1"}

var c19DeniedImports = []string{
	`import "a" as a; .`, `import "a" as a; a::ambient`, `import "a" as a; a::a`, `import "a" as $a; $a`, `import "a" as $a; $a::a`, `include "a"; ambient`, `include "a"; .`,
	`import "./a" as a; a::a`, `import "a" as a {search: "./"}; a::a`, `import "a" as a {search: "."}; .`, `import "b" as $b {search: "~/"}; $b`, `include ".jq"; homejq`, `import "lib/m" as m; m::m`,
	`import "@ROOT@/cwdA/a" as a; a::a`, `import "@ROOT@/cwdA/a" as $a; $a`, `include "@ROOT@/homeA/.jq"; homejq`, `import "a" as a; import "m" as m; 1`, `import "a" as a {search: "@ROOT@/cwdA/lib"}; a::a`, `include "m" {search: "lib"}; m`,
	`import "nonexistent" as n; .`, `import "" as e; .`, `import "a" as a; def f: a::a; 1`, `include "a" {search: ["./", "lib"]}; a`,
}

type c19EnvWant struct {
	Src  string
	Want []string
}

var c19EmptyEnv = []c19EnvWant{
	{"env", []string{"{}"}}, {"$ENV", []string{"{}"}}, {"env | length", []string{"0"}}, {"$ENV | keys", []string{"[]"}}, {"env.HOME, $ENV.PATH, env.C19_MARK, $ENV.USER", []string{"null", "null", "null", "null"}},
	{"[env[]], [$ENV[]]", []string{"[]", "[]"}}, {"env | has(\"HOME\")", []string{"false"}}, {"$ENV | to_entries", []string{"[]"}}, {"env == {} and $ENV == {}", []string{"true"}}, {"[env, $ENV] | add", []string{"{}"}},
	{"def f: env; [f, (1 | $ENV)]", []string{"[{},{}]"}}, {"env | tojson", []string{`"{}"`}}, {"[env | paths] | length", []string{"0"}}, {"$ENV.HOME // \"unset\"", []string{`"unset"`}}, {"env | .x = 1 | ., env", []string{`{"x":1}`, "{}"}},
	{"[limit(3; repeat(env))]", []string{"[{},{},{}]"}}, {"reduce (1, 2) as $i (env; . + $ENV)", []string{"{}"}}, {"env | type", []string{`"object"`}}, {"\"\\(env)\\($ENV)\"", []string{`"{}{}"`}}, {"env.PATH?, $ENV[\"HOME\"]", []string{"null", "null"}},
	{"1 as $x | $ENV | length", []string{"0"}}, {"[$ENV, env] | unique | length", []string{"1"}}, {"{e: env, v: $ENV}", []string{`{"e":{},"v":{}}`}}, {"path(env)?", []string{}}, {"try (env | error) catch .", []string{"{}"}},
}

// ---------------------------------------------------------------------------
// registration
// ---------------------------------------------------------------------------

func init() {
	run.Register(&run.Prop{
		ID: "C19", Level: "exploration", MinNontrivial: 2000,
		Rule: "ambient: batches of option-less programs generated over every name/arity reported by `builtins` at run time (arguments from small pools, 24 program shapes, import/include prefixes, capability-bearing pseudo terms; the clock/time-zone builtins now/localtime/strflocaltime/strptime-%Z are left out as the statement allows) are compiled and run in-process under two generated ambient states (complete environment incl. HOME/PATH/JQ_*/random names, working directory, planted ~/.jq, .jq, module and JSON files, content of fd 0); everything observable (compile error, values, error) must be identical, contain no planted marker, and fd 0 must not be consumed. denied: each capability term (input(s), import/include, modulemeta, input_filename, $__loc__, get_search_list, $__prog_args, debug, stderr, ~/.jq definitions, …) in 9 contexts must yield no value and an error; 25 env/$ENV programs must show the empty object. strace: a re-executed helper process runs generated option-less programs between two sentinel syscalls under `strace -f -e trace=%file,%network,%process,read…`; deny-by-default scan of the window (only thread creation/exit and SIGURG preemption are allowed; /etc/localtime and zoneinfo only in the session that runs time-zone builtins); a control session with planted accesses proves the scan can see them. grants: WithVariables (generated name lists incl. duplicates and $ENV, value expressions with an independent evaluator, too few/too many values, re-use and interleaving of one Code), WithInputIter (instrumented iterator; table of programs with hand-derived outputs and draw counts; generated programs in which every `input` is bracketed by logging callbacks: log must be a sequence of tick,Next(v),tock(v) triples), WithEnvironLoader (generated pair lists incl. '=' in values, empty values, duplicates, entries without '=' or with an empty name; real process environment planted with conflicting values). callback≡def: generated registrations (arity ranges in 0..30, overlapping registrations of one name, 9 plain and 6 iterator behaviours) and calling contexts (plain, try, path/|=/paths/del/pick, first/limit/label/break/ //, ?//, reduce/foreach, generator/erroring/empty/nested arguments); the program is run with the Go callbacks and with `def f(a0;…;an): an as $an | … | a0 as $a0 | BODY;` prepended; event lists (values up to and including the first uncaught error) must agree. history: one compiled Code is run on an input A and then on a list of further inputs; every result must be what a freshly compiled Code gives for that input alone (regular-expression programs taking subject, pattern and flags from the input, over all 408 (subject, pattern, flags) triples incl. pattern/flag pairs whose concatenations coincide, each as the first input; generated programs over small inputs). modvars: generated WithVariables name lists x module graphs (aliased import, include, import through another module, shadowing inside the module): the values passed to Run are what the names mean inside the modules too. Non-trivial = the program compiled and produced at least one event (ambient, callback≡def) or the case exercised a grant.",
		Assumptions: []string{
			"the library reaches ambient state only through the Go standard library's process-wide facilities (os.Getenv/Environ, working directory, file descriptors, files, clock), so switching them in-process between two runs is equivalent to two child processes; the strace session covers anything else",
			"a worker runs one case at a time, so mutating the process environment / cwd / fd 0 inside a case is safe",
			"the local time zone is varied by replacing time.Local (Go caches the zone per process; TZ/ZONEINFO themselves are ordinary environment variables of the generated states); the builtins the statement exempts (now, localtime, strflocaltime, strptime with %Z) are left out",
			"strace -f sees every system call of every thread of the helper (checked per run by a control session with planted accesses)",
			"callback behaviours other than pack/lazy copy their argument slice; pack and lazy keep the slice they were handed (D44)",
		},
		Body: func(c *run.Ctx) {
			c19BodyAmbient(c)
			c19BodyDenied(c)
			c19BodyStrace(c)
			c19BodyGrants(c)
			c19BodyCBDef(c)
			c19BodyHistory(c)
			c19BodyModVars(c)
		},
	})
}

func c19BodyAmbient(c *run.Ctx) {
	r := c.Rand("c19.ambient")
	if len(c19BuiltinList()) < 100 {
		c.Inconclusive("builtins-list-unavailable")
	}
	c.Gauge("builtins_listed", int64(len(c19BuiltinList())))
	g := newC19Gen(r, false)
	const batch = 25
	for i := 0; i < c.N(800, 16000); i++ {
		t := c19AmbCase{}
		for j := 0; j < batch; j++ {
			t.Progs = append(t.Progs, g.prog())
		}
		t.A, t.B = c19GenState(r, "A"), c19GenState(r, "B")
		kC19Amb.Do(c, t)
	}
}

func c19BodyDenied(c *run.Ctx) {
	r := c.Rand("c19.denied")
	inputs := []any{nil, "a", O{"a": 1, "HOME": "x"}}
	for _, term := range c19DeniedTerms {
		for i, ctx := range c19DeniedCtx {
			if strings.Contains(term, "modulemeta") && i > 1 {
				continue
			}
			src := strings.ReplaceAll(ctx, "%T", term)
			kC19Deny.Do(c, c19DenyCase{Src: src, Input: run.TV{V: inputs[r.IntN(len(inputs))]}, State: c19GenState(r, "A")})
		}
	}
	for _, src := range c19DeniedImports {
		for _, in := range inputs[:2] {
			kC19Deny.Do(c, c19DenyCase{Src: src, Input: run.TV{V: in}, State: c19GenState(r, "A")})
		}
	}
	for _, e := range c19EmptyEnv {
		for _, in := range inputs {
			want := e.Want
			if want == nil {
				want = []string{}
			}
			kC19Deny.Do(c, c19DenyCase{Src: e.Src, Input: run.TV{V: in}, Want: want, State: c19GenState(r, "A")})
		}
	}
}
