package mon

import (
	"context"
	"encoding/json"
	"fmt"
	"math/big"
	"strings"
	"sync"
	"sync/atomic"

	"verif/harness/internal/run"

	"github.com/itchyny/gojq"
)

// c06.parse: Parse, String and Compile from several goroutines at once, every goroutine on its own query text. Nothing
// is shared by the callers, so whatever one goroutine gets must be what it gets alone (compared through String() and
// through the outputs of the compiled query), and the race detector must stay silent.

type c06ParseCase struct {
	Srcs []string // one per goroutine
}

func c06ParseOne(src string) (string, string) {
	q, err := gojq.Parse(src)
	if err != nil {
		return "parse error: " + err.Error(), ""
	}
	printed := q.String()
	code, err := gojq.Compile(q)
	if err != nil {
		return printed, "compile error: " + err.Error()
	}
	tr := run.RunCode(code, nil, nil, 100000, 20)
	return printed, run.TraceDesc(tr)
}

var kC06Parse = run.NewKind("c06.parse", func(c *run.Ctx, t c06ParseCase) *run.Fail {
	type res struct{ printed, out string }
	want := make([]res, len(t.Srcs))
	for i, s := range t.Srcs {
		p, o := c06ParseOne(s)
		want[i] = res{p, o}
	}
	before := raceLogSize()
	const R = 40
	var wg sync.WaitGroup
	var mism atomic.Int64
	var first atomic.Value
	start := make(chan struct{})
	for g := range t.Srcs {
		wg.Add(1)
		go func(g int) {
			defer wg.Done()
			defer func() {
				if r := recover(); r != nil {
					mism.Add(1)
					first.CompareAndSwap(nil, fmt.Sprintf("goroutine %d: panic %v", g, r))
				}
			}()
			<-start
			for i := 0; i < R; i++ {
				p, o := c06ParseOne(t.Srcs[g])
				if p != want[g].printed || o != want[g].out {
					mism.Add(1)
					first.CompareAndSwap(nil, fmt.Sprintf("goroutine %d, round %d: Parse(%s).String() = %s, outputs %s; alone %s, outputs %s", g, i, run.Clip(t.Srcs[g]), run.Clip(p), run.Clip(o), run.Clip(want[g].printed), run.Clip(want[g].out)))
				}
			}
		}(g)
	}
	close(start)
	wg.Wait()
	c.Count("concurrent_parses", int64(len(t.Srcs)*R))
	if n := mism.Load(); n > 0 {
		return run.Failf("%d of %d concurrent Parse/String/Compile rounds differ from the same call alone; first: %v", n, len(t.Srcs)*R, first.Load())
	}
	if after := raceLogSize(); after > before {
		rep := raceLogFrom(before)
		if strings.Contains(rep, "WARNING: DATA RACE") && (strings.Contains(rep, "github.com/itchyny/gojq") || strings.Contains(rep, "/repo/")) {
			return &run.Fail{Detail: fmt.Sprintf("the race detector reported a data race while %d goroutines parsed their own queries:\n%s", len(t.Srcs), run.Clip(raceSummary(rep)))}
		}
	}
	c.Nontrivial(strings.Join(t.Srcs, "\x00"))
	return nil
})

func c06ParseCases() []c06ParseCase {
	var out []c06ParseCase
	mk := func(f func(g int) string) {
		t := c06ParseCase{}
		for g := 0; g < 8; g++ {
			t.Srcs = append(t.Srcs, f(g))
		}
		out = append(out, t)
	}
	letter := func(g int) string { return string(rune('a' + g)) }
	for _, n := range []int{1, 7, 60, 300, 2000} {
		mk(func(g int) string { return `"\t` + strings.Repeat(letter(g), n) + `\(.)"` })
		mk(func(g int) string { return `"é` + strings.Repeat(letter(g), n+g) + `\n" | length` })
		mk(func(g int) string { return `"` + strings.Repeat(letter(g)+`é`, n) + `" | utf8bytelength` })
		mk(func(g int) string { return `{"k\t` + strings.Repeat(letter(g), n) + `": 1} | keys[0] | length` })
		mk(func(g int) string {
			return `@base64 "x\\` + strings.Repeat(letter(g), n) + `\(1 + ` + fmt.Sprint(g) + `)"`
		})
		mk(func(g int) string { return `. as {"a\"` + strings.Repeat(letter(g), n) + `": $x} | $x` })
		mk(func(g int) string { return strings.Repeat(`"`+letter(g)+`\n" + `, min(n, 200)) + `"" | length` })
		mk(func(g int) string { return fmt.Sprint(g+1) + strings.Repeat("0", n) + " | tojson | length" })
		mk(func(g int) string {
			return "def f" + letter(g) + ": " + fmt.Sprint(g) + "; [" + strings.Repeat("f"+letter(g)+", ", min(n, 100)) + "f" + letter(g) + "] | add"
		})
		mk(func(g int) string {
			return "# " + strings.Repeat(letter(g), n) + "\n" + fmt.Sprint(g) + " # tail " + letter(g)
		})
		mk(func(g int) string {
			return `"\(` + fmt.Sprint(g) + `)` + strings.Repeat(`\\`+letter(g), n) + `" | length`
		})
		mk(func(g int) string {
			return `import "m` + letter(g) + `" as m {"k\t` + strings.Repeat(letter(g), n) + `": ` + fmt.Sprint(g) + `}; .`
		})
	}
	for _, s := range [][]string{c09Surface[:8], c09Surface[8:16], c09Surface[16:24], c09Surface[40:48]} {
		out = append(out, c06ParseCase{Srcs: s})
	}
	return out
}

// c06.marshal: Marshal, Preview and the text-producing builtins from several goroutines at once, every goroutine on its
// own value (nothing is shared by the callers): each text must be the one the same call gives alone.

type c06MarshalCase struct {
	Vals []run.TV // one per goroutine
}

func c06MarshalOne(v any, code *gojq.Code) string {
	bs, err := gojq.Marshal(v)
	out := string(bs)
	if err != nil {
		out = "error: " + err.Error()
	}
	out += "\x00" + gojq.Preview(v)
	tr := run.RunCode(code, v, nil, 100000, 20)
	return out + "\x00" + run.TraceDesc(tr)
}

var kC06Marshal = run.NewKind("c06.marshal", func(c *run.Ctx, t c06MarshalCase) *run.Fail {
	const src = `[tojson, tostring, @json, @text, "\(.)", ([., .] | tojson), ([.] | @csv?), ([.] | @sh?), (tojson | fromjson | tojson)] | join("|")`
	codes := make([]*gojq.Code, len(t.Vals))
	want := make([]string, len(t.Vals))
	for i, v := range t.Vals {
		res := run.Compile(src)
		if res.Code == nil {
			return run.Failf("does not compile: %v", res.Err)
		}
		codes[i] = res.Code // a Code of its own: nothing shared
		want[i] = c06MarshalOne(v.V, codes[i])
	}
	before := raceLogSize()
	const R = 60
	var wg sync.WaitGroup
	var mism atomic.Int64
	var first atomic.Value
	start := make(chan struct{})
	for g := range t.Vals {
		wg.Add(1)
		go func(g int) {
			defer wg.Done()
			defer func() {
				if r := recover(); r != nil {
					mism.Add(1)
					first.CompareAndSwap(nil, fmt.Sprintf("goroutine %d: panic %v", g, r))
				}
			}()
			<-start
			for i := 0; i < R; i++ {
				if got := c06MarshalOne(t.Vals[g].V, codes[g]); got != want[g] {
					mism.Add(1)
					first.CompareAndSwap(nil, fmt.Sprintf("goroutine %d, round %d: %s; alone: %s", g, i, run.Clip(got), run.Clip(want[g])))
				}
			}
		}(g)
	}
	close(start)
	wg.Wait()
	c.Count("concurrent_serialisations", int64(len(t.Vals)*R))
	if n := mism.Load(); n > 0 {
		return run.Failf("%d of %d concurrent Marshal / Preview / tojson rounds on goroutine-private values differ from the same calls alone; first: %v", n, len(t.Vals)*R, first.Load())
	}
	if after := raceLogSize(); after > before {
		rep := raceLogFrom(before)
		if strings.Contains(rep, "WARNING: DATA RACE") && (strings.Contains(rep, "github.com/itchyny/gojq") || strings.Contains(rep, "/repo/")) {
			return &run.Fail{Detail: fmt.Sprintf("the race detector reported a data race while %d goroutines serialised their own values:\n%s", len(t.Vals), run.Clip(raceSummary(rep)))}
		}
	}
	c.Nontrivial(run.Canon(t.Vals[0].V) + fmt.Sprint(len(t.Vals)))
	return nil
})

func c06MarshalCases() []c06MarshalCase {
	var out []c06MarshalCase
	mk := func(f func(g int) any) {
		t := c06MarshalCase{}
		for g := 0; g < 8; g++ {
			t.Vals = append(t.Vals, run.TV{V: f(g)})
		}
		out = append(out, t)
	}
	ctl := []string{"\x01", "\x1f", "\x10", "\x7f", "\x00", "\x0b", "\x1b", "\x02"}
	for _, n := range []int{1, 16, 64, 500} {
		mk(func(g int) any { return strings.Repeat(ctl[g], n) })
		mk(func(g int) any { return strings.Repeat(ctl[g]+"é", n) })
		mk(func(g int) any { return map[string]any{strings.Repeat(ctl[g], n): strings.Repeat("\"\\", n)} })
		mk(func(g int) any { return strings.Repeat(string(rune(0x80+g)), n) + "\xff" })
		mk(func(g int) any {
			a := make([]any, n)
			for i := range a {
				a[i] = (g+1)*1000003 + i
			}
			return a
		})
		mk(func(g int) any {
			a := make([]any, n)
			for i := range a {
				a[i] = float64(g+1)/8 - 0.5 + float64(i)*1e-7
			}
			return a
		})
		mk(func(g int) any {
			a := make([]any, n)
			for i := range a {
				a[i] = new(big.Int).Lsh(big.NewInt(int64(g+3)), uint(64+i%70))
			}
			return a
		})
		mk(func(g int) any {
			m := map[string]any{}
			for i := 0; i < n; i++ {
				m[fmt.Sprintf("k%d-%d", g, i)] = []any{nil, true, json.Number(fmt.Sprintf("%d.%d0", g, i)), ctl[g]}
			}
			return m
		})
	}
	return out
}

// c06.mixed: runs that end in different ways at the same time on one Code — drained to the end, cancelled after the
// first value and then drained, abandoned, advanced again after the end, started with too many or too few variable
// values. The complete runs must give what the run alone gives, the refused ones their error, every time.

type c06MixedCase struct {
	Src   string
	Input run.TV
}

var kC06Mixed = run.NewKind("c06.mixed", func(c *run.Ctx, t c06MixedCase) *run.Fail {
	res := run.Compile(t.Src, gojq.WithVariables([]string{"$x"}))
	if res.Code == nil {
		c.Inconclusive("does-not-compile")
		return nil
	}
	code := res.Code
	base := run.RunCode(code, run.DeepCopy(t.Input.V), []any{"X"}, defBudget, 500)
	if base.End != run.EndOK && base.End != run.EndError {
		c.Inconclusive("budget")
		return nil
	}
	want := run.TraceDesc(base)
	before := raceLogSize()
	var wg sync.WaitGroup
	var mism atomic.Int64
	var first atomic.Value
	note := func(format string, a ...any) {
		mism.Add(1)
		first.CompareAndSwap(nil, fmt.Sprintf(format, a...))
	}
	start := make(chan struct{})
	for g := 0; g < 8; g++ {
		wg.Add(1)
		go func(g int) {
			defer wg.Done()
			defer func() {
				if r := recover(); r != nil {
					note("goroutine %d: panic %v", g, r)
				}
			}()
			<-start
			for i := 0; i < 25; i++ {
				switch (g + i) % 5 {
				case 0, 1: // a complete run
					if got := run.TraceDesc(run.RunCode(code, run.DeepCopy(t.Input.V), []any{"X"}, defBudget, 500)); got != want {
						note("goroutine %d, round %d: a complete run gave %s; alone: %s", g, i, run.Clip(got), run.Clip(want))
					}
				case 2: // cancelled after the first value, then drained, then advanced again
					ctx, cancel := context.WithCancel(context.Background())
					it := code.RunWithContext(ctx, run.DeepCopy(t.Input.V), "X")
					it.Next()
					cancel()
					for k := 0; k < 600; k++ {
						if _, ok := it.Next(); !ok {
							break
						}
					}
					it.Next()
					it.Next()
				case 3: // too many / too few values: one error, then the end
					for _, vals := range [][]any{{1, 2, 3}, {}} {
						it := code.Run(nil, vals...)
						v, ok := it.Next()
						if _, isErr := v.(error); !ok || !isErr {
							note("goroutine %d, round %d: a run with %d values for 1 variable gave (%v, %v) instead of an error value", g, i, len(vals), v, ok)
						}
						if v2, ok2 := it.Next(); ok2 {
							note("goroutine %d, round %d: a refused run went on with %v", g, i, v2)
						}
					}
				default: // abandoned after one value; and a finished one advanced again
					it := code.Run(run.DeepCopy(t.Input.V), "X")
					it.Next()
					it2 := code.Run(run.DeepCopy(t.Input.V), "X")
					for k := 0; k < 600; k++ {
						if _, ok := it2.Next(); !ok {
							break
						}
					}
					if v, ok := it2.Next(); ok {
						note("goroutine %d, round %d: a finished iterator returned (%v, true)", g, i, v)
					}
				}
			}
		}(g)
	}
	close(start)
	wg.Wait()
	c.Count("mixed_runs", 8*25)
	if n := mism.Load(); n > 0 {
		return run.Failf("%q: %d of 200 mixed concurrent runs misbehaved; first: %v", t.Src, n, first.Load())
	}
	if after := raceLogSize(); after > before {
		rep := raceLogFrom(before)
		if strings.Contains(rep, "WARNING: DATA RACE") && (strings.Contains(rep, "github.com/itchyny/gojq") || strings.Contains(rep, "/repo/")) {
			return &run.Fail{Detail: fmt.Sprintf("%q: the race detector reported a data race during mixed runs:\n%s", t.Src, run.Clip(raceSummary(rep)))}
		}
	}
	c.Nontrivial(t.Src)
	return nil
})

var c06MixedSrcs = []string{"[.[] | . * 2] | ., length, (.[] | select(. % 3 == 0))", ".[] | . + 1", "[.[] | tostring] | join(\",\"), $x", "range(5), .[0]", "reduce .[] as $i (0; . + $i), (.[] | select(. > 2))", "[paths] | length, (.. | numbers)",
	"path(.[]), ($x | ascii_downcase)", ".[] as $v | [$v, $x]", "first(.[]), last(.[]), (.[] | error?)", "label $l | (.[] | if . > 3 then ., break $l else . end)", "[limit(3; .[])], (.[1:] | .[])", "try (.[] | if . == 4 then error(\"four\") else . end) catch ., 9"}
