package mon

import (
	"bytes"
	"encoding/json"
	"fmt"
	"math/rand/v2"
	"strings"

	"verif/harness/internal/run"
)

// c12.streams: several inputs, each of which prints zero or more values, written under every output mode of the command.
// The stream written must read back (independent JSON reader; --yaml-input for YAML) as exactly the sequence of the
// values printed: the separators between documents are part of the format, also after an input that printed nothing.

type c12StreamCase struct {
	Docs   [][]string // per input: the JSON texts of the values it prints (it is an array holding them)
	Filter int
	Args   []string
}

var c12StreamFilters = []string{".[]", ".[] | values", "select(length > 0) | .[]", "if length == 0 then empty else .[] end", ".[]?", "(.[] | select(. != null)), (.[] | select(. == null))", "limit(2; .[])", "first(.[])?", ".[1:][]", "try (if length == 2 then error(\"x\") else .[] end) catch empty", ".[] | if . == null then error(\"an input fails here\") else . end", ".[] | if . == null then halt else . end"}

func c12StreamWant(docs [][]string, filter int) []string {
	var out []string
	for _, d := range docs {
		switch filter {
		case 1:
			for _, v := range d {
				if v != "null" {
					out = append(out, v)
				}
			}
		case 5:
			for _, v := range d {
				if v != "null" {
					out = append(out, v)
				}
			}
			for _, v := range d {
				if v == "null" {
					out = append(out, v)
				}
			}
		case 6:
			out = append(out, d[:min(2, len(d))]...)
		case 7:
			out = append(out, d[:min(1, len(d))]...)
		case 8:
			if len(d) > 1 {
				out = append(out, d[1:]...)
			}
		case 9:
			if len(d) != 2 {
				out = append(out, d...)
			}
		case 10, 11:
			// the values before the first null; filter 10 goes on with the next input, filter 11 stops everything
			stop := false
			for _, v := range d {
				if v == "null" {
					stop = true
					break
				}
				out = append(out, v)
			}
			if stop && filter == 11 {
				return out
			}
		default:
			out = append(out, d...)
		}
	}
	return out
}

func c12CanonJSON(text string) (string, error) {
	dec := json.NewDecoder(strings.NewReader(text))
	dec.UseNumber()
	var v any
	if err := dec.Decode(&v); err != nil {
		return "", err
	}
	return run.Canon(v), nil
}

var kC12Stream = run.NewKind("c12.streams", func(c *run.Ctx, t c12StreamCase) *run.Fail {
	var in bytes.Buffer
	for _, d := range t.Docs {
		in.WriteString("[" + strings.Join(d, ",") + "]\n")
	}
	want := c12StreamWant(t.Docs, t.Filter)
	argv := append(append([]string{}, t.Args...), c12StreamFilters[t.Filter])
	w := run.CLI(run.CLIOpt{Args: argv, Stdin: in.Bytes(), Env: c12Env("")})
	if w.TimedOut || w.StartErr != nil {
		c.Inconclusive("cli-timeout")
		return nil
	}
	desc := fmt.Sprintf("gojq %q on %s", argv, run.Clip(strings.ReplaceAll(in.String(), "\n", " ")))
	wantCode := 0
	if t.Filter == 10 {
		for _, d := range t.Docs {
			for _, v := range d {
				if v == "null" {
					wantCode = 5
				}
			}
		}
	}
	if w.Code != wantCode || (len(w.Stderr) != 0) != (wantCode != 0) {
		return run.Failf("%s: exit %d (expected %d), stderr %s", desc, w.Code, wantCode, run.Clip(string(w.Stderr)))
	}
	text := w.Stdout
	yaml := false
	for _, a := range t.Args {
		yaml = yaml || a == "--yaml-output"
	}
	if yaml {
		r := run.CLI(run.CLIOpt{Args: []string{"--yaml-input", "-c", "."}, Stdin: w.Stdout, Env: c12Env("")})
		if r.TimedOut || r.StartErr != nil {
			c.Inconclusive("cli-timeout")
			return nil
		}
		if r.Code != 0 || len(r.Stderr) != 0 {
			return run.Failf("%s: --yaml-input rejects the stream written (%d values expected): %s; the stream: %s", desc, len(want), run.Clip(string(r.Stderr)), run.Clip(string(w.Stdout)))
		}
		text = r.Stdout
	}
	// an independent reader takes the stream apart
	dec := json.NewDecoder(bytes.NewReader(text))
	dec.UseNumber()
	var got []string
	for {
		var v any
		if err := dec.Decode(&v); err != nil {
			if err.Error() != "EOF" {
				return run.Failf("%s: the output is not a sequence of JSON values: %v; output %s", desc, err, run.Clip(string(text)))
			}
			break
		}
		got = append(got, run.Canon(v))
	}
	if len(got) != len(want) {
		return run.Failf("%s: %d values were printed, the stream written reads back as %d values: %s", desc, len(want), len(got), run.Clip(string(w.Stdout)))
	}
	for i := range want {
		cw, err := c12CanonJSON(want[i])
		if err != nil {
			return run.Failf("bad case: %v", err)
		}
		if cw != got[i] {
			return run.Failf("%s: value #%d reads back as %s, printed was %s; the stream: %s", desc, i, run.Clip(got[i]), run.Clip(cw), run.Clip(string(w.Stdout)))
		}
	}
	c.Count("stream_values_read_back", int64(len(want)))
	c.Nontrivial(strings.Join(argv, " ") + in.String())
	return nil
})

func c12StreamCases(r *rand.Rand, n int) []c12StreamCase {
	leaves := []string{"1", "null", "\"x\"", "\"a b\"", "[]", "{}", "[1,[2]]", "{\"a\":[2]}", "{\"a\":{\"b\":null}}", "true", "false", "\"\"", "-0.5", "\"---\"", "\"- a\"", "\"a: b\"", "[null]", "\"...\"", "12345678901234567890", "\"#c\"", "[[],{}]", "\"1\"", "\"null\""}
	modes := [][]string{{"--yaml-output"}, {"--yaml-output", "--indent", "4"}, {"-c"}, {}, {"--tab"}, {"--indent", "1"}, {"-r"}, {"-j"}, {"--yaml-output", "-r"}}
	var out []c12StreamCase
	for i := 0; i < n; i++ {
		k := 2 + r.IntN(5)
		docs := make([][]string, k)
		for j := range docs {
			m := []int{0, 0, 1, 1, 2, 3}[r.IntN(6)]
			docs[j] = []string{}
			for l := 0; l < m; l++ {
				docs[j] = append(docs[j], leaves[r.IntN(len(leaves))])
			}
		}
		mode := modes[i%len(modes)]
		t := c12StreamCase{Docs: docs, Filter: r.IntN(len(c12StreamFilters)), Args: mode}
		if len(mode) > 0 && (mode[len(mode)-1] == "-r" || mode[0] == "-j") {
			// raw modes are only a sequence of JSON values when no string is printed (and -j needs separating white space: arrays/objects only)
			for j := range t.Docs {
				for l, v := range t.Docs[j] {
					if strings.HasPrefix(v, "\"") || mode[0] == "-j" {
						t.Docs[j][l] = []string{"[1]", "{\"a\":2}", "[]", "{}"}[r.IntN(4)]
					}
				}
			}
		}
		out = append(out, t)
	}
	// the shapes of the separator logic, exhaustively: which of 4 inputs print 0, 1 or 2 values
	for mask := 0; mask < 81; mask++ {
		docs := make([][]string, 4)
		m := mask
		for j := range docs {
			docs[j] = [][]string{{}, {"1"}, {"\"x\"", "{\"a\":[2]}"}}[m%3]
			m /= 3
		}
		out = append(out, c12StreamCase{Docs: docs, Filter: 0, Args: []string{"--yaml-output"}}, c12StreamCase{Docs: docs, Filter: 1, Args: []string{"-c"}})
	}
	// ... and which of 4 inputs fail (or halt) before, between or after their values
	for mask := 0; mask < 256; mask++ {
		docs := make([][]string, 4)
		m := mask
		for j := range docs {
			docs[j] = [][]string{{}, {"1"}, {"null"}, {"\"x\"", "null", "2"}}[m%4]
			m /= 4
		}
		out = append(out, c12StreamCase{Docs: docs, Filter: 10, Args: []string{"--yaml-output"}}, c12StreamCase{Docs: docs, Filter: 10 + mask%2, Args: [][]string{{"-c"}, {"--yaml-output"}, {}, {"--yaml-output", "--indent", "3"}}[mask%4]})
	}
	return out
}
