package mon

import (
	"os"
	"path/filepath"
	"strings"

	"verif/harness/internal/run"

	"github.com/itchyny/gojq"
)

// c18.oddnames: the import forms keep their meaning for module names that are unusual but resolvable — the empty
// name (files `.jq` / `.json` of a search directory), names with dots, blanks and leading dashes: `import "m" as a`
// gives `a::name` and nothing else, `include "m"` the bare names, `import "m" as $d` the values of the data file.

type c18OddCase struct {
	Name string // the module name
	Prog string // with %N for the quoted name
	CLI  bool
	Want string // canonical output list, or "compile-error"
}

var kC18Odd = run.NewKind("c18.oddnames", func(c *run.Ctx, t c18OddCase) *run.Fail {
	dir, err := os.MkdirTemp("", "vp-c18o-*")
	if err != nil {
		c.Inconclusive("tempdir")
		return nil
	}
	defer os.RemoveAll(dir)
	lib := filepath.Join(dir, "lib")
	os.MkdirAll(lib, 0o755)
	if os.WriteFile(filepath.Join(lib, t.Name+".jq"), []byte("def hidden: \"H\"; def f: \"F\";"), 0o644) != nil ||
		os.WriteFile(filepath.Join(lib, t.Name+".json"), []byte("[1, 2] 3"), 0o644) != nil {
		c.Inconclusive("tempfile")
		return nil
	}
	quoted, _ := gojq.Marshal(t.Name)
	src := strings.ReplaceAll(t.Prog, "%N", string(quoted))
	var out c18Out
	if t.CLI {
		res := run.CLI(run.CLIOpt{Args: []string{"-n", "-c", "-L", lib, src}, Dir: dir, NoStdin: true})
		switch {
		case res.TimedOut || res.StartErr != nil:
			c.Inconclusive("cli-timeout-or-start")
			return nil
		case res.Code == 3:
			out = c18Out{cerr: string(res.Stderr)}
		case res.Code == 0:
			docs, malformed := c15Decode(res.Stdout)
			if malformed {
				return run.Failf("%q: unreadable output %q", src, res.Stdout)
			}
			out = c18Out{ok: true, vals: docs}
		default:
			out = c18Out{bad: "exit " + string(rune('0'+res.Code%10)) + ": " + string(res.Stderr)}
		}
	} else {
		out = c18RunLib(src, gojq.WithModuleLoader(gojq.NewModuleLoader([]string{lib})))
	}
	got := ""
	switch {
	case out.cerr != "":
		got = "compile-error"
	case out.ok:
		got = run.Canon(out.vals)
	default:
		got = "other: " + out.bad + out.incon
	}
	if got != t.Want {
		return run.Failf("module name %q, program %q (command: %v): got %s (%s), expected %s", t.Name, src, t.CLI, run.Clip(got), run.Clip(strings.TrimSpace(out.cerr)), t.Want)
	}
	c.Nontrivial(t.Name + "\x00" + t.Prog)
	return nil
})

func c18OddCases() []c18OddCase {
	var out []c18OddCase
	progs := []struct{ prog, want string }{
		{"import %N as a; a::hidden", `["H"]`}, {"import %N as a; hidden", "compile-error"}, {"import %N as a; [a::f, a::hidden]", `[["F","H"]]`}, {"import %N as a; def hidden: \"mine\"; [hidden, a::hidden]", `[["mine","H"]]`},
		{"include %N; [hidden, f]", `[["H","F"]]`}, {"include %N; a::hidden", "compile-error"}, {"import %N as $d; $d", `[[[1,2],3]]`}, {"import %N as $d; $d::d", `[[[1,2],3]]`}, {"import %N as $d; hidden", "compile-error"},
		{"import %N as a; import %N as b; [a::f, b::hidden]", `[["F","H"]]`}, {"import %N as a; include %N; [a::f, hidden]", `[["F","H"]]`}, {"import %N as $d; import %N as d; [$d[1], d::f]", `[[3,"F"]]`},
	}
	for _, name := range []string{"", "m", "a.b", "with blank", "-dash", "Ünï", "m.jq", "x y.z"} {
		for _, p := range progs {
			for _, cli := range []bool{false, true} {
				out = append(out, c18OddCase{Name: name, Prog: p.prog, CLI: cli, Want: p.want})
			}
		}
	}
	return out
}
