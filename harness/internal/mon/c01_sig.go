package mon

import (
	"os"
	"reflect"
	"regexp"
	"sync"

	"github.com/itchyny/gojq"
)

// c01NativeArgSig recognises the call-site shape of the one known finding of C01/C02 (the residue of D7): inside a path
// expression, a builtin that gojq implements natively (not in builtin.jq) is called with an argument that navigates.
// gojq evaluates such arguments with path tracking on, so the argument's path leaks into the path being built
// (`null | path(indices(.x))` gives ["x"]). Only a mismatch whose program has this shape gets the signature.
const c01NativeArgSigName = "c01.model:argument-of-a-native-builtin-navigates-inside-a-path-expression"

var c01JQDefined = sync.OnceValue(func() map[string]bool {
	m := map[string]bool{}
	b, err := os.ReadFile("/repo/builtin.jq")
	if err != nil {
		return m
	}
	q, err := gojq.Parse(string(b))
	if err != nil {
		return m
	}
	for _, fd := range q.FuncDefs {
		m[fd.Name] = true
	}
	return m
})

var c01NavRe = regexp.MustCompile(`\.[\[a-zA-Z_"\.]|getpath|paths|first|last|recurse|env|input`)

var c01UpdateOps = map[gojq.Operator]bool{gojq.OpAssign: true, gojq.OpModify: true, gojq.OpUpdateAdd: true, gojq.OpUpdateSub: true, gojq.OpUpdateMul: true, gojq.OpUpdateDiv: true, gojq.OpUpdateMod: true, gojq.OpUpdateAlt: true}

var c01PathFuncs = map[string]bool{"path": true, "paths": true, "del": true, "pick": true, "leaf_paths": true, "map_values": true, "delpaths": true, "to_entries": false, "with_entries": false, "getpath": false}

func c01NativeArgSig(q *gojq.Query) string {
	user := map[string]bool{}
	var collect func(v reflect.Value)
	collect = func(v reflect.Value) {
		switch v.Kind() {
		case reflect.Ptr, reflect.Interface:
			if !v.IsNil() {
				if fd, ok := v.Interface().(*gojq.FuncDef); ok {
					user[fd.Name] = true
				}
				collect(v.Elem())
			}
		case reflect.Struct:
			for i := 0; i < v.NumField(); i++ {
				if v.Type().Field(i).IsExported() {
					collect(v.Field(i))
				}
			}
		case reflect.Slice:
			for i := 0; i < v.Len(); i++ {
				collect(v.Index(i))
			}
		}
	}
	collect(reflect.ValueOf(q))
	hit := false
	var walk func(v reflect.Value, path bool)
	walk = func(v reflect.Value, path bool) {
		if hit {
			return
		}
		switch v.Kind() {
		case reflect.Ptr, reflect.Interface:
			if v.IsNil() {
				return
			}
			switch x := v.Interface().(type) {
			case *gojq.Query:
				if x.Left != nil && c01UpdateOps[x.Op] {
					walk(reflect.ValueOf(x.Left), true)
					walk(reflect.ValueOf(x.Right), false)
					return
				}
			case *gojq.Func:
				native := !user[x.Name] && !c01JQDefined()[x.Name] && len(x.Args) > 0 && x.Name[0] != '$'
				if path && native {
					for _, a := range x.Args {
						if c01NavRe.MatchString(a.String()) {
							hit = true
							return
						}
					}
				}
				sub := path || c01PathFuncs[x.Name]
				for _, a := range x.Args {
					walk(reflect.ValueOf(a), sub)
				}
				return
			}
			walk(v.Elem(), path)
		case reflect.Struct:
			for i := 0; i < v.NumField(); i++ {
				if v.Type().Field(i).IsExported() {
					walk(v.Field(i), path)
				}
			}
		case reflect.Slice:
			for i := 0; i < v.Len(); i++ {
				walk(v.Index(i), path)
			}
		}
	}
	walk(reflect.ValueOf(q), false)
	if hit {
		return c01NativeArgSigName
	}
	return ""
}
