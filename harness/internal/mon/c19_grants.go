package mon

import (
	"fmt"
	"math/rand/v2"
	"os"
	"runtime/debug"
	"sort"
	"strconv"
	"strings"

	"verif/harness/internal/gen"
	"verif/harness/internal/run"

	"github.com/itchyny/gojq"
)

// ---- C19 sub-check 3: each option grants exactly its capability ----

// ---------------------------------------------------------------------------
// 3a. WithVariables
// ---------------------------------------------------------------------------

// c19VE is a value expression over the declared variables with an evaluator
// of its own (c19VEval); every form has exactly one output.
type c19VE struct {
	K   string   // var const in arr obj def as first pipe idx closure let null
	I   int      // var / let: index into Names
	C   run.TV   // const
	Sub []c19VE  `json:",omitempty"`
	Key []string `json:",omitempty"`
}

func c19Lit(v any) string { return run.Canon(v) } // constants are plain JSON scalars / containers

func c19VRender(e c19VE, names []string) string {
	sub := func(i int) string { return c19VRender(e.Sub[i], names) }
	switch e.K {
	case "var":
		return names[e.I]
	case "const":
		return c19Lit(e.C.V)
	case "in":
		return "."
	case "arr":
		xs := make([]string, len(e.Sub))
		for i := range e.Sub {
			xs[i] = sub(i)
		}
		return "[" + strings.Join(xs, ", ") + "]"
	case "obj":
		xs := make([]string, len(e.Sub))
		for i := range e.Sub {
			xs[i] = strconv.Quote(e.Key[i]) + ": (" + sub(i) + ")"
		}
		return "{" + strings.Join(xs, ", ") + "}"
	case "def":
		return "(def w: " + sub(0) + "; w)"
	case "as":
		return "(" + sub(0) + " as $zz | $zz)"
	case "first":
		return "first(" + sub(0) + ")"
	case "pipe":
		return "(" + sub(0) + " | .)"
	case "idx":
		return "[" + sub(0) + "][0]"
	case "closure":
		return "(def c(g): g; c(" + sub(0) + "))"
	case "let":
		return "(" + sub(0) + " as " + names[e.I] + " | " + sub(1) + ")"
	case "null":
		return "(null | " + sub(0) + ")"
	}
	panic("c19VRender: " + e.K)
}

func c19VEval(e c19VE, names []string, env map[string]any, in any) any {
	switch e.K {
	case "var":
		return env[names[e.I]]
	case "const":
		return e.C.V
	case "in":
		return in
	case "arr":
		xs := make([]any, len(e.Sub))
		for i := range e.Sub {
			xs[i] = c19VEval(e.Sub[i], names, env, in)
		}
		return xs
	case "obj":
		m := map[string]any{}
		for i := range e.Sub {
			m[e.Key[i]] = c19VEval(e.Sub[i], names, env, in)
		}
		return m
	case "def", "as", "first", "pipe", "idx", "closure":
		return c19VEval(e.Sub[0], names, env, in)
	case "let":
		env2 := make(map[string]any, len(env)+1)
		for k, v := range env {
			env2[k] = v
		}
		env2[names[e.I]] = c19VEval(e.Sub[0], names, env, in)
		return c19VEval(e.Sub[1], names, env2, in)
	case "null":
		return c19VEval(e.Sub[0], names, env, nil)
	}
	panic("c19VEval: " + e.K)
}

func c19GenVE(r *rand.Rand, nnames, depth int) c19VE {
	leaf := func() c19VE {
		switch {
		case nnames > 0 && r.IntN(10) < 7:
			return c19VE{K: "var", I: r.IntN(nnames)}
		case r.IntN(3) == 0:
			return c19VE{K: "in"}
		}
		return c19VE{K: "const", C: run.TV{V: []any{nil, true, 0, 7, "c", A{}, O{"k": 1}}[r.IntN(7)]}}
	}
	if depth <= 0 {
		return leaf()
	}
	switch k := r.IntN(14); k {
	case 0, 1, 2:
		return leaf()
	case 3, 4:
		e := c19VE{K: "arr"}
		for i, n := 0, r.IntN(4); i < n; i++ {
			e.Sub = append(e.Sub, c19GenVE(r, nnames, depth-1))
		}
		return e
	case 5:
		e := c19VE{K: "obj"}
		for i, n := 0, 1+r.IntN(3); i < n; i++ {
			e.Sub = append(e.Sub, c19GenVE(r, nnames, depth-1))
			e.Key = append(e.Key, "k"+strconv.Itoa(i))
		}
		return e
	case 6:
		if nnames > 0 {
			return c19VE{K: "let", I: r.IntN(nnames), Sub: []c19VE{c19GenVE(r, nnames, depth-1), c19GenVE(r, nnames, depth-1)}}
		}
		return leaf()
	default:
		return c19VE{K: []string{"def", "as", "first", "pipe", "idx", "closure", "null"}[k-7], Sub: []c19VE{c19GenVE(r, nnames, depth-1)}}
	}
}

type c19VarsCase struct {
	Names []string
	Vals  []run.TV
	Vals2 []run.TV
	Give  int // number of values handed to Run in the count check
	E     c19VE
	Input run.TV
}

// c19Next calls Next with recover.
func c19Next(it gojq.Iter) (v any, ok bool, pan string) {
	defer func() {
		if r := recover(); r != nil {
			pan = fmt.Sprintf("%v\n%s", r, run.Clip(string(debug.Stack())))
		}
	}()
	v, ok = it.Next()
	return
}

func c19RunSafe(code *gojq.Code, in any, vals []any) (it gojq.Iter, pan string) {
	defer func() {
		if r := recover(); r != nil {
			pan = fmt.Sprintf("%v\n%s", r, run.Clip(string(debug.Stack())))
		}
	}()
	return code.RunWithContext(run.Budget(defBudget), in, vals...), ""
}

var kC19Vars = run.NewKind("c19.vars", func(c *run.Ctx, t c19VarsCase) *run.Fail {
	src := c19VRender(t.E, t.Names)
	var opts []gojq.CompilerOption
	if len(t.Names) > 0 || t.Give%2 == 0 {
		opts = append(opts, gojq.WithVariables(t.Names))
	}
	cr := run.Compile(src, opts...)
	if cr.Code == nil {
		return run.Failf("WithVariables(%q): %q does not compile: %v %s", t.Names, src, cr.Err, cr.Panic)
	}
	envOf := func(vals []any) map[string]any {
		m := map[string]any{}
		for i, n := range t.Names {
			m[n] = vals[i] // bound in order: a later duplicate name shadows the earlier one
		}
		return m
	}
	v1, v2 := run.UnTVs(t.Vals), run.UnTVs(t.Vals2)
	want1 := run.Canon(c19VEval(t.E, t.Names, envOf(v1), t.Input.V))
	want2 := run.Canon(c19VEval(t.E, t.Names, envOf(v2), t.Input.V))
	c.Logf("src=%s\nwant1=%s\nwant2=%s", src, want1, want2)
	check := func(vals []any, want, what string) *run.Fail {
		tr := run.RunCode(cr.Code, t.Input.V, vals, defBudget, 5)
		if tr.End != run.EndOK || len(tr.Vals) != 1 || run.Canon(tr.Vals[0]) != want {
			return run.Failf("WithVariables(%q), values %s (%s): %q gave %s, want %s", t.Names, run.Clip(run.Canon(vals)), what, src, run.TraceDesc(tr), run.Clip(want))
		}
		return nil
	}
	for _, step := range []struct {
		vals []any
		want string
		what string
	}{{v1, want1, "first run"}, {v2, want2, "same Code, other values"}, {v1, want1, "same Code, first values again"}} {
		if f := check(step.vals, step.want, step.what); f != nil {
			return f
		}
	}
	// two live iterators of one Code must each see their own values
	itA, p1 := c19RunSafe(cr.Code, t.Input.V, v1)
	itB, p2 := c19RunSafe(cr.Code, t.Input.V, v2)
	if p1+p2 != "" {
		return run.Failf("Run panicked: %s%s", p1, p2)
	}
	b, okB, pB := c19Next(itB)
	a, okA, pA := c19Next(itA)
	if pA+pB != "" || !okA || !okB || run.Canon(a) != want1 || run.Canon(b) != want2 {
		return run.Failf("WithVariables(%q): interleaved iterators of one Code: got %s / %s, want %s / %s %s%s", t.Names, run.Clip(run.Canon(a)), run.Clip(run.Canon(b)), run.Clip(want1), run.Clip(want2), pA, pB)
	}
	c.Count("vars_bindings_checked", int64(len(t.Names)))
	c.Distinct("vars_name_count", strconv.Itoa(len(t.Names)))
	// wrong number of values: an error VALUE from the iterator
	if t.Give != len(t.Names) {
		var vals []any
		for i := 0; i < t.Give; i++ {
			if i < len(v1) {
				vals = append(vals, v1[i])
			} else {
				vals = append(vals, "extra")
			}
		}
		it, pan := c19RunSafe(cr.Code, t.Input.V, vals)
		if pan != "" || it == nil {
			return run.Failf("WithVariables(%q) run with %d values: Run panicked or returned nil: %s", t.Names, t.Give, pan)
		}
		v, ok, pan := c19Next(it)
		if pan != "" {
			return run.Failf("WithVariables(%q) run with %d values: Next panicked: %s", t.Names, t.Give, pan)
		}
		err, isErr := v.(error)
		if !ok || !isErr {
			return run.Failf("WithVariables(%q) run with %d values: first Next returned (%s, %v); an error value is required", t.Names, t.Give, run.Clip(run.Canon(v)), ok)
		}
		if v2, ok2, pan := c19Next(it); ok2 || pan != "" {
			return run.Failf("WithVariables(%q) run with %d values: after the error %v, Next returned (%s, %v) %s", t.Names, t.Give, err, run.Clip(run.Canon(v2)), ok2, pan)
		}
		if t.Give < len(t.Names) {
			c.Count("vars_too_few_is_error", 1)
			if strings.Contains(err.Error(), t.Names[t.Give]) {
				c.Count("vars_too_few_error_names_first_unbound", 1)
			}
		} else {
			c.Count("vars_too_many_is_error", 1)
		}
	}
	c.Nontrivial(src + "\x00" + strings.Join(t.Names, ",") + "\x00" + want1 + strconv.Itoa(t.Give))
	return nil
})

var c19VarNames = []string{"$a", "$b", "$c", "$foo", "$x1", "$ENV", "$__loc__", "$_", "$A", "$zz9", "$named", "$in"}

func c19GenVars(r *rand.Rand) c19VarsCase {
	n := []int{0, 1, 1, 2, 2, 3, 3, 4, 5, 6, 9}[r.IntN(11)]
	var t c19VarsCase
	perm := r.Perm(len(c19VarNames))
	for i := 0; i < n; i++ {
		name := c19VarNames[perm[i%len(perm)]]
		if i > 0 && r.IntN(8) == 0 {
			name = t.Names[r.IntN(i)] // duplicate: the later binding wins
		}
		t.Names = append(t.Names, name)
		t.Vals = append(t.Vals, run.TV{V: c19TagVal(r, "v", i)})
		t.Vals2 = append(t.Vals2, run.TV{V: c19TagVal(r, "w", i)})
	}
	t.E = c19GenVE(r, n, 3)
	t.Input = run.TV{V: []any{nil, "IN", A{1, 2}, O{"a": 1}}[r.IntN(4)]}
	switch r.IntN(4) {
	case 0:
		t.Give = n
	case 1:
		t.Give = r.IntN(n + 1) // too few (or exact when n == 0)
	case 2:
		t.Give = n + 1 + r.IntN(3)
	default:
		t.Give = max(0, n-1)
	}
	return t
}

// c19TagVal: a value that identifies its own position, of a random type.
func c19TagVal(r *rand.Rand, tag string, i int) any {
	s := tag + strconv.Itoa(i)
	switch r.IntN(7) {
	case 0:
		return 1000*len(tag) + i
	case 1:
		return A{s, i}
	case 2:
		return O{"tag": s}
	case 3:
		return float64(i) + 0.5
	case 4:
		if r.IntN(3) == 0 {
			return nil
		}
		return i%2 == 0
	}
	return s
}

// ---------------------------------------------------------------------------
// 3b. WithInputIter
// ---------------------------------------------------------------------------

type c19LogIter struct {
	vals []any
	i    int
	log  *[]string
}

func (it *c19LogIter) Next() (any, bool) {
	if it.i >= len(it.vals) {
		*it.log = append(*it.log, "N:end")
		return nil, false
	}
	v := it.vals[it.i]
	it.i++
	*it.log = append(*it.log, "N:"+run.Canon(v))
	return v, true
}

type c19InputRow struct {
	Src   string
	Input any
	Outs  []string // canonical outputs
	Err   bool     // ends with an (uncaught) error after Outs
	Draws int      // calls of Next
}

// the iterator holds 0,1,2,3,4; outputs and draw counts are derived by hand
// from the jq semantics (lazy, depth-first, one Next per evaluation of input).
var c19InputTable = []c19InputRow{
	{"input", nil, []string{"0"}, false, 1},
	{"input, input", nil, []string{"0", "1"}, false, 2},
	{"[inputs]", nil, []string{"[0,1,2,3,4]"}, false, 6},
	{"first(inputs)", nil, []string{"0"}, false, 1},
	{"[limit(3; inputs)]", nil, []string{"[0,1,2]"}, false, 3},
	{"[limit(3; inputs)], [inputs]", nil, []string{"[0,1,2]", "[3,4]"}, false, 6},
	{"limit(0; inputs)", nil, []string{}, false, 0},
	{"[limit(2; input, input, input)]", nil, []string{"[0,1]"}, false, 2},
	{"first(input, input)", nil, []string{"0"}, false, 1},
	{"reduce range(3) as $i (0; . + input)", nil, []string{"3"}, false, 3},
	{"reduce inputs as $x (0; . + $x)", nil, []string{"10"}, false, 6},
	{"[foreach inputs as $x (0; . + $x)]", nil, []string{"[0,1,3,6,10]"}, false, 6},
	{"try (input | error) catch .", nil, []string{"0"}, false, 1},
	{"[range(2) | input]", nil, []string{"[0,1]"}, false, 2},
	{"[.[] | input]", A{7, 8, 9}, []string{"[0,1,2]"}, false, 3},
	{"def f: input; [f, f]", nil, []string{"[0,1]"}, false, 2},
	{"input as $x | input as $y | [$x, $y]", nil, []string{"[0,1]"}, false, 2},
	{"(input, input) as $x | $x * 10", nil, []string{"0", "10"}, false, 2},
	{"isempty(inputs)", nil, []string{"false"}, false, 1},
	{"any(inputs; . == 1)", nil, []string{"true"}, false, 2},
	{"all(inputs; . < 1)", nil, []string{"false"}, false, 2},
	{"nth(2; inputs)", nil, []string{"2"}, false, 3},
	{"label $l | inputs | if . > 1 then break $l else . end", nil, []string{"0", "1"}, false, 3},
	{"[inputs | select(. % 2 == 0)]", nil, []string{"[0,2,4]"}, false, 6},
	{"input | input", nil, []string{"1"}, false, 2},
	{"[., input]", "q", []string{`["q",0]`}, false, 1},
	{"if input then input else \"no\" end", nil, []string{"1"}, false, 2},
	{"[input, input] | add", nil, []string{"1"}, false, 2},
	{"[try repeat(input) catch \"done\"]", nil, []string{`[0,1,2,3,4,"done"]`}, false, 6},
	{"[limit(7; repeat(input))]", nil, []string{}, true, 6},
	{"[inputs], [inputs]", nil, []string{"[0,1,2,3,4]", "[]"}, false, 7},
	{"input, (input | error)?, input", nil, []string{"0", "2"}, false, 3},
	{"([inputs] | length), (try input catch \"x\")", nil, []string{"5", `"x"`}, false, 7},
	{"[limit(2; inputs)] | length as $n | [limit($n; inputs)]", nil, []string{"[2,3]"}, false, 4},
	{"def f(g): [g, g]; f(input)", nil, []string{"[0,1]"}, false, 2},
	{"def f($a): [$a, $a]; f(input)", nil, []string{"[0,0]"}, false, 1},
	{"[input] | map(. + 1)", nil, []string{"[1]"}, false, 1},
	{"input // \"d\"", nil, []string{"0"}, false, 1},
	{"(input | not) // \"d\"", nil, []string{`"d"`}, false, 1},
	{"first(inputs | select(. > 2))", nil, []string{"3"}, false, 4},
	{"[until(. >= 3; input)]", 0, []string{"[3]"}, false, 4},
	{"[while(. < 2; input)]", -1, []string{"[-1,0,1]"}, false, 3},
	{"[recurse(if . < 2 then input else empty end)]", -1, []string{"[-1,0,1,2]"}, false, 3},
	{"limit(1; inputs), limit(1; inputs)", nil, []string{"0", "1"}, false, 2},
	{"[.[] as $x | input + $x]", A{10, 20}, []string{"[10,21]"}, false, 2},
	{"try (input, error(\"x\"), input) catch \"c\"", nil, []string{"0", `"c"`}, false, 1},
	{"try error(\"x\") catch input", nil, []string{"0"}, false, 1},
	{"[input?]", nil, []string{"[0]"}, false, 1},
	{"1, ., [limit(0; input)]", "q", []string{"1", `"q"`, "[]"}, false, 0},
	{"if false then input else 5 end", nil, []string{"5"}, false, 0},
	{"def f: input; 3", nil, []string{"3"}, false, 0},
	{"[inputs] | map(input?)", nil, []string{"[]"}, false, 11},
	{"input, input, input, input, input, input", nil, []string{"0", "1", "2", "3", "4"}, true, 6},
	{"[inputs, (try input catch \"after\")]", nil, []string{`[0,1,2,3,4,"after"]`}, false, 7},
	{"[first(inputs), first(inputs)]", nil, []string{"[0,1]"}, false, 2},
	{"[limit(2; inputs | (., .))]", nil, []string{"[0,0]"}, false, 1},
	{"[inputs as $x | $x, $x] | length", nil, []string{"10"}, false, 6},
	{"[splits(\"a\")] | length as $n | [limit($n; inputs)]", "xaxax", []string{"[0,1,2]"}, false, 3},
	{"[paths] | length as $n | reduce range($n) as $i ([]; . + [input])", O{"a": A{1}}, []string{"[0,1]"}, false, 2},
	{"(input, input) | select(. > 0) | [., input]", nil, []string{"[1,2]"}, false, 3},
}

type c19InputCase struct {
	Tab   int // >= 0: row of c19InputTable
	Src   string
	Vals  []run.TV
	Input run.TV
}

const c19IN = "(c19tick | input | c19tock)"

func c19InputOpts(vals []any, log *[]string) []gojq.CompilerOption {
	return []gojq.CompilerOption{
		gojq.WithInputIter(&c19LogIter{vals: vals, log: log}),
		gojq.WithFunction("c19tick", 0, 0, func(v any, _ []any) any { *log = append(*log, "T"); return v }),
		gojq.WithFunction("c19tock", 0, 0, func(v any, _ []any) any { *log = append(*log, "K:"+run.Canon(v)); return v }),
	}
}

var kC19Input = run.NewKind("c19.input", func(c *run.Ctx, t c19InputCase) *run.Fail {
	var log []string
	if t.Tab >= 0 {
		if t.Tab >= len(c19InputTable) {
			return run.Failf("table row out of range")
		}
		row := c19InputTable[t.Tab]
		vals := []any{0, 1, 2, 3, 4}
		cr := run.Compile(row.Src, gojq.WithInputIter(&c19LogIter{vals: vals, log: &log}))
		if cr.Code == nil {
			return run.Failf("WithInputIter: %q does not compile: %v %s", row.Src, cr.Err, cr.Panic)
		}
		tr := run.RunCode(cr.Code, row.Input, nil, defBudget, 0)
		c.Logf("%s\nlog=%v", run.TraceDesc(tr), log)
		bad := tr.End == run.EndPanic || tr.End == run.EndBudget || (tr.End == run.EndError) != row.Err || len(tr.Vals) != len(row.Outs)
		for i := 0; !bad && i < len(row.Outs); i++ {
			bad = run.Canon(tr.Vals[i]) != row.Outs[i]
		}
		if bad {
			return run.Failf("WithInputIter over 0..4: %q on %s gave %s; want %v (error=%v)", row.Src, run.Canon(row.Input), run.TraceDesc(tr), row.Outs, row.Err)
		}
		if len(log) != row.Draws {
			return run.Failf("WithInputIter over 0..4: %q called the iterator's Next %d times (%v); the program evaluates `input` %d times", row.Src, len(log), log, row.Draws)
		}
		for i, l := range log {
			want := "N:end"
			if i < len(vals) {
				want = "N:" + strconv.Itoa(i)
			}
			if l != want {
				return run.Failf("WithInputIter: %q: draw #%d logged %s, want %s", row.Src, i, l, want)
			}
		}
		// the library's own slice iterator over a list the caller keeps: a second compilation over the same list sees the same inputs
		shared := []any{0, 1, 2, 3, 4}
		for round := 0; round < 2; round++ {
			cr2 := run.Compile(row.Src, gojq.WithInputIter(gojq.NewIter(shared...)))
			if cr2.Code == nil {
				return run.Failf("WithInputIter(NewIter): %q does not compile: %v %s", row.Src, cr2.Err, cr2.Panic)
			}
			tr2 := run.RunCode(cr2.Code, row.Input, nil, defBudget, 0)
			if d, _ := run.SameTrace(tr, tr2, run.DiffOpt{}); d != "" {
				return run.Failf("WithInputIter(gojq.NewIter(list...)), use #%d of the same list: %q gave %s, the instrumented iterator over the same values gave %s (%s)", round+1, row.Src, run.TraceDesc(tr2), run.TraceDesc(tr), d)
			}
			if run.Canon(shared) != "[0,1,2,3,4]" {
				return run.Failf("WithInputIter(gojq.NewIter(list...)): after running %q the caller's list is %s", row.Src, run.Canon(shared))
			}
		}
		c.Count("input_table_rows", 1)
		c.Count("input_draws_checked", int64(len(log)))
		c.Nontrivial("tab:" + row.Src)
		return nil
	}
	vals := run.UnTVs(t.Vals)
	cr := run.Compile(t.Src, c19InputOpts(vals, &log)...)
	if cr.Code == nil {
		return run.Failf("WithInputIter: generated %q does not compile: %v %s", t.Src, cr.Err, cr.Panic)
	}
	tr := run.RunCode(cr.Code, run.DeepCopy(t.Input.V), nil, 20000, 60)
	c.Logf("%s\nlog=%v", run.TraceDesc(tr), log)
	if tr.End == run.EndPanic {
		return run.Failf("%q panicked: %s", t.Src, tr.Panic)
	}
	partial := tr.End == run.EndBudget || tr.End == run.EndLimit
	draws, next := 0, 0
	for i := 0; i < len(log); {
		// one evaluation of input = tick, exactly one Next, tock with that value
		if log[i] != "T" {
			return run.Failf("WithInputIter: %q: log entry #%d is %s outside an evaluation of `input` (log %v)", t.Src, i, log[i], run.Clip(fmt.Sprint(log)))
		}
		if i+1 >= len(log) {
			if !partial {
				return run.Failf("WithInputIter: %q: `input` was evaluated without calling the iterator (log %v)", t.Src, run.Clip(fmt.Sprint(log)))
			}
			break
		}
		n := log[i+1]
		if !strings.HasPrefix(n, "N:") {
			return run.Failf("WithInputIter: %q: evaluation #%d of `input` did not call Next (log %v)", t.Src, draws, run.Clip(fmt.Sprint(log)))
		}
		want := "N:end"
		if next < len(vals) {
			want = "N:" + run.Canon(vals[next])
			next++
		}
		if n != want {
			return run.Failf("WithInputIter: %q: draw #%d returned %s, the iterator's next value is %s", t.Src, draws, n, want)
		}
		draws++
		if n == "N:end" {
			i += 2 // the evaluation raises an error: no tock
			continue
		}
		if i+2 >= len(log) {
			if !partial {
				return run.Failf("WithInputIter: %q: the value drawn by evaluation #%d never left `input` (log %v)", t.Src, draws-1, run.Clip(fmt.Sprint(log)))
			}
			break
		}
		if log[i+2] != "K:"+n[2:] {
			return run.Failf("WithInputIter: %q: evaluation #%d of `input` drew %s from the iterator, but the next event is %s instead of that value leaving `input` (log %v)", t.Src, draws-1, n[2:], log[i+2], run.Clip(fmt.Sprint(log)))
		}
		i += 3
	}
	c.Count("input_generated_programs", 1)
	c.Count("input_draws_checked", int64(draws))
	c.Distinct("input_draw_count", strconv.Itoa(draws))
	if draws > 0 {
		c.Nontrivial("gen:" + t.Src + run.Canon(t.Input.V) + strconv.Itoa(len(vals)))
	}
	return nil
})

// ---------------------------------------------------------------------------
// 3c. WithEnvironLoader
// ---------------------------------------------------------------------------

type c19EnvCase struct {
	Pairs []string // what the loader returns
	Real  []string // NAME=VALUE planted into the real process environment
	Nil   bool     // the loader returns nil
}

func c19EnvModel(pairs []string) map[string]any {
	m := map[string]any{}
	for _, kv := range pairs {
		i := strings.IndexByte(kv, '=')
		if i <= 0 {
			continue // no '=' or an empty name: not a pair
		}
		m[kv[:i]] = kv[i+1:] // a later duplicate replaces the earlier one
	}
	return m
}

var kC19Env = run.NewKind("c19.env", func(c *run.Ctx, t c19EnvCase) *run.Fail {
	var restore []func()
	defer func() {
		for _, f := range restore {
			f()
		}
	}()
	names := map[string]bool{"HOME": true, "PATH": true, "NOSUCH": true}
	for _, kv := range t.Real {
		k, v, _ := strings.Cut(kv, "=")
		old, had := os.LookupEnv(k)
		if os.Setenv(k, v) != nil {
			continue
		}
		names[k] = true
		restore = append(restore, func() {
			if had {
				os.Setenv(k, old)
			} else {
				os.Unsetenv(k)
			}
		})
	}
	pairs := t.Pairs
	if t.Nil {
		pairs = nil
	}
	model := c19EnvModel(pairs)
	for k := range model {
		names[k] = true
	}
	for _, kv := range pairs {
		names[kv] = true
		if k, _, ok := strings.Cut(kv, "="); ok {
			names[k] = true
		}
	}
	var nameList []any
	for k := range names {
		nameList = append(nameList, k)
	}
	sort.Slice(nameList, func(i, j int) bool { return nameList[i].(string) < nameList[j].(string) })
	calls := 0
	loader := func() []string {
		calls++
		if t.Nil {
			return nil
		}
		return append([]string(nil), t.Pairs...)
	}
	wantObj := run.Canon(model)
	var wantLook []any
	for _, n := range nameList {
		v := model[n.(string)] // nil when absent
		wantLook = append(wantLook, A{v, v})
	}
	keys := make([]any, 0, len(model))
	for k := range model {
		keys = append(keys, k)
	}
	sort.Slice(keys, func(i, j int) bool { return keys[i].(string) < keys[j].(string) })
	progs := []struct{ src, want string }{
		{"env", wantObj}, {"$ENV", wantObj}, {"[env, $ENV] | unique | length", "1"}, {"env | keys", run.Canon(keys)}, {"$ENV | length", strconv.Itoa(len(model))},
		{"[$names[] as $n | [env[$n], $ENV[$n]]]", run.Canon(wantLook)}, {"def f: $ENV; [f == env, (env | .C19_added = 1 | del(.HOME) | length >= 1), env == f] | all", "true"},
		{"[limit(2; repeat(env))] | .[0] == .[1] and .[0] == $ENV", "true"}, {"env | to_entries | from_entries", wantObj}, {"[env[]] | length", strconv.Itoa(len(model))},
	}
	for _, p := range progs {
		cr := run.Compile(p.src, gojq.WithVariables([]string{"$names"}), gojq.WithEnvironLoader(loader))
		if cr.Code == nil {
			return run.Failf("WithEnvironLoader: %q does not compile: %v %s", p.src, cr.Err, cr.Panic)
		}
		for rep := 0; rep < 2; rep++ { // a Code is reusable: the second run must show the same
			tr := run.RunCode(cr.Code, nil, []any{nameList}, defBudget, 5)
			if tr.End != run.EndOK || len(tr.Vals) != 1 || run.Canon(tr.Vals[0]) != p.want {
				return run.Failf("WithEnvironLoader(%q) with %q planted in the process environment: %q (run %d) gave %s, want %s", pairs, t.Real, p.src, rep+1, run.TraceDesc(tr), run.Clip(p.want))
			}
		}
		c.AddEvals(1)
	}
	if calls == 0 {
		return run.Failf("WithEnvironLoader: the loader was never called although env/$ENV were compiled")
	}
	c.Gauge("env_loader_calls_per_case_max", int64(calls))
	c.Count("env_pairs_checked", int64(len(model)))
	c.Count("env_entries_skipped_by_model", int64(len(pairs)-len(model)))
	c.Nontrivial(strings.Join(pairs, "\x00") + "\x01" + strings.Join(t.Real, "\x00"))
	return nil
})

var (
	c19EnvNames = []string{"HOME", "PATH", "A", "B", "a", "FOO_BAR", "x.y", "with space", "é", "C19_MARK", "TZ", "_", "1", "LONG_NAME_0123456789"}
	c19EnvVals  = []string{"", "v", "a=b", "=", "==x", "/usr/bin:/bin", "multi\nline", "é ü", "  ", "{\"json\":1}", "$HOME", "0", "null", "x=y=z"}
)

func c19GenEnv(r *rand.Rand) c19EnvCase {
	var t c19EnvCase
	for i, n := 0, r.IntN(9); i < n; i++ {
		name := c19EnvNames[r.IntN(len(c19EnvNames))]
		switch r.IntN(12) {
		case 0:
			t.Pairs = append(t.Pairs, name) // no '='
		case 1:
			t.Pairs = append(t.Pairs, "="+c19EnvVals[r.IntN(len(c19EnvVals))]) // empty name
		case 2:
			if len(t.Pairs) > 0 { // duplicate of an earlier name with another value
				k, _, _ := strings.Cut(t.Pairs[r.IntN(len(t.Pairs))], "=")
				if k != "" {
					name = k
				}
			}
			fallthrough
		default:
			t.Pairs = append(t.Pairs, name+"="+c19EnvVals[r.IntN(len(c19EnvVals))])
		}
	}
	for i, n := 0, r.IntN(4); i < n; i++ {
		name := []string{"HOME", "PATH", "A", "B", "FOO_BAR", "C19_MARK", "C19_REAL_ONLY"}[r.IntN(7)]
		t.Real = append(t.Real, name+"=real-"+strconv.Itoa(r.IntN(100)))
	}
	t.Nil = r.IntN(25) == 0
	return t
}

func c19BodyGrants(c *run.Ctx) {
	r := c.Rand("c19.grants")
	for i := 0; i < c.N(3000, 60000); i++ {
		kC19Vars.Do(c, c19GenVars(r))
	}
	for rep := 0; rep < c.N(1, 2); rep++ {
		for i := range c19InputTable {
			kC19Input.Do(c, c19InputCase{Tab: i})
		}
	}
	ins := gen.USmall()
	pool := []any{0, 1, 2, nil, false, "s", A{1}, O{"a": 2}, true, 3, 4, 5}
	for i := 0; i < c.N(4000, 80000); i++ {
		src, _ := c19FillCtx(r, func() string { return c19IN })
		k := r.IntN(9)
		vals := make([]run.TV, k)
		for j := range vals {
			if r.IntN(3) == 0 {
				vals[j] = run.TV{V: pool[r.IntN(len(pool))]}
			} else {
				vals[j] = run.TV{V: j}
			}
		}
		kC19Input.Do(c, c19InputCase{Tab: -1, Src: src, Vals: vals, Input: run.TV{V: ins[r.IntN(len(ins))]}})
	}
	for i := 0; i < c.N(1500, 30000); i++ {
		kC19Env.Do(c, c19GenEnv(r))
	}
}
