package mon

import (
	"bytes"
	"encoding/json"
	"fmt"
	"math"
	"math/big"
	"math/rand/v2"
	"strconv"
	"strings"
	"sync"

	"verif/harness/internal/run"

	"github.com/itchyny/gojq"
)

// ---- C10: exact integers, undamaged literals ----

type c10Arith struct {
	Op     string
	A, B   string // decimal
	RA, RB int    // 0 int-or-big (normalised), 1 *big.Int always, 2 json.Number
}

func repInt(b *big.Int, rep int) any {
	switch rep {
	case 1:
		return new(big.Int).Set(b)
	case 2:
		return json.Number(b.String())
	}
	if b.IsInt64() {
		if v := b.Int64(); int64(int(v)) == v {
			return int(v)
		}
	}
	return new(big.Int).Set(b)
}

var (
	c10CodeMu sync.Mutex
	c10Codes  = map[string]*gojq.Code{}
)

func c10Code(src string) *gojq.Code {
	c10CodeMu.Lock()
	defer c10CodeMu.Unlock()
	if c, ok := c10Codes[src]; ok {
		return c
	}
	res := run.Compile(src, gojq.WithVariables([]string{"$a", "$b"}))
	if res.Code == nil {
		panic(fmt.Sprintf("c10: %q does not compile: %v %s", src, res.Err, res.Panic))
	}
	c10Codes[src] = res.Code
	return res.Code
}

var c10Ops = map[string]string{
	"+": "$a + $b", "-": "$a - $b", "*": "$a * $b", "/": "$a / $b", "%": "$a % $b",
	"neg": "-$a", "abs": "$a | abs", "length": "$a | length",
	"cmp": "[$a == $b, $a != $b, $a < $b, $a <= $b, $a > $b, $a >= $b]",
	// equality of integers as the other builtins see it
	"eqs":     "[($a | contains($b)), ($a | inside($b)), ([$a] | contains([$b])), ({k: $a} | contains({k: $b})), ([$a] | index($b) == 0), ([$a, $b] | unique | length == 1), ([$a] | inside([$b])), ([$a, $b] | group_by(.) | length == 1), ([$a] - [$b] == []), ($a | IN($b, null)), ([$b] | bsearch($a) >= 0), ([$a, $b] | (min == max))]",
	"neg-lit": "$a | -(.)", "sub0": "0 - $a", "toarr": "[$a, $b] | (.[0] + .[1])",
	// sums as the summing builtins compute them (their own loops, not the operator)
	"sums": "[([$a, $b] | add), ([$b, $a] | add), ([null, $a, $b] | add), add($a, $b), ([$a, $b] | add(.[])), (reduce ($a, $b) as $x (0; . + $x)), ([[$a], [$b]] | add | add), ({x: $a, y: $b} | add), ([$a, $b, 0] | add), ([0, $a, $b] | add)]",
	"sum3": "[([$a, $b, $a] | add), ([$a, $a, $b] | add), (reduce ($a, $b, $a) as $x (null; . + $x)), ([$a, $b] | add + $a)]",
}

var two31 = new(big.Int).Lsh(big.NewInt(1), 31)

var kC10Arith = run.NewKind("c10.arith", func(c *run.Ctx, t c10Arith) *run.Fail {
	a, ok1 := new(big.Int).SetString(t.A, 10)
	b, ok2 := new(big.Int).SetString(t.B, 10)
	if !ok1 || !ok2 {
		return run.Failf("bad case")
	}
	src, ok := c10Ops[t.Op]
	if !ok {
		return run.Failf("bad op")
	}
	av, bv := repInt(a, t.RA), repInt(b, t.RB)
	tr := run.RunCode(c10Code(src), nil, []any{av, bv}, 10000, 0)
	c.Logf("gojq: %s", run.TraceDesc(tr))
	if tr.End == run.EndPanic {
		return run.Failf("panic: %s", tr.Panic)
	}
	// the operands still denote the same integers (an operator that computes into an operand makes every later use
	// of that value, e.g. a literal in a loop, inexact)
	if run.Canon(av) != a.String() || run.Canon(bv) != b.String() {
		return run.Failf("%s with $a=%s(rep %d) $b=%s(rep %d): after the evaluation the operand values read $a=%s $b=%s", src, t.A, t.RA, t.B, t.RB, run.Canon(av), run.Canon(bv))
	}
	wantErr := false
	var want string
	var approx *big.Float
	res := new(big.Int)
	switch t.Op {
	case "+", "toarr":
		res.Add(a, b)
	case "-":
		res.Sub(a, b)
	case "*":
		res.Mul(a, b)
	case "/":
		if b.Sign() == 0 {
			wantErr = true
		} else if q, r := new(big.Int).QuoRem(a, b, new(big.Int)); r.Sign() == 0 {
			res = q
		} else {
			approx = new(big.Float).SetPrec(200).Quo(new(big.Float).SetPrec(200).SetInt(a), new(big.Float).SetPrec(200).SetInt(b))
		}
	case "%":
		if b.Sign() == 0 {
			wantErr = true
		} else {
			res.Rem(a, b) // truncated: sign of the dividend
		}
	case "neg", "neg-lit", "sub0":
		res.Neg(a)
	case "abs", "length":
		res.Abs(a)
	case "cmp":
		k := a.Cmp(b)
		want = fmt.Sprintf("[%v,%v,%v,%v,%v,%v]", k == 0, k != 0, k < 0, k <= 0, k > 0, k >= 0)
	case "sums":
		sres := new(big.Int).Add(a, b)
		want = "[" + strings.TrimSuffix(strings.Repeat(sres.String()+",", 10), ",") + "]"
	case "sum3":
		sres := new(big.Int).Add(new(big.Int).Add(a, b), a)
		want = "[" + strings.TrimSuffix(strings.Repeat(sres.String()+",", 4), ",") + "]"
	case "eqs":
		e := a.Cmp(b) == 0
		want = "[" + strings.TrimSuffix(strings.Repeat(fmt.Sprint(e)+",", 12), ",") + "]"
	}
	big31 := a.CmpAbs(two31) >= 0 || b.CmpAbs(two31) >= 0 || res.CmpAbs(two31) >= 0
	if big31 {
		c.Nontrivial(fmt.Sprintf("%s %s %s %d%d", t.Op, t.A, t.B, t.RA, t.RB))
	}
	if wantErr {
		c.Count("zero_divisor_cases", 1)
		if tr.End != run.EndError {
			return run.Failf("%s with zero divisor must be an error, got %s", src, run.TraceDesc(tr))
		}
		return nil
	}
	if tr.End != run.EndOK || len(tr.Vals) != 1 {
		return run.Failf("%s: expected one value, got %s", src, run.TraceDesc(tr))
	}
	got := run.Canon(tr.Vals[0])
	if approx != nil {
		c.Count("inexact_quotients", 1)
		f, ok := tr.Vals[0].(float64)
		if !ok {
			return run.Failf("%s: non-integral quotient must be a float, got %T %s", src, tr.Vals[0], got)
		}
		if math.IsInf(f, 0) || math.IsNaN(f) {
			// quotient magnitude beyond double range cannot happen for |a|,|b| < 2^140 unless conversion saturated
			return run.Failf("%s: quotient %s", src, got)
		}
		diff := new(big.Float).SetPrec(200).Sub(approx, new(big.Float).SetPrec(200).SetFloat64(f))
		diff.Abs(diff)
		tol := new(big.Float).SetPrec(200).Abs(approx)
		tol.Mul(tol, new(big.Float).SetFloat64(math.Ldexp(1, -49)))
		if diff.Cmp(tol) > 0 {
			return run.Failf("%s: quotient %s is not within 2^-49 of the exact %s", src, got, approx.Text('g', 30))
		}
		return nil
	}
	if want == "" {
		want = res.String()
		if res.CmpAbs(two31) >= 0 {
			c.Count("results_beyond_2^31", 1)
		}
		if !res.IsInt64() {
			c.Count("results_beyond_int64", 1)
		}
	}
	if got != want {
		return run.Failf("%s with $a=%s(rep %d) $b=%s(rep %d): got %s, exact result %s", src, t.A, t.RA, t.B, t.RB, got, want)
	}
	// the result must also print exactly
	if t.Op != "cmp" {
		bs, err := gojq.Marshal(tr.Vals[0])
		if nc, ok := run.NumCanon(json.Number(string(bs))); err == nil && ok && nc == want && json.Valid(bs) && isJSONInt(string(bs)) {
			return nil
		}
		if err != nil || string(bs) != want {
			// an integral float prints in float syntax; accept if it parses back to the same integer
			if f, ok := tr.Vals[0].(float64); ok && err == nil {
				if bf, _ := new(big.Float).SetFloat64(f).Int(nil); bf.String() == want {
					if pf, perr := strconv.ParseFloat(string(bs), 64); perr == nil && pf == f {
						return nil
					}
				}
			}
			return run.Failf("%s: result %s marshals as %q (%v)", src, want, bs, err)
		}
	}
	return nil
})

func isJSONInt(s string) bool {
	s = strings.TrimPrefix(s, "-")
	return s != "" && strings.Trim(s, "0123456789") == ""
}

// boundary set
func c10Boundary(r *rand.Rand, nrand int) []*big.Int {
	seen := map[string]bool{}
	var out []*big.Int
	add := func(b *big.Int) {
		for _, s := range []int{1, -1} {
			x := new(big.Int).Set(b)
			if s < 0 {
				x.Neg(x)
			}
			if !seen[x.String()] {
				seen[x.String()] = true
				out = append(out, x)
			}
		}
	}
	add(big.NewInt(0))
	add(big.NewInt(1))
	add(big.NewInt(2))
	add(big.NewInt(3))
	add(big.NewInt(7))
	add(big.NewInt(10))
	for k := 1; k <= 130; k++ {
		p := new(big.Int).Lsh(big.NewInt(1), uint(k))
		add(p)
		add(new(big.Int).Add(p, big.NewInt(1)))
		add(new(big.Int).Sub(p, big.NewInt(1)))
	}
	for d := int64(-3); d <= 3; d++ {
		add(new(big.Int).Add(big.NewInt(math.MaxInt64), big.NewInt(d)))
		add(new(big.Int).Add(big.NewInt(math.MinInt64), big.NewInt(d)))
		add(big.NewInt(3037000499 + d))
		add(big.NewInt(2147483647 + d))
		add(big.NewInt(4294967296 + d))
		add(big.NewInt(9007199254740992 + d))
	}
	p := big.NewInt(1)
	for k := 1; k <= 40; k++ {
		p = new(big.Int).Mul(p, big.NewInt(10))
		add(p)
		if k%4 == 0 {
			add(new(big.Int).Sub(p, big.NewInt(1)))
		}
	}
	for i := 0; i < nrand; i++ {
		nd := 1 + r.IntN(40)
		var sb strings.Builder
		sb.WriteByte(byte('1' + r.IntN(9)))
		for j := 1; j < nd; j++ {
			sb.WriteByte(byte('0' + r.IntN(10)))
		}
		b, _ := new(big.Int).SetString(sb.String(), 10)
		add(b)
	}
	return out
}

// ---- literals ----

type c10Lit struct {
	Filter string   `json:"filter"`
	Wrap   string   `json:"wrap"` // "", "arr", "obj": how the literal is embedded in the input
	Lits   []string `json:"lits"`
	CLI    bool     `json:"cli"`
	Args   []string `json:"args"`
}

var c10Filters = []struct{ f, wrap string }{
	{".", ""}, {".[0]", "arr"}, {".a", "obj"}, {"first(.[])", "arr"}, {"[.[]] | .[0]", "arr"},
	{"to_entries[0].value", "obj"}, {"if . then . else . end", ""}, {"select(true)", ""}, {". as $x | $x", ""},
	{"[.] | first", ""}, {"{a: .} | .a", ""}, {"try . catch 0", ""}, {". // 0", ""}, {"reduce . as $x (null; $x)", ""},
	{"limit(1; ., .)", ""}, {"getpath([])", ""}, {"[., 1] | .[0]", ""}, {".. | numbers", "arr"}, {".[]", "obj"},
	{"[.] | .[-1:][0]", ""}, {". as [$x] | $x", "arr"}, {". as {a: $x} | $x", "obj"}, {"label $l | ., break $l", ""},
	{"foreach . as $x (0; $x)", ""}, {"def f: .; f", ""}, {"def f(g): g; f(.)", ""}, {"def f($x): $x; f(.)", ""},
	{"[.[] | .] | last", "arr"}, {"with_entries(.) | .a", "obj"}, {"map(.) | .[0]", "arr"}, {"first", "arr"}, {"last", "arr"},
	{"nth(0)", "arr"}, {"getpath([\"a\"])", "obj"}, {"[paths] as $p | getpath($p[0])", "obj"}, {"tostream | select(length == 2) | .[1]", "arr"},
	{"fromstream(tostream) | .[0]", "arr"}, {"del(.b) | .a", "obj"}, {".b = 1 | .a", "obj"}, {"map_values(.) | .a", "obj"},
	{"(.. | select(type == \"boolean\")) |= not | .a", "obj"}, {"[.[0], .[0]] | .[1]", "arr"},
}

func c10LitShapes(r *rand.Rand, n int) []string {
	fixed := []string{
		"0", "-0", "1", "-1", "1.0", "-1.0", "1.00", "0.10", "100", "1e2", "1E2", "1E+2", "1e+2", "1e-2", "1E-2", "1e-7", "1.5e-7",
		"0.0000001", "0.000001", "123456789012345678901234567890", "-123456789012345678901234567890",
		"0.1234567890123456789012345678901234567890", "3.14159265358979323846264338327950288419716939937510",
		"1e1000", "-1e1000", "1e-1000", "1E1000", "1.0e1000", "9007199254740993", "9223372036854775807", "9223372036854775808",
		"-9223372036854775808", "-9223372036854775809", "18446744073709551616", "1.7976931348623157e308", "1.7976931348623159e308",
		"5e-324", "4.9e-324", "2.2250738585072014e-308", "0e0", "0E-0", "-0.0", "-0e10", "0.0", "1000000000000000000000", "1e21", "1e20",
		"0.1e1", "10e-1", "12345678.90", "1.10", "100.000", "1e00", "1e01", "1e+01", "1E-01", "99999999999999999999.99999999999999999999",
	}
	out := append([]string{}, fixed...)
	// arbitrary size and precision: literals longer than any fixed-size scratch buffer (64, 128, 4096, 8192 bytes)
	digits := func(k int) string {
		var sb strings.Builder
		sb.WriteByte(byte('1' + r.IntN(9)))
		for j := 1; j < k; j++ {
			sb.WriteByte(byte('0' + r.IntN(10)))
		}
		return sb.String()
	}
	for _, k := range []int{60, 63, 64, 65, 66, 100, 127, 128, 129, 255, 300, 1000, 4095, 4097, 8191, 8193, 20000} {
		out = append(out, digits(k), "-"+digits(k), "0."+digits(k), digits(k/2)+"."+digits(k-k/2), digits(k)+"e"+fmt.Sprint(r.IntN(300)), "1."+digits(k)+"E-"+fmt.Sprint(1+r.IntN(300)), "-"+digits(3)+"."+digits(k)+"e+5")
	}
	for i := 0; i < n; i++ {
		var sb strings.Builder
		if r.IntN(3) == 0 {
			sb.WriteByte('-')
		}
		nd := 1 + r.IntN(30)
		if r.IntN(4) == 0 {
			sb.WriteByte('0')
		} else {
			sb.WriteByte(byte('1' + r.IntN(9)))
			for j := 1; j < nd; j++ {
				sb.WriteByte(byte('0' + r.IntN(10)))
			}
		}
		if r.IntN(2) == 0 {
			sb.WriteByte('.')
			for j, nf := 0, 1+r.IntN(25); j < nf; j++ {
				sb.WriteByte(byte('0' + r.IntN(10)))
			}
		}
		if r.IntN(3) == 0 {
			sb.WriteByte("eE"[r.IntN(2)])
			if k := r.IntN(3); k > 0 {
				sb.WriteByte("+-"[k-1])
			}
			for j, ne := 0, 1+r.IntN(4); j < ne; j++ {
				sb.WriteByte(byte('0' + r.IntN(10)))
			}
		}
		out = append(out, sb.String())
	}
	return out
}

func c10Embed(lit json.Number, wrap string) any {
	switch wrap {
	case "arr":
		return []any{lit}
	case "obj":
		return map[string]any{"a": lit}
	}
	return lit
}

func c10EmbedText(lit, wrap string) string {
	switch wrap {
	case "arr":
		return "[" + lit + "]"
	case "obj":
		return `{"a":` + lit + `}`
	}
	return lit
}

var kC10Lit = run.NewKind("c10.literal", func(c *run.Ctx, t c10Lit) *run.Fail {
	if !t.CLI {
		res := run.Compile(t.Filter)
		if res.Code == nil {
			return run.Failf("filter %q does not compile: %v", t.Filter, res.Err)
		}
		for _, lit := range t.Lits {
			tr := run.RunCode(res.Code, c10Embed(json.Number(lit), t.Wrap), nil, 100000, 0)
			if tr.End != run.EndOK || len(tr.Vals) < 1 {
				return run.Failf("%s on literal %s: %s", t.Filter, lit, run.TraceDesc(tr))
			}
			for _, v := range tr.Vals {
				bs, err := gojq.Marshal(v)
				if err != nil || string(bs) != lit {
					return run.Failf("%s: literal %s came out as %s (%T, err %v)", t.Filter, lit, bs, v, err)
				}
			}
			c.Nontrivial(t.Filter + "\x00" + lit)
		}
		c.AddEvals(int64(len(t.Lits)) - 1)
		return nil
	}
	var in bytes.Buffer
	for _, lit := range t.Lits {
		in.WriteString(c10EmbedText(lit, t.Wrap))
		in.WriteByte('\n')
	}
	r := run.CLI(run.CLIOpt{Args: append(append([]string{}, t.Args...), t.Filter), Stdin: in.Bytes()})
	if r.TimedOut || r.StartErr != nil {
		c.Inconclusive("cli-timeout")
		return nil
	}
	if r.Code != 0 {
		return run.Failf("gojq %v %q exited %d: %s", t.Args, t.Filter, r.Code, run.Clip(string(r.Stderr)))
	}
	lines := strings.Split(strings.TrimRight(string(r.Stdout), "\n"), "\n")
	if len(lines) != len(t.Lits) {
		return run.Failf("gojq %v %q: %d literals in, %d lines out", t.Args, t.Filter, len(t.Lits), len(lines))
	}
	for i, lit := range t.Lits {
		if strings.TrimSpace(lines[i]) != lit {
			return run.Failf("gojq %v %q: literal %s printed as %s", t.Args, t.Filter, lit, lines[i])
		}
		c.Nontrivial("cli" + strings.Join(t.Args, " ") + t.Filter + "\x00" + lit)
	}
	c.AddEvals(int64(len(t.Lits)) - 1)
	return nil
})

// ---- computed floats ----

type c10Float struct {
	Bits []uint64 `json:"bits"`
	CLI  bool     `json:"cli"`
	Args []string `json:"args"`
}

func sigDigits(s string) int {
	s = strings.TrimLeft(s, "-+")
	if i := strings.IndexAny(s, "eE"); i >= 0 {
		s = s[:i]
	}
	s = strings.Replace(s, ".", "", 1)
	s = strings.TrimLeft(s, "0")
	s = strings.TrimRight(s, "0")
	return len(s)
}

func checkFloatText(f float64, text string) string {
	if !json.Valid([]byte(text)) {
		return fmt.Sprintf("%q is not valid JSON", text)
	}
	switch {
	case math.IsNaN(f):
		if text != "null" {
			return fmt.Sprintf("NaN printed as %q, want null", text)
		}
		return ""
	case math.IsInf(f, 1):
		f = math.MaxFloat64
	case math.IsInf(f, -1):
		f = -math.MaxFloat64
	}
	g, err := strconv.ParseFloat(text, 64)
	if err != nil {
		return fmt.Sprintf("%q does not parse as a number: %v", text, err)
	}
	if g != f {
		return fmt.Sprintf("%q parses back to %v, want %v (bits %x)", text, g, f, math.Float64bits(f))
	}
	if want := sigDigits(strconv.FormatFloat(f, 'e', -1, 64)); sigDigits(text) > want {
		return fmt.Sprintf("%q has %d significant digits, the shortest round-trip form has %d", text, sigDigits(text), want)
	}
	return ""
}

var kC10Float = run.NewKind("c10.float", func(c *run.Ctx, t c10Float) *run.Fail {
	if !t.CLI {
		code := c10Code("$a + $b")
		for _, bits := range t.Bits {
			f := math.Float64frombits(bits)
			// compute the float: f/2 + f/2 (exact for normal numbers away from the subnormal edge), else f + 0
			var tr run.Trace
			h := f / 2
			if h+h == f && !math.IsInf(f, 0) && h != 0 {
				tr = run.RunCode(code, nil, []any{h, h}, 1000, 0)
			} else {
				tr = run.RunCode(code, nil, []any{f, 0.0}, 1000, 0)
			}
			if tr.End != run.EndOK || len(tr.Vals) != 1 {
				return run.Failf("float %x: %s", bits, run.TraceDesc(tr))
			}
			for _, enc := range []string{"marshal", "tojson", "tostring", "array"} {
				var text string
				switch enc {
				case "marshal":
					bs, err := gojq.Marshal(tr.Vals[0])
					if err != nil {
						return run.Failf("Marshal(%v): %v", f, err)
					}
					text = string(bs)
				case "array":
					bs, err := gojq.Marshal([]any{tr.Vals[0]})
					if err != nil || len(bs) < 2 {
						return run.Failf("Marshal([%v]): %v", f, err)
					}
					text = string(bs[1 : len(bs)-1])
				default:
					t2 := evalVars("$a | "+enc, nil, []string{"$a"}, []any{tr.Vals[0]}, 1000)
					if t2.End != run.EndOK || len(t2.Vals) != 1 {
						return run.Failf("%s of %v: %s", enc, f, run.TraceDesc(t2))
					}
					text, _ = t2.Vals[0].(string)
				}
				if msg := checkFloatText(f, text); msg != "" {
					return run.Failf("%s of computed float (bits %016x): %s", enc, bits, msg)
				}
			}
			if f != math.Trunc(f) || math.Abs(f) >= 1e17 {
				c.Nontrivial(fmt.Sprintf("f%x", bits))
			}
		}
		c.AddEvals(int64(len(t.Bits)) - 1)
		return nil
	}
	var in bytes.Buffer
	for _, bits := range t.Bits {
		f := math.Float64frombits(bits)
		if math.IsNaN(f) || math.IsInf(f, 0) {
			f = 1.5
		}
		in.WriteString(strconv.FormatFloat(f, 'e', 25, 64)) // over-long but exact-rounding text
		in.WriteByte('\n')
	}
	r := run.CLI(run.CLIOpt{Args: append(append([]string{}, t.Args...), ". + 0.0"), Stdin: in.Bytes()})
	if r.TimedOut || r.StartErr != nil {
		c.Inconclusive("cli-timeout")
		return nil
	}
	if r.Code != 0 {
		return run.Failf("gojq exited %d: %s", r.Code, run.Clip(string(r.Stderr)))
	}
	lines := strings.Split(strings.TrimRight(string(r.Stdout), "\n"), "\n")
	if len(lines) != len(t.Bits) {
		return run.Failf("%d floats in, %d lines out", len(t.Bits), len(lines))
	}
	for i, bits := range t.Bits {
		f := math.Float64frombits(bits)
		if math.IsNaN(f) || math.IsInf(f, 0) {
			f = 1.5
		}
		if msg := checkFloatText(f+0.0, lines[i]); msg != "" {
			return run.Failf("gojq %v '. + 0.0' on %s: %s", t.Args, strconv.FormatFloat(f, 'e', 25, 64), msg)
		}
		c.Nontrivial(fmt.Sprintf("clif%x", bits))
	}
	c.AddEvals(int64(len(t.Bits)) - 1)
	return nil
})

func c10FloatBits(r *rand.Rand, n int) []uint64 {
	var out []uint64
	for _, f := range []float64{0, math.Copysign(0, -1), 1, -1, 0.1, 0.2, 0.3, 1.0 / 3, 2.0 / 3, 1e-7, 1e-6, 1e-5, 9.999999e-7, 1e20, 1e21, 1e22, 9.99e20,
		1e15, 1e16, 1e17, 123456789012345680, 1e-9, 1.5e-9, 2.5e-10, 5e-324, 1e-323, 2.2250738585072014e-308, 2.225073858507201e-308,
		math.MaxFloat64, -math.MaxFloat64, math.Inf(1), math.Inf(-1), math.NaN(), 9007199254740992, 9007199254740994, 4503599627370496.5,
		0.5, 0.25, 1e100, 1e-100, 1.7976931348623157e308, 4.9406564584124654e-324, 1e23, 8.41e21, 5e-7, 1.234e-8, 100, 1e2, 1.5, 3.14} {
		out = append(out, math.Float64bits(f))
	}
	for e := -30; e <= 30; e++ {
		out = append(out, math.Float64bits(math.Pow(10, float64(e))))
		out = append(out, math.Float64bits(math.Nextafter(math.Pow(10, float64(e)), 0)))
		out = append(out, math.Float64bits(math.Nextafter(math.Pow(10, float64(e)), math.Inf(1))))
	}
	for i := 0; i < n; i++ {
		switch r.IntN(4) {
		case 0:
			out = append(out, r.Uint64()) // any bit pattern (incl. NaN payloads)
		case 1:
			out = append(out, math.Float64bits(r.Float64()*math.Pow(10, float64(r.IntN(40)-20))))
		case 2:
			out = append(out, math.Float64bits(float64(r.IntN(100000))/math.Pow(10, float64(r.IntN(8)))))
		default:
			out = append(out, r.Uint64()&0x000fffffffffffff) // subnormals
		}
	}
	return out
}

func init() {
	run.Register(&run.Prop{
		ID: "C10", Level: "exploration", MinNontrivial: 1000,
		Rule:        "arith: (op, a, b, repA, repB) with a,b from the boundary set (0, ±1, ±2^k, ±2^k±1 for k<=130, Min/MaxInt64 and sqrt(2^63) neighbours, 10^k, random 1..40-digit integers) evaluated by gojq as `$a op $b` and compared with math/big; non-trivial = some operand or the exact result has magnitude >= 2^31. literal: (filter, literal text) pairs, every literal counts. passthrough: arrays of 2-8 literals (repeats, equal values spelled differently) through ~90 filters that only move, select, group or reorder elements (sort, unique, group_by, min/max, reverse, flatten, tostream/fromstream, ... also as `. as $x | sort | $x`), from the input, a variable and fromjson, and through the command (stdin, --argjson, --slurpfile): every number of the output carries the spelling of an input literal (same multiset for permuting filters) and the array handed in is unchanged. float: computed float bit patterns through Marshal/tojson/tostring and the command's encoder; non-trivial = fractional or >= 1e17. eqs: a 12-fold equality battery (contains, inside, index, unique, group_by, array difference, IN, bsearch, min == max) over the same operand pairs.",
		Assumptions: []string{"math/big, strconv and encoding/json are correct", "operands reach gojq through WithVariables values (library API)"},
		Body: func(c *run.Ctx) {
			r := c.Rand("c10")
			B := c10Boundary(r, c.N(150, 300))
			c.Gauge("boundary_set_size", int64(len(B)))
			binops := []string{"+", "-", "*", "/", "%", "cmp", "eqs", "sums", "sum3"}
			if c.Quick() {
				// sampled pairs
				n := 150000
				for i := 0; i < n; i++ {
					a, b := B[r.IntN(len(B))], B[r.IntN(len(B))]
					for _, op := range binops {
						kC10Arith.Do(c, c10Arith{op, a.String(), b.String(), r.IntN(3), r.IntN(3)})
					}
				}
			} else {
				for _, a := range B {
					for _, b := range B {
						for _, op := range binops {
							kC10Arith.Do(c, c10Arith{op, a.String(), b.String(), r.IntN(3), r.IntN(3)})
						}
						if r.IntN(4) == 0 {
							op := binops[r.IntN(len(binops))]
							kC10Arith.Do(c, c10Arith{op, a.String(), b.String(), r.IntN(3), r.IntN(3)})
						}
					}
				}
			}
			// representation boundaries: every ordered pair of the values next to 2^31, 2^32, sqrt(2^63), 2^53, 2^62, 2^63,
			// 2^64 (both signs) x every operator x every combination of operand representations
			var H []*big.Int
			for _, x := range B {
				for _, k := range []uint{31, 32, 53, 62, 63, 64} {
					d := new(big.Int).Sub(new(big.Int).Abs(x), new(big.Int).Lsh(big.NewInt(1), k))
					if d.CmpAbs(big.NewInt(2)) <= 0 {
						H = append(H, x)
						break
					}
				}
				if ax := new(big.Int).Abs(x); ax.Cmp(big.NewInt(3)) <= 0 || new(big.Int).Sub(ax, big.NewInt(3037000499)).CmpAbs(big.NewInt(2)) <= 0 {
					H = append(H, x)
				}
			}
			c.Gauge("representation_boundary_values", int64(len(H)))
			for _, a := range H {
				for _, b := range H {
					for _, op := range binops {
						for reps := 0; reps < 9; reps++ {
							if c.Quick() && op != "cmp" && op != "*" && (reps+len(a.String())+len(b.String()))%3 != 0 {
								continue
							}
							kC10Arith.Do(c, c10Arith{op, a.String(), b.String(), reps / 3, reps % 3})
						}
					}
				}
			}
			// a value against itself in every pair of representations
			for _, a := range B {
				for reps := 0; reps < 9; reps++ {
					kC10Arith.Do(c, c10Arith{"cmp", a.String(), a.String(), reps / 3, reps % 3})
					kC10Arith.Do(c, c10Arith{"-", a.String(), a.String(), reps / 3, reps % 3})
				}
			}
			for _, a := range B {
				for _, op := range []string{"neg", "abs", "length", "neg-lit", "sub0"} {
					for rep := 0; rep < 3; rep++ {
						kC10Arith.Do(c, c10Arith{op, a.String(), "0", rep, 0})
					}
				}
				kC10Arith.Do(c, c10Arith{"toarr", a.String(), B[r.IntN(len(B))].String(), r.IntN(3), r.IntN(3)})
			}
			// literals
			lits := c10LitShapes(r, c.N(300, 3000))
			for _, f := range c10Filters {
				for i := 0; i < len(lits); i += 100 {
					kC10Lit.Do(c, c10Lit{Filter: f.f, Wrap: f.wrap, Lits: lits[i:min(i+100, len(lits))]})
				}
			}
			cliFilters := c10Filters
			if c.Quick() {
				cliFilters = c10Filters[:12]
			}
			for _, f := range cliFilters {
				for _, args := range [][]string{{"-c"}, {}, {"--indent", "3"}, {"--tab"}, {"-C", "-c"}} {
					if len(args) == 2 && args[0] == "-C" {
						continue // coloured output is C12's business
					}
					for i := 0; i < len(lits); i += 400 {
						kC10Lit.Do(c, c10Lit{Filter: f.f, Wrap: f.wrap, Lits: lits[i:min(i+400, len(lits))], CLI: true, Args: args})
					}
				}
			}
			// several literals through filters that only move, select or reorder them
			var short []string
			for _, l := range lits {
				if len(l) <= 70 {
					short = append(short, l)
				}
			}
			mkSets := func(n int) [][]string {
				sets := make([][]string, n)
				for i := range sets {
					set := make([]string, 2+r.IntN(7))
					for j := range set {
						set[j] = short[r.IntN(len(short))]
						if j > 0 && r.IntN(5) == 0 {
							set[j] = set[r.IntN(j)] // the same literal twice
						}
						if j > 0 && r.IntN(6) == 0 {
							set[j] = []string{"1", "1.0", "1.00", "1e0", "10e-1", "0", "-0", "0.0", "0e5", "100", "1e2", "1E2", "3.10", "3.1"}[r.IntN(14)] // equal values spelled differently
						}
					}
					sets[i] = set
				}
				return sets
			}
			for pi, fs := range [][]string{c10PassPerm, c10PassSub} {
				for _, f := range fs {
					for mode := 0; mode < 3; mode++ {
						kC10Pass.Do(c, c10Pass{Filter: f, Perm: pi == 0, Sets: mkSets(c.N(12, 120)), Mode: mode})
					}
					if !c.Quick() || len(f)%3 == 0 {
						kC10Pass.Do(c, c10Pass{Filter: f, Perm: pi == 0, Sets: mkSets(c.N(2, 10)), CLI: true, Mode: len(f) % 3})
					}
				}
			}
			// floats
			bits := c10FloatBits(r, c.N(20000, 400000))
			for i := 0; i < len(bits); i += 200 {
				kC10Float.Do(c, c10Float{Bits: bits[i:min(i+200, len(bits))]})
			}
			for i := 0; i < len(bits); i += 2000 {
				kC10Float.Do(c, c10Float{Bits: bits[i:min(i+2000, len(bits))], CLI: true, Args: []string{"-c"}})
				if !c.Quick() || i%8000 == 0 {
					kC10Float.Do(c, c10Float{Bits: bits[i:min(i+2000, len(bits))], CLI: true, Args: []string{}})
				}
			}
		},
	})
}
