package mon

import (
	"verif/harness/internal/run"
)

// c03.fromjson: a text is well-typed for fromjson iff it is exactly one JSON value with nothing but white space around
// it; then the value comes back, otherwise a catchable error — never the value of a prefix of the text.

type c03FromJSON struct {
	Text  string
	Valid bool
}

var kC03FromJSON = run.NewKind("c03.fromjson", func(c *run.Ctx, t c03FromJSON) *run.Fail {
	res := run.Compile(`[try fromjson catch "REJECTED", (try ([.] | map(fromjson)) catch "REJECTED"), (try (tojson | fromjson | fromjson) catch "REJECTED")]`)
	if res.Code == nil {
		return run.Failf("does not compile: %v", res.Err)
	}
	tr := run.RunCode(res.Code, t.Text, nil, 100000, 0)
	if tr.End != run.EndOK || len(tr.Vals) != 1 {
		return run.Failf("fromjson on %q: %s", t.Text, run.TraceDesc(tr))
	}
	got, _ := tr.Vals[0].([]any)
	if len(got) != 3 {
		return run.Failf("fromjson on %q: %s", t.Text, run.TraceDesc(tr))
	}
	if !t.Valid {
		for i, g := range got {
			if g != any("REJECTED") {
				return run.Failf("%q is not one JSON value, but fromjson (form %d) accepts it and returns %s", t.Text, i, run.Canon(g))
			}
		}
		c.Nontrivial("invalid\x00" + t.Text)
		return nil
	}
	want, err := c16Decode1(t.Text)
	if err != nil {
		return run.Failf("bad case: %v", err)
	}
	if run.Canon(got[0]) != run.Canon(want) || run.Canon(got[1]) != run.Canon([]any{want}) || run.Canon(got[2]) != run.Canon(want) {
		return run.Failf("fromjson on the JSON text %q gave %s, expected %s", t.Text, run.Canon(tr.Vals[0]), run.Canon(want))
	}
	c.Nontrivial("valid\x00" + t.Text)
	return nil
})
