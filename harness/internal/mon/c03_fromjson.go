package mon

import (
	"encoding/json"
	"math"
	"math/big"

	"verif/harness/internal/run"

	"github.com/itchyny/gojq"
)

// c03.fromjson: a text is well-typed for fromjson iff it is exactly one JSON value with nothing but white space around
// it; then the value comes back, otherwise a catchable error — never the value of a prefix of the text.

type c03FromJSON struct {
	Text  string
	Valid bool
}

var kC03FromJSON = run.NewKind("c03.fromjson", func(c *run.Ctx, t c03FromJSON) *run.Fail {
	res := run.Compile(`[try fromjson catch "REJECTED", (try ([.] | map(fromjson)) catch "REJECTED"), (try (tojson | fromjson | fromjson) catch "REJECTED")]`)
	if res.Code == nil {
		return run.Failf("does not compile: %v", res.Err)
	}
	tr := run.RunCode(res.Code, t.Text, nil, 100000, 0)
	if tr.End != run.EndOK || len(tr.Vals) != 1 {
		return run.Failf("fromjson on %q: %s", t.Text, run.TraceDesc(tr))
	}
	got, _ := tr.Vals[0].([]any)
	if len(got) != 3 {
		return run.Failf("fromjson on %q: %s", t.Text, run.TraceDesc(tr))
	}
	if !t.Valid {
		for i, g := range got {
			if g != any("REJECTED") {
				return run.Failf("%q is not one JSON value, but fromjson (form %d) accepts it and returns %s", t.Text, i, run.Canon(g))
			}
		}
		c.Nontrivial("invalid\x00" + t.Text)
		return nil
	}
	want, err := c16Decode1(t.Text)
	if err != nil {
		return run.Failf("bad case: %v", err)
	}
	if run.Canon(got[0]) != run.Canon(want) || run.Canon(got[1]) != run.Canon([]any{want}) || run.Canon(got[2]) != run.Canon(want) {
		return run.Failf("fromjson on the JSON text %q gave %s, expected %s", t.Text, run.Canon(tr.Vals[0]), run.Canon(want))
	}
	c.Nontrivial("valid\x00" + t.Text)
	return nil
})

// c03.company: what a builtin returns does not depend on which other calls the same program makes (the regular
// expression functions share a table per compiled program): `[A, B]` must be `[A alone, B alone]`, in both orders.

type c03Company struct{ A, B, Subject string }

var kC03Company = run.NewKind("c03.company", func(c *run.Ctx, t c03Company) *run.Fail {
	one := func(src string) ([]any, bool) {
		res := run.Compile(src)
		if res.Code == nil {
			return nil, false
		}
		tr := run.RunCode(res.Code, t.Subject, nil, 100000, 0)
		if tr.End != run.EndOK || len(tr.Vals) != 1 {
			return nil, false
		}
		vs, ok := tr.Vals[0].([]any)
		return vs, ok
	}
	wrap := func(x string) string { return "(try (" + x + ") catch \"ERR\")" }
	a, ok1 := one("[" + wrap(t.A) + "]")
	b, ok2 := one("[" + wrap(t.B) + "]")
	ab, ok3 := one("[" + wrap(t.A) + ", " + wrap(t.B) + "]")
	ba, ok4 := one("[" + wrap(t.B) + ", " + wrap(t.A) + "]")
	if !ok1 || !ok2 || !ok3 || !ok4 {
		return run.Failf("bad case %v", t)
	}
	join := func(x, y []any) string { return run.Canon(append(append([]any{}, x...), y...)) }
	if run.Canon(ab) != join(a, b) {
		return run.Failf("on %q: [%s, %s] gives %s, but alone they give %s and %s", t.Subject, t.A, t.B, run.Canon(ab), run.Canon(a), run.Canon(b))
	}
	if run.Canon(ba) != join(b, a) {
		return run.Failf("on %q: [%s, %s] gives %s, but alone they give %s and %s", t.Subject, t.B, t.A, run.Canon(ba), run.Canon(b), run.Canon(a))
	}
	c.Nontrivial(t.A + "\x00" + t.B + "\x00" + t.Subject)
	return nil
})

func c03CompanyCases() []c03Company {
	calls := func(re, flags string) []string {
		f := ""
		if flags != "" {
			f = "; " + flags
		}
		q := `"` + re + `"`
		return []string{"test(" + q + f + ")", "[match(" + q + f + ").offset]", "sub(" + q + "; \"_\"" + f + ")", "gsub(" + q + "; \"-\"" + f + ")", "[scan(" + q + f + ")]", "[splits(" + q + f + ")]", "capture(\"(?<k>" + re + ")\"" + f + ")"}
	}
	var out []c03Company
	pairs := [][4]string{{"x", `"i"`, "xi", ""}, {"a", `"i"`, "ia", ""}, {"x", `"g"`, "gx", ""}, {"x", `"g"`, "xg", `""`}, {"x", `"gi"`, "gix", ""}, {"a", `"z"`, "za", ""}, {"a", `"z"`, "az", ""}, {"i", "", "", `"i"`}, {"x", `"x"`, "xx", "null"}, {"n", `"n"`, "nn", ""}, {"x", "null", "x", `""`}, {"x", `"ig"`, "x", `"gi"`}}
	for _, p := range pairs {
		ca, cb := calls(p[0], p[1]), calls(p[2], p[3])
		for i := range ca {
			for j := range cb {
				if (i+j)%2 == 0 || i == j {
					out = append(out, c03Company{A: ca[i], B: cb[j], Subject: "hi XI xi AIa gx Gx xx nn zA"})
				}
			}
		}
	}
	return out
}

// c03.hugeindex: positions at and beyond the machine word (2^63 as a double is the first double that is no int64,
// -2^63 the last that is) saturate: they lie behind the end, or before the start, of every array and string.

type c03Huge struct {
	X  run.TV
	In run.TV
}

var kC03Huge = run.NewKind("c03.hugeindex", func(c *run.Ctx, t c03Huge) *run.Fail {
	res := run.Compile(`. as $in | $x | [($in | .[$x:]), ($in | .[:$x]), ($in | .[-$x:]), ($in | .[:-$x]), ($in | .[$x]), ($in | .[-$x]), ($in | getpath([$x])), ($in | if type == "array" then del(.[$x:]) else . end), ($in | if type == "array" then del(.[:-$x]) else . end), ($in | [(.[$x:], .[-$x:]) | length]), ($in | if type == "array" then (try (.[$x:$x] = []) catch "E") else . end)]`, gojq.WithVariables([]string{"$x"}))
	if res.Code == nil {
		return run.Failf("does not compile: %v", res.Err)
	}
	tr := run.RunCode(res.Code, t.In.V, []any{t.X.V}, 100000, 0)
	if tr.End != run.EndOK || len(tr.Vals) != 1 {
		return run.Failf("huge position %s on %s: %s", run.Canon(t.X.V), run.Canon(t.In.V), run.TraceDesc(tr))
	}
	whole, empty, n := t.In.V, any([]any{}), 0
	switch v := t.In.V.(type) {
	case string:
		empty, n = "", len([]rune(v))
	case []any:
		n = len(v)
	}
	want := []any{empty, whole, whole, empty, nil, nil, nil, whole, whole, []any{0, n}, whole}
	if run.Canon(tr.Vals[0]) != run.Canon(want) {
		return run.Failf("with $x = %s on %s: [.[$x:], .[:$x], .[-$x:], .[:-$x], .[$x], .[-$x], getpath([$x]), del(.[$x:]), del(.[:-$x]), lengths, .[$x:$x] = empty] gives %s, a position behind every end gives %s", run.Canon(t.X.V), run.Canon(t.In.V), run.Canon(tr.Vals[0]), run.Canon(want))
	}
	c.Nontrivial(run.Canon(t.X.V) + run.Canon(t.In.V))
	return nil
})

func c03HugeCases() []c03Huge {
	var out []c03Huge
	b63, _ := new(big.Int).SetString("9223372036854775808", 10)
	b70, _ := new(big.Int).SetString("1180591620717411303424", 10)
	for _, x := range []any{9223372036854775808.0, 18446744073709551616.0, 1e19, 1e300, math.Inf(1), b63, b70, json.Number("9223372036854775808"), json.Number("9223372036854775808.0"), json.Number("1e19"), json.Number("1e1000"), math.MaxInt64, 9223372036854775807.0, json.Number("9223372036854775807")} {
		for _, in := range []any{[]any{0, 1, 2}, "abc", []any{}, "", "日本語", []any{[]any{1}}} {
			out = append(out, c03Huge{X: run.TV{V: x}, In: run.TV{V: in}})
		}
	}
	return out
}
