package mon

import (
	"bytes"
	"encoding/json"
	"fmt"
	"math/big"
	"sort"
	"strconv"
	"strings"

	"verif/harness/internal/gen"
	"verif/harness/internal/run"

	"github.com/itchyny/gojq"
)

// ---- C05: runs are isolated ----

// deepSnap serialises a value strictly (Go representation kept) including the
// hidden [len:cap] tail of every slice, so an in-place append into spare
// capacity or a write through an alias is visible.
func deepSnap(v any) string {
	var sb strings.Builder
	snapTo(&sb, v, 0)
	return sb.String()
}

func snapTo(sb *strings.Builder, v any, depth int) {
	if depth > 200 {
		sb.WriteString("<deep>")
		return
	}
	switch x := v.(type) {
	case nil:
		sb.WriteString("null")
	case bool:
		sb.WriteString(strconv.FormatBool(x))
	case int:
		sb.WriteString("i" + strconv.Itoa(x))
	case float64:
		sb.WriteString("f" + strconv.FormatFloat(x, 'g', -1, 64))
	case *big.Int:
		if x == nil {
			sb.WriteString("B<nil>")
		} else {
			sb.WriteString("B" + x.String())
		}
	case json.Number:
		sb.WriteString("n" + string(x))
	case string:
		sb.WriteString(strconv.Quote(x))
	case []any:
		if x == nil {
			sb.WriteString("[nil]")
			return
		}
		sb.WriteByte('[')
		for i, e := range x {
			if i > 0 {
				sb.WriteByte(',')
			}
			snapTo(sb, e, depth+1)
		}
		if cap(x) > len(x) {
			sb.WriteString(" |hidden:")
			for i, e := range x[len(x):cap(x)] {
				if i > 0 {
					sb.WriteByte(',')
				}
				snapTo(sb, e, depth+1)
			}
		}
		sb.WriteByte(']')
	case map[string]any:
		if x == nil {
			sb.WriteString("{nil}")
			return
		}
		keys := make([]string, 0, len(x))
		for k := range x {
			keys = append(keys, k)
		}
		sort.Strings(keys)
		sb.WriteByte('{')
		for i, k := range keys {
			if i > 0 {
				sb.WriteByte(',')
			}
			sb.WriteString(strconv.Quote(k))
			sb.WriteByte(':')
			snapTo(sb, x[k], depth+1)
		}
		sb.WriteByte('}')
	default:
		fmt.Fprintf(sb, "<%T>", v)
	}
}

func sentinelSlice(n, c int, vals ...any) []any {
	a := make([]any, c)
	for i := range a {
		a[i] = "SENTINEL" + strconv.Itoa(i)
	}
	copy(a, vals)
	return a[:n]
}

// aliasedInput builds inputs with shared sub-containers, spare capacity with
// sentinel values in the hidden tail, and overlapping slices. id selects the
// shape; the result is freshly built on every call.
func aliasedInput(id int) (input any, variable any) {
	if id%10 >= 8 {
		// large containers: algorithms that switch strategy with size (sorting, growing, copying in blocks)
		big := sentinelSlice(120, 200)
		for i := range big {
			big[i] = (i * 37) % 101
		}
		obj := map[string]any{}
		for i := 0; i < 70; i++ {
			obj[fmt.Sprintf("k%02d", i)] = i
		}
		if id%10 == 8 {
			return map[string]any{"a": big, "b": big[:60], "c": obj, "d": big[100:]}, []any{big[:3], obj}
		}
		return []any{big, obj, big[10:20], []any{obj, big}}, big
	}
	switch id % 10 {
	case 0:
		a := sentinelSlice(3, 8, 1, 2, 3)
		return map[string]any{"a": a, "b": a, "c": a[:2], "d": a[1:]}, []any{a, a[:1]}
	case 1:
		m := map[string]any{"k": 1, "l": sentinelSlice(2, 5, 1, 2)}
		return []any{m, m, map[string]any{"x": m}}, m
	case 2:
		row := sentinelSlice(3, 6, 3, 1, 2)
		return []any{row, row[:1], row[1:3], []any{row}}, row[:2]
	case 3:
		leaf := map[string]any{"v": sentinelSlice(1, 4, 0)}
		return map[string]any{"a": map[string]any{"b": leaf}, "c": leaf, "d": []any{leaf, leaf}}, leaf
	case 4:
		b := new(big.Int).Lsh(big.NewInt(1), 70)
		nb := new(big.Int).Neg(b)
		return []any{b, nb, map[string]any{"n": b, "m": nb}, json.Number("1.50"), 3, nb, b}, []any{b, nb}
	case 5:
		root := sentinelSlice(3, 10, map[string]any{"a": 1}, []any{2, 3}, "s")
		return root, root[:1]
	case 6:
		inner := sentinelSlice(2, 4, "x", "y")
		ents := sentinelSlice(2, 6, map[string]any{"key": "a", "value": inner}, map[string]any{"key": "b", "value": inner})
		return ents, map[string]any{"a": inner}
	default:
		a := sentinelSlice(4, 9, 4, 3, 2, 1)
		return map[string]any{"a": map[string]any{"a": a, "b": a[2:]}, "b": []any{a[:3], a}, "c": nil}, a
	}
}

// c05OrderFolds fold the members of the input object in an order-sensitive way.
var c05OrderFolds = []string{"add", "[.[]] | add", "add(.[])", "to_entries | map(.value) | add?", "reduce .[] as $x (0; . + $x)?", "map_values(numbers) | add", "[.[] | tostring] | join(\",\")", "keys", "[tostream]", "[paths]", "to_entries", "with_entries(.)",
	"[.. | numbers] | add", "[.[] | numbers] | (add, (map(-.) | add))", "del(.[] | strings, arrays) | add", "[limit(3; .[])]", "first(.[]), last(.[])", "tojson", "@text", "[.[] | numbers] | (add / length)", "map_values(numbers * 2) | add", "any(.[]; . == 1), ([.[] | numbers] | min, max)", "with_entries(select(.value | type == \"number\")) | add",
	"[foreach (.[] | numbers) as $x (0; . + $x)]", "(.[] | numbers) as $x | $x", "to_entries | map(select(.value | type == \"number\") | .value) | add", "tostring | length", "[.[] | numbers] | sort | add", "@json \"\\(.)\"", "[getpath(paths(type == \"number\"))] | add"}

type c05Case struct {
	Src     string
	Alias   int     // aliased input shape (>= 0) ...
	Input   *run.TV // ... or an explicit input
	Abandon int     // stop after this many outputs (0 = run to the end)
}

func codeLiterals(code *gojq.Code) []any {
	var lits []any
	var add func(v any)
	add = func(v any) {
		switch x := v.(type) {
		case []any:
			lits = append(lits, x)
		case map[string]any:
			lits = append(lits, x)
		case [3]any:
			for _, e := range x {
				add(e)
			}
		}
	}
	for _, in := range gojq.VerifInstrs(code) {
		add(in.V)
	}
	return lits
}

type c05Run struct {
	canon   []string
	marshal []string
	end     string
}

func (t c05Case) build() (any, any) {
	if t.Input != nil {
		return run.DeepCopy(t.Input.V), []any{1, map[string]any{"a": 2}}
	}
	return aliasedInput(t.Alias)
}

// c05Once runs code once, checking after every Next that nothing observable
// by the caller was modified.
func c05Once(c *run.Ctx, t c05Case, code *gojq.Code, input, variable any, lits []any, litSnaps []string) (c05Run, *run.Fail) {
	var r c05Run
	inSnap, varSnap := deepSnap(input), deepSnap(variable)
	var outs []any
	var outSnaps []string
	ctx := run.Budget(defBudget)
	var fail *run.Fail
	func() {
		defer func() {
			if p := recover(); p != nil {
				r.end = fmt.Sprintf("panic: %v", p)
			}
		}()
		iter := code.RunWithContext(ctx, input, variable)
		for n := 0; ; n++ {
			v, ok := iter.Next()
			check := func(when string) *run.Fail {
				if s := deepSnap(input); s != inSnap {
					return run.Failf("%q modified its input %s: before %s, after %s", t.Src, when, run.Clip(inSnap), run.Clip(s))
				}
				if s := deepSnap(variable); s != varSnap {
					return run.Failf("%q modified a variable value %s: before %s, after %s", t.Src, when, run.Clip(varSnap), run.Clip(s))
				}
				for i := range outs {
					if s := deepSnap(outs[i]); s != outSnaps[i] {
						return run.Failf("%q modified its already emitted output #%d %s: at emission %s, now %s", t.Src, i, when, run.Clip(outSnaps[i]), run.Clip(s))
					}
				}
				for i := range lits {
					if s := deepSnap(lits[i]); s != litSnaps[i] {
						return run.Failf("%q modified a constant embedded in the compiled code %s: after Compile %s, now %s", t.Src, when, run.Clip(litSnaps[i]), run.Clip(s))
					}
				}
				return nil
			}
			if fail = check(fmt.Sprintf("(after Next #%d)", n+1)); fail != nil {
				return
			}
			if !ok {
				r.end = "end"
				return
			}
			if e, isErr := v.(error); isErr {
				if e == run.ErrBudget {
					r.end = "budget"
				} else {
					r.end = "error:" + run.ErrClass(e)
				}
				return
			}
			if run.Huge(v, 200000) {
				if run.Cyclic(v) {
					fail = run.Failf("%q emitted a cyclic value as output #%d (a container that contains itself: an in-place write went through an alias)", t.Src, n)
					return
				}
				r.end = "budget"
				return
			}
			if len(outs) < 60 {
				outs = append(outs, v)
				outSnaps = append(outSnaps, deepSnap(v))
			}
			r.canon = append(r.canon, run.Canon(v))
			if b, err := gojq.Marshal(v); err == nil {
				r.marshal = append(r.marshal, string(b))
			} else {
				r.marshal = append(r.marshal, "marshal error: "+err.Error())
			}
			if t.Abandon > 0 && n+1 >= t.Abandon || n > 3000 {
				r.end = "abandoned"
				return
			}
		}
	}()
	return r, fail
}

var kC05 = run.NewKind("c05.isolation", func(c *run.Ctx, t c05Case) *run.Fail {
	if nondeterministic(t.Src) {
		c.Inconclusive("clock-or-input-dependent")
		return nil
	}
	res := run.Compile(t.Src, gojq.WithVariables([]string{"$v"}))
	if res.Panic != "" {
		return run.Failf("Compile panicked on %q: %s", t.Src, res.Panic)
	}
	if res.Code == nil {
		c.Inconclusive("does-not-compile")
		return nil
	}
	code := res.Code
	lits := codeLiterals(code)
	litSnaps := make([]string, len(lits))
	for i, l := range lits {
		litSnaps[i] = deepSnap(l)
	}
	input, variable := t.build()
	first, fail := c05Once(c, t, code, input, variable, lits, litSnaps)
	if fail != nil {
		return fail
	}
	c.Logf("run 1: %d outputs, %s", len(first.canon), first.end)
	if strings.HasPrefix(first.end, "panic") {
		return run.Failf("%q: %s", t.Src, first.end)
	}
	if first.end == "budget" {
		c.Inconclusive("budget")
		return nil
	}
	same := func(r c05Run, what string) *run.Fail {
		if r.end != first.end || len(r.canon) != len(first.canon) {
			return run.Failf("%q: %s gave %d outputs (%s), the first run %d (%s)", t.Src, what, len(r.canon), r.end, len(first.canon), first.end)
		}
		for i := range r.canon {
			if r.canon[i] != first.canon[i] {
				return run.Failf("%q: %s output #%d is %s, the first run gave %s", t.Src, what, i, run.Clip(r.canon[i]), run.Clip(first.canon[i]))
			}
			if r.marshal[i] != first.marshal[i] {
				return run.Failf("%q: %s output #%d serialises as %s, the first run as %s", t.Src, what, i, run.Clip(r.marshal[i]), run.Clip(first.marshal[i]))
			}
		}
		return nil
	}
	// run 2: same input object again
	r2, fail := c05Once(c, t, code, input, variable, lits, litSnaps)
	if fail != nil {
		return fail
	}
	if f := same(r2, "the second run on the same input object"); f != nil {
		return f
	}
	// interleaved run on a different input, then run 3 on a fresh equal copy
	other, ov := aliasedInput(t.Alias + 3)
	if _, fail := c05Once(c, c05Case{Src: t.Src, Abandon: 2}, code, other, ov, lits, litSnaps); fail != nil {
		return fail
	}
	in3, v3 := t.build()
	r3, fail := c05Once(c, t, code, in3, v3, lits, litSnaps)
	if fail != nil {
		return fail
	}
	if f := same(r3, "a run on a fresh equal copy after an interleaved run on another input"); f != nil {
		return f
	}
	r4, fail := c05Once(c, t, code, input, variable, lits, litSnaps)
	if fail != nil {
		return fail
	}
	if f := same(r4, "the fourth run"); f != nil {
		return f
	}
	// runs are isolated in time too: an iterator that has finished stays finished while later runs of the same code
	// are under way, and polling it does not disturb them
	if first.end == "end" && t.Abandon == 0 && len(first.canon) <= 200 {
		in5, v5 := t.build()
		a := code.RunWithContext(run.Budget(defBudget), in5, v5)
		for {
			if _, ok := a.Next(); !ok {
				break
			}
		}
		in6, v6 := t.build()
		b := code.RunWithContext(run.Budget(defBudget), in6, v6)
		var got []string
		for n := 0; n <= len(first.canon)+2; n++ {
			if v, ok := a.Next(); ok {
				return run.Failf("%q: an iterator that had returned false returns %s again after another run of the same code was started (%d values into that run)", t.Src, run.Clip(run.Canon(v)), n)
			}
			v, ok := b.Next()
			if !ok {
				break
			}
			if _, isErr := v.(error); isErr {
				break
			}
			got = append(got, run.Canon(v))
		}
		if len(got) != len(first.canon) {
			return run.Failf("%q: a run during which a finished iterator of the same code was polled gave %d outputs, alone %d", t.Src, len(got), len(first.canon))
		}
		for i := range got {
			if got[i] != first.canon[i] {
				return run.Failf("%q: a run during which a finished iterator of the same code was polled: output #%d is %s, alone %s", t.Src, i, run.Clip(got[i]), run.Clip(first.canon[i]))
			}
		}
		c.Count("finished_iterators_polled_during_later_runs", 1)
	}
	c.AddEvals(4)
	if len(first.canon) > 0 {
		c.Nontrivial(fmt.Sprintf("%s|%d|%d", t.Src, t.Alias, t.Abandon))
	}
	c.Count("literal_containers_watched", int64(len(lits)))
	c.Count("outputs_watched", int64(len(first.canon)))
	return nil
})

var c05ValArgs = []string{".", "0", "1", "-1", "\"a\"", ".[0]?", "[.]", "null", ".a?", "$v", "[0]", "[\"a\"]", "{}", "\"k\"", "2", "[\"a\", 0]", "true", "\", \"", "[[0]]", ".b?", "\"^a\"", "[1, 2]"}
var c05FilterArgs = []string{".", ".a?", ".[]?", "1", "empty", "not", "length?", ".[0]?", ". + 1?", "tostring", "[.]", "$v", ".k?", "type", ". == 1"}

// builtinNames returns the name/arity list reported by the real `builtins`.
func builtinNames() []string {
	tr := eval("builtins", nil)
	if len(tr.Vals) != 1 {
		return nil
	}
	var out []string
	for _, v := range tr.Vals[0].([]any) {
		out = append(out, v.(string))
	}
	sort.Strings(out)
	return out
}

func sweepPrograms(r interface{ IntN(int) int }, perBuiltin int) []string {
	var out []string
	for _, na := range builtinNames() {
		i := strings.LastIndexByte(na, '/')
		name, arity := na[:i], int(na[i+1]-'0')
		if len(na[i+1:]) > 1 {
			continue
		}
		switch name {
		case "input", "inputs", "debug", "stderr", "input_line_number", "halt", "halt_error", "now", "localtime", "strflocaltime", "mktime", "gmtime", "env", "builtins", "modulemeta", "repeat", "range", "error", "limit", "until", "while", "recurse", "combinations", "getpath", "splits", "ltrimstr":
			if name != "range" && name != "limit" && name != "getpath" && name != "ltrimstr" && name != "recurse" && name != "combinations" {
				continue
			}
		}
		for k := 0; k < perBuiltin; k++ {
			args := make([]string, arity)
			for j := range args {
				if r.IntN(2) == 0 {
					args[j] = c05ValArgs[r.IntN(len(c05ValArgs))]
				} else {
					args[j] = c05FilterArgs[r.IntN(len(c05FilterArgs))]
				}
			}
			call := name
			if arity > 0 {
				call += "(" + strings.Join(args, "; ") + ")"
			}
			call = "[limit(20; " + call + ")]"
			sub := []string{"", ".a | ", ".[0] | ", ".b | ", ".d | ", ".c | ", ".[2] | ", ".[1] | ", "$v | ", ".a.a | ", ".[] | ", ".a.b | "}[r.IntN(12)]
			out = append(out, "try ("+sub+call+") catch \"E\"")
			if arity == 0 && k == 0 {
				out = append(out, "[.. | try "+name+" catch \"E\"] | length")
			}
		}
	}
	return out
}

var c05Hand = []string{
	// lists the implementation collects from its own tables: the same list, in the same order, on every run
	"[builtins] | length", "builtins | .[:12]", "[builtins, builtins] | .[0] == .[1]", "builtins | map(select(startswith(\"range/\") or startswith(\"add/\") or startswith(\"recurse/\")))", "builtins | sort == .", "[builtins | .[] | select(test(\"^l\"))]",
	"[env | keys[:3]]", "$ENV | length", "[getpath([\"a\"]), paths] | length", "keys?, (to_entries? | map(.key))", "[splits(\"a\")?]", "@json \"\\(.)\", tojson, tostring",
	// folds that start from a neutral element ({} / [] / "" / 0 / null): the accumulator must not become one of the operands
	"[{}, .[]?] | add", "[null, {}, .[]?] | add?", "[{}, $v, .] | add?", "add({}, $v, .)?", "[{}, .a?, .c?] | add?", "[[], .[]?] | add?", "[\"\", .[]?] | add?", "[0, .[]?] | add?", "[null, .[]?] | add?", "[{}, {}, null, .[]?] | add?",
	"reduce .[]? as $x ({}; . + $x)?", "reduce .[]? as $x (null; . + $x)?", "reduce .[]? as $x ([]; . + $x)?", "reduce .[]? as $x ({}; . * $x)?", "({} + .) | .zz = 1?", "(. + {}) | .zz = 1?", "([] + .) | .[0] = 1?", "(. + []) | .[0] = 1?", "(null + .) | .[0]? = 1",
	"({} * .) | .zz = 1?", "[{}, {\"a\": 1}, {\"b\": 2}] | add", "[{}, {\"a\": {\"b\": 1}}, {\"a\": {\"c\": 2}}] | reduce .[] as $x ({}; . * $x)", "[[], [1], [2]] | add", "[{}, .[]?] | add | .zz = 1?", "[[], .[]?] | add | .[0] = 1?", "[.[]? | objects] | ({}, .[]) as $o | $o + {q: 1}",
	"[{}, .[]?] | (add, add)", "[limit(2; repeat([{}, {\"a\": 1}, {\"b\": 2}] | add))]", "with_entries(.)? | . + {}", "[.[]? | . + {}?, . + []?, . + null]", "(.[0]? // {}) + (.[1]? // {})?", "first({}, .) + last({}, .)?", "[{}, .] | add | del(.a?)",
	// scalars that are pointers underneath (integers beyond the machine word), positive and negative, as input elements,
	// variables and literals of the compiled code: every numeric operation must compute into a fresh value
	"[.[] | numbers | abs]", "[.[] | numbers | -(.)]", "[.[] | numbers | length]", "[.[] | numbers | (. + 1, . - 1, . * 2, . / 2, . % 3)]", "[.[] | numbers | (floor, sqrt, tostring, tojson, fabs?)]", "[.[0] % 7, .[0]]", "[.[1] % 7, .[1], (.[1] | abs), .[1]]",
	"(-100000000000000000000) as $x | [$x, ($x | abs), $x]", "[-100000000000000000000 | abs, -(.)]", "[100000000000000000000 % 7, 100000000000000000000 % -7]", "100000000000000000000 as $x | [$x % 3, $x * -1, $x - $x, -$x, $x]",
	"[$v[]? | numbers | abs] + [$v[]?]", "[$v[1]? | (. % 1000), abs, -(.), . * . , . + .] | length", "[.[] | numbers] | (add, min, max, sort, unique, (map(abs) | add))", "[.[2].m | abs, .] , .[2]", "reduce (.[] | numbers) as $n (0; . + $n) | [., abs]",
	"[limit(3; repeat(-100000000000000000000 | abs))]", "[range(3) | 100000000000000000000 % (. + 7)]", "[.[] | numbers | tostring | tonumber | abs]", "[.[] | numbers | [.] | implode?]", "[.[] | numbers | pow(.; 2)?, log2?, exp10?] | length",
	"[.[] | numbers | . as $n | [$n, -$n] | sort | .[0] | abs]", "[.[1], .[5]] | map(abs) | . == [.[0], .[0]]", "[.[] | numbers | round?, ceil?, trunc?, significand?, logb?] | length", "[.[] | numbers | (. == -., . < -., . > 0)]",
	".a += [9]", ".a[0] = 9", ".a |= . + [9]", ".[0] += [7]", ".[0] |= . + [7]", ".c += [5]", "del(.a[0])", "del(.[0][0])", "delpaths([[\"a\", 0]])", ".a | . + [4]", ".a + .b", "[.a[], 9]", ".a[1:] + [8]", ".c + [7]", ".[1] + [6]", ".[0][:2] + [5]",
	"add", "[.[] | arrays] | add", ".a | sort", ".[0] | sort", "sort_by(.)?", "group_by(.)?", "unique?", "reverse?", ".a | reverse", "to_entries", "with_entries(.)?", "map_values(.)?", "map(.)?", "walk(.)", "tostream", "fromstream(tostream)", "[paths]", "flatten?", ".a | flatten",
	".[0] | to_entries", "from_entries?", "transpose?", "[limit(2; .[]?)]", "first(.[]?)", ".a[1:]", ".a[:1] + .a[1:]", ".a[:2] | . + [0]", ".d + .c", ".d | .[0] = 5", ".c | .[5] = 1", ".c |= . + [1]", ".a[1:] |= map(. * 2)", ".a[:1] = [7, 7, 7]", ".. |= .", "(.. | arrays) |= . + [0]",
	"(.a, .b) |= . + [1]", ".a as $x | .b |= $x", ". as $d | .a = $d", ".a = .b", ".b = .a[1:]", "setpath([\"a\", 5]; 1)", "setpath([\"a\"]; .b)", "getpath([\"a\"]) + [1]", "$v + [1]?", "$v | .[0] = 9?", "$v |= . + [1]?", "[$v, $v] | add?", "$v as [$x] | $x + [1]?", "{a: $v} | .a[0] = 1?",
	"reduce .a[] as $x (.b; . + [$x])", "reduce .[] as $x ([]; . + [$x])", "foreach .a[]? as $x (.c; . + [$x])", "[.[]?] | .[0] = 1", "[.a, .a] | .[0][0] = 7", "[.a, .b] | add | .[0] = 7", "{x: .a} | .x[0] = 7", "{x: .a} | .x += [7]", ". * {a: {z: 1}}?", ". + {z: 1}?", ".[0] * .[2]?", ".a * 2?",
	"keys", "[.[]]", "tojson | fromjson", "@json", "@csv?", "implode?", "join(\",\")?", "min, max", "min_by(.)?, max_by(.)?", "indices(1)?", "index(1)?", "inside(.)?", "contains(.)?", ".a - [1]", ".a - .c", "del(.a, .b)", "del(.[])", "del(.. | select(. == 1))?", "delpaths([paths])", "to_entries | from_entries?", "pick(.a)?", "pick(.[0])?",
	"[1, 2, 3] | .[0] = 9", "[1, [2, 3]] | .[1] += [4]", "{\"a\": [1, 2]} | .a += [3]", "[[1, 2], [3]] | add | .[0] = 9", "{\"a\": {\"b\": [1]}} | .a.b[0] = 2", "[3, 1, 2] | sort | .[0] = 9", "{\"a\": [1, 2]} | del(.a[0])", "[[1], [2]] | map(. + [0])", "[{\"a\": 1}] | map(.a = 2)", "{\"a\": 1} | to_entries | .[0].value = 2",
	"[1, 2, 3] | .[1:] | . + [4]", "[1, 2, 3][:2] | .[0] = 7", "{\"a\": [1, 2, 3]} | .a[1:] = [9]", "[[1, 2, 3]] | .[0][1:] |= map(. + 1)", "{\"a\": {\"b\": 1}, \"c\": [1, {\"d\": 2}]} | del(.a.q)", "[[1, 2]] | (.[0], .[0]) |= . + [3]", "{} | .a.b.c = 1 | .a.b.d = 2", "[[]] | .[0][2] = 1 | .[0][5] = 2",
}

// c05Regex: one compiled program evaluating the same pattern under unsupported and supported flag sets in every
// order: whatever a run caches must not change what the next run (or a later call of the same run) yields.
func c05Regex() []string {
	var out []string
	// pattern/flags pairs whose concatenations coincide in either order ("x"+"i" = "xi"+"", "i"+"a" = ""+"ia")
	for _, p := range [][4]string{{"x", "\"i\"", "xi", "null"}, {"a", "\"i\"", "ia", "null"}, {"x", "\"g\"", "gx", "null"}, {"x", "\"g\"", "xg", "\"\""}, {"x", "\"gi\"", "gix", "null"}, {"a", "\"z\"", "za", "null"}, {"a", "\"z\"", "az", "null"}, {"i", "null", "", "\"i\""}} {
		for _, o := range [][2]int{{0, 2}, {2, 0}} {
			a, fa, b, fb := p[o[0]], p[o[0]+1], p[o[1]], p[o[1]+1]
			out = append(out, "\"hi XI xi AIa gx Gx\" | [(try test(\""+a+"\"; "+fa+") catch \"ERR\"), (try test(\""+b+"\"; "+fb+") catch \"ERR\"), (try [match(\""+a+"\"; "+fa+").offset] catch \"ERR\"), (try gsub(\""+b+"\"; \"_\"; "+fb+") catch \"ERR\")]")
			out = append(out, "\"hi XI xi AIa gx Gx\" | [(try gsub(\""+a+"\"; \"-\") catch \"ERR\"), (try test(\"g"+a+"\") catch \"ERR\"), (try [scan(\""+b+"\")] catch \"ERR\"), (try test(\"g"+b+"\"; "+fb+") catch \"ERR\")]")
		}
	}
	for _, re := range []string{"b", "a.", "(?<x>a)", "^", "[a-c]+"} {
		for _, fa := range []string{"\"x\"", "\"gx\"", "\"s\"", "\"n\"", "\"ig z\"", "1", "null", "\"g\"", "\"i\""} {
			for _, fb := range []string{"null", "\"g\"", "\"i\"", "\"\"", "\"x\"", "\"gi\""} {
				r := "\"" + re + "\""
				out = append(out, "\"abcABC\" | [(try test("+r+"; "+fa+") catch \"ERR\"), (try test("+r+"; "+fb+") catch \"ERR\"), (try [match("+r+"; "+fa+") | .offset] catch \"ERR\"), (try [match("+r+"; "+fb+") | .offset] catch \"ERR\")]")
				out = append(out, "\"abcABC\" | [(try sub("+r+"; \"_\"; "+fb+") catch \"ERR\"), (try sub("+r+"; \"_\"; "+fa+") catch \"ERR\"), (try [scan("+r+"; "+fa+")] catch \"ERR\")]")
			}
		}
	}
	return out
}

func init() {
	run.Register(&run.Prop{
		ID: "C05", Level: "exploration", MinNontrivial: 2000,
		Rule:        "a case is (program, aliased input shape or explicit input, abandon point). The real library runs the compiled program four times (same input object twice, an interleaved run on another input, a fresh equal copy, the same object again); after EVERY Next call the input, the variable value, every value emitted so far and every literal container embedded in the compiled code (read through the verif hook) are re-serialised strictly — Go representation, shared structure and the hidden [len:cap] tail of every slice (sentinel-filled) included — and compared with their snapshot; every rerun must give the same canonical sequence and the same Marshal bytes. Programs: hand-written update/delete/add/sort/slice programs over the aliased shapes, a sweep of every builtin name/arity reported by `builtins` applied to the aliased input and to each aliased sub-value, PRNG-generated update-heavy programs, the library-level corpus. Non-trivial = distinct cases that emitted at least one value. Also: programs that put containers of 3..300 members into error messages, previews and texts (reruns agree to the byte), and kind c05.values: the slice of 1..5 variable values the caller spreads into Run, with four sentinels behind its length, is compared after every Next of four runs.",
		Assumptions: []string{"a write of an identical value is not a modification (it is a data race when shared: C06)", "programs using now/input/local time are excluded syntactically, as the statement allows"},
		Body: func(c *run.Ctx) {
			r := c.Rand("c05")
			for _, src := range c05Hand {
				for a := 0; a < 10; a++ {
					kC05.Do(c, c05Case{Src: src, Alias: a})
					kC05.Do(c, c05Case{Src: src, Alias: a, Abandon: 1})
				}
			}
			for _, src := range c05Regex() {
				kC05.Do(c, c05Case{Src: src, Alias: 0})
			}
			// values that registered Go functions hand back
			for _, src := range c05CallbackSrcs {
				kC05Callback.Do(c, c05CallbackCase{Src: src})
			}
			// the caller's slice of variable values
			for _, t := range c05ValuesCases() {
				kC05Values.Do(c, t)
			}
			// containers with many members in error messages, previews and texts: which members show must not depend on the
			// order a Go map is walked in (the reruns of a case have to agree to the byte)
			for _, nkeys := range []int{3, 9, 17, 40, 300} {
				big := map[string]any{}
				arr := []any{}
				for i := 0; i < nkeys; i++ {
					big[fmt.Sprintf("k%03d", i)] = i
					arr = append(arr, map[string]any{fmt.Sprintf("m%03d", nkeys-i): i, "z": nil})
				}
				for _, src := range c05BigPrograms {
					for _, in := range []any{big, map[string]any{"o": big, "a": arr}, []any{big, big}} {
						kC05.Do(c, c05Case{Src: src, Alias: -1, Input: &run.TV{V: in}})
					}
				}
			}
			// folds over the members of an object whose result depends on the order of the members (floating-point sums
			// that cancel): the order is the key order, never the order a Go map is walked in
			for variant := 0; variant < c.N(12, 60); variant++ {
				k := fmt.Sprintf("v%02d", variant)
				objs := []any{
					map[string]any{k + "a": 1e100, k + "b": 1.0, k + "c": -1e100},
					map[string]any{k + "a": 1e16, k + "b": 1.0, k + "c": 1.0, k + "d": -1e16},
					map[string]any{k + "a": 0.1, k + "b": 0.2, k + "c": 0.3, k + "d": 1e17, k + "e": -1e17, k + "f": 0.7, k + "g": 1e-9, k + "h": 3.0},
					map[string]any{k + "a": "x", k + "b": 1e100, k + "c": 1.0, k + "d": -1e100, k + "e": []any{1e16, 1.0, -1e16}},
				}
				for _, obj := range objs {
					for _, src := range c05OrderFolds {
						kC05.Do(c, c05Case{Src: src, Alias: -1, Input: &run.TV{V: obj}})
					}
				}
			}
			for _, src := range sweepPrograms(r, c.N(4, 40)) {
				kC05.Do(c, c05Case{Src: src, Alias: r.IntN(10)})
				kC05.Do(c, c05Case{Src: src, Alias: r.IntN(10)})
			}
			small := gen.USmall()
			n := c.N(12000, 300000)
			for i := 0; i < n; i++ {
				g := &gen.G1{R: r, Lits: 3, Updates: 6}
				var src string
				switch r.IntN(3) {
				case 0:
					src = g.UpdateProgram(2)
				default:
					src = g.Program(2 + r.IntN(2))
				}
				cs := c05Case{Src: src, Alias: r.IntN(10), Abandon: []int{0, 0, 1, 2}[r.IntN(4)]}
				if r.IntN(4) == 0 {
					cs.Alias = -1
					cs.Input = &run.TV{V: small[r.IntN(len(small))]}
				}
				kC05.Do(c, cs)
			}
			for _, cs := range gen.SimpleCorpus() {
				for _, in := range cs.Inputs {
					kC05.Do(c, c05Case{Src: cs.Query, Alias: -1, Input: &run.TV{V: in}})
				}
				kC05.Do(c, c05Case{Src: cs.Query, Alias: r.IntN(10)})
			}
		},
	})
}

var _ = bytes.NewReader

var c05BigPrograms = []string{"try .[0] catch .", "try (. + 1) catch .", "try (.[] | .[0]?, (.o? | .[0])) catch .", "try error catch tostring", "try (. as [$a] | $a) catch .", "try ({} | .[$__loc__]?, (. | keys | .[\"a\"])) catch .", "try implode catch .", "try (. - 1) catch .",
	"try ltrimstr(1) catch .", "try (.o // . | test(\"a\")) catch .", "try (to_entries | .[0].key | error) catch .", "try error(.) catch (keys | length)", "[.[]?] | try (.[0] | tonumber) catch .", "try (.o? // . | has(0)) catch .", "try tojson catch .", "tojson | .[0:60]", "tostring | length",
	"[paths] | length", "keys | .[0:3]", "to_entries | .[0:2]", "[.[]?] | .[0:2] | tojson | .[0:80]", "@json | .[0:50]", "@text | .[-50:]", "try @csv catch .", "try @sh catch .", "try (.o? // . | @base64d) catch .", "try (. | splits(\"a\")) catch .", "try join(\",\") catch .",
	"try (.o // . | min_by(.x)) catch .", "try flatten(-1) catch .", "try (.o // . | ascii_downcase) catch .", "try (.[\"a\"] | .[0] | .[\"k\"]) catch .", "try (.o // . | . as {k000: [$x]} | $x) catch .", "(.o // .) as $b | try ($b | .k001 | error({b: $b})) catch (.b | keys | length)", "try setpath([0]; 1) catch .", "try delpaths([[0]]) catch .",
	"try getpath([0]) catch .", "try (.o // . | to_entries | from_entries | .[0]) catch .", "try fromjson catch .", "try (tojson | fromjson | .[0]) catch .", "try (.[] |= error) catch .", "try input catch .", "try ($ENV | .[0]) catch .", "try ([.] | implode) catch ."}
