package mon

import (
	"bytes"
	"encoding/base64"
	"encoding/json"
	"fmt"
	"math"
	"math/big"
	"os"
	"path/filepath"
	"sort"
	"strconv"
	"strings"
	"sync"
	"unicode/utf8"

	"verif/harness/internal/run"

	"github.com/itchyny/gojq"
)

// ---- C12: every emitted value serialises to valid JSON that reads back equal ----
//
// Three kinds:
//   c12.lib    library: gojq.Marshal and tojson / @json / tostring / @text /
//              string interpolation evaluated by the real VM, tojson|fromjson
//   c12.cli    the real command in every output mode (compact, default,
//              --indent 0..9, --tab, -C, GOJQ_COLORS, -r/-j/--raw-output0,
//              option combinations) and --yaml-output | --yaml-input
//   c12.rawin  strings that reach the command as raw bytes (-R, --rawfile, --arg)
// The oracle is in c12_scan.go (own scanner, encoding/json, exact decimals).

// ---------------------------------------------------------------- features

const (
	c12fEscape   = 1 << iota // a string byte that must be escaped
	c12fNonASCII             // valid multi-byte rune
	c12fInvalid              // invalid UTF-8
	c12fFloat                // float64 that does not print like an int
	c12fNaNInf
	c12fBig
	c12fLit // json.Number
	c12fNested
	c12fKeyHard // object key with escape / non-ASCII / invalid bytes
)

func c12StrFeatures(s string) int {
	f := 0
	for i := 0; i < len(s); {
		b := s[i]
		if b < utf8.RuneSelf {
			if b < 0x20 || b == '"' || b == '\\' || b == 0x7f {
				f |= c12fEscape
			}
			i++
			continue
		}
		r, n := utf8.DecodeRuneInString(s[i:])
		if r == utf8.RuneError && n == 1 {
			f |= c12fInvalid
		} else {
			f |= c12fNonASCII
		}
		i += n
	}
	return f
}

func c12Features(v any, depth int) int {
	switch v := v.(type) {
	case string:
		return c12StrFeatures(v)
	case float64:
		if math.IsNaN(v) || math.IsInf(v, 0) {
			return c12fNaNInf
		}
		if v != math.Trunc(v) || math.Abs(v) >= 1e21 || v == 0 && math.Signbit(v) {
			return c12fFloat
		}
	case *big.Int:
		return c12fBig
	case json.Number:
		return c12fLit
	case []any:
		f := 0
		if depth >= 1 && len(v) > 0 {
			f |= c12fNested
		}
		for _, x := range v {
			f |= c12Features(x, depth+1)
		}
		return f
	case map[string]any:
		f := 0
		if depth >= 1 && len(v) > 0 {
			f |= c12fNested
		}
		for k, x := range v {
			if c12StrFeatures(k) != 0 {
				f |= c12fKeyHard
			}
			f |= c12Features(x, depth+1)
		}
		return f
	}
	return 0
}

var c12FeatureNames = []string{"string_needing_escape", "non_ascii_rune", "invalid_utf8", "float", "nan_or_inf", "big_int", "number_literal", "nested_container", "hard_object_key"}

func c12CountFeatures(c *run.Ctx, prefix string, f int) {
	for i, n := range c12FeatureNames {
		if f&(1<<i) != 0 {
			c.Count(prefix+n, 1)
		}
	}
}

// ---------------------------------------------------------------- one text

type c12Expect struct {
	V   any
	Ref []byte // reference compact text every mode must agree with (nil: none)
}

// c12CheckScanned checks one already-tokenised JSON text b[start:end].
func c12CheckScanned(e c12Expect, b []byte, toks []c12Tok, start, end int, lays []c12Layout, st *c12LayoutStats) *run.Fail {
	text := b[start:end]
	if e.Ref != nil {
		if comp := c12Compact(b, toks); !bytes.Equal(comp, e.Ref) {
			return &run.Fail{Detail: fmt.Sprintf("modes disagree after removing insignificant white space: this mode %s, library Marshal %s",
				c12DiffAt(comp, e.Ref), clipS(string(e.Ref), 200)), Sig: "c12.modes-disagree"}
		}
	}
	if len(lays) > 0 {
		var first string
		ok := false
		for _, l := range lays {
			var tmp c12LayoutStats
			if st != nil {
				tmp.Depths = map[int]bool{}
			}
			// tokens carry absolute offsets into b
			msg := c12CheckLayout(b, toks, l, &tmp)
			if msg == "" {
				ok = true
				if st != nil {
					st.Lines += tmp.Lines
					st.MaxWidth = max(st.MaxWidth, tmp.MaxWidth)
					for d := range tmp.Depths {
						st.Depths[d] = true
					}
				}
				break
			}
			if first == "" {
				first = fmt.Sprintf("(%s) %s", l, msg)
			}
		}
		if !ok {
			sig := "c12.layout"
			if strings.Contains(first, ") indent:") {
				sig = "c12.indent"
			}
			return &run.Fail{Detail: first, Sig: sig}
		}
	}
	w, err := c12Decode(text)
	if err != nil {
		return &run.Fail{Detail: fmt.Sprintf("encoding/json rejects the text: %v; text %s", err, clipS(string(text), 300)), Sig: "c12.invalid-json"}
	}
	if d := c12EqualVal(e.V, w, "$"); d != nil {
		return &run.Fail{Detail: fmt.Sprintf("reads back different %s; text %s", d, clipS(string(text), 300)), Sig: "c12.readback:" + d.Kind}
	}
	return nil
}

func c12DiffAt(a, b []byte) string {
	i := 0
	for i < len(a) && i < len(b) && a[i] == b[i] {
		i++
	}
	lo := max(0, i-20)
	return fmt.Sprintf("differs at byte %d: %q vs %q", i, clipS(string(a[lo:]), 80), clipS(string(b[lo:min(len(b), lo+80)]), 80))
}

// c12CheckText scans and checks one complete text.
func c12CheckText(e c12Expect, text []byte, lays []c12Layout) *run.Fail {
	if !utf8.Valid(text) {
		return &run.Fail{Detail: fmt.Sprintf("text is not valid UTF-8: %q", clipS(string(text), 200)), Sig: "c12.invalid-utf8"}
	}
	toks, end, err := c12Scan(text, 0)
	if err != nil {
		return &run.Fail{Detail: fmt.Sprintf("own scanner rejects the text: %v; text %q", err, clipS(string(text), 300)), Sig: "c12.invalid-json"}
	}
	if end != len(text) {
		return &run.Fail{Detail: fmt.Sprintf("trailing bytes after the value at offset %d: %q", end, clipS(string(text[end:]), 80)), Sig: "c12.invalid-json"}
	}
	return c12CheckScanned(e, text, toks, 0, end, lays, nil)
}

func c12Describe(v any) string { return clipS(run.Canon(v), 160) }

func prefixFail(f *run.Fail, format string, a ...any) *run.Fail {
	return &run.Fail{Detail: fmt.Sprintf(format, a...) + ": " + f.Detail, Sig: f.Sig}
}

// ---------------------------------------------------------------- c12.lib

type c12LibCase struct {
	Tag  string   `json:"tag"`
	Vals []run.TV `json:"vals"`
}

const c12LibSrc = `def w: if type == "string" then [.] else . end;
[tojson, @json, (@json "\(.)"), ($v | tojson), (w | tostring), (w | @text), "\(w)", (w | tojson), (tojson | fromjson), ([.] | tojson), ({a: .} | tojson)]`

var c12LibNames = []string{"tojson", "@json", `@json "\(.)"`, "$v|tojson", "tostring", "@text", `"\(.)"`, "w|tojson", "tojson|fromjson", "[.]|tojson", "{a:.}|tojson"}

var (
	c12Once    sync.Once
	c12LibCode *gojq.Code
	c12DCode   *gojq.Code
)

func c12Codes() {
	c12Once.Do(func() {
		res := run.Compile(c12LibSrc, gojq.WithVariables([]string{"$v"}))
		if res.Code == nil {
			panic(fmt.Sprintf("c12: library query does not compile: %v %s", res.Err, res.Panic))
		}
		c12LibCode = res.Code
		res = run.Compile(c12Filter)
		if res.Code == nil {
			panic(fmt.Sprintf("c12: decode filter does not compile: %v %s", res.Err, res.Panic))
		}
		c12DCode = res.Code
	})
}

func c12Marshal(v any) (b []byte, err error) {
	defer func() {
		if r := recover(); r != nil {
			err = fmt.Errorf("panic: %v", r)
		}
	}()
	return gojq.Marshal(v)
}

var kC12Lib = run.NewKind("c12.lib", func(c *run.Ctx, t c12LibCase) *run.Fail {
	c12Codes()
	// texts returned by Marshal belong to the caller: keep every one of the batch (and a private copy taken at once) while
	// the other values are marshalled, also from a second goroutine, and read them again at the end
	held := make([][]byte, len(t.Vals))
	snap := make([][]byte, len(t.Vals))
	for i, tv := range t.Vals {
		v := tv.V
		if m, err := c12Marshal(v); err == nil {
			held[i], snap[i] = m, bytes.Clone(m)
		}
		if f := c12LibOne(c, v); f != nil {
			return prefixFail(f, "value #%d %s", i, c12Describe(v))
		}
	}
	done := make(chan struct{})
	go func() {
		defer close(done)
		for _, tv := range t.Vals {
			c12Marshal(tv.V)
		}
	}()
	for i := len(t.Vals) - 1; i >= 0; i-- {
		c12Marshal(t.Vals[i].V)
	}
	<-done
	for i := range held {
		if !bytes.Equal(held[i], snap[i]) {
			return &run.Fail{Detail: fmt.Sprintf("value #%d %s: the text gojq.Marshal returned was %s; after marshalling the other %d values of the batch the same slice reads %s",
				i, c12Describe(t.Vals[i].V), clipS(string(snap[i]), 200), len(t.Vals)-1, clipS(string(held[i]), 200)), Sig: "c12.marshal-result-not-owned-by-caller"}
		}
		if held[i] != nil {
			c.Count("marshal_results_reread_after_later_calls", 1)
		}
	}
	c.AddEvals(int64(len(t.Vals)) - 1)
	return nil
})

func c12LibOne(c *run.Ctx, v any) *run.Fail {
	m, err := c12Marshal(v)
	if err != nil {
		return run.Failf("gojq.Marshal failed: %v", err)
	}
	c.Logf("Marshal: %s", clipS(string(m), 400))
	// the reference compact text is the white-space-free token string of Marshal's output
	if f := c12CheckText(c12Expect{V: v}, m, nil); f != nil {
		return prefixFail(f, "gojq.Marshal")
	}
	toks, _, _ := c12Scan(m, 0)
	ref := c12Compact(m, toks)
	_, isStr := v.(string)
	wv, wref := v, ref
	arrRef := append(append([]byte{'['}, ref...), ']')
	if isStr {
		wv, wref = []any{v}, arrRef
	}
	objRef := append(append([]byte(`{"a":`), ref...), '}')
	exp := []c12Expect{
		{v, ref}, {v, ref}, {v, ref}, {v, ref},
		{wv, wref}, {wv, wref}, {wv, wref}, {wv, wref},
		{},
		{[]any{v}, arrRef}, {map[string]any{"a": v}, objRef},
	}
	tr := run.RunCode(c12LibCode, v, []any{v}, 1000000, 0)
	if tr.End == run.EndBudget {
		c.Inconclusive("budget")
		return nil
	}
	if tr.End != run.EndOK || len(tr.Vals) != 1 {
		return run.Failf("the serialising filters did not yield one result: %s", run.TraceDesc(tr))
	}
	outs, ok := tr.Vals[0].([]any)
	if !ok || len(outs) != len(exp) {
		return run.Failf("unexpected result shape %s", run.TraceDesc(tr))
	}
	verified := map[string]bool{} // identical text for the same expectation is checked once
	for i, o := range outs {
		if i == 8 {
			// tojson | fromjson: a value, compared directly (same lossy cases)
			if d := c12EqualVal(v, c12Std(o), "$"); d != nil {
				return &run.Fail{Detail: fmt.Sprintf("tojson|fromjson is not the identity: %s", d), Sig: "c12.fromjson:" + d.Kind}
			}
			continue
		}
		s, ok := o.(string)
		if !ok {
			return run.Failf("%s returned %T, want a string", c12LibNames[i], o)
		}
		c.Logf("%s: %s", c12LibNames[i], clipS(s, 400))
		key := strconv.Itoa(i/4) + s
		if i >= 9 {
			key = strconv.Itoa(i) + s
		}
		if verified[key] {
			continue
		}
		if f := c12CheckText(exp[i], []byte(s), []c12Layout{{Compact: true}}); f != nil {
			return prefixFail(f, "%s", c12LibNames[i])
		}
		verified[key] = true
		c.Count("lib_texts_decoded", 1)
	}
	c.Count("lib_values", 1)
	if f := c12Features(v, 0); f != 0 {
		c.Nontrivial("lib\x00" + string(m) + fmt.Sprintf("\x00%T", v))
		c12CountFeatures(c, "lib_", f)
	}
	return nil
}

// c12Std converts a gojq value (as returned by fromjson) to the shape
// encoding/json produces, so that c12EqualVal can be used on it: numbers in
// any representation become json.Number via an own formatter.
func c12Std(v any) any {
	switch v := v.(type) {
	case int:
		return json.Number(strconv.Itoa(v))
	case *big.Int:
		return json.Number(v.String())
	case float64:
		if math.IsNaN(v) || math.IsInf(v, 0) {
			return fmt.Sprintf("<non-finite float %v>", v)
		}
		return json.Number(strconv.FormatFloat(v, 'e', -1, 64))
	case []any:
		w := make([]any, len(v))
		for i, x := range v {
			w[i] = c12Std(x)
		}
		return w
	case map[string]any:
		w := make(map[string]any, len(v))
		for k, x := range v {
			w[k] = c12Std(x)
		}
		return w
	}
	return v
}

// ---------------------------------------------------------------- c12.cli

// c12Filter rebuilds a value from its tagged JSON carrier inside the real VM,
// so that the command emits ints, float64s (NaN, infinities, -0 included),
// *big.Int and strings with invalid UTF-8 - values JSON input cannot carry.
const c12Filter = `def d: if type == "array" then map(d) elif type == "object" then (if has("n") then .n | tonumber elif has("f") then (if .f == "nan" then nan elif .f == "inf" then infinite else -infinite end) elif has("b") then .b | @base64d else [.o[] | {(.[0] | d): (.[1] | d)}] | add // {} end) else . end; d`

func c12TagStr(sb *bytes.Buffer, s string) {
	if !utf8.ValidString(s) {
		sb.WriteString(`{"b":"`)
		sb.WriteString(base64.StdEncoding.EncodeToString([]byte(s)))
		sb.WriteString(`"}`)
		return
	}
	c12PlainStr(sb, s)
}

// c12PlainStr writes a valid UTF-8 string as a JSON string with the minimal
// escapes (own writer).
func c12PlainStr(sb *bytes.Buffer, s string) {
	sb.WriteByte('"')
	for i := 0; i < len(s); i++ {
		switch b := s[i]; {
		case b == '"' || b == '\\':
			sb.WriteByte('\\')
			sb.WriteByte(b)
		case b < 0x20:
			fmt.Fprintf(sb, "\\u%04x", b)
		default:
			sb.WriteByte(b)
		}
	}
	sb.WriteByte('"')
}

// c12Tagged writes the carrier of v.
func c12Tagged(sb *bytes.Buffer, v any) {
	switch v := v.(type) {
	case nil:
		sb.WriteString("null")
	case bool:
		sb.WriteString(strconv.FormatBool(v))
	case string:
		c12TagStr(sb, v)
	case int:
		fmt.Fprintf(sb, `{"n":"%d"}`, v)
	case *big.Int:
		fmt.Fprintf(sb, `{"n":"%s"}`, v.String())
	case float64:
		switch {
		case math.IsNaN(v):
			sb.WriteString(`{"f":"nan"}`)
		case math.IsInf(v, 1):
			sb.WriteString(`{"f":"inf"}`)
		case math.IsInf(v, -1):
			sb.WriteString(`{"f":"-inf"}`)
		default:
			fmt.Fprintf(sb, `{"n":"%s"}`, strconv.FormatFloat(v, 'e', -1, 64))
		}
	case json.Number:
		sb.WriteString(string(v))
	case []any:
		sb.WriteByte('[')
		for i, x := range v {
			if i > 0 {
				sb.WriteByte(',')
			}
			c12Tagged(sb, x)
		}
		sb.WriteByte(']')
	case map[string]any:
		keys := make([]string, 0, len(v))
		for k := range v {
			keys = append(keys, k)
		}
		sort.Strings(keys)
		sb.WriteString(`{"o":[`)
		for i, k := range keys {
			if i > 0 {
				sb.WriteByte(',')
			}
			sb.WriteByte('[')
			c12TagStr(sb, k)
			sb.WriteByte(',')
			c12Tagged(sb, v[k])
			sb.WriteByte(']')
		}
		sb.WriteString(`]}`)
	default:
		panic(fmt.Sprintf("c12: cannot carry %T", v))
	}
}

type c12Mode struct {
	Args   []string `json:"args"`
	Colors string   `json:"colors,omitempty"` // GOJQ_COLORS ("" = unset)
}

type c12CLICase struct {
	Tag   string    `json:"tag"`
	Vals  []run.TV  `json:"vals"`
	Modes []c12Mode `json:"modes"`
	YAML  []int     `json:"yaml"` // --yaml-output runs: the --indent value, -1 = none
}

type c12ModeInfo struct {
	color bool
	sep   string
	wrap  int // 0 none, 1 top-level strings, 2 every non-container
	lays  []c12Layout
}

func c12ParseMode(m c12Mode) c12ModeInfo {
	info := c12ModeInfo{sep: "\n"}
	compact, tab, indent := false, false, -1
	for i := 0; i < len(m.Args); i++ {
		switch a := m.Args[i]; a {
		case "-c", "--compact-output":
			compact = true
		case "--tab":
			tab = true
		case "--indent":
			indent, _ = strconv.Atoi(m.Args[i+1])
			i++
		case "-C", "--color-output":
			info.color = true
		case "-M":
		case "-r":
			info.wrap = max(info.wrap, 1)
		case "--raw-output0":
			info.wrap = max(info.wrap, 1)
			info.sep = "\x00"
		case "-j":
			info.wrap = 2
			info.sep = ""
		default:
			panic("c12: unknown mode argument " + a)
		}
	}
	// a single layout option decides the layout; for combinations whose
	// precedence is not pinned any of the named layouts is accepted
	if compact {
		info.lays = append(info.lays, c12Layout{Compact: true})
	}
	if tab {
		info.lays = append(info.lays, c12Layout{Unit: "\t"})
	}
	if indent >= 0 {
		info.lays = append(info.lays, c12Layout{Unit: strings.Repeat(" ", indent)})
	}
	if len(info.lays) == 0 {
		info.lays = []c12Layout{{Unit: "  "}}
	}
	return info
}

func c12Env(colors string) []string {
	env := []string{"PATH=/usr/bin:/bin", "HOME=/nonexistent", "LANG=C"}
	if colors != "" {
		env = append(env, "GOJQ_COLORS="+colors)
	}
	return env
}

func c12UnitName(l c12Layout) string {
	switch {
	case l.Compact:
		return "compact"
	case l.Unit == "\t":
		return "tab"
	}
	return strconv.Itoa(len(l.Unit)) + "sp"
}

var kC12CLI = run.NewKind("c12.cli", func(c *run.Ctx, t c12CLICase) *run.Fail {
	c12Codes()
	vals := run.UnTVs(t.Vals)
	n := len(vals)
	if n == 0 {
		return nil
	}
	// carrier text, and the value the library VM emits for it
	var stdin bytes.Buffer
	lines := make([][]byte, n)
	exp := make([]c12Expect, n)
	feats := make([]int, n)
	for i, v := range vals {
		var sb bytes.Buffer
		c12Tagged(&sb, v)
		lines[i] = append(sb.Bytes(), '\n')
		stdin.Write(lines[i])
		x, err := c12Decode(sb.Bytes())
		if err != nil {
			return run.Failf("harness: carrier of value #%d is not JSON: %v", i, err)
		}
		tr := run.RunCode(c12DCode, x, nil, 50000000, 0)
		if tr.End == run.EndBudget {
			c.Inconclusive("budget")
			return nil
		}
		if tr.End != run.EndOK || len(tr.Vals) != 1 {
			return run.Failf("delivery: the decode filter failed on the carrier of value #%d %s: %s", i, c12Describe(v), run.TraceDesc(tr))
		}
		if run.Canon(tr.Vals[0]) != run.Canon(v) {
			return run.Failf("delivery: the decode filter rebuilt %s from the carrier of %s", c12Describe(tr.Vals[0]), c12Describe(v))
		}
		emitted := tr.Vals[0]
		m, err := c12Marshal(emitted)
		if err != nil {
			return run.Failf("gojq.Marshal failed on value #%d: %v", i, err)
		}
		toks, end, err := c12Scan(m, 0)
		if err != nil || end != len(m) {
			return &run.Fail{Detail: fmt.Sprintf("gojq.Marshal of value #%d %s is not JSON: %v", i, c12Describe(v), err), Sig: "c12.invalid-json"}
		}
		exp[i] = c12Expect{V: emitted, Ref: c12Compact(m, toks)}
		feats[i] = c12Features(emitted, 0)
	}
	wrapped := func(wrap int) []c12Expect {
		if wrap == 0 {
			return exp
		}
		out := make([]c12Expect, n)
		for i, e := range exp {
			_, isStr := e.V.(string)
			_, isArr := e.V.([]any)
			_, isObj := e.V.(map[string]any)
			if wrap == 1 && isStr || wrap == 2 && !isArr && !isObj {
				out[i] = c12Expect{V: []any{e.V}, Ref: append(append([]byte{'['}, e.Ref...), ']')}
			} else {
				out[i] = e
			}
		}
		return out
	}
	for _, mode := range t.Modes {
		info := c12ParseMode(mode)
		filter := c12Filter
		switch info.wrap {
		case 1:
			filter += ` | if type == "string" then [.] else . end`
		case 2:
			filter += ` | if type == "array" or type == "object" then . else [.] end`
		}
		args := append(append([]string{}, mode.Args...), filter)
		r := run.CLI(run.CLIOpt{Args: args, Stdin: stdin.Bytes(), Env: c12Env(mode.Colors)})
		if r.TimedOut || r.StartErr != nil {
			c.Inconclusive("cli-timeout")
			continue
		}
		name := strings.Join(mode.Args, " ")
		if mode.Colors != "" {
			name = "GOJQ_COLORS=" + mode.Colors + " " + name
		}
		if r.Code != 0 || len(r.Stderr) != 0 {
			return &run.Fail{Detail: fmt.Sprintf("gojq %s exited %d: %s", name, r.Code, run.Clip(string(r.Stderr))), Sig: "c12.cli-error"}
		}
		out := r.Stdout
		nseq := 0
		if info.color {
			var err error
			out, nseq, err = c12StripSGR(out)
			if err != nil {
				return &run.Fail{Detail: fmt.Sprintf("gojq %s: %v", name, err), Sig: "c12.sgr"}
			}
			c.Count("sgr_sequences_stripped", int64(nseq))
		}
		if !utf8.Valid(out) {
			return &run.Fail{Detail: fmt.Sprintf("gojq %s: output is not valid UTF-8", name), Sig: "c12.invalid-utf8"}
		}
		es := wrapped(info.wrap)
		st := &c12LayoutStats{Depths: map[int]bool{}}
		pos := 0
		for i := range es {
			if pos >= len(out) {
				return &run.Fail{Detail: fmt.Sprintf("gojq %s: output ends after %d of %d values", name, i, n), Sig: "c12.count"}
			}
			linesBefore := st.Lines
			toks, end, err := c12Scan(out, pos)
			if err != nil {
				return &run.Fail{Detail: fmt.Sprintf("gojq %s: output #%d for %s is not JSON: %v; text %q", name, i, c12Describe(vals[i]), err, clipS(string(out[pos:]), 200)), Sig: "c12.invalid-json"}
			}
			if f := c12CheckScanned(es[i], out, toks, pos, end, info.lays, st); f != nil {
				return prefixFail(f, "gojq %s: output #%d for %s", name, i, c12Describe(vals[i]))
			}
			if !bytes.HasPrefix(out[end:], []byte(info.sep)) {
				return &run.Fail{Detail: fmt.Sprintf("gojq %s: output #%d is followed by %q, want separator %q", name, i, clipS(string(out[end:]), 20), info.sep), Sig: "c12.separator"}
			}
			if end-pos > 8192 {
				c.Count("cli_outputs_over_8KiB", 1)
			}
			pos = end + len(info.sep)
			if feats[i] != 0 || st.Lines > linesBefore {
				c.Nontrivial("cli\x00" + name + "\x00" + string(es[i].Ref))
			}
		}
		if pos != len(out) {
			return &run.Fail{Detail: fmt.Sprintf("gojq %s: %d unexpected bytes after the last value: %q", name, len(out)-pos, clipS(string(out[pos:]), 80)), Sig: "c12.count"}
		}
		c.Count("cli_runs", 1)
		c.Count("cli_outputs_checked", int64(n))
		c.Count("indent_lines_checked", int64(st.Lines))
		c.Gauge("max_indent_bytes", int64(st.MaxWidth))
		c.Distinct("modes", name)
		if len(info.lays) == 1 && !info.lays[0].Compact {
			u := c12UnitName(info.lays[0])
			for d := range st.Depths {
				c.Distinct("indent_depth_x_unit", fmt.Sprintf("%s/%d", u, d))
			}
		}
		if info.color && nseq > 0 {
			c.Count("coloured_runs", 1)
		}
		c.AddEvals(int64(n))
	}
	for _, f := range feats {
		c12CountFeatures(c, "cli_", f)
	}
	var yamlFail *run.Fail
	for _, ind := range t.YAML {
		if f := c12YAML(c, vals, exp, lines, ind); f != nil {
			if !strings.HasPrefix(f.Sig, "c12.yaml.block-scalar:") {
				return f
			}
			if yamlFail == nil {
				yamlFail = f
			}
		}
		c.AddEvals(int64(n))
	}
	c.AddEvals(-1)
	return yamlFail
})

// c12YAMLRound writes the carriers through --yaml-output and reads the text
// back with --yaml-input -c. It returns the compact JSON lines, or an error
// description (with the reader's or writer's message).
func c12YAMLRound(c *run.Ctx, stdin []byte, indent int) (lines [][]byte, yamlText []byte, problem, sig string) {
	args := []string{"--yaml-output"}
	if indent >= 0 {
		args = append(args, "--indent", strconv.Itoa(indent))
	}
	args = append(args, c12Filter)
	w := run.CLI(run.CLIOpt{Args: args, Stdin: stdin, Env: c12Env("")})
	if w.TimedOut || w.StartErr != nil {
		return nil, nil, "timeout", ""
	}
	if w.Code != 0 || len(w.Stderr) != 0 {
		return nil, w.Stdout, fmt.Sprintf("gojq --yaml-output exited %d: %s", w.Code, run.Clip(string(w.Stderr))), "c12.yaml.write-error"
	}
	r := run.CLI(run.CLIOpt{Args: []string{"--yaml-input", "-c", "."}, Stdin: w.Stdout, Env: c12Env("")})
	if r.TimedOut || r.StartErr != nil {
		return nil, w.Stdout, "timeout", ""
	}
	c.Count("cli_runs", 2)
	if r.Code != 0 || len(r.Stderr) != 0 {
		msg := string(r.Stderr)
		core := msg
		if i := strings.LastIndex(msg, "^  "); i >= 0 {
			core = strings.TrimSpace(msg[i+3:])
		}
		return nil, w.Stdout, fmt.Sprintf("gojq --yaml-input rejects what --yaml-output wrote (exit %d): %s", r.Code, run.Clip(msg)), "c12.yaml.readback-error: " + clipS(core, 100)
	}
	out := bytes.TrimSuffix(r.Stdout, []byte("\n"))
	return bytes.Split(out, []byte("\n")), w.Stdout, "", ""
}

// c12NeedsHint reports whether v contains (as a value or as a key) a
// multi-line string that starts with white space. A YAML writer that uses a
// block scalar for such a string has to state the indentation explicitly;
// these values are round-tripped one by one so that a failure of this class
// (D11, D12) cannot hide an unrelated failure in the same stream.
func c12NeedsHint(v any) bool {
	tab, hint := c12LeadClasses(v)
	return tab || hint
}

// c12LeadClasses reports whether v contains a multi-line string that starts
// with a tab, and one that starts with a space or a line break.
func c12LeadClasses(v any) (tab, hint bool) {
	switch v := v.(type) {
	case string:
		if !strings.Contains(v, "\n") || !utf8.ValidString(v) {
			return
		}
		r, _ := utf8.DecodeRuneInString(v)
		switch r {
		case '\t':
			tab = true
		case ' ', '\n', '\r', 0x85, 0x2028, 0x2029:
			hint = true
		}
	case []any:
		for _, x := range v {
			t, h := c12LeadClasses(x)
			tab, hint = tab || t, hint || h
		}
	case map[string]any:
		for k, x := range v {
			t, h := c12LeadClasses(k)
			tab, hint = tab || t, hint || h
			t, h = c12LeadClasses(x)
			tab, hint = tab || t, hint || h
		}
	}
	return
}

func c12YAML(c *run.Ctx, vals []any, exp []c12Expect, carrier [][]byte, indent int) *run.Fail {
	name := "--yaml-output"
	if indent >= 0 {
		name += " --indent " + strconv.Itoa(indent)
	}
	check := func(i int, line []byte) *run.Fail {
		w, err := c12Decode(line)
		if err != nil {
			return &run.Fail{Detail: fmt.Sprintf("%s | --yaml-input -c: line for value #%d %s is not JSON: %v", name, i, c12Describe(vals[i]), err), Sig: "c12.invalid-json"}
		}
		if d := c12EqualVal(exp[i].V, w, "$"); d != nil {
			sig := "c12.yaml.readback:" + d.Kind
			// D12 also shows as a silently different value: the string (or key)
			// that differs is itself multi-line with a leading space or break
			// and the indentation option is not 1 or 2
			if _, hint := c12LeadClasses(d.Leaf); hint && indent != -1 && indent != 1 && indent != 2 {
				sig = "c12.yaml.block-scalar:wrong-indentation-indicator-under-indent-option"
			}
			return &run.Fail{Detail: fmt.Sprintf("%s | --yaml-input: value #%d %s reads back different %s", name, i, c12Describe(vals[i]), d), Sig: sig}
		}
		c.Count("yaml_roundtrips", 1)
		if c12Features(exp[i].V, 0) != 0 {
			c.Nontrivial("yaml\x00" + name + "\x00" + string(exp[i].Ref))
		}
		return nil
	}
	single := func(i int) *run.Fail {
		ls, ytext, p, s := c12YAMLRound(c, carrier[i], indent)
		if p == "timeout" {
			c.Inconclusive("cli-timeout")
			return nil
		}
		if p != "" {
			// the reader (or writer) failed. Two families are told apart by the
			// class of the value and the outcome, for known-finding matching:
			// a multi-line string starting with a tab whose block scalar the
			// reader rejects for that tab (D11), and a multi-line string
			// starting with a space or line break written under an indentation
			// other than 2, where the indentation indicator is wrong (D12).
			tab, hint := c12LeadClasses(exp[i].V)
			switch {
			case tab && strings.Contains(p, "found a tab character where an indentation space is expected"):
				s = "c12.yaml.block-scalar:leading-tab-rejected"
			case hint && indent != -1 && indent != 1 && indent != 2 && strings.HasPrefix(s, "c12.yaml.readback-error"):
				s = "c12.yaml.block-scalar:wrong-indentation-indicator-under-indent-option"
			}
			return &run.Fail{Detail: fmt.Sprintf("%s: value #%d %s: %s\nYAML text: %q", name, i, c12Describe(vals[i]), p, clipS(string(ytext), 300)), Sig: s}
		}
		if len(ls) != 1 {
			return &run.Fail{Detail: fmt.Sprintf("%s | --yaml-input: value #%d %s reads back as %d documents\nYAML text: %q", name, i, c12Describe(vals[i]), len(ls), clipS(string(ytext), 300)), Sig: "c12.yaml.count"}
		}
		return check(i, ls[0])
	}
	var stream, alone []int
	for i, e := range exp {
		if c12NeedsHint(e.V) {
			alone = append(alone, i)
		} else {
			stream = append(stream, i)
		}
	}
	// one stream of documents for the bulk of the values
	if len(stream) > 0 {
		var in bytes.Buffer
		for _, i := range stream {
			in.Write(carrier[i])
		}
		lines, _, problem, sig := c12YAMLRound(c, in.Bytes(), indent)
		switch {
		case problem == "timeout":
			c.Inconclusive("cli-timeout")
		case problem == "" && len(lines) == len(stream):
			for j, l := range lines {
				if f := check(stream[j], l); f != nil {
					return f
				}
			}
			c.Distinct("modes", name)
		default:
			// the stream as a whole failed: find the value responsible
			c.Count("yaml_stream_fallbacks", 1)
			for _, i := range stream {
				if f := single(i); f != nil {
					return f
				}
			}
			if problem == "" {
				problem = fmt.Sprintf("%d documents read back for %d values", len(lines), len(stream))
				sig = "c12.yaml.count"
			}
			return &run.Fail{Detail: fmt.Sprintf("%s: the stream of %d values fails although each value alone round-trips: %s", name, len(stream), problem), Sig: sig}
		}
	}
	// every value of the white-space-led class is checked; a failure outside
	// the two block scalar families is reported in preference to one inside
	var first *run.Fail
	for _, i := range alone {
		c.Count("yaml_block_scalar_hint_values", 1)
		if f := single(i); f != nil {
			if !strings.HasPrefix(f.Sig, "c12.yaml.block-scalar:") {
				return f
			}
			if first == nil {
				first = f
			}
		}
	}
	return first
}

// ---------------------------------------------------------------- c12.rawin

type c12RawCase struct {
	How  string   `json:"how"` // "-R", "--rawfile", "--arg"
	Strs []run.TV `json:"strs"`
	Args []string `json:"args"`
}

var kC12Raw = run.NewKind("c12.rawin", func(c *run.Ctx, t c12RawCase) *run.Fail {
	info := c12ParseMode(c12Mode{Args: t.Args})
	var outs [][]byte
	var want []string
	for _, tv := range t.Strs {
		s, _ := tv.V.(string)
		want = append(want, s)
	}
	runOne := func(o run.CLIOpt) ([]byte, *run.Fail) {
		o.Env = c12Env("")
		r := run.CLI(o)
		if r.TimedOut || r.StartErr != nil {
			c.Inconclusive("cli-timeout")
			return nil, nil
		}
		if r.Code != 0 || len(r.Stderr) != 0 {
			return nil, &run.Fail{Detail: fmt.Sprintf("gojq %v exited %d: %s", o.Args, r.Code, run.Clip(string(r.Stderr))), Sig: "c12.cli-error"}
		}
		c.Count("cli_runs", 1)
		return r.Stdout, nil
	}
	switch t.How {
	case "-R":
		var in bytes.Buffer
		for _, s := range want {
			in.WriteString(s)
			in.WriteByte('\n')
		}
		out, f := runOne(run.CLIOpt{Args: append(append([]string{"-R"}, t.Args...), "."), Stdin: in.Bytes()})
		if f != nil || out == nil {
			return f
		}
		outs = append(outs, out)
	case "--rawfile", "--arg":
		dir, err := os.MkdirTemp("", "vp-c12-*")
		if err != nil {
			c.Inconclusive("tempdir")
			return nil
		}
		defer os.RemoveAll(dir)
		for i, s := range want {
			var o run.CLIOpt
			if t.How == "--rawfile" {
				p := filepath.Join(dir, fmt.Sprintf("f%d", i))
				if err := os.WriteFile(p, []byte(s), 0o644); err != nil {
					c.Inconclusive("tempfile")
					return nil
				}
				o = run.CLIOpt{Args: append(append([]string{"-n", "--rawfile", "x", p}, t.Args...), "$x"), NoStdin: true}
			} else {
				o = run.CLIOpt{Args: append(append([]string{"-n", "--arg", "x", s}, t.Args...), "$x"), NoStdin: true}
			}
			out, f := runOne(o)
			if f != nil || out == nil {
				return f
			}
			outs = append(outs, out)
		}
	default:
		return run.Failf("bad case")
	}
	// check
	idx := 0
	for _, out := range outs {
		if info.color {
			var err error
			out, _, err = c12StripSGR(out)
			if err != nil {
				return &run.Fail{Detail: fmt.Sprintf("gojq %s %v: %v", t.How, t.Args, err), Sig: "c12.sgr"}
			}
		}
		if !utf8.Valid(out) {
			return &run.Fail{Detail: fmt.Sprintf("gojq %s %v: output is not valid UTF-8: %q", t.How, t.Args, clipS(string(out), 200)), Sig: "c12.invalid-utf8"}
		}
		pos := 0
		for pos < len(out) {
			if idx >= len(want) {
				return &run.Fail{Detail: fmt.Sprintf("gojq %s %v: more outputs than inputs", t.How, t.Args), Sig: "c12.count"}
			}
			toks, end, err := c12Scan(out, pos)
			if err != nil {
				return &run.Fail{Detail: fmt.Sprintf("gojq %s %v: output for %q is not JSON: %v; text %q", t.How, t.Args, clipS(want[idx], 80), err, clipS(string(out[pos:]), 200)), Sig: "c12.invalid-json"}
			}
			if f := c12CheckScanned(c12Expect{V: want[idx]}, out, toks, pos, end, info.lays, nil); f != nil {
				return prefixFail(f, "gojq %s %v: output for %q", t.How, t.Args, clipS(want[idx], 80))
			}
			if end >= len(out) || out[end] != '\n' {
				return &run.Fail{Detail: fmt.Sprintf("gojq %s %v: missing newline after output #%d", t.How, t.Args, idx), Sig: "c12.separator"}
			}
			if c12StrFeatures(want[idx]) != 0 {
				c.Nontrivial("raw\x00" + t.How + strings.Join(t.Args, " ") + "\x00" + want[idx])
			}
			pos = end + 1
			idx++
		}
	}
	if idx != len(want) {
		return &run.Fail{Detail: fmt.Sprintf("gojq %s %v: %d outputs for %d strings", t.How, t.Args, idx, len(want)), Sig: "c12.count"}
	}
	c.Count("rawin_strings_checked", int64(idx))
	c.AddEvals(int64(idx) - 1)
	return nil
})

// ---------------------------------------------------------------- workload

var c12ColorSets = []string{
	"0;31:0;32:0;33:0;34:0;35:0;36:1;37:1;30", // every element coloured, brackets and commas too
	"4;31",                            // only null coloured, the rest uncoloured
	"::::::1;35:7",                    // only arrays and objects
	"38;5;208:38;2;1;2;3:1:2:3:4:5:6", // long parameter lists
}

func c12IndentMode(n int, extra ...string) c12Mode {
	return c12Mode{Args: append(append([]string{}, extra...), "--indent", strconv.Itoa(n))}
}

// c12AllModes is every output option (combination) of the command.
func c12AllModes() []c12Mode {
	ms := []c12Mode{{Args: []string{"-c"}}, {Args: []string{}}, {Args: []string{"--tab"}}}
	for n := 0; n <= 9; n++ {
		ms = append(ms, c12IndentMode(n))
	}
	ms = append(ms,
		c12Mode{Args: []string{"-C"}}, c12Mode{Args: []string{"-C", "-c"}}, c12Mode{Args: []string{"-C", "--tab"}},
		c12IndentMode(3, "-C"), c12IndentMode(0, "-C"),
		c12Mode{Args: []string{"-M"}}, c12Mode{Args: []string{"-M", "-c"}},
		c12Mode{Args: []string{"-r"}}, c12Mode{Args: []string{"-r", "-c"}}, c12Mode{Args: []string{"-j", "-c"}}, c12Mode{Args: []string{"-j"}},
		c12Mode{Args: []string{"--raw-output0", "-c"}}, c12Mode{Args: []string{"--raw-output0", "--tab"}}, c12Mode{Args: []string{"-r", "-C"}},
		c12Mode{Args: []string{"-c", "--tab"}}, c12Mode{Args: []string{"--tab", "--indent", "3"}}, c12Mode{Args: []string{"-c", "--indent", "5"}},
		c12Mode{Args: []string{"-C", "-c", "--tab", "--indent", "1"}},
	)
	for i, cs := range c12ColorSets {
		args := [][]string{{"-C"}, {"-C", "-c"}, {"-C", "--tab"}, {"-C", "--indent", "7"}}[i%4]
		ms = append(ms, c12Mode{Args: args, Colors: cs})
	}
	return ms
}

// c12IndentSweep is every indentation unit, plain and coloured.
func c12IndentSweep() []c12Mode {
	ms := []c12Mode{{Args: []string{"-c"}}, {Args: []string{}}, {Args: []string{"--tab"}}, {Args: []string{"-C", "--tab"}}, {Args: []string{"-C"}}}
	for n := 0; n <= 9; n++ {
		ms = append(ms, c12IndentMode(n))
		if n%2 == 1 {
			ms = append(ms, c12IndentMode(n, "-C"))
		}
	}
	ms = append(ms, c12Mode{Args: []string{"-C", "--indent", "9"}, Colors: c12ColorSets[0]}, c12Mode{Args: []string{"-C", "--tab"}, Colors: c12ColorSets[2]})
	return ms
}

func c12SomeModes(r interface{ IntN(int) int }, k int) []c12Mode {
	all := c12AllModes()
	ms := []c12Mode{{Args: []string{"-c"}}, {Args: []string{}}}
	seen := map[int]bool{0: true, 1: true}
	for len(ms) < k {
		i := r.IntN(len(all))
		if !seen[i] {
			seen[i] = true
			ms = append(ms, all[i])
		}
	}
	return ms
}

func init() {
	run.Register(&run.Prop{
		ID: "C12", Level: "exploration", MinNontrivial: 2000,
		Rule: "lib: a Go value (every representation gojq can emit) -> gojq.Marshal and tojson/@json/tostring/@text/interpolation run by the real VM, each text read by an own scanner and by encoding/json and compared with the value (NaN->null, +-Inf->+-MaxFloat64, invalid UTF-8->U+FFFD allowed), all texts equal after white-space removal, tojson|fromjson identity. " +
			"cli: batches of values rebuilt inside the real command from a tagged carrier (tonumber, nan, infinite, @base64d) and printed under every output option (combination); outputs split and tokenised by the own scanner, SGR sequences removed by an own stripper, compared with the value, with library Marshal (white-space-free), and with the layout (depth x unit per line, [] and {} inline); --yaml-output | --yaml-input -c compared by value. " +
			"non-trivial = the value contains a string needing an escape / non-ASCII / invalid UTF-8, a non-integral or special float, a big integer, a number literal, a hard object key or nesting (lib), or additionally any indented multi-line output (cli); distinct by (mode, compact text). Also (kind c12.streams): 2..6 inputs printing 0..3 values each under 9 output modes, all 81 shapes of which of 4 inputs print 0, 1 or 2 values; the stream written is taken apart by an independent reader (--yaml-input for YAML) and must be exactly the values printed.",
		Assumptions: []string{
			"encoding/json (UseNumber), strconv, unicode/utf8 and math/big are correct",
			"the command rebuilds the carried value exactly as the library does (checked: the library result of the same decode filter must equal the intended value, otherwise the case fails as 'delivery')",
			"option combinations whose precedence is not pinned (-c with --tab / --indent, --tab with --indent) may use any of the named layouts",
			"number equality is exact decimal equality of the texts for int, *big.Int and json.Number, float64 equality for float64; -0 equals 0",
		},
		Body: c12Body,
	})
}

func c12Body(c *run.Ctx) {
	all := c12AllLen2()
	c.Gauge("alphabet_symbols", int64(len(c12Alphabet)))
	c.Gauge("len2_strings", int64(len(all)))

	// 1. exhaustive strings of length <= 2 as values and as keys: library
	const libBatch = 128
	for i := 0; i < len(all); i += libBatch {
		var vs []any
		for _, s := range all[i:min(i+libBatch, len(all))] {
			vs = append(vs, s, map[string]any{s: s})
		}
		kC12Lib.Do(c, c12LibCase{Tag: "exhaustive-len2", Vals: run.TVs(vs)})
	}
	// ... and through the command, under every output option and YAML
	const cliBatch = 160
	modes := c12AllModes()
	for i := 0; i < len(all); i += cliBatch {
		if !c.Mine() {
			c.Skip()
			continue
		}
		var vs []any
		for _, s := range all[i:min(i+cliBatch, len(all))] {
			vs = append(vs, s, map[string]any{s: []any{s}})
		}
		kC12CLI.Do(c, c12CLICase{Tag: "exhaustive-len2", Vals: run.TVs(vs), Modes: modes, YAML: []int{-1, 4}})
	}
	c.Gauge("exhaustive_len2_strings", 1)

	// 1b. streams: several inputs printing zero or more values each, under every kind of output mode
	for _, t := range c12StreamCases(c.Rand("c12.streams"), c.N(300, 6000)) {
		kC12Stream.Do(c, t)
	}

	// 2. fixed classes: floats, number literals, special strings (library and command)
	{
		var vs []any
		for _, f := range c12FloatClasses {
			vs = append(vs, f, -f)
		}
		vs = append(vs, math.NaN(), math.Inf(1), math.Inf(-1))
		for _, l := range c12NumberLits {
			vs = append(vs, json.Number(l))
		}
		for _, s := range c12Specials {
			vs = append(vs, s, map[string]any{s: s})
		}
		for k := 62; k <= 130; k += 17 {
			b := new(big.Int).Lsh(big.NewInt(1), uint(k))
			vs = append(vs, b, new(big.Int).Neg(b), []any{new(big.Int).Add(b, big.NewInt(1))})
		}
		vs = append(vs, nil, true, false, []any{}, map[string]any{}, []any{[]any{}, map[string]any{}}, 0, -1, math.MaxInt64, math.MinInt64)
		for i := 0; i < len(vs); i += 100 {
			part := vs[i:min(i+100, len(vs))]
			kC12Lib.Do(c, c12LibCase{Tag: "classes", Vals: run.TVs(part)})
			kC12CLI.Do(c, c12CLICase{Tag: "classes", Vals: run.TVs(part), Modes: modes, YAML: []int{-1, 1, 9}})
		}
	}

	// 2b. numbers (and near-numbers) arriving as YAML text, in every position class
	{
		nums, others := c12YAMLSpellings()
		c.Gauge("yaml_number_spellings", int64(len(nums)))
		c.Gauge("yaml_other_spellings", int64(len(others)))
		ym := []c12Mode{{Args: []string{"-c"}}, {Args: []string{}}, {Args: []string{"--tab"}}, {Args: []string{"-C"}}, c12IndentMode(1), {Args: []string{"-C", "-c"}, Colors: c12ColorSets[0]}}
		for pos := 0; pos < 6; pos++ {
			for i := 0; i < len(nums); i += 12 {
				if !c.Mine() {
					c.Skip()
					continue
				}
				kC12YAMLIn.Do(c, c12YAMLInCase{Spell: nums[i:min(i+12, len(nums))], Pos: pos, Modes: ym})
			}
			for _, s := range others {
				if pos != 0 && c.Quick() && len(s)%3 != pos%3 {
					continue // same decision in every worker: sequence numbers stay aligned
				}
				if !c.Mine() {
					c.Skip()
					continue
				}
				kC12YAMLIn.Do(c, c12YAMLInCase{Spell: []string{s}, Pos: pos, Modes: ym[:3]})
			}
		}
	}

	// 3. library: random values
	nlib := c.N(26000, 590000)
	const per = 100
	for i := 0; i < nlib/per; i++ {
		if !c.Mine() {
			c.Skip()
			continue
		}
		r := c.Rand(fmt.Sprintf("c12.lib.%d", i))
		vs := make([]any, per)
		for j := range vs {
			switch r.IntN(10) {
			case 0, 1, 2:
				vs[j] = c12RandString(r)
			case 3, 4:
				vs[j] = c12RandNumber(r)
			case 5:
				vs[j] = map[string]any{c12RandKey(r): c12RandLeaf(r)}
			default:
				vs[j] = c12RandValue(r, 1+r.IntN(4))
			}
		}
		kC12Lib.Do(c, c12LibCase{Tag: "random", Vals: run.TVs(vs)})
	}
	// library: deep and wide
	for i := 0; i < c.N(16, 200); i++ {
		if !c.Mine() {
			c.Skip()
			continue
		}
		r := c.Rand(fmt.Sprintf("c12.libdeep.%d", i))
		vs := []any{c12Nest(r, 1+r.IntN(200), r.IntN(3), 3), c12Wide(r, 1+r.IntN(5000), r.IntN(2))}
		kC12Lib.Do(c, c12LibCase{Tag: "deep-wide", Vals: run.TVs(vs)})
	}

	// 4. command: deep nesting, every depth x unit (indent block doubling)
	sweep := c12IndentSweep()
	for i := 0; i < c.N(24, 330); i++ {
		if !c.Mine() {
			c.Skip()
			continue
		}
		r := c.Rand(fmt.Sprintf("c12.deep.%d", i))
		depth := 200
		if i%3 != 0 {
			depth = 1 + r.IntN(200)
		}
		fan := []int{0, 1, 3, 12}[r.IntN(4)]
		if depth > 120 && fan > 3 {
			fan = 3
		}
		vs := []any{c12Nest(r, depth, i%3, fan)}
		if r.IntN(2) == 0 {
			vs = append(vs, c12Nest(r, 1+r.IntN(40), r.IntN(3), 30)) // deep-ish with wide levels: flushes at deep indentation
		}
		kC12CLI.Do(c, c12CLICase{Tag: "deep", Vals: run.TVs(vs), Modes: sweep, YAML: []int{-1, []int{0, 1, 3, 9}[r.IntN(4)]}})
	}
	// 5. command: wide containers and long strings (8 KiB flush threshold)
	for i := 0; i < c.N(20, 300); i++ {
		if !c.Mine() {
			c.Skip()
			continue
		}
		r := c.Rand(fmt.Sprintf("c12.wide.%d", i))
		n := 5000
		if i%4 != 0 {
			n = 1 + r.IntN(5000)
		}
		vs := []any{c12Wide(r, n, i%2)}
		if r.IntN(2) == 0 {
			vs = append(vs, strings.Repeat(c12Pick(r, []string{"x", "é", "\"", "\\", "\x00", "\xff", "\U0001f600"}), 2000+r.IntN(20000)))
		}
		kC12CLI.Do(c, c12CLICase{Tag: "wide", Vals: run.TVs(vs), Modes: c12SomeModes(r, 9), YAML: []int{-1}})
	}
	// 6. command: random batches under random option subsets
	for i := 0; i < c.N(170, 3300); i++ {
		if !c.Mine() {
			c.Skip()
			continue
		}
		r := c.Rand(fmt.Sprintf("c12.cli.%d", i))
		nv := 40 + r.IntN(160)
		vs := make([]any, nv)
		for j := range vs {
			switch r.IntN(10) {
			case 0, 1:
				vs[j] = c12RandString(r)
			case 2, 3:
				vs[j] = c12RandNumber(r)
			case 4:
				vs[j] = map[string]any{c12RandKey(r): c12RandLeaf(r)}
			default:
				vs[j] = c12RandValue(r, 1+r.IntN(4))
			}
		}
		yaml := []int{-1}
		if r.IntN(3) == 0 {
			yaml = append(yaml, r.IntN(10))
		}
		kC12CLI.Do(c, c12CLICase{Tag: "random", Vals: run.TVs(vs), Modes: c12SomeModes(r, 11), YAML: yaml})
	}
	// 6b. number literals with hostile spellings, touched by one operation
	for li, lits := range c12TouchedLits {
		for pi, prog := range c12TouchedProgs {
			if c.Quick() && (li+pi)%2 != 0 && li > 0 {
				continue
			}
			kC12Touched.Do(c, c12TouchedCase{Lits: lits, Prog: prog})
		}
	}
	// 7. strings that reach the command as raw bytes
	rawModes := [][]string{{"-c"}, {}, {"-C"}, {"--tab"}}
	for i := 0; i < len(all); i += 400 {
		var ss []any
		for _, s := range all[i:min(i+400, len(all))] {
			if !strings.Contains(s, "\n") {
				ss = append(ss, s)
			}
		}
		kC12Raw.Do(c, c12RawCase{How: "-R", Strs: run.TVs(ss), Args: rawModes[(i/400)%len(rawModes)]})
	}
	for i := 0; i < c.N(10, 120); i++ {
		r := c.Rand(fmt.Sprintf("c12.raw.%d", i))
		var rf, ar []any
		for j := 0; j < 6; j++ {
			s := c12RandString(r)
			rf = append(rf, s)
			if utf8.ValidString(s) && !strings.Contains(s, "\x00") && len(s) < 50000 {
				ar = append(ar, s)
			}
		}
		kC12Raw.Do(c, c12RawCase{How: "--rawfile", Strs: run.TVs(rf), Args: rawModes[i%len(rawModes)]})
		kC12Raw.Do(c, c12RawCase{How: "--arg", Strs: run.TVs(ar), Args: rawModes[(i+1)%len(rawModes)]})
	}
}
