package mon

import (
	"encoding/json"
	"fmt"
	"math"
	"math/big"
	"math/rand/v2"
	"sort"
	"strconv"
	"strings"
	"sync"
	"unicode"

	"verif/harness/internal/gen"
	"verif/harness/internal/model"
	"verif/harness/internal/run"

	"github.com/itchyny/gojq"
)

// ---- C11: one total order ----

type A = gen.A
type O = gen.O

func bigS(s string) *big.Int {
	b, _ := new(big.Int).SetString(s, 10)
	return b
}

// c11Universe: NaN-free, floats below 2^53 in magnitude, integers of any
// size, every type and nesting shape, near-equal neighbours, equal numbers in
// different representations.
func c11Universe(seed int64, size int) []any {
	u := []any{
		nil, false, true,
		0, 1, -1, 2, 10, -10, 1 << 53, 1<<53 + 1, 1<<53 - 1, -(1 << 53), -(1<<53 + 1), math.MaxInt64, math.MinInt64, math.MaxInt64 - 1,
		0.0, math.Copysign(0, -1), 1.0, -1.0, 0.5, -0.5, 1.5, 2.5, 1e-300, -1e-300, 5e-324, 9007199254740991.0, -9007199254740991.0, 4503599627370495.5, 1e15, 0.1, 0.30000000000000004, 0.3,
		bigS("9223372036854775808"), bigS("9223372036854775809"), bigS("-9223372036854775809"), bigS("-9223372036854775810"), bigS("100000000000000000000000000000"), bigS("100000000000000000000000000001"),
		big.NewInt(1), big.NewInt(0), big.NewInt(1 << 53), big.NewInt(1<<53 + 1),
		json.Number("1"), json.Number("1.0"), json.Number("1.5"), json.Number("9007199254740993"), json.Number("100000000000000000000000000000"), json.Number("1e2"), json.Number("100"), json.Number("-0"), json.Number("0.5"), json.Number("9223372036854775808"),
		// integer and decimal literals whose text order differs from their numeric order, zero spelled every way
		json.Number("0"), json.Number("0.0"), json.Number("-0.0"), json.Number("0e0"), json.Number("-1"), json.Number("-1.0"), json.Number("2"), json.Number("9"), json.Number("10"), json.Number("99"), json.Number("-9"), json.Number("-10"), json.Number("-100"),
		json.Number("1E2"), json.Number("10e1"), json.Number("0.50"), json.Number("9007199254740992"), json.Number("-9223372036854775808"), json.Number("-9223372036854775809"), json.Number("12345678901234567890"), json.Number("-12345678901234567890"), json.Number("123456789012345678901"), json.Number("99999999999999999999"),
		"", "a", "A", "aa", "ab", "b", "a\x00", "é", "z", "ÿ", "￿", "\U00010000", "\U0001F600", "日本", "日", "0", "1", "10", "9", " ", "a b", "\u007f", "~",
		A{}, A{nil}, A{false}, A{0}, A{0.0}, A{1}, A{1, 2}, A{1, 2, 3}, A{1, 3}, A{2}, A{A{}}, A{A{}, A{}}, A{A{1}}, A{O{}}, A{"a"}, A{"a", "b"}, A{nil, nil}, A{1.0, 2}, A{bigS("9223372036854775808")}, A{1, A{2, A{3}}}, A{1, A{2, A{4}}}, A{true}, A{O{"a": 1}},
		O{}, O{"a": nil}, O{"a": 0}, O{"a": 1}, O{"a": 1.0}, O{"a": 2}, O{"b": 0}, O{"a": 1, "b": 2}, O{"a": 1, "b": 3}, O{"a": 2, "b": 0}, O{"a": 0, "c": 0}, O{"b": 1, "c": 0}, O{"": 1}, O{"A": 1}, O{"é": 1}, O{"￿": 1}, O{"\U00010000": 1},
		O{"a": O{}}, O{"a": A{}}, O{"a": O{"b": 1}}, O{"a": O{"b": 2}}, O{"a": A{1}}, O{"a": "x"}, O{"a": 1, "b": 2, "c": 3}, O{"a": nil, "b": nil}, O{"aa": 0}, O{"a": 0, "aa": 0},
	}
	// integers at the edge of the machine word in the representation they do not need, null-valued members under
	// different keys, and slices that share one backing array (same first element, different lengths / offsets)
	shared := A{1, 2, 3, A{1, 2}}
	u = append(u, big.NewInt(math.MinInt64), big.NewInt(math.MaxInt64), big.NewInt(-1), big.NewInt(-(1 << 53)), json.Number("9223372036854775807"), json.Number("-9007199254740993"),
		O{"b": nil}, O{"a": 1, "c": nil}, A{O{"a": nil}}, A{O{"b": nil}}, O{"a": O{"x": nil}}, O{"a": O{"y": nil}},
		shared, shared[:2], shared[:1], shared[1:3], shared[:3], shared[3].(A)[:1], A{shared[:2], shared[:3]},
		// equal key sets whose values differ in opposite directions, the empty key among them (comparison must go by
		// the least differing key, whatever order a map is walked in)
		O{"": 1, "a": 2}, O{"": 2, "a": 1}, O{"": 1, "a": 1}, O{"": 2, "a": 2}, O{"a": 1, "b": 2, "c": 3}, O{"a": 1, "b": 3, "c": 2}, O{"a": 2, "b": 1, "c": 1}, O{"": nil, "\x00": 1}, O{"": 1, "\x00": nil})
	// integers beyond the range of a double (more than 1024 bits), both signs, as *big.Int and as literals: against a float
	// they behave like the infinities, against each other exactly
	huge := "1" + strings.Repeat("0", 320)
	u = append(u, bigS(huge), bigS("-"+huge), json.Number(huge), json.Number("-"+huge), bigS("-"+huge+"1"), A{bigS("-" + huge), 1.5})
	r := rand.New(rand.NewPCG(uint64(seed), 0xc11))
	for len(u) < size {
		v := gen.RandValue(r, 3)
		u = append(u, v)
		// a near-equal neighbour
		switch w := v.(type) {
		case []any:
			u = append(u, append(append(A{}, w...), nil))
		case map[string]any:
			m := O{}
			for k, x := range w {
				m[k] = x
			}
			m["z"] = 0
			u = append(u, m)
		}
	}
	return u
}

var (
	c11Once sync.Once
	c11U    []any
	c11M    [][]int8 // gojq.Compare matrix
)

func c11Init(c *run.Ctx) {
	c11Once.Do(func() {
		c11U = c11Universe(c.Seed, c.N(255, 470))
		n := len(c11U)
		c11M = make([][]int8, n)
		for i := range c11M {
			c11M[i] = make([]int8, n)
			for j := range c11M[i] {
				c11M[i][j] = int8(gojq.Compare(c11U[i], c11U[j]))
			}
		}
	})
}

type c11Row struct{ I int }

var c11OpsCode = sync.OnceValue(func() *gojq.Code {
	res := run.Compile("[$a == $b, $a != $b, $a < $b, $a <= $b, $a > $b, $a >= $b]", gojq.WithVariables([]string{"$a", "$b"}))
	if res.Code == nil {
		panic(res.Err)
	}
	return res.Code
})

var kC11Row = run.NewKind("c11.axioms-row", func(c *run.Ctx, t c11Row) *run.Fail {
	c11Init(c)
	U, M := c11U, c11M
	n := len(U)
	i := t.I
	if i < 0 || i >= n {
		return run.Failf("row out of range")
	}
	d := func(k int) string { return run.Clip(run.Canon(U[k])) + fmt.Sprintf(" (%T)", U[k]) }
	if M[i][i] != 0 {
		return run.Failf("not reflexive: Compare(x,x)=%d for x=%s", M[i][i], d(i))
	}
	for j := 0; j < n; j++ {
		if M[i][j] != -M[j][i] {
			return run.Failf("not antisymmetric: Compare(a,b)=%d, Compare(b,a)=%d for a=%s b=%s", M[i][j], M[j][i], d(i), d(j))
		}
		if M[i][j] < -1 || M[i][j] > 1 {
			return run.Failf("Compare returned %d", M[i][j])
		}
		if s := model.Cmp(U[i], U[j]); int(M[i][j]) != s {
			return run.Failf("Compare(a,b)=%d but the documented order gives %d for a=%s b=%s", M[i][j], s, d(i), d(j))
		}
		// operators are faithful projections
		tr := run.RunCode(c11OpsCode(), nil, []any{U[i], U[j]}, 100000, 0)
		k := int(M[i][j])
		want := fmt.Sprintf("[%v,%v,%v,%v,%v,%v]", k == 0, k != 0, k < 0, k <= 0, k > 0, k >= 0)
		if tr.End != run.EndOK || len(tr.Vals) != 1 || run.Canon(tr.Vals[0]) != want {
			return run.Failf("operators [==,!=,<,<=,>,>=] gave %s, Compare says %d (want %s) for a=%s b=%s", run.TraceDesc(tr), k, want, d(i), d(j))
		}
		for k := 0; k < n; k++ {
			if M[i][j] <= 0 && M[j][k] <= 0 && M[i][k] > 0 {
				return run.Failf("not transitive: a<=b, b<=c but a>c for a=%s b=%s c=%s", d(i), d(j), d(k))
			}
			if M[i][j] == 0 && M[j][k] == 0 && M[i][k] != 0 {
				return run.Failf("equality not transitive for a=%s b=%s c=%s", d(i), d(j), d(k))
			}
			if M[i][j] < 0 && M[j][k] == 0 && M[i][k] >= 0 {
				return run.Failf("a<b, b==c but not a<c for a=%s b=%s c=%s", d(i), d(j), d(k))
			}
		}
	}
	c.AddEvals(int64(n*n) - 1)
	c.Nontrivial(fmt.Sprintf("row %d", i))
	c.Count("triples_checked", int64(n*n))
	c.Count("operator_pairs_checked", int64(n))
	return nil
})

// ---- consumers ----

type c11Cons struct {
	Fn  string
	Arr run.TV
	X   run.TV
}

func strictKey(v any) string {
	b, _ := json.Marshal(run.TV{V: v})
	return string(b)
}

func strictList(vs []any) string {
	var sb strings.Builder
	for _, v := range vs {
		sb.WriteString(strictKey(v))
		sb.WriteByte(';')
	}
	return sb.String()
}

type keyed struct{ v, k any }

func keyOf(v any) any {
	if m, ok := v.(map[string]any); ok {
		return m["a"]
	}
	return nil
}

// keyMulti is the key of `_by(.a[]?)`: the array of ALL outputs of the key filter (none for a missing or scalar .a, the
// elements of an array, the values of an object in key order). _by compares these arrays, whatever their lengths.
func keyMulti(v any) any {
	m, _ := v.(map[string]any)
	switch a := m["a"].(type) {
	case []any:
		return append([]any{}, a...)
	case map[string]any:
		ks := make([]string, 0, len(a))
		for k := range a {
			ks = append(ks, k)
		}
		sort.Strings(ks)
		out := []any{}
		for _, k := range ks {
			out = append(out, a[k])
		}
		return out
	}
	return []any{}
}

func stableSorted(arr []any, key func(any) any) []keyed {
	ks := make([]keyed, len(arr))
	for i, v := range arr {
		ks[i] = keyed{v, key(v)}
	}
	sort.SliceStable(ks, func(i, j int) bool { return model.Cmp(ks[i].k, ks[j].k) < 0 })
	return ks
}

func one(src string, input any, vars ...any) (any, *run.Fail) {
	names := []string{"$x"}
	tr := evalVars(src, input, names[:len(vars)], vars, defBudget)
	if tr.End != run.EndOK || len(tr.Vals) != 1 {
		return nil, run.Failf("%s: expected one output, got %s", src, run.TraceDesc(tr))
	}
	return tr.Vals[0], nil
}

var kC11Cons = run.NewKind("c11.consumer", func(c *run.Ctx, t c11Cons) *run.Fail {
	arr, _ := t.Arr.V.([]any)
	x := t.X.V
	ident := func(v any) any { return v }
	fail := func(got any, want string, what string) *run.Fail {
		return run.Failf("%s on %s: got %s, %s %s", t.Fn, run.Clip(strictKey(arr)), run.Clip(strictKey(got)), what, run.Clip(want))
	}
	c.Nontrivial(t.Fn + strictKey(arr) + strictKey(x))
	keyOf := keyOf
	if strings.Contains(t.Fn, "[]?") {
		keyOf = keyMulti
	}
	switch t.Fn {
	case "sort", "sort_by(.a)", "sort_by(.a[]?)":
		key := ident
		if t.Fn != "sort" {
			key = keyOf
		}
		got, f := one(t.Fn, arr)
		if f != nil {
			return f
		}
		var want []any
		for _, k := range stableSorted(arr, key) {
			want = append(want, k.v)
		}
		g, _ := got.([]any)
		if strictList(g) != strictList(want) {
			return fail(got, strictList(want), "the stable ordered permutation is")
		}
	case "unique", "unique_by(.a)", "unique_by(.a[]?)":
		key := ident
		if t.Fn != "unique" {
			key = keyOf
		}
		got, f := one(t.Fn, arr)
		if f != nil {
			return f
		}
		var want []any
		ks := stableSorted(arr, key)
		for i, k := range ks {
			if i == 0 || model.Cmp(ks[i-1].k, k.k) != 0 {
				want = append(want, k.v)
			}
		}
		g, _ := got.([]any)
		if t.Fn == "unique" {
			if run.CanonList(g) != run.CanonList(want) {
				return fail(got, run.CanonList(want), "sort without adjacent equals is")
			}
		} else {
			// one member of each key group, ordered by key
			if len(g) != len(want) {
				return fail(got, run.CanonList(want), "expected one element per key group:")
			}
			for i := range g {
				if model.Cmp(keyOf(g[i]), keyOf(want[i])) != 0 {
					return fail(got, run.CanonList(want), "keys must be the sorted distinct keys:")
				}
				member := false
				for _, v := range arr {
					member = member || strictKey(v) == strictKey(g[i])
				}
				if !member {
					return fail(got, run.CanonList(want), "element is not from the input:")
				}
			}
		}
	case "group_by(.a)", "group_by(.)", "group_by(.a[]?)":
		key := keyOf
		if t.Fn == "group_by(.)" {
			key = ident
		}
		got, f := one(t.Fn, arr)
		if f != nil {
			return f
		}
		var want []any
		ks := stableSorted(arr, key)
		for i, k := range ks {
			if i == 0 || model.Cmp(ks[i-1].k, k.k) != 0 {
				want = append(want, []any{k.v})
			} else {
				want[len(want)-1] = append(want[len(want)-1].([]any), k.v)
			}
		}
		g, _ := got.([]any)
		if strictList(g) != strictList(want) {
			return fail(got, strictList(want), "the partition of the sorted input is")
		}
	case "min", "max", "min_by(.a)", "max_by(.a)", "min_by(.a[]?)", "max_by(.a[]?)":
		key := ident
		if strings.Contains(t.Fn, "_by") {
			key = keyOf
		}
		got, f := one(t.Fn, arr)
		if f != nil {
			return f
		}
		var want any
		for i, v := range arr {
			if i == 0 {
				want = v
				continue
			}
			cmp := model.Cmp(key(v), key(want))
			if strings.HasPrefix(t.Fn, "min") && cmp < 0 || strings.HasPrefix(t.Fn, "max") && cmp >= 0 {
				want = v
			}
		}
		if strictKey(got) != strictKey(want) {
			return fail(got, strictKey(want), "the first minimum / last maximum is")
		}
	case "bsearch":
		var sorted []any
		for _, k := range stableSorted(arr, ident) {
			sorted = append(sorted, k.v)
		}
		got, f := one("bsearch($x)", sorted, x)
		if f != nil {
			return f
		}
		gi, ok := got.(int)
		if !ok {
			return fail(got, "", "bsearch must return an integer")
		}
		if gi >= 0 {
			if gi >= len(sorted) || model.Cmp(sorted[gi], x) != 0 {
				return run.Failf("bsearch(%s) on sorted %s returned %d, which is not the index of an equal element", strictKey(x), run.Clip(strictKey(sorted)), gi)
			}
		} else {
			ins := 0
			for ins < len(sorted) && model.Cmp(sorted[ins], x) < 0 {
				ins++
			}
			if ins < len(sorted) && model.Cmp(sorted[ins], x) == 0 {
				return run.Failf("bsearch(%s) on sorted %s returned %d but an equal element exists at %d", strictKey(x), run.Clip(strictKey(sorted)), gi, ins)
			}
			if gi != -1-ins {
				return run.Failf("bsearch(%s) on sorted %s returned %d, want -1-%d", strictKey(x), run.Clip(strictKey(sorted)), gi, ins)
			}
		}
	case "minus":
		b, _ := x.([]any)
		got, f := one(". - $x", arr, x)
		if f != nil {
			return f
		}
		want := []any{}
		for _, v := range arr {
			keep := true
			for _, w := range b {
				keep = keep && model.Cmp(v, w) != 0
			}
			if keep {
				want = append(want, v)
			}
		}
		g, _ := got.([]any)
		if strictList(g) != strictList(want) {
			return fail(got, strictList(want), "a - b keeps exactly the elements of a equal to no element of b:")
		}
	case "indices", "index", "rindex":
		got, f := one(t.Fn+"($x)", arr, x)
		if f != nil {
			return f
		}
		pat, isArr := x.([]any)
		if !isArr {
			pat = []any{x}
		}
		var pos []any
		if len(pat) > 0 {
			for i := 0; i+len(pat) <= len(arr); i++ {
				if model.Cmp(arr[i:i+len(pat)], pat) == 0 {
					pos = append(pos, i)
				}
			}
		}
		var want any
		switch {
		case t.Fn == "indices":
			if pos == nil {
				pos = []any{}
			}
			want = pos
		case len(pos) == 0:
			want = nil
		case t.Fn == "index":
			want = pos[0]
		default:
			want = pos[len(pos)-1]
		}
		if run.Canon(got) != run.Canon(want) {
			return run.Failf("%s(%s) on %s: got %s want %s", t.Fn, strictKey(x), run.Clip(strictKey(arr)), run.Canon(got), run.Canon(want))
		}
	case "object-order":
		// arr is a list of [key, value] pairs building one object
		m := map[string]any{}
		for _, kv := range arr {
			p := kv.([]any)
			m[p[0].(string)] = p[1]
		}
		keys := model.SortedKeys(m)
		wantKeys := make([]any, len(keys))
		wantVals := make([]any, len(keys))
		for i, k := range keys {
			wantKeys[i], wantVals[i] = k, m[k]
		}
		for _, q := range []struct {
			src  string
			want any
		}{
			{"keys", wantKeys}, {"[.[]]", wantVals}, {"[to_entries[] | .key]", wantKeys}, {"[to_entries[] | .value]", wantVals},
			{"[keys[]] | sort", wantKeys}, {"[paths | .[0]]", wantKeys}, {"[tostream | select(length == 2) | .[0][0]]", wantKeys},
			{"[path(.[]) | .[0]]", wantKeys}, {"[with_entries(.)[]]", wantVals}, {"map_values(.) | keys", wantKeys}, {"[.. | scalars]", wantVals},
		} {
			got, f := one(q.src, m)
			if f != nil {
				return f
			}
			if run.Canon(got) != run.Canon(q.want) {
				return run.Failf("%s on object with keys %s: got %s, code point order gives %s", q.src, run.Canon(wantKeys), run.Clip(run.Canon(got)), run.Clip(run.Canon(q.want)))
			}
		}
		// serialisation: Marshal, tojson and the command print keys in the same order
		var want strings.Builder
		want.WriteByte('{')
		for i, k := range keys {
			if i > 0 {
				want.WriteByte(',')
			}
			kb, _ := json.Marshal(k)
			want.Write(kb)
			want.WriteByte(':')
			vb, _ := gojq.Marshal(m[k])
			want.Write(vb)
		}
		want.WriteByte('}')
		bs, err := gojq.Marshal(m)
		if err != nil {
			return run.Failf("Marshal: %v", err)
		}
		if !sameJSONKeyOrder(string(bs), keys) {
			return run.Failf("Marshal key order: %s, want keys in order %v", run.Clip(string(bs)), keys)
		}
		tj, f := one("tojson", m)
		if f != nil {
			return f
		}
		if s, _ := tj.(string); !sameJSONKeyOrder(s, keys) {
			return run.Failf("tojson key order: %s, want keys in order %v", run.Clip(s), keys)
		}
		if x == true { // also through the command
			r := run.CLI(run.CLIOpt{Args: []string{"-c", "."}, Stdin: bs})
			if r.TimedOut || r.StartErr != nil {
				c.Inconclusive("cli-timeout")
				return nil
			}
			if r.Code != 0 || !sameJSONKeyOrder(string(r.Stdout), keys) {
				return run.Failf("gojq -c . key order: %s (exit %d), want keys in order %v", run.Clip(string(r.Stdout)), r.Code, keys)
			}
			r = run.CLI(run.CLIOpt{Args: []string{"--tab", "."}, Stdin: bs})
			if r.Code != 0 || !sameJSONKeyOrder(string(r.Stdout), keys) {
				return run.Failf("gojq --tab . key order: %s (exit %d), want keys in order %v", run.Clip(string(r.Stdout)), r.Code, keys)
			}
			c.Count("cli_key_order_runs", 2)
			// YAML output is an output too: give every key its rank as value and read the ranks off the line ends
			ranked := map[string]any{}
			for i, k := range keys {
				ranked[k] = i
			}
			rb, _ := gojq.Marshal(ranked)
			for _, args := range [][]string{{"--yaml-output", "."}, {"--yaml-output", "{o: ., l: [.]}"}} {
				r = run.CLI(run.CLIOpt{Args: args, Stdin: rb})
				if r.TimedOut || r.StartErr != nil {
					c.Inconclusive("cli-timeout")
					return nil
				}
				var ranks []int
				for _, ln := range strings.Split(string(r.Stdout), "\n") {
					if i := strings.LastIndex(ln, ": "); i >= 0 {
						if n, err := strconv.Atoi(strings.TrimSpace(ln[i+2:])); err == nil {
							ranks = append(ranks, n)
						}
					}
				}
				want := len(keys) * len(args[1:]) // "." prints the object once, the second program twice
				if args[1] != "." {
					want = 2 * len(keys)
				}
				bad := r.Code != 0 || len(ranks) != want
				for i := 1; !bad && i < len(ranks); i++ {
					bad = ranks[i] != (ranks[i-1]+1)%len(keys)
				}
				if bad {
					f := run.Failf("gojq %v writes the keys %v in rank order %v (exit %d); code point order is 0..%d:\n%s", args, keys, ranks, r.Code, len(keys)-1, run.Clip(string(r.Stdout)))
					// known finding D34: the YAML encoder sorts the keys of a map "naturally" (digit runs by value,
					// letters before other characters); recognised by comparing with a transcription of that order
					if r.Code == 0 && len(ranks) == want {
						nat := append([]string{}, keys...)
						sort.SliceStable(nat, func(i, j int) bool { return c11YAMLNaturalLess(nat[i], nat[j]) })
						same := true
						for i, rk := range ranks {
							same = same && rk < len(keys) && keys[rk] == nat[i%len(keys)]
						}
						if same {
							f.Sig = "c11.yaml-output:keys-in-the-encoder's-natural-order"
						}
					}
					return f
				}
			}
			c.Count("cli_yaml_key_order_runs", 2)
		}
	default:
		return run.Failf("unknown consumer %q", t.Fn)
	}
	return nil
})

// c11YAMLNaturalLess transcribes the key order of the YAML encoder (go-yaml sorter.go, string keys).
func c11YAMLNaturalLess(a, b string) bool {
	ar, br := []rune(a), []rune(b)
	digits := false
	for i := 0; i < len(ar) && i < len(br); i++ {
		if ar[i] == br[i] {
			digits = unicode.IsDigit(ar[i])
			continue
		}
		al, bl := unicode.IsLetter(ar[i]), unicode.IsLetter(br[i])
		if al && bl {
			return ar[i] < br[i]
		}
		if al || bl {
			if digits {
				return al
			}
			return bl
		}
		var ai, bi int
		var an, bn int64
		if ar[i] == '0' || br[i] == '0' {
			for j := i - 1; j >= 0 && unicode.IsDigit(ar[j]); j-- {
				if ar[j] != '0' {
					an, bn = 1, 1
					break
				}
			}
		}
		for ai = i; ai < len(ar) && unicode.IsDigit(ar[ai]); ai++ {
			an = an*10 + int64(ar[ai]-'0')
		}
		for bi = i; bi < len(br) && unicode.IsDigit(br[bi]); bi++ {
			bn = bn*10 + int64(br[bi]-'0')
		}
		if an != bn {
			return an < bn
		}
		if ai != bi {
			return ai < bi
		}
		return ar[i] < br[i]
	}
	return len(ar) < len(br)
}

// sameJSONKeyOrder decodes the top-level object's keys in textual order.
func sameJSONKeyOrder(text string, keys []string) bool {
	d := json.NewDecoder(strings.NewReader(text))
	tok, err := d.Token()
	if err != nil || tok != json.Delim('{') {
		return false
	}
	i := 0
	for d.More() {
		k, err := d.Token()
		if err != nil {
			return false
		}
		ks, ok := k.(string)
		if !ok || i >= len(keys) || ks != keys[i] {
			return false
		}
		i++
		var skip any
		if err := d.Decode(&skip); err != nil {
			return false
		}
	}
	return i == len(keys)
}

var c11Keys = []string{"", "a", "A", "aa", "ab", "b", "B", "é", "z", "ÿ", "￿", "\U00010000", "\U0001F600", "日", "0", "10", "9", " ", "~", "\u007f", "퟿", "", "a\x00", "_", "Z"}

func c11Array(r *rand.Rand, U []any, keyed bool) []any {
	// most sorting routines switch algorithm with the length (insertion sort up to a dozen elements, then blocks/merges):
	// a quarter of the arrays are longer than that, a few much longer
	n := r.IntN(13)
	switch r.IntN(16) {
	case 0, 1, 2, 3:
		n = 13 + r.IntN(28)
	case 4:
		n = 41 + r.IntN(260)
	}
	arr := make([]any, n)
	mode := r.IntN(4)
	if keyed {
		mode = 2
	}
	for i := range arr {
		switch mode {
		case 0: // universe values with duplicates
			arr[i] = U[r.IntN(len(U))]
		case 1: // few distinct values, many duplicates, distinguishable equal numbers
			arr[i] = []any{1, 1.0, big.NewInt(1), json.Number("1"), json.Number("1.0"), 2, 2.0, 0, math.Copysign(0, -1), "a", nil, A{1}, A{1.0}, json.Number("0"), json.Number("-0"), json.Number("0.0"), json.Number("1.00"), json.Number("2")}[r.IntN(18)]
		case 2: // keyed objects (stability witnesses)
			if r.IntN(4) == 0 {
				arr[i] = O{"a": U[r.IntN(len(U))], "t": i}
			} else {
				arr[i] = O{"a": []any{1, 1.0, 2, "x", nil, A{1}, json.Number("2"), false, json.Number("0"), json.Number("-0")}[r.IntN(10)], "t": i}
			}
		default:
			arr[i] = gen.RandValue(r, 2)
		}
	}
	return arr
}

func init() {
	run.Register(&run.Prop{
		ID: "C11", Level: "exploration", MinNontrivial: 1000,
		Rule:        "axioms-row: for each value a of the ~200-value universe (every type and nesting shape, near-equal neighbours, equal numbers in int/float64/*big.Int/json.Number form; NaN-free, floats below 2^53) all pairs (b,c) are checked for reflexivity, antisymmetry, transitivity, agreement of the six operators with Compare and of Compare with an independent comparator written from the manual — exhaustive over ordered triples. consumer: (function, array, argument) cases for sort/sort_by/unique/unique_by/group_by/min/max/min_by/max_by/bsearch/array subtraction/index/rindex/indices/object key order against the specification comparator; every distinct case counts as non-trivial.",
		Assumptions: []string{"the specification comparator (harness/internal/model/order.go) is a faithful transcription of the manual's order", "sort.SliceStable and encoding/json are correct"},
		Body: func(c *run.Ctx) {
			c11Init(c)
			c.Gauge("universe_size", int64(len(c11U)))
			c.Gauge("exhaustive_triples", 1)
			for i := range c11U {
				kC11Row.Do(c, c11Row{i})
			}
			r := c.Rand("c11")
			n := c.N(250000, 3000000)
			fns := []string{"sort", "sort_by(.a)", "unique", "unique_by(.a)", "group_by(.a)", "group_by(.)", "min", "max", "min_by(.a)", "max_by(.a)", "bsearch", "minus", "indices", "index", "rindex",
				"sort_by(.a[]?)", "group_by(.a[]?)", "unique_by(.a[]?)", "min_by(.a[]?)", "max_by(.a[]?)"}
			for i := 0; i < n; i++ {
				fn := fns[r.IntN(len(fns))]
				arr := c11Array(r, c11U, strings.Contains(fn, "(.a)"))
				if strings.Contains(fn, "[]?") {
					// keys with a varying number of outputs: .a is an array of 0..3 values, an object, a scalar or missing
					arr = arr[:min(len(arr), 40)]
					few := []any{1, 1.0, 2, "x", nil, A{1}, A{1, 2}, json.Number("2"), false, json.Number("1.0")}
					for j := range arr {
						o := O{"t": j}
						switch r.IntN(7) {
						case 0:
						case 1:
							o["a"] = few[r.IntN(len(few))]
						case 2:
							o["a"] = O{"p": few[r.IntN(len(few))], "q": few[r.IntN(len(few))]}
						default:
							a := make(A, r.IntN(4))
							for l := range a {
								if r.IntN(4) == 0 {
									a[l] = c11U[r.IntN(len(c11U))]
								} else {
									a[l] = few[r.IntN(len(few))]
								}
							}
							o["a"] = a
						}
						arr[j] = o
					}
				}
				var x any
				switch fn {
				case "bsearch":
					if len(arr) > 0 && r.IntN(2) == 0 {
						x = arr[r.IntN(len(arr))]
					} else {
						x = c11U[r.IntN(len(c11U))]
					}
				case "minus":
					x = c11Array(r, c11U, false)
					if len(arr) > 0 && r.IntN(2) == 0 {
						x = append(x.([]any), arr[r.IntN(len(arr))])
					}
				case "indices", "index", "rindex":
					switch {
					case len(arr) > 0 && r.IntN(3) > 0:
						i := r.IntN(len(arr))
						j := i + 1 + r.IntN(min(3, len(arr)-i))
						if r.IntN(2) == 0 {
							x = append(A{}, arr[i:j]...)
						} else {
							x = arr[i]
						}
					default:
						x = c11U[r.IntN(len(c11U))]
					}
				}
				kC11Cons.Do(c, c11Cons{fn, run.TV{V: arr}, run.TV{V: x}})
			}
			m := c.N(20000, 200000)
			for i := 0; i < m; i++ {
				k := 1 + r.IntN(8)
				var pairs []any
				for j := 0; j < k; j++ {
					pairs = append(pairs, A{c11Keys[r.IntN(len(c11Keys))], r.IntN(5)})
				}
				kC11Cons.Do(c, c11Cons{"object-order", run.TV{V: pairs}, run.TV{V: i%100 == 0}})
			}
		},
	})
}
