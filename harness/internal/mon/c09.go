package mon

import (
	"encoding/hex"
	"fmt"
	"math/rand/v2"
	"os"
	"reflect"
	"sort"
	"strings"
	"unicode/utf8"

	"verif/harness/internal/gen"
	"verif/harness/internal/run"

	"github.com/itchyny/gojq"
)

// ---- C09: grammar and printer ----

type c09Op struct {
	text  string
	prec  int
	assoc byte // 'l', 'r', 'n'
}

// the precedence table of the statement, weakest first
var c09Ops = func() []c09Op {
	var ops []c09Op
	add := func(prec int, assoc byte, texts ...string) {
		for _, t := range texts {
			ops = append(ops, c09Op{t, prec, assoc})
		}
	}
	add(1, 'r', "|")
	add(2, 'l', ",")
	add(3, 'r', "//")
	add(4, 'n', "=", "|=", "+=", "-=", "*=", "/=", "%=", "//=")
	add(5, 'l', "or")
	add(6, 'l', "and")
	add(7, 'n', "==", "!=", "<", "<=", ">", ">=")
	add(8, 'l', "+", "-")
	add(9, 'l', "*", "/", "%")
	return ops
}()

// specParen parenthesises `a0 o0 a1 o1 a2 ...` fully according to the table, or
// reports a syntax error (two non-associative operators of one level in a row).
func specParen(atoms []string, ops []c09Op) (string, bool) {
	pos := 0
	var parse func(minPrec int) (string, bool)
	parse = func(minPrec int) (string, bool) {
		lhs := atoms[pos]
		for pos < len(ops) && ops[pos].prec >= minPrec {
			op := ops[pos]
			pos++
			next := op.prec + 1
			if op.assoc == 'r' {
				next = op.prec
			}
			rhs, ok := parse(next)
			if !ok {
				return "", false
			}
			lhs = "(" + lhs + " " + op.text + " " + rhs + ")"
			if op.assoc == 'n' && pos < len(ops) && ops[pos].prec == op.prec {
				return "", false
			}
		}
		return lhs, true
	}
	s, ok := parse(0)
	return s, ok
}

// stripParens removes parenthesis-only terms so that ASTs of differently
// parenthesised spellings can be compared.
func stripParens(q *gojq.Query) *gojq.Query {
	v := reflect.ValueOf(deepCopyAST(q))
	stripWalk(v)
	out := v.Interface().(*gojq.Query)
	return unwrapQuery(out)
}

func unwrapQuery(q *gojq.Query) *gojq.Query {
	for q != nil && q.Term != nil && q.Term.Type == gojq.TermTypeQuery && len(q.Term.SuffixList) == 0 {
		in := q.Term.Query
		if len(q.FuncDefs) == 0 && q.Meta == nil && len(q.Imports) == 0 {
			q = in
			continue
		}
		if len(in.FuncDefs) > 0 || in.Meta != nil || len(in.Imports) > 0 {
			break
		}
		// keep the definitions, hoist the parenthesised body
		q = &gojq.Query{Meta: q.Meta, Imports: q.Imports, FuncDefs: q.FuncDefs, Term: in.Term, Left: in.Left, Right: in.Right, Patterns: in.Patterns, Op: in.Op}
	}
	return q
}

// unwrapTerm replaces a parenthesised bare term by that term (suffixes appended).
func unwrapTerm(t *gojq.Term) *gojq.Term {
	for t != nil && t.Type == gojq.TermTypeQuery && t.Query != nil && t.Query.Term != nil && len(t.Query.FuncDefs) == 0 {
		in := *t.Query.Term
		in.SuffixList = append(append([]*gojq.Suffix{}, in.SuffixList...), t.SuffixList...)
		if len(in.SuffixList) == 0 {
			in.SuffixList = nil
		}
		t = &in
	}
	return t
}

var queryPtrType = reflect.TypeOf((*gojq.Query)(nil))
var termPtrType = reflect.TypeOf((*gojq.Term)(nil))

func stripWalk(v reflect.Value) {
	switch v.Kind() {
	case reflect.Ptr:
		if v.IsNil() {
			return
		}
		stripWalk(v.Elem())
	case reflect.Struct:
		for i := 0; i < v.NumField(); i++ {
			f := v.Field(i)
			if f.Type() == queryPtrType && !f.IsNil() && f.CanSet() {
				stripWalk(f)
				f.Set(reflect.ValueOf(unwrapQuery(f.Interface().(*gojq.Query))))
				continue
			}
			if f.Type() == termPtrType && !f.IsNil() && f.CanSet() {
				stripWalk(f)
				f.Set(reflect.ValueOf(unwrapTerm(f.Interface().(*gojq.Term))))
				continue
			}
			stripWalk(f)
		}
	case reflect.Slice:
		for i := 0; i < v.Len(); i++ {
			e := v.Index(i)
			if e.Type() == queryPtrType && !e.IsNil() {
				stripWalk(e)
				e.Set(reflect.ValueOf(unwrapQuery(e.Interface().(*gojq.Query))))
				continue
			}
			stripWalk(e)
		}
	}
}

func deepCopyAST(q *gojq.Query) *gojq.Query {
	return deepCopyValue(reflect.ValueOf(q)).Interface().(*gojq.Query)
}

func deepCopyValue(v reflect.Value) reflect.Value {
	switch v.Kind() {
	case reflect.Ptr:
		if v.IsNil() {
			return v
		}
		n := reflect.New(v.Type().Elem())
		n.Elem().Set(deepCopyValue(v.Elem()))
		return n
	case reflect.Struct:
		n := reflect.New(v.Type()).Elem()
		for i := 0; i < v.NumField(); i++ {
			n.Field(i).Set(deepCopyValue(v.Field(i)))
		}
		return n
	case reflect.Slice:
		if v.IsNil() {
			return v
		}
		n := reflect.MakeSlice(v.Type(), v.Len(), v.Len())
		for i := 0; i < v.Len(); i++ {
			n.Index(i).Set(deepCopyValue(v.Index(i)))
		}
		return n
	}
	return v
}

type c09Prec struct {
	Atoms []string
	Ops   []string
	Wrap  string `json:"Wrap,omitempty"` // a bracketing position (%s) the sequence stands in: the grammar has its own productions for some of them
}

func c09OpByText(t string) c09Op {
	for _, o := range c09Ops {
		if o.text == t {
			return o
		}
	}
	panic(t)
}

var kC09Prec = run.NewKind("c09.precedence", func(c *run.Ctx, t c09Prec) *run.Fail {
	ops := make([]c09Op, len(t.Ops))
	var sb strings.Builder
	for i, a := range t.Atoms {
		if i > 0 {
			ops[i-1] = c09OpByText(t.Ops[i-1])
			sb.WriteString(" " + t.Ops[i-1] + " ")
		}
		sb.WriteString(a)
	}
	src := sb.String()
	want, ok := specParen(t.Atoms, ops)
	if t.Wrap != "" {
		src, want = strings.ReplaceAll(t.Wrap, "%s", src), strings.ReplaceAll(t.Wrap, "%s", want)
	}
	q, err := gojq.Parse(src)
	if !ok {
		c.Count("sequences_that_must_be_rejected", 1)
		if err == nil {
			return run.Failf("%q combines non-associative operators of one level and must be a syntax error, but it parses as %s", src, q)
		}
		c.Nontrivial(src)
		return nil
	}
	if err != nil {
		return run.Failf("%q must parse as %s, but it is rejected: %v", src, want, err)
	}
	wq, err := gojq.Parse(want)
	if err != nil {
		return run.Failf("harness: parenthesised form %q does not parse: %v", want, err)
	}
	if !reflect.DeepEqual(stripParens(q), stripParens(wq)) {
		return run.Failf("%q must bind as %s, but it parses as %s", src, want, explicitShape(q))
	}
	c.Nontrivial(src)
	return nil
})

// identityIndexNorm rewrites Term{Identity, SuffixList[index, ...]} to Term{Index, SuffixList[...]}.
func identityIndexNorm(q *gojq.Query) *gojq.Query {
	v := reflect.ValueOf(deepCopyAST(q))
	var walk func(v reflect.Value)
	walk = func(v reflect.Value) {
		switch v.Kind() {
		case reflect.Ptr:
			if v.IsNil() {
				return
			}
			if t, ok := v.Interface().(*gojq.Term); ok && t.Type == gojq.TermTypeIdentity && len(t.SuffixList) > 0 && t.SuffixList[0].Index != nil {
				t.Type, t.Index = gojq.TermTypeIndex, t.SuffixList[0].Index
				t.SuffixList = t.SuffixList[1:]
				if len(t.SuffixList) == 0 {
					t.SuffixList = nil
				}
			}
			walk(v.Elem())
		case reflect.Struct:
			for i := 0; i < v.NumField(); i++ {
				walk(v.Field(i))
			}
		case reflect.Slice:
			for i := 0; i < v.Len(); i++ {
				walk(v.Index(i))
			}
		}
	}
	walk(v)
	return v.Interface().(*gojq.Query)
}

// explicitShape prints the binary structure of a query with explicit parentheses.
func explicitShape(q *gojq.Query) string {
	if q == nil {
		return "<nil>"
	}
	if q.Term != nil || q.Right == nil {
		return q.String()
	}
	s := "(" + explicitShape(q.Left)
	for i, p := range q.Patterns {
		if i == 0 {
			s += " as " + p.String()
		} else {
			s += " ?// " + p.String()
		}
	}
	return s + " " + q.Op.String() + " " + explicitShape(q.Right) + ")"
}

// ---- delimiting laws: implicit spelling == explicitly parenthesised spelling ----

type c09Law struct {
	Name, Implicit, Explicit string
}

var kC09Law = run.NewKind("c09.delimiting", func(c *run.Ctx, t c09Law) *run.Fail {
	a, err1 := gojq.Parse(t.Implicit)
	b, err2 := gojq.Parse(t.Explicit)
	if err2 != nil {
		return run.Failf("harness: explicit form %q does not parse: %v", t.Explicit, err2)
	}
	if err1 != nil {
		return run.Failf("%s: %q must parse like %q but is rejected: %v", t.Name, t.Implicit, t.Explicit, err1)
	}
	if !reflect.DeepEqual(stripParens(a), stripParens(b)) {
		return run.Failf("%s: %q must parse like %q, but it parses as %s", t.Name, t.Implicit, t.Explicit, explicitShape(a))
	}
	c.Nontrivial(t.Implicit)
	return nil
})

// ---- printer round trip and re-spacing ----

type c09Src struct {
	Src  string
	Seed uint64
	Hex  string // the source in hex when it is not valid UTF-8 (JSON would not carry it)
}

func (t c09Src) decoded() c09Src {
	if t.Hex != "" {
		if b, err := hex.DecodeString(t.Hex); err == nil {
			t.Src = string(b)
		}
	}
	return t
}

func c09MkSrc(src string, seed uint64) c09Src {
	if utf8.ValidString(src) {
		return c09Src{Src: src, Seed: seed}
	}
	return c09Src{Src: strings.ToValidUTF8(src, "\ufffd"), Seed: seed, Hex: hex.EncodeToString([]byte(src))}
}

var kC09Print = run.NewKind("c09.print-roundtrip", func(c *run.Ctx, t c09Src) *run.Fail {
	t = t.decoded()
	q, err := gojq.Parse(t.Src)
	if err != nil {
		c.Inconclusive("does-not-parse")
		return nil
	}
	printed := q.String()
	q2, err := gojq.Parse(printed)
	if err != nil {
		return run.Failf("Parse accepts %q, but its String() %q is rejected: %v", t.Src, printed, err)
	}
	if !reflect.DeepEqual(q, q2) {
		f := run.Failf("Parse(%q).String() = %q parses to a different AST: %s vs %s", t.Src, printed, explicitShape(q), explicitShape(q2))
		// `. .a`, `. .[0]`, `. ."a"` parse to an identity term with suffixes but print as `.a`, `.[0]`, `."a"`,
		// which parse to an index term: same meaning, different AST
		if n1, n2 := identityIndexNorm(q), identityIndexNorm(q2); reflect.DeepEqual(n1, n2) {
			f.Sig = "c09.print:identity-dot-suffix-printed-as-index-term"
		}
		return f
	}
	if p2 := q2.String(); p2 != printed {
		return run.Failf("printing is not stable: %q then %q", printed, p2)
	}
	c.Nontrivial(t.Src)
	return nil
})

var c09Fillers = []string{" ", "  ", "\t", "\n", "\r\n", "\r", " \n ", "# c\n", "#\n", " # comment with words\n", "# a \\\n continued\n", "#x\r\n", "# y\r", "# \\\\\n", "\n\n", "# {[(\"'\n", "#|, .a\n", "# \\\r\n more\n", "# nul \x00 inside\n", "#\x00\n", "# \x00 \\\n \x00 continued\n", "# é日\xff bytes\n", "#\x7f\x01\n"}

func respace(r *rand.Rand, src string, pts []int) string {
	sort.Ints(pts)
	var sb strings.Builder
	last := 0
	for _, p := range pts {
		if p < last || p > len(src) {
			continue
		}
		sb.WriteString(src[last:p])
		if r.IntN(2) == 0 {
			n := 1 + r.IntN(2)
			for i := 0; i < n; i++ {
				sb.WriteString(c09Fillers[r.IntN(len(c09Fillers))])
			}
		}
		last = p
	}
	sb.WriteString(src[last:])
	return sb.String()
}

var kC09Space = run.NewKind("c09.respacing", func(c *run.Ctx, t c09Src) *run.Fail {
	t = t.decoded()
	q, err := gojq.Parse(t.Src)
	pts, _ := gojq.VerifLexPoints(t.Src)
	if len(pts) == 0 {
		c.Inconclusive("no-token-boundary")
		return nil
	}
	r := rand.New(rand.NewPCG(t.Seed, 9))
	for k := 0; k < 3; k++ {
		v := respace(r, t.Src, append([]int{}, pts...))
		if v == t.Src {
			continue
		}
		c.AddEvals(1)
		q2, err2 := gojq.Parse(v)
		if (err == nil) != (err2 == nil) {
			// a query that ends inside a comment-like or string context can change when text is appended; only token
			// boundaries outside strings are used, so acceptance must not change
			return run.Failf("white space/comments inserted at token boundaries change acceptance: %q -> %v, %q -> %v", t.Src, err, v, err2)
		}
		if err == nil && !reflect.DeepEqual(q, q2) {
			return run.Failf("white space/comments inserted at token boundaries change the AST: %q gives %s, %q gives %s", t.Src, explicitShape(q), v, explicitShape(q2))
		}
	}
	if err == nil {
		c.Nontrivial(t.Src)
	}
	return nil
})

var c09Surface = []string{
	`"\n\t\"\\\/\b\f\ré😀 x"`, `"a\(1 + 2)b\("c\(.)")d"`, `@base64 "x\(.)y"`, `@json`, `@text "\(1)"`, `{if: 1, then: 2, and: 3, or: 4, reduce: 5, def: 6, as: 7, end: 8, __loc__: 9}`, `.if.then.else`, `.and?`, `{"a": 1, "b c": 2, "\(1)": 3, (.a): 4, $x, @base64 "k": 5, $__loc__, a, "q"}`,
	`.a.b`, `.a[]`, `."a"`, `."a"."b"`, `.["a"]`, `.[1:2]`, `.[:2]`, `.[1:]`, `.a?.b`, `.[]?`, `.a[1:]?`, `.a??`, `..?`, `.[]|=1`, `.a."b"?[0][1:][]`, `.[.a]`, `.[1,2]`, `.a[.b:.c]`, `..a?`, `.. | .a`, `.[-1]`, `.[-1:]`, `- .a`, `-.a[0]`, `+1`, `-(1)`, `--1`, `- - 1`,
	`reduce .[] as [$a, {b: $c, $d, "e": [$f], (.g): $h}] (0; . + 1)`, `foreach .[] as {a: $x} ?// [$x] (0; . + 1; [$x, .])`, `. as [$a] ?// {a: $a} ?// $a | $a`, `def f($a; b; $c): $a + b + $c; f(1; 2; 3)`, `def f: def g: 1; g; f`, `$a::b`, `a::b(1; 2)`, `a::b`, `import "a" as b; include "c"; import "d" as $d {search: "./", x: [1, null, {"y": true}]}; .`,
	`module {name: "x", v: 1.5}; def f: 1;`, `1e3, .5, 1.5e-3, 0.0, 1E+2, 100000000000000000000, 1.000`, `if . then 1 elif .a then 2 elif .b then 3 else 4 end`, `if . then 1 end`, `try error catch .`, `try error`, `try (try error catch error) catch .`, `label $out | foreach .[] as $x (0; . + 1; if . > 2 then ., break $out else . end)`,
	`[.[] | select(. > 1)] | map(. * 2) | add // 0`, `.a = 1 | .b |= 2 | .c += 3 | .d //= 4`, `[1, 2][0]`, `{a: 1}.a`, `"abc"[1:]`, `(1, 2)[0]?`, `[][0]`, `{}."a"`, `$x[0]`, `$x.a`, `f[0]`, `f(1)[0].a`, `if . then 1 else 2 end.a?`, `reduce . as $x (0; 1)[0]?`, `try 1 catch 2 | 3`, `-try 1`, `[-reduce -.[] as $i (0; . + $i)]`,
	`.a as $x | .b as [$y] | $x + $y`, `"x" as $x | "y" as $y | [$x, $y] | join(",")`, `1 as $x | 2 as $x | $x`, `[.[] as $x | $x] as $y | $y`, `. as {a: $x, $y} | $x`, `. as {"a": $x} | 1`, `. as {("a", "b"): $x} | $x`, `. as {$a: [$b]} | $a`, `.. |= (. as $x | $x)`, `?//`, `1 ?// 2`,
	`module {"": 1}; .`, `module {"": {"": [null, {"": 1}]}, "a b": 2, c: {"": 3, d: ""}}; def f: 1;`, `import "a" as a {"": "x", search: "./"}; a::f`, `include "a" {"": {"": ""}}; .`, `import "d" as $d {"": [], "\\": 1, "\"": 2, "\n": 3, "a.b": 4, "1": 5, "if": 6, "$x": 7}; $d`,
	`module {"k": "", "": "k"}; import "a" as a {"": null}; include "b" {"": true}; .`, `module {a: {"": {b: {"": 1}}}}; .`,
	`import "" as x; .`, `import "" as $d; $d`, `include ""; .`, `import "" as x {search: "./"}; x::f`, `import "a" as x; include ""; import "" as y; .`,
	`# only a comment`, `1 # trailing`, "1 #c\\\n+ 2\n+ 3", "# a\r1", `"unterminated`, `"bad \q escape"`, `1 +`, `(1`, `[1, 2`, `{a: }`, `.a.`, `. a`, `1 2`, `$`, `@`, `.[`, `if 1 then 2`, `reduce . as $x (1)`, `def f: 1`, `1 as x | 2`, `import "a"; 1`, `{(1): 2, ("a"): 3}`, `.a as [$x, $x] | $x`, `0x10`, `1.2.3`, `..1`, `. .`, `.."a"`, `..[0]`, `. .[0]`, `. .a`, `. ."a"`, `. .[1:2].b`, `. .["a"]?`, `.. .a`, `1 .a`, `.a .b`,
}

// c09StringLit builds a string literal (optionally with interpolations and a format) from a hostile character
// alphabet: every C0 control, DEL, C1 controls, soft hyphen, line/paragraph separators, private use, noncharacters,
// tag characters beyond the BMP, quotes, backslashes, slashes — spelled raw or through escapes.
func c09StringLit(r *rand.Rand) string {
	chars := []string{"\x01", "\x02", "\x07", "\x08", "\x0b", "\x0c", "\x0e", "\x1b", "\x1f", "\x7f", "\u0080", "\u0085", "\u009f", "\u00ad", "\u2028", "\u2029", "\ue000", "\ufffe", "\uffff", "\U000e0001", "\U0010ffff", "\U0001f600",
		"a", "é", "日", " ", "'", "/", "#", "(", ")", "\\(", "$", "@", "`",
		// ill-formed UTF-8 (a lone continuation byte, an invalid byte, an overlong form, a surrogate, a truncated sequence): becomes U+FFFD in the literal
		"\x80", "\xff", "\xc0\x80", "\xed\xa0\x80", "\xe2\x82", "\xf0\x9f\x98"}
	escapes := []string{`\u0001`, `\u0000`, `\u001f`, `\u007f`, `\u0080`, `\u00ad`, `\u2028`, `\ud83d\ude00`, `\udb40\udc01`, `\ufffe`, `\n`, `\t`, `\r`, `\b`, `\f`, `\"`, `\\`, `\/`, `\u00e9`, `\u000b`, `\u001b`}
	var sb strings.Builder
	if r.IntN(5) == 0 {
		sb.WriteString([]string{"@json ", "@base64 ", "@text ", "@html ", "@sh "}[r.IntN(5)])
	}
	sb.WriteByte('"')
	n := 1 + r.IntN(5)
	interp := r.IntN(2) == 0
	for i := 0; i < n; i++ {
		switch r.IntN(4) {
		case 0:
			sb.WriteString(escapes[r.IntN(len(escapes))])
		case 1:
			if interp {
				sb.WriteString(`\(` + []string{"1", ".", ".a", "\"x\"", "1 + 2", "[.]", "\"\\u0001\\(2)\""}[r.IntN(7)] + `)`)
				break
			}
			fallthrough
		default:
			ch := chars[r.IntN(len(chars))]
			if ch == "\\(" {
				ch = "("
			}
			sb.WriteString(ch)
		}
	}
	if interp && r.IntN(2) == 0 {
		sb.WriteString(`\(0)`)
	}
	sb.WriteByte('"')
	return sb.String()
}

var c09Wraps = []string{"{a: %s}", "{a: 1, b: %s}", "{a: %s, b: 2}", "{(%s): 1}", "{\"k\": %s}", "{$x: %s}", "{@base64 \"k\": %s}"[:0] + "{\"k\\(1)\": %s}", "[%s]", ".[%s]", ".x[%s:]", ".x[:%s]", "f(%s)", "f(1; %s)", "\"s\\(%s)\"", "if %s then 1 end", "if 1 then %s else 2 end", "if 1 then 2 else %s end",
	"reduce .[] as $x (0; %s)", "reduce .[] as $x (%s; .)", "foreach .[] as $x (0; 1; %s)", "(%s)", "try (%s)", ". as {a: $y, (%s): $z} | 1", "def g: %s; g", "label $l | %s", ".a as $y | %s", "{a: {b: %s}}", "[{a: %s}]", "{a: [%s]}", "{a: (%s)}"}

func c09Laws() []c09Law {
	var laws []c09Law
	add := func(name, imp, exp string) { laws = append(laws, c09Law{name, imp, exp}) }
	opsAll := []string{"|", ",", "//", "=", "|=", "+=", "or", "and", "==", "<", "+", "-", "*", "/", "%"}
	exprOps := []string{"//", "=", "|=", "or", "and", "==", "<", "+", "-", "*", "/", "%"}
	for _, o := range opsAll {
		// `as` body extends as far right as possible
		add("as-body", ".a as $x | .b "+o+" .c", ".a as $x | (.b "+o+" .c)")
		add("as-body", ".a as [$x, {y: $y}] ?// $z | .b "+o+" .c", ".a as [$x, {y: $y}] ?// $z | (.b "+o+" .c)")
		add("label-body", "label $l | .b "+o+" .c", "label $l | (.b "+o+" .c)")
		add("def-rest", "def f: .a; .b "+o+" .c", "def f: .a; (.b "+o+" .c)")
		add("def-body", "def f: .a "+o+" .b; .c", "def f: (.a "+o+" .b); .c")
		add("def-args", "def f(g; $h): g "+o+" $h; f(.a "+o+" .b; .c)", "def f(g; $h): (g "+o+" $h); f((.a "+o+" .b); .c)")
		// complete terms are atoms for every operator
		add("reduce-term", "reduce .a as $x (.b; .c) "+o+" .d", "(reduce .a as $x (.b; .c)) "+o+" .d")
		add("reduce-term", ".d "+o+" reduce .a as $x (.b; .c)", ".d "+o+" (reduce .a as $x (.b; .c))")
		add("foreach-term", "foreach .a as $x (.b; .c; .e) "+o+" .d", "(foreach .a as $x (.b; .c; .e)) "+o+" .d")
		add("if-term", "if .a then .b else .c end "+o+" .d", "(if .a then .b else .c end) "+o+" .d")
		add("if-term", ".d "+o+" if .a then .b elif .e then .f end", ".d "+o+" (if .a then .b elif .e then .f end)")
		add("if-parts", "if .a "+o+" .b then .c "+o+" .d else .e "+o+" .f end", "if (.a "+o+" .b) then (.c "+o+" .d) else (.e "+o+" .f) end")
		add("reduce-parts", "reduce .a as $x (.b "+o+" .c; .d "+o+" .e)", "reduce .a as $x ((.b "+o+" .c); (.d "+o+" .e))")
		add("paren-index", ".a["+".b "+o+" .c]", ".a[(.b "+o+" .c)]")
		add("array", "[.a "+o+" .b]", "[(.a "+o+" .b)]")
		add("optional-binds-to-term", ".a "+o+" .b?", ".a "+o+" (.b?)")
		add("suffix-binds-to-term", ".a "+o+" .b[0].c[]", ".a "+o+" (.b[0].c[])")
		add("unary-minus-term", "-.a[0].b "+o+" .c", "(-(.a[0].b)) "+o+" .c")
		add("unary-minus-term", ".c "+o+" -.a", ".c "+o+" (-.a)")
		add("unary-minus-literal", "-1 "+o+" 2", "(-1) "+o+" 2")
		if o != "|" && o != "," {
			add("object-value", "{a: .a "+o+" .b}", "{a: (.a "+o+" .b)}")
			// try takes one postfix term
			add("try-body", "try .a "+o+" .b", "(try .a) "+o+" .b")
			add("try-catch", "try .a catch .b "+o+" .c", "(try .a catch .b) "+o+" .c")
			add("try-operand", ".c "+o+" try .a catch .b", ".c "+o+" (try .a catch .b)")
		}
	}
	for _, o := range exprOps {
		// the source of `as`, reduce and foreach is an expression: it takes the operators stronger than `,`
		add("as-source", ".a "+o+" .b as $x | .c", "(.a "+o+" .b) as $x | .c")
		add("reduce-source", "reduce .a "+o+" .b as $x (.c; .d)", "reduce (.a "+o+" .b) as $x (.c; .d)")
		add("foreach-source", "foreach .a "+o+" .b as $x (.c; .d)", "foreach (.a "+o+" .b) as $x (.c; .d)")
	}
	add("as-source", ".a, .b as $x | .c", ".a, (.b as $x | .c)")
	add("as-source", ".a | .b as $x | .c", ".a | (.b as $x | .c)")
	add("as-chain", ".a as $x | .b as $y | .c, .d", ".a as $x | (.b as $y | (.c, .d))")
	add("label-in-comma", ".a, label $l | .b, .c", ".a, (label $l | (.b, .c))")
	add("def-in-pipe", ".a | def f: .b; f, .c", ".a | (def f: .b; (f, .c))")
	add("nested-def", "def f: def g: .a; g, .b; f", "def f: (def g: .a; (g, .b)); f")
	add("optional-chain", ".a?.b?", "((.a)?.b)?")
	add("double-unary", "- - .a", "-(-(.a))")
	add("format-string", "@base64 \"a\\(.b + .c)\" + .d", "(@base64 \"a\\((.b + .c))\") + .d")
	add("interpolation", "\"x\\(.a, .b | .c)y\"", "\"x\\(((.a, .b) | .c))y\"")
	add("object-keys", "{(.a, .b): .c | .d, e: 1}", "{((.a, .b)): (.c | .d), e: 1}")
	add("slice", ".a[.b + 1:.c | .d]", ".a[(.b + 1):(.c | .d)]")
	add("args", "f(.a | .b; .c, .d)", "f((.a | .b); (.c, .d))")
	return laws
}

func init() {
	run.Register(&run.Prop{
		ID: "C09", Level: "exploration", MinNontrivial: 5000,
		Rule:        "precedence: every ordered pair and triple of the 24 binary operators around three atom shapes (exhaustive) is parsed by the real parser and must have the AST of the spelling that the harness parenthesises with its own precedence-climbing over the statement's table (| right < , left < // right < update ops nonassoc < or < and < comparisons nonassoc < + - < * / %), or be rejected where two non-associative operators of one level meet; delimiting: 400 implicit/explicit spelling pairs for as/def/label/reduce/foreach/if/try/unary minus/optional/suffixes/object values/interpolation; print-roundtrip: Parse(q.String()) must be accepted and reflect.DeepEqual to q, and printing must be stable; respacing: white space and comments (LF/CRLF/CR-terminated, backslash-continued) inserted at the offsets where the real lexer was asked for a token outside strings must not change acceptance or the AST. Programs for the last two: a surface pool (every suffix form, nested interpolation, escapes, formats, patterns, keyword keys, module/import/metadata, malformed queries), PRNG-generated core-grammar programs, the corpus queries and token mutations of them, builtin.jq. Non-trivial = distinct accepted sources (precedence: every distinct sequence).",
		Assumptions: []string{"ASTs are compared with reflect.DeepEqual after removing parenthesis-only terms", "the delimiting laws follow the grammar pinned by the corpus (e.g. `1 + 2 as $x | -$x` is -3: the source of `as` is an expression), not jq 1.6"},
		Body: func(c *run.Ctx) {
			// the same inside every bracketing position (object values, computed keys, array, index, slice boundaries, arguments,
			// interpolation, the parts of if / reduce / foreach / try): pairs exhaustively, triples of the chaining operators
			for _, w := range c09Wraps {
				for _, o1 := range c09Ops {
					for _, o2 := range c09Ops {
						if strings.Contains(w, ": %s") && (o1.text == "," || o2.text == ",") {
							continue // a comma ends an object value
						}
						kC09Prec.Do(c, c09Prec{Atoms: []string{".a", ".b", ".c"}, Ops: []string{o1.text, o2.text}, Wrap: w})
						if o1.text == o2.text || o1.text == "|" || o2.text == "|" {
							for _, o3 := range []string{"|", o1.text} {
								if strings.Contains(w, ": %s") && o3 == "," {
									continue
								}
								kC09Prec.Do(c, c09Prec{Atoms: []string{".a", "1", "$x", "f"}, Ops: []string{o1.text, o2.text, o3}, Wrap: w})
							}
						}
					}
				}
			}
			shapes := [][]string{{".a", ".b", ".c", ".d"}, {"1", "2", "3", "4"}, {"f", "g(1)", "$x", ".[0]"}}
			c.Gauge("exhaustive_operator_pairs_and_triples", 1)
			for _, sh := range shapes {
				for _, o1 := range c09Ops {
					for _, o2 := range c09Ops {
						kC09Prec.Do(c, c09Prec{Atoms: sh[:3], Ops: []string{o1.text, o2.text}})
						for _, o3 := range c09Ops {
							kC09Prec.Do(c, c09Prec{Atoms: sh, Ops: []string{o1.text, o2.text, o3.text}})
						}
					}
				}
			}
			for _, l := range c09Laws() {
				kC09Law.Do(c, l)
			}
			r := c.Rand("c09")
			both := func(src string) {
				kC09Print.Do(c, c09MkSrc(src, 0))
				kC09Space.Do(c, c09MkSrc(src, r.Uint64()))
			}
			for _, s := range c09Surface {
				both(s)
				both("[" + s + "] | .[0]")
			}
			// every term head x every suffix spelling x separation (glued / one space): the printer has to keep apart
			// tokens that would fuse (`. .a` / `..a`, `0 .a` / `0.a`, `. ."a"` / `.."a"`), suffix chains included
			heads := []string{".", "..", "0", "1.5", "1e3", "10", "-1", "\"s\"", "\"s\\(1)\"", "$x", ".a", ".\"a\"", "[1]", "{}", "{a: 1}", "(1)", ".[0]", "f", "f(1)", "$__loc__", "@base64", "@json \"x\"", "null", "true", "false", ".[]", ".[1:]", "-.", "(.)", "..?", "try 1", "if 1 then 2 end", "reduce 1 as $y (0; .)", "label $l | 1", "break $l", ". as $y | $y", "def g: 1; g"}
			sufs := []string{".a", ".\"a\"", ".\"a\\(1)\"", ".[0]", "[0]", ".[]", "[]", "?", ".a?", ".\"a\"?", "[1:]", ".[1:]", ".[\"a\"]", "[\"a\"]", ".a.b", ".\"a\".\"b\"", ".a[0]", "[0].a", "[0]?", ".[:1]", "..", ". .a", ".and", ".if", ".\"$x\"", ".__loc__", "[.a]", "[-1]", "[1.5]", ".a?.b?", "??", "[]?", ".[\"a\", \"b\"]"}
			for _, h := range heads {
				for _, s1 := range sufs {
					for _, sep := range []string{"", " "} {
						both(h + sep + s1)
						both("[" + h + sep + s1 + sep + sufs[(len(h)+len(s1))%len(sufs)] + "]")
					}
				}
			}
			if b, err := os.ReadFile("/repo/builtin.jq"); err == nil {
				both(string(b))
				for _, l := range strings.Split(string(b), "\n") {
					if strings.HasPrefix(l, "def ") && strings.HasSuffix(l, ";") {
						both(l + " .")
					}
				}
			}
			for _, q := range gen.AllCorpusQueries() {
				both(q)
			}
			for i, k := 0, c.N(6000, 150000); i < k; i++ {
				lit := c09StringLit(r)
				switch r.IntN(6) {
				case 0:
					both("{" + lit + ": 1}")
				case 1:
					both(". as {" + lit + ": $x} | $x")
				case 2:
					both("." + lit)
				case 3:
					both(".[" + lit + "]?")
				default:
					both(lit)
				}
			}
			n := c.N(25000, 600000)
			for i := 0; i < n; i++ {
				g := &gen.G1{R: r, Lits: 2, Updates: 2}
				src := g.Program(1 + r.IntN(4))
				if r.IntN(4) == 0 {
					src = c09Surface[r.IntN(60)] + []string{" | ", ", ", " + ", " // ", " as $q | ", " and "}[r.IntN(6)] + src
				}
				both(src)
			}
			qs := gen.AllCorpusQueries()
			m := c.N(15000, 400000)
			for i := 0; i < m; i++ {
				src := gen.Mutate(r, qs[r.IntN(len(qs))])
				if r.IntN(3) == 0 {
					src = gen.Mutate(r, src)
				}
				both(src)
			}
		},
	})
}

var _ = fmt.Sprint
