package mon

import (
	"encoding/json"
	"fmt"
	"math"
	"math/big"
	"math/rand/v2"
	"strconv"
	"strings"
)

// ---- C12 workload generators (deterministic in the PRNG handed in) ----

// c12Alphabet is the symbol set of the exhaustive string enumeration. A symbol
// is a byte string: single bytes of every class, a few multi-byte invalid
// sequences, valid multi-byte runes that encoders tend to special-case, and
// the ASCII characters that are significant to a YAML reader.
var c12Alphabet = []string{
	// C0 controls (one of each escape class) and DEL
	"\x00", "\x01", "\x08", "\x09", "\x0a", "\x0c", "\x0d", "\x1b", "\x1f", "\x7f",
	// JSON/HTML significant ASCII
	"\"", "\\", "/", "<", ">", "&", "'",
	// plain ASCII, digits, space
	" ", "a", "0", "1", "n", "y", "e", "_", "+", "~", ".", "=",
	// YAML indicators
	":", "#", "-", ",", "[", "]", "{", "}", "|", "!", "%", "@", "`", "?", "*",
	// UTF-8 lead / continuation / overlong / surrogate / out-of-range bytes
	"\xc3", "\xe2", "\xf0", "\x80", "\xbf", "\xa0", "\xc0", "\xed", "\xf4", "\xf8", "\xfe", "\xff",
	"\xed\xa0\x80", "\xf4\x90\x80\x80", "\xe0\x80\x80",
	// valid multi-byte runes
	"\u00e9", "\u0080", "\u0085", "\u00a0", "\u2028", "\u2029", "\ufeff", "\ufffd", "\ufffe", "\ud7ff", "\ue000", "\U0001f600", "\U0010ffff",
}

// c12AllLen2 enumerates every string of at most two symbols.
func c12AllLen2() []string {
	out := make([]string, 0, 1+len(c12Alphabet)*(len(c12Alphabet)+1))
	out = append(out, "")
	out = append(out, c12Alphabet...)
	for _, a := range c12Alphabet {
		for _, b := range c12Alphabet {
			out = append(out, a+b)
		}
	}
	return out
}

// strings that a YAML reader would resolve to something else, need quoting,
// or exercise block scalars and line folding
var c12Specials = []string{
	"null", "Null", "NULL", "~", "true", "True", "TRUE", "false", "False", "yes", "Yes", "no", "No", "on", "off", "y", "n", "Y", "N",
	"1", "-1", "+1", "0", "-0", "0x1f", "0X1F", "0o17", "017", "0b101", "-0b1", "1_000", "1.5", ".5", "5.", "-.5", "1e3", "1E3", "1e+3", "1.e1", "+1.5e-3",
	".inf", "-.inf", "+.inf", ".Inf", ".INF", ".nan", ".NaN", ".NAN", "nan", "inf", "NaN", "Infinity", "<<", "=", "2001-01-01", "2001-01-01T00:00:00Z",
	"2001-01-01 00:00:00", "12:30:45", "1:30", "190:20:30", "-", "--", "---", "...", "--- a", "... a", "- a", "? a", ": a", "a: b", "a:", "a :", "a #b", "a#b",
	"#a", "[a]", "[", "]", "{a: b}", "{", "}", "!!str a", "!a", "&a", "*a", "|", "|-", ">", ">-", "%YAML 1.2", "@a", "`a", "'a'", "\"a\"", "'", "\"", "a'b", "a\"b",
	"a\nb", "a\n", "a\n\n", "a\n\n\n", "\na", "\n", "\n\n", "\n\na\n", " a", "  a", " a\nb", "a\n b", "  a\n b\n", "a ", "a \nb", "a\n ", "a\tb", "\ta", "a\t", "a\n\tb",
	"\ta\nb", "\t\na", " \ta\nb", "a\rb", "a\r\nb", "a\r", "\ra", "a\u2028b", "a\u2029b\nc", "a\u0085b\nc", "a\nb\u0085", "\ufeffa", "a\ufeff", "a\nb\ufeff", "\u00a0a\nb",
	"a: b\nc: d", "key: |\n  text", "- a\n- b", "# c\na", "a\n# c", "a\n---\nb", "a\n...\nb", "---\na", "\x00", "a\x00b\nc", "a\x1bb\nc", "a\x7fb\nc",
	"\ud7ff", "\ue000", "\ufffd", "\ufffe", "\uffff", "\U00010000", "\U0010ffff", "\u0080", "\u009f", "\u00ad", "a\u3000b", "\u200b", "\u200e", "\u061c",
	"0.", "1__0", "_1", "1_", "0_", "0x", "0x_1", "0o8", "08", "09.5", "1e", "e1", "+", "+.", ".", "..", "-.", "0b2", "1,000", "1 000", "0.1.2", "1e1e1", "1-1", "\u0663",
	"key", "value", "<", ">", "&", "<!--", "</script>", "\\", "\\n", "\\u0041", "\\\"", "a\\", "%41", "\\x41",
}

func c12Pick[T any](r *rand.Rand, xs []T) T { return xs[r.IntN(len(xs))] }

var c12Words = []string{"a", "ab", "word", "x", "  ", " ", "\t", "#", ":", ": ", " #", "-", "- ", "\u00e9", "\u65e5\u672c", "\U0001f600", "0", "1.5", "'", "\"", "\\", ",", "{", "[", "|", ">"}

func c12RandRune(r *rand.Rand) rune {
	for {
		var x rune
		switch r.IntN(8) {
		case 0:
			x = rune(r.IntN(0x80))
		case 1:
			x = rune(0x80 + r.IntN(0x80)) // C1 controls, Latin-1
		case 2:
			x = rune(0x100 + r.IntN(0x700))
		case 3:
			x = rune(0x800 + r.IntN(0xf800))
		case 4:
			x = rune(0x10000 + r.IntN(0x100000))
		case 5:
			x = c12Pick(r, []rune{0xd7ff, 0xe000, 0xfffd, 0xfffe, 0xffff, 0x10000, 0x10ffff, 0x2028, 0x2029, 0xfeff, 0x85, 0xa0, 0x7f, 0x80, 0x9f, 0x7ff, 0x800})
		default:
			x = rune(0x20 + r.IntN(0x5f))
		}
		if x >= 0xd800 && x <= 0xdfff {
			continue
		}
		return x
	}
}

// c12RandString draws a string from one of several classes.
func c12RandString(r *rand.Rand) string {
	var sb strings.Builder
	switch r.IntN(12) {
	case 0, 1, 2:
		for i, n := 0, 1+r.IntN(12); i < n; i++ {
			sb.WriteString(c12Pick(r, c12Alphabet))
		}
	case 3:
		for i, n := 0, 20+r.IntN(180); i < n; i++ {
			sb.WriteString(c12Pick(r, c12Alphabet))
		}
	case 4: // arbitrary bytes
		for i, n := 0, 1+r.IntN(16); i < n; i++ {
			sb.WriteByte(byte(r.IntN(256)))
		}
	case 5: // valid runes of every plane, sometimes cut in the middle of a sequence
		for i, n := 0, 1+r.IntN(20); i < n; i++ {
			sb.WriteRune(c12RandRune(r))
		}
		if r.IntN(4) == 0 {
			s := sb.String()
			return s[:r.IntN(len(s)+1)]
		}
	case 6:
		s := c12Pick(r, c12Specials)
		switch r.IntN(4) {
		case 0:
			return s + c12Pick(r, c12Specials)
		case 1:
			return s + c12Pick(r, c12Alphabet)
		}
		return s
	case 7: // multi-line text with awkward white space
		for i, n := 0, 1+r.IntN(6); i < n; i++ {
			if i > 0 {
				sb.WriteString(c12Pick(r, []string{"\n", "\n", "\n", "\n\n", "\r\n", "\n ", " \n", "\n\t"}))
			}
			for j, m := 0, r.IntN(6); j < m; j++ {
				sb.WriteString(c12Pick(r, c12Words))
				if r.IntN(2) == 0 {
					sb.WriteByte(' ')
				}
			}
		}
		if r.IntN(3) == 0 {
			sb.WriteString(c12Pick(r, []string{"\n", "\n\n", " ", "\t", "\n "}))
		}
	case 8: // long: beyond YAML's line width / simple-key limits and the encoder's buffers
		unit := c12Pick(r, []string{"x", "x ", "word ", "\u00e9", "a\n", "\"", "\\", "\x00", "\U0001f600", "ab cd, ", "\xff", "x: ", "x #", " "})
		n := c12Pick(r, []int{79, 80, 81, 127, 128, 129, 1023, 1024, 1025, 200, 500, 3000})
		if r.IntN(12) == 0 {
			n = 8000 + r.IntN(30000)
		}
		for sb.Len() < n {
			sb.WriteString(unit)
		}
		if r.IntN(3) == 0 {
			sb.WriteString(c12Pick(r, c12Alphabet))
		}
	case 9: // plain printable ASCII
		for i, n := 0, r.IntN(24); i < n; i++ {
			sb.WriteByte(byte(0x20 + r.IntN(0x5f)))
		}
	case 10: // words
		for i, n := 0, 1+r.IntN(30); i < n; i++ {
			sb.WriteString(c12Pick(r, c12Words))
		}
	default: // a short alphabet string (also hits the exhaustive set again inside containers)
		for i, n := 0, r.IntN(3); i < n; i++ {
			sb.WriteString(c12Pick(r, c12Alphabet))
		}
	}
	return sb.String()
}

// c12ShortKey draws an object key (keys of every class, mostly short).
func c12RandKey(r *rand.Rand) string {
	switch r.IntN(6) {
	case 0:
		return c12Pick(r, []string{"a", "b", "c", "key", "value", "", "z", "A", "10", "9", "a10", "a9"})
	case 1:
		return c12Pick(r, c12Specials)
	case 2:
		return c12Pick(r, c12Alphabet) + c12Pick(r, c12Alphabet)
	}
	s := c12RandString(r)
	if len(s) > 3000 {
		s = s[:3000]
	}
	return s
}

var c12FloatClasses = []float64{
	0, math.Copysign(0, -1), 1, -1, 0.1, 0.2, 0.3, 1.0 / 3, 2.0 / 3, 0.5, 0.25, 1.5, 3.14, 100, 1e2,
	// 1e-6 / 1e-7 format threshold
	1e-5, 1e-6, math.Nextafter(1e-6, 0), math.Nextafter(1e-6, 1), 9.999999999999999e-7, 9.999999e-7, 1e-7, math.Nextafter(1e-7, 0), math.Nextafter(1e-7, 1), 1.5e-7, 5e-7, 1.234e-8,
	// exponents e-09 .. e-01 style and beyond
	1e-8, 1e-9, 1.5e-9, 2.5e-10, 1e-10, 1e-11, 9e-9, 1.25e-9, 1e-99, 1e-100, 1e-101, 1.5e-300, 1e-307, 1e-308,
	// 1e21 threshold
	1e20, 1e21, math.Nextafter(1e21, 0), math.Nextafter(1e21, math.Inf(1)), 9.99e20, 999999999999999868928, 1e22, 1e23, 8.41e21, 1.5e21, 1e100, 1.5e300,
	// integers around 2^53 and beyond
	9007199254740991, 9007199254740992, 9007199254740994, 4503599627370496.5, 4503599627370495.5, 9223372036854775808, 18446744073709551616, 1e15, 1e16, 1e17, 123456789012345680,
	// subnormals and the extremes
	5e-324, 1e-323, 4.9406564584124654e-324, 2.2250738585072014e-308, 2.225073858507201e-308, 2.2250738585072009e-308, 1.1125369292536007e-308,
	math.MaxFloat64, -math.MaxFloat64, math.Nextafter(math.MaxFloat64, 0), 1.7976931348623157e308,
}

// c12RandFloat draws a float64 from the bit-pattern classes of the property.
func c12RandFloat(r *rand.Rand) float64 {
	switch r.IntN(12) {
	case 0, 1, 2:
		f := c12Pick(r, c12FloatClasses)
		if r.IntN(3) == 0 {
			f = -f
		}
		return f
	case 3:
		return math.Float64frombits(r.Uint64()) // any pattern, NaN payloads included
	case 4:
		f := math.Float64frombits(r.Uint64() & 0x000fffffffffffff) // subnormal
		if r.IntN(2) == 0 {
			f = -f
		}
		return f
	case 5:
		return c12Pick(r, []float64{math.NaN(), math.Inf(1), math.Inf(-1), math.Float64frombits(0xfff8000000000001), math.Float64frombits(0x7ff0000000000001)})
	case 6:
		return r.Float64() * math.Pow(10, float64(r.IntN(60)-30))
	case 7:
		return float64(r.IntN(1000000)) / math.Pow(10, float64(r.IntN(12)))
	case 8: // powers of ten and their neighbours
		p := math.Pow(10, float64(r.IntN(80)-40))
		switch r.IntN(3) {
		case 0:
			return math.Nextafter(p, 0)
		case 1:
			return math.Nextafter(p, math.Inf(1))
		}
		return p
	case 9: // integral floats of every magnitude
		return math.Trunc(r.Float64() * math.Pow(2, float64(r.IntN(70))))
	case 10: // d.ddde-0X : the exponent clean-up path
		return float64(1+r.IntN(9999)) * math.Pow(10, -float64(7+r.IntN(12)))
	default:
		return math.Ldexp(r.Float64(), r.IntN(2098)-1074)
	}
}

var c12NumberLits = []string{
	"0", "-0", "1", "-1", "1.0", "-1.0", "1.00", "0.10", "100", "1e2", "1E2", "1E+2", "1e+2", "1e-2", "1E-2", "1e-7", "1.5e-7", "1e-07", "1E-07",
	"0.0000001", "0.000001", "123456789012345678901234567890", "-123456789012345678901234567890",
	"0.1234567890123456789012345678901234567890", "3.14159265358979323846264338327950288419716939937510",
	"1e1000", "-1e1000", "1e-1000", "1E1000", "1.0e1000", "9007199254740993", "9223372036854775807", "9223372036854775808",
	"-9223372036854775808", "-9223372036854775809", "18446744073709551616", "1.7976931348623157e308", "1.7976931348623159e308",
	"5e-324", "4.9e-324", "2.2250738585072014e-308", "0e0", "0E-0", "-0.0", "-0e10", "0.0", "1000000000000000000000", "1e21", "1e20",
	"0.1e1", "10e-1", "12345678.90", "1.10", "100.000", "1e00", "1e01", "1e+01", "1E-01", "99999999999999999999.99999999999999999999", "1e+21", "1e+06",
}

func c12RandNumberLit(r *rand.Rand) string {
	if r.IntN(3) == 0 {
		return c12Pick(r, c12NumberLits)
	}
	var sb strings.Builder
	if r.IntN(3) == 0 {
		sb.WriteByte('-')
	}
	if r.IntN(4) == 0 {
		sb.WriteByte('0')
	} else {
		sb.WriteByte(byte('1' + r.IntN(9)))
		for j, nd := 1, 1+r.IntN(30); j < nd; j++ {
			sb.WriteByte(byte('0' + r.IntN(10)))
		}
	}
	if r.IntN(2) == 0 {
		sb.WriteByte('.')
		for j, nf := 0, 1+r.IntN(25); j < nf; j++ {
			sb.WriteByte(byte('0' + r.IntN(10)))
		}
	}
	if r.IntN(3) == 0 {
		sb.WriteByte("eE"[r.IntN(2)])
		if k := r.IntN(3); k > 0 {
			sb.WriteByte("+-"[k-1])
		}
		for j, ne := 0, 1+r.IntN(4); j < ne; j++ {
			sb.WriteByte(byte('0' + r.IntN(10)))
		}
	}
	return sb.String()
}

func c12RandBig(r *rand.Rand) *big.Int {
	var b *big.Int
	switch r.IntN(4) {
	case 0:
		b = new(big.Int).Lsh(big.NewInt(1), uint(63+r.IntN(140)))
		b.Add(b, big.NewInt(int64(r.IntN(3)-1)))
		if b.IsInt64() { // keep it beyond int64
			b.Add(b, big.NewInt(2))
		}
	case 1:
		b, _ = new(big.Int).SetString("1"+strings.Repeat("0", 19+r.IntN(60)), 10)
	default:
		var sb strings.Builder
		sb.WriteByte(byte('1' + r.IntN(9)))
		for j, nd := 1, 20+r.IntN(60); j < nd; j++ {
			sb.WriteByte(byte('0' + r.IntN(10)))
		}
		b, _ = new(big.Int).SetString(sb.String(), 10)
	}
	if r.IntN(2) == 0 {
		b.Neg(b)
	}
	return b
}

// c12RandNumber draws a number in one of gojq's four Go representations.
func c12RandNumber(r *rand.Rand) any {
	switch r.IntN(10) {
	case 0, 1, 2, 3:
		return c12RandFloat(r)
	case 4:
		return c12Pick(r, []int{0, 1, -1, 2, 10, 42, 1 << 31, math.MaxInt64, math.MinInt64, 1 << 53, 1<<53 + 1, -(1 << 53) - 1, 999999, 1000000})
	case 5:
		return int(r.Int64()>>uint(r.IntN(64))) * (1 - 2*r.IntN(2))
	case 6:
		return c12RandBig(r)
	default:
		return json.Number(c12RandNumberLit(r))
	}
}

func c12RandLeaf(r *rand.Rand) any {
	switch r.IntN(10) {
	case 0:
		return c12Pick(r, []any{nil, true, false})
	case 1, 2, 3:
		return c12RandNumber(r)
	default:
		return c12RandString(r)
	}
}

// c12RandValue builds a random tree.
func c12RandValue(r *rand.Rand, depth int) any {
	if depth <= 0 || r.IntN(3) == 0 {
		return c12RandLeaf(r)
	}
	n := r.IntN(6)
	if r.IntN(8) == 0 {
		n = 0 // empty containers stay inline
	}
	if r.IntN(2) == 0 {
		a := make([]any, n)
		for i := range a {
			a[i] = c12RandValue(r, depth-1)
		}
		return a
	}
	m := make(map[string]any, n)
	for i := 0; i < n; i++ {
		m[c12RandKey(r)] = c12RandValue(r, depth-1)
	}
	return m
}

func c12SmallLeaf(r *rand.Rand) any {
	switch r.IntN(8) {
	case 0:
		return nil
	case 1:
		return r.IntN(2) == 0
	case 2:
		return r.IntN(1000)
	case 3:
		return c12RandNumber(r)
	case 4:
		return []any{}
	case 5:
		return map[string]any{}
	default:
		s := c12RandString(r)
		if len(s) > 200 {
			s = s[:200]
		}
		return s
	}
}

// c12Nest builds a value nested to the given depth. At every level the
// container (array or object, by kind: 0 arrays, 1 objects, 2 mixed) has fan
// scalar siblings before and after the nested child, so every depth has
// element lines, a child opening and a closing bracket line.
func c12Nest(r *rand.Rand, depth, kind, fan int) any {
	var v any = c12SmallLeaf(r)
	if r.IntN(3) == 0 {
		v = c12Pick(r, []any{[]any{}, map[string]any{}})
	}
	for d := depth; d > 0; d-- {
		before, after := r.IntN(fan+1), r.IntN(fan+1)
		obj := kind == 1 || kind == 2 && r.IntN(2) == 0
		if obj {
			m := map[string]any{}
			for i := 0; i < before; i++ {
				m[fmt.Sprintf("a%d", i)] = c12SmallLeaf(r)
			}
			m[c12Pick(r, []string{"k", "m", "n\n", "\u00e9", "a5"})] = v
			for i := 0; i < after; i++ {
				m[fmt.Sprintf("z%d", i)] = c12SmallLeaf(r)
			}
			v = m
		} else {
			a := make([]any, 0, before+after+1)
			for i := 0; i < before; i++ {
				a = append(a, c12SmallLeaf(r))
			}
			a = append(a, v)
			for i := 0; i < after; i++ {
				a = append(a, c12SmallLeaf(r))
			}
			v = a
		}
	}
	return v
}

// c12Wide builds a container of n members whose printed sizes vary, so the
// command encoder's 8 KiB flush threshold is crossed at many different places.
func c12Wide(r *rand.Rand, n, kind int) any {
	elem := func() any {
		switch r.IntN(10) {
		case 0:
			return []any{c12SmallLeaf(r), c12SmallLeaf(r)}
		case 1:
			return map[string]any{c12RandKey(r): c12SmallLeaf(r)}
		case 2:
			return strings.Repeat(c12Pick(r, []string{"x", "\u00e9", "\"", "\n", "\x01"}), r.IntN(400))
		}
		return c12SmallLeaf(r)
	}
	if kind == 1 {
		m := make(map[string]any, n)
		for i := 0; i < n; i++ {
			k := strconv.Itoa(i)
			if r.IntN(4) == 0 {
				k = c12RandKey(r) + k
			}
			m[k] = elem()
		}
		return m
	}
	a := make([]any, n)
	for i := range a {
		a[i] = elem()
	}
	return a
}
