package mon

import (
	"bytes"
	"encoding/json"
	"fmt"
	"strings"

	"verif/harness/internal/gen"
	"verif/harness/internal/model"
	"verif/harness/internal/run"

	"github.com/itchyny/gojq"
)

// ---- C01: generator semantics vs the reference interpreter M ----

type c01Case struct {
	Src   string
	Input run.TV
	CLI   bool
}

const c01MaxOut = 3000

func c01Decide(c *run.Ctx, src string, input any, prop string) *run.Fail {
	return c01DecideBudget(c, src, input, defBudget, 2*defBudget)
}

func c01DecideBudget(c *run.Ctx, src string, input any, budget, modelSteps int64) *run.Fail {
	q, err := gojq.Parse(src)
	if err != nil {
		c.Inconclusive("does-not-parse")
		return nil
	}
	code, cerr, pan := run.CompileQuery(q)
	if pan != "" {
		return run.Failf("Compile panicked on %q: %s", src, pan)
	}
	if cerr != nil {
		c.Inconclusive("does-not-compile")
		return nil
	}
	tr := run.RunCode(code, input, nil, budget, c01MaxOut)
	res := model.Run(q, run.DeepCopy(input), nil, modelSteps, c01MaxOut)
	c.Logf("gojq : %s", run.TraceDesc(tr))
	c.Logf("model: %s", modelDesc(res))
	diff, inc := cmpModel(tr, res)
	if inc != "" {
		if strings.HasPrefix(inc, "unsupported") {
			c.Inconclusive("unsupported-by-model")
			c.Distinct("unsupported_reasons", inc)
		} else {
			c.Inconclusive(inc)
		}
		if diff == "" {
			return nil
		}
	}
	if diff != "" {
		f := run.Failf("%q on %s: %s", src, run.Clip(run.Canon(input)), diff)
		f.Sig = c01NativeArgSig(q)
		return f
	}
	if len(src) > 8 && (len(tr.Vals) > 0 || tr.End == run.EndError) {
		c.Nontrivial(src + "\x00" + run.Canon(input))
	}
	switch tr.End {
	case run.EndError:
		c.Count("runs_ending_in_error_"+run.ErrClass(tr.Err), 1)
	case run.EndOK:
		c.Count("runs_ending_normally", 1)
	}
	c.Count("values_compared", int64(len(tr.Vals)))
	return nil
}

var kC01Scale = run.NewKind("c01.scale", func(c *run.Ctx, t c01Case) *run.Fail {
	return c01DecideBudget(c, t.Src, t.Input.V, 6000000, 20000000)
})

var kC01 = run.NewKind("c01.model", func(c *run.Ctx, t c01Case) *run.Fail {
	if f := c01Decide(c, t.Src, t.Input.V, "C01"); f != nil {
		return f
	}
	if t.CLI {
		return c01CLI(c, t)
	}
	return nil
})

// c01CLI: the second observation point named by the property — the same
// program through cmd/gojq must print what the library yields.
func c01CLI(c *run.Ctx, t c01Case) *run.Fail {
	in, err := gojq.Marshal(t.Input.V)
	if err != nil {
		return nil
	}
	res := run.Compile(t.Src)
	if res.Code == nil {
		return nil
	}
	// the command reads numbers as json.Number: run the library the same way
	d := json.NewDecoder(bytes.NewReader(in))
	d.UseNumber()
	var input any
	if d.Decode(&input) != nil {
		return nil
	}
	tr := run.RunCode(res.Code, input, nil, defBudget, c01MaxOut)
	if tr.End != run.EndOK && tr.End != run.EndError {
		return nil
	}
	r := run.CLI(run.CLIOpt{Args: []string{"-c", t.Src}, Stdin: in})
	if r.TimedOut || r.StartErr != nil {
		c.Inconclusive("cli-timeout")
		return nil
	}
	outs, ok := gen.DecodeStream(string(r.Stdout))
	if !ok {
		return run.Failf("gojq -c %q: stdout is not a JSON stream: %s", t.Src, run.Clip(string(r.Stdout)))
	}
	c.Count("cli_runs", 1)
	if len(outs) != len(tr.Vals) {
		return run.Failf("gojq -c %q on %s printed %d values, the library yields %d", t.Src, in, len(outs), len(tr.Vals))
	}
	for i := range outs {
		// compare via the printed form (NaN -> null, etc.)
		lb, _ := gojq.Marshal(tr.Vals[i])
		var lv any
		d := json.NewDecoder(bytes.NewReader(lb))
		d.UseNumber()
		d.Decode(&lv)
		if run.Canon(lv) != run.Canon(outs[i]) {
			return run.Failf("gojq -c %q on %s: output #%d is %s, the library yields %s", t.Src, in, i, run.Canon(outs[i]), lb)
		}
	}
	wantCode := 0
	if tr.End == run.EndError {
		wantCode = 5
		if run.ErrClass(tr.Err) == "halt" {
			return nil
		}
	}
	if r.Code != wantCode {
		return run.Failf("gojq -c %q on %s exited %d, expected %d (%s)", t.Src, in, r.Code, wantCode, run.TraceDesc(tr))
	}
	return nil
}

// bounded-exhaustive small programs
func c01Exhaustive(full bool) []string {
	atoms := []string{".", ".a", ".[0]", ".[]", "1", `"a"`, "null", "[.]", "{a: .}", "empty", "error", ".[]?", "(1, 2)", ".[1:]", "$x"}
	small := []string{".", ".a", ".[]", "1", "null", "empty", "error", "(1, 2)", ".[]?", "$x"}
	if !full {
		small = small[:8]
	}
	var out []string
	wrap := func(s string) string { return "1 as $x | " + s }
	for _, op := range []string{" | ", ", ", " + ", " // ", " and ", " == ", " - ", " or ", " < "} {
		for _, a := range atoms {
			for _, b := range atoms {
				out = append(out, wrap("("+a+")"+op+"("+b+")"))
			}
		}
	}
	for _, a := range atoms {
		for _, t := range []string{"[%s]", "{a: %s}", "{(%s): 1}", "(%s)?", "first(%s)", "limit(1; %s)", "isempty(%s)", "try (%s) catch .", "-(%s)", "[%s | not]", "(%s) as [$y] | $y", "(%s) as {a: $y} | $y",
			"(%s) as [$y] ?// $y | [$y]", "[limit(3; repeat(%s))]", "label $l | (%s), break $l", "[.[]? | (%s)]", "\"x\\(%s)y\"", "@json \"\\(%s)\"", "def f: %s; [f, f]", "def f(g): [g]; f(%s)", "def f($p): [$p, p]; f(%s)", "last(%s)", "[(%s) | tostring]", "reduce (%s) as $y (0; . + 1)", "[foreach (%s) as $y (0; . + 1)]", "path(%s)", "[paths] | length, (%s)", "try error(%s) catch .", "(%s) | select(. != null)", "any(%s; .)", "all(%s; .)"} {
			out = append(out, wrap(fmt.Sprintf(t, a)))
		}
	}
	for _, a := range small {
		for _, b := range small {
			for _, t := range []string{"try (%s) catch (%s)", "(%s) as $y | [$y, (%s)]", "reduce (%s) as $y (0; %s)", "[foreach (%s) as $y (0; %s)]", "if %s then %s else 0 end", "{(%s | tostring): %s}", "[(%s), (%s)] | length",
				"label $l | ((%s), break $l, (%s))", "(%s) as [$y] ?// $y | ($y, (%s))", "def f(g): g, g; [f(%s)] | length, (%s)", "def f($p; $q): [$p, $q]; f(%s; %s)", "first((%s), (%s))", "[limit(2; (%s), (%s))]", "(%s) // (%s) // 3", "[.[]? as $y | (%s), (%s)]", "\"\\(%s)-\\(%s)\"", "(%s) as $y | (%s) as $z | [$y, $z]", "[(%s) | (%s)?]", "try ((%s) | error) catch (%s)", ".[(%s)]? // (%s)"} {
				out = append(out, wrap(fmt.Sprintf(t, a, b)))
			}
		}
	}
	if full {
		for _, a := range small {
			for _, b := range small {
				for _, cc := range small {
					for _, t := range []string{"if %s then %s else %s end", "reduce (%s) as $y (%s; %s)", "[foreach (%s) as $y (%s; %s)]", "try ((%s), (%s)) catch (%s)", "((%s), (%s)) as $y | [$y, (%s)]", "{a: (%s), b: (%s), c: (%s)} | length", "[(%s) + (%s) + (%s)]", "(%s) as [$y] ?// {a: $y} ?// $y | [$y, (%s), (%s)]"} {
						out = append(out, wrap(fmt.Sprintf(t, a, b, cc)))
					}
				}
			}
		}
	}
	return out
}

// c01Alt: bounded-exhaustive destructuring alternatives: every ordered pair (and sampled triples) of pattern shapes
// over three variables, with a plain body and a body that fails while a variable is still null, inside a loop over
// heterogeneous data (stale-register defects only show when the same code is re-entered with different data).
func c01Alt(full bool) []string {
	pats := []string{"$a", "[$a]", "[$a, $b]", "{$a}", "{$a, b: [$c]}", "{a: $a}", "{$a: $b}", "{$a: [$b]}", "{\"a\": $c}", "{(\"a\", \"b\"): $a}", "[[$a]]", "[$a, [$b]]", "{a: {b: $c}}", "{$b, $c}", "[{$a}]", "{$a, $b: {$c}}", "[$c, {$a}]", "{b: [$b], $a}"}
	bodies := []string{"[$a, $b, $c]", "if $c == null then error(\"retry\") else [$a, $b, $c] end", "[$a, $b, $c], (select($a == null) | error(\"late\"))",
		"if $c == null then ([$a, $b] | halt_error(3)) else [$a, $b, $c] end", "[$a, $b, $c], (select($b == null) | halt)"}
	var out []string
	for i, p1 := range pats {
		for j, p2 := range pats {
			for k, b := range bodies {
				if !full && (i*7+j*3+k)%3 != 0 {
					continue
				}
				out = append(out, "[.[] as "+p1+" ?// "+p2+" | "+b+"]")
				out = append(out, "[.[] | . as "+p1+" ?// "+p2+" ?// $c | "+b+"]?")
				if full || (i+j+k)%4 == 0 {
					p3 := pats[(i*5+j*11+k)%len(pats)]
					out = append(out, "[.[] as "+p1+" ?// "+p2+" ?// "+p3+" | try ("+b+") catch \"caught\"]")
				}
				// halt (or an error) raised BEHIND a try whose body holds the alternatives: it unwinds through the body's forks
				if k == 0 && (full || (i+j)%2 == 0) {
					w := []string{"try (%s)", "try (%s) catch \"c\"", "try (try (%s))", "(%s)?", "first(try (%s))", "try ((%s), 7)"}[(i+j)%6]
					alt := fmt.Sprintf(w, ". as "+p1+" ?// "+p2+" | [$a, $b, $c]")
					out = append(out, ".[] | "+alt+" | ., halt", ".[1] | "+alt+" | halt_error(2)", "[.[] | "+alt+" | ., (select(.[1] == null) | error(\"behind\"))]?")
				}
			}
		}
	}
	return out
}

var c01AltInputs = []any{
	[]any{map[string]any{"a": 1, "b": "x"}, map[string]any{"a": 2, "b": []any{3}}, []any{4, []any{5}}, 6, nil},
	[]any{[]any{1, 2}, map[string]any{"a": map[string]any{"b": 7}, "b": map[string]any{"c": 8}}, []any{[]any{9}}, "s", map[string]any{"a": "b", "b": []any{1}}},
	[]any{map[string]any{"a": "a", "b": []any{"z"}, "c": 1}, []any{map[string]any{"a": 1}}, []any{}, map[string]any{}, []any{nil, map[string]any{"a": 2}}},
}

// c01ScopePositions: every query position of the grammar (%Q is the position)
var c01ScopePositions = []string{
	"if %Q then 1 else 2 end", "if true then %Q else 2 end", "if false then 1 else %Q end", "if false then 1 elif %Q then 2 else 3 end", "if false then 1 elif true then %Q else 3 end", "if %Q then 1 end",
	"[%Q]", "{a: (%Q)}", "{(%Q | tostring): 1}", "{\"k\\(%Q)\": 1}", ". as {(%Q | tostring): $x} | $x", ". as [$x] ?// {(%Q | tostring): $x} | $x", ". as {\"k\\(%Q)\": $x} | $x", ". as {$x, (%Q | tostring): [$y]} ?// $y | [$x, $y]",
	"reduce (%Q) as $x (0; 1)", "reduce 1 as $x (%Q; .)", "reduce 1 as $x (0; %Q)", "foreach (%Q) as $x (0; 1)", "foreach 1 as $x (%Q; .)", "foreach 1 as $x (0; %Q)", "foreach 1 as $x (0; 1; %Q)",
	".[%Q]?", ".[%Q:]?", ".[:%Q]?", "[.[(%Q | numbers)]?]", "\"s\\(%Q)\"", "@json \"j\\(%Q)\"", "@base64 \"\\(%Q)\"", "first(%Q)", "limit(1; %Q)", "def w(p): p; w(%Q)", "def w($p): $p; w(%Q)", "[range(%Q | numbers)]",
	"try (%Q) catch .", "try error(\"e\") catch (%Q)", "(label $z | %Q)", "-(%Q | numbers)", "(%Q)", "(%Q)?", "(%Q) // 1", "null // (%Q)", "(%Q), 1", "1, (%Q)", "(%Q) + 1", "1 + (%Q | numbers)", "(%Q) and true", "true or (%Q)",
	".a = (%Q)", ".a |= (%Q)", "(.a | %Q | select(false)) = 1", "path(%Q | empty)", "[.[]? | %Q]", "(%Q) as $x | $x", "(%Q) as [$x] ?// $x | $x", "getpath([%Q | strings])", "[limit(2; repeat(%Q))]", "isempty(%Q)", "[paths(%Q | false)]",
	"input_line_number?, (%Q)", "$__loc__ | (%Q)", "[recurse(%Q | empty)]", "label $z | (%Q), break $z", "(%Q) | not", "with_entries(%Q | empty)?", "map(%Q)?", "[splits(%Q | strings)?]", "ltrimstr(%Q)", "has(%Q | strings)?", "select(%Q)", "(%Q) == 1",
}

// c01Scope: lexical scoping at every query position of the grammar. A definition, a binding or a label introduced
// inside position %Q must be invisible to what follows the construct; what follows refers to an outer function /
// variable / label of the same name.
func c01Scope() []string {
	positions := c01ScopePositions
	type probe struct{ outer, inner, after string }
	probes := []probe{
		{"def f: \"outer\"; ", "def f: \"inner\"; f", "f"},
		{"def f: \"outer\"; ", "def f: \"inner\"; def g: f; g", "f"},
		{"def f: \"outer\"; def g: \"outer-g\"; ", "def g: \"inner\"; def f: g; f", "[f, g]"},
		{"def f(p): \"outer\"; ", "def f(p): p; f(\"inner\")", "f(1)"},
		{"\"outer\" as $v | ", "\"inner\" as $v | $v", "$v"},
		{"\"outer\" as $v | ", ". as [$v] ?// $v | \"inner\" as $v | $v", "$v"},
		{"[1, 2] as [$v, $u] | ", "{a: 3} as {a: $v} | $v", "[$v, $u]"},
		{"def f: \"outer\"; \"outer\" as $f | ", "def f: $f; \"inner\" as $f | f", "[f, $f]"},
	}
	var out []string
	for _, pos := range positions {
		for _, pr := range probes {
			c := strings.ReplaceAll(pos, "%Q", pr.inner)
			out = append(out, pr.outer+"[("+c+"), "+pr.after+"]", pr.outer+"["+c+" | "+pr.after+"]", pr.outer+"[("+c+") as $r | "+pr.after+", $r]")
		}
		// labels: the construct declares a label of the same name as an enclosing one; the break after it targets the outer one
		c := strings.ReplaceAll(pos, "%Q", "label $l | (5, break $l, 6)")
		out = append(out, "[label $l | (1, (("+c+") | ., break $l), 2)]", "[label $l | (1, break $l) | "+c+"]", "[label $l | ("+c+") | label $l | (., break $l, 7)]", "[label $l | label $m | ("+c+"), break $m, 8]")
	}
	// sibling positions of one construct: what is introduced in one part must be invisible in the parts next to it
	siblings := []string{
		"if %Q then %A else %A end", "if (%Q) == 1 then %A else %A end", "if true then %Q else %A end", "if false then %A elif %Q then %A else %A end", "if false then %A elif true then %Q else %A end", "if false then %Q elif false then %A else %A end",
		"reduce (%Q) as $r (%A; %A)", "reduce 1 as $r (%Q; %A)", "reduce 1 as $r (%A; %Q) | ., %A", "foreach (%Q) as $r (%A; %A; %A)", "foreach 1 as $r (%Q; %A; %A)", "foreach 1 as $r (%A; %Q; %A)", "foreach 1 as $r (%A; %A; %Q) | ., %A",
		"{a: (%Q), b: %A}", "{b: %A, a: (%Q)}", "{(%Q | tostring): %A}", "{\"k\\(%Q)\": %A}", "[(%Q), %A]", "[%A, (%Q)]", "\"\\(%Q) \\(%A)\"", "\"\\(%A) \\(%Q)\"", ".[(%Q | numbers):(%A | numbers)]?, %A", "[.[(%A | numbers):(%Q | numbers)]?, %A]",
		"def w(p; q): [p, q]; w(%Q; %A)", "def w(p; q): [p, q]; w(%A; %Q)", "def w($p; $q): [$p, $q]; w(%Q; %A)", "[limit(%Q | numbers; %A)]", "try (%Q) catch %A", "try error(\"e\") catch (%Q) | ., %A", "try error(%Q) catch %A",
		". as {(%Q | tostring): $r} | %A", ". as [$r] ?// {(%Q | tostring): $r} | %A", "(%Q) as $r | %A", "(%Q) as [$r] ?// $r | %A", "[(%Q) // %A, %A]", "[(null | %Q | select(false)) // %A]", "(%Q) + %A", "[%A + (%Q | tostring)]?",
		"(label $z | %Q, %A)", "[path(%Q | empty), %A]", "(.a | %Q | select(false)) = %A", ".a |= (%Q) | %A", "(%Q) as $r | (%Q) as $s | %A", "[(%Q), %A] | (%Q), %A", "[(%Q) | %A]", "first(%Q, %A), last(%Q, %A)",
		"getpath([%Q | strings]), %A", "[range(%Q | numbers; 3)], %A", "select(%Q) | %A", "recurse(%Q | empty) | %A", "[.[]? | (%Q), %A]", "with_entries((%Q | empty), .)? | %A", "map((%Q), %A)?", "(%Q | not), (%A | not)", "-(%Q | numbers), %A",
	}
	for _, sib := range siblings {
		for _, pr := range probes {
			out = append(out, pr.outer+"["+strings.ReplaceAll(strings.ReplaceAll(sib, "%Q", pr.inner), "%A", pr.after)+"]")
		}
	}
	// filter parameters resumed after the function body went on: arguments with several outputs (closures that leave
	// forks behind) x bodies that keep using values bound before / between / after the calls of the parameter
	bodies := []string{"(. + g) | (. * 2)", "g as $x | (. + $x) | . * 2", "[g] | length", ". as $a | g | . + $a", "(g, g) | . + 1", ". + g | . as $y | $y * 2", "(. + g) as $x | ($x | . * 2) + $x", "reduce g as $x (.; . + $x) | . * 2",
		"g | (. as $p | $p + 1) | (. as $q | $q * 2)", "(. as $a | g + $a) | (. as $b | $b * 2)", ". as $a | (g | . + $a) as $b | [$a, $b] | add", "(g | . * 2) as $x | (g | . + 1) as $y | $x + $y", "[g as $x | $x + .] | add",
		"def h: . * 2; (. + g) | h", "def h(k): k + 1; h(g) | . * 2", "label $l | (g | if . > 1 then ., break $l else . end) | . + 100", "first(g) + last(g)", "[limit(2; g)] | add + .", "(g | select(. > 1)) // 0 | . + 1", "try (g | if . == 2 then error(\"two\") else . end) catch 20 | . + .",
		". as [$a] ?// $a | g + ($a | numbers)", "{a: g, b: .} | .a + .b", "\"\\(g)-\\(.)\"", "[., g] | (.[0] as $p | .[1] as $q | $p * 10 + $q)", "foreach g as $x (0; . + $x; [$x, .]) | add", "if g > 1 then . + 1 else . - 1 end | . * 3", "(g, 5) as $x | (g, 7) as $y | $x * 10 + $y"}
	gargs := []string{"1, 2", "(1, 2, 3)", ".[]?", "range(3)", "(1, (2 | ., .))", "empty", "(1, error(\"x\"))?", "1"}
	callers := []string{"[f(%G)]", "[f(%G) | f(%G)]", "[limit(3; f(%G))]", "[f(f(%G))]", "first(f(%G))", "[.[]? | numbers | f(%G)]", "[f(%G), f(%G)]", "[f(%G) as $r | $r, f(%G)]", "reduce f(%G) as $r (0; . + $r)", "[label $o | f(%G) | ., (select(. > 20) | break $o)]"}
	for bi, b := range bodies {
		for gi, ga := range gargs {
			for ci, cl := range callers {
				if (bi+gi+ci)%2 == 0 {
					out = append(out, "def f(g): "+b+"; 10 as $k | "+strings.ReplaceAll(cl, "%G", ga))
				}
			}
		}
		out = append(out, "def f(g; h): ("+strings.ReplaceAll(b, "g", "(g + h)")+"); [f(1, 2; 10, 20)]", "def f(g): def i(h): "+strings.ReplaceAll(b, "g", "h")+"; i(g) + i(g); [f(1, 2)]")
	}
	// siblings and re-entry
	out = append(out, "[label $x | (1, break $x) | label $x | .]", "[label $x | (1, 2) | label $x | (., break $x)]", "[label $x | (label $x | 1, break $x, 2), 3, break $x, 4]", "[(label $x | 1, break $x), (label $x | 2, break $x)]",
		"[label $x | (1, 2) | (label $x | ., break $x), (. + 10 | if . > 11 then break $x else . end)]", "[.[]? | label $x | (., break $x)]", "[label $x | def f: break $x; (label $x | 1, f, 2), 3]", "[label $x | def f: label $x | (1, break $x, 2); f, f, break $x]",
		"def tostring: \"X\"; [\"a\\(1)\", @text \"b\\(2)\", (3 | @text), @json \"c\\(4)\"]", "def tojson: \"X\"; [@json \"c\\(4)\", (5 | @json), \"d\\([6])\"]", "def format(f): \"X\"; [@base64 \"\\(1)\", (2 | @html), @text]", "def tostring: \"X\"; def tojson: \"Y\"; [\"\\([1])\", ([2] | tostring), ([3] | tojson), @json]",
		"def _tostring: \"X\"; def _tojson: \"Y\"; def _tohtml: \"Z\"; [\"a\\(1)\", @json \"b\\(2)\", @html \"<\\(3)>\"]", "def length: 7; [\"\\(1)\" | length]", "def add: 9; [1, 2] | \"\\(.)\", add",
	)
	return out
}

// c01Slices: jq counts a negative boundary from the end first (as a double) and rounds afterwards, the start down and
// the end up; every ordered pair of boundaries in eight slice forms.
func c01Slices() []string {
	bounds := []string{"null", "0", "1", "2", "-1", "-2", "0.5", "1.5", "2.5", "-0.5", "-1.5", "-2.5", "-3.2", "-7.5", "3.7", "10", "-10", "1e3", "-0.0", "4.999", "-4.999"}
	var out []string
	for _, s := range bounds {
		for _, e := range bounds {
			se := s + ":" + e
			if s == "null" {
				se = ":" + e
			}
			if e == "null" {
				se = s + ":"
			}
			if s == "null" && e == "null" {
				se = "null:null"
			}
			out = append(out, "[.["+se+"]?]", "try (.["+se+"] = [\"x\"]) catch \"E\"", "try del(.["+se+"]) catch \"E\"", "try (.["+se+"] |= (.[1:]?)) catch \"E\"", "[path(.["+se+"]?)]",
				"try getpath([{start: "+s+", end: "+e+"}]) catch \"E\"", "try setpath([{start: "+s+", end: "+e+"}]; [9]) catch \"E\"", "try delpaths([[{start: "+s+", end: "+e+"}]]) catch \"E\"")
		}
	}
	return out
}

// c01Sharing: value semantics under sharing - two different values are derived from one base that stays reachable
// (bound to a variable, or the input): deriving the second must not change the first, nor the base.
func c01Sharing() []string {
	bases := []string{"[range(3)]", "[range(5)]", "[range(9)]", "[1, 2, 3]", ".", "[.[]?]", "{a: 1}", "{a: [1, 2, 3]}", "[[1, 2, 3], [4]]", "[limit(3; repeat(0))]", "(. // [7, 8, 9])", "[1, 2, 3, 4, 5][1:4]", "([1, 2] + [3])", "[.[]?, 1, 2, 3]"}
	pairs := [][2]string{{". + [10]", ". + [20]"}, {".[:2] + [9]", "."}, {".[0] = 7", ".[0] = 8"}, {". + {b: 1}", ". + {b: 2}"}, {".[1:] | . + [5]", ".[1:] | . + [6]"}, {"map(. + 1)?", "map(. + 2)?"}, {"del(.[0])", "del(.[1])"},
		{"sort?", "reverse?"}, {".a += [4]", ".a += [5]"}, {"setpath([0]; 9)", "setpath([0]; 8)"}, {".[1:] = [\"x\"]", ".[:1] = [\"y\"]"}, {".[0] |= [., 1]", ".[0] |= [., 2]"}, {". + [.]", ". + [[.]]"}, {"[.[], 10]", "[.[], 20]"},
		{".[:1] + [1] + [2]", ".[:1] + [3]"}, {". * {c: {d: 1}}", ". * {c: {d: 2}}"}, {"to_entries?", "with_entries(.)?"}, {".[-1:] + [0]", ".[:-1] + [0]"}, {"(.[0], .[1]) = 5", "(.[1], .[0]) = 6"}, {". - [1]", ". - [2]"}}
	var out []string
	for bi, b := range bases {
		for pi, pr := range pairs {
			d1, d2 := "try ("+pr[0]+") catch \"E\"", "try ("+pr[1]+") catch \"E\""
			out = append(out, b+" as $a | [($a | "+d1+"), ($a | "+d2+"), $a]")
			if (bi+pi)%2 == 0 {
				out = append(out, b+" as $a | ($a | "+d1+") as $x | ($a | "+d2+") as $y | [$x, $y, $a, ($a | "+d1+")]", "[(1, 2) as $k | "+b+" | "+d1+", "+d2+"]")
			} else {
				out = append(out, b+" | [("+d1+"), ., ("+d2+"), .]", "[limit(3; repeat("+b+" | "+d1+"))] | .[0] == .[2]")
			}
		}
	}
	return out
}

// c01Scale: programs whose depth/width is a parameter, so that mechanisms which only show beyond a size
// (scope chains, register-file growth, fork-stack growth, block reuse in the persistent stacks) are exercised.
func c01Scale(n int) []string {
	N := fmt.Sprint(n)
	nest := func(k int, open, close, core string) string {
		return strings.Repeat(open, k) + core + strings.Repeat(close, k)
	}
	k := min(n, 150)
	var vars, refs []string
	for i := 0; i < k; i++ {
		vars = append(vars, fmt.Sprintf("%d as $v%d", i, i))
		refs = append(refs, fmt.Sprintf("$v%d", i))
	}
	var defs []string
	defs = append(defs, "def f0: 0;")
	for i := 1; i < k; i++ {
		defs = append(defs, fmt.Sprintf("def f%d: f%d + 1;", i, i-1))
	}
	var labels []string
	for i := 0; i < min(k, 60); i++ {
		labels = append(labels, fmt.Sprintf("label $l%d", i))
	}
	return []string{
		"def f: if . >= " + N + " then . else . + 1 | f end; 0 | f",
		"def f: if . >= " + N + " then 0 else 1 + (. + 1 | f) end; 0 | f",
		"def f: if . >= " + N + " then [] else [.] + (. + 1 | f) end; 0 | f | length",
		"def f(g): if . >= " + N + " then g else . + 1 | f(g + 1) end; 0 | f(0)",
		"def f($a): if $a >= " + N + " then $a else f($a + 1) end; f(0)",
		"reduce range(" + N + ") as $i (0; . + $i)", "[range(" + N + ")] | map(. + 1) | add", "[limit(" + N + "; repeat(1))] | length", "[range(" + N + ")] | length", "last(range(" + N + "))",
		"[range(" + N + ") | select(. % 7 == 0)] | length", "[foreach range(" + N + ") as $i (0; . + $i)] | last", "[range(" + N + ")] | .[" + fmt.Sprint(n/2) + ":] | length", "[range(" + N + ")] | [.[] as $x | $x * 2] | add",
		"[range(" + N + ")] | sort_by(-.) | .[0]", "[range(" + N + ")] | group_by(. % 3) | map(length)", "[range(" + N + ") | . % 5] | unique", "[range(" + N + ")] | min, max, (map(. > 3) | any, all)", "[range(" + N + ")] | to_entries | map(.key) | add",
		"[range(" + N + ")] | tojson | length", "reduce range(" + N + ") as $i ({}; .[\"k\\($i)\"] = $i) | keys | length", "reduce range(" + fmt.Sprint(k) + ") as $i (0; {a: .}) | [paths] | length", "reduce range(" + fmt.Sprint(k) + ") as $i (0; [.]) | [..] | length",
		"reduce range(" + fmt.Sprint(k) + ") as $i (0; [.]) | flatten", "[range(" + N + ")] | [.[] | if . % 2 == 0 then empty else . end] | length", "[range(" + N + ")] | first(.[] | select(. > " + fmt.Sprint(n/2) + "))",
		"[range(" + N + ")] | [limit(5; .[] | select(. > 2))]", "[range(" + N + ")] | .[] |= . + 1 | add", "[range(" + N + ")] | del(.[range(0; " + N + "; 2)]) | length", "[range(" + N + ")] | (.[] | select(. % 3 == 0)) = 0 | add",
		"[range(" + fmt.Sprint(min(n, 60)) + ")] | [.[] as $x | .[] as $y | select($x + $y == 7)] | length", "[range(" + N + ")] | map(tostring) | join(\",\") | length", "[range(" + N + ")] | [.[] | try (if . % 10 == 3 then error(.) else . end) catch -1] | add",
		"[range(" + N + ")] | [label $out | .[] | if . > 5 then ., break $out else . end] | length", "[range(" + N + ")] | isempty(.[] | select(. < 0))", "[range(" + N + ")] | [path(.[])] | length", "[range(" + N + ")] | [paths] | length", "[range(" + N + ")] | [tostream] | length",
		"[range(" + N + ")] | [.[] | . as [$a] ?// $a | $a] | add", "[range(" + N + ") | {a: ., b: [.]}] | map(.b[0] + .a) | add", "[range(" + N + ")] | indices(3)", "[range(" + N + ")] | index(" + fmt.Sprint(n-1) + ")",
		strings.Join(vars, " | ") + " | [" + strings.Join(refs, ", ") + "] | add",
		strings.Join(defs, " ") + fmt.Sprintf(" f%d", k-1),
		nest(min(k, 100), "try (", ") catch error(. + 1)", "error(0)") + "?",
		"try (" + nest(min(k, 100), "try (", ") catch error(. + 1)", "error(0)") + ") catch .",
		strings.Join(labels, " | ") + " | (1, break $l0, 2)",
		strings.Join(labels, " | ") + fmt.Sprintf(" | (1, break $l%d, 2)", len(labels)-1),
		nest(min(k, 100), "def f(g): g; f(", ")", "1"),
		nest(min(k, 100), "[", "]", "1") + " | flatten", nest(min(k, 100), "{a: ", "}", "1") + " | [paths] | length", nest(min(k, 100), "(1, ", ")", "2") + " | select(. == 2)",
		nest(min(k, 80), "first(", ")", "range(3)"), nest(min(k, 80), "[limit(2; ", ")]", "1, 2, 3"), nest(min(k, 80), "if true then ", " else 0 end", "1"), nest(min(k, 100), "-(", ")", "1"),
		nest(min(k, 80), "(. as $x | ", ")", "$x"), nest(min(k, 80), "reduce (", ") as $x (0; . + $x)", "1, 2"), nest(min(k, 50), "[foreach (", ") as $x (0; . + $x)]", "1, 2") + " | flatten | add",
		"[" + nest(min(k, 100), "1 + ", "", "1") + ", " + nest(min(k, 100), "", " // 2", "null") + "]", "\"" + strings.Repeat("\\(1)", min(k, 100)) + "\" | length", "{" + func() string {
			var kv []string
			for i := 0; i < min(k, 100); i++ {
				kv = append(kv, fmt.Sprintf("k%d: %d", i, i))
			}
			return strings.Join(kv, ", ")
		}() + "} | add",
	}
}

func init() {
	run.Register(&run.Prop{
		ID: "C01", Level: "exploration", MinNontrivial: 2000,
		Rule:        "a case is (program text, input). Sources: bounded-exhaustive small programs over a reduced atom set (every binary form over 15 atoms, 30 unary templates, 20 binary and 8 ternary templates), PRNG-generated core-grammar programs (nested generators inside binders inside try/label inside function bodies, destructuring with ?//, closures, recursion, shadowing), the library-level corpus queries with their pinned inputs, and token mutations of corpus queries. Each is run by the real Parse/Compile/Run under a 200k-instruction budget and by the reference interpreter M (harness/internal/model, written from the jq manual, interprets builtin.jq from its text); event lists are compared (values by canonical form, user errors by value, internal errors by class). Non-trivial = distinct (program, input) with a program longer than 8 bytes whose run emitted a value or ended in an error, and which the model supports.",
		Assumptions: []string{"gojq.Parse produces the AST the model interprets (the parser is checked separately under C09)", "the reference interpreter M is a faithful reading of the jq manual; calibrated on the pinned corpus (vcheck modelcal: reproduces the pinned output of every supported library-level case)", "programs outside M's language are counted as unsupported, not compared"},
		Body: func(c *run.Ctx) {
			small := gen.USmall()
			// (a) bounded-exhaustive
			ex := c01Exhaustive(!c.Quick())
			c.Gauge("exhaustive_programs", int64(len(ex)))
			nin := c.N(6, len(small))
			for i, src := range ex {
				for j := 0; j < nin; j++ {
					kC01.Do(c, c01Case{Src: src, Input: run.TV{V: small[(i*7+j*5)%len(small)]}})
				}
			}
			// (a1) destructuring alternatives
			for _, src := range c01Alt(!c.Quick()) {
				for _, in := range c01AltInputs {
					kC01.Do(c, c01Case{Src: src, Input: run.TV{V: in}})
				}
			}
			// (a1f) slices with every pair of boundaries from a pool with negative and fractional numbers
			for i, src := range c01Slices() {
				for j, in := range []any{[]any{0, 1, 2, 3, 4}, "abcde", []any{0}, []any{}, nil, []any{0, 1, 2}} {
					if c.Quick() && (i+j)%3 != 0 {
						continue
					}
					kC01.Do(c, c01Case{Src: src, Input: run.TV{V: in}})
				}
			}
			// (a1s) value semantics under sharing
			for i, src := range c01Sharing() {
				for j, in := range []any{nil, []any{1, 2, 3}, map[string]any{"a": []any{1}}, []any{[]any{3, 1, 2}, 1}} {
					if c.Quick() && (i+j)%2 == 1 {
						continue
					}
					kC01.Do(c, c01Case{Src: src, Input: run.TV{V: in}})
				}
			}
			// (a1'') lexical scoping at every query position
			for i, src := range c01Scope() {
				for j, in := range []any{nil, []any{1, "b"}, map[string]any{"a": []any{1}, "outer": 1, "inner": 2}} {
					if c.Quick() && (i+j)%3 == 2 {
						continue
					}
					kC01.Do(c, c01Case{Src: src, Input: run.TV{V: in}})
				}
			}
			// (a1') control-flow joins in multi-slot consumers
			for _, src := range gen.RecursionPrograms() {
				kC01.Do(c, c01Case{Src: src, Input: run.TV{V: nil}})
			}
			for _, src := range gen.LiteralShapePrograms(c.N(6, 1)) {
				for _, in := range []any{nil, 5, []any{7}} {
					kC01.Do(c, c01Case{Src: src, Input: run.TV{V: in}})
				}
			}
			for _, src := range gen.JoinPrograms(c.N(12, 1)) {
				for _, in := range gen.JoinInputs() {
					kC01.Do(c, c01Case{Src: src, Input: run.TV{V: in}})
				}
			}
			// (a2) scale: the same forms at depth/width 10, 70, 300 and 1500
			for _, n := range []int{10, 70, 300, 1500} {
				for _, src := range c01Scale(n) {
					kC01Scale.Do(c, c01Case{Src: src, Input: run.TV{V: nil}})
				}
			}
			// (b) random G1
			r := c.Rand("c01.g1")
			n := c.N(30000, 600000)
			for i := 0; i < n; i++ {
				g := &gen.G1{R: r}
				src := g.Program(2 + r.IntN(3))
				for j := 0; j < 4; j++ {
					var in any
					switch j {
					case 0:
						in = small[r.IntN(len(small))]
					case 1:
						in = gen.RandValue(r, 3)
					case 2:
						in = gen.Reps(small[r.IntN(len(small))], 1+r.IntN(3))
					default:
						in = small[r.IntN(len(small))]
					}
					kC01.Do(c, c01Case{Src: src, Input: run.TV{V: in}, CLI: i%100 == 0 && j == 0})
				}
			}
			// (c) corpus
			corpus := gen.SimpleCorpus()
			c.Gauge("corpus_cases", int64(len(corpus)))
			for _, cs := range corpus {
				for _, in := range cs.Inputs {
					kC01.Do(c, c01Case{Src: cs.Query, Input: run.TV{V: in}})
				}
			}
			// (d) token mutations of corpus queries
			rm := c.Rand("c01.mut")
			m := c.N(12000, 250000)
			for i := 0; i < m; i++ {
				cs := corpus[rm.IntN(len(corpus))]
				src := gen.Mutate(rm, cs.Query)
				if rm.IntN(3) == 0 {
					src = gen.Mutate(rm, src)
				}
				var in any
				if len(cs.Inputs) > 0 && rm.IntN(2) == 0 {
					in = cs.Inputs[rm.IntN(len(cs.Inputs))]
				} else {
					in = small[rm.IntN(len(small))]
				}
				kC01.Do(c, c01Case{Src: src, Input: run.TV{V: in}})
			}
		},
	})
}
