package mon

import (
	"fmt"
	"math/rand/v2"
	"os"
	"regexp"
	"slices"
	"strconv"
	"strings"
	"time"

	"verif/harness/internal/model"
	"verif/harness/internal/run"

	"github.com/itchyny/gojq"
)

// ---- C20: bounded interpreter space ----

type c20Case struct {
	Src  string
	Mode string // "gen": consume n and 8n outputs of one iterator; "loop": run with $n = n and 8n, measure after completion
	N    int
}

type endlessIter struct{ i int }

func (it *endlessIter) Next() (any, bool) { it.i++; return it.i, true }

func footSum(f [5]int) int { return f[0] + f[1] + f[2] + f[3] + f[4] }

const c20Slack = 16

func c20Compile(src string) (*gojq.Query, *gojq.Code, error) {
	q, err := gojq.Parse(src)
	if err != nil {
		return nil, nil, err
	}
	code, err := gojq.Compile(q, gojq.WithVariables([]string{"$n"}), gojq.WithInputIter(&endlessIter{}))
	return q, code, err
}

var kC20 = run.NewKind("c20.footprint", func(c *run.Ctx, t c20Case) *run.Fail {
	q, code, err := c20Compile(t.Src)
	if err != nil {
		return run.Failf("pool program %q does not compile: %v", t.Src, err)
	}
	n := t.N
	switch t.Mode {
	case "gen":
		ctx := run.Budget(int64(n) * 8 * 400)
		iter := code.RunWithContext(ctx, nil, n)
		var footN, footE, foot8 [5]int
		var first []any
		for i := 1; i <= 8*n; i++ {
			v, ok := iter.Next()
			if !ok {
				return run.Failf("%q ended after %d outputs; the pool expects at least %d", t.Src, i-1, 8*n)
			}
			if e, isErr := v.(error); isErr {
				if e == run.ErrBudget {
					// out of instructions (a turn that costs more the longer the run lasts): the state kept so far still tells
					ref, at := footN, n
					if i <= n+n/4 {
						ref, at = footE, max(n/8, 20)
					}
					if now, ok := gojq.VerifFootprint(iter); ok && i > at+at/4+8 && footSum(now) > footSum(ref)+4*c20Slack {
						return run.Failf("%q: interpreter state grew from %v (sum %d) after %d outputs to %v (sum %d) after %d outputs, where the instruction budget of %d ended the run [stack, paths, scopes, registers, forks]",
							t.Src, ref, footSum(ref), at, now, footSum(now), i-1, int64(n)*8*400)
					}
					c.Inconclusive("budget")
					return nil
				}
				return run.Failf("%q raised %v after %d outputs", t.Src, e, i-1)
			}
			if i <= 40 {
				first = append(first, v)
			}
			if i == n {
				footN, _ = gojq.VerifFootprint(iter)
			}
			if i == max(n/8, 20) {
				footE, _ = gojq.VerifFootprint(iter) // an early checkpoint, in case the instruction budget ends the run before n
			}
		}
		foot8, ok := gojq.VerifFootprint(iter)
		if !ok {
			return run.Failf("iterator of %q is not the interpreter", t.Src)
		}
		c.Logf("footprint after %d outputs %v, after %d outputs %v (stack, paths, scopes, registers, forks)", n, footN, 8*n, foot8)
		c.Count("outputs_consumed", int64(8*n))
		if footSum(foot8) > footSum(footN)+c20Slack {
			return run.Failf("%q: interpreter state grew from %v (sum %d) after %d outputs to %v (sum %d) after %d outputs [stack, paths, scopes, registers, forks]",
				t.Src, footN, footSum(footN), n, foot8, footSum(foot8), 8*n)
		}
		// constant space must not be achieved by dropping values: compare a prefix with the model
		if !strings.Contains(t.Src, "input") {
			res := model.Run(q, nil, map[string]any{"$n": n}, 200000, 40)
			if diff, inc := cmpModel(run.Trace{Vals: first, End: run.EndLimit}, res); diff != "" {
				return run.Failf("%q: first outputs differ from the reference interpreter: %s", t.Src, diff)
			} else if inc != "" && inc != "output-limit" {
				c.Inconclusive("model:" + inc)
			} else {
				c.Count("prefixes_checked_against_model", 1)
			}
		}
	case "loop":
		var foots [2][5]int
		var outs [2]any
		for k, nn := range []int{n, 8 * n} {
			ctx := run.Budget(int64(nn) * 400)
			iter := code.RunWithContext(ctx, nil, nn)
			v, ok := iter.Next()
			if !ok {
				return run.Failf("%q with $n=%d produced no output", t.Src, nn)
			}
			if e, isErr := v.(error); isErr {
				if e == run.ErrBudget {
					if now, ok := gojq.VerifFootprint(iter); ok && k == 1 && footSum(now) > footSum(foots[0])+4*c20Slack {
						return run.Failf("%q: interpreter state grew from %v (sum %d) for the whole run with $n=%d to %v (sum %d) at the point where the instruction budget ended the run with $n=%d [stack, paths, scopes, registers, forks]",
							t.Src, foots[0], footSum(foots[0]), n, now, footSum(now), nn)
					}
					c.Inconclusive("budget")
					return nil
				}
				return run.Failf("%q with $n=%d raised %v", t.Src, nn, e)
			}
			outs[k] = v
			foots[k], _ = gojq.VerifFootprint(iter)
		}
		c.Logf("footprint with $n=%d %v, with $n=%d %v", n, foots[0], 8*n, foots[1])
		c.Count("loop_turns", int64(9*n))
		if footSum(foots[1]) > footSum(foots[0])+c20Slack {
			return run.Failf("%q: interpreter state grew from %v (sum %d) for $n=%d to %v (sum %d) for $n=%d [stack, paths, scopes, registers, forks]",
				t.Src, foots[0], footSum(foots[0]), n, foots[1], footSum(foots[1]), 8*n)
		}
		if !strings.Contains(t.Src, "input") {
			res := model.Run(q, nil, map[string]any{"$n": n}, int64(n)*3000+100000, 1)
			if diff, inc := cmpModel(run.Trace{Vals: []any{outs[0]}, End: run.EndLimit}, res); diff != "" {
				return run.Failf("%q with $n=%d: result differs from the reference interpreter: %s", t.Src, n, diff)
			} else if inc != "" && inc != "output-limit" {
				c.Inconclusive("model:" + inc)
			} else {
				c.Count("results_checked_against_model", 1)
			}
		}
	default:
		return run.Failf("bad mode")
	}
	c.Nontrivial(fmt.Sprintf("%s|%s|%d", t.Mode, t.Src, t.N))
	return nil
})

// ---- the command consuming a long input stream from a pipe ----
//
// `inputs`, the main input loop and `--stream` are iteration forms of the statement too; their state lives in the
// command's input reader. The monitor is the kernel's peak resident set size of the gojq process (reported by
// /usr/bin/time, which waits for it) for the same stream at 4 MiB and at 48 MiB: a reader that retains what it has
// consumed grows by the size of the input (44 MiB), the bound allows 24 MiB for collector timing.
type c20CmdCase struct {
	Style string   // line discipline of the generated stream
	Args  []string // flags and query
}

var c20Units = map[string]string{
	"lf": "{\"a\":1,\"b\":[2]}\n", "pretty": "{\n  \"a\": 1,\n  \"b\": [\n    2\n  ]\n}\n", "crlf": "{\"a\":1,\"b\":[2]}\r\n", "cr": "{\"a\":1,\"b\":[2]}\r", "prettycrlf": "{\r\n  \"a\": 1,\r\n  \"b\": [2]\r\n}\r\n",
	"space": "{\"a\":1,\"b\":[2]} ", "tab-indented": "{\n\t\"a\": 1,\n\t\"b\": [\n\t\t2\n\t]\n}\n", "mixed": "{\"a\":1,\r\"b\":[2]}\n\n", "long-line": "{\"a\":1,\"b\":[2],\"pad\":\"" + strings.Repeat("x", 3000) + "\"}\n",
}

var c20GCLine = regexp.MustCompile(`(?m)^gc \d+ @.*? \d+->\d+->(\d+) MB`)

func c20NoGCTrace(stderr string) string {
	var keep []string
	for _, l := range strings.Split(stderr, "\n") {
		if !strings.HasPrefix(l, "gc ") {
			keep = append(keep, l)
		}
	}
	return strings.Join(keep, "\n")
}

var kC20Cmd = run.NewKind("c20.command-rss", func(c *run.Ctx, t c20CmdCase) *run.Fail {
	unit, ok := c20Units[t.Style]
	if !ok {
		return run.Failf("bad style")
	}
	if _, err := os.Stat("/usr/bin/time"); err != nil {
		c.Inconclusive("no-/usr/bin/time")
		return nil
	}
	// The verdict is on the collector's own account of the reachable heap (GODEBUG=gctrace=1: "A->B->C MB", C is what
	// the cycle found reachable), not on the resident set: under CPU starvation the heap of a Go process overshoots its
	// goal by a load-dependent amount. The reachable figure of a single cycle is load-dependent too, though less so
	// (everything allocated while a starved mark phase drags on counts as reachable), therefore: the command runs on
	// one P (mutator and collector are starved together, and the mutator has to assist), the figure of a run is the
	// SMALLEST one among its last four cycles (something retained per value consumed is in every late cycle, an
	// overshoot is in one; with a growing heap cycles get rare, so "late" is counted in cycles from the end), and a growth must show in three runs out of three. Peak RSS is recorded as a gauge only.
	measure := func(size int) (live, rss int64, f *run.Fail, inconclusive string) {
		n := size / len(unit)
		env := append(append([]string{}, run.DefaultEnv()...), "GODEBUG=gctrace=1", "GOMAXPROCS=1")
		res := run.CLI(run.CLIOpt{Wrap: []string{"/usr/bin/time", "-f", "VERIF-MAXRSS %M"}, Args: t.Args, Stdin: []byte(strings.Repeat(unit, n)), Timeout: 300 * time.Second, Env: env})
		if res.TimedOut || res.StartErr != nil {
			return 0, 0, nil, "cli-timeout"
		}
		stderr := string(res.Stderr)
		i := strings.LastIndex(stderr, "VERIF-MAXRSS ")
		if i < 0 || res.Code != 0 {
			return 0, 0, run.Failf("gojq %q on a %d MiB %s stream: exit %d, stderr %s", t.Args, size>>20, t.Style, res.Code, run.Clip(c20NoGCTrace(stderr))), ""
		}
		kib, err := strconv.ParseInt(strings.TrimSpace(stderr[i+len("VERIF-MAXRSS "):]), 10, 64)
		if err != nil {
			return 0, 0, nil, "unreadable-rss"
		}
		var cycles []int64
		for _, m := range c20GCLine.FindAllStringSubmatch(stderr, -1) {
			if v, err := strconv.ParseInt(m[1], 10, 64); err == nil {
				cycles = append(cycles, v)
			}
		}
		if len(cycles) == 0 {
			return 0, 0, nil, "no-gc-trace"
		}
		c.Count("gc_cycles_observed", int64(len(cycles)))
		live = slices.Min(cycles[max(0, len(cycles)-4):])
		if got, want := strings.TrimSpace(string(res.Stdout)), strconv.Itoa(n); got != want {
			return 0, 0, run.Failf("gojq %q on a stream of %d values printed %q", t.Args, n, run.Clip(got)), ""
		}
		c.Count("stream_values_consumed", int64(n))
		return live, kib, nil, ""
	}
	small, rssSmall, f, inc := measure(4 << 20)
	if f != nil || inc != "" {
		if inc != "" {
			c.Inconclusive(inc)
		}
		return f
	}
	var large, rssLarge int64
	for attempt := 0; attempt < 3; attempt++ {
		large, rssLarge, f, inc = measure(48 << 20)
		if f != nil || inc != "" {
			if inc != "" {
				c.Inconclusive(inc)
			}
			return f
		}
		if large <= small+16 {
			break
		}
		c.Count("large_runs_repeated", 1)
	}
	c.Logf("reachable heap (least of the last 4 cycles) %d MB for 4 MiB, %d MB for 48 MiB; peak RSS %d / %d KiB", small, large, rssSmall, rssLarge)
	c.Gauge("max_reachable_heap_mb_48MiB", large)
	c.Gauge("max_peak_rss_kib_48MiB", rssLarge)
	if large > small+16 {
		return run.Failf("gojq %q reading a %s stream from a pipe: in its last four cycles the collector never finds less than %d MB reachable for 4 MiB of input, %d MB for 48 MiB, in three runs out of three (what is kept grows with the amount consumed; peak RSS %d / %d KiB)", t.Args, t.Style, small, large, rssSmall, rssLarge)
	}
	c.Nontrivial("cmd|" + t.Style + "|" + strings.Join(t.Args, " "))
	return nil
})

var c20Gens = []string{
	"0 | recurse([. + 1][])", "0 | recurse({a: (. + 1)}[])", "0 | repeat([. + 1][])", "[0] | recurse([.[0] + 1]; true) | .[0]", "0 | recurse(. + 1; . >= 0)", "def f: ., ([. + 1][] | f); 0 | f", "def f: ., ({a: (. + 1)} | .[] | f); 0 | f", "0 | while(true; [. + 1][])", "range(infinite) | [.][]", "range(infinite) | {a: .}[]",
	"0 | recurse(if . % 2 == 0 then [. + 1][] else {a: (. + 1)}[] end)", "0 | recurse(. + 1; true) | [.][]",
	"range(infinite)", "range(1e9)", "range(0; 1e9; 3)", "range($n * 100)", "range(0; infinite; 1)", "range(5; -infinite; -1)",
	"0 | while(true; . + 1)", "0 | while(. < 1e9; . + 2)", "repeat(1)", "0 | repeat(. + 1)", "0 | recurse(. + 1)", "0 | recurse(. + 1; true)", "0 | recurse(. + 1; . < 1e9)",
	"limit($n * 100; repeat(1))", "limit($n * 100; range(infinite))", "repeat(first(range(3; 10)))", "repeat(first(repeat(2)))", "inputs", "repeat(input)", "foreach range(infinite) as $x (0; . + 1)",
	"foreach range(infinite) as $x (0; . + $x; [$x, .])", "foreach inputs as $x (0; . + 1; .)", "range(infinite) | select(. % 2 == 0)", "def f: ., (. + 1 | f); 0 | f", "def f: (. + 1 | ., f); 0 | f",
	"def f: if . < 0 then empty else ., (. + 1 | f) end; 0 | f", "def f: ., ((. + 1) as $x | $x | f); 0 | f", "def f: ., (if . % 2 == 0 then . + 1 | f else . + 3 | f end); 0 | f",
	"def f: def g: . + 1; ., (g | f); 0 | f", "def f: (select(. < 0) | .) // (., (. + 1 | f)); 0 | f", "def f: ., ([., 1] | add | f); 0 | f", "def f: ., (reduce (1, 2) as $x (.; . + $x) | f); 0 | f",
	"def f: ., ({a: (. + 1)} | .a | f); 0 | f", "def f: ., (. + 1 | if . > 5 then . - 5 | f else f end); 0 | f", "def f: def g: ., (. + 1 | g); g; 0 | f",
	"range(infinite) | first(range(3))", "range(infinite) | last(range(3))", "range(infinite) | [limit(3; repeat(.))] | length", "range(infinite) | until(. % 7 == 0; . + 1)", "range(infinite) | reduce range(3) as $i (.; . + $i)",
	"range(infinite) | [foreach range(3) as $i (0; . + $i)] | add", "range(infinite) | [., 1] | add", "range(infinite) | {a: .} | .a", "range(infinite) | tostring | length", "range(infinite) | [recurse(if . % 4 > 0 then . + 1 else empty end)] | length",
	"foreach range(infinite) as $i (0; . + 1; select(. % 2 == 0))", "foreach range(infinite) as $i ([]; [$i]; .[0])", "limit($n * 100; foreach range(infinite) as $i (0; . + 1))", "first(range(infinite) | select(. > -1), 1) , range(infinite)",
	"range(infinite) | try (if . % 2 == 0 then error(\"x\") else . end) catch 0", "range(infinite) | (.[0]? // 5)", "range(infinite) as $x | $x", "range(infinite) | . as [$a] ?// $a | $a", "range(infinite) | label $l | (., break $l)", "label $l | range(infinite)",
	"range(infinite) | isempty(empty)", "range(infinite) | [.] | .[0]", "range(infinite) | path(.)", "range(infinite) | [1, 2, 3] | .[1:] | .[0]", "[range(10)] | repeat(.[] | select(. > 7))", "repeat(range(3))", "range(infinite) | range(2)",
	"range(infinite) | (1, 2)", "0 | recurse(. + 1) | select(. % 3 == 0)", "limit(1e9; 0 | repeat(. + 1))", "range(infinite) | \"x\\(.)\" | length", "range(infinite) | {a: 1} | .a |= . + 1 | .a", "range(infinite) | [1, 2] | .[] += 1 | add", "range(infinite) | [3, 1, 2] | sort | first",
}

var c20Loops = []string{
	// a value joined from two branches (or alternatives) is replaced by a variable: the slot of the branch not taken must not stay behind
	"0 as $a | 1 as $one | def f: . as $v | (if $v >= 0 then . else $a end | $one) | . + $v | if . >= $n then . else f end; 0 | f", "0 as $a | 1 as $one | def f: . as $v | ((., $a) | $one) | select(. == 1) | first(., .) + $v - 0 | if . >= $n then . else f end; 0 | f"[:0] + "0 as $a | 1 as $one | def f: . as $v | (if $v < 0 then $a else . end | $one) + $v | if . >= $n then . else f end; 0 | f",
	"1 as $one | 0 | until(. >= $n; . as $v | (if $v >= 0 then . else 0 end | $one) + $v)", "1 as $one | reduce range($n) as $i (0; . as $v | (if $v >= 0 then . else $i end | $one) + $v)",
	"[1] as [$one] | def f: . as $v | (if $v % 2 == 0 then [$v] else $v end | $one) + $v | if . >= $n then . else f end; 0 | f", "{a: 1} as {a: $one} | def f: (. as $v | if . then ., $v else $v end | $one) + . | if . >= $n then . else f end; 0 | [limit(1; f)] | .[0]"[:0] + "{a: 1} as {a: $one} | def f: . as $v | (if true then $v else . end | $one) + $v | if . >= $n then . else f end; 0 | f",
	// turns that catch an error (of a builtin, of error/1, of an index, of a failed conversion): what the failed body had on the stack must be gone
	"0 | until(. >= $n; . as $i | try (\"x\" | tonumber) catch ($i + 1))", "0 | until(. >= $n; . as $i | try error(\"x\") catch ($i + 1))", "0 | until(. >= $n; . as $i | try error({a: $i}) catch (.a + 1))", "0 | until(. >= $n; . as $i | try ({} | keys[0] | ascii_downcase) catch ($i + 1))",
	"def f: if . >= $n then . else . as $i | try ([] | implode | .[0] | error) catch ($i + 1) | f end; 0 | f", "def f: if . >= $n then . else . as $i | try ({} | .[0]) catch ($i + 1) | f end; 0 | f", "def f: if . >= $n then . else . as $i | (try (\"a\" | . - 1) catch $i) + 1 | f end; 0 | f",
	"0 | until(. >= $n; . as $i | [.[0]?, $i + 1] | .[-1])", "0 | until(. >= $n; . as $i | (try error catch $i) + 1)", "0 | until(. >= $n; . as $i | try (null | fromjson) catch ($i + 1))", "reduce range($n) as $i (0; try (\"x\" | tonumber) catch ($i + 1))", "last(foreach range($n) as $i (0; try ({} | has(0)) catch ($i + 1)))",
	"last(limit($n + 1; 0 | recurse(. as $i | try (\"x\" | tonumber) catch ($i + 1))))", "0 | last(while(. < $n; . as $i | try ({a: 1} | .[0]) catch ($i + 1)))", "def f: if . >= $n then . else . as $i | try (try (\"x\" | tonumber) catch error) catch ($i + 1) | f end; 0 | f",
	// turns that evaluate a path expression which forks while it is tracked (updates of several members, paths of alternatives)
	"reduce range($n) as $i ([0, 0]; .[] |= . + 1) | .[0]", "[0, 0] | until(.[0] >= $n; map_values(. + 1)) | .[0]", "last(range($n) as $i | path(.a | (.b, .c)) | $i + 1)", "{a: 0, b: 0} | until(.a >= $n; (.a, .b) |= . + 1) | .a", "def f: if .[0] >= $n then .[0] else (.[] |= . + 1) | f end; [0, 0] | f",
	"reduce range($n) as $i ({a: [0, 0]}; .a[] += 1) | .a[0]", "last(foreach range($n) as $i ([0, 0, 0]; (.[0], .[2]) |= . + 1; .[0]))", "[0] | last(while(.[0] < $n; (.. | numbers) |= . + 1)) | .[0] + 1", "reduce range($n) as $i ([0, 0]; del(.[2:]) | (.[0] // .[1]) |= . + 1) | .[0]", "last(limit($n; repeat([1, 2] | path(.[])))) | .[0] + $n - 1",
	// turns that pass through the last (or only) member of a container before going on without backtracking
	"0 | until(. >= $n; [. + 1][])", "0 | until(. >= $n; {a: (. + 1)}[])", "0 | until(. >= $n; [., . + 1] | .[1:][])", "0 | until(. >= $n; [. + 1] | .[0:][])", "0 | until(. >= $n; {a: (. + 1)} | .[keys[]])", "0 | until(. >= $n; {a: (. + 1)} | to_entries[] | .value)",
	"0 | until(. >= $n; tostring | split(\",\")[] | tonumber + 1)", "0 | until(. >= $n; [[. + 1]][][])", "0 | until(. >= $n; . + 1 | tostring | [scan(\"[0-9]+\")][] | tonumber)", "0 | until(. >= $n; [. + 1] | .[-1:][])",
	"def f: if . >= $n then . else [. + 1] | .[] | f end; 0 | f", "def f: if . >= $n then . else {a: (. + 1)} | .[] | f end; 0 | f", "def f: if . >= $n then . else ([. + 1][] | f) end; 0 | f", "def f: if . >= $n then . else [. + 1] | .[] as $x | $x | f end; 0 | f",
	"last(limit($n + 1; 0 | recurse(. + 1; true)))", "last(limit($n + 1; 0 | recurse(. + 1; . >= 0)))", "last(limit($n + 1; [0] | recurse([.[0] + 1]; true))) | .[0]", "last(limit($n + 1; 0 | recurse([. + 1][])))", "last(limit($n + 1; 0 | recurse(. + 1)))", "[limit($n + 1; 0 | recurse(. + 1; true))] | length",
	"nth($n; 0 | recurse(. + 1; true))", "first(0 | recurse(. + 1; true) | select(. >= $n))", "last(limit($n; repeat([1][])))", "reduce range($n) as $i (0; [. + 1][])", "reduce range($n) as $i ([0]; [.[] + 1])  | .[0]", "last(foreach range($n) as $i (0; [. + 1][]))",
	"reduce range($n) as $x (0; . + $x)", "last(range($n))", "0 | until(. >= $n; . + 1)", "[limit($n; repeat(1))] | length", "reduce limit($n; repeat(1)) as $x (0; . + $x)", "last(limit($n; range(infinite)))",
	"first(range($n; infinite))", "reduce range($n) as $x (0; . + 1) | . + 1", "last(0 | while(. < $n; . + 1))", "last(0 | recurse(. + 1; . < $n))", "reduce (0 | recurse(. + 1; . < $n)) as $x (0; . + 1)", "last(foreach range($n) as $x (0; . + 1))",
	"reduce foreach range($n) as $x (0; . + 1) as $y (0; $y)", "nth($n; range(infinite))", "isempty(range($n) | select(. < 0))", "all(range($n); . >= 0)", "any(range($n); . < 0)", "[range($n) | select(. < 0)] | length", "last(limit($n; inputs))", "reduce limit($n; inputs) as $x (0; . + 1)",
	"def f: if . >= $n then . else (. + 1 | f) end; 0 | f", "def f: if . < $n then (. + 1 | f) else . end; 0 | f", "def f: if . >= $n then . elif . % 2 == 0 then (. + 1 | f) else (. + 1 | f) end; 0 | f",
	"def f: (if . >= $n then . else empty end) // (. + 1 | f); 0 | f", "def f: . as $x | if $x >= $n then $x else ($x + 1 | f) end; 0 | f", "def f: . as [$a, $b] | if $a >= $n then $a else ([$a + 1, $b] | f) end; [0, 1] | f",
	"def f: def g: . + 1; if . >= $n then . else (g | f) end; 0 | f", "def f: reduce (1) as $x (.; . + $x) | if . >= $n then . else f end; 0 | f", "def f: [., 1] | add | if . >= $n then . else f end; 0 | f",
	"def f: {a: (. + 1)} | .a | if . >= $n then . else f end; 0 | f", "def f: if . >= $n then . else (. + 1 | f) end; def g: f; 0 | g", "def f: def h: if . >= $n then . else (. + 1 | h) end; h; 0 | f",
	"def f: if . >= $n then . else (. + 1 | if . % 3 == 0 then f else f end) end; 0 | f", "def f: (. + 1) as $y | $y | if . >= $n then . else f end; 0 | f",
	"def f: if . >= $n then . else (. + 1 | f) end; [range(3) | f] | add", "def f: if . >= $n then \"done\" else (. + 1 | f) end; 0 | f | length", "last(def f: ., (select(. < $n) | . + 1 | f); 0 | f)", "def f: if .[0] >= $n then .[0] else ([.[0] + 1, .[1]] | f) end; [0, \"x\"] | f",
	"reduce range($n) as $x (0; . + 1) | reduce range(.) as $y (0; . + 1)", "last(range($n) | first(range(3)))", "reduce range($n) as $x (0; . + (last(range(3)) // 0))", "reduce range($n) as $x (0; . + ([limit(2; repeat(1))] | length))", "reduce range($n) as $x (0; until(. % 5 == 0; . + 1) + 1)",
	"reduce range($n) as $x (null; [$x])  | .[0]", "reduce range($n) as $x ({}; .a = $x) | .a", "reduce range($n) as $x ([0]; .[0] += 1) | .[0]", "reduce (range($n) | [.]) as [$a] (0; . + $a)", "last(range($n) | try error(.) catch .)",
	"last(range($n) | (.a? // .))", "last(range($n) | . as [$a] ?// $a | $a)", "last(range($n) | label $l | (., break $l))", "label $l | last(range($n))", "last(range($n) | tostring) | length", "last(range($n) | [., 1] | .[0])", "[range($n)] | length", "[range($n)] | last", "[range($n)] | map(. + 1) | add | . > 0", "[range($n)] | .[] |= . + 1 | length",
}

// call sites for a loop that ends with one result (%F is the start of the loop) ...
var c20Sites = []string{"[%F] | .[0]", "(0, 1) | f", "try (%F) catch .", "(%F) // 7", "label $l | %F", "reduce (%F) as $r (0; . + $r)", "first(%F)", "{a: (%F)} | .a", "[limit(1; %F)] | .[0]", "0 as $q | %F", "def w: %F; w",
	"(%F) as $r | $r", "[1, (%F)] | .[1]", "%F | . + 0", "[range(2) | f] | .[0]", "(%F)?", "[.[]?, (%F)] | .[0]", "if true then %F else 0 end", "(empty, (%F))", "first((%F), 5)", "[%F, 1] | .[0]", "(null | %F)", "def w(g): g; w(%F)",
	"foreach (%F) as $r (0; . + $r)", "last(%F)", "isempty(%F) | if . then 0 else 1 end", "[(%F) | select(. >= 0)] | .[0]", "\"\\(%F)\" | length", "(%F) as [$a] ?// $a | $a", "[paths] as $p | %F"}

// ... and for an unbounded generator
var c20GenSites = []string{"(0, 1) | f", "try (%F) catch .", "(%F) // 7", "label $l | %F", "0 as $q | %F", "def w: %F; w", "(%F) as $r | $r", "%F | . + 0", "(%F)?", "if true then %F else 0 end", "(empty, (%F))", "(null | %F)", "def w(g): g; w(%F)",
	"foreach (%F) as $r (0; . + 1)", "(%F) | select(. >= 0)", "(%F) as [$a] ?// $a | $a", "limit(1e9; %F)", "first(%F), (%F)", "(%F) | [.] | .[0]", "[1] | .[] as $e | %F"}

// c20TR generates a parameterless definition body whose self call `name` is in
// syntactic tail position. emit=true: the body also emits `.` before recursing
// (an unbounded generator); otherwise it loops until `. >= $n`.
func c20TR(r *rand.Rand, name string, emit bool, d int) string {
	steps := []string{". + 1", "[., 1] | add", "{a: (. + 1)} | .a", "reduce (1) as $x (.; . + $x)", ". as $y | $y + 1", "(. + 1) as $z | $z", ". + 2 - 1", "[.] | .[0] + 1", "[limit(1; repeat(.))] | .[0] + 1", "last(0, . + 1)"}
	step := steps[r.IntN(len(steps))]
	base := func() string {
		if emit {
			switch r.IntN(3) {
			case 0:
				return "., (" + step + " | " + name + ")"
			case 1:
				return "(" + step + " | ., " + name + ")"
			}
			return "if . < 0 then empty else ., (" + step + " | " + name + ") end"
		}
		switch r.IntN(3) {
		case 0:
			return "if . >= $n then . else (" + step + " | " + name + ") end"
		case 1:
			return "if . < $n then (" + step + " | " + name + ") else . end"
		}
		return "(if . >= $n then . else empty end) // (" + step + " | " + name + ")"
	}
	if d <= 0 {
		return base()
	}
	t := func() string { return c20TR(r, name, emit, d-1) }
	switch r.IntN(9) {
	case 0:
		return "if " + []string{". % 2 == 0", "true", ". > -1", "false", ". % 3 == 1"}[r.IntN(5)] + " then " + t() + " else " + t() + " end"
	case 1:
		return ". as $v" + fmt.Sprint(d) + " | " + t()
	case 2:
		return "def g" + fmt.Sprint(d) + ": . + 0; " + t()
	case 3:
		return "(" + []string{"empty", "null", "false, null", "empty, false"}[r.IntN(4)] + ") // (" + t() + ")"
	case 4:
		if emit {
			return "(empty), (" + t() + ")"
		}
		return "empty, (" + t() + ")"
	case 5:
		return "(. + 0) | " + t()
	case 6:
		return "[., 0] as [$a" + fmt.Sprint(d) + ", $b" + fmt.Sprint(d) + "] | " + t()
	case 7:
		inner := name + "i"
		return "def " + inner + ": " + c20TR(r, inner, emit, d-1) + "; " + inner
	}
	return "if . == null then 0 | " + name + " elif . % 5 == 0 then " + t() + " else " + t() + " end"
}

func init() {
	run.Register(&run.Prop{
		ID: "C20", Level: "exploration", MinNontrivial: 100,
		Rule:        "a case is (iteration form, mode, n). gen: one live iterator is advanced by the real VM; the interpreter footprint (lengths of the data stack, path stack, scope stack and register file backing arrays — high-water marks — plus fork-stack capacity, read through the verif hook) is read after n and after 8n outputs and must not grow by more than 16 slots; loop: the form is run to its first result with $n = n and $n = 8n and the footprints compared the same way. Forms: every iteration builtin named by the property (range, while, until, repeat, recurse, limit, first, last, reduce, foreach, inputs over an endless iterator), each nested one level inside others, and parameterless self-recursive definitions whose recursive call is in syntactic tail position (branch of if/elif/else, right of a pipe whose left side is single-output, right operand of //, last operand of a comma, body of `as` incl. destructuring, after local defs, inner tail-recursive definitions). A prefix of the outputs / the result is also compared with the reference interpreter so that constant space is not obtained by dropping values. command: the real command consumes a 4 MiB and a 48 MiB stream from a pipe (9 line disciplines x consuming programs) with GODEBUG=gctrace=1; the smallest reachable heap the last four collection cycles of a run report (one P, so that collector and program are starved together) must not be more than 16 MB larger for the large stream, in three runs out of three (peak RSS is recorded, not judged: it depends on the load of the machine). command-files: `inputs`, `input`, --slurp, --stream, -R and the per-input loop over 150 and over 600 one-line files with a descriptor limit of 32 (soft and hard) must reach the last file and print the count and sum of what the files hold. Non-trivial = every distinct (form, mode, n).",
		Assumptions: []string{"interpreter state = the five structures exposed by VerifFootprint; Go heap retained elsewhere is measured only for the command, through the collector's own trace", "tail position is syntactic and fork-free; calls under try/label/left of // and functions with parameters are outside the statement"},
		Body: func(c *run.Ctx) {
			ns := []int{1000}
			if !c.Quick() {
				ns = []int{1000, 2000, 5000}
			}
			for _, n := range ns {
				for _, src := range c20Gens {
					kC20.Do(c, c20Case{Src: src, Mode: "gen", N: n})
				}
				for _, src := range c20Loops {
					kC20.Do(c, c20Case{Src: src, Mode: "loop", N: n})
				}
			}
			// the command: every line discipline x every way of consuming the stream
			styles := []string{"lf", "pretty", "crlf", "cr", "prettycrlf", "space", "tab-indented", "mixed", "long-line"}
			for si, style := range styles {
				for ai, args := range [][]string{{"-n", "reduce inputs as $x (0; . + $x.a)"}, {"-n", "[limit(1e9; inputs)] | length"}, {"-n", "last(foreach inputs as $x (0; . + 1))"}, {"-c", "-n", "reduce (inputs | .b[0]) as $x (0; . + $x) / 2"}} {
					if ai == 1 {
						continue // collecting all inputs legitimately needs memory
					}
					if c.Quick() && (si+ai)%3 != 0 {
						continue
					}
					kC20Cmd.Do(c, c20CmdCase{Style: style, Args: args})
				}
			}
			// ... and over more files than the process may hold open
			for _, t := range c20FilesCases {
				kC20Files.Do(c, t)
			}
			r := c.Rand("c20")
			for i, m := 0, c.N(600, 10000); i < m; i++ {
				emit := r.IntN(2) == 0
				body := c20TR(r, "f", emit, 1+r.IntN(3))
				src := "def f: " + body + "; 0 | f"
				mode := "loop"
				if emit {
					mode = "gen"
				}
				kC20.Do(c, c20Case{Src: src, Mode: mode, N: ns[r.IntN(len(ns))]})
				// the same definition started from a call site that has something pending (a fork, a frame, a binding)
				site := c20Sites[r.IntN(len(c20Sites))]
				if emit {
					site = c20GenSites[r.IntN(len(c20GenSites))]
				}
				kC20.Do(c, c20Case{Src: "def f: " + body + "; " + strings.ReplaceAll(site, "%F", "0 | f"), Mode: mode, N: ns[r.IntN(len(ns))]})
			}
		},
	})
}
