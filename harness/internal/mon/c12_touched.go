package mon

import (
	"fmt"
	"strings"

	"verif/harness/internal/run"
)

// c12.touched: number literals with hostile spellings (negative zeros with fractions and exponents, values that
// underflow or overflow a double, trailing zeros, huge integers and fractions) arrive from the input and are touched
// by one operation that may or may not keep their spelling (negation, abs, tonumber, an update, arithmetic identities).
// Whatever the result is, it is written as valid JSON in every output mode, all modes agree, the YAML text reads back
// as the same value and `tojson | fromjson` gives it back.

type c12TouchedCase struct {
	Lits []string
	Prog string
}

var c12TouchedModes = [][]string{{"-c"}, {}, {"--tab"}, {"--indent", "1"}, {"-r"}, {"-c", "-C"}}

var kC12Touched = run.NewKind("c12.touched", func(c *run.Ctx, t c12TouchedCase) *run.Fail {
	stdin := []byte("[" + strings.Join(t.Lits, ", ") + "]\n")
	one := func(args ...string) (run.CLIResult, bool) {
		r := run.CLI(run.CLIOpt{Args: args, Stdin: stdin, Env: c12Env("")})
		c.Count("process_runs", 1)
		if r.TimedOut || r.StartErr != nil {
			c.Inconclusive("cli-timeout")
			return r, false
		}
		return r, true
	}
	desc := fmt.Sprintf("input [%s], program %q", strings.Join(t.Lits, ", "), t.Prog)
	var ref string
	var refOut []byte
	for mi, mode := range c12TouchedModes {
		r, ok := one(append(append([]string{}, mode...), t.Prog)...)
		if !ok {
			return nil
		}
		if r.Code != 0 {
			if mi == 0 {
				c.Inconclusive("program-fails") // e.g. abs of something that is not a number: not this kind's business
				return nil
			}
			return run.Failf("%s: %v exits %d (%s) where -c exits 0", desc, mode, r.Code, run.Clip(string(r.Stderr)))
		}
		out := r.Stdout
		if len(mode) == 2 && mode[1] == "-C" {
			stripped, _, err := c12StripSGR(out)
			if err != nil {
				return run.Failf("%s: malformed colour sequences under %v: %v", desc, mode, err)
			}
			out = stripped
		}
		docs, malformed := c15Decode(out)
		if malformed {
			return run.Failf("%s: the output under %v is not JSON: %s", desc, mode, run.Clip(string(r.Stdout)))
		}
		got := run.Canon(docs)
		if mi == 0 {
			ref, refOut = got, r.Stdout
		} else if got != ref {
			return run.Failf("%s: the output under %v reads %s, under -c %s", desc, mode, run.Clip(got), run.Clip(ref))
		}
	}
	// YAML out and back in
	ry, ok := one("--yaml-output", t.Prog)
	if !ok {
		return nil
	}
	if ry.Code != 0 {
		return run.Failf("%s: --yaml-output exits %d (%s)", desc, ry.Code, run.Clip(string(ry.Stderr)))
	}
	rb := run.CLI(run.CLIOpt{Args: []string{"--yaml-input", "-c", "."}, Stdin: ry.Stdout, Env: c12Env("")})
	c.Count("process_runs", 1)
	if rb.TimedOut || rb.StartErr != nil {
		c.Inconclusive("cli-timeout")
		return nil
	}
	if a, b := c12NumNorm(rb.Stdout), c12NumNorm(refOut); rb.Code != 0 || a == "" || a != b {
		return run.Failf("%s: the --yaml-output text %q reads back (exit %d) as %s, the JSON output is %s", desc, run.Clip(string(ry.Stdout)), rb.Code, run.Clip(string(rb.Stdout)), run.Clip(ref))
	}
	// tojson | fromjson
	// (compared as texts: an infinite result is written saturated and reads back finite, which the property allows)
	rt, ok := one("-c", "("+t.Prog+") | (tojson | fromjson | tojson) == tojson")
	if !ok {
		return nil
	}
	if s := strings.Join(strings.Fields(string(rt.Stdout)), " "); rt.Code != 0 || strings.Contains(s, "false") || !strings.Contains(s, "true") {
		return run.Failf("%s: (tojson | fromjson | tojson) == tojson gives %s, exit %d, %s", desc, run.Clip(s), rt.Code, run.Clip(string(rt.Stderr)))
	}
	c.Nontrivial(t.Prog + "\x00" + strings.Join(t.Lits, ","))
	return nil
})

// c12NumNorm rewrites a stream of JSON documents with every number by value: YAML does not keep the spelling.
func c12NumNorm(docs []byte) string {
	r := run.CLI(run.CLIOpt{Args: []string{"-c", "walk(if type == \"number\" then . + 0 else . end)"}, Stdin: docs, Env: c12Env("")})
	if r.Code != 0 {
		return ""
	}
	return strings.TrimSpace(string(r.Stdout))
}

var c12TouchedLits = [][]string{
	{"-0.0", "-0e0", "-0.000", "-0", "0.0", "0e5", "-0E-3"},
	{"-1e-400", "1e-400", "-1e1000", "1e1000", "-0.1e-999", "5e-324", "-5e-324"},
	{"1.10", "-1.10", "1.000", "100000000000000000000.5", "-100000000000000000000.5", "0.10000000000000000000001", "3.14159265358979323846264338327950288"},
	{"9223372036854775807", "-9223372036854775808", "9223372036854775808", "-9223372036854775809", "18446744073709551616", "1E2", "-1e+2"},
	{"-0.0"}, {"-1e-400"}, {"-0e0", "1"},
}

var c12TouchedProgs = []string{"map(-.)", "map(-(-.))", ".[] |= -.", "map(. as $x | -$x)", "map(abs)", "map(tonumber)", "map(. + 0)", "map(. * 1)", "map(. - 0)", "map(floor)?", "map(-. | tojson)", "map(tostring)", "map([-.] | tojson)", "map(-. | @text)", "map(-. | @json)", "map({a: -.})",
	"map(\"\\(-.)\")", "map(-. | tostring | tonumber)", "[.[] | -., .]", "map(-.) | sort", "map(-.) | unique", "map(-.) | tojson | fromjson", "map(-. | . == 0)", "map(0 - .)", "map(. / -1)?", "map(-. | -. )", "map(length)", "map(-. | length)", "map(-.) | min, max", "map(-.) | add", "to_entries | map(.value |= -.) | from_entries?"[:0] + "map(-.) | to_entries | map(.value)"}
